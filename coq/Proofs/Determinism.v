(* Determinism.v — the iteration order of Go maps is irrelevant.

   The Go code ranges over Go maps (unspecified, randomised order) at three places; the model iterates
   over a fixed list. Here: the model functions give the same result for EVERY permutation of the
   iterated list, so whatever order the Go runtime picks, the outcome is the one of the model.

   D1  shift_layers_perm      phase2 feasible_loop:  for n := range treeNodes { n.Layer += d }
   D2  blockmax_perm(_eq)     phase4 sink coloring:  for n, x := range xcoord { blockmax[roots[n]] = max(..) }
       exec_sink_coloring_perm   ... lifted through placeBlock to the result of exec_sink_coloring
   D3  fold_Qmin'_perm / fold_Qmax'_perm   generic (Brandes-Koepf min/max over a map, not modelled) *)
From Autog Require Import Base Graph Phase2 Phase4 Positioners Scale.
From Coq Require Import Lqa Lia Permutation Morphisms RelationClasses.
Local Open Scope Q_scope.
Set Implicit Arguments.

(* ================================================================================================ *)
(** * Generic: a fold whose steps commute does not depend on the order of the list *)

(* R: the notion of "same result" (Leibniz eq, Qeq, pointwise Qeq, ...); P: a property of the elements
   under which the steps commute. *)
Section FoldPerm.
  Variables (A X : Type) (R : A -> A -> Prop) (P : X -> Prop) (f : A -> X -> A).
  Hypothesis R_equiv : Equivalence R.
  Hypothesis f_resp : forall a a' x, R a a' -> R (f a x) (f a' x).
  Hypothesis f_comm : forall a x y, P x -> P y -> R (f (f a x) y) (f (f a y) x).

  Lemma fold_left_resp : forall l a a', R a a' -> R (fold_left f l a) (fold_left f l a').
  Proof. induction l as [|x l IH]; cbn; intros a a' H; auto. Qed.

  Lemma fold_left_perm_gen : forall l l', Permutation l l' -> Forall P l ->
    forall a, R (fold_left f l a) (fold_left f l' a).
  Proof.
    intros l l' Hp. induction Hp as [|x l l' Hp IH|x y l|l l' l'' Hp1 IH1 Hp2 IH2]; intros HP a.
    - reflexivity.
    - cbn. apply IH. inversion HP; auto.
    - cbn. apply fold_left_resp. inversion HP as [|? ? Py HP']; subst. inversion HP' as [|? ? Px HP'']; subst.
      apply f_comm; auto.
    - transitivity (fold_left f l' a); [apply IH1; auto|apply IH2].
      eapply Permutation_Forall; eauto.
  Qed.
End FoldPerm.

(* ================================================================================================ *)
(** * upd: updates of distinct slots commute, updates of the same slot compose *)

Lemma upd_comm : forall A (l : list A) i j (f h : A -> A),
  i <> j -> upd (upd l i f) j h = upd (upd l j h) i f.
Proof.
  intros A l; induction l as [|x t IH]; intros i j f h Hij; [destruct i, j; reflexivity|].
  destruct i as [|i], j as [|j]; cbn [upd]; try reflexivity; [congruence|].
  f_equal. apply IH. congruence.
Qed.

Lemma upd_upd : forall A (l : list A) i (f h : A -> A),
  upd (upd l i f) i h = upd l i (fun a => h (f a)).
Proof.
  intros A l; induction l as [|x t IH]; intros i f h; [destruct i; reflexivity|].
  destruct i as [|i]; cbn [upd]; [reflexivity|]. f_equal. apply IH.
Qed.

Lemma upd_ext : forall A (l : list A) i (f h : A -> A),
  (forall a, f a = h a) -> upd l i f = upd l i h.
Proof.
  intros A l; induction l as [|x t IH]; intros i f h H; [destruct i; reflexivity|].
  destruct i as [|i]; cbn [upd]; [rewrite H; reflexivity|]. f_equal. apply IH, H.
Qed.

(* the same update function at two slots: commutes whether or not the slots coincide *)
Lemma upd_comm_same_fun : forall A (l : list A) i j (f : A -> A),
  upd (upd l i f) j f = upd (upd l j f) i f.
Proof.
  intros A l i j f. destruct (Nat.eq_dec i j) as [->|H]; [reflexivity|apply upd_comm, H].
Qed.

Lemma upd_node_comm_same_fun : forall g i j (f : node -> node),
  upd_node (upd_node g i f) j f = upd_node (upd_node g j f) i f.
Proof.
  intros g i j f. unfold upd_node, with_na. cbn [g_na g_ea g_N g_E g_L].
  rewrite upd_comm_same_fun. reflexivity.
Qed.

(* ================================================================================================ *)
(** * D1: shifting the layers of the tree nodes (phase2/network_simplex.go, feasibleTree) *)

Definition shift_layers (d : Z) (tree : list nat) (g : graph) : graph :=
  fold_left (fun g n => upd_node g n (fun nd => set_layer (n_layer nd + d) nd)) tree g.

(* this is literally the expression in feasible_loop *)
Lemma feasible_loop_uses_shift_layers : forall f g,
  feasible_loop (S f) g =
  match g_N g with
  | [] => Err (ErrIndex 25)
  | root :: _ =>
      let g := fold_left (fun g e => upd_edge g e (set_tree false)) (g_E g) g in
      do st <- tight_tree (S (length (g_na g))) root (g, [], []);
      let '(g, _, tree) := st in
      if Nat.eqb (length tree) (length (g_N g)) then Ok g else
      match incident_non_tree_edge g tree with
      | None => Err ErrNoIncidentEdge
      | Some e =>
          let d := slack g e in
          let d := if mem_nat (e_to (gedge g e)) tree then (- d)%Z else d in
          feasible_loop f (shift_layers d tree g)
      end
  end.
Proof. reflexivity. Qed.

(* Stronger than requested: NoDup is not needed. Two updates of the same slot by the same function
   commute trivially, updates of distinct slots commute because they touch different arena entries,
   out-of-range indices are the identity. *)
Theorem shift_layers_perm_gen : forall l l' d g,
  Permutation l l' -> shift_layers d l g = shift_layers d l' g.
Proof.
  intros l l' d g Hp. unfold shift_layers.
  apply (@fold_left_perm_gen graph nat eq (fun _ => True)); auto.
  - apply eq_equivalence.
  - intros a a' x ->. reflexivity.
  - intros a x y _ _. apply upd_node_comm_same_fun.
  - apply Forall_forall. auto.
Qed.

(* the statement as requested *)
Theorem shift_layers_perm : forall l l' d g,
  Permutation l l' -> NoDup l ->
  fold_left (fun g n => upd_node g n (fun nd => set_layer (n_layer nd + d) nd)) l g =
  fold_left (fun g n => upd_node g n (fun nd => set_layer (n_layer nd + d) nd)) l' g.
Proof. intros l l' d g Hp _. apply (shift_layers_perm_gen d g Hp). Qed.
Print Assumptions shift_layers_perm.
Print Assumptions shift_layers_perm_gen.

(* a concrete instance: 4 nodes, the tree {2,0,3} in two orders, one index (7) out of range *)
Definition d1_g : graph :=
  mkGraph [mkNode [] [0%nat] 0 0 false 0 0 1 1; mkNode [0%nat] [] 1 0 false 0 0 1 1;
           mkNode [] [] 5 0 false 0 0 1 1; mkNode [] [] (-2) 0 true 0 0 0 0] [] [0;1;2;3]%nat [] [].

Example shift_layers_perm_ex :
  Permutation [2;0;3;7]%nat [7;3;2;0]%nat /\ NoDup [2;0;3;7]%nat /\
  shift_layers 4 [2;0;3;7]%nat d1_g = shift_layers 4 [7;3;2;0]%nat d1_g /\
  map n_layer (g_na (shift_layers 4 [2;0;3;7]%nat d1_g)) = [4; 1; 9; 2]%Z.
Proof.
  split; [|split; [|split; [|reflexivity]]].
  - apply (Permutation_trans (l' := [7;2;0;3]%nat)).
    + apply Permutation_sym. apply (Permutation_cons_append [2;0;3]%nat 7%nat).
    + apply perm_skip. apply Permutation_sym. apply (Permutation_cons_append [2;0]%nat 3%nat).
  - repeat constructor; cbn; intuition discriminate.
  - apply shift_layers_perm_gen.
    apply (Permutation_trans (l' := [7;2;0;3]%nat)).
    + apply Permutation_sym. apply (Permutation_cons_append [2;0;3]%nat 7%nat).
    + apply perm_skip. apply Permutation_sym. apply (Permutation_cons_append [2;0]%nat 3%nat).
Qed.

(* ================================================================================================ *)
(** * D3: min / max over a permuted list *)

Lemma Qle_bool_true a b : Qle_bool a b = true -> a <= b.
Proof. apply Qle_bool_iff. Qed.

Ltac qcases :=
  unfold Qmax', Qmin';
  repeat match goal with
         | |- context [Qle_bool ?a ?b] =>
             lazymatch a with context [Qle_bool _ _] => fail | _ => idtac end;
             lazymatch b with context [Qle_bool _ _] => fail | _ => idtac end;
             let E := fresh "E" in destruct (Qle_bool a b) eqn:E;
             [apply Qle_bool_true in E|apply Qle_bool_false in E]; cbv iota
         end.

Lemma Qmax'_congr : forall a a' b b', a == a' -> b == b' -> Qmax' a b == Qmax' a' b'.
Proof. intros a a' b b' Ha Hb. qcases; lra. Qed.

Lemma Qmin'_congr : forall a a' b b', a == a' -> b == b' -> Qmin' a b == Qmin' a' b'.
Proof. intros a a' b b' Ha Hb. qcases; lra. Qed.

Lemma Qmax'_comm3 : forall m x y, Qmax' (Qmax' m x) y == Qmax' (Qmax' m y) x.
Proof. intros m x y. qcases; lra. Qed.

Lemma Qmin'_comm3 : forall m x y, Qmin' (Qmin' m x) y == Qmin' (Qmin' m y) x.
Proof. intros m x y. qcases; lra. Qed.

Theorem fold_Qmin'_perm : forall l l' a,
  Permutation l l' -> fold_left Qmin' l a == fold_left Qmin' l' a.
Proof.
  intros l l' a Hp.
  apply (@fold_left_perm_gen Q Q Qeq (fun _ => True)); auto.
  - apply Q_Setoid.
  - intros; apply Qmin'_congr; auto; reflexivity.
  - intros; apply Qmin'_comm3.
  - apply Forall_forall; auto.
Qed.

Theorem fold_Qmax'_perm : forall l l' a,
  Permutation l l' -> fold_left Qmax' l a == fold_left Qmax' l' a.
Proof.
  intros l l' a Hp.
  apply (@fold_left_perm_gen Q Q Qeq (fun _ => True)); auto.
  - apply Q_Setoid.
  - intros; apply Qmax'_congr; auto; reflexivity.
  - intros; apply Qmax'_comm3.
  - apply Forall_forall; auto.
Qed.
Print Assumptions fold_Qmin'_perm.
Print Assumptions fold_Qmax'_perm.

(* also with Qeq-equal starting values *)
Corollary fold_Qmin'_perm' : forall l l' a a',
  Permutation l l' -> a == a' -> fold_left Qmin' l a == fold_left Qmin' l' a'.
Proof.
  intros l l' a a' Hp Ha. rewrite (fold_Qmin'_perm a Hp).
  apply (@fold_left_resp Q Q Qeq Qmin'); auto. intros; apply Qmin'_congr; auto; reflexivity.
Qed.

Corollary fold_Qmax'_perm' : forall l l' a a',
  Permutation l l' -> a == a' -> fold_left Qmax' l a == fold_left Qmax' l' a'.
Proof.
  intros l l' a a' Hp Ha. rewrite (fold_Qmax'_perm a Hp).
  apply (@fold_left_resp Q Q Qeq Qmax'); auto. intros; apply Qmax'_congr; auto; reflexivity.
Qed.

(* the shape of the Brandes-Koepf loop: one pass over (node, x) pairs computing both the minimum of x
   and the maximum of x + w; the pair of results does not depend on the order *)
Definition minmax_step (acc : Q * Q) (p : Q * Q) : Q * Q :=
  (Qmin' (fst acc) (fst p), Qmax' (snd acc) (fst p + snd p)).

Theorem minmax_perm : forall (l l' : list (Q * Q)) a,
  Permutation l l' ->
  fst (fold_left minmax_step l a) == fst (fold_left minmax_step l' a) /\
  snd (fold_left minmax_step l a) == snd (fold_left minmax_step l' a).
Proof.
  intros l l' a Hp.
  apply (@fold_left_perm_gen (Q * Q) (Q * Q) (fun u v => fst u == fst v /\ snd u == snd v) (fun _ => True)); auto.
  - split.
    + intros u; split; reflexivity.
    + intros u v [H1 H2]; split; symmetry; auto.
    + intros u v w [H1 H2] [H3 H4]; split; etransitivity; eauto.
  - intros u v p [H1 H2]. unfold minmax_step; cbn [fst snd]. split.
    + apply Qmin'_congr; auto; reflexivity.
    + apply Qmax'_congr; auto; reflexivity.
  - intros u p q _ _. unfold minmax_step; cbn [fst snd]. split; [apply Qmin'_comm3|apply Qmax'_comm3].
  - apply Forall_forall; auto.
Qed.
Print Assumptions minmax_perm.

Example fold_Qmin'_perm_ex :
  Permutation [3; (-1#2); 7; (2#4)] [7; (2#4); 3; (-1#2)] /\
  fold_left Qmin' [3; (-1#2); 7; (2#4)] 100 == fold_left Qmin' [7; (2#4); 3; (-1#2)] 100 /\
  fold_left Qmax' [3; (-1#2); 7; (2#4)] 0 == fold_left Qmax' [7; (2#4); 3; (-1#2)] 0.
Proof.
  assert (Hp : Permutation [3; (-1#2); 7; (2#4)] [7; (2#4); 3; (-1#2)]).
  { change [3; (-1#2); 7; (2#4)] with ([3; (-1#2)] ++ [7; (2#4)]).
    change [7; (2#4); 3; (-1#2)] with ([7; (2#4)] ++ [3; (-1#2)]). apply Permutation_app_comm. }
  split; [exact Hp|]. split; [apply fold_Qmin'_perm|apply fold_Qmax'_perm]; exact Hp.
Qed.

(* Leibniz equality can fail: 1/2 and 2/4 are Qeq, the fold returns whichever comes last *)
Example fold_Qmax'_not_leibniz :
  Permutation [(1#2); (2#4)] [(2#4); (1#2)] /\
  fold_left Qmax' [(1#2); (2#4)] 0 <> fold_left Qmax' [(2#4); (1#2)] 0.
Proof. split; [apply perm_swap|vm_compute; discriminate]. Qed.

(* ================================================================================================ *)
(** * D2: blockmax (phase4/sink_coloring.go) *)

Definition blockmax (rt : list nat) (xc : list Q) (nodes : list nat) (bm0 : list Q) : list Q :=
  fold_left (fun bm n => upd bm (nget rt n) (fun m => Qmax' m (qget xc n))) nodes bm0.

Definition qlist_eq (l l' : list Q) : Prop := Forall2 Qeq l l'.

Lemma qlist_eq_equiv : Equivalence qlist_eq.
Proof.
  split.
  - intros l. apply Forall2_refl_In. intros; reflexivity.
  - intros l l' H. induction H; constructor; auto. symmetry; auto.
  - intros l1 l2 l3 H. revert l3.
    induction H as [|x y l l' Hxy H IH]; intros l3 H3; inversion H3 as [|? z ? l3' Hyz H3']; subst; constructor.
    + rewrite Hxy. exact Hyz.
    + apply IH, H3'.
Qed.

Lemma qlist_eq_nth : forall l l', qlist_eq l l' ->
  length l = length l' /\ forall i, nth i l 0 == nth i l' 0.
Proof.
  intros l l' H. split; [symmetry; eapply Forall2_len; eauto|].
  intros i. apply Forall2_nth_rel; auto. reflexivity.
Qed.

Lemma nth_qlist_eq : forall l l',
  length l = length l' -> (forall i, nth i l 0 == nth i l' 0) -> qlist_eq l l'.
Proof.
  induction l as [|x l IH]; intros [|y l'] Hlen Hn; cbn in Hlen; try discriminate; constructor.
  - apply (Hn 0%nat).
  - apply IH; [lia|]. intros i. apply (Hn (S i)).
Qed.

Lemma blockmax_step_resp : forall rt xc bm bm' n, qlist_eq bm bm' ->
  qlist_eq (upd bm (nget rt n) (fun m => Qmax' m (qget xc n))) (upd bm' (nget rt n) (fun m => Qmax' m (qget xc n))).
Proof.
  intros rt xc bm bm' n H. apply Forall2_upd; auto.
  intros a a' Ha. apply Qmax'_congr; auto; reflexivity.
Qed.

Lemma blockmax_step_comm : forall rt xc bm x y,
  qlist_eq (upd (upd bm (nget rt x) (fun m => Qmax' m (qget xc x))) (nget rt y) (fun m => Qmax' m (qget xc y)))
           (upd (upd bm (nget rt y) (fun m => Qmax' m (qget xc y))) (nget rt x) (fun m => Qmax' m (qget xc x))).
Proof.
  intros rt xc bm x y. destruct (Nat.eq_dec (nget rt x) (nget rt y)) as [E|E].
  - rewrite E, !upd_upd. apply Forall2_upd; [apply Forall2_refl_In; intros; reflexivity|].
    intros a a' Ha. rewrite (Qmax'_comm3 a (qget xc x) (qget xc y)).
    apply Qmax'_congr; [|reflexivity]. apply Qmax'_congr; auto; reflexivity.
  - rewrite upd_comm by exact E. apply Forall2_refl_In. intros; reflexivity.
Qed.

(* D2, Qeq version; any initial array (the model starts from zeros) *)
Theorem blockmax_perm_gen : forall rt xc l l' bm0,
  Permutation l l' -> qlist_eq (blockmax rt xc l bm0) (blockmax rt xc l' bm0).
Proof.
  intros rt xc l l' bm0 Hp. unfold blockmax.
  apply (@fold_left_perm_gen (list Q) nat qlist_eq (fun _ => True)); auto.
  - apply qlist_eq_equiv.
  - intros; apply blockmax_step_resp; auto.
  - intros; apply blockmax_step_comm.
  - apply Forall_forall; auto.
Qed.

Theorem blockmax_perm : forall rt xc l l' zerosQ,
  Permutation l l' ->
  let r := fold_left (fun bm n => upd bm (nget rt n) (fun m => Qmax' m (qget xc n))) l zerosQ in
  let r' := fold_left (fun bm n => upd bm (nget rt n) (fun m => Qmax' m (qget xc n))) l' zerosQ in
  length r = length r' /\ forall i, nth i r 0 == nth i r' 0.
Proof. intros rt xc l l' z Hp. cbv zeta. apply qlist_eq_nth. apply (blockmax_perm_gen rt xc z Hp). Qed.
Print Assumptions blockmax_perm.

(* D2, Leibniz version: if Qeq values among the iterated entries are identical (one representation
   per number, as for float64), the resulting arrays are EQUAL, whatever the initial array is.
   (Ties are resolved towards the newer value, so the result in a slot is either the initial entry,
   when it is strictly larger than all values, or a value of maximal size: unique by the hypothesis.) *)
Lemma Qmax'_comm3_eq : forall m x y, (x == y -> x = y) -> Qmax' (Qmax' m x) y = Qmax' (Qmax' m y) x.
Proof.
  intros m x y Hc. unfold Qmax'.
  destruct (Qle_bool m x) eqn:E1, (Qle_bool m y) eqn:E2; rewrite ?E1, ?E2.
  - destruct (Qle_bool x y) eqn:E3, (Qle_bool y x) eqn:E4; auto.
    + apply Qle_bool_true in E3, E4. symmetry. apply Hc. lra.
    + apply Qle_bool_false in E3, E4. lra.
  - apply Qle_bool_true in E1. apply Qle_bool_false in E2.
    destruct (Qle_bool x y) eqn:E3; auto. apply Qle_bool_true in E3. lra.
  - apply Qle_bool_false in E1. apply Qle_bool_true in E2.
    destruct (Qle_bool y x) eqn:E3; auto. apply Qle_bool_true in E3. lra.
  - reflexivity.
Qed.

Theorem blockmax_perm_eq : forall rt xc l l' bm0,
  Permutation l l' ->
  (forall a b, In a l -> In b l -> qget xc a == qget xc b -> qget xc a = qget xc b) ->
  blockmax rt xc l bm0 = blockmax rt xc l' bm0.
Proof.
  intros rt xc l l' bm0 Hp Hcan. unfold blockmax.
  apply (@fold_left_perm_gen (list Q) nat eq (fun n => In n l)); auto.
  - apply eq_equivalence.
  - intros a a' x ->. reflexivity.
  - intros bm x y Hx Hy. destruct (Nat.eq_dec (nget rt x) (nget rt y)) as [E|E].
    + rewrite E, !upd_upd. apply upd_ext. intros a. apply Qmax'_comm3_eq. apply Hcan; auto.
    + apply upd_comm, E.
  - apply Forall_forall; auto.
Qed.
Print Assumptions blockmax_perm_eq.

(* instance: 5 nodes in 3 blocks (roots 0,0,2,2,4) *)
Example blockmax_perm_ex :
  let rt := [0;0;2;2;4]%nat in let xc := [1; (7#2); 3; (1#4); 9] in
  Permutation [0;1;2;3;4]%nat [4;2;0;3;1]%nat /\
  (forall a b, In a [0;1;2;3;4]%nat -> In b [0;1;2;3;4]%nat -> qget xc a == qget xc b -> qget xc a = qget xc b) /\
  blockmax rt xc [0;1;2;3;4]%nat (repeat 0 5) = blockmax rt xc [4;2;0;3;1]%nat (repeat 0 5) /\
  blockmax rt xc [0;1;2;3;4]%nat (repeat 0 5) = [(7#2); 0; 3; 0; 9].
Proof.
  cbv zeta.
  assert (Hp : Permutation [0;1;2;3;4]%nat [4;2;0;3;1]%nat).
  { apply (Permutation_trans (l' := [4;0;1;2;3]%nat)).
    - apply Permutation_sym. apply (Permutation_cons_append [0;1;2;3]%nat 4%nat).
    - apply perm_skip. apply (Permutation_trans (l' := [2;0;1;3]%nat)).
      + apply Permutation_sym. apply (Permutation_middle [0;1]%nat [3]%nat 2%nat).
      + apply perm_skip, perm_skip, perm_swap. }
  assert (Hc : forall a b, In a [0;1;2;3;4]%nat -> In b [0;1;2;3;4]%nat ->
                qget [1; (7#2); 3; (1#4); 9] a == qget [1; (7#2); 3; (1#4); 9] b ->
                qget [1; (7#2); 3; (1#4); 9] a = qget [1; (7#2); 3; (1#4); 9] b).
  { intros a b Ha Hb. cbn in Ha, Hb.
    repeat (destruct Ha as [<-|Ha]; [|]); try contradiction;
    repeat (destruct Hb as [<-|Hb]; [|]); try contradiction; cbn; intros H; try reflexivity; exfalso;
      revert H; unfold Qeq; cbn; lia. }
  split; [exact Hp|]. split; [exact Hc|]. split; [|reflexivity].
  apply blockmax_perm_eq; auto.
Qed.

(* ================================================================================================ *)
(** * D2 lifted to exec_sink_coloring *)

(* exec_sink_coloring with the list iterated for blockmax made a parameter *)
Definition exec_sink_coloring_on (nodes : list nat) (spacing : Q) (g : graph) : res graph :=
  do r <- sc_paint g;
  let '(s, bw) := r in
  let rt := roots s in
  let xc := sc_pack spacing g bw rt in
  let bm := blockmax rt xc nodes (repeat (0 : Q) (length (g_na g))) in
  do xc <- place_block (S (length (g_N g) * length (g_N g)) + 8) g bw rt spacing (sc_lmax g) xc bm;
  Ok (sc_finish g xc).

Lemma exec_sink_coloring_on_layers : forall s g,
  exec_sink_coloring_on (flat_map l_nodes (g_L g)) s g = exec_sink_coloring s g.
Proof. reflexivity. Qed.

Lemma qlist_rel_1 : forall l l', qlist_eq l l' -> qlist_rel 1 l l'.
Proof. intros l l' H. eapply Forall2_impl; [|exact H]. cbn. intros a b Hab. lra. Qed.

Lemma graph_rel_1_refl : forall g, graph_rel 1 g g.
Proof.
  intros g. constructor; try reflexivity; apply Forall2_refl_In.
  - intros n. constructor; try reflexivity; ring.
  - intros e. constructor; try reflexivity. apply Forall2_refl_In. intros p. split; ring.
  - intros l. constructor; try reflexivity; ring.
Qed.

Lemma graph_rel_1_equiv : forall g g', graph_rel 1 g g' -> graph_equiv g g'.
Proof.
  intros g g' [Hna Hea HN HE HL]. constructor; auto.
  - eapply Forall2_impl; [|exact Hna]. intros a b [H1 H2 H3 H4 H5 H6 H7 H8 H9]. constructor; auto; lra.
  - eapply Forall2_impl; [|exact Hea]. intros a b [H1 H2 H3 H4 H5 H6 H7 H8 H9]. constructor; auto.
    eapply Forall2_impl; [|exact H9]. intros p q [Hp Hq]. split; lra.
  - eapply Forall2_impl; [|exact HL]. intros a b [H1 H2 H3]. constructor; auto; lra.
Qed.

(* whatever order the blockmax loop ranges in, sink coloring fails with the same error or succeeds with
   an equivalent graph: identical discrete fields, Qeq coordinates (Scale.graph_equiv) *)
Theorem exec_sink_coloring_perm : forall nodes nodes' s g,
  Permutation nodes nodes' ->
  res_rel graph_equiv (exec_sink_coloring_on nodes s g) (exec_sink_coloring_on nodes' s g).
Proof.
  intros nodes nodes' s g Hp. unfold exec_sink_coloring_on.
  destruct (sc_paint g) as [[sc bw]|er]; cbn [bind]; [|reflexivity]. cbv zeta.
  pose proof (blockmax_perm_gen (roots sc) (sc_pack s g bw (roots sc)) (repeat (0 : Q) (length (g_na g))) Hp) as Hbm.
  assert (H1 : (0 < 1)%Q) by lra.
  assert (Hs : s == 1 * s) by ring.
  assert (Hrefl : forall l, qlist_rel 1 l l) by (intros l; apply qlist_rel_1, qlist_eq_equiv).
  pose proof (place_block_rel (roots sc) (sc_lmax g) (S (length (g_N g) * length (g_N g)) + 8) H1
                (graph_rel_1_refl g) Hs (Hrefl bw) (Hrefl (sc_pack s g bw (roots sc))) (qlist_rel_1 Hbm)) as Hpb.
  destruct (place_block _ g bw _ s _ _ (blockmax _ _ nodes _)) as [xc1|e1],
           (place_block _ g bw _ s _ _ (blockmax _ _ nodes' _)) as [xc1'|e1'];
    cbn in Hpb; try contradiction; cbn [bind res_rel]; auto.
  apply graph_rel_1_equiv. apply sc_finish_rel; auto; [lra|apply graph_rel_1_refl].
Qed.
Print Assumptions exec_sink_coloring_perm.

(* in terms of the model function itself and of x coordinates *)
Corollary exec_sink_coloring_order_irrelevant : forall nodes s g g1,
  Permutation (flat_map l_nodes (g_L g)) nodes ->
  exec_sink_coloring s g = Ok g1 ->
  exists g2, exec_sink_coloring_on nodes s g = Ok g2 /\ graph_equiv g1 g2 /\
             forall n, nX g1 n == nX g2 n.
Proof.
  intros nodes s g g1 Hp Hok. pose proof (exec_sink_coloring_perm s g Hp) as H.
  rewrite exec_sink_coloring_on_layers, Hok in H.
  destruct (exec_sink_coloring_on nodes s g) as [g2|]; cbn in H; [|contradiction].
  exists g2. split; [reflexivity|]. split; [exact H|].
  intros n. unfold nX, gnode.
  assert (Hn : node_equiv (nth n (g_na g1) node0) (nth n (g_na g2) node0)).
  { apply Forall2_nth_rel; [apply H|apply node_equiv_refl]. }
  destruct Hn; assumption.
Qed.

Corollary exec_sink_coloring_order_irrelevant_err : forall nodes s g e,
  Permutation (flat_map l_nodes (g_L g)) nodes ->
  exec_sink_coloring s g = Err e -> exec_sink_coloring_on nodes s g = Err e.
Proof.
  intros nodes s g e Hp Herr. pose proof (exec_sink_coloring_perm s g Hp) as H.
  rewrite exec_sink_coloring_on_layers, Herr in H.
  destruct (exec_sink_coloring_on nodes s g); cbn in H; [contradiction|congruence].
Qed.
Print Assumptions exec_sink_coloring_order_irrelevant.

(* instance: a 2-layer graph with 3 nodes and two edges into node 2; blockmax iterated in reverse *)
Definition d2_g : graph :=
  mkGraph [mkNode [] [0%nat] 0 0 false 0 0 10 4; mkNode [] [1%nat] 0 1 false 0 0 20 4;
           mkNode [0;1]%nat [] 1 0 false 0 0 30 4]
          [mkEdge 0 2 1 1 false false 0 [] false; mkEdge 1 2 1 1 false false 0 [] false]
          [0;1;2]%nat [0;1]%nat [mkLayer [0;1]%nat 0 0; mkLayer [2]%nat 0 0].

Example exec_sink_coloring_perm_ex :
  Permutation (flat_map l_nodes (g_L d2_g)) [2;1;0]%nat /\
  is_ok (exec_sink_coloring 5 d2_g) = true /\
  res_rel graph_equiv (exec_sink_coloring 5 d2_g) (exec_sink_coloring_on [2;1;0]%nat 5 d2_g).
Proof.
  assert (Hp : Permutation (flat_map l_nodes (g_L d2_g)) [2;1;0]%nat).
  { change (flat_map l_nodes (g_L d2_g)) with (rev [2;1;0]%nat). apply Permutation_sym, Permutation_rev. }
  split; [exact Hp|]. split; [vm_compute; reflexivity|].
  rewrite <- exec_sink_coloring_on_layers. apply exec_sink_coloring_perm, Hp.
Qed.
