(* E2EBackbone.v — one connected component through the whole pipeline [layout_component]: every intermediate graph
   is exposed together with the facts the per-phase theorems give about it ([pipeline_backbone]). *)
From Autog Require Import Base Graph Populate Phase1 Phase2 Phase3 Phase4 Phase5 Layout Wmedian Pipeline.
From Autog.Proofs Require Import ListLemmas Consistent SelfLoopProofs.
From Autog.Proofs Require CBBase CBGreedy CBGreedyRanks CBDepthFirst CBHasCycles CycleBreaking LongestPath
                          OptNormalize OptVbalance OptPipeline.
From Autog.Proofs Require Import Positioners Routes BreakMerge SinkColoringProofs E2EBridge.
From Coq Require Import Permutation Lia Lqa.
Local Open Scope nat_scope.

(* ====================================================================================================== *)
(** * The setting                                                                                          *)
(* ====================================================================================================== *)

(* a connected component as produced by the front end (populate, size options, components) *)
Record component_input (g : graph) : Prop := {
  ci_cons : Consistent.consistent g;
  ci_nonvirt : forall n, n_virt (gnode g n) = false;
  ci_L : g_L g = [];
  ci_edges : forall e, In e (g_E g) ->
     e_rev (gedge g e) = false /\ e_pts (gedge g e) = [] /\ e_delta (gedge g e) = 1%Z;
  ci_two : 2 <= length (g_N g);
  ci_conn : CBGreedyRanks.no_isolated_nodes (fst (ignore_self_loops g)) }.

Record options_ok (o : options) : Prop := { oo_p4 : modelled_p4 (o_p4 o); oo_p5 : modelled_p5 (o_p5 o) }.

(* the premise about the ordering heuristic: its contract holds on the graph it is run on *)
Definition wm_premise (o : options) (g : graph) : Prop :=
  forall g1 g2 g3,
    phase1 (o_p1 o) (fst (ignore_self_loops g)) = Ok g1 -> phase2 (o_p2 o) (Layout.ns_params o) g1 = Ok g2 ->
    break_long_edges g2 = Ok g3 -> wm_ok_for g3.

(* the premise about network simplex (nothing is assumed when the longest-path layering is selected) *)
Definition ns_premise (o : options) (g : graph) : Prop :=
  o_p2 o = NetworkSimplex ->
  forall g1, phase1 (o_p1 o) (fst (ignore_self_loops g)) = Ok g1 -> ns_ok_for (Layout.ns_params o) g1.

(* ====================================================================================================== *)
(** * Stage 0 and 1: self loops, cycle breaking                                                            *)
(* ====================================================================================================== *)

Record stage01 (g g0 : graph) (del : list nat) (g1 : graph) : Prop := {
  s0_c : CBBase.consistent g0; s0_nsl : CBBase.no_self_loops g0;
  s0_E : g_E g0 = filter (fun e => negb (self_loop g e)) (g_E g);
  s0_del : del = filter (self_loop g) (g_E g);
  s0_N : g_N g0 = g_N g; s0_ea : g_ea g0 = g_ea g; s0_na : length (g_na g0) = length (g_na g);
  s0_L : g_L g0 = [];
  s0_attrs : forall n, node_attrs (gnode g0 n) = node_attrs (gnode g n);
  s1_rs : rev_star g0 g1;
  s1_c : CBBase.consistent g1; s1_nsl : CBBase.no_self_loops g1; s1_ranked : CBBase.ranked g1;
  s1_nonvirt : forall n, n_virt (gnode g1 n) = false;
  s1_edge : forall e, In e (g_E g1) ->
     In e (g_E g) /\ self_loop g e = false /\ flip_rel (gedge g e) (gedge g1 e) /\
     e_delta (gedge g1 e) = 1%Z /\ e_pts (gedge g1 e) = [];
  s1_other : forall e, ~ In e (g_E g1) -> gedge g1 e = gedge g e;
  s1_some_edge : exists e, In e (g_E g1) }.

Lemma flip_rel_fields : forall a b, flip_rel a b ->
  e_delta b = e_delta a /\ e_weight b = e_weight a /\ e_pts b = e_pts a /\ e_ahs b = e_ahs a /\
  e_tree b = e_tree a /\ e_cut b = e_cut a.
Proof. intros a b [->| ->]; destruct a; cbn; repeat split; reflexivity. Qed.

Theorem stage01_ok : forall o g g0 del g1,
  component_input g -> ignore_self_loops g = (g0, del) -> phase1 (o_p1 o) g0 = Ok g1 ->
  stage01 g g0 del g1.
Proof.
  intros o g g0 del g1 [C NV L0 ED TWO CONN] E0 P1.
  assert (Eg0 : g0 = fst (ignore_self_loops g)) by (rewrite E0; reflexivity).
  assert (Edel : del = snd (ignore_self_loops g)) by (rewrite E0; reflexivity).
  clear E0. subst g0 del.
  destruct (ignore_self_loops_spec g C) as (A1 & A2 & A3 & A4 & A5 & A6 & _ & A8 & A9 & A10 & _ & A12).
  cbv zeta in *. set (g0 := fst (ignore_self_loops g)) in *.
  assert (C0 : CBBase.consistent g0) by (apply consistent_cb, A12).
  assert (N0 : CBBase.no_self_loops g0) by (exact A10).
  destruct (CycleBreaking.phase1_post (o_p1 o) g0 g1 C0 N0 (fun _ => CONN) P1) as (C1 & N1 & HN1 & HE1 & R1).
  pose proof (phase1_rev_star (o_p1 o) g0 g1 C0 N0 P1) as RS.
  destruct (rev_star_frame g0 g1 RS) as (_ & _ & _ & _ & _ & F6 & F7 & F8).
  constructor; try assumption.
  - rewrite A3. exact L0.
  - intros n. apply ignore_self_loops_attrs.
  - intros n. destruct (same_but_adj_fields _ _ (F6 n)) as (_ & _ & -> & _).
    destruct (A8 n) as (_ & _ & -> & _). apply NV.
  - intros e He. rewrite HE1, A6 in He. apply filter_In in He. destruct He as [He Hs].
    apply negb_true_iff in Hs. split; [exact He|]. split; [exact Hs|].
    pose proof (F8 e) as FR. destruct (A9 e) as [Ee _]. rewrite Ee in FR.
    split; [exact FR|]. destruct (flip_rel_fields _ _ FR) as (-> & _ & -> & _).
    destruct (ED e He) as (_ & ? & ?). split; assumption.
  - intros e He. rewrite HE1 in He. rewrite (F7 e He). apply A9.
  - destruct (g_N g0) as [|n t] eqn:EN; [rewrite <- A2 in TWO; cbn in TWO; lia|].
    destruct (proj1 (CycleBreaking.no_isolated_iff g0 C0) CONN n) as (e & He & _); [rewrite EN; left; reflexivity|].
    exists e. rewrite HE1. exact He.
Qed.

(* ====================================================================================================== *)
(** * Stage 2 and 3: layering, layer slices, breaking of long edges                                        *)
(* ====================================================================================================== *)

Record stage23 (g1 g2 g3 : graph) (k : nat) : Prop := {
  s2_post : p2_post g1 g2;
  s2_pre : break_pre g2; s2_lok : layers_ok g2; s2_wf : layers_wf g2;
  s2_placed : forall n, In n (g_N g2) -> placed g2 n;
  s2_inl : forall n, in_layers g2 n <-> In n (g_N g2);
  s2_ends : forall e, In e (g_E g2) -> In (e_from (gedge g2 e)) (g_N g2) /\ In (e_to (gedge g2 e)) (g_N g2);
  s2_two : 2 <= length (g_N g2); s2_L1 : Nat.eqb (length (g_L g2)) 1 = false;
  s3_E : g_E g3 = g_E g2 ++ iota (length (g_ea g2)) k;
  s3_N : g_N g3 = g_N g2 ++ iota (length (g_na g2)) k;
  s3_ea : length (g_ea g3) = length (g_ea g2) + k; s3_na : length (g_na g3) = length (g_na g2) + k;
  s3_span : forall x, In x (g_E g3) -> span g3 x = 1%Z;
  s3_new : forall n, length (g_na g2) <= n < length (g_na g2) + k -> n_virt (gnode g3 n) = true;
  s3_old : forall n, n < length (g_na g2) -> same_but_in (gnode g3 n) (gnode g2 n);
  s3_other : forall x, x < length (g_ea g2) -> ~ In x (g_E g2) -> gedge g3 x = gedge g2 x;
  s3_wf : layers_wf g3;
  s3_placed : forall n, In n (g_N g3) -> placed g3 n;
  s3_L : length (g_L g3) = length (g_L g2);
  s3_lh : forall kk, l_h (glayer g3 kk) = l_h (glayer g2 kk);
  s3_layer_sub : forall n kk, In n (l_nodes (glayer g2 kk)) -> In n (l_nodes (glayer g3 kk));
  s3_inl : forall kk n, In n (l_nodes (glayer g3 kk)) -> In n (g_N g3) }.

Theorem stage23_ok : forall alg p g1 g2,
  CBBase.consistent g1 -> (forall n, n_virt (gnode g1 n) = false) ->
  2 <= length (g_N g1) -> (exists e, In e (g_E g1)) ->
  (forall g2a, match alg with LongestPath => exec_longest_path g1 | NetworkSimplex => exec_network_simplex p g1 end = Ok g2a ->
               layering_ok g1 g2a) ->
  phase2 alg p g1 = Ok g2 ->
  exists g3 k, break_long_edges g2 = Ok g3 /\ stage23 g1 g2 g3 k.
Proof.
  intros alg p g1 g2 C1 NV TWO [e0 He0] LO P2.
  assert (N1 : Nat.eqb (length (g_N g1)) 1 = false) by (apply Nat.eqb_neq; lia).
  pose proof (phase2_post alg p g1 g2 N1 LO P2) as PP.
  destruct (p2_post_break_pre g1 g2 C1 NV PP) as (PRE & LOK & WF & PL & INL).
  destruct (break_long_edges_spec g2 PRE) as (g3 & k & Ba & S1 & S2 & S3 & S4 & S5 & S6 & S7 & S8 & _).
  destruct (break_long_edges_layers g2 PRE LOK) as (g3a & k1 & Ba1 & T1 & T2 & T3).
  assert (g3a = g3) by congruence. subst g3a.
  destruct (break_long_edges_layers_wf g2 PRE LOK WF) as (g3a & k2 & Ba2 & U1 & U2 & U3 & U4).
  assert (g3a = g3) by congruence. subst g3a.
  assert (k2 = k) by lia. subst k2.
  exists g3, k. split; [exact Ba|]. constructor; try assumption.
  - intros e He. rewrite (p2_E _ _ PP) in He. destruct C1 as [_ [_ HE] _ _]. destruct (HE e He) as (_ & F & T).
    destruct (edge_eq_tc_fields _ _ (p2_edge _ _ PP e)) as (-> & -> & _). rewrite (p2_N _ _ PP). auto.
  - rewrite (p2_N _ _ PP). exact TWO.
  - apply Nat.eqb_neq. rewrite <- (p2_E _ _ PP) in He0.
    destruct (bp_edges PRE e0 He0) as (_ & _ & _ & SP). unfold span in SP.
    destruct LOK with (e := e0) as [L0 L1]; [exact He0|]. lia.
  - intros n Hn. apply S7, Hn.
  - intros n Hn. rewrite S2 in Hn. apply in_app_or in Hn. destruct Hn as [Hn|Hn].
    + assert (Hlt : n < length (g_na g2)).
      { destruct WF as [_ LT]. apply LT. apply INL. exact Hn. }
      destruct (PL n Hn) as [Q1 Q2]. unfold placed.
      replace (layer_of g3 n) with (layer_of g2 n).
      * split; [exact Q1|apply U4, Q2].
      * destruct (S7 n Hlt) as [Sb _]. apply same_but_in_fields in Sb. unfold layer_of. symmetry. apply Sb.
    + apply BreakMerge.in_iota in Hn. destruct (U3 n Hn) as [Q1 Q2]. split; [lia|exact Q2].
  - intros kk. apply T3.
  - intros kk n Hn. destruct (T3 kk) as (T3a & _). rewrite T3a in Hn. rewrite S2. apply in_or_app.
    apply in_app_or in Hn. destruct Hn as [Hn|Hn].
    + left. apply INL. unfold in_layers. apply in_flat_map.
      destruct (Nat.lt_ge_cases kk (length (g_L g2))) as [Lk|Lk].
      * exists (glayer g2 kk). split; [apply nth_In, Lk|exact Hn].
      * unfold glayer in Hn. rewrite nth_overflow in Hn; [destruct Hn|exact Lk].
    + right. apply filter_In in Hn. replace k with k1 by lia. apply Hn.
Qed.

(* ====================================================================================================== *)
(** * Stage 3' to 5: ordering, positioning, merging the long edges, routing                                *)
(* ====================================================================================================== *)

Record stage45 (sp : Q) (alg5 : p5alg) (g2 g3 g3' g4 gm : graph) (routes : list (nat * list nat)) (g5 : graph) : Prop := {
  s4_oc : order_contract g3 g3';
  s4_topo : same_topology g3 g4;
  s4_node : forall n, set_pos 0 (set_x 0 (set_y 0 (gnode g4 n))) = set_pos 0 (set_x 0 (set_y 0 (gnode g3 n)));
  s4_N : g_N g4 = g_N g3; s4_E : g_E g4 = g_E g3; s4_ea : g_ea g4 = g_ea g3;
  s4_na : length (g_na g4) = length (g_na g3);
  s4_L : length (g_L g4) = length (g_L g3);
  s4_inl : forall k n, In n (l_nodes (glayer g4 k)) <-> In n (l_nodes (glayer g3 k));
  s4_wf : layers_wf g4;
  s4_y : forall k n, In n (l_nodes (glayer g4 k)) ->
           nY g4 n = ysum sp (g_L g4) k /\ (nH g4 n <= l_h (glayer g4 k))%Q;
  s4_lh0 : forall k, (0 <= l_h (glayer g4 k))%Q;
  s4_placed : forall n, In n (g_N g4) -> placed g4 n;
  sm_E : g_E gm = g_E g2; sm_N : g_N gm = g_N g4; sm_L : g_L gm = g_L g4;
  sm_na : length (g_na gm) = length (g_na g4);
  sm_edge : forall e, In e (g_E g2) -> gedge gm e = set_ahs (e_rev (gedge g2 e)) (gedge g2 e);
  sm_other : forall x, x < length (g_ea g2) -> ~ In x (g_E g2) -> gedge gm x = gedge g2 x;
  sm_node : forall n, same_but_in (gnode gm n) (gnode g4 n);
  sm_fst : map fst routes = g_E g2;
  sm_routes : Forall (fun r => route_ok g2 gm r /\ chain_y_eq gm sp (snd r)) routes;
  s5_na : g_na g5 = g_na gm; s5_N : g_N g5 = g_N gm; s5_E : g_E g5 = g_E gm; s5_L : g_L g5 = g_L gm;
  s5_other : forall x, ~ In x (g_E g2) -> gedge g5 x = gedge gm x;
  s5_edge : forall r, In r routes ->
     exists pts, gedge g5 (fst r) = set_pts pts (gedge gm (fst r)) /\ routed alg5 sp gm r pts }.

Lemma in_range_of_ends : forall g e, e_from (gedge g e) <> e_to (gedge g e) -> e < length (g_ea g).
Proof.
  intros g e H. destruct (Nat.lt_ge_cases e (length (g_ea g))) as [L|L]; [exact L|].
  rewrite (gedge_out_of_range g e L) in H. cbn in H. congruence.
Qed.

Theorem stage45_ok : forall sp alg4 p alg5 g1 g2 g3 k g3' g4 g5,
  stage23 g1 g2 g3 k -> break_long_edges g2 = Ok g3 -> order_contract g3 g3' ->
  modelled_p4 alg4 -> layer_spacing p = sp -> phase4 alg4 p g3' = Ok g4 ->
  modelled_p5 alg5 -> phase5 alg5 sp g4 = Ok g5 ->
  exists gm routes, merge_long_edges g4 = Ok (gm, routes) /\ stage45 sp alg5 g2 g3 g3' g4 gm routes g5.
Proof.
  intros sp alg4 p alg5 g1 g2 g3 k g3' g4 g5 S BR OC A4 SP P4 A5 P5.
  destruct S as [PP PRE LOK WF2 PL2 INL2 ENDS TWO L1 S1 S2 S3 S4 S5 S6 S7 S8 WF3 PL3 SL SLH SUB SINL].
  destruct (order_contract_facts g3 g3' OC) as (T1 & OWF & OPL & OIN & OINL & OLH).
  pose proof OC as [O1 O2 O3 O4 O5 O6 O7 O8].
  assert (N3' : Nat.eqb (length (g_N g3')) 1 = false).
  { apply Nat.eqb_neq. rewrite O2, S2, app_length. lia. }
  assert (LH3' : forall kk, (0 <= l_h (glayer g3' kk))%Q).
  { intros kk. rewrite OLH, SLH. destruct (p2_wh _ _ PP kk) as [_ ->]. apply Qle_refl. }
  destruct (phase4_facts alg4 p g3' g4 A4 N3' P4 (OWF WF3) LH3') as (F1 & F2 & F3 & F4 & F5 & F6 & F7 & F8 & F9 & F10).
  subst sp.
  assert (T2 : same_topology g3' g4).
  { split; [exact F1|]. split; [exact F3|]. split; [exact F4|]. intros n.
    destruct (set_xy_fields _ _ (F5 n)) as (-> & -> & -> & _ & -> & _). repeat split; reflexivity. }
  pose proof (same_topology_trans _ _ _ T1 T2) as T.
  destruct (break_phase4_merge_roundtrip g2 g3 g4 PRE BR T)
    as (gm & routes & M & A1 & A2 & A3 & A4' & A5' & A6 & A7 & A8 & A9).
  exists gm, routes. split; [exact M|].
  assert (LY4 : forall n, layer_of g4 n = layer_of g3 n) by (intros n; apply (same_topology_layer _ _ _ T)).
  assert (LYm : forall n, layer_of gm n = layer_of g4 n).
  { intros n. pose proof (A7 n) as Sb. apply same_but_in_fields in Sb. unfold layer_of. apply Sb. }
  assert (PL4 : forall n, In n (g_N g4) -> placed g4 n).
  { intros n Hn. rewrite F2, O2 in Hn. apply (placed_transfer g3' g4).
    - intros m. apply (same_topology_layer _ _ _ T2).
    - intros kk. apply (F6 kk).
    - apply OPL, PL3, Hn. }
  assert (Geo : forall n, nX gm n = nX g4 n /\ nY gm n = nY g4 n /\ nW gm n = nW g4 n /\ nH gm n = nH g4 n).
  { intros n. unfold nX, nY, nW, nH. apply same_but_in_geom, A7. }
  assert (FST : forall r, In r routes -> In (fst r) (g_E g2)).
  { intros r Hr. rewrite <- A8. apply in_map, Hr. }
  assert (ND : NoDup (map fst routes)) by (rewrite A8; apply (bp_nodup PRE)).
  assert (LT : forall r, In r routes -> fst r < length (g_ea gm)).
  { intros r Hr. apply in_range_of_ends. rewrite (A5' _ (FST r Hr)). cbn [set_ahs e_from e_to].
    destruct (bp_edges PRE _ (FST r Hr)) as (_ & _ & _ & SPN). unfold span in SPN. intros Heq. rewrite Heq in SPN. lia. }
  assert (N4 : Nat.eqb (length (g_N g4)) 1 = false) by (rewrite F2; exact N3').
  destruct (phase5_facts alg5 (layer_spacing p) g4 g5 gm routes A5 N4 P5 M ND LT) as (B1 & B2 & B3 & B4 & B5 & B6 & B7).
  constructor; try assumption.
  - intros n. pose proof (F5 n) as E1. pose proof (O5 n) as E2.
    destruct (gnode g4 n), (gnode g3' n), (gnode g3 n). unfold set_x, set_y, set_pos in *. cbn in *.
    inversion E1. inversion E2. subst. reflexivity.
  - congruence.
  - congruence.
  - congruence.
  - congruence.
  - congruence.
  - intros kk n. rewrite F6. apply OINL.
  - rewrite Forall_forall in A9. apply Forall_forall. intros r Hr. split; [apply A9, Hr|].
    destruct (A9 r Hr) as (vs & Ens & _ & Hvs & CL).
    assert (CL4 : chain_layers g4 (snd r)).
    { apply (chain_layers_transfer gm); [intros m; symmetry; apply LYm|exact CL]. }
    assert (IN4 : forall n, In n (snd r) -> In n (g_N g4)).
    { intros n Hn. rewrite F2, O2, S2. destruct (bp_edges PRE _ (FST r Hr)) as (_ & Ra & Rb & _).
      destruct (ENDS _ (FST r Hr)) as [Ea Eb].
      rewrite Ens in Hn. apply in_or_app. destruct Hn as [<-|Hn]; [left; exact Ea|].
      apply in_app_or in Hn. destruct Hn as [Hn|[<-|[]]]; [|left; exact Eb].
      right. apply BreakMerge.in_iota. destruct (Hvs n Hn) as [Rg _]. rewrite A4', F4, O4, S4 in Rg. exact Rg. }
    assert (Y4 : chain_y_eq g4 (layer_spacing p) (snd r)).
    { eapply phase4_chain; [exact N3'|exact P4|exact F8| |exact CL4]. intros n Hn. apply PL4, IN4, Hn. }
    eapply chain_y_eq_ext; [|exact Y4].
    intros n _. destruct (Geo n) as (_ & -> & _). split; [reflexivity|].
    unfold layer_h_of, glayer. rewrite A3, LYm. reflexivity.
  - intros x Hx. apply B6. rewrite A8. exact Hx.
Qed.

(* ====================================================================================================== *)
(** * The backbone                                                                                         *)
(* ====================================================================================================== *)

Record backbone (o : options) (g g' : graph) (x : option Z) (g0 : graph) (del : list nat) (g1 g2 g3 : graph) (k : nat)
       (g3' : graph) (cx : Z) (g4 gm : graph) (routes : list (nat * list nat)) (g5 : graph) : Prop := {
  bb_e0 : ignore_self_loops g = (g0, del);
  bb_e1 : phase1 (o_p1 o) g0 = Ok g1;
  bb_e2 : phase2 (o_p2 o) (Layout.ns_params o) g1 = Ok g2;
  bb_e3 : break_long_edges g2 = Ok g3;
  bb_e3' : exec_wmedian wmedian_max_iter g3 = Ok (g3', cx);
  bb_x : x = Some cx;
  bb_e4 : phase4 (o_p4 o) (p4_params o) g3' = Ok g4;
  bb_em : merge_long_edges g4 = Ok (gm, routes);
  bb_e5 : phase5 (o_p5 o) (o_layer_spacing o) g4 = Ok g5;
  bb_e6 : g' = post_process g5 del;
  bb_s01 : stage01 g g0 del g1;
  bb_s23 : stage23 g1 g2 g3 k;
  bb_s45 : stage45 (o_layer_spacing o) (o_p5 o) g2 g3 g3' g4 gm routes g5 }.

Theorem pipeline_backbone : forall o g g' x,
  component_input g -> options_ok o -> wm_premise o g -> ns_premise o g ->
  layout_component o g = Ok (g', x) ->
  exists g0 del g1 g2 g3 k g3' cx g4 gm routes g5, backbone o g g' x g0 del g1 g2 g3 k g3' cx g4 gm routes g5.
Proof.
  intros o g g' x CI [O4 O5] WM NS H. unfold layout_component in H.
  destruct (ignore_self_loops g) as [g0 del] eqn:E0.
  assert (Eg0 : g0 = fst (ignore_self_loops g)) by (rewrite E0; reflexivity).
  destruct (phase1 (o_p1 o) g0) as [g1|] eqn:P1; cbn [bind] in H; [|discriminate].
  destruct (phase2 (o_p2 o) (Layout.ns_params o) g1) as [g2|] eqn:P2; cbn [bind] in H; [|discriminate].
  pose proof (stage01_ok o g g0 del g1 CI E0 P1) as S01.
  assert (TWO1 : 2 <= length (g_N g1)).
  { destruct (rev_star_frame _ _ (s1_rs _ _ _ _ S01)) as (-> & _). rewrite (s0_N _ _ _ _ S01). apply (ci_two _ CI). }
  assert (LO : forall g2a, match o_p2 o with
                           | LongestPath => exec_longest_path g1
                           | NetworkSimplex => exec_network_simplex (Layout.ns_params o) g1
                           end = Ok g2a -> layering_ok g1 g2a).
  { intros g2a Hg. destruct (o_p2 o) eqn:EA.
    - apply lp_layering_ok; [apply (s1_c _ _ _ _ S01)|apply (s1_ranked _ _ _ _ S01)| |exact Hg].
      intros e He. apply (s1_edge _ _ _ _ S01 e He).
    - apply (NS EA g1); [rewrite <- Eg0; exact P1|exact Hg]. }
  destruct (stage23_ok (o_p2 o) (Layout.ns_params o) g1 g2 (s1_c _ _ _ _ S01) (s1_nonvirt _ _ _ _ S01) TWO1
              (s1_some_edge _ _ _ _ S01) LO P2) as (g3 & k & BR & S23).
  unfold phase3_wmedian in H.
  assert (N2 : Nat.eqb (length (g_N g2)) 1 = false).
  { apply Nat.eqb_neq. pose proof (s2_two _ _ _ _ S23). lia. }
  rewrite N2, (s2_L1 _ _ _ _ S23), BR in H. cbn [bind] in H.
  destruct (exec_wmedian wmedian_max_iter g3) as [[g3' cx]|] eqn:WE; cbn [bind fst snd] in H; [|discriminate].
  destruct (phase4 (o_p4 o) (p4_params o) g3') as [g4|] eqn:P4; cbn [bind] in H; [|discriminate].
  destruct (phase5 (o_p5 o) (o_layer_spacing o) g4) as [g5|] eqn:P5; cbn [bind] in H; [|discriminate].
  injection H as Hg' Hx.
  assert (OC : order_contract g3 g3').
  { apply (WM g1 g2 g3) with (x := cx); [rewrite <- Eg0; exact P1|exact P2|exact BR|exact WE]. }
  destruct (stage45_ok (o_layer_spacing o) (o_p4 o) (p4_params o) (o_p5 o) g1 g2 g3 k g3' g4 g5 S23 BR OC O4 eq_refl P4 O5 P5)
    as (gm & routes & M & S45).
  exists g0, del, g1, g2, g3, k, g3', cx, g4, gm, routes, g5.
  constructor; try assumption; symmetry; assumption.
Qed.
Print Assumptions pipeline_backbone.

(* ====================================================================================================== *)
(** * Discharging the premises: what is known about the graphs the two premises speak about                *)
(* ====================================================================================================== *)

(* network simplex is run on the output [g1] of phase 1, about which [stage01] holds *)
Theorem ns_premise_intro : forall o g,
  component_input g ->
  (forall g0 del g1, stage01 g g0 del g1 -> ns_ok_for (Layout.ns_params o) g1) ->
  ns_premise o g.
Proof.
  intros o g CI H _ g1 P1.
  apply (H (fst (ignore_self_loops g)) (snd (ignore_self_loops g)) g1).
  apply (stage01_ok o); [exact CI|apply surjective_pairing|exact P1].
Qed.

(* the ordering heuristic is run on the output [g3] of break_long_edges, about which [stage23] holds *)
Theorem wm_premise_intro : forall o g,
  component_input g -> ns_premise o g ->
  (forall g0 del g1 g2 g3 k, stage01 g g0 del g1 -> stage23 g1 g2 g3 k -> break_long_edges g2 = Ok g3 -> wm_ok_for g3) ->
  wm_premise o g.
Proof.
  intros o g CI NS H g1 g2 g3 P1 P2 BR.
  pose proof (stage01_ok o g _ _ g1 CI (surjective_pairing _) P1) as S01.
  assert (TWO1 : 2 <= length (g_N g1)).
  { destruct (rev_star_frame _ _ (s1_rs _ _ _ _ S01)) as (-> & _). rewrite (s0_N _ _ _ _ S01). apply (ci_two _ CI). }
  assert (LO : forall g2a, match o_p2 o with
                           | LongestPath => exec_longest_path g1
                           | NetworkSimplex => exec_network_simplex (Layout.ns_params o) g1
                           end = Ok g2a -> layering_ok g1 g2a).
  { intros g2a Hg. destruct (o_p2 o) eqn:EA.
    - apply lp_layering_ok; [apply (s1_c _ _ _ _ S01)|apply (s1_ranked _ _ _ _ S01)| |exact Hg].
      intros e He. apply (s1_edge _ _ _ _ S01 e He).
    - apply (NS EA g1); [exact P1|exact Hg]. }
  destruct (stage23_ok (o_p2 o) (Layout.ns_params o) g1 g2 (s1_c _ _ _ _ S01) (s1_nonvirt _ _ _ _ S01) TWO1
              (s1_some_edge _ _ _ _ S01) LO P2) as (g3a & k & BRa & S23).
  assert (g3a = g3) by congruence. subst g3a.
  eapply H; eassumption.
Qed.
