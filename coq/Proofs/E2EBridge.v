(* E2EBridge.v — bridging and frame lemmas used to compose the per-phase theorems into end-to-end statements
   about [layout_component] (Model/Pipeline.v):
     - the contract of the ordering heuristic ([order_contract], [wm_ok_for]) and of network simplex ([ns_ok_for]);
     - bridges between the three [consistent] predicates (Consistent.v, CBBase.v, LongestPath.v);
     - what phase 1 changes: only edge ends / reversal flags of listed edges, and adjacency lists ([rev_star]);
     - what phase 2 establishes ([layering_ok], the layer slices);
     - what the ordering contract preserves; what the positioners and assign_y preserve / establish;
     - the routing folds of phase 5. *)
From Autog Require Import Base Graph Populate Phase1 Phase2 Phase3 Phase4 Phase5 Layout Wmedian Pipeline.
From Autog.Proofs Require Import ListLemmas Consistent SelfLoopProofs.
From Autog.Proofs Require CBBase CBGreedy CBGreedyRanks CBDepthFirst CBHasCycles CycleBreaking LongestPath
                          OptNormalize OptVbalance OptPipeline.
From Autog.Proofs Require Import Positioners Routes BreakMerge SinkColoringProofs.
From Coq Require Import Permutation Lia Lqa.
Local Open Scope nat_scope.

(* ====================================================================================================== *)
(** * 0. The premises: contracts of the ordering heuristic and of network simplex                          *)
(* ====================================================================================================== *)

Record order_contract (g g' : graph) : Prop := {
  oc_ea : g_ea g' = g_ea g; oc_N : g_N g' = g_N g; oc_E : g_E g' = g_E g;
  oc_na : length (g_na g') = length (g_na g);
  oc_nodes : forall n, set_pos 0 (gnode g' n) = set_pos 0 (gnode g n);
  oc_L : length (g_L g') = length (g_L g);
  oc_layer : forall k, l_w (glayer g' k) = l_w (glayer g k) /\ l_h (glayer g' k) = l_h (glayer g k) /\
                       Permutation (l_nodes (glayer g' k)) (l_nodes (glayer g k));
  oc_pos : forall k j, (j < length (l_nodes (glayer g' k)))%nat ->
                       pos_of g' (nth j (l_nodes (glayer g' k)) 0%nat) = Z.of_nat j }.

Definition wm_ok_for (g1 : graph) : Prop :=
  forall g2 x, exec_wmedian wmedian_max_iter g1 = Ok (g2, x) -> order_contract g1 g2.

(* every listed edge spans at least one layer, downwards *)
Definition spans_ok (g : graph) : Prop :=
  forall e, In e (g_E g) -> (1 <= layer_of g (e_to (gedge g e)) - layer_of g (e_from (gedge g e)))%Z.

(* edge records equal up to the spanning-tree flag and the cut value *)
Definition edge_eq_tc (a b : edge) : Prop := set_tree false (set_cut 0 a) = set_tree false (set_cut 0 b).

(* what a layering algorithm (the first half of phase 2) must do: it only assigns [n_layer] (and may use the
   tree / cut fields of the edges as scratch space), and every listed edge then spans >= 1 layer *)
Record layering_ok (g g' : graph) : Prop := {
  lo_N : g_N g' = g_N g; lo_E : g_E g' = g_E g; lo_L : g_L g' = g_L g;
  lo_na : length (g_na g') = length (g_na g); lo_ea : length (g_ea g') = length (g_ea g);
  lo_node : forall n, gnode g' n = set_layer (n_layer (gnode g' n)) (gnode g n);
  lo_edge : forall e, edge_eq_tc (gedge g' e) (gedge g e);
  lo_span : spans_ok g' }.

Definition ns_ok_for (p : nsparams) (g : graph) : Prop :=
  forall g', exec_network_simplex p g = Ok g' -> layering_ok g g'.

Lemma edge_eq_tc_fields : forall a b, edge_eq_tc a b ->
  e_from a = e_from b /\ e_to a = e_to b /\ e_delta a = e_delta b /\ e_weight a = e_weight b /\
  e_rev a = e_rev b /\ e_pts a = e_pts b /\ e_ahs a = e_ahs b.
Proof.
  intros [] [] H. unfold edge_eq_tc, set_tree, set_cut in H. cbn in H. inversion H. cbn. repeat split; reflexivity.
Qed.

Lemma edge_eq_tc_refl : forall a, edge_eq_tc a a.
Proof. reflexivity. Qed.

(* ====================================================================================================== *)
(** * 1. The three consistency predicates                                                                  *)
(* ====================================================================================================== *)

Lemma consistent_cb : forall g, Consistent.consistent g -> CBBase.consistent g.
Proof.
  intros g C. constructor.
  - split; [apply (c_nodupN g C)|apply (c_N_lt g C)].
  - split; [apply (c_nodupE g C)|]. intros e He. split; [apply (c_E_lt g C e He)|].
    split; [apply (c_from g C e He)|apply (c_to g C e He)].
  - intros n Hn. rewrite (Consistent.c_out g C n Hn). split.
    + apply NoDup_filter'. apply (c_nodupE g C).
    + intros e. apply in_out_edges.
  - intros n Hn. rewrite (Consistent.c_in g C n Hn). split.
    + apply NoDup_filter'. apply (c_nodupE g C).
    + intros e. apply in_in_edges.
Qed.

Lemma cb_lp_consistent : forall g, CBBase.consistent g -> LongestPath.consistent g.
Proof.
  intros g [[ND LT] [NDE HE] HO HI]. constructor.
  - exact ND.
  - exact LT.
  - intros n Hn e He. destruct (HO n Hn) as [_ Hiff]. apply Hiff in He. destruct He as [He Hf].
    split; [exact Hf|]. apply (HE e He).
Qed.

Lemma cb_lp_ranked : forall g, CBBase.consistent g -> CBBase.ranked g -> LongestPath.ranked g.
Proof.
  intros g [_ _ HO _] [rk Hrk]. exists rk. intros n e Hn He _.
  destruct (HO n Hn) as [_ Hiff]. apply Hiff in He. destruct He as [He Hf].
  specialize (Hrk e He). rewrite Hf in Hrk. exact Hrk.
Qed.

(* ====================================================================================================== *)
(** * 2. Phase 1: a sequence of reversals of listed edges                                                  *)
(* ====================================================================================================== *)

Inductive rev_star (g : graph) : graph -> Prop :=
| rs_refl : rev_star g g
| rs_step : forall g1 e, rev_star g g1 -> In e (g_E g1) -> rev_star g (reverse_edge g1 e).

Lemma rev_star_trans : forall g a b, rev_star g a -> rev_star a b -> rev_star g b.
Proof. intros g a b H1 H2. induction H2; [exact H1|]. apply rs_step; assumption. Qed.

(* the relation between an edge record and the same record after any number of reversals *)
Definition flip_rel (a b : edge) : Prop := b = a \/ b = flip_edge a.

Lemma flip_rel_refl : forall a, flip_rel a a.
Proof. left. reflexivity. Qed.

Lemma flip_rel_step : forall a b, flip_rel a b -> flip_rel a (flip_edge b).
Proof. intros a b [->| ->]; [right; reflexivity|left; apply flip_flip]. Qed.

Lemma same_but_adj_trans : forall a b c, same_but_adj a b -> same_but_adj b c -> same_but_adj a c.
Proof. unfold same_but_adj. intros. congruence. Qed.

Lemma same_but_adj_fields : forall a b, same_but_adj a b ->
  n_layer a = n_layer b /\ n_pos a = n_pos b /\ n_virt a = n_virt b /\
  n_x a = n_x b /\ n_y a = n_y b /\ n_w a = n_w b /\ n_h a = n_h b.
Proof.
  intros [] [] H. unfold same_but_adj, set_in, set_out in H. cbn in H. inversion H. cbn. repeat split; reflexivity.
Qed.

Theorem rev_star_frame : forall g g', rev_star g g' ->
  g_N g' = g_N g /\ g_E g' = g_E g /\ g_L g' = g_L g /\
  length (g_na g') = length (g_na g) /\ length (g_ea g') = length (g_ea g) /\
  (forall n, same_but_adj (gnode g' n) (gnode g n)) /\
  (forall x, ~ In x (g_E g) -> gedge g' x = gedge g x) /\
  (forall x, flip_rel (gedge g x) (gedge g' x)).
Proof.
  intros g g' H. induction H as [|g1 e H IH He].
  - repeat split; try reflexivity. intros; apply flip_rel_refl.
  - destruct IH as (A1 & A2 & A3 & A4 & A5 & A6 & A7 & A8).
    destruct (reverse_edge_frame g1 e) as (B1 & B2 & B3 & B4 & B5).
    split; [congruence|]. split; [congruence|]. split; [congruence|]. split; [congruence|]. split; [congruence|].
    split; [|split].
    + intros n. eapply same_but_adj_trans; [apply reverse_edge_same_but_adj|apply A6].
    + intros x Hx. rewrite reverse_edge_gedge_other; [apply A7, Hx|]. intros ->. apply Hx. rewrite <- A2. exact He.
    + intros x. rewrite reverse_edge_gedge.
      destruct (Nat.eqb x e && Nat.ltb e (length (g_ea g1)))%bool; [apply flip_rel_step|]; apply A8.
Qed.

(* reversing any list of listed edges of a well-formed loop-free graph *)
Lemma rev_star_fold : forall rv g,
  CBBase.consistent g -> CBBase.no_self_loops g -> incl rv (g_E g) ->
  rev_star g (fold_left reverse_edge rv g).
Proof.
  induction rv as [|e rv IH]; intros g C N I; cbn [fold_left]; [apply rs_refl|].
  assert (He : In e (g_E g)) by (apply I; left; reflexivity).
  destruct (CBBase.reverse_edge_consistent g e C He (N e He)) as (C1 & _ & E1 & _).
  eapply rev_star_trans; [apply rs_step; [apply rs_refl|exact He]|].
  apply IH; [exact C1|apply CBBase.reverse_edge_no_self_loops; assumption|].
  intros x Hx. rewrite E1. apply I. right. exact Hx.
Qed.

(* the reversal loop of the greedy breaker *)
Lemma rev_star_gr_inner : forall rk n es g,
  CBBase.consistent g -> CBBase.no_self_loops g -> incl es (g_E g) ->
  let g' := fold_left (CBGreedy.gr_step rk n) es g in
  rev_star g g' /\ CBBase.consistent g' /\ CBBase.no_self_loops g'.
Proof.
  intros rk n. induction es as [|e es IH]; intros g C N I; cbn [fold_left].
  - split; [apply rs_refl|split; assumption].
  - assert (He : In e (g_E g)) by (apply I; left; reflexivity).
    unfold CBGreedy.gr_step at 2 4 6.
    destruct (rk (e_to (gedge g e)) <? rk n)%Z.
    + destruct (CBBase.reverse_edge_consistent g e C He (N e He)) as (C1 & _ & E1 & _).
      assert (N1 : CBBase.no_self_loops (reverse_edge g e)) by (apply CBBase.reverse_edge_no_self_loops; assumption).
      destruct (IH (reverse_edge g e) C1 N1) as (R & C2 & N2).
      { intros x Hx. rewrite E1. apply I. right. exact Hx. }
      split; [|split; assumption].
      eapply rev_star_trans; [apply rs_step; [apply rs_refl|exact He]|exact R].
    + apply IH; [assumption|assumption|]. intros x Hx. apply I. right. exact Hx.
Qed.

Lemma rev_star_gr_loop : forall rk ns g,
  CBBase.consistent g -> CBBase.no_self_loops g -> incl ns (g_N g) ->
  rev_star g (CBGreedy.gr_loop rk ns g).
Proof.
  intros rk. induction ns as [|n ns IH]; intros g C N I; unfold CBGreedy.gr_loop; cbn [fold_left]; [apply rs_refl|].
  assert (Hn : In n (g_N g)) by (apply I; left; reflexivity).
  destruct (rev_star_gr_inner rk n (n_out (gnode g n)) g C N) as (R & C1 & N1).
  { intros e He. destruct C as [_ _ HO _]. destruct (HO n Hn) as [_ Hiff]. apply Hiff in He. apply He. }
  fold (CBGreedy.gr_node rk g n) in *.
  eapply rev_star_trans; [exact R|]. apply IH; [assumption|assumption|].
  destruct (rev_star_frame _ _ R) as (EN & _). rewrite EN. intros x Hx. apply I. right. exact Hx.
Qed.

Theorem phase1_rev_star : forall alg g g',
  CBBase.consistent g -> CBBase.no_self_loops g -> phase1 alg g = Ok g' -> rev_star g g'.
Proof.
  intros alg g g' C N H. unfold phase1 in H.
  destruct (Nat.eqb (length (g_N g)) 1); [inversion H; apply rs_refl|].
  destruct (CycleBreaking.remove_two_node_cycles_wf g C N) as [C1 [N1 [HN1 [HE1 _]]]].
  assert (R1 : rev_star g (remove_two_node_cycles g)).
  { unfold remove_two_node_cycles. apply rev_star_fold; [assumption|assumption|].
    intros e He. eapply CycleBreaking.two_cycle_edges_sub. exact He. }
  set (g1 := remove_two_node_cycles g) in *.
  destruct (has_cycles g1) as [c|]; cbn [bind] in H; [|discriminate].
  destruct c; cbn [negb] in H; [|inversion H; subst; exact R1].
  assert (R2 : forall g2, match alg with Greedy => exec_greedy g1 | DepthFirst => exec_depth_first g1 end = Ok g2 ->
                          rev_star g1 g2).
  { intros g2 Hg. destruct alg.
    - rewrite CBGreedy.exec_greedy_eq in Hg. destruct (greedy_ranks g1) as [r|]; cbn [bind] in Hg; [|discriminate].
      inversion Hg. apply rev_star_gr_loop; [assumption|assumption|apply incl_refl].
    - destruct (CBDepthFirst.exec_depth_first_spec g1 C1 N1 g2 Hg) as (rv & fin & -> & _ & I & _).
      apply rev_star_fold; assumption. }
  destruct (match alg with Greedy => exec_greedy g1 | DepthFirst => exec_depth_first g1 end) as [g2|];
    cbn [bind] in H; [|discriminate].
  destruct (has_cycles g2) as [c|]; cbn [bind] in H; [|discriminate].
  destruct c; [discriminate|]. inversion H; subst g'.
  eapply rev_star_trans; [exact R1|apply R2; reflexivity].
Qed.
Print Assumptions phase1_rev_star.

(* ====================================================================================================== *)
(** * 3. Phase 2: layering, then the layer slices                                                          *)
(* ====================================================================================================== *)

(* longest path satisfies the layering contract unconditionally *)
Theorem lp_layering_ok : forall g g',
  CBBase.consistent g -> CBBase.ranked g -> (forall e, In e (g_E g) -> e_delta (gedge g e) = 1%Z) ->
  exec_longest_path g = Ok g' -> layering_ok g g'.
Proof.
  intros g g' C R D H.
  pose proof (cb_lp_consistent g C) as C'. pose proof (cb_lp_ranked g C R) as R'.
  pose proof (LongestPath.height_is_height g C' R') as Hh.
  destruct (LongestPath.exec_longest_path_spec g g' _ C' R' Hh H) as (_ & A2 & _ & A4 & A5 & A6 & A7 & A8).
  constructor; try assumption.
  - rewrite A5. reflexivity.
  - intros e. unfold gedge. rewrite A5. apply edge_eq_tc_refl.
  - intros e He. rewrite A7 in He. unfold gedge. rewrite A5. fold (gedge g e).
    destruct C as [_ [_ HE] HO _]. destruct (HE e He) as (_ & Hf & _).
    pose proof (LongestPath.feasible g g' _ C' R' Hh H _ Hf) as [_ F].
    assert (Ho : In e (n_out (gnode g (e_from (gedge g e))))).
    { destruct (HO _ Hf) as [_ Hiff]. apply Hiff. split; [exact He|reflexivity]. }
    specialize (F e Ho (CBBase.ranked_no_self_loops g R e He)). rewrite (D e He) in F.
    unfold layer_of. lia.
Qed.
Print Assumptions lp_layering_ok.

Definition slice_step (lay : nat -> Z) (ls : list layer) (n : nat) : list layer :=
  upd ls (Z.to_nat (lay n)) (fun l => mkLayer (l_nodes l ++ [n]) (l_w l) (l_h l)).

Lemma slice_fold_wh : forall lay l ls,
  (forall k, l_w (nth k ls layer0) = 0%Q /\ l_h (nth k ls layer0) = 0%Q) ->
  forall k, l_w (nth k (fold_left (slice_step lay) l ls) layer0) = 0%Q /\
            l_h (nth k (fold_left (slice_step lay) l ls) layer0) = 0%Q.
Proof.
  intros lay. induction l as [|n l IH]; intros ls H k; cbn [fold_left]; [apply H|].
  apply IH. intros j. unfold slice_step. rewrite nth_upd.
  destruct (Nat.eqb j (Z.to_nat (lay n)) && Nat.ltb (Z.to_nat (lay n)) (length ls))%bool; [cbn [l_w l_h]|]; apply H.
Qed.

Lemma slice_fold_perm : forall lay l ls,
  (forall n, In n l -> Z.to_nat (lay n) < length ls) ->
  Permutation (flat_map l_nodes (fold_left (slice_step lay) l ls)) (flat_map l_nodes ls ++ l).
Proof.
  intros lay. induction l as [|n l IH]; intros ls H; cbn [fold_left]; [rewrite app_nil_r; apply Permutation_refl|].
  eapply Permutation_trans.
  - apply IH. intros m Hm. unfold slice_step. rewrite length_upd. apply H. right. exact Hm.
  - change (n :: l) with ([n] ++ l). rewrite app_assoc. apply Permutation_app_tail.
    unfold slice_step. apply flat_map_upd_perm; [apply H; left; reflexivity|]. intros p. reflexivity.
Qed.

Lemma flat_map_repeat_layer0 : forall k, flat_map l_nodes (repeat layer0 k) = [].
Proof. induction k; cbn; [reflexivity|exact IHk]. Qed.

Lemma nth_repeat_layer0 : forall k j, nth j (repeat layer0 k) layer0 = layer0.
Proof.
  intros k j. destruct (nth_in_or_default j (repeat layer0 k) layer0) as [Hin|Hd]; [|exact Hd].
  apply repeat_spec in Hin. exact Hin.
Qed.

Theorem slices_facts : forall g g', init_layer_slices g = Ok g' ->
  g_na g' = g_na g /\ g_ea g' = g_ea g /\ g_N g' = g_N g /\ g_E g' = g_E g /\
  (forall n, In n (g_N g) -> (0 <= layer_of g n)%Z /\ Z.to_nat (layer_of g n) < length (g_L g')) /\
  (forall k, l_nodes (glayer g' k) = filter (fun n => Nat.eqb (Z.to_nat (layer_of g n)) k) (g_N g)) /\
  (forall k, l_w (glayer g' k) = 0%Q /\ l_h (glayer g' k) = 0%Q) /\
  Permutation (flat_map l_nodes (g_L g')) (g_N g).
Proof.
  intros g g' H.
  destruct (OptPipeline.slices_spec g g' H) as (NN & _ & _ & LEN & NODES).
  destruct (OptVbalance.vb_lmax_spec g) as [M0 MAX].
  unfold init_layer_slices in H. cbv zeta in H.
  destruct (existsb (fun n => (layer_of g n <? 0)%Z) (g_N g)); [discriminate|].
  injection H as H'.
  assert (RNG : forall n, In n (g_N g) -> Z.to_nat (layer_of g n) < length (g_L g')).
  { intros n Hn. rewrite LEN. specialize (MAX n Hn). specialize (NN n Hn). lia. }
  split; [rewrite <- H'; reflexivity|]. split; [rewrite <- H'; reflexivity|].
  split; [rewrite <- H'; reflexivity|]. split; [rewrite <- H'; reflexivity|].
  split; [intros n Hn; split; [apply NN, Hn|apply RNG, Hn]|]. split; [exact NODES|].
  change (fold_left (fun m n => Z.max m (layer_of g n)) (g_N g) 0%Z) with (OptVbalance.vb_lmax g) in *.
  fold (slice_step (layer_of g)) in *.
  split.
  - intros k. unfold glayer. subst g'. cbn [with_L g_L]. apply slice_fold_wh.
    intros j. rewrite nth_repeat_layer0. split; reflexivity.
  - subst g'. cbn [with_L g_L] in *.
    eapply Permutation_trans.
    + apply slice_fold_perm. intros n Hn. rewrite repeat_length. specialize (MAX n Hn). specialize (NN n Hn). lia.
    + rewrite flat_map_repeat_layer0. apply Permutation_refl.
Qed.

(* the state handed on by phase 2, relative to the state it received *)
Record p2_post (g1 g2 : graph) : Prop := {
  p2_N : g_N g2 = g_N g1; p2_E : g_E g2 = g_E g1;
  p2_na : length (g_na g2) = length (g_na g1); p2_ea : length (g_ea g2) = length (g_ea g1);
  p2_node : forall n, gnode g2 n = set_layer (n_layer (gnode g2 n)) (gnode g1 n);
  p2_edge : forall e, edge_eq_tc (gedge g2 e) (gedge g1 e);
  p2_span : spans_ok g2;
  p2_layer_rng : forall n, In n (g_N g2) -> (0 <= layer_of g2 n)%Z /\ Z.to_nat (layer_of g2 n) < length (g_L g2);
  p2_slices : forall k, l_nodes (glayer g2 k) = filter (fun n => Nat.eqb (Z.to_nat (layer_of g2 n)) k) (g_N g2);
  p2_wh : forall k, l_w (glayer g2 k) = 0%Q /\ l_h (glayer g2 k) = 0%Q;
  p2_perm : Permutation (flat_map l_nodes (g_L g2)) (g_N g2) }.

Lemma gnode_same_na : forall g g' n, g_na g' = g_na g -> gnode g' n = gnode g n.
Proof. intros g g' n H. unfold gnode. rewrite H. reflexivity. Qed.

Lemma gedge_same_ea : forall g g' e, g_ea g' = g_ea g -> gedge g' e = gedge g e.
Proof. intros g g' e H. unfold gedge. rewrite H. reflexivity. Qed.

Theorem phase2_post : forall alg p g1 g2,
  Nat.eqb (length (g_N g1)) 1 = false ->
  (forall g2a, match alg with LongestPath => exec_longest_path g1 | NetworkSimplex => exec_network_simplex p g1 end = Ok g2a ->
               layering_ok g1 g2a) ->
  phase2 alg p g1 = Ok g2 -> p2_post g1 g2.
Proof.
  intros alg p g1 g2 N1 LO H. unfold phase2, assign_layers in H. rewrite N1 in H.
  destruct (match alg with LongestPath => exec_longest_path g1 | NetworkSimplex => exec_network_simplex p g1 end)
    as [g2a|] eqn:E; cbn [bind] in H; [|discriminate].
  specialize (LO g2a eq_refl). destruct LO as [A1 A2 A3 A4 A5 A6 A7 A8].
  destruct (slices_facts g2a g2 H) as (B1 & B2 & B3 & B4 & B5 & B6 & B7 & B8).
  assert (LY : forall n, layer_of g2 n = layer_of g2a n).
  { intros n. unfold layer_of. rewrite (gnode_same_na _ _ n B1). reflexivity. }
  constructor.
  - congruence.
  - congruence.
  - rewrite B1. exact A4.
  - rewrite B2. exact A5.
  - intros n. rewrite (gnode_same_na _ _ n B1). apply A6.
  - intros e. rewrite (gedge_same_ea _ _ e B2). apply A7.
  - intros e He. rewrite B4 in He. rewrite (gedge_same_ea _ _ e B2), !LY. apply A8, He.
  - intros n Hn. rewrite B3 in Hn. rewrite LY. apply B5, Hn.
  - intros k. rewrite B6, B3. apply filter_ext. intros n. rewrite LY. reflexivity.
  - exact B7.
  - rewrite B3. exact B8.
Qed.

(* consequences used by the later phases; [g1] is the (well-formed, acyclic) output of phase 1 *)
Theorem p2_post_break_pre : forall g1 g2,
  CBBase.consistent g1 -> (forall n, n_virt (gnode g1 n) = false) -> p2_post g1 g2 ->
  break_pre g2 /\ layers_ok g2 /\ layers_wf g2 /\
  (forall n, In n (g_N g2) -> placed g2 n) /\
  (forall n, in_layers g2 n <-> In n (g_N g2)).
Proof.
  intros g1 g2 [[ND LT] [NDE HE] _ _] NV [A1 A2 A3 A4 A5 A6 A7 A8 A9 A10 A11].
  assert (ENDS : forall e, In e (g_E g2) ->
            e < length (g_ea g2) /\ In (e_from (gedge g2 e)) (g_N g2) /\ In (e_to (gedge g2 e)) (g_N g2)).
  { intros e He. rewrite A2 in He. destruct (HE e He) as (L & F & T).
    destruct (edge_eq_tc_fields _ _ (A6 e)) as (-> & -> & _). rewrite A4, A1. auto. }
  assert (LTN : forall n, In n (g_N g2) -> n < length (g_na g2)).
  { intros n Hn. rewrite A3. apply LT. rewrite <- A1. exact Hn. }
  split; [|split; [|split; [|split]]].
  - constructor.
    + rewrite A2. exact NDE.
    + intros e He. destruct (ENDS e He) as (L & F & T).
      split; [exact L|]. split; [apply LTN, F|]. split; [apply LTN, T|]. apply A7, He.
    + intros n. rewrite A5. cbn. apply NV.
  - intros e He. destruct (ENDS e He) as (_ & F & T). split; [apply (A8 _ F)|apply (A8 _ T)].
  - split.
    + eapply Permutation_NoDup; [apply Permutation_sym, A11|]. rewrite A1. exact ND.
    + intros n Hn. apply LTN. eapply Permutation_in; [apply A11|exact Hn].
  - intros n Hn. destruct (A8 n Hn) as [L0 L1]. split; [exact L0|].
    rewrite A9. apply filter_In. split; [exact Hn|apply Nat.eqb_refl].
  - intros n. unfold in_layers. split; intros Hn.
    + eapply Permutation_in; [apply A11|exact Hn].
    + eapply Permutation_in; [apply Permutation_sym, A11|exact Hn].
Qed.

(* ====================================================================================================== *)
(** * 4. What the ordering contract preserves                                                              *)
(* ====================================================================================================== *)

Lemma flat_map_nth_perm : forall (L' L : list layer),
  length L' = length L ->
  (forall k, Permutation (l_nodes (nth k L' layer0)) (l_nodes (nth k L layer0))) ->
  Permutation (flat_map l_nodes L') (flat_map l_nodes L).
Proof.
  induction L' as [|a L' IH]; intros [|b L] HL HP; cbn [length] in HL; try discriminate; [apply Permutation_refl|].
  cbn [flat_map]. apply Permutation_app.
  - apply (HP 0).
  - apply IH; [lia|]. intros k. apply (HP (S k)).
Qed.

Lemma set_pos_fields : forall a b, set_pos 0 a = set_pos 0 b ->
  n_in a = n_in b /\ n_out a = n_out b /\ n_layer a = n_layer b /\ n_virt a = n_virt b /\
  n_x a = n_x b /\ n_y a = n_y b /\ n_w a = n_w b /\ n_h a = n_h b.
Proof. intros [] [] H. unfold set_pos in H. cbn in H. inversion H. cbn. repeat split; reflexivity. Qed.

Theorem order_contract_facts : forall g g', order_contract g g' ->
  same_topology g g' /\
  (layers_wf g -> layers_wf g') /\
  (forall n, placed g n -> placed g' n) /\
  (forall n, in_layers g' n <-> in_layers g n) /\
  (forall k n, In n (l_nodes (glayer g' k)) <-> In n (l_nodes (glayer g k))) /\
  (forall k, l_h (glayer g' k) = l_h (glayer g k)).
Proof.
  intros g g' [A1 A2 A3 A4 A5 A6 A7 A8].
  assert (P : Permutation (flat_map l_nodes (g_L g')) (flat_map l_nodes (g_L g))).
  { apply flat_map_nth_perm; [exact A6|]. intros k. apply (A7 k). }
  assert (LY : forall n, layer_of g' n = layer_of g n).
  { intros n. unfold layer_of. destruct (set_pos_fields _ _ (A5 n)) as (_ & _ & -> & _). reflexivity. }
  assert (INL : forall k n, In n (l_nodes (glayer g' k)) <-> In n (l_nodes (glayer g k))).
  { intros k n. destruct (A7 k) as (_ & _ & Pk). split; intros H.
    - eapply Permutation_in; [exact Pk|exact H].
    - eapply Permutation_in; [apply Permutation_sym, Pk|exact H]. }
  split; [|split; [|split; [|split; [|split]]]].
  - split; [exact A1|]. split; [exact A3|]. split; [exact A4|]. intros n.
    destruct (set_pos_fields _ _ (A5 n)) as (-> & -> & -> & -> & _). repeat split; reflexivity.
  - intros [ND LT]. split.
    + eapply Permutation_NoDup; [apply Permutation_sym, P|exact ND].
    + intros n Hn. rewrite A4. apply LT. eapply Permutation_in; [exact P|exact Hn].
  - intros n [L0 L1]. unfold placed. rewrite LY. split; [exact L0|]. apply INL, L1.
  - intros n. unfold in_layers. split; intros H.
    + eapply Permutation_in; [exact P|exact H].
    + eapply Permutation_in; [apply Permutation_sym, P|exact H].
  - exact INL.
  - intros k. apply (A7 k).
Qed.

(* ====================================================================================================== *)
(** * 5. Phase 4: the three modelled positioners followed by assign_y                                      *)
(* ====================================================================================================== *)

Record pos_frame (g g1 : graph) : Prop := {
  pf_node : forall n, set_x 0 (gnode g1 n) = set_x 0 (gnode g n);
  pf_lnodes : map l_nodes (g_L g1) = map l_nodes (g_L g);
  pf_na : length (g_na g1) = length (g_na g);
  pf_N : g_N g1 = g_N g; pf_E : g_E g1 = g_E g; pf_ea : g_ea g1 = g_ea g;
  pf_h : forall k n, In n (l_nodes (nth k (g_L g) layer0)) -> (nH g n <= l_h (nth k (g_L g1) layer0))%Q;
  pf_h0 : forall k, (0 <= l_h (nth k (g_L g) layer0))%Q -> (0 <= l_h (nth k (g_L g1) layer0))%Q }.

Lemma valign_pos_frame : forall s g, pos_frame g (exec_valign s g).
Proof.
  intros s g. destruct (valign_frame s g) as (_ & _ & _ & B4 & B5 & _ & B7 & B8 & B9 & B10).
  constructor; try assumption.
  - intros k n Hn. apply valign_layer_height_ge, Hn.
  - intros k _. rewrite valign_layer_height. apply layer_height_ge_init.
Qed.

Lemma packright_pos_frame : forall s g, pos_frame g (exec_pack_right s g).
Proof.
  intros s g. destruct (packright_frame s g) as (_ & _ & _ & B4 & B5 & _ & B7 & B8 & B9 & B10).
  constructor; try assumption.
  - intros k n Hn. apply packright_layer_height_ge, Hn.
  - intros k H. eapply Qle_trans; [exact H|apply packright_layer_height_ge_old].
Qed.

Lemma sink_coloring_pos_frame : forall s g g1, exec_sink_coloring s g = Ok g1 -> pos_frame g g1.
Proof.
  intros s g g1 H. destruct (sink_coloring_frame s g g1 H) as (_ & _ & _ & B4 & _ & B5 & _ & _ & B7 & B8 & B9 & B10).
  constructor; try assumption.
  - intros k n Hn. eapply sink_coloring_layer_height_ge; eassumption.
  - intros k H0. eapply Qle_trans; [exact H0|eapply sink_coloring_layer_height_ge_old; exact H].
Qed.

Definition modelled_p4 (alg : p4alg) : Prop := alg = VAlign \/ alg = PackRight \/ alg = SinkColoring.

Lemma nth_map_l_nodes : forall L k, nth k (map l_nodes L) [] = l_nodes (nth k L layer0).
Proof. intros L k. change (@nil nat) with (l_nodes layer0). apply map_nth. Qed.

Lemma set_xy_fields : forall a b, set_x 0 (set_y 0 a) = set_x 0 (set_y 0 b) ->
  n_in a = n_in b /\ n_out a = n_out b /\ n_layer a = n_layer b /\ n_pos a = n_pos b /\ n_virt a = n_virt b /\
  n_w a = n_w b /\ n_h a = n_h b.
Proof. intros [] [] H. unfold set_x, set_y in H. cbn in H. inversion H. cbn. repeat split; reflexivity. Qed.

Theorem phase4_facts : forall alg p g g4,
  modelled_p4 alg -> Nat.eqb (length (g_N g)) 1 = false -> phase4 alg p g = Ok g4 ->
  layers_wf g -> (forall k, (0 <= l_h (glayer g k))%Q) ->
  g_ea g4 = g_ea g /\ g_N g4 = g_N g /\ g_E g4 = g_E g /\ length (g_na g4) = length (g_na g) /\
  (forall n, set_x 0 (set_y 0 (gnode g4 n)) = set_x 0 (set_y 0 (gnode g n))) /\
  (forall k, l_nodes (glayer g4 k) = l_nodes (glayer g k)) /\
  length (g_L g4) = length (g_L g) /\
  layers_wf g4 /\
  (forall k n, In n (l_nodes (glayer g4 k)) ->
     nY g4 n = ysum (layer_spacing p) (g_L g4) k /\ (nH g4 n <= l_h (glayer g4 k))%Q) /\
  (forall k, (0 <= l_h (glayer g4 k))%Q).
Proof.
  intros alg p g g4 Halg N1 P4 WF H0.
  destruct (phase4_is_assign_y alg p g g4 N1 P4) as (g1 & -> & Hg1).
  assert (PF : pos_frame g g1).
  { destruct Halg as [->|[->| ->]]; [subst g1; apply valign_pos_frame|subst g1; apply packright_pos_frame|
                                      eapply sink_coloring_pos_frame; exact Hg1]. }
  destruct PF as [F1 F2 F3 F4 F5 F6 F7 F8].
  destruct (assign_y_frame (layer_spacing p) g1) as (_ & Y2 & Y3 & Y4 & Y5 & Y6 & Y7 & Y8 & Y9).
  assert (WF1 : layers_wf g1) by (eapply layers_wf_transfer; eassumption).
  assert (LN : forall k, l_nodes (glayer g1 k) = l_nodes (glayer g k)).
  { intros k. unfold glayer. rewrite <- !nth_map_l_nodes, F2. reflexivity. }
  split; [congruence|]. split; [congruence|]. split; [congruence|]. split; [congruence|].
  split; [|split; [|split; [|split; [|split]]]].
  - intros n. pose proof (Y4 n) as E1. pose proof (F1 n) as E2.
    destruct (gnode (assign_y (layer_spacing p) g1) n), (gnode g1 n), (gnode g n).
    unfold set_x, set_y in *. cbn in *. inversion E1. inversion E2. subst. reflexivity.
  - intros k. unfold glayer at 1. rewrite Y5. apply LN.
  - rewrite Y5. rewrite <- (map_length l_nodes (g_L g1)), F2. apply map_length.
  - unfold layers_wf. rewrite Y5, Y6. exact WF1.
  - intros k n Hn. unfold glayer in *. rewrite Y5 in *. split.
    + apply assign_y_layer_eq; assumption.
    + rewrite Y3. replace (nH g1 n) with (nH g n).
      * apply F7. rewrite LN in Hn. exact Hn.
      * unfold nH. pose proof (F1 n) as E. destruct (gnode g1 n), (gnode g n). unfold set_x in E. cbn in *.
        inversion E. reflexivity.
  - intros k. unfold glayer. rewrite Y5. apply F8, H0.
Qed.

(* ====================================================================================================== *)
(** * 6. Phase 5: the routing folds                                                                        *)
(* ====================================================================================================== *)

(* the routers read the node arena, the layer list and the record of the routed edge only *)
Lemma route_straight_ext : forall g g' e ns,
  g_na g' = g_na g -> gedge g' e = gedge g e -> route_straight g' e ns = route_straight g e ns.
Proof.
  intros g g' e ns H H0.
  unfold route_straight, is_flat, flat_straight, straight, start_point, end_point, layer_of, nX, nY, nW, nH, gnode.
  rewrite H, H0. reflexivity.
Qed.

Lemma route_polyline_ext : forall g g' e ns,
  g_na g' = g_na g -> g_L g' = g_L g -> gedge g' e = gedge g e -> route_polyline g' e ns = route_polyline g e ns.
Proof.
  intros g g' e ns H HL H0.
  unfold route_polyline, is_flat, flat_polyline, flat_non_consecutive, flat_straight, straight, start_point, end_point,
    layer_h_of, glayer, layer_of, nX, nY, nW, nH, gnode.
  rewrite H, HL, H0. reflexivity.
Qed.

Lemma ortho_legs_ext : forall g g' half ns,
  g_na g' = g_na g -> g_L g' = g_L g -> ortho_legs g' half ns = ortho_legs g half ns.
Proof.
  intros g g' half ns H HL. induction ns as [|a [|b t] IH]; try reflexivity.
  cbn [ortho_legs] in *. rewrite IH.
  unfold start_point, end_point, layer_h_of, glayer, layer_of, nX, nY, nW, nH, gnode. rewrite H, HL. reflexivity.
Qed.

Lemma route_ortho_ext : forall g g' sp e ns,
  g_na g' = g_na g -> g_L g' = g_L g -> gedge g' e = gedge g e -> route_ortho g' sp e ns = route_ortho g sp e ns.
Proof.
  intros g g' sp e ns H HL H0.
  unfold route_ortho. rewrite (ortho_legs_ext g g' _ ns H HL).
  unfold is_flat, flat_polyline, flat_non_consecutive, flat_straight, straight, start_point, end_point,
    layer_h_of, glayer, layer_of, nX, nY, nW, nH, gnode.
  rewrite H, HL, H0. reflexivity.
Qed.

Lemma upd_edge_frame : forall g e f,
  g_na (upd_edge g e f) = g_na g /\ g_N (upd_edge g e f) = g_N g /\ g_E (upd_edge g e f) = g_E g /\
  g_L (upd_edge g e f) = g_L g /\ length (g_ea (upd_edge g e f)) = length (g_ea g).
Proof. intros. repeat split; try reflexivity. apply length_ea_upd_edge. Qed.

Section RouteFold.
  Variable F : graph -> nat * list nat -> list pt.

  Lemma route_fold : forall routes g,
    (forall g' r, In r routes -> g_na g' = g_na g -> g_L g' = g_L g -> gedge g' (fst r) = gedge g (fst r) ->
                  F g' r = F g r) ->
    NoDup (map fst routes) ->
    let gf := fold_left (fun g r => upd_edge g (fst r) (set_pts (F g r))) routes g in
    g_na gf = g_na g /\ g_N gf = g_N g /\ g_E gf = g_E g /\ g_L gf = g_L g /\ length (g_ea gf) = length (g_ea g) /\
    (forall x, ~ In x (map fst routes) -> gedge gf x = gedge g x) /\
    (forall r, In r routes -> fst r < length (g_ea g) -> gedge gf (fst r) = set_pts (F g r) (gedge g (fst r))).
  Proof.
    induction routes as [|r0 routes IH]; intros g EXT ND; cbn [fold_left].
    - repeat split; try reflexivity. intros r [].
    - cbn [map] in ND. inversion ND as [|? ? Hnot ND']; subst.
      set (g1 := upd_edge g (fst r0) (set_pts (F g r0))).
      destruct (upd_edge_frame g (fst r0) (set_pts (F g r0))) as (U1 & U2 & U3 & U4 & U5). fold g1 in U1, U2, U3, U4, U5.
      assert (OTH : forall x, x <> fst r0 -> gedge g1 x = gedge g x).
      { intros x Hx. unfold g1. apply gedge_upd_edge_other. exact Hx. }
      assert (NE : forall r, In r routes -> fst r <> fst r0).
      { intros r Hr Heq. apply Hnot. rewrite <- Heq. apply in_map, Hr. }
      destruct (IH g1) as (A1 & A2 & A3 & A4 & A5 & A6 & A7); [|exact ND'|].
      { intros g' r Hr E1 E2 E3. rewrite (EXT g' r); [|right; exact Hr|congruence|congruence|].
        - symmetry. apply EXT; [right; exact Hr|exact U1|exact U4|apply OTH, NE, Hr].
        - rewrite E3. apply OTH, NE, Hr. }
      split; [congruence|]. split; [congruence|]. split; [congruence|]. split; [congruence|]. split; [congruence|].
      split.
      + intros x Hx. cbn [map] in Hx. rewrite A6; [apply OTH|]; intros Hc; apply Hx; [left; auto|right; exact Hc].
      + intros r [<-|Hr] Hlt.
        * rewrite A6; [|exact Hnot]. unfold g1. apply gedge_upd_edge_same. exact Hlt.
        * rewrite A7; [|exact Hr|rewrite U5; exact Hlt]. rewrite OTH; [|apply NE, Hr].
          f_equal. apply EXT; [right; exact Hr|exact U1|exact U4|apply OTH, NE, Hr].
  Qed.
End RouteFold.

Section RouteFoldRes.
  Variable F : graph -> nat * list nat -> res (list pt).

  Definition rstep (rg : res graph) (r : nat * list nat) : res graph :=
    do g <- rg; do p <- F g r; Ok (upd_edge g (fst r) (set_pts p)).

  Lemma rstep_err : forall routes e, fold_left rstep routes (Err e) = Err e.
  Proof. induction routes; intros; cbn; auto. Qed.

  Lemma route_fold_res : forall routes g gf,
    (forall g' r, In r routes -> g_na g' = g_na g -> g_L g' = g_L g -> gedge g' (fst r) = gedge g (fst r) ->
                  F g' r = F g r) ->
    NoDup (map fst routes) ->
    fold_left rstep routes (Ok g) = Ok gf ->
    g_na gf = g_na g /\ g_N gf = g_N g /\ g_E gf = g_E g /\ g_L gf = g_L g /\ length (g_ea gf) = length (g_ea g) /\
    (forall x, ~ In x (map fst routes) -> gedge gf x = gedge g x) /\
    (forall r, In r routes -> fst r < length (g_ea g) ->
       exists p, F g r = Ok p /\ gedge gf (fst r) = set_pts p (gedge g (fst r))).
  Proof.
    induction routes as [|r0 routes IH]; intros g gf EXT ND H; cbn [fold_left] in H.
    - inversion H; subst. repeat split; try reflexivity. intros r [].
    - cbn [map] in ND. inversion ND as [|? ? Hnot ND']; subst.
      unfold rstep at 2 in H. cbn [bind] in H.
      destruct (F g r0) as [p0|] eqn:E0; cbn [bind] in H; [|rewrite rstep_err in H; discriminate].
      set (g1 := upd_edge g (fst r0) (set_pts p0)) in *.
      destruct (upd_edge_frame g (fst r0) (set_pts p0)) as (U1 & U2 & U3 & U4 & U5). fold g1 in U1, U2, U3, U4, U5.
      assert (OTH : forall x, x <> fst r0 -> gedge g1 x = gedge g x).
      { intros x Hx. unfold g1. apply gedge_upd_edge_other. exact Hx. }
      assert (NE : forall r, In r routes -> fst r <> fst r0).
      { intros r Hr Heq. apply Hnot. rewrite <- Heq. apply in_map, Hr. }
      destruct (IH g1 gf) as (A1 & A2 & A3 & A4 & A5 & A6 & A7); [|exact ND'|exact H|].
      { intros g' r Hr E1 E2 E3. rewrite (EXT g' r); [|right; exact Hr|congruence|congruence|].
        - symmetry. apply EXT; [right; exact Hr|exact U1|exact U4|apply OTH, NE, Hr].
        - rewrite E3. apply OTH, NE, Hr. }
      split; [congruence|]. split; [congruence|]. split; [congruence|]. split; [congruence|]. split; [congruence|].
      split.
      + intros x Hx. cbn [map] in Hx. rewrite A6; [apply OTH|]; intros Hc; apply Hx; [left; auto|right; exact Hc].
      + intros r [<-|Hr] Hlt.
        * exists p0. split; [exact E0|]. rewrite A6; [|exact Hnot]. unfold g1. apply gedge_upd_edge_same. exact Hlt.
        * destruct (A7 r Hr) as (p & P1 & P2); [rewrite U5; exact Hlt|].
          exists p. split.
          -- rewrite <- P1. symmetry. apply EXT; [right; exact Hr|exact U1|exact U4|apply OTH, NE, Hr].
          -- rewrite P2. rewrite OTH; [reflexivity|apply NE, Hr].
  Qed.
End RouteFoldRes.

Definition modelled_p5 (alg : p5alg) : Prop := alg = Straight \/ alg = Polyline \/ alg = Ortho.

(* the points phase 5 stores on the edge of route [r], computed in the merged graph [gm] *)
Definition routed (alg : p5alg) (sp : Q) (gm : graph) (r : nat * list nat) (pts : list pt) : Prop :=
  match alg with
  | Straight => pts = route_straight gm (fst r) (snd r)
  | Polyline => route_polyline gm (fst r) (snd r) = Ok pts
  | Ortho => pts = route_ortho gm sp (fst r) (snd r)
  | _ => True
  end.

Theorem phase5_facts : forall alg sp g4 g5 gm routes,
  modelled_p5 alg -> Nat.eqb (length (g_N g4)) 1 = false -> phase5 alg sp g4 = Ok g5 ->
  merge_long_edges g4 = Ok (gm, routes) -> NoDup (map fst routes) ->
  (forall r, In r routes -> fst r < length (g_ea gm)) ->
  g_na g5 = g_na gm /\ g_N g5 = g_N gm /\ g_E g5 = g_E gm /\ g_L g5 = g_L gm /\
  length (g_ea g5) = length (g_ea gm) /\
  (forall x, ~ In x (map fst routes) -> gedge g5 x = gedge gm x) /\
  (forall r, In r routes -> exists pts, gedge g5 (fst r) = set_pts pts (gedge gm (fst r)) /\ routed alg sp gm r pts).
Proof.
  intros alg sp g4 g5 gm routes Halg N1 P5 M ND LT. unfold phase5 in P5. rewrite N1, M in P5. cbn [bind] in P5.
  destruct Halg as [->|[->| ->]].
  - inversion P5 as [P5']. clear P5.
    destruct (route_fold (fun g r => route_straight g (fst r) (snd r)) routes gm) as (A1 & A2 & A3 & A4 & A5 & A6 & A7);
      [|exact ND|].
    { intros g' r _ E1 _ E3. apply route_straight_ext; assumption. }
    repeat (split; [assumption|]). intros r Hr. eexists. split; [apply A7; [exact Hr|apply LT, Hr]|reflexivity].
  - change (fold_left (rstep (fun g r => route_polyline g (fst r) (snd r))) routes (Ok gm) = Ok g5) in P5.
    destruct (route_fold_res (fun g r => route_polyline g (fst r) (snd r)) routes gm g5)
      as (A1 & A2 & A3 & A4 & A5 & A6 & A7); [|exact ND|exact P5|].
    { intros g' r _ E1 E2 E3. apply route_polyline_ext; assumption. }
    repeat (split; [assumption|]). intros r Hr. destruct (A7 r Hr (LT r Hr)) as (p & P1 & P2).
    exists p. split; [exact P2|exact P1].
  - inversion P5 as [P5']. clear P5.
    destruct (route_fold (fun g r => route_ortho g sp (fst r) (snd r)) routes gm) as (A1 & A2 & A3 & A4 & A5 & A6 & A7);
      [|exact ND|].
    { intros g' r _ E1 E2 E3. apply route_ortho_ext; assumption. }
    repeat (split; [assumption|]). intros r Hr. eexists. split; [apply A7; [exact Hr|apply LT, Hr]|reflexivity].
Qed.
Print Assumptions phase5_facts.
