(* E2EExample.v — a concrete connected component on which [layout_component] evaluates and all premises of the
   end-to-end theorems hold: 4 nodes, 6 edges: 0->1, 1->0 (antiparallel pair), 1->2, 2->3, 0->2 (spans two layers),
   2->2 (self loop); DepthFirst / LongestPath / VAlign / Polyline. *)
From Autog Require Import Base Graph Populate Phase1 Phase2 Phase3 Phase4 Phase5 Layout Wmedian Pipeline.
From Autog.Proofs Require Import ListLemmas Consistent SelfLoopProofs.
From Autog.Proofs Require CBBase CBGreedyRanks.
From Autog.Proofs Require Import Positioners Routes BreakMerge E2EBridge E2EBackbone E2EOutput.
From Coq Require Import Permutation Lia Lqa.
Local Open Scope nat_scope.

Definition ex_edges : list (list nat) := [[0;1];[1;0];[1;2];[2;3];[0;2];[2;2]].

(* the front end: populate, fixed node size 10 x 6, components (there is one) *)
Definition ex_g : graph := Eval vm_compute in
  match populate nat Nat.eqb ex_edges with
  | Ok (ids, g) => hd empty_graph (components (apply_sizes nat Nat.eqb (Some (10, 6)%Q) None ids g))
  | Err _ => empty_graph
  end.

Example ex_g_is_frontend :
  match populate nat Nat.eqb ex_edges with
  | Ok (ids, g) => components (apply_sizes nat Nat.eqb (Some (10, 6)%Q) None ids g) = [ex_g]
  | Err _ => False
  end.
Proof. vm_compute. reflexivity. Qed.

(* node spacing 5, layer spacing 7 *)
Definition ex_o : options := mkOptions DepthFirst LongestPath VAlign Polyline 1 0 5 7 false.

Example ex_consistent : Consistent.consistent ex_g.
Proof.
  constructor.
  - vm_compute. repeat constructor; cbn; intuition congruence.
  - vm_compute. repeat constructor; cbn; intuition congruence.
  - intros n H. vm_compute in H. list_cases H; vm_compute; lia.
  - intros n H. vm_compute in H. list_cases H; vm_compute; lia.
  - intros n H. vm_compute in H. list_cases H; vm_compute; tauto.
  - intros n H. vm_compute in H. list_cases H; vm_compute; tauto.
  - intros n H. vm_compute in H. list_cases H; vm_compute; reflexivity.
  - intros n H. vm_compute in H. list_cases H; vm_compute; reflexivity.
Qed.

Example ex_component_input : component_input ex_g.
Proof.
  constructor.
  - exact ex_consistent.
  - intros n. do 4 (destruct n as [|n]; [reflexivity|]). destruct n; reflexivity.
  - reflexivity.
  - intros e H. vm_compute in H. list_cases H; vm_compute; auto.
  - vm_compute. lia.
  - intros n H. vm_compute in H. list_cases H; vm_compute; lia.
Qed.

Example ex_options_ok : options_ok ex_o.
Proof. split; [left; reflexivity|right; left; reflexivity]. Qed.

Example ex_ns_premise : ns_premise ex_o ex_g.
Proof. intros H. discriminate H. Qed.

(* the intermediate graphs *)
Definition ex_g1 : graph := Eval vm_compute in
  match phase1 (o_p1 ex_o) (fst (ignore_self_loops ex_g)) with Ok g => g | Err _ => empty_graph end.
Definition ex_g2 : graph := Eval vm_compute in
  match phase2 (o_p2 ex_o) (Layout.ns_params ex_o) ex_g1 with Ok g => g | Err _ => empty_graph end.
Definition ex_g3 : graph := Eval vm_compute in
  match break_long_edges ex_g2 with Ok g => g | Err _ => empty_graph end.
Definition ex_g3' : graph := Eval vm_compute in
  match exec_wmedian wmedian_max_iter ex_g3 with Ok (g, _) => g | Err _ => empty_graph end.

Example ex_phase1 : phase1 (o_p1 ex_o) (fst (ignore_self_loops ex_g)) = Ok ex_g1.
Proof. vm_compute. reflexivity. Qed.
Example ex_phase2 : phase2 (o_p2 ex_o) (Layout.ns_params ex_o) ex_g1 = Ok ex_g2.
Proof. vm_compute. reflexivity. Qed.
Example ex_break : break_long_edges ex_g2 = Ok ex_g3.
Proof. vm_compute. reflexivity. Qed.
Example ex_wmedian : exec_wmedian wmedian_max_iter ex_g3 = Ok (ex_g3', 0%Z).
Proof. vm_compute. reflexivity. Qed.

(* edge 1 (1 -> 0) of the antiparallel pair has been reversed; the long edge 0 -> 2 got the helper node 4 *)
Example ex_g3_shape :
  e_rev (gedge ex_g3 1) = true /\ g_N ex_g3 = [0; 1; 2; 3; 4] /\ n_virt (gnode ex_g3 4) = true /\
  map l_nodes (g_L ex_g3) = [[0]; [1; 4]; [2]; [3]].
Proof. vm_compute. auto. Qed.

(* the ordering heuristic satisfies its contract on this graph *)
Example ex_order_contract : order_contract ex_g3 ex_g3'.
Proof.
  constructor.
  - reflexivity.
  - reflexivity.
  - reflexivity.
  - reflexivity.
  - intros n. do 5 (destruct n as [|n]; [reflexivity|]). destruct n; reflexivity.
  - reflexivity.
  - intros k. do 4 (destruct k as [|k]; [split; [reflexivity|split; [reflexivity|apply Permutation_refl]]|]).
    destruct k; (split; [reflexivity|split; [reflexivity|apply Permutation_refl]]).
  - intros k j H.
    do 4 (destruct k as [|k]; [do 2 (destruct j as [|j]; [try reflexivity; cbn in H; lia|]); cbn in H; lia|]).
    destruct k; cbn in H; lia.
Qed.

Example ex_wm_premise : wm_premise ex_o ex_g.
Proof.
  intros g1 g2 g3 P1 P2 B.
  rewrite ex_phase1 in P1. injection P1 as <-.
  rewrite ex_phase2 in P2. injection P2 as <-.
  rewrite ex_break in B. injection B as <-.
  intros g2 x W. rewrite ex_wmedian in W. injection W as <- <-. exact ex_order_contract.
Qed.

(* the result *)
Definition ex_out : graph := Eval vm_compute in
  match layout_component ex_o ex_g with Ok (g, _) => g | Err _ => empty_graph end.

Example ex_layout : layout_component ex_o ex_g = Ok (ex_out, Some 0%Z).
Proof. vm_compute. reflexivity. Qed.

Definition qr (l : list pt) : list pt := map (fun p : pt => (Qred (fst p), Qred (snd p))) l.

(* what the model computes: the edge list (non-loops first), ends, arrow flags, points; node positions *)
Example ex_out_eval :
  g_E ex_out = [0; 1; 2; 3; 4; 5] /\ g_N ex_out = [0; 1; 2; 3; 4] /\
  map (fun e => (e_from (gedge ex_out e), e_to (gedge ex_out e), e_ahs (gedge ex_out e))) (g_E ex_out) =
    [(0, 1, false); (1, 0, true); (1, 2, false); (2, 3, false); (0, 2, false); (2, 2, false)] /\
  map (fun e => qr (e_pts (gedge ex_out e))) (g_E ex_out) =
    [[(15 # 2, 6); (5, 13)]; [(15 # 2, 6); (5, 13)]; [(5, 19); (15 # 2, 26)]; [(15 # 2, 32); (15 # 2, 39)];
     [(15 # 2, 6); (15, 16); (15 # 2, 26)]; []]%Q /\
  map (fun n => (Qred (nX ex_out n), Qred (nY ex_out n), n_layer (gnode ex_out n))) (g_N ex_out) =
    [(5 # 2, 0, 0%Z); (0, 13, 1%Z); (5 # 2, 26, 2%Z); (5 # 2, 39, 3%Z); (15, 13, 1%Z)]%Q.
Proof. vm_compute. repeat split; reflexivity. Qed.

(* the end-to-end theorems instantiated *)
Example ex_backbone :
  exists g0 del g1 g2 g3 k g3' cx g4 gm routes g5,
    backbone ex_o ex_g ex_out (Some 0%Z) g0 del g1 g2 g3 k g3' cx g4 gm routes g5.
Proof. exact (pipeline_backbone _ _ _ _ ex_component_input ex_options_ok ex_wm_premise ex_ns_premise ex_layout). Qed.

Example ex_E1 : E1_statement ex_g ex_out.
Proof. exact (E1_output_graph _ _ _ _ ex_component_input ex_options_ok ex_wm_premise ex_ns_premise ex_layout). Qed.

Example ex_E2 : E2_statement 7 ex_g ex_out.
Proof. exact (E2_bands _ _ _ _ ex_component_input ex_options_ok ex_wm_premise ex_ns_premise ex_layout). Qed.

Example ex_E3 : E3_statement ex_g ex_out.
Proof. exact (E3_endpoints _ _ _ _ ex_component_input ex_options_ok ex_wm_premise ex_ns_premise ex_layout). Qed.

Example ex_E4 : E4_statement Polyline 7 ex_g ex_out.
Proof. exact (E4_route_shape _ _ _ _ ex_component_input ex_options_ok ex_wm_premise ex_ns_premise ex_layout). Qed.

(* the input is cyclic, so E2_acyclic_no_ahs does not apply: edge 1 carries the arrow-head-at-start flag; it runs
   upward, from node 1 in band 1 to node 0 in band 0, in accordance with E2 *)
Example ex_upward_edge :
  e_ahs (gedge ex_out 1) = true /\ upper_end ex_out 1 = 0 /\ lower_end ex_out 1 = 1 /\
  (n_layer (gnode ex_out (e_to (gedge ex_out 1))) < n_layer (gnode ex_out (e_from (gedge ex_out 1))))%Z.
Proof. vm_compute. auto. Qed.

(* ====================================================================================================== *)
(* the same component with the other algorithms: Greedy / NetworkSimplex / SinkColoring / Ortho; here the  *)
(* premise about network simplex is needed, and it holds                                                   *)
(* ====================================================================================================== *)
Definition ex_o2 : options := mkOptions Greedy NetworkSimplex SinkColoring Ortho 1 0 5 7 false.

Example ex2_options_ok : options_ok ex_o2.
Proof. split; [right; right; reflexivity|right; right; reflexivity]. Qed.

Definition ex2_g1 : graph := Eval vm_compute in
  match phase1 (o_p1 ex_o2) (fst (ignore_self_loops ex_g)) with Ok g => g | Err _ => empty_graph end.
Definition ex2_g2a : graph := Eval vm_compute in
  match exec_network_simplex (Layout.ns_params ex_o2) ex2_g1 with Ok g => g | Err _ => empty_graph end.
Definition ex2_g2 : graph := Eval vm_compute in
  match phase2 (o_p2 ex_o2) (Layout.ns_params ex_o2) ex2_g1 with Ok g => g | Err _ => empty_graph end.
Definition ex2_g3 : graph := Eval vm_compute in
  match break_long_edges ex2_g2 with Ok g => g | Err _ => empty_graph end.
Definition ex2_g3' : graph := Eval vm_compute in
  match exec_wmedian wmedian_max_iter ex2_g3 with Ok (g, _) => g | Err _ => empty_graph end.

Example ex2_phase1 : phase1 (o_p1 ex_o2) (fst (ignore_self_loops ex_g)) = Ok ex2_g1.
Proof. vm_compute. reflexivity. Qed.
Example ex2_ns : exec_network_simplex (Layout.ns_params ex_o2) ex2_g1 = Ok ex2_g2a.
Proof. vm_compute. reflexivity. Qed.
Example ex2_phase2 : phase2 (o_p2 ex_o2) (Layout.ns_params ex_o2) ex2_g1 = Ok ex2_g2.
Proof. vm_compute. reflexivity. Qed.
Example ex2_break : break_long_edges ex2_g2 = Ok ex2_g3.
Proof. vm_compute. reflexivity. Qed.
Example ex2_wmedian : exec_wmedian wmedian_max_iter ex2_g3 = Ok (ex2_g3', 0%Z).
Proof. vm_compute. reflexivity. Qed.

(* network simplex uses the tree flag and the cut value of the edges as scratch space, and assigns the layers *)
Example ex2_ns_scratch :
  map (fun e => (e_tree (gedge ex2_g2a e), e_cut (gedge ex2_g2a e))) (g_E ex2_g2a) =
    [(true, 3%Z); (false, 0%Z); (true, 2%Z); (true, 1%Z); (false, 0%Z)] /\
  map (layer_of ex2_g2a) (g_N ex2_g2a) = [0%Z; 1%Z; 2%Z; 3%Z].
Proof. vm_compute. auto. Qed.

Example ex2_layering_ok : layering_ok ex2_g1 ex2_g2a.
Proof.
  constructor; try reflexivity.
  - intros n. do 4 (destruct n as [|n]; [reflexivity|]). destruct n; reflexivity.
  - intros e. do 6 (destruct e as [|e]; [reflexivity|]). destruct e; reflexivity.
  - intros e H. vm_compute in H. list_cases H; vm_compute; discriminate.
Qed.

Example ex2_ns_premise : ns_premise ex_o2 ex_g.
Proof.
  intros _ g1 P1. rewrite ex2_phase1 in P1. injection P1 as <-.
  intros g' H. rewrite ex2_ns in H. injection H as <-. exact ex2_layering_ok.
Qed.

Example ex2_order_contract : order_contract ex2_g3 ex2_g3'.
Proof.
  constructor.
  - reflexivity.
  - reflexivity.
  - reflexivity.
  - reflexivity.
  - intros n. do 5 (destruct n as [|n]; [reflexivity|]). destruct n; reflexivity.
  - reflexivity.
  - intros k. do 4 (destruct k as [|k]; [split; [reflexivity|split; [reflexivity|apply Permutation_refl]]|]).
    destruct k; (split; [reflexivity|split; [reflexivity|apply Permutation_refl]]).
  - intros k j H.
    do 4 (destruct k as [|k]; [do 2 (destruct j as [|j]; [try reflexivity; cbn in H; lia|]); cbn in H; lia|]).
    destruct k; cbn in H; lia.
Qed.

Example ex2_wm_premise : wm_premise ex_o2 ex_g.
Proof.
  intros g1 g2 g3 P1 P2 B.
  rewrite ex2_phase1 in P1. injection P1 as <-.
  rewrite ex2_phase2 in P2. injection P2 as <-.
  rewrite ex2_break in B. injection B as <-.
  intros g2 x W. rewrite ex2_wmedian in W. injection W as <- <-. exact ex2_order_contract.
Qed.

Definition ex2_out : graph := Eval vm_compute in
  match layout_component ex_o2 ex_g with Ok (g, _) => g | Err _ => empty_graph end.

Example ex2_layout : layout_component ex_o2 ex_g = Ok (ex2_out, Some 0%Z).
Proof. vm_compute. reflexivity. Qed.

Example ex2_out_eval :
  map (fun e => (e_from (gedge ex2_out e), e_to (gedge ex2_out e), e_ahs (gedge ex2_out e))) (g_E ex2_out) =
    [(0, 1, false); (1, 0, true); (1, 2, false); (2, 3, false); (0, 2, false); (2, 2, false)] /\
  map (fun e => qr (e_pts (gedge ex2_out e))) (g_E ex2_out) =
    [[(20, 6); (20, 19 # 2); (5, 19 # 2); (5, 13)]; [(20, 6); (20, 19 # 2); (5, 19 # 2); (5, 13)];
     [(5, 19); (5, 45 # 2); (20, 45 # 2); (20, 26)]; [(20, 32); (20, 39)]; [(20, 6); (20, 26)]; []]%Q.
Proof. vm_compute. repeat split; reflexivity. Qed.

Example ex2_E1 : E1_statement ex_g ex2_out.
Proof. exact (E1_output_graph _ _ _ _ ex_component_input ex2_options_ok ex2_wm_premise ex2_ns_premise ex2_layout). Qed.

Example ex2_E2 : E2_statement 7 ex_g ex2_out.
Proof. exact (E2_bands _ _ _ _ ex_component_input ex2_options_ok ex2_wm_premise ex2_ns_premise ex2_layout). Qed.

Example ex2_E3 : E3_statement ex_g ex2_out.
Proof. exact (E3_endpoints _ _ _ _ ex_component_input ex2_options_ok ex2_wm_premise ex2_ns_premise ex2_layout). Qed.

Example ex2_E4 : E4_statement Ortho 7 ex_g ex2_out.
Proof. exact (E4_route_shape _ _ _ _ ex_component_input ex2_options_ok ex2_wm_premise ex2_ns_premise ex2_layout). Qed.

Print Assumptions ex_E1.
Print Assumptions ex_E4.
Print Assumptions ex2_E4.
