(* E2EFrontend.v — the setting of the end-to-end theorems is what the front end produces: every connected component
   with at least two nodes that [layout] hands to [layout_component] satisfies [component_input]. *)
From Autog Require Import Base Graph Populate Phase1 Layout Pipeline.
From Autog.Proofs Require Import ListLemmas Consistent PopulateProofs SizesProofs ComponentsProofs SelfLoopProofs Summary.
From Autog.Proofs Require CBBase CBGreedyRanks CycleBreaking.
From Autog.Proofs Require Import E2EBridge E2EBackbone E2EOutput.
From Coq Require Import Permutation Lia.
Local Open Scope nat_scope.

(* a connection between two different nodes ends with a step between two different nodes *)
Lemma conn_last_step : forall g m n, conn g m n -> m <> n ->
  exists b, b <> n /\ conn g m b /\ In n (neighbours g b).
Proof.
  intros g m n H. induction H as [a|a b c H IH Hc]; intros NE; [congruence|].
  destruct (Nat.eq_dec b c) as [->|Hbc].
  - apply IH, NE.
  - exists b. auto.
Qed.

(* in a connectivity class with two nodes, every node has an incident edge that is not a self loop *)
Lemma component_has_incident : forall g c, consistent g -> In c (components g) -> 2 <= length (g_N c) ->
  forall n, In n (g_N c) ->
    exists e, In e (g_E c) /\ self_loop c e = false /\ (e_from (gedge c e) = n \/ e_to (gedge c e) = n).
Proof.
  intros g c C Hc TWO n Hn.
  destruct (components_partition g C) as (P1 & P2 & P3 & _ & _ & _ & _ & P8 & _ & P10 & _ & P12 & _). cbv zeta in *.
  destruct (P1 c Hc) as (_ & EA & _).
  pose proof (P12 c Hc) as Cc.
  assert (SUB : forall y, In y (g_N c) -> In y (g_N g)).
  { intros y Hy. rewrite (P2 c Hc) in Hy. apply filter_In in Hy. apply Hy. }
  (* another node of the component *)
  assert (OTHER : exists m, In m (g_N c) /\ m <> n).
  { destruct (g_N c) as [|a [|b t]] eqn:EN; cbn in TWO; try lia.
    pose proof (c_nodupN c Cc) as ND. rewrite EN in ND. inversion ND as [|? ? Hnot _]; subst.
    destruct (Nat.eq_dec a n) as [->|Han].
    - exists b. split; [right; left; reflexivity|]. intros ->. apply Hnot. left. reflexivity.
    - exists a. split; [left; reflexivity|exact Han]. }
  destruct OTHER as (m & Hm & Hmn).
  assert (CNM : conn g m n) by (apply (P10 c m Hc Hm), Hn).
  destruct (conn_last_step g m n CNM Hmn) as (b & Hbn & Cmb & Nb).
  assert (Hb : In b (g_N g)) by (apply (conn_listed g m b C (SUB m Hm) Cmb)).
  apply (neighbours_iff g b n C Hb) in Nb. destruct Nb as (e & He & Ends).
  assert (Hec : In e (g_E c)).
  { destruct (P8 c e Hc He) as [I1 I2]. destruct Ends as [[F T]|[F T]]; [apply I1; rewrite F|apply I2; rewrite T]; exact Hn. }
  assert (GE : gedge c e = gedge g e) by (unfold gedge; rewrite EA; reflexivity).
  exists e. split; [exact Hec|]. unfold self_loop. rewrite GE. split.
  - apply Nat.eqb_neq. destruct Ends as [[F T]|[F T]]; rewrite F, T; auto.
  - destruct Ends as [[F T]|[F T]]; auto.
Qed.

Theorem frontend_component_input : forall (A : Type) (eqA : A -> A -> bool),
  (forall x y, eqA x y = true <-> x = y) ->
  forall es ids g fixed sizes,
    populate A eqA es = Ok (ids, g) ->
    forall c, In c (components (apply_sizes A eqA fixed sizes ids g)) -> 2 <= length (g_N c) ->
    component_input c.
Proof.
  intros A eqA OK es ids g fixed sizes H c Hc TWO.
  pose proof (populate_wf eqA OK es H) as P.
  destruct (frontend_consistent A eqA OK es ids g fixed sizes H) as [C1 CC]. cbv zeta in *.
  set (g1 := apply_sizes A eqA fixed sizes ids g) in *.
  destruct (CC c Hc) as (Cc & C0 & _ & _).
  destruct (apply_sizes_spec A eqA fixed sizes ids g (p_na_len P)) as (S1 & S2 & S3 & S4 & S5 & S6). cbv zeta in *.
  fold g1 in S1, S2, S3, S4, S5, S6.
  destruct (components_partition g1 C1) as (P1 & _ & P3 & _). cbv zeta in *.
  destruct (P1 c Hc) as (NA & EA & LL).
  constructor.
  - exact Cc.
  - intros n. unfold gnode. rewrite NA. fold (gnode g1 n).
    destruct (nth_error ids n) as [x|] eqn:En.
    + destruct (S6 n x En) as (_ & _ & _ & _ & _ & -> & _).
      assert (Hlt : n < length ids) by (apply nth_error_Some; congruence).
      apply (p_node_rest P Hlt).
    + apply nth_error_None in En. unfold gnode. rewrite nth_overflow; [reflexivity|].
      rewrite S5, (p_na_len P). exact En.
  - rewrite LL, S4. apply (p_L P).
  - intros e He. rewrite (P3 c Hc) in He. apply filter_In in He. destruct He as [He _].
    rewrite S3, (p_E P) in He. apply ListLemmas.in_iota in He.
    unfold gedge. rewrite EA, S1. fold (gedge g e).
    destruct (nth_error es e) as [p|] eqn:Ee; [|apply nth_error_None in Ee; lia].
    destruct (p_arity P p (nth_error_In _ _ Ee)) as (s & t & ->).
    destruct (p_edge P e Ee) as (_ & _ & R & D & _ & PT & _). auto.
  - exact TWO.
  - apply CycleBreaking.no_isolated_iff; [apply consistent_cb, C0|].
    intros n Hn. rewrite ignore_self_loops_N in Hn.
    destruct (component_has_incident g1 c C1 Hc TWO n Hn) as (e & He & Hs & Ends).
    exists e. split; [apply ignore_self_loops_keeps; auto|].
    rewrite ignore_self_loops_gedge. exact Ends.
Qed.
Print Assumptions frontend_component_input.

(* E1 - E4 for the components [layout] really processes: nothing is assumed about the component beyond its size *)
Theorem layout_component_end_to_end : forall (A : Type) (eqA : A -> A -> bool),
  (forall x y, eqA x y = true <-> x = y) ->
  forall es ids g fixed sizes o c c' x,
    populate A eqA es = Ok (ids, g) ->
    In c (components (apply_sizes A eqA fixed sizes ids g)) -> 2 <= length (g_N c) ->
    options_ok o -> wm_premise o c -> ns_premise o c ->
    layout_component o c = Ok (c', x) ->
    E1_statement c c' /\ E2_statement (o_layer_spacing o) c c' /\ E3_statement c c' /\
    E4_statement (o_p5 o) (o_layer_spacing o) c c'.
Proof.
  intros A eqA OK es ids g fixed sizes o c c' x H Hc TWO OO WM NS L.
  pose proof (frontend_component_input A eqA OK es ids g fixed sizes H c Hc TWO) as CI.
  split; [eapply E1_output_graph; eassumption|]. split; [eapply E2_bands; eassumption|].
  split; [eapply E3_endpoints; eassumption|eapply E4_route_shape; eassumption].
Qed.
Print Assumptions layout_component_end_to_end.
