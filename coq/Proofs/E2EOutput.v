(* E2EOutput.v — end-to-end theorems about [layout_component], derived from [pipeline_backbone]:
     E1  the output graph is the input graph (edge list, edge ends, node list, sizes)
     E2  bands: every node lies in the layer list given by its layer index, shares the y of its band, fits into it;
         every edge joins two different bands and carries the arrow-head-at-start flag exactly when it runs upward
     E3  the end points of every route
     E4  the shape of the routes (straight / polyline / orthogonal) *)
From Autog Require Import Base Graph Populate Phase1 Phase2 Phase3 Phase4 Phase5 Layout Wmedian Pipeline.
From Autog.Proofs Require Import ListLemmas Consistent SelfLoopProofs.
From Autog.Proofs Require CBBase CBGreedy CBGreedyRanks CBDepthFirst CBHasCycles CycleBreaking LongestPath
                          OptNormalize OptVbalance OptPipeline CollectProofs.
From Autog.Proofs Require Import Positioners Routes BreakMerge SinkColoringProofs E2EBridge E2EBackbone.
From Coq Require Import Permutation Lia Lqa.
Local Open Scope nat_scope.

(* ====================================================================================================== *)
(** * 1. post_process = restore the self loops, then un-reverse                                            *)
(* ====================================================================================================== *)

Theorem post_process_facts : forall g5 del,
  (forall e, In e del -> e_from (gedge g5 e) < length (g_na g5) /\ e_to (gedge g5 e) < length (g_na g5)) ->
  let g' := post_process g5 del in
  g_N g' = g_N g5 /\ g_E g' = g_E g5 ++ del /\ g_L g' = g_L g5 /\ length (g_na g') = length (g_na g5) /\
  (forall e, In e (g_E g5 ++ del) -> e_rev (gedge g' e) = false) /\
  (forall e, In e (g_E g5 ++ del) -> e_rev (gedge g5 e) = true -> gedge g' e = flip_edge (gedge g5 e)) /\
  (forall e, ~ In e (g_E g5 ++ del) \/ e_rev (gedge g5 e) = false -> gedge g' e = gedge g5 e) /\
  (forall e, e_pts (gedge g' e) = e_pts (gedge g5 e) /\ e_ahs (gedge g' e) = e_ahs (gedge g5 e)) /\
  (forall n, n_layer (gnode g' n) = n_layer (gnode g5 n) /\ n_pos (gnode g' n) = n_pos (gnode g5 n) /\
             n_virt (gnode g' n) = n_virt (gnode g5 n) /\
             n_x (gnode g' n) = n_x (gnode g5 n) /\ n_y (gnode g' n) = n_y (gnode g5 n) /\
             n_w (gnode g' n) = n_w (gnode g5 n) /\ n_h (gnode g' n) = n_h (gnode g5 n)).
Proof.
  intros g5 del RNG g'. unfold g', post_process.
  destruct (restore_self_loops_spec g5 del RNG) as (R1 & R2 & R3 & R4 & R5 & R6 & R7). cbv zeta in *.
  set (gr := restore_self_loops g5 del) in *.
  destruct (unreverse_edges_spec gr) as (U1 & U2 & U3 & U4 & U5 & U6 & U7 & U8 & U9 & U10). cbv zeta in *.
  split; [congruence|]. split; [congruence|]. split; [congruence|]. split; [congruence|].
  split; [|split; [|split; [|split]]].
  - intros e He. apply U6. rewrite R5. exact He.
  - intros e He Hr. rewrite <- R7. apply U7; [rewrite R5; exact He|rewrite R7; exact Hr].
  - intros e He. rewrite <- R7. apply U8. rewrite R5, R7. exact He.
  - intros e. rewrite <- R7. split; apply U9.
  - intros n. destruct (same_but_adj_fields _ _ (U10 n)) as (-> & -> & -> & -> & -> & -> & ->).
    destruct (R6 n) as (_ & _ & -> & -> & -> & -> & -> & -> & ->). repeat split; reflexivity.
Qed.

(* ====================================================================================================== *)
(** * 2. Summary of the backbone: sizes of the arenas, edges, nodes                                        *)
(* ====================================================================================================== *)

Section Summary.
  Variables (o : options) (g g' : graph) (x : option Z) (g0 : graph) (del : list nat) (g1 g2 g3 : graph) (k : nat)
            (g3' : graph) (cx : Z) (g4 gm : graph) (routes : list (nat * list nat)) (g5 : graph).
  Hypothesis CI : component_input g.
  Hypothesis BB : backbone o g g' x g0 del g1 g2 g3 k g3' cx g4 gm routes g5.

  Let S01 := bb_s01 _ _ _ _ _ _ _ _ _ _ _ _ _ _ _ _ BB.
  Let S23 := bb_s23 _ _ _ _ _ _ _ _ _ _ _ _ _ _ _ _ BB.
  Let S45 := bb_s45 _ _ _ _ _ _ _ _ _ _ _ _ _ _ _ _ BB.
  Let PP := s2_post _ _ _ _ S23.

  Lemma sum_lengths :
    length (g_na g2) = length (g_na g) /\ length (g_ea g2) = length (g_ea g) /\
    length (g_na g5) = length (g_na g) + k /\
    g_E g2 = filter (fun e => negb (self_loop g e)) (g_E g) /\ g_N g2 = g_N g /\
    g_E g5 = g_E g2 /\ g_N g5 = g_N g ++ iota (length (g_na g)) k /\ g_L g5 = g_L g4.
  Proof.
    destruct (rev_star_frame _ _ (s1_rs _ _ _ _ S01)) as (F1 & F2 & _ & F4 & F5 & _).
    assert (NA2 : length (g_na g2) = length (g_na g)).
    { rewrite (p2_na _ _ PP), F4. apply (s0_na _ _ _ _ S01). }
    split; [exact NA2|]. split.
    { rewrite (p2_ea _ _ PP), F5, (s0_ea _ _ _ _ S01). reflexivity. }
    split.
    { rewrite (s5_na _ _ _ _ _ _ _ _ _ S45), (sm_na _ _ _ _ _ _ _ _ _ S45), (s4_na _ _ _ _ _ _ _ _ _ S45),
        (s3_na _ _ _ _ S23), NA2. reflexivity. }
    split.
    { rewrite (p2_E _ _ PP), F2. apply (s0_E _ _ _ _ S01). }
    assert (N2 : g_N g2 = g_N g).
    { rewrite (p2_N _ _ PP), F1. apply (s0_N _ _ _ _ S01). }
    split; [exact N2|]. split.
    { rewrite (s5_E _ _ _ _ _ _ _ _ _ S45). apply (sm_E _ _ _ _ _ _ _ _ _ S45). }
    split.
    { rewrite (s5_N _ _ _ _ _ _ _ _ _ S45), (sm_N _ _ _ _ _ _ _ _ _ S45), (s4_N _ _ _ _ _ _ _ _ _ S45),
        (s3_N _ _ _ _ S23), N2, NA2. reflexivity. }
    rewrite (s5_L _ _ _ _ _ _ _ _ _ S45). apply (sm_L _ _ _ _ _ _ _ _ _ S45).
  Qed.

  (* a listed edge of the input that is not a self loop *)
  Definition nonloop (e : nat) : Prop := In e (g_E g) /\ self_loop g e = false.

  Lemma nonloop_E2 : forall e, nonloop e <-> In e (g_E g2).
  Proof.
    intros e. destruct sum_lengths as (_ & _ & _ & -> & _). unfold nonloop. rewrite filter_In, negb_true_iff. tauto.
  Qed.

  (* the record of a non-loop edge when phase 2 hands it on: the input record, possibly reversed *)
  Lemma sum_edge2 : forall e, nonloop e ->
    e_pts (gedge g2 e) = [] /\ e_delta (gedge g2 e) = 1%Z /\
    ((e_rev (gedge g2 e) = false /\ e_from (gedge g2 e) = e_from (gedge g e) /\ e_to (gedge g2 e) = e_to (gedge g e)) \/
     (e_rev (gedge g2 e) = true /\ e_from (gedge g2 e) = e_to (gedge g e) /\ e_to (gedge g2 e) = e_from (gedge g e))).
  Proof.
    intros e He. apply nonloop_E2 in He. rewrite (p2_E _ _ PP) in He.
    destruct (s1_edge _ _ _ _ S01 e He) as (HeE & _ & FR & D1 & P1).
    destruct (edge_eq_tc_fields _ _ (p2_edge _ _ PP e)) as (-> & -> & -> & _ & -> & -> & _).
    split; [exact P1|]. split; [exact D1|].
    destruct (ci_edges _ CI e HeE) as (RV & _).
    destruct FR as [->| ->]; [left|right]; cbn; rewrite RV; repeat split; reflexivity.
  Qed.

  (* the record of a non-loop edge after phase 5 *)
  Lemma sum_edge5 : forall e, nonloop e ->
    exists r pts, In r routes /\ fst r = e /\
      gedge g5 e = set_pts pts (set_ahs (e_rev (gedge g2 e)) (gedge g2 e)) /\
      routed (o_p5 o) (o_layer_spacing o) gm r pts /\
      route_ok g2 gm r /\ chain_y_eq gm (o_layer_spacing o) (snd r).
  Proof.
    intros e He. apply nonloop_E2 in He. pose proof He as He'.
    rewrite <- (sm_fst _ _ _ _ _ _ _ _ _ S45) in He'. apply in_map_iff in He'. destruct He' as (r & Er & Hr).
    destruct (s5_edge _ _ _ _ _ _ _ _ _ S45 r Hr) as (pts & P1 & P2).
    pose proof (sm_routes _ _ _ _ _ _ _ _ _ S45) as RO. rewrite Forall_forall in RO. destruct (RO r Hr) as [RO1 RO2].
    exists r, pts. rewrite Er in P1. rewrite (sm_edge _ _ _ _ _ _ _ _ _ S45 e He) in P1. auto 10.
  Qed.

  (* the self loops come back untouched (up to the scratch fields of network simplex) *)
  Lemma sum_loop5 : forall e, In e del -> In e (g_E g) /\ self_loop g e = true /\ edge_eq_tc (gedge g5 e) (gedge g e).
  Proof.
    intros e He. rewrite (s0_del _ _ _ _ S01) in He. apply filter_In in He. destruct He as [HeE Hs].
    split; [exact HeE|]. split; [exact Hs|].
    assert (N2 : ~ In e (g_E g2)).
    { intros H. apply nonloop_E2 in H. destruct H as [_ H]. congruence. }
    rewrite (s5_other _ _ _ _ _ _ _ _ _ S45 e N2).
    destruct sum_lengths as (_ & EA & _).
    rewrite (sm_other _ _ _ _ _ _ _ _ _ S45 e); [|rewrite EA; apply (c_E_lt _ (ci_cons _ CI) e HeE)|exact N2].
    rewrite <- (s1_other _ _ _ _ S01 e); [apply (p2_edge _ _ PP e)|]. rewrite <- (p2_E _ _ PP). exact N2.
  Qed.

  Lemma sum_post_range : forall e, In e del ->
    e_from (gedge g5 e) < length (g_na g5) /\ e_to (gedge g5 e) < length (g_na g5).
  Proof.
    intros e He. destruct (sum_loop5 e He) as (HeE & _ & TC).
    destruct (edge_eq_tc_fields _ _ TC) as (-> & -> & _).
    destruct sum_lengths as (_ & _ & -> & _).
    pose proof (ci_cons _ CI) as C.
    pose proof (c_N_lt _ C _ (c_from _ C e HeE)). pose proof (c_N_lt _ C _ (c_to _ C e HeE)). lia.
  Qed.

  (* node fields: g' against g4 (everything but adjacency), g' against g3 (not x, y, pos), old nodes against g *)
  Lemma sum_node4 : forall n,
    n_layer (gnode g' n) = n_layer (gnode g4 n) /\ n_virt (gnode g' n) = n_virt (gnode g4 n) /\
    n_x (gnode g' n) = n_x (gnode g4 n) /\ n_y (gnode g' n) = n_y (gnode g4 n) /\
    n_w (gnode g' n) = n_w (gnode g4 n) /\ n_h (gnode g' n) = n_h (gnode g4 n).
  Proof.
    intros n. rewrite (bb_e6 _ _ _ _ _ _ _ _ _ _ _ _ _ _ _ _ BB).
    destruct (post_process_facts g5 del sum_post_range) as (_ & _ & _ & _ & _ & _ & _ & _ & PN). cbv zeta in PN.
    destruct (PN n) as (-> & _ & -> & -> & -> & -> & ->).
    rewrite (gnode_same_na _ _ n (s5_na _ _ _ _ _ _ _ _ _ S45)).
    pose proof (sm_node _ _ _ _ _ _ _ _ _ S45 n) as Sb.
    destruct (same_but_in_fields _ _ Sb) as (-> & -> & _). destruct (same_but_in_geom _ _ Sb) as (-> & -> & -> & ->).
    repeat split; reflexivity.
  Qed.

  Lemma sum_node3 : forall n,
    n_layer (gnode g' n) = n_layer (gnode g3 n) /\ n_virt (gnode g' n) = n_virt (gnode g3 n) /\
    n_w (gnode g' n) = n_w (gnode g3 n) /\ n_h (gnode g' n) = n_h (gnode g3 n).
  Proof.
    intros n. destruct (sum_node4 n) as (-> & -> & _ & _ & -> & ->).
    pose proof (s4_node _ _ _ _ _ _ _ _ _ S45 n) as E.
    destruct (gnode g4 n), (gnode g3 n). unfold set_pos, set_x, set_y in E. cbn in *. inversion E. repeat split; reflexivity.
  Qed.

  Lemma sum_node_old : forall n, n < length (g_na g) ->
    n_layer (gnode g3 n) = n_layer (gnode g2 n) /\ n_virt (gnode g3 n) = false /\
    n_w (gnode g3 n) = n_w (gnode g n) /\ n_h (gnode g3 n) = n_h (gnode g n).
  Proof.
    intros n Hn. destruct sum_lengths as (NA2 & _). rewrite <- NA2 in Hn.
    pose proof (s3_old _ _ _ _ S23 n Hn) as Sb.
    destruct (same_but_in_fields _ _ Sb) as (-> & -> & _). destruct (same_but_in_geom _ _ Sb) as (_ & _ & -> & ->).
    split; [reflexivity|]. rewrite (p2_node _ _ PP n). cbn [set_layer n_virt n_w n_h].
    destruct (rev_star_frame _ _ (s1_rs _ _ _ _ S01)) as (_ & _ & _ & _ & _ & F6 & _).
    destruct (same_but_adj_fields _ _ (F6 n)) as (_ & _ & -> & _ & _ & -> & ->).
    destruct (node_attrs_fields _ _ (s0_attrs _ _ _ _ S01 n)) as (_ & _ & -> & _ & _ & -> & ->).
    split; [apply (ci_nonvirt _ CI)|]. split; reflexivity.
  Qed.
End Summary.

(* ====================================================================================================== *)
(** * E1. The output graph is the input graph                                                              *)
(* ====================================================================================================== *)

Definition E1_statement (g g' : graph) : Prop :=
  g_E g' = filter (fun e => negb (self_loop g e)) (g_E g) ++ filter (self_loop g) (g_E g) /\
  (forall e, In e (g_E g) ->
     e_from (gedge g' e) = e_from (gedge g e) /\ e_to (gedge g' e) = e_to (gedge g e) /\ e_rev (gedge g' e) = false) /\
  (forall e, In e (g_E g) -> self_loop g e = true -> e_pts (gedge g' e) = []) /\
  (exists vs, g_N g' = g_N g ++ vs /\
              forall v, In v vs -> length (g_na g) <= v /\ n_virt (gnode g' v) = true) /\
  (forall n, In n (g_N g) ->
     n_virt (gnode g' n) = false /\ n_w (gnode g' n) = n_w (gnode g n) /\ n_h (gnode g' n) = n_h (gnode g n)).

Lemma E1_of_backbone : forall o g g' x g0 del g1 g2 g3 k g3' cx g4 gm routes g5,
  component_input g -> backbone o g g' x g0 del g1 g2 g3 k g3' cx g4 gm routes g5 -> E1_statement g g'.
Proof.
  intros o g g' x g0 del g1 g2 g3 k g3' cx g4 gm routes g5 CI BB.
  pose proof (sum_lengths _ _ _ _ _ _ _ _ _ _ _ _ _ _ _ _ BB) as (NA2 & EA2 & NA5 & E2 & N2 & E5 & N5 & L5).
  pose proof (sum_post_range _ _ _ _ _ _ _ _ _ _ _ _ _ _ _ _ CI BB) as RNG.
  destruct (post_process_facts g5 del RNG) as (Q1 & Q2 & Q3 & Q4 & Q5 & Q6 & Q7 & Q8 & Q9). cbv zeta in *.
  rewrite <- (bb_e6 _ _ _ _ _ _ _ _ _ _ _ _ _ _ _ _ BB) in *.
  pose proof (bb_s01 _ _ _ _ _ _ _ _ _ _ _ _ _ _ _ _ BB) as S01.
  pose proof (bb_s23 _ _ _ _ _ _ _ _ _ _ _ _ _ _ _ _ BB) as S23.
  assert (EE : g_E g5 ++ del = filter (fun e => negb (self_loop g e)) (g_E g) ++ filter (self_loop g) (g_E g)).
  { rewrite E5, E2, (s0_del _ _ _ _ S01). reflexivity. }
  assert (INE : forall e, In e (g_E g) -> In e (g_E g5 ++ del)).
  { intros e He. rewrite EE. apply in_or_app. destruct (self_loop g e) eqn:Es; [right|left]; apply filter_In; split; auto.
    rewrite Es. reflexivity. }
  split; [rewrite Q2; exact EE|]. split; [|split; [|split]].
  - intros e He. split; [|split; [|apply Q5, INE, He]].
    + destruct (self_loop g e) eqn:Es.
      * assert (Hd : In e del) by (rewrite (s0_del _ _ _ _ S01); apply filter_In; auto).
        destruct (sum_loop5 _ _ _ _ _ _ _ _ _ _ _ _ _ _ _ _ CI BB e Hd) as (_ & _ & TC).
        destruct (edge_eq_tc_fields _ _ TC) as (F1 & F2 & _ & _ & F5 & _).
        rewrite Q7; [exact F1|]. right. rewrite F5. apply (ci_edges _ CI e He).
      * destruct (sum_edge5 _ _ _ _ _ _ _ _ _ _ _ _ _ _ _ _ BB e (conj He Es)) as (r & pts & _ & _ & G5 & _).
        destruct (sum_edge2 _ _ _ _ _ _ _ _ _ _ _ _ _ _ _ _ CI BB e (conj He Es)) as (_ & _ & [(R & F & T)|(R & F & T)]).
        -- rewrite Q7; [rewrite G5; cbn; exact F|]. right. rewrite G5. cbn. exact R.
        -- rewrite Q6; [rewrite G5; cbn; exact T|apply INE, He|rewrite G5; cbn; exact R].
    + destruct (self_loop g e) eqn:Es.
      * assert (Hd : In e del) by (rewrite (s0_del _ _ _ _ S01); apply filter_In; auto).
        destruct (sum_loop5 _ _ _ _ _ _ _ _ _ _ _ _ _ _ _ _ CI BB e Hd) as (_ & _ & TC).
        destruct (edge_eq_tc_fields _ _ TC) as (F1 & F2 & _ & _ & F5 & _).
        rewrite Q7; [exact F2|]. right. rewrite F5. apply (ci_edges _ CI e He).
      * destruct (sum_edge5 _ _ _ _ _ _ _ _ _ _ _ _ _ _ _ _ BB e (conj He Es)) as (r & pts & _ & _ & G5 & _).
        destruct (sum_edge2 _ _ _ _ _ _ _ _ _ _ _ _ _ _ _ _ CI BB e (conj He Es)) as (_ & _ & [(R & F & T)|(R & F & T)]).
        -- rewrite Q7; [rewrite G5; cbn; exact T|]. right. rewrite G5. cbn. exact R.
        -- rewrite Q6; [rewrite G5; cbn; exact F|apply INE, He|rewrite G5; cbn; exact R].
  - intros e He Es.
    assert (Hd : In e del) by (rewrite (s0_del _ _ _ _ S01); apply filter_In; auto).
    destruct (sum_loop5 _ _ _ _ _ _ _ _ _ _ _ _ _ _ _ _ CI BB e Hd) as (_ & _ & TC).
    destruct (edge_eq_tc_fields _ _ TC) as (_ & _ & _ & _ & _ & F6 & _).
    destruct (Q8 e) as [-> _]. rewrite F6. apply (ci_edges _ CI e He).
  - exists (iota (length (g_na g)) k). split; [rewrite Q1; exact N5|].
    intros v Hv. apply BreakMerge.in_iota in Hv. split; [lia|].
    destruct (sum_node3 _ _ _ _ _ _ _ _ _ _ _ _ _ _ _ _ CI BB v) as (_ & -> & _).
    apply (s3_new _ _ _ _ S23). rewrite NA2. exact Hv.
  - intros n Hn. pose proof (c_N_lt _ (ci_cons _ CI) n Hn) as Hlt.
    destruct (sum_node3 _ _ _ _ _ _ _ _ _ _ _ _ _ _ _ _ CI BB n) as (_ & -> & -> & ->).
    destruct (sum_node_old _ _ _ _ _ _ _ _ _ _ _ _ _ _ _ _ CI BB n Hlt) as (_ & ? & ? & ?). auto.
Qed.

Theorem E1_output_graph : forall o g g' x,
  component_input g -> options_ok o -> wm_premise o g -> ns_premise o g ->
  layout_component o g = Ok (g', x) -> E1_statement g g'.
Proof.
  intros o g g' x CI OK WM NS H.
  destruct (pipeline_backbone o g g' x CI OK WM NS H) as (g0 & del & g1 & g2 & g3 & k & g3' & cx & g4 & gm & routes & g5 & BB).
  eapply E1_of_backbone; eassumption.
Qed.
Print Assumptions E1_output_graph.

(* ====================================================================================================== *)
(** * E2. Bands and the direction of the edges                                                             *)
(* ====================================================================================================== *)

Lemma layers_wf_unique : forall g n j j',
  layers_wf g -> In n (l_nodes (glayer g j)) -> In n (l_nodes (glayer g j')) -> j = j'.
Proof.
  intros g n j j' [ND _] H1 H2.
  assert (R : forall i, In n (l_nodes (glayer g i)) -> i < length (g_L g)).
  { intros i Hi. destruct (Nat.lt_ge_cases i (length (g_L g))) as [L|L]; [exact L|].
    unfold glayer in Hi. rewrite nth_overflow in Hi; [destruct Hi|exact L]. }
  destruct (Nat.eq_dec j j') as [E|NE]; [exact E|exfalso].
  apply (flat_map_disjoint _ _ l_nodes (g_L g) j j' (glayer g j) (glayer g j') n ND); auto;
    unfold glayer; apply nth_error_nth'; apply R; assumption.
Qed.

Definition E2_statement (sp : Q) (g g' : graph) : Prop :=
  (* the layer lists are duplicate free and in range *)
  layers_wf g' /\
  (* every node of the output node list is listed in the band given by its layer index ... *)
  (forall n, In n (g_N g') ->
     (0 <= n_layer (gnode g' n))%Z /\ In n (l_nodes (glayer g' (Z.to_nat (n_layer (gnode g' n)))))) /\
  (* ... and in no other; the nodes of band k share the y coordinate Y_k and are at most as high as the band *)
  (forall k n, In n (l_nodes (glayer g' k)) ->
     In n (g_N g') /\ k = Z.to_nat (n_layer (gnode g' n)) /\
     nY g' n = ysum sp (g_L g') k /\ (nH g' n <= l_h (glayer g' k))%Q) /\
  (* every edge that is not a self loop joins two different bands; it runs upward exactly when it carries the
     arrow-head-at-start flag *)
  (forall e, In e (g_E g) -> self_loop g e = false ->
     let a := e_from (gedge g' e) in let b := e_to (gedge g' e) in
     n_layer (gnode g' a) <> n_layer (gnode g' b) /\
     (e_ahs (gedge g' e) = true <-> (n_layer (gnode g' b) < n_layer (gnode g' a))%Z) /\
     (e_ahs (gedge g' e) = false <-> (n_layer (gnode g' a) < n_layer (gnode g' b))%Z)).

Section E2.
  Variables (o : options) (g g' : graph) (x : option Z) (g0 : graph) (del : list nat) (g1 g2 g3 : graph) (k : nat)
            (g3' : graph) (cx : Z) (g4 gm : graph) (routes : list (nat * list nat)) (g5 : graph).
  Hypothesis CI : component_input g.
  Hypothesis BB : backbone o g g' x g0 del g1 g2 g3 k g3' cx g4 gm routes g5.

  Let S01 := bb_s01 _ _ _ _ _ _ _ _ _ _ _ _ _ _ _ _ BB.
  Let S23 := bb_s23 _ _ _ _ _ _ _ _ _ _ _ _ _ _ _ _ BB.
  Let S45 := bb_s45 _ _ _ _ _ _ _ _ _ _ _ _ _ _ _ _ BB.
  Let PP := s2_post _ _ _ _ S23.

  (* the final graph has the layer list, the node list and the arena size of the phase-4 output *)
  Lemma out_frame : g_L g' = g_L g4 /\ g_N g' = g_N g4 /\ length (g_na g') = length (g_na g4) /\
                    g_E g' = g_E g2 ++ del.
  Proof.
    pose proof (sum_lengths _ _ _ _ _ _ _ _ _ _ _ _ _ _ _ _ BB) as (NA2 & EA2 & NA5 & E2 & N2 & E5 & N5 & L5).
    destruct (post_process_facts g5 del (sum_post_range _ _ _ _ _ _ _ _ _ _ _ _ _ _ _ _ CI BB)) as (Q1 & Q2 & Q3 & Q4 & _).
    cbv zeta in *. rewrite <- (bb_e6 _ _ _ _ _ _ _ _ _ _ _ _ _ _ _ _ BB) in *.
    split; [congruence|]. split.
    { rewrite Q1, (s5_N _ _ _ _ _ _ _ _ _ S45). apply (sm_N _ _ _ _ _ _ _ _ _ S45). }
    split.
    { rewrite Q4, (s5_na _ _ _ _ _ _ _ _ _ S45). apply (sm_na _ _ _ _ _ _ _ _ _ S45). }
    rewrite Q2, E5. reflexivity.
  Qed.

  (* the layer of an end of a non-loop edge, read in g', is its layer in g2 *)
  Lemma out_layer_old : forall n, n < length (g_na g) -> n_layer (gnode g' n) = layer_of g2 n.
  Proof.
    intros n Hn. destruct (sum_node3 _ _ _ _ _ _ _ _ _ _ _ _ _ _ _ _ CI BB n) as (-> & _).
    destruct (sum_node_old _ _ _ _ _ _ _ _ _ _ _ _ _ _ _ _ CI BB n Hn) as (-> & _). reflexivity.
  Qed.

  Lemma E2_of_backbone : E2_statement (o_layer_spacing o) g g'.
  Proof.
    destruct out_frame as (OL & ON & ONA & OE).
    assert (GL : forall j, glayer g' j = glayer g4 j) by (intros j; unfold glayer; rewrite OL; reflexivity).
    assert (WF' : layers_wf g').
    { unfold layers_wf. rewrite OL, ONA. apply (s4_wf _ _ _ _ _ _ _ _ _ S45). }
    assert (PL' : forall n, In n (g_N g') ->
              (0 <= n_layer (gnode g' n))%Z /\ In n (l_nodes (glayer g' (Z.to_nat (n_layer (gnode g' n)))))).
    { intros n Hn. rewrite ON in Hn. destruct (s4_placed _ _ _ _ _ _ _ _ _ S45 n Hn) as [P0 P1].
      destruct (sum_node4 _ _ _ _ _ _ _ _ _ _ _ _ _ _ _ _ CI BB n) as (-> & _). rewrite GL. split; assumption. }
    split; [exact WF'|]. split; [exact PL'|]. split.
    - intros j n Hn.
      assert (HnN : In n (g_N g')).
      { rewrite ON, (s4_N _ _ _ _ _ _ _ _ _ S45). apply (s3_inl _ _ _ _ S23 j).
        apply (s4_inl _ _ _ _ _ _ _ _ _ S45). rewrite <- GL. exact Hn. }
      split; [exact HnN|]. split.
      + apply (layers_wf_unique g' n); [exact WF'|exact Hn|apply PL', HnN].
      + rewrite GL in Hn. destruct (s4_y _ _ _ _ _ _ _ _ _ S45 j n Hn) as [Y1 Y2].
        destruct (sum_node4 _ _ _ _ _ _ _ _ _ _ _ _ _ _ _ _ CI BB n) as (_ & _ & _ & Hy & _ & Hh).
        unfold nY, nH in *. rewrite Hy, Hh, OL, GL. split; assumption.
    - intros e He Es. cbv zeta.
      destruct (E1_of_backbone _ _ _ _ _ _ _ _ _ _ _ _ _ _ _ _ CI BB) as (_ & EN & _).
      destruct (EN e He) as (-> & -> & _).
      pose proof (ci_cons _ CI) as C.
      rewrite !out_layer_old; [|apply (c_N_lt _ C), (c_to _ C e He)|apply (c_N_lt _ C), (c_from _ C e He)].
      destruct (sum_edge5 _ _ _ _ _ _ _ _ _ _ _ _ _ _ _ _ BB e (conj He Es)) as (r & pts & _ & _ & G5 & _).
      destruct (post_process_facts g5 del (sum_post_range _ _ _ _ _ _ _ _ _ _ _ _ _ _ _ _ CI BB))
        as (_ & _ & _ & _ & _ & _ & _ & Q8 & _). cbv zeta in Q8.
      rewrite <- (bb_e6 _ _ _ _ _ _ _ _ _ _ _ _ _ _ _ _ BB) in Q8. destruct (Q8 e) as [_ ->]. rewrite G5. cbn [set_pts set_ahs e_ahs].
      assert (He2 : In e (g_E g2)) by (apply (nonloop_E2 _ _ _ _ _ _ _ _ _ _ _ _ _ _ _ _ BB); split; assumption).
      pose proof (p2_span _ _ PP e He2) as SP.
      destruct (sum_edge2 _ _ _ _ _ _ _ _ _ _ _ _ _ _ _ _ CI BB e (conj He Es)) as (_ & _ & [(R & F & T)|(R & F & T)]);
        rewrite R; rewrite F, T in SP; (split; [lia|split; split; intros; try discriminate; try lia; try reflexivity]).
  Qed.
End E2.

Theorem E2_bands : forall o g g' x,
  component_input g -> options_ok o -> wm_premise o g -> ns_premise o g ->
  layout_component o g = Ok (g', x) -> E2_statement (o_layer_spacing o) g g'.
Proof.
  intros o g g' x CI OK WM NS H.
  destruct (pipeline_backbone o g g' x CI OK WM NS H) as (g0 & del & g1 & g2 & g3 & k & g3' & cx & g4 & gm & routes & g5 & BB).
  eapply E2_of_backbone; eassumption.
Qed.
Print Assumptions E2_bands.

(* consecutive bands are separated by at least the layer spacing below the tallest node of the upper band *)
Corollary E2_band_separation : forall o g g' x,
  component_input g -> options_ok o -> wm_premise o g -> ns_premise o g ->
  layout_component o g = Ok (g', x) ->
  forall k n m, In n (l_nodes (glayer g' k)) -> In m (l_nodes (glayer g' (S k))) ->
    (nY g' n + nH g' n + o_layer_spacing o <= nY g' m)%Q.
Proof.
  intros o g g' x CI OK WM NS H k n m Hn Hm.
  destruct (E2_bands o g g' x CI OK WM NS H) as (_ & _ & B & _).
  destruct (B k n Hn) as (_ & _ & -> & Hh). destruct (B (S k) m Hm) as (_ & _ & -> & _).
  rewrite ysum_S. fold (glayer g' k). lra.
Qed.

(* an acyclic input: no edge is reversed, so no edge carries the arrow-head-at-start flag *)
Theorem E2_acyclic_no_ahs : forall o g g' x,
  component_input g -> options_ok o -> wm_premise o g -> ns_premise o g ->
  layout_component o g = Ok (g', x) ->
  CBBase.ranked (fst (ignore_self_loops g)) ->
  forall e, In e (g_E g) -> self_loop g e = false -> e_ahs (gedge g' e) = false.
Proof.
  intros o g g' x CI OK WM NS H RK e He Es.
  destruct (pipeline_backbone o g g' x CI OK WM NS H) as (g0 & del & g1 & g2 & g3 & k & g3' & cx & g4 & gm & routes & g5 & BB).
  pose proof (bb_s01 _ _ _ _ _ _ _ _ _ _ _ _ _ _ _ _ BB) as S01.
  pose proof (bb_s23 _ _ _ _ _ _ _ _ _ _ _ _ _ _ _ _ BB) as S23.
  assert (Eg0 : g0 = fst (ignore_self_loops g)) by (rewrite (bb_e0 _ _ _ _ _ _ _ _ _ _ _ _ _ _ _ _ BB); reflexivity).
  rewrite <- Eg0 in RK.
  pose proof (CBHasCycles.acyclic_input_untouched (o_p1 o) g0 (s0_c _ _ _ _ S01) (s0_nsl _ _ _ _ S01) RK) as P1.
  rewrite (bb_e1 _ _ _ _ _ _ _ _ _ _ _ _ _ _ _ _ BB) in P1. injection P1 as E10.
  destruct (sum_edge5 _ _ _ _ _ _ _ _ _ _ _ _ _ _ _ _ BB e (conj He Es)) as (r & pts & _ & _ & G5 & _).
  destruct (post_process_facts g5 del (sum_post_range _ _ _ _ _ _ _ _ _ _ _ _ _ _ _ _ CI BB))
    as (_ & _ & _ & _ & _ & _ & _ & Q8 & _). cbv zeta in Q8.
  rewrite <- (bb_e6 _ _ _ _ _ _ _ _ _ _ _ _ _ _ _ _ BB) in Q8. destruct (Q8 e) as [_ ->]. rewrite G5. cbn [set_pts set_ahs e_ahs].
  destruct (edge_eq_tc_fields _ _ (p2_edge _ _ (s2_post _ _ _ _ S23) e)) as (_ & _ & _ & _ & -> & _).
  rewrite E10. unfold gedge. rewrite (s0_ea _ _ _ _ S01). apply (ci_edges _ CI e He).
Qed.
Print Assumptions E2_acyclic_no_ahs.

(* ====================================================================================================== *)
(** * E3 / E4. End points and shape of the routes                                                          *)
(* ====================================================================================================== *)

(* the two ends of an edge of the output, upper band first *)
Definition upper_end (g' : graph) (e : nat) : nat :=
  if e_ahs (gedge g' e) then e_to (gedge g' e) else e_from (gedge g' e).
Definition lower_end (g' : graph) (e : nat) : nat :=
  if e_ahs (gedge g' e) then e_from (gedge g' e) else e_to (gedge g' e).

(* E3: the route starts at the bottom centre of the upper end and stops at the top centre of the lower end
   (Leibniz equalities of pairs of rationals, hence in particular componentwise ==) *)
Definition E3_statement (g g' : graph) : Prop :=
  forall e, In e (g_E g) -> self_loop g e = false ->
    let pts := e_pts (gedge g' e) in
    let u := upper_end g' e in let l := lower_end g' e in
    pts <> [] /\
    hd (0, 0)%Q pts = (nX g' u + nW g' u / 2, nY g' u + nH g' u)%Q /\
    last pts (0, 0)%Q = (nX g' l + nW g' l / 2, nY g' l)%Q /\
    (n_layer (gnode g' u) < n_layer (gnode g' l))%Z /\
    (* the arrow head is at [e_to]: at the lower end unless the arrow-head-at-start flag is set *)
    (e_ahs (gedge g' e) = false -> u = e_from (gedge g' e) /\ l = e_to (gedge g' e)) /\
    (e_ahs (gedge g' e) = true -> u = e_to (gedge g' e) /\ l = e_from (gedge g' e)).

(* E4: the shape of the route, by router *)
Definition E4_shape (alg : p5alg) (sp : Q) (g g' : graph) (e : nat) : Prop :=
  let pts := e_pts (gedge g' e) in
  let u := upper_end g' e in let l := lower_end g' e in
  match alg with
  | Straight => pts = [start_point g' u; end_point g' l]
  | Polyline =>
      exists mid,
        pts = start_point g' u :: map (bend g') mid ++ [end_point g' l] /\
        (* one point per band from the upper to the lower end *)
        Z.of_nat (length pts) = (n_layer (gnode g' l) - n_layer (gnode g' u) + 1)%Z /\
        chain_layers g' (u :: mid ++ [l]) /\
        (* the bends sit on helper nodes, each inside the band of its helper node *)
        (forall v, In v mid -> In v (g_N g') /\ length (g_na g) <= v /\ n_virt (gnode g' v) = true /\
                              (nY g' v <= snd (bend g' v))%Q /\ (snd (bend g' v) <= nY g' v + layer_h_of g' v)%Q) /\
        ((0 <= sp)%Q -> y_mono pts)
  | Ortho => all_hv pts /\ exists mid, pts = start_point g' u :: mid ++ [end_point g' l]
  | _ => True
  end.

Definition E4_statement (alg : p5alg) (sp : Q) (g g' : graph) : Prop :=
  forall e, In e (g_E g) -> self_loop g e = false -> E4_shape alg sp g g' e.

Section E34.
  Variables (o : options) (g g' : graph) (x : option Z) (g0 : graph) (del : list nat) (g1 g2 g3 : graph) (k : nat)
            (g3' : graph) (cx : Z) (g4 gm : graph) (routes : list (nat * list nat)) (g5 : graph).
  Hypothesis CI : component_input g.
  Hypothesis BB : backbone o g g' x g0 del g1 g2 g3 k g3' cx g4 gm routes g5.

  Let S01 := bb_s01 _ _ _ _ _ _ _ _ _ _ _ _ _ _ _ _ BB.
  Let S23 := bb_s23 _ _ _ _ _ _ _ _ _ _ _ _ _ _ _ _ BB.
  Let S45 := bb_s45 _ _ _ _ _ _ _ _ _ _ _ _ _ _ _ _ BB.
  Let PP := s2_post _ _ _ _ S23.

  (* the geometry read by the routers is the same in the merged graph and in the final graph *)
  Lemma geom_gm_out : forall n,
    nX gm n = nX g' n /\ nY gm n = nY g' n /\ nW gm n = nW g' n /\ nH gm n = nH g' n /\
    layer_of gm n = layer_of g' n /\ layer_h_of gm n = layer_h_of g' n /\
    n_virt (gnode gm n) = n_virt (gnode g' n).
  Proof.
    intros n. destruct (sum_node4 _ _ _ _ _ _ _ _ _ _ _ _ _ _ _ _ CI BB n) as (A1 & A2 & A3 & A4 & A5 & A6).
    pose proof (sm_node _ _ _ _ _ _ _ _ _ S45 n) as Sb.
    destruct (same_but_in_fields _ _ Sb) as (B1 & B2 & _). destruct (same_but_in_geom _ _ Sb) as (B3 & B4 & B5 & B6).
    assert (LY : layer_of gm n = layer_of g' n) by (unfold layer_of; congruence).
    unfold nX, nY, nW, nH. repeat split; try congruence.
    unfold layer_h_of, glayer. rewrite LY.
    destruct (out_frame _ _ _ _ _ _ _ _ _ _ _ _ _ _ _ _ CI BB) as (-> & _).
    rewrite (sm_L _ _ _ _ _ _ _ _ _ S45). reflexivity.
  Qed.

  Lemma start_point_out : forall n, start_point gm n = start_point g' n.
  Proof. intros n. destruct (geom_gm_out n) as (A & B & C & D & _). unfold start_point. rewrite A, B, C, D. reflexivity. Qed.
  Lemma end_point_out : forall n, end_point gm n = end_point g' n.
  Proof. intros n. destruct (geom_gm_out n) as (A & B & C & _). unfold end_point. rewrite A, B, C. reflexivity. Qed.
  Lemma bend_out : forall n, bend gm n = bend g' n.
  Proof. intros n. destruct (geom_gm_out n) as (A & B & C & _ & _ & F & _). unfold bend. rewrite A, B, C, F. reflexivity. Qed.

  (* everything the route theorems need about one non-loop edge *)
  Lemma route_setup : forall e, In e (g_E g) -> self_loop g e = false ->
    exists mid pts,
      let a := upper_end g' e in let b := lower_end g' e in
      e_pts (gedge g' e) = pts /\
      routed (o_p5 o) (o_layer_spacing o) gm (e, a :: mid ++ [b]) pts /\
      is_flat gm e = false /\ e_pts (gedge gm e) = [] /\
      e_from (gedge gm e) = a /\ e_to (gedge gm e) = b /\
      (e_ahs (gedge g' e) = false -> a = e_from (gedge g' e) /\ b = e_to (gedge g' e)) /\
      (e_ahs (gedge g' e) = true -> a = e_to (gedge g' e) /\ b = e_from (gedge g' e)) /\
      Z.of_nat (length (a :: mid ++ [b])) = (n_layer (gnode g' b) - n_layer (gnode g' a) + 1)%Z /\
      (1 <= n_layer (gnode g' b) - n_layer (gnode g' a))%Z /\
      (forall v, In v mid -> In v (g_N g') /\ length (g_na g) <= v /\ n_virt (gnode gm v) = true) /\
      chain_layers gm (a :: mid ++ [b]) /\
      chain_y_eq gm (o_layer_spacing o) (a :: mid ++ [b]) /\
      In a (g_N g4).
  Proof.
    intros e He Es.
    pose proof (sum_lengths _ _ _ _ _ _ _ _ _ _ _ _ _ _ _ _ BB) as (NA2 & EA2 & NA5 & E2 & N2 & E5 & N5 & L5).
    destruct (sum_edge5 _ _ _ _ _ _ _ _ _ _ _ _ _ _ _ _ BB e (conj He Es)) as (r & pts & Hr & Er & G5 & RT & RO & CY).
    destruct RO as (mid & Ens & LEN & Hmid & CL). rewrite Er in *.
    destruct (post_process_facts g5 del (sum_post_range _ _ _ _ _ _ _ _ _ _ _ _ _ _ _ _ CI BB))
      as (_ & _ & _ & _ & _ & _ & _ & Q8 & _). cbv zeta in Q8.
    rewrite <- (bb_e6 _ _ _ _ _ _ _ _ _ _ _ _ _ _ _ _ BB) in Q8. destruct (Q8 e) as [QP QA].
    destruct (E1_of_backbone _ _ _ _ _ _ _ _ _ _ _ _ _ _ _ _ CI BB) as (_ & EN & _). destruct (EN e He) as (EF & ET & _).
    assert (He2 : In e (g_E g2)) by (apply (nonloop_E2 _ _ _ _ _ _ _ _ _ _ _ _ _ _ _ _ BB); split; assumption).
    pose proof (sm_edge _ _ _ _ _ _ _ _ _ S45 e He2) as GM.
    pose proof (p2_span _ _ PP e He2) as SP.
    destruct (sum_edge2 _ _ _ _ _ _ _ _ _ _ _ _ _ _ _ _ CI BB e (conj He Es)) as (P2 & _ & OR).
    pose proof (ci_cons _ CI) as C.
    pose proof (c_N_lt _ C _ (c_from _ C e He)) as LF. pose proof (c_N_lt _ C _ (c_to _ C e He)) as LT.
    assert (AHS : e_ahs (gedge g' e) = e_rev (gedge g2 e)) by (rewrite QA, G5; reflexivity).
    assert (UA : upper_end g' e = e_from (gedge g2 e) /\ lower_end g' e = e_to (gedge g2 e)).
    { unfold upper_end, lower_end. rewrite AHS, EF, ET. destruct OR as [(R & F & T)|(R & F & T)]; rewrite R, F, T; auto. }
    destruct UA as [UA UB].
    assert (LYo : forall n, n < length (g_na g) -> n_layer (gnode g' n) = layer_of g2 n).
    { intros n Hn. apply (out_layer_old _ _ _ _ _ _ _ _ _ _ _ _ _ _ _ _ CI BB n Hn). }
    assert (LA : e_from (gedge g2 e) < length (g_na g) /\ e_to (gedge g2 e) < length (g_na g)).
    { destruct OR as [(_ & F & T)|(_ & F & T)]; rewrite F, T; auto. }
    exists mid, pts. cbv zeta. rewrite UA, UB.
    split; [rewrite QP, G5; reflexivity|]. split; [rewrite <- Ens, <- Er; destruct r; exact RT|].
    split.
    { unfold is_flat. rewrite GM. cbn [set_ahs e_from e_to]. apply Z.eqb_neq.
      destruct (geom_gm_out (e_from (gedge g2 e))) as (_ & _ & _ & _ & -> & _).
      destruct (geom_gm_out (e_to (gedge g2 e))) as (_ & _ & _ & _ & -> & _).
      unfold layer_of at 1 2. rewrite !LYo by apply LA. lia. }
    split; [rewrite GM; exact P2|]. split; [rewrite GM; reflexivity|]. split; [rewrite GM; reflexivity|].
    split.
    { intros HA. rewrite AHS in HA. destruct OR as [(R & F & T)|(R & F & T)]; [|congruence]. rewrite EF, ET. auto. }
    split.
    { intros HA. rewrite AHS in HA. destruct OR as [(R & F & T)|(R & F & T)]; [congruence|]. rewrite EF, ET. auto. }
    split.
    { rewrite <- Ens, LEN. unfold span. rewrite !LYo by apply LA. reflexivity. }
    split.
    { rewrite !LYo by apply LA. exact SP. }
    split.
    { intros v Hv. destruct (Hmid v Hv) as [Rg Vt]. rewrite NA2 in Rg.
      destruct (out_frame _ _ _ _ _ _ _ _ _ _ _ _ _ _ _ _ CI BB) as (_ & -> & _).
      split; [|split; [lia|exact Vt]].
      rewrite (s4_N _ _ _ _ _ _ _ _ _ S45), (s3_N _ _ _ _ S23). apply in_or_app. right.
      apply BreakMerge.in_iota. rewrite (sm_na _ _ _ _ _ _ _ _ _ S45), (s4_na _ _ _ _ _ _ _ _ _ S45), (s3_na _ _ _ _ S23) in Rg.
      rewrite NA2. lia. }
    split; [rewrite <- Ens; exact CL|]. split; [rewrite <- Ens; exact CY|].
    rewrite (s4_N _ _ _ _ _ _ _ _ _ S45), (s3_N _ _ _ _ S23). apply in_or_app. left.
    apply (s2_ends _ _ _ _ S23 e He2).
  Qed.

  Lemma E3_of_backbone : options_ok o -> E3_statement g g'.
  Proof.
    intros [_ O5] e He Es. cbv zeta.
    destruct (route_setup e He Es) as (mid & pts & RS). cbv zeta in RS.
    destruct RS as (EP & RT & FL & PN & EA & EB & AH0 & AH1 & LEN & LY & VM & _ & CY & _).
    rewrite EP. set (a := upper_end g' e) in *. set (b := lower_end g' e) in *.
    assert (ENDS : exists l, pts = start_point g' a :: l ++ [end_point g' b]).
    { rewrite <- start_point_out, <- end_point_out. destruct O5 as [E|[E|E]]; rewrite E in RT; cbn [routed fst snd] in RT.
      - rewrite (route_straight_ends gm e a mid b FL) in RT. exists []. exact RT.
      - destruct (route_polyline_first_last gm e a mid b FL) as (l & RP & _); [|exact PN|].
        + intros n Hn. apply (VM n Hn).
        + rewrite RP in RT. injection RT as <-. exists l. reflexivity.
      - destruct (route_ortho_ends gm (o_layer_spacing o) e a mid b FL PN) as (l & RP). exists l. rewrite RT. exact RP. }
    destruct ENDS as (l & ->).
    split; [discriminate|]. split; [reflexivity|]. split.
    { change (start_point g' a :: l ++ [end_point g' b]) with ((start_point g' a :: l) ++ [end_point g' b]).
      rewrite last_last. reflexivity. }
    split; [lia|]. split; assumption.
  Qed.

  Lemma E4_of_backbone : options_ok o -> E4_statement (o_p5 o) (o_layer_spacing o) g g'.
  Proof.
    intros [_ O5] e He Es. unfold E4_shape. cbv zeta.
    destruct (route_setup e He Es) as (mid & pts & RS). cbv zeta in RS.
    destruct RS as (EP & RT & FL & PN & EA & EB & AH0 & AH1 & LEN & LY & VM & CL & CY & INA).
    rewrite EP. set (a := upper_end g' e) in *. set (b := lower_end g' e) in *.
    destruct O5 as [E|[E|E]]; rewrite E in RT |- *; cbn [routed fst snd] in RT.
    - rewrite (route_straight_ends gm e a mid b FL) in RT. rewrite RT, start_point_out, end_point_out. reflexivity.
    - rewrite (route_polyline_ok gm e a mid b FL) in RT; [|intros n Hn; apply (VM n Hn)|exact PN].
      injection RT as RT. exists mid.
      assert (LH0 : forall n, (0 <= layer_h_of gm n)%Q).
      { intros n. unfold layer_h_of, glayer. rewrite (sm_L _ _ _ _ _ _ _ _ _ S45). apply (s4_lh0 _ _ _ _ _ _ _ _ _ S45). }
      split; [|split; [|split; [|split]]].
      + rewrite <- RT, start_point_out, end_point_out. f_equal. f_equal. apply map_ext. intros n. apply bend_out.
      + rewrite <- LEN, <- RT. cbn [length]. rewrite !app_length, map_length. reflexivity.
      + apply (chain_layers_transfer gm); [|exact CL]. intros n. symmetry. apply (geom_gm_out n).
      + intros v Hv. destruct (VM v Hv) as (V1 & V2 & V3).
        split; [exact V1|]. split; [exact V2|]. split; [rewrite <- V3; symmetry; apply (geom_gm_out v)|].
        destruct (bend_in_band gm v (LH0 v)) as [B1 B2].
        rewrite <- bend_out. destruct (geom_gm_out v) as (_ & <- & _ & _ & _ & <- & _). split; assumption.
      + intros SP0. rewrite <- RT. apply (y_mono_from gm (o_layer_spacing o) mid a b); [exact SP0| |apply chain_y_eq_ge, CY|].
        * unfold start_point. cbn [snd].
          destruct (s4_placed _ _ _ _ _ _ _ _ _ S45 a INA) as [_ PA].
          destruct (s4_y _ _ _ _ _ _ _ _ _ S45 _ a PA) as [_ HH].
          pose proof (sm_node _ _ _ _ _ _ _ _ _ S45 a) as Sb.
          destruct (same_but_in_fields _ _ Sb) as (_ & B2 & _). destruct (same_but_in_geom _ _ Sb) as (_ & _ & _ & B6).
          unfold layer_h_of, glayer, layer_of, nH in *. rewrite (sm_L _ _ _ _ _ _ _ _ _ S45), B2, B6. lra.
        * intros n _. apply LH0.
    - split.
      + rewrite RT. apply route_ortho_all_hv; [exact FL|exact PN|left; auto|exact CY].
      + destruct (route_ortho_ends gm (o_layer_spacing o) e a mid b FL PN) as (l & RP). exists l.
        rewrite RT, RP, start_point_out, end_point_out. reflexivity.
  Qed.
End E34.

Theorem E3_endpoints : forall o g g' x,
  component_input g -> options_ok o -> wm_premise o g -> ns_premise o g ->
  layout_component o g = Ok (g', x) -> E3_statement g g'.
Proof.
  intros o g g' x CI OK WM NS H.
  destruct (pipeline_backbone o g g' x CI OK WM NS H) as (g0 & del & g1 & g2 & g3 & k & g3' & cx & g4 & gm & routes & g5 & BB).
  eapply E3_of_backbone; eassumption.
Qed.
Print Assumptions E3_endpoints.

Theorem E4_route_shape : forall o g g' x,
  component_input g -> options_ok o -> wm_premise o g -> ns_premise o g ->
  layout_component o g = Ok (g', x) -> E4_statement (o_p5 o) (o_layer_spacing o) g g'.
Proof.
  intros o g g' x CI OK WM NS H.
  destruct (pipeline_backbone o g g' x CI OK WM NS H) as (g0 & del & g1 & g2 & g3 & k & g3' & cx & g4 & gm & routes & g5 & BB).
  eapply E4_of_backbone; eassumption.
Qed.
Print Assumptions E4_route_shape.

(* ====================================================================================================== *)
(** * E1, read off the collected output                                                                    *)
(* ====================================================================================================== *)

(* the output nodes are exactly the input nodes, in order, with their configured sizes; the output edges are
   exactly the input edges with their original direction, self loops last *)
Corollary E1_collected : forall o g g' x shift,
  component_input g -> options_ok o -> wm_premise o g -> ns_premise o g ->
  layout_component o g = Ok (g', x) ->
  map (fun on => (on_id on, on_w on, on_h on)) (collect_nodes false shift g') =
    map (fun n => (n, n_w (gnode g n), n_h (gnode g n))) (g_N g) /\
  map (fun oe => (oe_from oe, oe_to oe)) (collect_edges shift g') =
    map (fun e => (e_from (gedge g e), e_to (gedge g e)))
        (filter (fun e => negb (self_loop g e)) (g_E g) ++ filter (self_loop g) (g_E g)).
Proof.
  intros o g g' x shift CI OK WM NS H.
  destruct (E1_output_graph o g g' x CI OK WM NS H) as (A1 & A2 & _ & (vs & A4 & A5) & A6).
  split.
  - rewrite CollectProofs.collect_nodes_map_filter, map_map. cbn [on_id on_w on_h]. rewrite A4, filter_app.
    rewrite (filter_false _ _ vs); [|intros v Hv; destruct (A5 v Hv) as [_ ->]; reflexivity].
    rewrite app_nil_r, filter_true; [|intros n Hn; destruct (A6 n Hn) as [-> _]; reflexivity].
    apply map_ext_in. intros n Hn. destruct (A6 n Hn) as (_ & -> & ->). reflexivity.
  - rewrite collect_edges_eq, map_map. cbn [oe_from oe_to]. rewrite A1. apply map_ext_in. intros e He.
    assert (HeE : In e (g_E g)).
    { apply in_app_or in He. destruct He as [He|He]; apply filter_In in He; apply He. }
    destruct (A2 e HeE) as (-> & -> & _). reflexivity.
Qed.
Print Assumptions E1_collected.
