(* FactsChecks.v — boolean checks over the facts the translator regenerates from the Go source on every run
   (Generated/Facts.v). Each is evaluated by the kernel in the Properties files. *)
From Coq Require Import String List Bool.
From Autog Require Import Facts Monitor.
Import ListNotations.
Open Scope string_scope.
Open Scope list_scope.

Definition str_in (s : string) (l : list string) : bool := existsb (String.eqb s) l.
Definition pair_eqb (a b : string * string) : bool := String.eqb (fst a) (fst b) && String.eqb (snd a) (snd b).

(* the package-level variables of the module are exactly these *)
Definition known_globals : list (string * string) :=
  [ (".", "defaultOptions"); (".", "defaultOutputOptions");
    ("internal/monitor", "m"); ("internal/monitor", "p"); ("internal/monitor", "a") ].

Definition globals_known : bool :=
  forallb (fun g => existsb (pair_eqb g) known_globals) globals.

(* every write to a package-level variable is in internal/monitor/monitor.go and sits under a guard that
   requires a non-nil monitor *)
Definition writes_guarded : bool :=
  forallb (fun a : (string * string) * (string * string) * bool * string =>
             let '(v, (file, fn), w, guard) := a in
             negb w || (String.eqb (fst v) "internal/monitor" && String.eqb file "internal/monitor/monitor.go"
                        && (String.eqb guard "monitor != nil" || String.eqb guard "m != nil")))
          accesses.

(* the monitor's variables are not touched outside monitor.go; the option templates are only read, by Layout *)
Definition monitor_state_private : bool :=
  forallb (fun a : (string * string) * (string * string) * bool * string =>
             let '(v, (file, fn), w, guard) := a in
             if String.eqb (fst v) "internal/monitor" then String.eqb file "internal/monitor/monitor.go"
             else negb w) accesses.

Definition kind_of (s : string * string * string * string) : string := fst (fst (fst s)).
Definition file_of (s : string * string * string * string) : string := snd (fst (fst s)).
Definition func_of (s : string * string * string * string) : string := snd (fst s).
Definition hash_of (s : string * string * string * string) : string := snd s.

(* no goroutines or selects anywhere in the library *)
Definition no_concurrency_constructs : bool :=
  forallb (fun s => negb (str_in (kind_of s) ["go"; "select"])) sites.

(* clocks and random sources appear only in the greedy breaker, which creates its generator per call *)
Definition time_rand_only_in_greedy : bool :=
  forallb (fun s => negb (str_in (kind_of s) ["time"; "rand"])
                    || (String.eqb (file_of s) "internal/phase1/greedy.go" && String.eqb (func_of s) "execGreedy")) sites.

(* Set and Reset are called once each, from Layout; Layout calls Set and defers Reset right after it *)
Definition set_reset_only_in_layout : bool :=
  let mon := filter (fun s => str_in (kind_of s) ["monSet"; "monReset"]) sites in
  forallb (fun s => String.eqb (file_of s) "autolayout.go" && String.eqb (func_of s) "Layout") mon
  && Nat.eqb (length (filter (fun s => String.eqb (kind_of s) "monSet") mon)) 1
  && Nat.eqb (length (filter (fun s => String.eqb (kind_of s) "monReset") mon)) 1.

Fixpoint protocol_ok (l : list string) : bool :=
  match l with
  | ["set"; "defer-reset"] => true
  | "other" :: rest => protocol_ok rest
  | _ => false
  end.

(* range loops over maps and the calls that expose a map's order: each must be one of these, by file, function
   and hash of its source text; the lemma named beside it shows that the order is irrelevant *)
Definition covered_sites : list (string * string * string * string * string) :=
  [ (* for k := range m { ks = append(ks, k) } — the helper itself; its callers are "mapkeys" sites: none may exist *)
    ("maprange", "internal/graph/maps.go", "hashmap[K, V].Keys", "5c0bad034e2c", "no caller: mapkeys_absent");
    (* for n := range treeNodes { n.Layer += d } *)
    ("maprange", "internal/phase2/network_simplex.go", "*networkSimplexProcessor.feasibleTree", "1170594150de", "Determinism.shift_layers_perm");
    (* for n, x := range xc { minx = min(minx, x); maxx = max(maxx, x+n.W) } *)
    ("maprange", "internal/phase4/brandes_koepf.go", "xcoordinates.Size", "56dab5eb994e", "Determinism.minmax_perm");
    (* for n, x := range xcoord { blockmax[roots[n]] = max(blockmax[roots[n]], x) } *)
    ("maprange", "internal/phase4/sink_coloring.go", "execSinkColoring", "aedf1faef930", "Determinism.blockmax_perm") ].

Definition site_covered (s : string * string * string * string) : bool :=
  existsb (fun c : string * string * string * string * string =>
             let '(k, f, fn, h, _) := c in
             String.eqb k (kind_of s) && String.eqb f (file_of s) && String.eqb fn (func_of s) && String.eqb h (hash_of s))
          covered_sites.

Definition map_order_sites_covered : bool :=
  forallb (fun s => negb (String.eqb (kind_of s) "maprange") || site_covered s) sites.

Definition mapkeys_absent : bool :=
  forallb (fun s => negb (String.eqb (kind_of s) "mapkeys")) sites.

(* a node's ID is read only where names are copied through or printed, never to decide anything *)
Definition allowed_id_readers : list (string * string) :=
  [ ("autolayout.go", "Layout");                                   (* copies the ID to the output *)
    ("autolayout_options_funcs.go", "WithNodeSize");               (* looks the ID up in the caller's size map *)
    ("internal/phase4/network_simplex.go", "*networkSimplexProcessor.auxiliaryGraph");  (* copies it to the auxiliary node *)
    ("internal/processor/preprocessor/ignore_self_loops.go", "IgnoreSelfLoops");      (* log message *)
    ("internal/graph/dgraph.go", "*DGraph.String");                 (* printers: debugging output only *)
    ("internal/graph/edge.go", "*Edge.String");
    ("internal/graph/node.go", "*Node.String");
    ("internal/graph/node.go", "*Node.SVG") ].

Definition id_reads_allowed : bool :=
  forallb (fun r => existsb (pair_eqb r) allowed_id_readers) id_reads.

(* the same for the files under one directory: the models of the phases contain no identifier, so a phase whose code
   starts reading Node.ID is no longer described by its model *)
Definition id_reads_allowed_in (dir : string) : bool :=
  forallb (fun r => negb (String.prefix dir (fst r)) || existsb (pair_eqb r) allowed_id_readers) id_reads.

(* the caller's data — the edge list handed to Populate, the size map handed to WithNodeSize — is never written:
   element writes through parameters (or through elements ranged out of them) occur only inside internal
   packages, on the library's own working slices and maps *)
Definition internal_file (f : string) : bool := String.prefix "internal/" f.

Definition caller_data_not_written : bool :=
  forallb (fun s => negb (String.eqb (kind_of s) "paramwrite") || internal_file (file_of s)) sites.

(* copying a package-level value (layoutOpts := defaultOptions) copies slices, maps, pointers and interfaces
   shallowly: the template must hold none that is not nil, or concurrent calls would share it *)
Definition templates_hold_no_references : bool :=
  match ref_inits with [] => true | _ => false end.
