(* Final.v — the end-to-end and whole-layout theorems with every premise discharged: the ordering premise by
   Proofs/WholeBridge.v (from WmedianProofs.v), the network-simplex premise by Proofs/NSBridge.v (from the
   spanning-tree / lim-low / pivot theory of Proofs/NS*.v). What remains are hypotheses about the INPUT only. *)
From Coq Require Import List ZArith QArith Permutation.
From Autog Require Import Graph Populate Layout Pipeline.
From Autog Require Import E2EBridge E2EBackbone E2EOutput E2EFrontend NSBridge WholeBridge WholeCrossings WholeOverlap WholeLayout.
Import ListNotations.

Lemma ns_layout_holds : forall A (eqA : A -> A -> bool), (forall x y, eqA x y = true <-> x = y) ->
  forall o fixed sizes es, ns_premise_layout A eqA o fixed sizes es.
Proof.
  intros A eqA OK o fixed sizes es ids g c POP Hc TWO.
  apply ns_premise_holds. exact (frontend_component_input A eqA OK es ids g fixed sizes POP c Hc TWO).
Qed.

(* ---------- one connected component (at least two nodes), all twelve modelled option combinations ---------- *)
Theorem G1_output_graph : forall o g g' x, component_input g -> options_ok o ->
  layout_component o g = Ok (g', x) -> E1_statement g g'.
Proof. intros o g g' x CI OK H. exact (F1_output_graph o g g' x CI OK (ns_premise_holds o g CI) H). Qed.

Theorem G2_bands : forall o g g' x, component_input g -> options_ok o ->
  layout_component o g = Ok (g', x) -> E2_statement (o_layer_spacing o) g g'.
Proof. intros o g g' x CI OK H. exact (F2_bands o g g' x CI OK (ns_premise_holds o g CI) H). Qed.

Theorem G2_band_separation : forall o g g' x, component_input g -> options_ok o ->
  layout_component o g = Ok (g', x) ->
  forall k n m, In n (l_nodes (glayer g' k)) -> In m (l_nodes (glayer g' (S k))) ->
    (Phase4.nY g' n + Phase4.nH g' n + o_layer_spacing o <= Phase4.nY g' m)%Q.
Proof. intros o g g' x CI OK H. exact (F2_band_separation o g g' x CI OK (ns_premise_holds o g CI) H). Qed.

Theorem G2_acyclic_input_has_no_upward_edge : forall o g g' x, component_input g -> options_ok o ->
  layout_component o g = Ok (g', x) -> CBBase.ranked (fst (ignore_self_loops g)) ->
  forall e, In e (g_E g) -> self_loop g e = false -> e_ahs (gedge g' e) = false.
Proof. intros o g g' x CI OK H. exact (F2_acyclic_no_ahs o g g' x CI OK (ns_premise_holds o g CI) H). Qed.

Theorem G3_endpoints : forall o g g' x, component_input g -> options_ok o ->
  layout_component o g = Ok (g', x) -> E3_statement g g'.
Proof. intros o g g' x CI OK H. exact (F3_endpoints o g g' x CI OK (ns_premise_holds o g CI) H). Qed.

Theorem G4_route_shape : forall o g g' x, component_input g -> options_ok o ->
  layout_component o g = Ok (g', x) -> E4_statement (o_p5 o) (o_layer_spacing o) g g'.
Proof. intros o g g' x CI OK H. exact (F4_route_shape o g g' x CI OK (ns_premise_holds o g CI) H). Qed.

Theorem G5_no_overlap : forall o g g' x, component_input g -> options_ok o -> sizes_nonneg g -> spacing_nonneg o ->
  layout_component o g = Ok (g', x) -> W3_statement o g'.
Proof. intros o g g' x CI OK SZ SP H. exact (W3_no_overlap o g g' x CI OK (ns_premise_holds o g CI) SZ SP H). Qed.

Theorem G6_crossings : forall o g g' x, component_input g -> options_ok o ->
  layout_component o g = Ok (g', x) -> W2_statement o g g' x.
Proof. intros o g g' x CI OK H. exact (W2_crossings o g g' x CI OK (ns_premise_holds o g CI) H). Qed.

(* ---------- the whole Layout, from the raw edge list ---------- *)
Theorem G7_layout_output : forall (A : Type) (eqA : A -> A -> bool), (forall x y, eqA x y = true <-> x = y) ->
  forall o fixed sizes es ids ns oes xs, options_ok o ->
  layout A eqA o fixed sizes es = Ok (ids, (ns, oes, xs)) -> o_virtual o = false ->
  NoDup ids /\ (forall x, In x ids <-> exists p, In p es /\ In x p) /\
  Permutation (map on_id ns) (iota 0 (length ids)) /\
  (forall a, In a ns -> exists x, nth_error ids (on_id a) = Some x /\
                                  (on_w a, on_h a) = SizesProofs.size_of A eqA fixed sizes x (0, 0)%Q) /\
  Permutation (map (id_pair A ids) oes) es.
Proof.
  intros A eqA OK o fixed sizes es ids ns oes xs OO LAY OV.
  exact (W4a_layout_output A eqA OK o fixed sizes es ids ns oes xs OO (ns_layout_holds A eqA OK o fixed sizes es) LAY OV).
Qed.

Theorem G8_layout_separated : forall (A : Type) (eqA : A -> A -> bool), (forall x y, eqA x y = true <-> x = y) ->
  forall o fixed sizes es ids ns oes xs, options_ok o ->
  layout A eqA o fixed sizes es = Ok (ids, (ns, oes, xs)) ->
  spacing_nonneg o -> sizes_cfg_nonneg A eqA fixed sizes ids -> o_virtual o = false ->
  (forall a, In a ns -> (0 <= on_x a)%Q) /\
  (forall g, populate A eqA es = Ok (ids, g) ->
     let cs := components (apply_sizes A eqA fixed sizes ids g) in
     (forall a, In a ns -> exists i, (i < length cs)%nat /\ In (on_id a) (g_N (nth i cs Shift.graph0))) /\
     (forall i j a b, (i < j)%nat -> (j < length cs)%nat -> In a ns -> In b ns ->
        In (on_id a) (g_N (nth i cs Shift.graph0)) -> In (on_id b) (g_N (nth j cs Shift.graph0)) ->
        (on_x a + on_w a + o_node_spacing o <= on_x b)%Q)).
Proof.
  intros A eqA OK o fixed sizes es ids ns oes xs OO LAY SP SZ OV.
  exact (W4b_layout_separated A eqA OK o fixed sizes es ids ns oes xs OO (ns_layout_holds A eqA OK o fixed sizes es) LAY SP SZ OV).
Qed.

Theorem G9_layout_crossings : forall (A : Type) (eqA : A -> A -> bool), (forall x y, eqA x y = true <-> x = y) ->
  forall o fixed sizes es ids ns oes xs, options_ok o ->
  layout A eqA o fixed sizes es = Ok (ids, (ns, oes, xs)) ->
  forall g, populate A eqA es = Ok (ids, g) ->
  Forall2 (fun c v => exists c', layout_component o c = Ok (c', Some v) /\ component_input c /\
                                 W2_statement o c c' (Some v) /\ (0 <= v)%Z)
          (filter big (components (apply_sizes A eqA fixed sizes ids g))) xs.
Proof.
  intros A eqA OK o fixed sizes es ids ns oes xs OO LAY g POP.
  exact (W4c_layout_crossings A eqA OK o fixed sizes es ids ns oes xs OO (ns_layout_holds A eqA OK o fixed sizes es) LAY g POP).
Qed.
