(* GeomCheck.v — per-instance containment certificate for C19: the verified checker [path_inside]
   (GeomProofs.path_inside_sound) evaluated on the implementation's answer *)
From Autog Require Export Geom GeomProofs.

Definition geom_cert_failing (cs : list (nat * geom_case)) : list nat :=
  flat_map (fun c => let '(i, (p1, p2, rects, outcome, path)) := c in
                     match outcome with
                     | O => if corridor_ok rects && negb (path_inside rects path) then [i] else []
                     | _ => []
                     end) cs.
