(* GeomContain4.v — containment of the corridor router's answer (property C19), part 4: invariants of the funnel loop, for
   ANY list of diagonals (any number of rectangles), as a basis for a general proof of containment.
   [fstate d apex]   the state of the loop: the window [f, b] of the deque lies in the array, the apex lies in the window,
                     and the two chains are CONVEX: from the apex outwards the front chain never turns counter-clockwise and
                     the back chain never turns clockwise (exactly what the pop tests [outside_left]/[outside_right] leave).
   [funnel_links]    every state reached by the loop satisfies [fstate] and every entry (v, u) the loop adds to the
                     predecessor map is a [good_link]: u was the end of the deque of such a state and v had passed the pop
                     test there (so u, its neighbour in the deque and v turn the right way: [good_link_turn]).
   [shortest_links]  for ALL inputs: two consecutive points a, b of the answer of [shortest] are such a link (a up to ==),
                     or b is the start point.
   Not proved here: that the two ends of a link see each other inside the corridor (that needs the geometry of the sleeve). *)
From Coq Require Import Lqa.
From Autog Require Import Base ListLemmas Geom GeomProofs GeomTwo GeomPaths GeomPaths2 GeomPaths3.
Local Open Scope Z_scope.

Definition conv_front (d : deque) (apex : Z) : Prop :=
  forall i, dq_f d <= i -> i + 2 <= apex -> orientation (dq_get d (i + 2)) (dq_get d (i + 1)) (dq_get d i) <> CCW.
Definition conv_back (d : deque) (apex : Z) : Prop :=
  forall i, apex <= i -> i + 2 <= dq_b d -> orientation (dq_get d i) (dq_get d (i + 1)) (dq_get d (i + 2)) <> CW.

Definition fstate (d : deque) (apex : Z) : Prop :=
  0 <= dq_f d /\ dq_f d <= apex /\ apex <= dq_b d /\ dq_b d < Z.of_nat (length (dq_data d)) /\
  conv_front d apex /\ conv_back d apex.

(* (v, u): v was pushed next to u, the end of the deque of a state of the loop, after passing the pop test there *)
Definition good_link (v u : pt) : Prop :=
  exists d apex, fstate d apex /\
    ((u = peek_front d 1 /\ outside_left d apex v = true) \/ (u = peek_back d 1 /\ outside_right d apex v = true)).

(* what the pop tests say *)
Lemma outside_left_turn d apex v :
  outside_left d apex v = true -> 2 <= dq_len d ->
  (dq_f d < apex -> orientation (peek_front d 2) (peek_front d 1) v <> CCW) /\
  (apex <= dq_f d -> orientation (peek_front d 2) (peek_front d 1) v <> CW).
Proof.
  unfold outside_left. intros H Hl. destruct (dq_len d <? 2) eqn:E; [apply Z.ltb_lt in E; lia|].
  cbv zeta in H. split; intros Hf Ho; rewrite Ho in H; cbn [orient_eqb negb] in H;
    destruct (Z.ltb_spec (dq_f d) apex); destruct (Z.leb_spec apex (dq_f d)); cbn in H; try discriminate H; lia.
Qed.

Lemma outside_right_turn d apex v :
  outside_right d apex v = true -> 2 <= dq_len d ->
  (apex < dq_b d -> orientation (peek_back d 2) (peek_back d 1) v <> CW) /\
  (dq_b d <= apex -> orientation (peek_back d 2) (peek_back d 1) v <> CCW).
Proof.
  unfold outside_right. intros H Hl. destruct (dq_len d <? 2) eqn:E; [apply Z.ltb_lt in E; lia|].
  cbv zeta in H. split; intros Hf Ho; rewrite Ho in H; cbn [orient_eqb negb] in H;
    destruct (Z.ltb_spec apex (dq_b d)); destruct (Z.leb_spec (dq_b d) apex); cbn in H; try discriminate H; lia.
Qed.

Corollary good_link_turn v u : good_link v u ->
  exists d apex, fstate d apex /\
    ((u = peek_front d 1 /\ (2 <= dq_len d -> dq_f d < apex -> orientation (peek_front d 2) u v <> CCW)) \/
     (u = peek_back d 1 /\ (2 <= dq_len d -> apex < dq_b d -> orientation (peek_back d 2) u v <> CW))).
Proof.
  intros [d [apex [Hs [[-> Ho]|[-> Ho]]]]]; exists d, apex; (split; [exact Hs|]); [left | right]; (split; [reflexivity|]); intros Hl Hf.
  - exact (proj1 (outside_left_turn d apex v Ho Hl) Hf).
  - exact (proj1 (outside_right_turn d apex v Ho Hl) Hf).
Qed.

(* ---------- the shrink loops ---------- *)
Lemma shrink_left_state apex v : forall fuel d d',
  fstate d apex -> shrink_left fuel d apex v = Ok d' ->
  dq_data d' = dq_data d /\ dq_b d' = dq_b d /\ dq_f d <= dq_f d' <= dq_b d /\ outside_left d' apex v = true.
Proof.
  intros fuel d d' Hs H.
  assert (G : forall fuel d0 d1, dq_f d0 <= dq_b d0 ->
             shrink_left fuel d0 apex v = Ok d1 ->
             dq_data d1 = dq_data d0 /\ dq_b d1 = dq_b d0 /\ dq_f d0 <= dq_f d1 <= dq_b d0 /\ outside_left d1 apex v = true).
  { clear. induction fuel as [|f IH]; intros d0 d1 Hb H.
    - cbn [shrink_left] in H. destruct (outside_left d0 apex v) eqn:E; [|discriminate]. injection H as <-.
      repeat split; try lia. exact E.
    - rewrite shrink_left_S in H. destruct (outside_left d0 apex v) eqn:E.
      + injection H as <-. repeat split; try lia. exact E.
      + apply outside_left_len in E. unfold dq_len in E.
        assert (Hb' : dq_f (mkDq (dq_data d0) (dq_f d0 + 1) (dq_b d0)) <= dq_b (mkDq (dq_data d0) (dq_f d0 + 1) (dq_b d0)))
          by (cbn [dq_f dq_b]; lia).
        destruct (IH _ _ Hb' H) as [A [B [C D]]]. cbn [dq_data dq_f dq_b] in *.
        repeat split; try assumption; lia. }
  destruct Hs as [A [B [C _]]]. apply (G fuel); [lia | exact H].
Qed.

Lemma shrink_right_state apex v : forall fuel d d',
  fstate d apex -> shrink_right fuel d apex v = Ok d' ->
  dq_data d' = dq_data d /\ dq_f d' = dq_f d /\ dq_f d <= dq_b d' <= dq_b d /\ outside_right d' apex v = true.
Proof.
  intros fuel d d' Hs H.
  assert (G : forall fuel d0 d1, dq_f d0 <= dq_b d0 ->
             shrink_right fuel d0 apex v = Ok d1 ->
             dq_data d1 = dq_data d0 /\ dq_f d1 = dq_f d0 /\ dq_f d0 <= dq_b d1 <= dq_b d0 /\ outside_right d1 apex v = true).
  { clear. induction fuel as [|f IH]; intros d0 d1 Hb H.
    - cbn [shrink_right] in H. destruct (outside_right d0 apex v) eqn:E; [|discriminate]. injection H as <-.
      repeat split; try lia. exact E.
    - rewrite shrink_right_S in H. destruct (outside_right d0 apex v) eqn:E.
      + injection H as <-. repeat split; try lia. exact E.
      + apply outside_right_len in E. unfold dq_len in E.
        assert (Hb' : dq_f (mkDq (dq_data d0) (dq_f d0) (dq_b d0 - 1)) <= dq_b (mkDq (dq_data d0) (dq_f d0) (dq_b d0 - 1)))
          by (cbn [dq_f dq_b]; lia).
        destruct (IH _ _ Hb' H) as [A [B [C D]]]. cbn [dq_data dq_f dq_b] in *.
        repeat split; try assumption; lia. }
  destruct Hs as [A [B [C _]]]. apply (G fuel); [lia | exact H].
Qed.

(* a sub-window, with the apex moved into it, is again a state *)
Lemma fstate_sub d apex d' :
  fstate d apex -> dq_data d' = dq_data d -> dq_f d <= dq_f d' -> dq_f d' <= dq_b d' -> dq_b d' <= dq_b d ->
  fstate d' (Z.min (dq_b d') (Z.max (dq_f d') apex)).
Proof.
  intros [A [B [C [D [E F]]]]] Hd Hf Hfb Hb. unfold fstate. rewrite Hd.
  repeat split; try lia.
  - intros i Hi1 Hi2. unfold dq_get. rewrite Hd. apply (E i); lia.
  - intros i Hi1 Hi2. unfold dq_get. rewrite Hd. apply (F i); lia.
Qed.

Lemma dq_get_push_front_other d v i : i <> dq_f d - 1 -> 0 <= dq_f d - 1 -> 0 <= i -> dq_get (push_front d v) i = dq_get d i.
Proof. intros H1 H2 H3. unfold dq_get, push_front, set_nth. cbn [dq_data]. apply nth_upd_other. lia. Qed.
Lemma dq_get_push_front_same d v : 0 <= dq_f d - 1 < Z.of_nat (length (dq_data d)) -> dq_get (push_front d v) (dq_f d - 1) = v.
Proof. intros H. unfold dq_get, push_front, set_nth. cbn [dq_data]. rewrite nth_upd_same by lia. reflexivity. Qed.
Lemma dq_get_push_back_other d v i : i <> dq_b d + 1 -> 0 <= dq_b d + 1 -> 0 <= i -> dq_get (push_back d v) i = dq_get d i.
Proof. intros H1 H2 H3. unfold dq_get, push_back, set_nth. cbn [dq_data]. apply nth_upd_other. lia. Qed.
Lemma dq_get_push_back_same d v : 0 <= dq_b d + 1 < Z.of_nat (length (dq_data d)) -> dq_get (push_back d v) (dq_b d + 1) = v.
Proof. intros H. unfold dq_get, push_back, set_nth. cbn [dq_data]. rewrite nth_upd_same by lia. reflexivity. Qed.

(* pushing at the front a point that passed the pop test *)
Lemma push_front_state d apex0 apex v :
  fstate d apex -> outside_left d apex0 v = true -> (apex0 <= apex) -> (dq_f d < apex -> apex0 = apex) ->
  0 <= dq_f d - 1 -> fstate (push_front d v) apex.
Proof.
  intros [A [B [C [D [E F]]]]] Ho Ha Hae Hf. unfold fstate.
  assert (L : length (dq_data (push_front d v)) = length (dq_data d))
    by (unfold push_front, set_nth; cbn [dq_data]; apply upd_length).
  rewrite L. cbn [push_front dq_f dq_b]. repeat split; try lia.
  - intros i Hi1 Hi2. unfold push_front in Hi1; cbn [dq_f] in Hi1. destruct (Z.eq_dec i (dq_f d - 1)) as [->|Ne].
    + rewrite dq_get_push_front_same by lia.
      rewrite !dq_get_push_front_other by lia.
      assert (Hl : 2 <= dq_len d) by (unfold dq_len; lia).
      destruct (outside_left_turn d apex0 v Ho Hl) as [T _].
      unfold peek_front in T. replace (dq_f d + 2 - 1) with (dq_f d - 1 + 2) in T by lia.
      replace (dq_f d + 1 - 1) with (dq_f d - 1 + 1) in T by lia. apply T. rewrite (Hae ltac:(lia)). lia.
    + rewrite !dq_get_push_front_other by lia. apply (E i); lia.
  - intros i Hi1 Hi2. unfold push_front in Hi2; cbn [dq_b] in Hi2. rewrite !dq_get_push_front_other by lia. apply (F i); lia.
Qed.

Lemma push_back_state d apex0 apex v :
  fstate d apex -> outside_right d apex0 v = true -> (apex <= apex0) -> (apex < dq_b d -> apex0 = apex) ->
  dq_b d + 1 < Z.of_nat (length (dq_data d)) -> fstate (push_back d v) apex.
Proof.
  intros [A [B [C [D [E F]]]]] Ho Ha Hae Hf. unfold fstate.
  assert (L : length (dq_data (push_back d v)) = length (dq_data d))
    by (unfold push_back, set_nth; cbn [dq_data]; apply upd_length).
  rewrite L. cbn [push_back dq_f dq_b]. repeat split; try lia.
  - intros i Hi1 Hi2. unfold push_back in Hi1; cbn [dq_f] in Hi1. rewrite !dq_get_push_back_other by lia. apply (E i); lia.
  - intros i Hi1 Hi2. unfold push_back in Hi2; cbn [dq_b] in Hi2. destruct (Z.eq_dec (i + 2) (dq_b d + 1)) as [Eq|Ne].
    + rewrite Eq. rewrite dq_get_push_back_same by lia.
      rewrite !dq_get_push_back_other by lia.
      assert (Hl : 2 <= dq_len d) by (unfold dq_len; lia).
      destruct (outside_right_turn d apex0 v Ho Hl) as [T _].
      unfold peek_back in T. replace (dq_b d - 2 + 1) with i in T by lia.
      replace (dq_b d - 1 + 1) with (i + 1) in T by lia. apply T. rewrite (Hae ltac:(lia)). lia.
    + rewrite !dq_get_push_back_other by lia. apply (F i); lia.
Qed.

(* ---------- the loop ---------- *)
Theorem funnel_links : forall dl prev d apex pm pm',
  fstate d apex -> funnel dl prev d apex pm = Ok pm' ->
  forall v u, In (v, u) pm' -> In (v, u) pm \/ good_link v u.
Proof.
  induction dl as [|cur rest IH]; intros prev d apex pm pm' Hs H v u Hin.
  - rewrite funnel_nil in H. injection H as <-. left; exact Hin.
  - rewrite funnel_cons in H. cbv zeta in H.
    set (c := common_vertex prev cur) in *. set (w := seg_other cur c) in *.
    pose proof Hs as [A0 [B0 [C0 _]]].
    destruct (pt_eqb (peek_back d 1) c).
    + destruct (shrink_left _ d apex w) as [d1|e1] eqn:Es; [|discriminate H]. cbn [bind] in H.
      destruct (shrink_left_state _ _ _ _ _ Hs Es) as [Hd [Hb [Hf Ho]]].
      destruct (negb (dq_in d1 (dq_f d1 - 1))) eqn:Ein; [discriminate H|].
      apply negb_false_iff in Ein. apply dq_in_true in Ein.
      assert (Hs1 : fstate d1 (Z.min (dq_b d1) (Z.max (dq_f d1) apex))).
      { apply (fstate_sub d apex d1 Hs Hd); lia. }
      assert (Ea : (if apex <? dq_f d1 then dq_f d1 else apex) = Z.min (dq_b d1) (Z.max (dq_f d1) apex)).
      { destruct (apex <? dq_f d1) eqn:E; [apply Z.ltb_lt in E | apply Z.ltb_ge in E]; lia. }
      rewrite Ea in H.
      assert (Hs2 : fstate (push_front d1 w) (Z.min (dq_b d1) (Z.max (dq_f d1) apex))).
      { apply (push_front_state d1 apex _ w Hs1 Ho); lia. }
      destruct (IH _ _ _ _ _ Hs2 H v u Hin) as [[E|Hin']|G]; [ | left; exact Hin' | right; exact G].
      injection E as <- <-. right. exists d1, (Z.min (dq_b d1) (Z.max (dq_f d1) apex)). split; [exact Hs1|].
      left. split; [reflexivity|].
      (* the test was made with the old apex; it reads the same with the new one *)
      revert Ho. unfold outside_left. destruct (dq_len d1 <? 2); [trivial|]. cbv zeta.
      destruct (Z.ltb_spec (dq_f d1) apex) as [L1|L1]; destruct (Z.leb_spec apex (dq_f d1)) as [L2|L2]; try lia;
      destruct (Z.ltb_spec (dq_f d1) (Z.min (dq_b d1) (Z.max (dq_f d1) apex))) as [L3|L3];
      destruct (Z.leb_spec (Z.min (dq_b d1) (Z.max (dq_f d1) apex)) (dq_f d1)) as [L4|L4]; try lia; trivial.
    + destruct (pt_eqb (peek_front d 1) c); [|discriminate H].
      destruct (shrink_right _ d apex w) as [d1|e1] eqn:Es; [|discriminate H]. cbn [bind] in H.
      destruct (shrink_right_state _ _ _ _ _ Hs Es) as [Hd [Hf [Hb Ho]]].
      destruct (negb (dq_in d1 (dq_b d1 + 1))) eqn:Ein; [discriminate H|].
      apply negb_false_iff in Ein. apply dq_in_true in Ein.
      assert (Hs1 : fstate d1 (Z.max (dq_f d1) (Z.min (dq_b d1) apex))).
      { replace (Z.max (dq_f d1) (Z.min (dq_b d1) apex)) with (Z.min (dq_b d1) (Z.max (dq_f d1) apex)) by lia.
        apply (fstate_sub d apex d1 Hs Hd); lia. }
      assert (Ea : (if dq_b d1 <? apex then dq_b d1 else apex) = Z.max (dq_f d1) (Z.min (dq_b d1) apex)).
      { destruct (dq_b d1 <? apex) eqn:E; [apply Z.ltb_lt in E | apply Z.ltb_ge in E]; lia. }
      rewrite Ea in H.
      assert (Hs2 : fstate (push_back d1 w) (Z.max (dq_f d1) (Z.min (dq_b d1) apex))).
      { apply (push_back_state d1 apex _ w Hs1 Ho); lia. }
      destruct (IH _ _ _ _ _ Hs2 H v u Hin) as [[E|Hin']|G]; [ | left; exact Hin' | right; exact G].
      injection E as <- <-. right. exists d1, (Z.max (dq_f d1) (Z.min (dq_b d1) apex)). split; [exact Hs1|].
      right. split; [reflexivity|].
      revert Ho. unfold outside_right. destruct (dq_len d1 <? 2); [trivial|]. cbv zeta.
      destruct (Z.ltb_spec apex (dq_b d1)) as [L1|L1]; destruct (Z.leb_spec (dq_b d1) apex) as [L2|L2]; try lia;
      destruct (Z.ltb_spec (Z.max (dq_f d1) (Z.min (dq_b d1) apex)) (dq_b d1)) as [L3|L3];
      destruct (Z.leb_spec (dq_b d1) (Z.max (dq_f d1) (Z.min (dq_b d1) apex))) as [L4|L4]; try lia; trivial.
Qed.
Print Assumptions funnel_links.

(* ---------- the initial state, and the answer of [shortest] ---------- *)
Lemma init_fstate n p1 d0 : (1 <= n)%nat -> fstate (init_dq n p1 d0) (Z.of_nat (2 * n) - 1).
Proof.
  intros Hn. unfold init_dq. cbv zeta.
  assert (G : forall x y,
    fstate (push_back (push_front (push_front
       (mkDq (repeat (0, 0)%Q (2 * (2 * n))) (Z.of_nat (2 * n)) (Z.of_nat (2 * n) - 1)) p1) x) y) (Z.of_nat (2 * n) - 1)).
  { intros x y. unfold fstate, conv_front, conv_back, push_back, push_front, set_nth. cbn [dq_f dq_b dq_data].
    rewrite !upd_length, repeat_length. repeat split; try lia; intros i Hi1 Hi2; lia. }
  destruct (orientation p1 (fst d0) (snd d0)); apply G.
Qed.

Lemma pchain_consecutive pm : forall u l a b, pchain pm u l -> consecutive a b l -> pred_get pm a = Some b.
Proof.
  intros u l a b Hc. induction Hc as [u E | u w l E Hl IH]; intros [l1 [l2 Hl12]].
  - destruct l1 as [|x [|y l1]]; discriminate Hl12.
  - destruct l1 as [|x l1].
    + cbn [app] in Hl12. injection Hl12 as -> ->. destruct (pchain_head _ _ _ Hl) as [l' E']. injection E' as -> _. exact E.
    + cbn [app] in Hl12. injection Hl12 as _ ->. apply IH. exists l1, l2. reflexivity.
Qed.

Lemma consecutive_snoc (a b x : pt) l : consecutive a b (l ++ [x]) -> consecutive a b l \/ b = x.
Proof.
  intros [l1 [l2 E]]. revert l E. induction l2 as [|y l2 IH] using rev_ind; intros l E.
  - right. replace (l1 ++ [a; b]) with ((l1 ++ [a]) ++ [b]) in E by (rewrite <- app_assoc; reflexivity).
    apply app_inj_tail in E. symmetry. exact (proj2 E).
  - left. replace (l1 ++ a :: b :: l2 ++ [y]) with ((l1 ++ a :: b :: l2) ++ [y]) in E by (rewrite <- app_assoc; reflexivity).
    apply app_inj_tail in E. destruct E as [-> _]. exists l1, l2. reflexivity.
Qed.

Theorem tail_links p1 p2 n d0 drest path : (1 <= n)%nat ->
  shortest_tail p1 p2 n d0 drest = Ok path ->
  forall a b, consecutive a b path -> (exists k, pt_eqb k a = true /\ good_link k b) \/ b = p1.
Proof.
  intros Hn. unfold shortest_tail. intros H a b Hc.
  destruct (funnel _ d0 _ _ []) as [pm|e] eqn:Ef; [|discriminate H]. cbn [bind] in H.
  destruct (walk_pred _ pm p2 []) as [wp|e] eqn:Ew; [|discriminate H]. cbn [bind] in H. injection H as <-.
  destruct (walk_pred_chain _ _ _ _ _ Ew) as [l [-> Hl]]. cbn [app] in Hc.
  assert (G : consecutive a b l -> exists k, pt_eqb k a = true /\ good_link k b).
  { intros Hc'. pose proof (pchain_consecutive pm p2 l a b Hl Hc') as Hp.
    destruct (pred_get_In _ _ _ Hp) as [k [Hin Hk]]. exists k. split; [exact Hk|].
    destruct (funnel_links _ _ _ _ _ _ (init_fstate n p1 d0 Hn) Ef k b Hin) as [F|G]; [destruct F | exact G]. }
  destruct (pt_eqb (last l (0, 0)%Q) p1).
  - left. exact (G Hc).
  - destruct (consecutive_snoc a b p1 l Hc) as [Hc2 | ->]; [left; exact (G Hc2) | right; reflexivity].
Qed.

(* for ALL inputs: two consecutive points of the answer are a link of the funnel (or the second is the start point) *)
Theorem shortest_links p1 p2 rects path : shortest p1 p2 rects = Ok path ->
  forall a b, consecutive a b path -> (exists k, pt_eqb k a = true /\ good_link k b) \/ b = p1.
Proof.
  rewrite shortest_unfold. cbv zeta. intros H a b Hc.
  destruct (Nat.eqb _ _).
  - injection H as <-. right. destruct Hc as [[|x [|y l1]] [l2 E]]; try discriminate E.
    + injection E as _ -> _. reflexivity.
    + destruct l1; discriminate E.
  - destruct (fst (crossed_diagonals _ _ _ _ _ _)) as [[|d0 drest]|] eqn:E; [discriminate H | | discriminate H].
    destruct (diagonals_facts _ _ _ _ _ _ _ _ E) as [Hn _].
    exact (tail_links p1 p2 (length rects) d0 drest path Hn H a b Hc).
Qed.
Print Assumptions shortest_links.

(* not vacuous: the four-rectangle staircase of GeomPaths: its answer has three links *)
Example stair4_links : forall a b, consecutive a b [(40, 80); (56, 56); (56, 40); (20, 0)]%Q ->
  (exists k, pt_eqb k a = true /\ good_link k b) \/ b = (20, 0)%Q.
Proof. exact (shortest_links _ _ _ _ stair4_shortest). Qed.
