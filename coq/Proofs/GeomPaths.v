(* GeomPaths.v — universal structural theorems about the corridor router (property C19), part 1:
   the triangulation [triangulate] of a corridor of ANY number of rectangles.
   T2a  [triangulate_steps]     triangulate = one [step_pts] (a list of at most 7 triples of points) per rectangle,
                                numbered 1, 2, ... in the order of emission ([triangulate_ids]).
   T2b  [triangulate_count]     length (triangulate rects) <= 7 * length rects  (and >= 1 per rectangle).
   T2c  [triangulate_in_rect]   for a well-formed corridor every triangle emitted at step i has its three vertices
                                in rectangle i, hence (convexity) the whole triangle lies in rectangle i, hence in the corridor;
   T2d  [triangulate_corners]   every vertex is (up to ==) a corner of rectangle i-1, i or i+1. *)
From Coq Require Import Lqa.
From Autog Require Import Base ListLemmas Geom GeomProofs GeomTwo.
Local Open Scope Q_scope.

Definition rect0 : rect := mkRect (0, 0) (0, 0).
Definition triple := (pt * pt * pt)%type.

(* the corners of a rectangle *)
Definition cTL (r : rect) : pt := r_tl r.
Definition cBR (r : rect) : pt := r_br r.
Definition cTR (r : rect) : pt := (px (r_br r), py (r_tl r)).
Definition cBL (r : rect) : pt := (px (r_tl r), py (r_br r)).

(* the triples of points emitted at step i of Triangulate (two or more rectangles), in order:
   r0, r1, r2 are rectangles i-1, i, i+1; [first]: i = 0; [last]: i = n-1 *)
Definition step_pts_abs (r0 r1 r2 : rect) (first last : bool) : list triple :=
  let ab := if last then (r_br r1, (0, 0)) else left2right (r_br r1) (cTR r2) in
  let a := fst ab in let b := snd ab in
  let c1 := Qlt_bool (px (r_tl r1)) (px (r_tl r0)) in
  let c2 := Qlt_bool (px (r_br r0)) (px (r_br r1)) in
  let merge := if first then false else c1 || c2 in
  (if first then [] else
     (if c1 then [(a, (px (r_tl r0), py (r_tl r1)), leftmost (r_br r0) (cTR r1));
                  (a, r_tl r1, (px (r_tl r0), py (r_tl r1)))] else []) ++
     (if c2 then [(a, (px (r_br r0), py (r_tl r1)), cTR r1);
                  (a, r_tl r1, (px (r_br r0), py (r_tl r1)))] else []) ++
     (if last then (r_br r1, r_tl r1, cBL r1) :: (if negb merge then [(r_tl r1, r_br r1, cTR r1)] else [])
      else [])) ++
  (if last then [] else
     (if Qlt_bool (px (r_br r2)) (px (r_br r1)) then [(a, cTR r1, b)] else []) ++
     [(a, rightmost_pt (cBL r1) (r_tl r2), r_tl r1)] ++
     (if negb merge then [(r_tl r1, a, cTR r1)] else []) ++
     (if Qlt_bool (px (r_tl r1)) (px (r_tl r2)) then [(r_tl r2, r_tl r1, cBL r1)] else [])).

Definition step_pts (rects : list rect) (i : nat) : list triple :=
  step_pts_abs (nth (i - 1) rects rect0) (nth i rects rect0) (nth (S i) rects rect0)
    (Nat.eqb i 0) (Nat.eqb (S i) (length rects)).

Definition add_triples (ts : list tri) (l : list triple) : list tri :=
  fold_left (fun ts (x : triple) => add_tri ts (fst (fst x)) (snd (fst x)) (snd x)) l ts.

Definition tri_step (rects : list rect) (ts : list tri) (i : nat) : list tri := add_triples ts (step_pts rects i).

Definition one_rect_pts (r : rect) : list triple := [(r_br r, r_tl r, cTR r); (r_br r, r_tl r, cBL r)].

Definition all_pts (rects : list rect) : list triple :=
  match rects with
  | [r] => one_rect_pts r
  | _ => flat_map (step_pts rects) (iota 0 (length rects))
  end.

Lemma add_triples_app ts l1 l2 : add_triples ts (l1 ++ l2) = add_triples (add_triples ts l1) l2.
Proof. unfold add_triples. apply fold_left_app. Qed.

Lemma add_triples_nil ts : add_triples ts [] = ts.
Proof. reflexivity. Qed.

Lemma add_triples_cons ts x l :
  add_triples ts (x :: l) = add_triples (add_tri ts (fst (fst x)) (snd (fst x)) (snd x)) l.
Proof. reflexivity. Qed.

(* the body of the fold in [triangulate] is [tri_step] *)
Lemma tri_step_eq rects ts i :
  (let n := length rects in
        let r1 := nth i rects (mkRect (0, 0) (0, 0)) in
        let last := Nat.eqb (S i) n in
        let r2 := nth (S i) rects (mkRect (0, 0) (0, 0)) in
        let '(a, b) := if last then (r_br r1, (0, 0)) else left2right (r_br r1) (px (r_br r2), py (r_tl r2)) in
        let r0 := nth (i - 1) rects (mkRect (0, 0) (0, 0)) in
        let '(ts, merge) :=
          if Nat.eqb i 0 then (ts, false) else
          let '(ts, m1) :=
            if Qlt_bool (px (r_tl r1)) (px (r_tl r0)) then
              let s := (px (r_tl r0), py (r_tl r1)) in
              let c := leftmost (r_br r0) (px (r_br r1), py (r_tl r1)) in
              (add_tri (add_tri ts a s c) a (r_tl r1) s, true)
            else (ts, false) in
          let '(ts, m2) :=
            if Qlt_bool (px (r_br r0)) (px (r_br r1)) then
              let s := (px (r_br r0), py (r_tl r1)) in
              (add_tri (add_tri ts a s (px (r_br r1), py (r_tl r1))) a (r_tl r1) s, true)
            else (ts, m1) in
          let ts :=
            if last then
              let ts := add_tri ts (r_br r1) (r_tl r1) (px (r_tl r1), py (r_br r1)) in
              if negb m2 then add_tri ts (r_tl r1) (r_br r1) (px (r_br r1), py (r_tl r1)) else ts
            else ts in
          (ts, m2) in
        if last then ts else
        let ts := if Qlt_bool (px (r_br r2)) (px (r_br r1)) then add_tri ts a (px (r_br r1), py (r_tl r1)) b else ts in
        let ts := add_tri ts a (rightmost_pt (px (r_tl r1), py (r_br r1)) (r_tl r2)) (r_tl r1) in
        let ts := if negb merge then add_tri ts (r_tl r1) a (px (r_br r1), py (r_tl r1)) else ts in
        if Qlt_bool (px (r_tl r1)) (px (r_tl r2)) then add_tri ts (r_tl r2) (r_tl r1) (px (r_tl r1), py (r_br r1)) else ts)
  = tri_step rects ts i.
Proof.
  unfold tri_step, step_pts, step_pts_abs. cbv zeta. fold rect0. unfold cTR, cBL.
  set (r1 := nth i rects rect0). set (r2 := nth (S i) rects rect0). set (r0 := nth (i - 1) rects rect0).
  destruct (Nat.eqb (S i) (length rects)) eqn:El.
  - cbn [fst snd]. destruct (Nat.eqb i 0) eqn:E0.
    + reflexivity.
    + destruct (Qlt_bool (px (r_tl r1)) (px (r_tl r0))) eqn:C1;
      destruct (Qlt_bool (px (r_br r0)) (px (r_br r1))) eqn:C2; reflexivity.
  - destruct (left2right (r_br r1) (px (r_br r2), py (r_tl r2))) as [a b] eqn:Eab. cbn [fst snd].
    destruct (Nat.eqb i 0) eqn:E0.
    + destruct (Qlt_bool (px (r_br r2)) (px (r_br r1))) eqn:C3;
      destruct (Qlt_bool (px (r_tl r1)) (px (r_tl r2))) eqn:C4; reflexivity.
    + destruct (Qlt_bool (px (r_tl r1)) (px (r_tl r0))) eqn:C1;
      destruct (Qlt_bool (px (r_br r0)) (px (r_br r1))) eqn:C2;
      destruct (Qlt_bool (px (r_br r2)) (px (r_br r1))) eqn:C3;
      destruct (Qlt_bool (px (r_tl r1)) (px (r_tl r2))) eqn:C4; reflexivity.
Qed.

Lemma fold_left_ext {A B} (f g : A -> B -> A) l a : (forall a b, f a b = g a b) -> fold_left f l a = fold_left g l a.
Proof. intros H. revert a. induction l as [|x l IH]; intros a; [reflexivity|]. cbn. rewrite H. apply IH. Qed.

Lemma fold_tri_step rects l ts : fold_left (tri_step rects) l ts = add_triples ts (flat_map (step_pts rects) l).
Proof.
  revert ts. induction l as [|i l IH]; intros ts; [reflexivity|].
  cbn [fold_left flat_map]. rewrite add_triples_app. apply IH.
Qed.

(* T2a *)
Theorem triangulate_steps rects : triangulate rects = add_triples [] (all_pts rects).
Proof.
  assert (G : forall rs, fold_left (fun ts i => _) (iota 0 (length rs)) [] = add_triples [] (flat_map (step_pts rs) (iota 0 (length rs))))
    by (intros rs; rewrite <- fold_tri_step; apply fold_left_ext; intros ts i; apply (tri_step_eq rs ts i)).
  destruct rects as [|r [|r' l]].
  - reflexivity.
  - reflexivity.
  - unfold triangulate, all_pts. apply (G (r :: r' :: l)).
Qed.
Print Assumptions triangulate_steps.

(* ---------- generic facts about [add_triples] ---------- *)
Definition tri_triple (t : tri) : triple := (t_a t, t_b t, t_c t).

Lemma add_triples_length ts l : length (add_triples ts l) = (length ts + length l)%nat.
Proof.
  revert ts. induction l as [|x l IH]; intros ts; [cbn; lia|].
  rewrite add_triples_cons, IH. unfold add_tri. rewrite app_length. cbn. lia.
Qed.

Lemma add_triples_In ts l t :
  In t (add_triples ts l) <-> In t ts \/ exists k, (k < length l)%nat /\ tri_triple t = nth k l ((0,0),(0,0),(0,0)) /\ t_id t = S (length ts + k).
Proof.
  revert ts. induction l as [|x l IH]; intros ts.
  - cbn. split; [tauto|]. intros [H|[k [H _]]]; [exact H | lia].
  - rewrite add_triples_cons, IH. unfold add_tri. rewrite in_app_iff, app_length. cbn [In length].
    split.
    + intros [[H|[H|[]]]|[k [Hk [E1 E2]]]].
      * left; exact H.
      * right. exists 0%nat. subst t. unfold tri_triple. cbn [t_a t_b t_c t_id nth]. destruct x as [[xa xb] xc].
        cbn [fst snd]. split; [lia|]. split; [reflexivity|]. f_equal. lia.
      * right. exists (S k). cbn [nth]. split; [lia|]. split; [exact E1|]. rewrite E2. f_equal. lia.
    + intros [H|[k [Hk [E1 E2]]]].
      * left; left; exact H.
      * destruct k as [|k].
        -- left; right; left. destruct t as [id ta tb tc]. unfold tri_triple in E1. cbn [t_a t_b t_c t_id nth] in *.
           subst x. cbn [fst snd]. f_equal. rewrite E2. lia.
        -- right. exists k. cbn [nth] in E1. split; [lia|]. split; [exact E1|]. rewrite E2. f_equal. lia.
Qed.

(* triangles are numbered 1, 2, ... in the order of emission *)
Lemma add_triples_nth l k :
  (k < length l)%nat ->
  let x := nth k l ((0,0),(0,0),(0,0)) in
  nth k (add_triples [] l) tri0 = mkTri (S k) (fst (fst x)) (snd (fst x)) (snd x).
Proof.
  assert (G : forall l ts k, (k < length l)%nat ->
            nth (length ts + k) (add_triples ts l) tri0 =
            let x := nth k l ((0,0),(0,0),(0,0)) in mkTri (S (length ts + k)) (fst (fst x)) (snd (fst x)) (snd x)).
  { clear. induction l as [|x l IH]; intros ts k Hk; [cbn in Hk; lia|].
    rewrite add_triples_cons. destruct k as [|k].
    - assert (P : forall l' ts', (length ts < length ts')%nat -> nth (length ts) (add_triples ts' l') tri0 = nth (length ts) ts' tri0).
      { clear. induction l' as [|y l' IH]; intros ts' H; [reflexivity|].
        rewrite add_triples_cons, IH.
        - unfold add_tri. rewrite app_nth1 by exact H. reflexivity.
        - unfold add_tri. rewrite app_length. cbn. lia. }
      rewrite Nat.add_0_r, P.
      + unfold add_tri. rewrite app_nth2 by lia. rewrite Nat.sub_diag. reflexivity.
      + unfold add_tri. rewrite app_length. cbn. lia.
    - cbn [length] in Hk. specialize (IH (add_tri ts (fst (fst x)) (snd (fst x)) (snd x)) k ltac:(lia)).
      assert (EL : length (add_tri ts (fst (fst x)) (snd (fst x)) (snd x)) = (length ts + 1)%nat)
        by (unfold add_tri; rewrite app_length; reflexivity).
      rewrite EL in IH. replace (length ts + S k)%nat with (length ts + 1 + k)%nat by lia. cbn [nth]. exact IH. }
  intros Hk. exact (G l [] k Hk).
Qed.

Theorem triangulate_ids rects k :
  (k < length (triangulate rects))%nat -> t_id (nth k (triangulate rects) tri0) = S k.
Proof.
  rewrite triangulate_steps. intros Hk. rewrite add_triples_length in Hk. cbn [length Nat.add] in Hk.
  rewrite add_triples_nth by exact Hk. reflexivity.
Qed.

Theorem triangulate_length rects : length (triangulate rects) = length (all_pts rects).
Proof. rewrite triangulate_steps, add_triples_length. reflexivity. Qed.

Lemma triangulate_In rects t :
  In t (triangulate rects) <-> exists k, (k < length (all_pts rects))%nat /\ tri_triple t = nth k (all_pts rects) ((0,0),(0,0),(0,0)) /\ t_id t = S k.
Proof.
  rewrite triangulate_steps, add_triples_In. cbn [In length Nat.add]. split.
  - intros [[]|H]; exact H.
  - intros H; right; exact H.
Qed.

Lemma triangulate_In_pts rects t : In t (triangulate rects) -> In (tri_triple t) (all_pts rects).
Proof. intros H. apply triangulate_In in H. destruct H as [k [Hk [E _]]]. rewrite E. apply nth_In. exact Hk. Qed.

(* ---------- T2b: the number of triangles ---------- *)
Lemma step_pts_count rects i :
  (length (step_pts rects i) <= 7)%nat /\ (length rects <> 1%nat -> 1 <= length (step_pts rects i))%nat.
Proof.
  unfold step_pts, step_pts_abs. cbv zeta.
  destruct (Nat.eqb (S i) (length rects)) eqn:El; destruct (Nat.eqb i 0) eqn:E0;
  destruct (Qlt_bool (px (r_tl (nth i rects rect0))) (px (r_tl (nth (i - 1) rects rect0))));
  destruct (Qlt_bool (px (r_br (nth (i - 1) rects rect0))) (px (r_br (nth i rects rect0))));
  destruct (Qlt_bool (px (r_br (nth (S i) rects rect0))) (px (r_br (nth i rects rect0))));
  destruct (Qlt_bool (px (r_tl (nth i rects rect0))) (px (r_tl (nth (S i) rects rect0))));
  cbn; try lia.
  all: apply Nat.eqb_eq in El, E0; lia.
Qed.

Lemma flat_map_count {A B} (f : A -> list B) l lo hi :
  (forall x, lo <= length (f x) <= hi)%nat -> (lo * length l <= length (flat_map f l) <= hi * length l)%nat.
Proof.
  intros H. induction l as [|x l IH]; [cbn; lia|].
  cbn [flat_map length]. rewrite app_length. specialize (H x). lia.
Qed.

Theorem triangulate_count rects :
  (length rects <= length (triangulate rects) <= 7 * length rects)%nat.
Proof.
  rewrite triangulate_length. destruct rects as [|r [|r' l]].
  - cbn. lia.
  - cbn. lia.
  - unfold all_pts.
    assert (H0 : forall x, (1 <= length (step_pts (r :: r' :: l) x) <= 7)%nat).
    { intros x. destruct (step_pts_count (r :: r' :: l) x) as [H1 H2]. split; [apply H2; cbn; lia | exact H1]. }
    pose proof (flat_map_count (step_pts (r :: r' :: l)) (iota 0 (length (r :: r' :: l))) 1 7 H0) as H.
    rewrite iota_length in H. lia.
Qed.
Print Assumptions triangulate_count.

(* ---------- T2c, T2d: where the vertices are ---------- *)
Definition corner_of (r : rect) (q : pt) : Prop :=
  pt_eq q (cTL r) \/ pt_eq q (cBR r) \/ pt_eq q (cTR r) \/ pt_eq q (cBL r).

Definition good_abs (r0 r1 r2 : rect) (first last : bool) (q : pt) : Prop :=
  in_rect r1 q /\ ((first = false /\ corner_of r0 q) \/ corner_of r1 q \/ (last = false /\ corner_of r2 q)).

Definition good_triple (P : pt -> Prop) (x : triple) : Prop := P (fst (fst x)) /\ P (snd (fst x)) /\ P (snd x).

Ltac corner_tac :=
  unfold corner_of, pt_eq, cTL, cBR, cTR, cBL; cbn [px py fst snd r_tl r_br];
  first [ left; split; lra | right; left; split; lra | right; right; left; split; lra | right; right; right; split; lra ].
Ltac good_tac :=
  split;
  [ unfold in_rect; cbn [px py fst snd r_tl r_br]; lra
  | first [ right; left; corner_tac | left; split; [reflexivity | corner_tac] | right; right; split; [reflexivity | corner_tac] ] ].

Lemma step_abs_good r0 r1 r2 first last :
  rect_wf r1 -> (first = false -> stacked_wf r0 r1) -> (last = false -> stacked_wf r1 r2) ->
  forall x, In x (step_pts_abs r0 r1 r2 first last) -> good_triple (good_abs r0 r1 r2 first last) x.
Proof.
  destruct r0 as [[a0 t0] [b0 u0]], r1 as [[a1 t1] [b1 u1]], r2 as [[a2 t2] [b2 u2]].
  unfold rect_wf, stacked_wf. cbn [px py fst snd r_tl r_br].
  intros [W1 W2] S01 S12 x Hx.
  unfold step_pts_abs, left2right, leftmost, rightmost_pt, cTR, cBL in Hx. cbn [px py fst snd r_tl r_br] in Hx.
  destruct first, last.
  - destruct Hx.
  - specialize (S12 eq_refl). destruct S12 as [Ey [x1 [x2 [H12 [A1 [A2 [B1 B2]]]]]]].
    cbn [app negb] in Hx.
    destruct (Qlt_bool b1 b2) eqn:C5; [apply Qlt_bool_true in C5 | apply Qlt_bool_false in C5];
    (destruct (Qlt_bool b2 b1) eqn:C3; [apply Qlt_bool_true in C3 | apply Qlt_bool_false in C3]);
    (destruct (Qlt_bool a1 a2) eqn:C4; [apply Qlt_bool_true in C4 | apply Qlt_bool_false in C4]);
    cbn [app fst snd In] in Hx; repeat (destruct Hx as [Hx|Hx]; [subst x|]); try destruct Hx;
    unfold good_triple; cbn [fst snd]; (split; [|split]); good_tac.
  - specialize (S01 eq_refl). destruct S01 as [Ey [x1 [x2 [H12 [A1 [A2 [B1 B2]]]]]]].
    rewrite !app_nil_r in Hx.
    destruct (Qlt_bool a1 a0) eqn:C1; [apply Qlt_bool_true in C1 | apply Qlt_bool_false in C1];
    (destruct (Qlt_bool b0 b1) eqn:C2; [apply Qlt_bool_true in C2 | apply Qlt_bool_false in C2]);
    cbn [app fst snd In negb orb] in Hx; repeat (destruct Hx as [Hx|Hx]; [subst x|]); try destruct Hx;
    unfold good_triple; cbn [fst snd]; (split; [|split]); good_tac.
  - specialize (S01 eq_refl). destruct S01 as [Ey [x1 [x2 [H12 [A1 [A2 [B1 B2]]]]]]].
    specialize (S12 eq_refl). destruct S12 as [Ey' [x1' [x2' [H12' [A1' [A2' [B1' B2']]]]]]].
    destruct (Qlt_bool a1 a0) eqn:C1; [apply Qlt_bool_true in C1 | apply Qlt_bool_false in C1];
    (destruct (Qlt_bool b0 b1) eqn:C2; [apply Qlt_bool_true in C2 | apply Qlt_bool_false in C2]);
    (destruct (Qlt_bool b1 b2) eqn:C5; [apply Qlt_bool_true in C5 | apply Qlt_bool_false in C5]);
    (destruct (Qlt_bool b2 b1) eqn:C3; [apply Qlt_bool_true in C3 | apply Qlt_bool_false in C3]);
    (destruct (Qlt_bool a1 a2) eqn:C4; [apply Qlt_bool_true in C4 | apply Qlt_bool_false in C4]);
    cbn [app fst snd In negb orb] in Hx; repeat (destruct Hx as [Hx|Hx]; [subst x|]); try destruct Hx;
    unfold good_triple; cbn [fst snd]; (split; [|split]); good_tac.
Qed.

Lemma corridor_wf_rect rects : forall i, corridor_wf rects -> (i < length rects)%nat -> rect_wf (nth i rects rect0).
Proof.
  induction rects as [|r rest IH]; intros i H Hi; [cbn in Hi; lia|].
  cbn [corridor_wf] in H. destruct H as [H1 [H2 H3]]. destruct i as [|i]; [exact H1|].
  cbn [nth]. apply IH; [exact H3 | cbn in Hi; lia].
Qed.

Lemma corridor_wf_stacked rects : forall i, corridor_wf rects -> (S i < length rects)%nat ->
  stacked_wf (nth i rects rect0) (nth (S i) rects rect0).
Proof.
  induction rects as [|r rest IH]; intros i H Hi; [cbn in Hi; lia|].
  cbn [corridor_wf] in H. destruct H as [H1 [H2 H3]]. destruct i as [|i].
  - destruct rest as [|r2 rest']; [cbn in Hi; lia|]. exact H2.
  - change (nth (S i) (r :: rest) rect0) with (nth i rest rect0).
    change (nth (S (S i)) (r :: rest) rect0) with (nth (S i) rest rect0).
    apply IH; [exact H3 | cbn in Hi; lia].
Qed.

(* q is in rectangle i and is a corner of rectangle i-1, i or i+1 *)
Definition good_pt (rects : list rect) (i : nat) (q : pt) : Prop :=
  in_rect (nth i rects rect0) q /\
  exists j, (j < length rects)%nat /\ (i - 1 <= j <= i + 1)%nat /\ corner_of (nth j rects rect0) q.

Lemma good_triple_impl (P Q : pt -> Prop) x : (forall q, P q -> Q q) -> good_triple P x -> good_triple Q x.
Proof. unfold good_triple. intros H [A [B C]]. auto. Qed.

Lemma step_pts_good rects i :
  corridor_wf rects -> (i < length rects)%nat ->
  forall x, In x (step_pts rects i) -> good_triple (good_pt rects i) x.
Proof.
  intros W Hi x Hx. unfold step_pts in Hx.
  apply step_abs_good in Hx.
  - revert Hx. apply good_triple_impl. intros q [Hin Hc]. split; [exact Hin|].
    destruct Hc as [[E Hc]|[Hc|[E Hc]]].
    + exists (i - 1)%nat. apply Nat.eqb_neq in E. repeat split; [lia | lia | lia | exact Hc].
    + exists i. repeat split; [lia | lia | lia | exact Hc].
    + exists (S i). apply Nat.eqb_neq in E. repeat split; [lia | lia | lia | exact Hc].
  - apply corridor_wf_rect; assumption.
  - intros E. apply Nat.eqb_neq in E. replace i with (S (i - 1)) at 2 by lia.
    apply corridor_wf_stacked; [exact W | lia].
  - intros E. apply Nat.eqb_neq in E. apply corridor_wf_stacked; [exact W | lia].
Qed.

Lemma all_pts_good rects :
  corridor_wf rects -> forall x, In x (all_pts rects) ->
  exists i, (i < length rects)%nat /\ good_triple (good_pt rects i) x.
Proof.
  intros W x Hx.
  assert (G : In x (flat_map (step_pts rects) (iota 0 (length rects))) ->
              exists i, (i < length rects)%nat /\ good_triple (good_pt rects i) x).
  { intros H. apply in_flat_map in H. destruct H as [i [Hi Hx']]. apply in_iota in Hi.
    exists i. split; [lia|]. apply step_pts_good; [exact W | lia | exact Hx']. }
  destruct rects as [|r [|r' l]]; [destruct Hx | | exact (G Hx)].
  exists 0%nat. split; [cbn; lia|].
  cbn [corridor_wf] in W. destruct W as [[W1 W2] _].
  assert (C : forall q, in_rect r q -> corner_of r q -> good_pt [r] 0 q).
  { intros q H1 H2. split; [exact H1|]. exists 0%nat. cbn [length nth]. repeat split; try lia. exact H2. }
  destruct r as [[a1 t1] [b1 u1]]. cbn [px py fst snd r_tl r_br] in W1, W2.
  unfold all_pts, one_rect_pts in Hx. cbn [In] in Hx.
  destruct Hx as [Hx|[Hx|[]]]; subst x; unfold good_triple; cbn [fst snd]; (split; [|split]); apply C;
    try (unfold in_rect, cTR, cBL; cbn [px py fst snd r_tl r_br]; lra); corner_tac.
Qed.

Definition tri_vertex (rects : list rect) (q : pt) : Prop := exists t, In t (triangulate rects) /\ In q (tri_pts t).

(* T2c/T2d, the precise form: the triangle emitted at step i has its three vertices in rectangle i, and each of them is a
   corner (up to ==) of rectangle i-1, i or i+1 *)
Theorem triangulate_good rects t :
  corridor_wf rects -> In t (triangulate rects) ->
  exists i, (i < length rects)%nat /\ good_pt rects i (t_a t) /\ good_pt rects i (t_b t) /\ good_pt rects i (t_c t).
Proof.
  intros W Ht. apply triangulate_In_pts in Ht. destruct (all_pts_good rects W _ Ht) as [i [Hi G]].
  exists i. split; [exact Hi | exact G].
Qed.
Print Assumptions triangulate_good.

Theorem triangulate_in_rect rects t :
  corridor_wf rects -> In t (triangulate rects) ->
  exists r, In r rects /\ in_rect r (t_a t) /\ in_rect r (t_b t) /\ in_rect r (t_c t).
Proof.
  intros W Ht. destruct (triangulate_good rects t W Ht) as [i [Hi [[A _] [[B _] [C _]]]]].
  exists (nth i rects rect0). split; [apply nth_In; exact Hi | tauto].
Qed.

Theorem triangulate_corners rects q :
  corridor_wf rects -> tri_vertex rects q -> exists r, In r rects /\ corner_of r q /\ in_corridor rects q.
Proof.
  intros W [t [Ht Hq]]. destruct (triangulate_good rects t W Ht) as [i [Hi [A [B C]]]].
  assert (G : good_pt rects i q).
  { cbn [tri_pts In] in Hq. destruct Hq as [<-|[<-|[<-|[]]]]; assumption. }
  destruct G as [G1 [j [Hj [_ G2]]]]. exists (nth j rects rect0). split; [apply nth_In; exact Hj|]. split; [exact G2|].
  exists (nth i rects rect0). split; [apply nth_In; exact Hi | exact G1].
Qed.
Print Assumptions triangulate_corners.

(* the closed triangle: convex combinations of the three vertices *)
Definition in_triangle (t : tri) (p : pt) : Prop :=
  exists u v w : Q, 0 <= u /\ 0 <= v /\ 0 <= w /\ u + v + w == 1 /\
    px p == u * px (t_a t) + v * px (t_b t) + w * px (t_c t) /\
    py p == u * py (t_a t) + v * py (t_b t) + w * py (t_c t).

Lemma in_rect_convex3 r a b c p u v w :
  in_rect r a -> in_rect r b -> in_rect r c -> 0 <= u -> 0 <= v -> 0 <= w -> u + v + w == 1 ->
  px p == u * px a + v * px b + w * px c -> py p == u * py a + v * py b + w * py c -> in_rect r p.
Proof.
  unfold in_rect. intros [[A1 A2] [A3 A4]] [[B1 B2] [B3 B4]] [[C1 C2] [C3 C4]] Hu Hv Hw Hs Ex Ey.
  assert (lo : forall l x y z, l <= x -> l <= y -> l <= z -> l <= u * x + v * y + w * z).
  { intros l x y z Hx Hy Hz.
    assert (E : u * x + v * y + w * z == l + (u * (x - l) + v * (y - l) + w * (z - l))).
    { transitivity ((u + v + w) * l + (u * (x - l) + v * (y - l) + w * (z - l))); [ring | rewrite Hs; ring]. }
    rewrite E. assert (0 <= u * (x - l)) by (apply Qmult_le_0_compat; lra).
    assert (0 <= v * (y - l)) by (apply Qmult_le_0_compat; lra).
    assert (0 <= w * (z - l)) by (apply Qmult_le_0_compat; lra). lra. }
  assert (hi : forall h x y z, x <= h -> y <= h -> z <= h -> u * x + v * y + w * z <= h).
  { intros h x y z Hx Hy Hz.
    assert (E : u * x + v * y + w * z == h - (u * (h - x) + v * (h - y) + w * (h - z))).
    { transitivity ((u + v + w) * h - (u * (h - x) + v * (h - y) + w * (h - z))); [ring | rewrite Hs; ring]. }
    rewrite E. assert (0 <= u * (h - x)) by (apply Qmult_le_0_compat; lra).
    assert (0 <= v * (h - y)) by (apply Qmult_le_0_compat; lra).
    assert (0 <= w * (h - z)) by (apply Qmult_le_0_compat; lra). lra. }
  rewrite Ex, Ey. repeat split; [apply lo | apply hi | apply lo | apply hi]; assumption.
Qed.

(* T2c: every triangle of the triangulation of a well-formed corridor lies inside the corridor (inside ONE rectangle) *)
Theorem triangulate_inside rects t :
  corridor_wf rects -> In t (triangulate rects) ->
  exists r, In r rects /\ forall p, in_triangle t p -> in_rect r p.
Proof.
  intros W Ht. destruct (triangulate_in_rect rects t W Ht) as [r [Hr [A [B C]]]].
  exists r. split; [exact Hr|]. intros p [u [v [w [Hu [Hv [Hw [Hs [Ex Ey]]]]]]]].
  exact (in_rect_convex3 r _ _ _ p u v w A B C Hu Hv Hw Hs Ex Ey).
Qed.
Print Assumptions triangulate_inside.

Corollary triangulate_inside_corridor rects t p :
  corridor_wf rects -> In t (triangulate rects) -> in_triangle t p -> in_corridor rects p.
Proof.
  intros W Ht Hp. destruct (triangulate_inside rects t W Ht) as [r [Hr H]]. exists r. split; [exact Hr | exact (H p Hp)].
Qed.

(* ---------- non-vacuity: the staircase of four rectangles of the task ---------- *)
Definition stair4 : list rect :=
  [mkRect (0, 0) (40, 16); mkRect (24, 16) (80, 40); mkRect (56, 40) (96, 56); mkRect (8, 56) (72, 80)].

Example stair4_ok : corridor_ok stair4 = true.
Proof. vm_compute. reflexivity. Qed.
Example stair4_wf : corridor_wf stair4.
Proof. apply corridor_ok_iff. exact stair4_ok. Qed.
Example stair4_count : length (triangulate stair4) = 14%nat /\ length stair4 = 4%nat.
Proof. vm_compute. split; reflexivity. Qed.
Example stair4_ids : map t_id (triangulate stair4) = [1; 2; 3; 4; 5; 6; 7; 8; 9; 10; 11; 12; 13; 14]%nat.
Proof. vm_compute. reflexivity. Qed.
(* the bound 7 per rectangle is attained by a middle rectangle wider than both neighbours on both sides *)
Example count_sharp :
  let rects := [mkRect (4, 0) (8, 2); mkRect (0, 2) (12, 4); mkRect (4, 4) (8, 6)] in
  corridor_ok rects = true /\ length (step_pts rects 1) = 7%nat /\ length (triangulate rects) = 11%nat.
Proof. vm_compute. repeat split; reflexivity. Qed.
Example stair4_triangle_inside :
  exists t, In t (triangulate stair4) /\ t_id t = 5%nat /\
            exists r, In r stair4 /\ forall p, in_triangle t p -> in_rect r p.
Proof.
  exists (nth 4 (triangulate stair4) tri0). split; [|split].
  - apply nth_In. vm_compute. lia.
  - vm_compute. reflexivity.
  - apply triangulate_inside; [exact stair4_wf | apply nth_In; vm_compute; lia].
Qed.
