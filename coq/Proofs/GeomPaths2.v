(* GeomPaths2.v — universal structural theorems about the corridor router (property C19), part 2:
   the SHAPE of the answer of [shortest], for corridors of any length and ANY input (no well-formedness needed).
   T1   [shortest_shape]          shortest p1 p2 rects = Ok path  ->  path = p2 :: rest, rest <> [], the last point is p1
                                  (up to pt_eqb; Leibniz-equal when it was appended) and every point of rest is p1 or a vertex
                                  of the triangulation.
   T1'  [shortest_shape_strict]   if moreover no vertex and not p2 is pt_eqb-equal to p1:  path = p2 :: mid ++ [p1] with every
                                  point of mid a vertex of the triangulation.
   T3a  [shortest_errors]         the only possible failures are ErrIndex 63, 64, 66 and ErrFuel 65: the two shrink loops of the
                                  funnel always terminate within their fuel (ErrFuel 61, 62 never happen), for all inputs.
   The proof is an invariant of the funnel loop: the window [f, b] of the deque stays inside the array and holds only p1 and end
   points of crossed diagonals; diagonals are ordered sides of triangles of the triangulation. *)
From Coq Require Import Lqa.
From Autog Require Import Base ListLemmas Geom GeomProofs GeomTwo GeomPaths.
Local Open Scope Q_scope.

(* ================= sides, dual graph, crossed diagonals ================= *)
Lemma nth3_In (a b c d : pt) k : (k < 3)%nat -> In (nth k [a; b; c] d) [a; b; c].
Proof. intros H. apply nth_In. cbn. exact H. Qed.

Lemma ordered_side_pts t i :
  In (fst (ordered_side t i)) (tri_pts t) /\ In (snd (ordered_side t i)) (tri_pts t).
Proof.
  unfold ordered_side, tri_pts.
  assert (A : In (nth (i mod 3) [t_a t; t_b t; t_c t] (0, 0)) [t_a t; t_b t; t_c t])
    by (apply nth3_In; apply Nat.mod_upper_bound; lia).
  assert (B : In (nth ((i + 1) mod 3) [t_a t; t_b t; t_c t] (0, 0)) [t_a t; t_b t; t_c t])
    by (apply nth3_In; apply Nat.mod_upper_bound; lia).
  cbv zeta.
  destruct (Qlt_bool _ _); [split; assumption|].
  destruct (Qlt_bool _ _); [split; assumption|].
  destruct (Qlt_bool _ _); split; assumption.
Qed.

Definition side_of (ts : list tri) (s : seg) : Prop := exists t i, In t ts /\ s = ordered_side t i.

Lemma fold_left_inv {A B} (f : A -> B -> A) (P : A -> Prop) (Q : B -> Prop) l :
  (forall a b, P a -> Q b -> P (f a b)) -> (forall b, In b l -> Q b) -> forall a, P a -> P (fold_left f l a).
Proof.
  intros Hf. induction l as [|x l IH]; intros HQ a Ha; [exact Ha|].
  cbn [fold_left]. apply IH.
  - intros b Hb. apply HQ. right; exact Hb.
  - apply Hf; [exact Ha | apply HQ; left; reflexivity].
Qed.

Lemma dual_graph_sides start ts e : In e (dual_graph start ts) -> side_of ts (snd e).
Proof.
  rewrite dual_graph_unfold.
  set (P := fun acc : list (seg * nat) * list adj_entry => forall e, In e (snd acc) -> side_of ts (snd e)).
  assert (St : forall t acc i, In t ts -> P acc -> P (dg_step t acc i)).
  { intros t [pm adj] i Ht Hacc. unfold dg_step. destruct (find_side (ordered_side t i) pm) as [id|].
    - unfold P. cbn [snd]. intros e' [<-|[<-|H]]; cbn [snd].
      + exists t, i. split; [exact Ht | reflexivity].
      + exists t, i. split; [exact Ht | reflexivity].
      + exact (Hacc e' H).
    - exact Hacc. }
  revert e. change (P (fold_left (fun acc t => dg_step t (dg_step t (dg_step t acc 0%nat) 1%nat) 2%nat) ts
                        ([(ordered_side start 0, t_id start)], []))).
  apply (fold_left_inv _ P (fun t => In t ts)).
  - intros a t Ha Ht. apply St; [exact Ht|]. apply St; [exact Ht|]. apply St; assumption.
  - intros t Ht; exact Ht.
  - intros e [].
Qed.

Lemma adj_get_In adj i j s : adj_get adj i j = Some s -> exists e, In e adj /\ snd e = s.
Proof.
  unfold adj_get. destruct (find _ adj) as [e|] eqn:E; [|discriminate].
  cbn [option_map]. intros H. injection H as <-. apply find_some in E. exists e. split; [tauto | reflexivity].
Qed.

Lemma crossed_diagonals_In nt adj : forall fuel s e visited out v,
  crossed_diagonals fuel nt adj s e visited = (Some out, v) ->
  forall d, In d out -> exists e', In e' adj /\ snd e' = d.
Proof.
  induction fuel as [|f IH]; intros s e visited out v H d Hd; [discriminate H|].
  cbn [crossed_diagonals] in H. destruct (Nat.eqb s e).
  - injection H as <- _. destruct Hd.
  - revert H. generalize (s :: visited). generalize (iota 0 (S nt)).
    intros tids. induction tids as [|tid rest IHt]; intros vis H; [discriminate H|].
    destruct (adj_get adj s tid) as [dg|] eqn:Eg.
    + destruct (mem_nat tid vis).
      * exact (IHt _ H).
      * destruct (crossed_diagonals f nt adj tid e vis) as [[o|] v'] eqn:Ec.
        -- injection H as <- _. destruct Hd as [<-|Hd].
           ++ exact (adj_get_In _ _ _ _ Eg).
           ++ exact (IH _ _ _ _ _ Ec d Hd).
        -- exact (IHt _ H).
    + exact (IHt _ H).
Qed.

(* the crossed diagonals are ordered sides of triangles of the triangulation: their end points are vertices *)
Lemma diagonals_vertices rects start fuel nt s e visited out v d :
  crossed_diagonals fuel nt (dual_graph start (triangulate rects)) s e visited = (Some out, v) ->
  In d out -> tri_vertex rects (fst d) /\ tri_vertex rects (snd d).
Proof.
  intros H Hd. destruct (crossed_diagonals_In _ _ _ _ _ _ _ _ H d Hd) as [e' [He' <-]].
  apply dual_graph_sides in He'. destruct He' as [t [i [Ht ->]]].
  destruct (ordered_side_pts t i) as [A B]. split; exists t; tauto.
Qed.

(* ================= the deque ================= *)
Section Funnel.
  Variable K S : pt -> Prop.   (* K: keys of the predecessor map; S: contents of the deque, values of the map *)

  Definition dq_wk (d : deque) : Prop :=
    (0 <= dq_f d)%Z /\ (dq_f d <= dq_b d + 1)%Z /\ (dq_b d < Z.of_nat (length (dq_data d)))%Z /\
    forall i, (dq_f d <= i <= dq_b d)%Z -> S (dq_get d i).
  Definition dq_ok (d : deque) : Prop := dq_wk d /\ (dq_f d <= dq_b d)%Z.

  Lemma push_front_wk d v :
    dq_wk d -> (0 <= dq_f d - 1)%Z -> S v -> dq_ok (push_front d v).
  Proof.
    intros [H0 [H1 [H2 H3]]] Hf Hv. unfold dq_ok, dq_wk, push_front. cbn [dq_f dq_b dq_data].
    unfold set_nth. rewrite upd_length. repeat split; try lia.
    intros i Hi. unfold dq_get. cbn [dq_data].
    destruct (Z.eq_dec i (dq_f d - 1)) as [->|Ne].
    - rewrite nth_upd_same; [exact Hv | lia].
    - rewrite nth_upd_other by lia. apply (H3 i). lia.
  Qed.

  Lemma push_back_wk d v :
    dq_wk d -> (dq_b d + 1 < Z.of_nat (length (dq_data d)))%Z -> S v -> dq_ok (push_back d v).
  Proof.
    intros [H0 [H1 [H2 H3]]] Hf Hv. unfold dq_ok, dq_wk, push_back. cbn [dq_f dq_b dq_data].
    unfold set_nth. rewrite upd_length. repeat split; try lia.
    intros i Hi. unfold dq_get. cbn [dq_data].
    destruct (Z.eq_dec i (dq_b d + 1)) as [->|Ne].
    - rewrite nth_upd_same; [exact Hv | lia].
    - rewrite nth_upd_other by lia. apply (H3 i). lia.
  Qed.

  Lemma outside_left_len d apex v : outside_left d apex v = false -> (2 <= dq_len d)%Z.
  Proof. unfold outside_left. destruct (dq_len d <? 2)%Z eqn:E; [discriminate|]. intros _. apply Z.ltb_ge in E. exact E. Qed.
  Lemma outside_right_len d apex v : outside_right d apex v = false -> (2 <= dq_len d)%Z.
  Proof. unfold outside_right. destruct (dq_len d <? 2)%Z eqn:E; [discriminate|]. intros _. apply Z.ltb_ge in E. exact E. Qed.
  Lemma outside_left_short d apex v : (dq_len d < 2)%Z -> outside_left d apex v = true.
  Proof. intros H. unfold outside_left. apply Z.ltb_lt in H. rewrite H. reflexivity. Qed.
  Lemma outside_right_short d apex v : (dq_len d < 2)%Z -> outside_right d apex v = true.
  Proof. intros H. unfold outside_right. apply Z.ltb_lt in H. rewrite H. reflexivity. Qed.

  Lemma shrink_left_ok apex v : forall fuel d d',
    dq_ok d -> shrink_left fuel d apex v = Ok d' -> dq_ok d' /\ dq_data d' = dq_data d.
  Proof.
    induction fuel as [|f IH]; intros d d' Hd H.
    - cbn [shrink_left] in H. destruct (outside_left d apex v); [|discriminate]. injection H as <-. tauto.
    - rewrite shrink_left_S in H. destruct (outside_left d apex v) eqn:E.
      + injection H as <-. tauto.
      + apply outside_left_len in E. unfold dq_len in E.
        apply IH in H.
        * cbn [dq_data] in H. exact H.
        * destruct Hd as [[H0 [H1 [H2 H3]]] H4]. unfold dq_ok, dq_wk. cbn [dq_f dq_b dq_data].
          repeat split; try lia. intros i Hi. apply (H3 i). lia.
  Qed.

  Lemma shrink_right_ok apex v : forall fuel d d',
    dq_ok d -> shrink_right fuel d apex v = Ok d' -> dq_ok d' /\ dq_data d' = dq_data d.
  Proof.
    induction fuel as [|f IH]; intros d d' Hd H.
    - cbn [shrink_right] in H. destruct (outside_right d apex v); [|discriminate]. injection H as <-. tauto.
    - rewrite shrink_right_S in H. destruct (outside_right d apex v) eqn:E.
      + injection H as <-. tauto.
      + apply outside_right_len in E. unfold dq_len in E.
        apply IH in H.
        * cbn [dq_data] in H. exact H.
        * destruct Hd as [[H0 [H1 [H2 H3]]] H4]. unfold dq_ok, dq_wk. cbn [dq_f dq_b dq_data].
          repeat split; try lia. intros i Hi. apply (H3 i). lia.
  Qed.

  (* the shrink loops end within their fuel *)
  Lemma shrink_left_total apex v : forall fuel d,
    (dq_len d <= Z.of_nat fuel + 1)%Z -> exists d', shrink_left fuel d apex v = Ok d'.
  Proof.
    induction fuel as [|f IH]; intros d Hl.
    - cbn [shrink_left]. rewrite outside_left_short by lia. eexists; reflexivity.
    - rewrite shrink_left_S. destruct (outside_left d apex v) eqn:E; [eexists; reflexivity|].
      apply IH. unfold dq_len in *. cbn [dq_f dq_b]. lia.
  Qed.
  Lemma shrink_right_total apex v : forall fuel d,
    (dq_len d <= Z.of_nat fuel + 1)%Z -> exists d', shrink_right fuel d apex v = Ok d'.
  Proof.
    induction fuel as [|f IH]; intros d Hl.
    - cbn [shrink_right]. rewrite outside_right_short by lia. eexists; reflexivity.
    - rewrite shrink_right_S. destruct (outside_right d apex v) eqn:E; [eexists; reflexivity|].
      apply IH. unfold dq_len in *. cbn [dq_f dq_b]. lia.
  Qed.

  Lemma dq_ok_len d : dq_ok d -> (dq_len d <= Z.of_nat (Datatypes.S (length (dq_data d))) + 1)%Z.
  Proof. intros [[H0 [H1 [H2 H3]]] H4]. unfold dq_len. lia. Qed.

  Lemma dq_in_true d i : dq_in d i = true -> (0 <= i < Z.of_nat (length (dq_data d)))%Z.
  Proof. unfold dq_in. intros H. apply andb_true_iff in H. destruct H as [A B]. apply Z.leb_le in A. apply Z.ltb_lt in B. lia. Qed.

  Lemma peek_front_ok d : dq_ok d -> S (peek_front d 1).
  Proof.
    intros [[H0 [H1 [H2 H3]]] H4]. unfold peek_front. replace (dq_f d + 1 - 1)%Z with (dq_f d) by lia. apply H3. lia.
  Qed.
  Lemma peek_back_ok d : dq_ok d -> S (peek_back d 1).
  Proof.
    intros [[H0 [H1 [H2 H3]]] H4]. unfold peek_back. replace (dq_b d - 1 + 1)%Z with (dq_b d) by lia. apply H3. lia.
  Qed.

  Lemma seg_other_cases (cur : seg) c : seg_other cur c = fst cur \/ seg_other cur c = snd cur.
  Proof. unfold seg_other. destruct (pt_eqb (fst cur) c); tauto. Qed.

  Definition pm_ok (pm : pred_map) : Prop := forall k w, In (k, w) pm -> K k /\ S w.
  (* every diagonal but the last has its end points in S *)
  Definition dl_ok (dl : list seg) : Prop := forall cur, In cur (removelast dl) -> S (fst cur) /\ S (snd cur).

  Lemma dl_ok_tail cur x rest : dl_ok (cur :: x :: rest) -> (S (fst cur) /\ S (snd cur)) /\ dl_ok (x :: rest).
  Proof.
    unfold dl_ok. change (removelast (cur :: x :: rest)) with (cur :: removelast (x :: rest)).
    intros H. split; [apply H; left; reflexivity|]. intros c Hc. apply H. right; exact Hc.
  Qed.

  Lemma funnel_inv : forall dl prev d apex pm pm',
    (forall cur, In cur dl -> K (fst cur) /\ K (snd cur)) -> dl_ok dl -> dq_ok d -> pm_ok pm ->
    funnel dl prev d apex pm = Ok pm' -> pm_ok pm'.
  Proof.
    induction dl as [|cur rest IH]; intros prev d apex pm pm' HK HS Hd Hpm H.
    - rewrite funnel_nil in H. injection H as <-. exact Hpm.
    - rewrite funnel_cons in H. cbv zeta in H.
      set (c := common_vertex prev cur) in *. set (v := seg_other cur c) in *.
      assert (Kv : K v).
      { destruct (HK cur (or_introl eq_refl)) as [A B]. destruct (seg_other_cases cur c) as [E|E]; unfold v; rewrite E; assumption. }
      assert (Sv : rest <> [] -> S v).
      { intros Hr. destruct rest as [|x rest']; [congruence|]. apply dl_ok_tail in HS. destruct HS as [[A B] _].
        destruct (seg_other_cases cur c) as [E|E]; unfold v; rewrite E; assumption. }
      assert (HK' : forall cur0, In cur0 rest -> K (fst cur0) /\ K (snd cur0)) by (intros c0 Hc0; apply HK; right; exact Hc0).
      assert (HS' : dl_ok rest).
      { destruct rest as [|x rest']; [intros c0 []|]. apply dl_ok_tail in HS. tauto. }
      destruct (pt_eqb (peek_back d 1) c).
      + destruct (shrink_left _ d apex v) as [d1|e1] eqn:Es; [|discriminate H]. cbn [bind] in H.
        destruct (shrink_left_ok _ _ _ _ _ Hd Es) as [Hd1 _].
        destruct (negb (dq_in d1 (dq_f d1 - 1))) eqn:Ein; [discriminate H|].
        apply negb_false_iff in Ein. apply dq_in_true in Ein.
        assert (Hpm1 : pm_ok ((v, peek_front d1 1) :: pm)).
        { intros k w [E|Hin]; [injection E as <- <-; split; [exact Kv | apply peek_front_ok; exact Hd1] | exact (Hpm k w Hin)]. }
        destruct rest as [|x rest'].
        * rewrite funnel_nil in H. injection H as <-. exact Hpm1.
        * eapply IH; [exact HK' | exact HS' | | exact Hpm1 | exact H].
          apply push_front_wk; [exact (proj1 Hd1) | lia | apply Sv; discriminate].
      + destruct (pt_eqb (peek_front d 1) c); [|discriminate H].
        destruct (shrink_right _ d apex v) as [d1|e1] eqn:Es; [|discriminate H]. cbn [bind] in H.
        destruct (shrink_right_ok _ _ _ _ _ Hd Es) as [Hd1 _].
        destruct (negb (dq_in d1 (dq_b d1 + 1))) eqn:Ein; [discriminate H|].
        apply negb_false_iff in Ein. apply dq_in_true in Ein.
        assert (Hpm1 : pm_ok ((v, peek_back d1 1) :: pm)).
        { intros k w [E|Hin]; [injection E as <- <-; split; [exact Kv | apply peek_back_ok; exact Hd1] | exact (Hpm k w Hin)]. }
        destruct rest as [|x rest'].
        * rewrite funnel_nil in H. injection H as <-. exact Hpm1.
        * eapply IH; [exact HK' | exact HS' | | exact Hpm1 | exact H].
          apply push_back_wk; [exact (proj1 Hd1) | lia | apply Sv; discriminate].
  Qed.

  (* the funnel can only fail with ErrIndex 63 (deque index out of range) or 64 (disconnected diagonal) *)
  Lemma funnel_errors : forall dl prev d apex pm e,
    (forall cur, In cur dl -> S (fst cur) /\ S (snd cur)) -> dq_ok d ->
    funnel dl prev d apex pm = Err e -> e = ErrIndex 63 \/ e = ErrIndex 64.
  Proof.
    induction dl as [|cur rest IH]; intros prev d apex pm e HS Hd H.
    - rewrite funnel_nil in H. discriminate H.
    - rewrite funnel_cons in H. cbv zeta in H.
      set (c := common_vertex prev cur) in *. set (v := seg_other cur c) in *.
      assert (Sv : S v).
      { destruct (HS cur (or_introl eq_refl)) as [A B]. destruct (seg_other_cases cur c) as [E|E]; unfold v; rewrite E; assumption. }
      assert (HS' : forall cur0, In cur0 rest -> S (fst cur0) /\ S (snd cur0)) by (intros c0 Hc0; apply HS; right; exact Hc0).
      destruct (pt_eqb (peek_back d 1) c).
      + destruct (shrink_left_total apex v _ d (dq_ok_len d Hd)) as [d1 Es]. rewrite Es in H. cbn [bind] in H.
        destruct (shrink_left_ok _ _ _ _ _ Hd Es) as [Hd1 _].
        destruct (negb (dq_in d1 (dq_f d1 - 1))) eqn:Ein; [injection H as <-; left; reflexivity|].
        apply negb_false_iff in Ein. apply dq_in_true in Ein.
        eapply IH; [exact HS' | | exact H]. apply push_front_wk; [exact (proj1 Hd1) | lia | exact Sv].
      + destruct (pt_eqb (peek_front d 1) c); [|injection H as <-; right; reflexivity].
        destruct (shrink_right_total apex v _ d (dq_ok_len d Hd)) as [d1 Es]. rewrite Es in H. cbn [bind] in H.
        destruct (shrink_right_ok _ _ _ _ _ Hd Es) as [Hd1 _].
        destruct (negb (dq_in d1 (dq_b d1 + 1))) eqn:Ein; [injection H as <-; left; reflexivity|].
        apply negb_false_iff in Ein. apply dq_in_true in Ein.
        eapply IH; [exact HS' | | exact H]. apply push_back_wk; [exact (proj1 Hd1) | lia | exact Sv].
  Qed.
End Funnel.

(* the last step of the funnel records the predecessor of [seg_other x (common_vertex prev x)] *)
Lemma funnel_last : forall l x prev d apex pm pm',
  funnel (l ++ [x]) prev d apex pm = Ok pm' ->
  exists w pm0, pm' = (seg_other x (common_vertex (last l prev) x), w) :: pm0.
Proof.
  induction l as [|cur rest IH]; intros x prev d apex pm pm' H.
  - cbn [app last] in H |- *. rewrite funnel_cons in H. cbv zeta in H.
    destruct (pt_eqb (peek_back d 1) (common_vertex prev x)).
    + destruct (shrink_left _ d apex _) as [d1|e1]; [|discriminate H]. cbn [bind] in H.
      destruct (negb (dq_in d1 (dq_f d1 - 1))); [discriminate H|]. rewrite funnel_nil in H. injection H as <-.
      eexists; eexists; reflexivity.
    + destruct (pt_eqb (peek_front d 1) (common_vertex prev x)); [|discriminate H].
      destruct (shrink_right _ d apex _) as [d1|e1]; [|discriminate H]. cbn [bind] in H.
      destruct (negb (dq_in d1 (dq_b d1 + 1))); [discriminate H|]. rewrite funnel_nil in H. injection H as <-.
      eexists; eexists; reflexivity.
  - assert (EL : last (cur :: rest) prev = last rest cur).
    { destruct rest as [|y rest']; [reflexivity|].
      change (last (cur :: y :: rest') prev) with (last (y :: rest') prev).
      apply RealLength.last_default_irrelevant. }
    rewrite EL. change ((cur :: rest) ++ [x]) with (cur :: (rest ++ [x])) in H.
    rewrite funnel_cons in H. cbv zeta in H.
    destruct (pt_eqb (peek_back d 1) (common_vertex prev cur)).
    + destruct (shrink_left _ d apex _) as [d1|e1]; [|discriminate H]. cbn [bind] in H.
      destruct (negb (dq_in d1 (dq_f d1 - 1))); [discriminate H|]. exact (IH _ _ _ _ _ _ H).
    + destruct (pt_eqb (peek_front d 1) (common_vertex prev cur)); [|discriminate H].
      destruct (shrink_right _ d apex _) as [d1|e1]; [|discriminate H]. cbn [bind] in H.
      destruct (negb (dq_in d1 (dq_b d1 + 1))); [discriminate H|]. exact (IH _ _ _ _ _ _ H).
Qed.

(* ================= the walk along the predecessor map ================= *)
Inductive pchain (pm : pred_map) : pt -> list pt -> Prop :=
| pc_end u : pred_get pm u = None -> pchain pm u [u]
| pc_step u w l : pred_get pm u = Some w -> pchain pm w l -> pchain pm u (u :: l).

Lemma walk_pred_chain pm : forall fuel u acc path,
  walk_pred fuel pm u acc = Ok path -> exists l, path = acc ++ l /\ pchain pm u l.
Proof.
  induction fuel as [|f IH]; intros u acc path H; [discriminate H|].
  rewrite walk_pred_S in H. destruct (pred_get pm u) as [w|] eqn:E.
  - destruct (IH _ _ _ H) as [l [-> Hl]]. exists (u :: l). split; [rewrite <- app_assoc; reflexivity|].
    apply pc_step with w; assumption.
  - injection H as <-. exists [u]. split; [reflexivity | apply pc_end; exact E].
Qed.

Lemma walk_pred_errors pm : forall fuel u acc e, walk_pred fuel pm u acc = Err e -> e = ErrFuel 65.
Proof.
  induction fuel as [|f IH]; intros u acc e H; [injection H as <-; reflexivity|].
  rewrite walk_pred_S in H. destruct (pred_get pm u) as [w|]; [exact (IH _ _ _ H) | discriminate H].
Qed.

Lemma pred_get_In pm u w : pred_get pm u = Some w -> exists k, In (k, w) pm /\ pt_eqb k u = true.
Proof.
  induction pm as [|[a b] pm IH]; intros H; [discriminate H|].
  cbn [pred_get] in H. destruct (pt_eqb a u) eqn:E.
  - injection H as <-. exists a. split; [left; reflexivity | exact E].
  - destruct (IH H) as [k [Hin Hk]]. exists k. split; [right; exact Hin | exact Hk].
Qed.

Lemma pchain_head pm u l : pchain pm u l -> exists l', l = u :: l'.
Proof. intros H. destruct H; eexists; reflexivity. Qed.

Lemma pchain_values (K S : pt -> Prop) pm u l :
  pm_ok K S pm -> pchain pm u l -> exists l', l = u :: l' /\ forall q, In q l' -> S q.
Proof.
  intros Hpm H. induction H as [u E | u w l E Hl IH].
  - exists []. split; [reflexivity | intros q []].
  - destruct IH as [l' [-> IH]]. exists (w :: l'). split; [reflexivity|].
    intros q [<-|Hq]; [|exact (IH q Hq)].
    destruct (pred_get_In _ _ _ E) as [k [Hin _]]. exact (proj2 (Hpm k w Hin)).
Qed.

Lemma last_In {A} (x : A) l d : In (last (x :: l) d) (x :: l).
Proof.
  revert x. induction l as [|y l IH]; intros x; [left; reflexivity|].
  change (last (x :: y :: l) d) with (last (y :: l) d). right. apply IH.
Qed.

Lemma last_app_single {A} (l : list A) x d : last (l ++ [x]) d = x.
Proof. apply last_last. Qed.

(* when p1 is not (pt_eqb-)equal to any key of the map, a chain is: vertices only, or vertices and then p1 *)
Lemma pchain_strict (V : pt -> Prop) p1 p2 pm :
  pm_ok (fun q => q = p2 \/ V q) (fun q => q = p1 \/ V q) pm ->
  (forall q, V q -> pt_eqb q p1 = false) -> pt_eqb p2 p1 = false ->
  forall u l, pchain pm u l ->
    (u = p1 /\ l = [p1]) \/
    (exists mid, l = u :: mid ++ [p1] /\ forall q, In q mid -> V q) \/
    (exists mid, l = u :: mid /\ forall q, In q mid -> V q).
Proof.
  intros Hpm HV H2.
  assert (NK : forall w, pred_get pm p1 = Some w -> False).
  { intros w E. destruct (pred_get_In _ _ _ E) as [k [Hin Hk]]. destruct (proj1 (Hpm k w Hin)) as [->|Vk].
    - congruence.
    - rewrite (HV k Vk) in Hk. discriminate. }
  intros u l H. induction H as [u E | u w l E Hl IH].
  - right; right. exists []. split; [reflexivity | intros q []].
  - destruct (pred_get_In _ _ _ E) as [k [Hin _]]. destruct (proj2 (Hpm k w Hin)) as [->|Vw].
    + (* the predecessor is p1: the chain ends there *)
      right; left. exists []. inversion Hl as [u' E' | u' w' l' E' Hl']; subst.
      * split; [reflexivity | intros q []].
      * exfalso. exact (NK _ E').
    + destruct IH as [[-> ->] | [[mid [-> Hm]] | [mid [-> Hm]]]].
      * right; left. exists []. split; [reflexivity | intros q []].
      * right; left. exists (w :: mid). split; [reflexivity|]. intros q [<-|Hq]; [exact Vw | exact (Hm q Hq)].
      * right; right. exists (w :: mid). split; [reflexivity|]. intros q [<-|Hq]; [exact Vw | exact (Hm q Hq)].
Qed.

(* ================= shortest, staged ================= *)
Definition init_dq (n : nat) (p1 : pt) (d0 : seg) : deque :=
  let size := (2 * n)%nat in
  let dq := mkDq (repeat (0, 0) (2 * size)) (Z.of_nat size) (Z.of_nat size - 1) in
  let dq := push_front dq p1 in
  match orientation p1 (fst d0) (snd d0) with
  | CCW => push_back (push_front dq (fst d0)) (snd d0)
  | _ => push_back (push_front dq (snd d0)) (fst d0)
  end.

Definition last_diag (p2 : pt) (d0 : seg) (drest : list seg) : seg := (fst (last (d0 :: drest) d0), p2).

Definition shortest_tail (p1 p2 : pt) (n : nat) (d0 : seg) (drest : list seg) : res (list pt) :=
  do pm <- funnel (drest ++ [last_diag p2 d0 drest]) d0 (init_dq n p1 d0) (Z.of_nat (2 * n) - 1) [];
  do path <- walk_pred (Datatypes.S (Datatypes.S (length ((d0 :: drest) ++ [last_diag p2 d0 drest])))) pm p2 [];
  Ok (if pt_eqb (last path (0, 0)) p1 then path else path ++ [p1]).

Definition start_tri (p : pt) (rects : list rect) : tri :=
  fold_left (fun s t => if tri_contains t p then t else s) (triangulate rects) tri0.

Lemma shortest_unfold p1 p2 rects :
  shortest p1 p2 rects =
  let ts := triangulate rects in
  let start := start_tri p1 rects in let stop := start_tri p2 rects in
  if Nat.eqb (t_id start) (t_id stop) then Ok [p2; p1] else
  match fst (crossed_diagonals (Datatypes.S (length ts)) (length ts) (dual_graph start ts) (t_id start) (t_id stop) []) with
  | None | Some [] => Err (ErrIndex 66)
  | Some (d0 :: drest) => shortest_tail p1 p2 (length rects) d0 drest
  end.
Proof. reflexivity. Qed.

Lemma init_dq_ok (S : pt -> Prop) n p1 d0 :
  (1 <= n)%nat -> S p1 -> S (fst d0) -> S (snd d0) -> dq_ok S (init_dq n p1 d0).
Proof.
  intros Hn H1 Ha Hb. unfold init_dq. cbv zeta.
  set (dq0 := mkDq (repeat (0, 0) (2 * (2 * n))) (Z.of_nat (2 * n)) (Z.of_nat (2 * n) - 1)).
  assert (L0 : length (dq_data dq0) = (2 * (2 * n))%nat) by (unfold dq0; cbn [dq_data]; apply repeat_length).
  assert (W0 : dq_wk S dq0).
  { unfold dq_wk. rewrite L0. unfold dq0. cbn [dq_f dq_b]. repeat split; lia. }
  assert (W1 : dq_ok S (push_front dq0 p1)).
  { apply push_front_wk; [exact W0 | unfold dq0; cbn [dq_f]; lia | exact H1]. }
  assert (L1 : forall x, length (dq_data (push_front dq0 x)) = (2 * (2 * n))%nat).
  { intros x. unfold push_front, set_nth. cbn [dq_data]. rewrite upd_length. exact L0. }
  assert (G : forall x y, S x -> S y -> dq_ok S (push_back (push_front (push_front dq0 p1) x) y)).
  { intros x y Hx Hy.
    assert (W2 : dq_ok S (push_front (push_front dq0 p1) x)).
    { apply push_front_wk; [exact (proj1 W1) | unfold dq0; cbn [dq_f push_front]; lia | exact Hx]. }
    apply push_back_wk; [exact (proj1 W2) | | exact Hy].
    assert (PL : forall d z, length (dq_data (push_front d z)) = length (dq_data d))
      by (intros d z; unfold push_front, set_nth; cbn [dq_data]; apply upd_length).
    rewrite !PL, L0. unfold dq0. cbn [dq_b push_front]. lia. }
  destruct (orientation p1 (fst d0) (snd d0)); apply G; assumption.
Qed.

Lemma last_cons_self {A} (x : A) l : last (x :: l) x = last l x.
Proof. destruct l as [|y l]; [reflexivity|]. reflexivity. Qed.

Lemma In_last_diag (x : seg) l : In (last l x) (x :: l).
Proof. destruct l as [|y l]; [left; reflexivity|]. right. apply last_In. Qed.

Section Tail.
  Variable V : pt -> Prop.
  Variables (p1 p2 : pt) (n : nat) (d0 : seg) (drest : list seg).
  Hypothesis Hn : (1 <= n)%nat.
  Hypothesis HV : forall d, In d (d0 :: drest) -> V (fst d) /\ V (snd d).

  Let K := fun q => q = p2 \/ V q.
  Let S := fun q => q = p1 \/ V q.

  Lemma tail_pm pm :
    funnel (drest ++ [last_diag p2 d0 drest]) d0 (init_dq n p1 d0) (Z.of_nat (2 * n) - 1) [] = Ok pm ->
    pm_ok K S pm /\ exists w pm0, pm = (p2, w) :: pm0.
  Proof.
    intros H. split.
    - refine (funnel_inv K S _ _ _ _ _ _ _ _ _ _ H).
      + intros cur Hc. apply in_app_iff in Hc. destruct Hc as [Hc|[<-|[]]].
        * destruct (HV cur (or_intror Hc)) as [A B]. split; right; assumption.
        * unfold last_diag. cbn [fst snd]. split; [right | left; reflexivity].
          rewrite last_cons_self. destruct (In_last_diag d0 drest) as [E|E].
          -- rewrite <- E. exact (proj1 (HV d0 (or_introl eq_refl))).
          -- exact (proj1 (HV _ (or_intror E))).
      + unfold dl_ok. rewrite removelast_last. intros cur Hc. destruct (HV cur (or_intror Hc)) as [A B]. split; right; assumption.
      + apply init_dq_ok; [exact Hn | left; reflexivity | right; exact (proj1 (HV d0 (or_introl eq_refl)))
                           | right; exact (proj2 (HV d0 (or_introl eq_refl)))].
      + intros k w [].
    - destruct (funnel_last _ _ _ _ _ _ _ H) as [w [pm0 E]]. exists w, pm0. rewrite E. f_equal. f_equal.
      unfold last_diag. rewrite last_cons_self. set (dl := last drest d0).
      unfold common_vertex. cbn [fst snd]. rewrite pt_eqb_refl. cbn [orb].
      unfold seg_other. cbn [fst snd]. rewrite pt_eqb_refl. reflexivity.
  Qed.

  (* T1 on the staged form *)
  Lemma tail_shape path :
    shortest_tail p1 p2 n d0 drest = Ok path ->
    exists rest, path = p2 :: rest /\ rest <> [] /\ pt_eqb (last path (0, 0)) p1 = true /\
                 forall q, In q rest -> q = p1 \/ V q.
  Proof.
    unfold shortest_tail. intros H.
    destruct (funnel _ d0 _ _ []) as [pm|e] eqn:Ef; [|discriminate H]. cbn [bind] in H.
    destruct (walk_pred _ pm p2 []) as [wp|e] eqn:Ew; [|discriminate H]. cbn [bind] in H. injection H as <-.
    destruct (tail_pm pm Ef) as [Hpm [w [pm0 Epm]]].
    destruct (walk_pred_chain _ _ _ _ _ Ew) as [l [-> Hl]]. cbn [app].
    destruct (pchain_values K S _ _ _ Hpm Hl) as [l' [-> Hl']].
    assert (Ne : l' <> []).
    { subst pm. inversion Hl as [u E | u w' l0 E Hl0]; subst.
      - cbn [pred_get] in E. rewrite pt_eqb_refl in E. discriminate E.
      - destruct (pchain_head _ _ _ Hl0) as [l1 ->]. discriminate. }
    destruct (pt_eqb (last (p2 :: l') (0, 0)) p1) eqn:El.
    - exists l'. split; [reflexivity|]. split; [exact Ne|]. split; [exact El | exact Hl'].
    - exists (l' ++ [p1]). split; [reflexivity|]. split; [destruct l'; discriminate|]. split.
      + change (p2 :: l' ++ [p1]) with ((p2 :: l') ++ [p1]). rewrite last_last. apply pt_eqb_refl.
      + intros q Hq. apply in_app_iff in Hq. destruct Hq as [Hq|[<-|[]]]; [exact (Hl' q Hq) | left; reflexivity].
  Qed.

  (* T1' on the staged form *)
  Lemma tail_shape_strict path :
    (forall q, V q -> pt_eqb q p1 = false) -> pt_eqb p2 p1 = false ->
    shortest_tail p1 p2 n d0 drest = Ok path ->
    exists mid, path = p2 :: mid ++ [p1] /\ forall q, In q mid -> V q.
  Proof.
    intros HN H2. unfold shortest_tail. intros H.
    destruct (funnel _ d0 _ _ []) as [pm|e] eqn:Ef; [|discriminate H]. cbn [bind] in H.
    destruct (walk_pred _ pm p2 []) as [wp|e] eqn:Ew; [|discriminate H]. cbn [bind] in H. injection H as <-.
    destruct (tail_pm pm Ef) as [Hpm _].
    destruct (walk_pred_chain _ _ _ _ _ Ew) as [l [-> Hl]]. cbn [app].
    destruct (pchain_strict V _ _ _ Hpm HN H2 _ _ Hl) as [[E _] | [[mid [-> Hm]] | [mid [-> Hm]]]].
    - exfalso. subst p2. rewrite pt_eqb_refl in H2. discriminate.
    - exists mid. change (p2 :: mid ++ [p1]) with ((p2 :: mid) ++ [p1]). rewrite last_last, pt_eqb_refl.
      split; [reflexivity | exact Hm].
    - assert (El : pt_eqb (last (p2 :: mid) (0, 0)) p1 = false).
      { destruct (last_In p2 mid (0, 0)) as [<-|Hin]; [exact H2 | exact (HN _ (Hm _ Hin))]. }
      rewrite El. exists mid. split; [reflexivity | exact Hm].
  Qed.
End Tail.

(* T3a on the staged form: no well-formedness at all is needed *)
Lemma tail_errors p1 p2 n d0 drest e :
  (1 <= n)%nat -> shortest_tail p1 p2 n d0 drest = Err e ->
  e = ErrIndex 63 \/ e = ErrIndex 64 \/ e = ErrFuel 65.
Proof.
  intros Hn. unfold shortest_tail. intros H.
  destruct (funnel _ d0 _ _ []) as [pm|e'] eqn:Ef.
  - cbn [bind] in H. destruct (walk_pred _ pm p2 []) as [wp|e''] eqn:Ew; [discriminate H|].
    cbn [bind] in H. injection H as <-. right; right. exact (walk_pred_errors _ _ _ _ _ Ew).
  - cbn [bind] in H. injection H as <-.
    destruct (funnel_errors (fun _ => True) (fun _ => True) _ _ _ _ _ _ (fun _ _ => conj I I)
                (init_dq_ok (fun _ => True) n p1 d0 Hn I I I) Ef) as [->| ->]; tauto.
Qed.

(* ================= the theorems on [shortest] ================= *)
Lemma triangulate_nil_length rects : triangulate rects <> [] -> (1 <= length rects)%nat.
Proof. destruct rects as [|r l]; [intros H; exfalso; apply H; reflexivity | cbn; lia]. Qed.

Lemma diagonals_facts rects start fuel nt s e d0 drest :
  fst (crossed_diagonals fuel nt (dual_graph start (triangulate rects)) s e []) = Some (d0 :: drest) ->
  (1 <= length rects)%nat /\
  forall d, In d (d0 :: drest) -> tri_vertex rects (fst d) /\ tri_vertex rects (snd d).
Proof.
  destruct (crossed_diagonals _ _ _ _ _ _) as [o v] eqn:E. cbn [fst]. intros ->.
  assert (G : forall d, In d (d0 :: drest) -> tri_vertex rects (fst d) /\ tri_vertex rects (snd d))
    by (intros d Hd; exact (diagonals_vertices _ _ _ _ _ _ _ _ _ _ E Hd)).
  split; [|exact G].
  destruct (G d0 (or_introl eq_refl)) as [[t [Ht _]] _]. apply triangulate_nil_length. intros E0. rewrite E0 in Ht. destruct Ht.
Qed.

(* T1: the shape of the answer, for ALL inputs *)
Theorem shortest_shape p1 p2 rects path :
  shortest p1 p2 rects = Ok path ->
  exists rest, path = p2 :: rest /\ rest <> [] /\ pt_eqb (last path (0, 0)) p1 = true /\
               forall q, In q rest -> q = p1 \/ tri_vertex rects q.
Proof.
  rewrite shortest_unfold. cbv zeta. intros H.
  destruct (Nat.eqb _ _).
  - injection H as <-. exists [p1]. split; [reflexivity|]. split; [discriminate|]. split; [apply pt_eqb_refl|].
    intros q [<-|[]]. left; reflexivity.
  - destruct (fst (crossed_diagonals _ _ _ _ _ _)) as [[|d0 drest]|] eqn:E; [discriminate H | | discriminate H].
    destruct (diagonals_facts _ _ _ _ _ _ _ _ E) as [Hn HV].
    exact (tail_shape (tri_vertex rects) p1 p2 (length rects) d0 drest Hn HV path H).
Qed.
Print Assumptions shortest_shape.

(* T1': when the start is not (pt_eqb-)equal to the end or to a vertex of the triangulation, the answer is
   end :: vertices ++ [start] *)
Theorem shortest_shape_strict p1 p2 rects path :
  (forall q, tri_vertex rects q -> pt_eqb q p1 = false) -> pt_eqb p2 p1 = false ->
  shortest p1 p2 rects = Ok path ->
  exists mid, path = p2 :: mid ++ [p1] /\ forall q, In q mid -> tri_vertex rects q.
Proof.
  intros HN H2. rewrite shortest_unfold. cbv zeta. intros H.
  destruct (Nat.eqb _ _).
  - injection H as <-. exists []. split; [reflexivity | intros q []].
  - destruct (fst (crossed_diagonals _ _ _ _ _ _)) as [[|d0 drest]|] eqn:E; [discriminate H | | discriminate H].
    destruct (diagonals_facts _ _ _ _ _ _ _ _ E) as [Hn HV].
    exact (tail_shape_strict (tri_vertex rects) p1 p2 (length rects) d0 drest Hn HV path HN H2 H).
Qed.
Print Assumptions shortest_shape_strict.

(* T3a: the possible failures, for ALL inputs: the shrink loops never exhaust their fuel *)
Theorem shortest_errors p1 p2 rects e :
  shortest p1 p2 rects = Err e ->
  e = ErrIndex 63 \/ e = ErrIndex 64 \/ e = ErrIndex 66 \/ e = ErrFuel 65.
Proof.
  rewrite shortest_unfold. cbv zeta. intros H.
  destruct (Nat.eqb _ _); [discriminate H|].
  destruct (fst (crossed_diagonals _ _ _ _ _ _)) as [[|d0 drest]|] eqn:E;
    [injection H as <-; tauto | | injection H as <-; tauto].
  destruct (diagonals_facts _ _ _ _ _ _ _ _ E) as [Hn _].
  destruct (tail_errors _ _ _ _ _ _ Hn H) as [->|[->| ->]]; tauto.
Qed.
Print Assumptions shortest_errors.

(* with T2: in a well-formed corridor, every point of the answer other than the two end points is (up to ==) a corner of a
   rectangle, and every point of the answer is in the corridor *)
Theorem shortest_points_corners p1 p2 rects path :
  corridor_wf rects -> shortest p1 p2 rects = Ok path ->
  exists rest, path = p2 :: rest /\
    forall q, In q rest -> q = p1 \/ exists r, In r rects /\ corner_of r q.
Proof.
  intros W H. destruct (shortest_shape _ _ _ _ H) as [rest [-> [_ [_ Hr]]]]. exists rest. split; [reflexivity|].
  intros q Hq. destruct (Hr q Hq) as [->|Vq]; [left; reflexivity|]. right.
  destruct (triangulate_corners rects q W Vq) as [r [Hin [Hc _]]]. exists r. tauto.
Qed.

Theorem shortest_points_inside p1 p2 rects path :
  corridor_wf rects -> in_corridor rects p1 -> in_corridor rects p2 -> shortest p1 p2 rects = Ok path ->
  forall q, In q path -> in_corridor rects q.
Proof.
  intros W I1 I2 H. destruct (shortest_shape _ _ _ _ H) as [rest [-> [_ [_ Hr]]]].
  intros q [<-|Hq]; [exact I2|]. destruct (Hr q Hq) as [->|Vq]; [exact I1|].
  destruct (triangulate_corners rects q W Vq) as [r [_ [_ Hc]]]. exact Hc.
Qed.
Print Assumptions shortest_points_inside.

(* ---------- non-vacuity on the staircase of four rectangles ---------- *)
Example stair4_shortest :
  shortest (20, 0) (40, 80) stair4 = Ok [(40, 80); (56, 56); (56, 40); (20, 0)].
Proof. vm_compute. reflexivity. Qed.
