(* GeomPaths3.v — universal structural theorems about the corridor router (property C19), part 3:
   the router's CLASS for corridors of any length ([corridor_class]: well-formed corridor, rectangles of positive height, start strictly
   inside the top edge of the first rectangle, end strictly inside the bottom edge of the last).
   T3b  [class_locates]        the triangle-location step finds a triangle of the triangulation containing the start, and one
                               containing the end (so [start]/[stop] are never the dummy triangle tri0).
   T1c  [class_shape]          inside the class no vertex of the triangulation coincides with the start, hence the answer is
                               end :: mid ++ [start] with every point of mid a vertex of the triangulation, a corner (up to ==) of a
                               rectangle, and every point of the answer is in the corridor. *)
From Coq Require Import Lqa.
From Autog Require Import Base ListLemmas Geom GeomProofs GeomTwo GeomPaths GeomPaths2.
Local Open Scope Q_scope.

(* ================= which triples are emitted ================= *)
Lemma all_pts_cases rects x :
  In x (all_pts rects) ->
  (exists r, rects = [r] /\ In x (one_rect_pts r)) \/
  ((2 <= length rects)%nat /\ exists i, (i < length rects)%nat /\ In x (step_pts rects i)).
Proof.
  destruct rects as [|r [|r' l]]; intros H.
  - destruct H.
  - left. exists r. split; [reflexivity | exact H].
  - right. split; [cbn; lia|]. unfold all_pts in H. apply in_flat_map in H. destruct H as [i [Hi Hx]].
    apply in_iota in Hi. exists i. split; [lia | exact Hx].
Qed.

Lemma step_in_all_pts rects i x :
  (2 <= length rects)%nat -> (i < length rects)%nat -> In x (step_pts rects i) -> In x (all_pts rects).
Proof.
  intros Hn Hi Hx. destruct rects as [|r [|r' l]]; [cbn in Hn; lia | cbn in Hn; lia|].
  unfold all_pts. apply in_flat_map. exists i. split; [apply in_iota; lia | exact Hx].
Qed.

Lemma all_pts_tri rects x : In x (all_pts rects) -> exists t, In t (triangulate rects) /\ tri_triple t = x.
Proof.
  intros H. destruct (In_nth _ _ ((0,0),(0,0),(0,0)) H) as [k [Hk E]].
  exists (mkTri (Datatypes.S k) (fst (fst x)) (snd (fst x)) (snd x)). split.
  - apply triangulate_In. exists k. split; [exact Hk|]. split; [|reflexivity].
    refine (eq_trans _ (eq_sym E)). unfold tri_triple. cbn [t_a t_b t_c]. destruct x as [[a b] c]. reflexivity.
  - unfold tri_triple. cbn [t_a t_b t_c]. destruct x as [[a b] c]. reflexivity.
Qed.

(* ================= the location step ================= *)
Lemma start_tri_spec p rects :
  (exists t, In t (triangulate rects) /\ tri_contains t p = true) ->
  In (start_tri p rects) (triangulate rects) /\ tri_contains (start_tri p rects) p = true.
Proof.
  unfold start_tri. generalize (triangulate rects). intros ts.
  assert (G : forall l s, (In s ts /\ tri_contains s p = true) \/ (exists t, In t l /\ tri_contains t p = true) ->
              (forall t, In t l -> In t ts) ->
              In (fold_left (fun s t => if tri_contains t p then t else s) l s) ts /\
              tri_contains (fold_left (fun s t => if tri_contains t p then t else s) l s) p = true).
  { induction l as [|x l IH]; intros s H Hsub.
    - cbn [fold_left]. destruct H as [H|[t [[] _]]]. exact H.
    - cbn [fold_left]. apply IH; [|intros t Ht; apply Hsub; right; exact Ht].
      destruct (tri_contains x p) eqn:E.
      + left. split; [apply Hsub; left; reflexivity | exact E].
      + destruct H as [H|[t [[<-|Ht] Hc]]]; [left; exact H | congruence | right; exists t; tauto]. }
  intros H. apply G; [right; exact H | tauto].
Qed.

(* a point strictly inside the top side of a triangle whose third vertex is strictly below *)
Lemma top_tri_contains a1 t1 b1 ax ay s t1' :
  t1 < ay -> a1 < s -> s < b1 -> t1' == t1 -> tc3 (a1, t1) (ax, ay) (b1, t1) (s, t1') = true.
Proof.
  intros Hh Hs1 Hs2 Et. unfold tc3.
  assert (D1 : det (a1, t1) (ax, ay) (s, t1') == - ((ay - t1) * (s - a1)))
    by (unfold det, px, py; cbn [fst snd]; rewrite Et; ring).
  assert (D2 : det (ax, ay) (b1, t1) (s, t1') == - ((ay - t1) * (b1 - s)))
    by (unfold det, px, py; cbn [fst snd]; rewrite Et; ring).
  assert (D3 : det (b1, t1) (a1, t1) (s, t1') == 0)
    by (unfold det, px, py; cbn [fst snd]; rewrite Et; ring).
  assert (P1 : 0 < (ay - t1) * (s - a1)) by (apply Qmult_lt_0_compat; lra).
  assert (P2 : 0 < (ay - t1) * (b1 - s)) by (apply Qmult_lt_0_compat; lra).
  rewrite (orient_ccw _ _ _ ltac:(rewrite D1; lra)).
  rewrite (orient_ccw _ _ _ ltac:(rewrite D2; lra)).
  rewrite (orient_cln _ _ _ D3).
  unfold bbox, Qmin', Qmax', px, py; cbn [fst snd]. repeat (qdec1; cbn [andb]). reflexivity.
Qed.

(* a point strictly inside the bottom side of the triangle BR, TL, BL *)
Lemma bottom_tri_contains a1 t1 b1 u1 e u' :
  t1 < u1 -> a1 < e -> e < b1 -> u' == u1 -> tc3 (b1, u1) (a1, t1) (a1, u1) (e, u') = true.
Proof.
  intros Hh He1 He2 Eu. unfold tc3.
  assert (D1 : det (b1, u1) (a1, t1) (e, u') == - ((u1 - t1) * (b1 - e)))
    by (unfold det, px, py; cbn [fst snd]; rewrite Eu; ring).
  assert (D2 : det (a1, t1) (a1, u1) (e, u') == - ((u1 - t1) * (e - a1)))
    by (unfold det, px, py; cbn [fst snd]; ring).
  assert (D3 : det (a1, u1) (b1, u1) (e, u') == 0)
    by (unfold det, px, py; cbn [fst snd]; rewrite Eu; ring).
  assert (P1 : 0 < (u1 - t1) * (b1 - e)) by (apply Qmult_lt_0_compat; lra).
  assert (P2 : 0 < (u1 - t1) * (e - a1)) by (apply Qmult_lt_0_compat; lra).
  rewrite (orient_ccw _ _ _ ltac:(rewrite D1; lra)).
  rewrite (orient_ccw _ _ _ ltac:(rewrite D2; lra)).
  rewrite (orient_cln _ _ _ D3).
  unfold bbox, Qmin', Qmax', px, py; cbn [fst snd]. repeat (qdec1; cbn [andb]). reflexivity.
Qed.

(* ================= the class ================= *)
Definition heights_pos (rects : list rect) : bool := forallb (fun r => Qlt_bool (py (r_tl r)) (py (r_br r))) rects.

Definition corridor_class (rects : list rect) (p1 p2 : pt) : bool :=
  corridor_ok rects && heights_pos rects &&
  match rects with
  | [] => false
  | r1 :: _ =>
      let rn := last rects r1 in
      Qeq_bool (py p1) (py (r_tl r1)) && Qlt_bool (px (r_tl r1)) (px p1) && Qlt_bool (px p1) (px (r_br r1)) &&
      Qeq_bool (py p2) (py (r_br rn)) && Qlt_bool (px (r_tl rn)) (px p2) && Qlt_bool (px p2) (px (r_br rn))
  end.

Record class_facts (rects : list rect) (p1 p2 : pt) : Prop := {
  cf_wf : corridor_wf rects;
  cf_h : forall r, In r rects -> py (r_tl r) < py (r_br r);
  cf_n : (1 <= length rects)%nat;
  cf_p1y : py p1 == py (r_tl (nth 0 rects rect0));
  cf_p1x : px (r_tl (nth 0 rects rect0)) < px p1 /\ px p1 < px (r_br (nth 0 rects rect0));
  cf_p2y : py p2 == py (r_br (nth (length rects - 1) rects rect0));
  cf_p2x : px (r_tl (nth (length rects - 1) rects rect0)) < px p2 /\ px p2 < px (r_br (nth (length rects - 1) rects rect0)) }.

Arguments cf_wf {rects p1 p2}. Arguments cf_h {rects p1 p2}. Arguments cf_n {rects p1 p2}.
Arguments cf_p1y {rects p1 p2}. Arguments cf_p1x {rects p1 p2}. Arguments cf_p2y {rects p1 p2}. Arguments cf_p2x {rects p1 p2}.

Lemma nth_last_rect (l : list rect) d d' : l <> [] -> nth (length l - 1) l d = last l d'.
Proof.
  induction l as [|x l IH]; intros H; [congruence|].
  destruct l as [|y l]; [reflexivity|].
  change (last (x :: y :: l) d') with (last (y :: l) d'). rewrite <- IH by discriminate.
  cbn [length]. replace (Datatypes.S (Datatypes.S (length l)) - 1)%nat with (Datatypes.S (length l)) by lia.
  cbn [nth]. replace (Datatypes.S (length l) - 1)%nat with (length l) by lia. reflexivity.
Qed.

Lemma corridor_class_facts rects p1 p2 : corridor_class rects p1 p2 = true -> class_facts rects p1 p2.
Proof.
  unfold corridor_class. intros H. apply andb_true_iff in H. destruct H as [H H3].
  apply andb_true_iff in H. destruct H as [H1 H2].
  destruct rects as [|r1 rest]; [discriminate H3|].
  cbv zeta in H3. rewrite <- (nth_last_rect (r1 :: rest) rect0 r1) in H3 by discriminate.
  rewrite !andb_true_iff, !Qlt_bool_true, !Qeq_bool_iff in H3.
  destruct H3 as [[[[[A B] C] D] E] F].
  constructor.
  - apply corridor_ok_iff. exact H1.
  - intros r Hr. unfold heights_pos in H2. rewrite forallb_forall in H2. apply Qlt_bool_true. exact (H2 r Hr).
  - cbn. lia.
  - exact A.
  - split; [exact B | exact C].
  - exact D.
  - split; [exact E | exact F].
Qed.

(* the top edges go down the corridor *)
Lemma corridor_y_mono rects :
  corridor_wf rects -> (forall r, In r rects -> py (r_tl r) < py (r_br r)) ->
  forall i, (1 <= i)%nat -> (i < length rects)%nat -> py (r_br (nth 0 rects rect0)) <= py (r_tl (nth i rects rect0)).
Proof.
  intros W Hh. induction i as [|i IH]; intros H1 Hi; [lia|].
  destruct (corridor_wf_stacked rects i W Hi) as [Ey _].
  destruct i as [|i]; [lra|].
  specialize (IH ltac:(lia) ltac:(lia)).
  assert (Hlt : (Datatypes.S i < length rects)%nat) by lia.
  pose proof (Hh (nth (Datatypes.S i) rects rect0) (nth_In _ _ Hlt)) as Hhi. lra.
Qed.

(* one rectangle: the triangle BR, TL, TR and a point strictly inside its top side *)
Lemma top_tri_contains_one a1 t1 b1 u1 s t1' :
  t1 < u1 -> a1 < s -> s < b1 -> t1' == t1 -> tc3 (b1, u1) (a1, t1) (b1, t1) (s, t1') = true.
Proof.
  intros Hh Hs1 Hs2 Et. unfold tc3.
  assert (D1 : det (b1, u1) (a1, t1) (s, t1') == (u1 - t1) * (s - a1))
    by (unfold det, px, py; cbn [fst snd]; rewrite Et; ring).
  assert (D2 : det (a1, t1) (b1, t1) (s, t1') == 0)
    by (unfold det, px, py; cbn [fst snd]; rewrite Et; ring).
  assert (P1 : 0 < (u1 - t1) * (s - a1)) by (apply Qmult_lt_0_compat; lra).
  rewrite (orient_cw _ _ _ ltac:(rewrite D1; lra)).
  rewrite (orient_cln _ _ _ D2).
  unfold bbox, Qmin', Qmax', px, py; cbn [fst snd]. repeat (qdec1; cbn [andb]). reflexivity.
Qed.

Lemma tri_contains_triple t a b c p : tri_triple t = (a, b, c) -> tri_contains t p = tc3 a b c p.
Proof. unfold tri_triple. intros E. injection E as <- <- <-. apply tri_contains_eq. Qed.

Section Class.
  Variables (rects : list rect) (p1 p2 : pt).
  Hypothesis CF : class_facts rects p1 p2.

  Lemma r1_in : In (nth 0 rects rect0) rects.
  Proof. apply nth_In. exact (cf_n CF). Qed.
  Lemma rn_in : In (nth (length rects - 1) rects rect0) rects.
  Proof. apply nth_In. pose proof (cf_n CF). lia. Qed.

  (* ----- the start is found ----- *)
  Lemma class_p1_found : exists t, In t (triangulate rects) /\ tri_contains t p1 = true.
  Proof.
    pose proof (cf_h CF _ r1_in) as Hh. pose proof (cf_n CF) as Hn.
    pose proof (cf_p1y CF) as Ey. pose proof (cf_p1x CF) as [Ex1 Ex2].
    destruct (Nat.eq_dec (length rects) 1) as [E1|E1].
    - destruct rects as [|r [|r' l]]; [cbn in Hn; lia | | cbn in E1; lia].
      cbn [nth] in *.
      destruct (all_pts_tri [r] (r_br r, r_tl r, cTR r) (or_introl eq_refl)) as [t [Ht Et]].
      exists t. split; [exact Ht|]. rewrite (tri_contains_triple _ _ _ _ _ Et).
      destruct r as [[a1 t1] [b1 u1]], p1 as [s t1']. unfold cTR. cbn [px py fst snd r_tl r_br] in *.
      apply top_tri_contains_one; assumption.
    - pose proof (corridor_wf_stacked rects 0 (cf_wf CF) ltac:(lia)) as [Est _].
      set (a := fst (left2right (r_br (nth 0 rects rect0)) (cTR (nth 1 rects rect0)))).
      assert (Hin : In (r_tl (nth 0 rects rect0), a, cTR (nth 0 rects rect0)) (all_pts rects)).
      { apply (step_in_all_pts rects 0); [lia | lia |].
        unfold step_pts, step_pts_abs. cbv zeta.
        replace (Nat.eqb 1 (length rects)) with false by (symmetry; apply Nat.eqb_neq; lia).
        cbn [Nat.eqb negb app]. fold a.
        apply in_or_app. right. right. left. reflexivity. }
      destruct (all_pts_tri rects _ Hin) as [t [Ht Et]].
      exists t. split; [exact Ht|]. rewrite (tri_contains_triple _ _ _ _ _ Et).
      assert (Ha : py (r_tl (nth 0 rects rect0)) < py a).
      { unfold a, left2right. destruct (Qlt_bool _ _); cbn [fst]; unfold cTR; cbn [py snd]; unfold py in *; lra. }
      destruct a as [ax ay]. destruct (nth 0 rects rect0) as [[a1 t1] [b1 u1]], p1 as [s t1'].
      unfold cTR. cbn [px py fst snd r_tl r_br] in *.
      apply top_tri_contains; assumption.
  Qed.

  (* ----- the end is found ----- *)
  Lemma class_p2_found : exists t, In t (triangulate rects) /\ tri_contains t p2 = true.
  Proof.
    pose proof (cf_h CF _ rn_in) as Hh. pose proof (cf_n CF) as Hn.
    pose proof (cf_p2y CF) as Ey. pose proof (cf_p2x CF) as [Ex1 Ex2].
    set (rn := nth (length rects - 1) rects rect0) in *.
    assert (Hin : In (r_br rn, r_tl rn, cBL rn) (all_pts rects)).
    { destruct (Nat.eq_dec (length rects) 1) as [E1|E1].
      - destruct rects as [|r [|r' l]]; [cbn in Hn; lia | | cbn in E1; lia].
        right; left. reflexivity.
      - apply (step_in_all_pts rects (length rects - 1)); [lia | lia |].
        unfold step_pts, step_pts_abs. cbv zeta. fold rn.
        replace (Nat.eqb (Datatypes.S (length rects - 1)) (length rects)) with true by (symmetry; apply Nat.eqb_eq; lia).
        replace (Nat.eqb (length rects - 1) 0) with false by (symmetry; apply Nat.eqb_neq; lia).
        rewrite app_nil_r. apply in_or_app. right. apply in_or_app. right. left. reflexivity. }
    destruct (all_pts_tri rects _ Hin) as [t [Ht Et]].
    exists t. split; [exact Ht|]. rewrite (tri_contains_triple _ _ _ _ _ Et).
    destruct rn as [[a1 t1] [b1 u1]], p2 as [e u']. unfold cBL. cbn [px py fst snd r_tl r_br] in *.
    apply bottom_tri_contains; assumption.
  Qed.

  (* T3b *)
  Theorem class_locates_facts :
    (In (start_tri p1 rects) (triangulate rects) /\ tri_contains (start_tri p1 rects) p1 = true) /\
    (In (start_tri p2 rects) (triangulate rects) /\ tri_contains (start_tri p2 rects) p2 = true).
  Proof. split; apply start_tri_spec; [exact class_p1_found | exact class_p2_found]. Qed.
End Class.

(* ================= inside the class no vertex coincides with the start ================= *)
Lemma pt_eqb_false_intro (q p : pt) : (~ px q == px p) \/ (~ py q == py p) -> pt_eqb q p = false.
Proof.
  intros H. unfold pt_eqb. fold (px q) (px p) (py q) (py p).
  destruct H as [H|H]; apply Qeq_bool_false in H; rewrite H; [reflexivity | apply andb_false_r].
Qed.

Definition on_frame (r : rect) (q : pt) : Prop :=
  px q == px (r_tl r) \/ px q == px (r_br r) \/ py q == py (r_br r).

(* the points emitted at step 0 are on the left, right or bottom side of the first rectangle *)
Lemma step0_frame r0 r1 r2 last :
  (last = false -> stacked_wf r1 r2) ->
  forall x, In x (step_pts_abs r0 r1 r2 true last) -> good_triple (on_frame r1) x.
Proof.
  destruct r0 as [[a0 t0] [b0 u0]], r1 as [[a1 t1] [b1 u1]], r2 as [[a2 t2] [b2 u2]].
  unfold stacked_wf. cbn [px py fst snd r_tl r_br].
  intros S12 x Hx.
  unfold step_pts_abs, left2right, leftmost, rightmost_pt, cTR, cBL in Hx. cbn [px py fst snd r_tl r_br] in Hx.
  destruct last; [destruct Hx|].
  destruct (S12 eq_refl) as [Ey _]. cbn [app negb] in Hx.
  destruct (Qlt_bool b1 b2); destruct (Qlt_bool b2 b1); destruct (Qlt_bool a1 a2);
    cbn [app fst snd In] in Hx; repeat (destruct Hx as [Hx|Hx]; [subst x|]); try destruct Hx;
    unfold good_triple, on_frame; cbn [px py fst snd r_tl r_br]; (split; [|split]);
    first [ left; lra | right; left; lra | right; right; lra ].
Qed.

Section ClassShape.
  Variables (rects : list rect) (p1 p2 : pt).
  Hypothesis CF : class_facts rects p1 p2.

  Lemma class_frame_ne q : on_frame (nth 0 rects rect0) q -> pt_eqb q p1 = false.
  Proof.
    pose proof (cf_h CF _ (r1_in rects p1 p2 CF)) as Hh.
    pose proof (cf_p1y CF) as Ey. pose proof (cf_p1x CF) as [Ex1 Ex2].
    intros [H|[H|H]]; apply pt_eqb_false_intro; [left | left | right]; lra.
  Qed.

  Lemma class_vertex_ne q : tri_vertex rects q -> pt_eqb q p1 = false.
  Proof.
    intros [t [Ht Hq]]. apply triangulate_In_pts in Ht.
    assert (G : forall P : pt -> Prop, good_triple P (tri_triple t) -> P q).
    { intros P [A [B C]]. unfold tri_triple in *. cbn [fst snd] in *. cbn [tri_pts In] in Hq.
      destruct Hq as [<-|[<-|[<-|[]]]]; assumption. }
    pose proof (cf_h CF _ (r1_in rects p1 p2 CF)) as Hh.
    pose proof (cf_p1y CF) as Ey. pose proof (cf_p1x CF) as [Ex1 Ex2].
    destruct (all_pts_cases rects _ Ht) as [[r [Er Hx]] | [Hn [i [Hi Hx]]]].
    - (* one rectangle: the four corners *)
      apply class_frame_ne. apply G. subst rects. cbn [nth].
      destruct r as [[a1 t1] [b1 u1]]. unfold one_rect_pts, cTR, cBL in Hx. cbn [px py fst snd r_tl r_br In] in Hx.
      destruct Hx as [<-|[<-|[]]]; unfold good_triple, on_frame; cbn [px py fst snd r_tl r_br]; (split; [|split]);
        first [ left; lra | right; left; lra | right; right; lra ].
    - destruct i as [|i].
      + apply class_frame_ne. apply G. unfold step_pts in Hx. change (Nat.eqb 0 0) with true in Hx.
        apply (step0_frame _ _ _ _) in Hx; [exact Hx|].
        intros E. apply Nat.eqb_neq in E. apply (corridor_wf_stacked rects 0 (cf_wf CF)). lia.
      + pose proof (step_pts_good rects (Datatypes.S i) (cf_wf CF) Hi _ Hx) as Hg.
        destruct (G _ Hg) as [[_ [Hy _]] _].
        pose proof (corridor_y_mono rects (cf_wf CF) (cf_h CF) (Datatypes.S i) ltac:(lia) Hi) as Hm.
        apply pt_eqb_false_intro. right. lra.
  Qed.

  Lemma class_p2_ne : pt_eqb p2 p1 = false.
  Proof.
    pose proof (cf_h CF _ (r1_in rects p1 p2 CF)) as Hh. pose proof (cf_h CF _ (rn_in rects p1 p2 CF)) as Hhn.
    pose proof (cf_p1y CF) as Ey. pose proof (cf_p2y CF) as Ey2. pose proof (cf_n CF) as Hn.
    apply pt_eqb_false_intro. right.
    destruct (Nat.eq_dec (length rects) 1) as [E1|E1].
    - rewrite E1 in *. cbn [Nat.sub] in *. lra.
    - pose proof (corridor_y_mono rects (cf_wf CF) (cf_h CF) (length rects - 1) ltac:(lia) ltac:(lia)) as Hm. lra.
  Qed.

  Lemma class_p1_inside : in_corridor rects p1.
  Proof.
    exists (nth 0 rects rect0). split; [exact (r1_in rects p1 p2 CF)|].
    pose proof (cf_h CF _ (r1_in rects p1 p2 CF)) as Hh. pose proof (cf_p1y CF) as Ey. pose proof (cf_p1x CF) as [Ex1 Ex2].
    unfold in_rect. lra.
  Qed.
  Lemma class_p2_inside : in_corridor rects p2.
  Proof.
    exists (nth (length rects - 1) rects rect0). split; [exact (rn_in rects p1 p2 CF)|].
    pose proof (cf_h CF _ (rn_in rects p1 p2 CF)) as Hh. pose proof (cf_p2y CF) as Ey. pose proof (cf_p2x CF) as [Ex1 Ex2].
    unfold in_rect. lra.
  Qed.
End ClassShape.

(* ================= the theorems of part 3 ================= *)
(* T3b: inside the class the location step finds real triangles containing the start and the end *)
Theorem class_locates rects p1 p2 :
  corridor_class rects p1 p2 = true ->
  (In (start_tri p1 rects) (triangulate rects) /\ tri_contains (start_tri p1 rects) p1 = true) /\
  (In (start_tri p2 rects) (triangulate rects) /\ tri_contains (start_tri p2 rects) p2 = true).
Proof. intros H. apply class_locates_facts. apply corridor_class_facts. exact H. Qed.
Print Assumptions class_locates.

(* T1c: inside the class, for any number of rectangles: whenever the router answers, the answer is
   end :: mid ++ [start]; every point of mid is a vertex of the triangulation, hence a corner (up to ==) of a rectangle;
   every point of the answer is in the corridor *)
Theorem class_shape rects p1 p2 path :
  corridor_class rects p1 p2 = true -> shortest p1 p2 rects = Ok path ->
  exists mid, path = p2 :: mid ++ [p1] /\
    (forall q, In q mid -> tri_vertex rects q /\ exists r, In r rects /\ corner_of r q) /\
    (forall q, In q path -> in_corridor rects q).
Proof.
  intros Hc H. apply corridor_class_facts in Hc.
  destruct (shortest_shape_strict p1 p2 rects path (class_vertex_ne rects p1 p2 Hc) (class_p2_ne rects p1 p2 Hc) H)
    as [mid [-> Hm]].
  exists mid. split; [reflexivity|]. split.
  - intros q Hq. split; [exact (Hm q Hq)|].
    destruct (triangulate_corners rects q (cf_wf Hc) (Hm q Hq)) as [r [Hr [Hcr _]]]. exists r. tauto.
  - exact (shortest_points_inside p1 p2 rects _ (cf_wf Hc) (class_p1_inside rects p1 p2 Hc) (class_p2_inside rects p1 p2 Hc) H).
Qed.
Print Assumptions class_shape.

(* the only failures possible at all (T3a) are ErrIndex 63, 64, 66 and ErrFuel 65; inside the class the answer, if any, has the
   shape above: so for every in-class corridor the router either fails with one of these four or answers end :: corners ++ [start] *)
Corollary class_outcome rects p1 p2 :
  corridor_class rects p1 p2 = true ->
  (exists mid, shortest p1 p2 rects = Ok (p2 :: mid ++ [p1]) /\
               forall q, In q (p2 :: mid ++ [p1]) -> in_corridor rects q) \/
  (exists e, shortest p1 p2 rects = Err e /\ (e = ErrIndex 63 \/ e = ErrIndex 64 \/ e = ErrIndex 66 \/ e = ErrFuel 65)).
Proof.
  intros Hc. destruct (shortest p1 p2 rects) as [path|e] eqn:E.
  - left. destruct (class_shape rects p1 p2 path Hc E) as [mid [-> [_ Hin]]]. exists mid. split; [reflexivity | exact Hin].
  - right. exists e. split; [reflexivity | exact (shortest_errors p1 p2 rects e E)].
Qed.

(* ---------- non-vacuity: the staircase of four rectangles ---------- *)
Example stair4_class : corridor_class stair4 (20, 0) (40, 80) = true.
Proof. vm_compute. reflexivity. Qed.

Example stair4_class_shape :
  exists mid, shortest (20, 0) (40, 80) stair4 = Ok ((40, 80) :: mid ++ [(20, 0)]) /\ mid = [(56, 56); (56, 40)] /\
    forall q, In q mid -> tri_vertex stair4 q /\ exists r, In r stair4 /\ corner_of r q.
Proof.
  destruct (class_shape stair4 (20, 0) (40, 80) _ stair4_class stair4_shortest) as [mid [E [Hm _]]].
  exists mid. assert (Em : mid = [(56, 56); (56, 40)]).
  { injection E as E. change [(56, 56); (56, 40); (20, 0)] with ([(56, 56); (56, 40)] ++ [((20, 0) : pt)]) in E.
    apply app_inj_tail in E. destruct E as [E _]. symmetry. exact E. }
  split; [rewrite Em; exact stair4_shortest|]. split; [exact Em | exact Hm].
Qed.

Example stair4_located :
  t_id (start_tri (20, 0) stair4) = 2%nat /\ t_id (start_tri (40, 80) stair4) = 14%nat.
Proof. vm_compute. split; reflexivity. Qed.

(* a 3-rectangle corridor (the Z of GeomProofs.ex_corridor) *)
Example ex3_class : corridor_class ex_corridor (1, 0) (29, 12) = true.
Proof. vm_compute. reflexivity. Qed.
Example ex3_shape :
  shortest (1, 0) (29, 12) ex_corridor = Ok ((29, 12) :: [(10, 4)] ++ [(1, 0)]).
Proof. vm_compute. reflexivity. Qed.
