(* GeomPaths4.v — universal structural theorems about the corridor router (property C19), part 4:
   the triangulation COVERS the corridor.
   T2e  [triangulate_covers]   in a well-formed corridor of rectangles of positive width and height, every point of the corridor is
                               contained (Tri.Contains = true) in a triangle of the triangulation; with T2c (GeomPaths.v) the union of
                               the triangles is exactly the corridor.
   T3c  [locate_total]         hence the triangle-location step of the router succeeds for EVERY start and end point in the
                               corridor, not only inside the router's class. *)
From Coq Require Import Lqa.
From Autog Require Import Base ListLemmas Geom GeomProofs GeomTwo GeomPaths GeomPaths2 GeomPaths3.
Local Open Scope Q_scope.

(* ================= Tri.Contains accepts every point of the closed, non-degenerate triangle ================= *)
Lemma det_cycle a b c : det b c a == det a b c.
Proof. unfold det. ring. Qed.

(* p on the line a b, on the inner side of the two other sides: p is in the bounding box of a b *)
Lemma between_pos a b c p :
  det a b p == 0 -> 0 <= det b c p -> 0 <= det c a p -> 0 < det a b c -> bbox a b p = true.
Proof.
  intros E H1 H2 D.
  assert (I1x : det a b c * (px p - px a) == det c a p * (px b - px a) + (px c - px a) * det a b p) by (unfold det; ring).
  assert (I2x : det a b c * (px b - px p) == det b c p * (px b - px a) + (px b - px c) * det a b p) by (unfold det; ring).
  assert (I1y : det a b c * (py p - py a) == det c a p * (py b - py a) + (py c - py a) * det a b p) by (unfold det; ring).
  assert (I2y : det a b c * (py b - py p) == det b c p * (py b - py a) + (py b - py c) * det a b p) by (unfold det; ring).
  rewrite E in I1x, I2x, I1y, I2y.
  set (D0 := det a b c) in *. set (U := det c a p) in *. set (V := det b c p) in *.
  unfold bbox. apply bbox_intro.
  - destruct (Qlt_le_dec (px b) (px a)); [right | left]; nra.
  - destruct (Qlt_le_dec (px b) (px a)); [left | right]; nra.
  - destruct (Qlt_le_dec (py b) (py a)); [right | left]; nra.
  - destruct (Qlt_le_dec (py b) (py a)); [left | right]; nra.
Qed.

Lemma between_neg a b c p :
  det a b p == 0 -> det b c p <= 0 -> det c a p <= 0 -> det a b c < 0 -> bbox a b p = true.
Proof.
  intros E H1 H2 D.
  assert (I1x : det a b c * (px p - px a) == det c a p * (px b - px a) + (px c - px a) * det a b p) by (unfold det; ring).
  assert (I2x : det a b c * (px b - px p) == det b c p * (px b - px a) + (px b - px c) * det a b p) by (unfold det; ring).
  assert (I1y : det a b c * (py p - py a) == det c a p * (py b - py a) + (py c - py a) * det a b p) by (unfold det; ring).
  assert (I2y : det a b c * (py b - py p) == det b c p * (py b - py a) + (py b - py c) * det a b p) by (unfold det; ring).
  rewrite E in I1x, I2x, I1y, I2y.
  set (D' := det a b c) in *. set (U := det c a p) in *. set (V := det b c p) in *.
  unfold bbox. apply bbox_intro.
  - destruct (Qlt_le_dec (px b) (px a)); [right | left]; nra.
  - destruct (Qlt_le_dec (px b) (px a)); [left | right]; nra.
  - destruct (Qlt_le_dec (py b) (py a)); [right | left]; nra.
  - destruct (Qlt_le_dec (py b) (py a)); [left | right]; nra.
Qed.

Lemma tc3_closed_pos a b c p :
  0 <= det a b p -> 0 <= det b c p -> 0 <= det c a p -> 0 < det a b c -> tc3 a b c p = true.
Proof.
  intros H1 H2 H3 D. unfold tc3.
  destruct (orientation_cases a b p) as [[E1 G1]|[[E1 G1]|[E1 G1]]]; rewrite E1; [lra | | apply (between_pos a b c p); assumption].
  destruct (orientation_cases b c p) as [[E2 G2]|[[E2 G2]|[E2 G2]]]; rewrite E2;
    [lra | | apply (between_pos b c a p); [assumption | assumption | assumption | rewrite det_cycle; exact D]].
  destruct (orientation_cases c a p) as [[E3 G3]|[[E3 G3]|[E3 G3]]]; rewrite E3;
    [lra | reflexivity | apply (between_pos c a b p); [assumption | assumption | assumption | rewrite <- (det_cycle c a b); exact D]].
Qed.

Lemma tc3_closed_neg a b c p :
  det a b p <= 0 -> det b c p <= 0 -> det c a p <= 0 -> det a b c < 0 -> tc3 a b c p = true.
Proof.
  intros H1 H2 H3 D. unfold tc3.
  destruct (orientation_cases a b p) as [[E1 G1]|[[E1 G1]|[E1 G1]]]; rewrite E1; [ | lra | apply (between_neg a b c p); assumption].
  destruct (orientation_cases b c p) as [[E2 G2]|[[E2 G2]|[E2 G2]]]; rewrite E2;
    [ | lra | apply (between_neg b c a p); [assumption | assumption | assumption | rewrite det_cycle; exact D]].
  destruct (orientation_cases c a p) as [[E3 G3]|[[E3 G3]|[E3 G3]]]; rewrite E3;
    [reflexivity | lra | apply (between_neg c a b p); [assumption | assumption | assumption | rewrite <- (det_cycle c a b); exact D]].
Qed.

(* ================= one step of Triangulate covers its rectangle ================= *)
Definition covers (l : list triple) (p : pt) : Prop :=
  exists x, In x l /\ tc3 (fst (fst x)) (snd (fst x)) (snd x) p = true.

Lemma covers_tail x l p : covers l p -> covers (x :: l) p.
Proof. intros [y [H1 H2]]. exists y. split; [right; exact H1 | exact H2]. Qed.
Lemma covers_head x l p : tc3 (fst (fst x)) (snd (fst x)) (snd x) p = true -> covers (x :: l) p.
Proof. intros H. exists x. split; [left; reflexivity | exact H]. Qed.

Definition stacked_strict (r1 r2 : rect) : Prop :=
  py (r_br r1) == py (r_tl r2) /\ px (r_tl r1) < px (r_br r2) /\ px (r_tl r2) < px (r_br r1) /\
  px (r_tl r1) < px (r_br r1) /\ px (r_tl r2) < px (r_br r2).

Lemma stacked_wf_strict r1 r2 : stacked_wf r1 r2 -> stacked_strict r1 r2.
Proof. intros [Ey [x1 [x2 [H12 [A1 [A2 [B1 B2]]]]]]]. unfold stacked_strict. repeat split; [exact Ey | lra | lra | lra | lra]. Qed.

(* levels of the neighbouring rectangles are rewritten to the levels of the current one: the only == hypotheses in the
   context are [t2 == u1] and [u0 == t1] *)
Ltac lvl_norm := repeat match goal with H : _ == _ |- _ => progress (rewrite H) end.
(* the sign conditions of one candidate triangle: the three conditions that depend on p first (they fail fast on a wrong candidate) *)
Ltac sgn := unfold det, px, py; cbn [fst snd]; lvl_norm; first [lra | nra].
Ltac dsgn := unfold det, px, py; cbn [fst snd]; lvl_norm; nra.
Ltac tc_solve :=
  cbn [fst snd];
  first [ apply tc3_closed_pos; [sgn | sgn | sgn | dsgn]
        | apply tc3_closed_neg; [sgn | sgn | sgn | dsgn] ].
Ltac cover_search :=
  lazymatch goal with
  | |- covers (_ :: _) _ => first [ apply covers_head; tc_solve | apply covers_tail; cover_search ]
  end.
Ltac qsplit c := destruct c eqn:?C;
  [ match goal with H : Qlt_bool _ _ = true |- _ => apply Qlt_bool_true in H end
  | match goal with H : Qlt_bool _ _ = false |- _ => apply Qlt_bool_false in H end ].
Ltac revert_ineqs := repeat match goal with H : (_ < _)%Q |- _ => revert H | H : (_ <= _)%Q |- _ => revert H end.
Ltac dec P Q R :=
  let F := fresh "F" in
  destruct (Qlt_le_dec 0 (det P Q R)) as [F|F]; unfold det, px, py in F; cbn [fst snd] in F.
Ltac leaf := cbn [fst snd app]; intros; first [ exfalso; lra | cover_search | exfalso; nra ].

(* the first rectangle of a corridor of two or more *)
Lemma step_cover_first r0 r1 r2 p :
  rect_strict r1 -> stacked_strict r1 r2 -> in_rect r1 p -> covers (step_pts_abs r0 r1 r2 true false) p.
Proof.
  destruct r0 as [[a0 t0] [b0 u0]], r1 as [[a1 t1] [b1 u1]], r2 as [[a2 t2] [b2 u2]], p as [x y].
  unfold rect_strict, stacked_strict, in_rect. cbn [px py fst snd r_tl r_br].
  intros [W1 W2] [Ey [S1 [S2 [S3 S4]]]] [[X1 X2] [Y1 Y2]]. symmetry in Ey.
  unfold step_pts_abs, left2right, leftmost, rightmost_pt, cTR, cBL. cbn [px py fst snd r_tl r_br app negb].
  set (ax := if Qlt_bool b1 b2 then b1 else b2). set (lx := if Qlt_bool a1 a2 then a2 else a1).
  dec (a1, t1) (ax, u1) (x, y).
  - (* left of TL-a *)
    dec (a1, t1) (lx, u1) (x, y); unfold ax, lx in *; revert_ineqs;
    qsplit (Qlt_bool b1 b2); qsplit (Qlt_bool b2 b1); qsplit (Qlt_bool a1 a2); leaf.
  - dec (ax, u1) (b1, t1) (x, y); unfold ax, lx in *; revert_ineqs;
    qsplit (Qlt_bool b1 b2); qsplit (Qlt_bool b2 b1); qsplit (Qlt_bool a1 a2); leaf.
Qed.

(* the last rectangle of a corridor of two or more *)
Lemma step_cover_last r0 r1 r2 p :
  rect_strict r1 -> stacked_strict r0 r1 -> in_rect r1 p -> covers (step_pts_abs r0 r1 r2 false true) p.
Proof.
  destruct r0 as [[a0 t0] [b0 u0]], r1 as [[a1 t1] [b1 u1]], r2 as [[a2 t2] [b2 u2]], p as [x y].
  unfold rect_strict, stacked_strict, in_rect. cbn [px py fst snd r_tl r_br].
  intros [W1 W2] [Ey [S1 [S2 [S3 S4]]]] [[X1 X2] [Y1 Y2]].
  unfold step_pts_abs, left2right, leftmost, rightmost_pt, cTR, cBL. cbn [px py fst snd r_tl r_br].
  rewrite !app_nil_r.
  dec (a1, t1) (b1, u1) (x, y).
  - (* below the diagonal TL-BR *)
    revert_ineqs; qsplit (Qlt_bool a1 a0); qsplit (Qlt_bool b0 b1); cbn [orb negb]; leaf.
  - dec (b1, u1) (b0, t1) (x, y); dec (b1, u1) (a0, t1) (x, y);
    revert_ineqs; qsplit (Qlt_bool a1 a0); qsplit (Qlt_bool b0 b1); cbn [orb negb]; leaf.
Qed.

(* a middle rectangle *)
Lemma step_cover_middle r0 r1 r2 p :
  rect_strict r1 -> stacked_strict r0 r1 -> stacked_strict r1 r2 -> in_rect r1 p ->
  covers (step_pts_abs r0 r1 r2 false false) p.
Proof.
  destruct r0 as [[a0 t0] [b0 u0]], r1 as [[a1 t1] [b1 u1]], r2 as [[a2 t2] [b2 u2]], p as [x y].
  unfold rect_strict, stacked_strict, in_rect. cbn [px py fst snd r_tl r_br].
  intros [W1 W2] [Ey0 [S1 [S2 [S3 S4]]]] [Ey [R1 [R2 [R3 R4]]]] [[X1 X2] [Y1 Y2]]. symmetry in Ey.
  unfold step_pts_abs, left2right, leftmost, rightmost_pt, cTR, cBL. cbn [px py fst snd r_tl r_br].
  set (ax := if Qlt_bool b1 b2 then b1 else b2). set (lx := if Qlt_bool a1 a2 then a2 else a1).
  dec (a1, t1) (ax, u1) (x, y).
  - (* left of TL-a *)
    dec (a1, t1) (lx, u1) (x, y); unfold ax, lx in *; revert_ineqs;
    qsplit (Qlt_bool b1 b2); qsplit (Qlt_bool b2 b1); qsplit (Qlt_bool a1 a2);
    qsplit (Qlt_bool a1 a0); qsplit (Qlt_bool b0 b1); cbn [orb negb]; leaf.
  - dec (ax, u1) (b1, t1) (x, y).
    + (* right of a-TR *)
      unfold ax, lx in *; revert_ineqs;
      qsplit (Qlt_bool b1 b2); qsplit (Qlt_bool b2 b1); qsplit (Qlt_bool a1 a2);
      qsplit (Qlt_bool a1 a0); qsplit (Qlt_bool b0 b1); cbn [orb negb]; leaf.
    + (* in the closed triangle TL, a, TR *)
      dec (ax, u1) (b0, t1) (x, y); dec (ax, u1) (a0, t1) (x, y);
      unfold ax, lx in *; revert_ineqs;
      qsplit (Qlt_bool b1 b2); qsplit (Qlt_bool b2 b1); qsplit (Qlt_bool a1 a2);
      qsplit (Qlt_bool a1 a0); qsplit (Qlt_bool b0 b1); cbn [orb negb]; leaf.
Qed.

(* a single rectangle *)
Lemma one_rect_cover r p : rect_strict r -> in_rect r p -> covers (one_rect_pts r) p.
Proof.
  destruct r as [[a1 t1] [b1 u1]], p as [x y].
  unfold rect_strict, in_rect. cbn [px py fst snd r_tl r_br].
  intros [W1 W2] [[X1 X2] [Y1 Y2]].
  unfold one_rect_pts, cTR, cBL. cbn [px py fst snd r_tl r_br].
  dec (a1, t1) (b1, u1) (x, y); leaf.
Qed.

(* ================= the theorems ================= *)
Definition corridor_strict (rects : list rect) : Prop := forall r, In r rects -> rect_strict r.

Lemma covers_tri rects l p :
  (forall x, In x l -> In x (all_pts rects)) -> covers l p ->
  exists t, In t (triangulate rects) /\ tri_contains t p = true.
Proof.
  intros Hsub [x [Hx Hc]]. destruct (all_pts_tri rects x (Hsub x Hx)) as [t [Ht Et]].
  exists t. split; [exact Ht|]. destruct x as [[a b] c]. rewrite (tri_contains_triple _ _ _ _ _ Et). exact Hc.
Qed.

(* T2e: the triangulation covers the corridor *)
Theorem triangulate_covers rects p :
  corridor_wf rects -> corridor_strict rects -> in_corridor rects p ->
  exists t, In t (triangulate rects) /\ tri_contains t p = true.
Proof.
  intros W Hs [r [Hr Hp]].
  destruct (In_nth _ _ rect0 Hr) as [i [Hi Ei]].
  destruct (Nat.eq_dec (length rects) 1) as [E1|E1].
  - destruct rects as [|r' [|r'' l]]; [cbn in Hi; lia | | cbn in E1; lia].
    destruct Hr as [->|[]].
    apply (covers_tri [r] (one_rect_pts r) p); [intros x Hx; exact Hx|].
    apply one_rect_cover; [apply Hs; left; reflexivity | exact Hp].
  - assert (Hsub : forall x, In x (step_pts rects i) -> In x (all_pts rects)).
    { intros x Hx. apply (step_in_all_pts rects i); [lia | exact Hi | exact Hx]. }
    apply (covers_tri rects (step_pts rects i) p Hsub).
    assert (Hst : rect_strict (nth i rects rect0)) by (apply Hs; apply nth_In; exact Hi).
    rewrite <- Ei in Hp.
    unfold step_pts.
    destruct (Nat.eqb i 0) eqn:E0; destruct (Nat.eqb (Datatypes.S i) (length rects)) eqn:El.
    + apply Nat.eqb_eq in E0, El. lia.
    + apply Nat.eqb_eq in E0. apply Nat.eqb_neq in El. subst i.
      apply step_cover_first; [exact Hst | | exact Hp].
      apply stacked_wf_strict. apply corridor_wf_stacked; [exact W | lia].
    + apply Nat.eqb_neq in E0.
      apply step_cover_last; [exact Hst | | exact Hp].
      apply stacked_wf_strict. replace i with (Datatypes.S (i - 1)) at 2 by lia.
      apply corridor_wf_stacked; [exact W | lia].
    + apply Nat.eqb_neq in E0, El.
      apply step_cover_middle; [exact Hst | | | exact Hp].
      * apply stacked_wf_strict. replace i with (Datatypes.S (i - 1)) at 2 by lia.
        apply corridor_wf_stacked; [exact W | lia].
      * apply stacked_wf_strict. apply corridor_wf_stacked; [exact W | lia].
Qed.
Print Assumptions triangulate_covers.

(* T3c: the location step of the router succeeds for every point of the corridor *)
Theorem locate_total rects p :
  corridor_wf rects -> corridor_strict rects -> in_corridor rects p ->
  In (start_tri p rects) (triangulate rects) /\ tri_contains (start_tri p rects) p = true.
Proof. intros W Hs Hp. apply start_tri_spec. apply triangulate_covers; assumption. Qed.
Print Assumptions locate_total.

(* ----- conversely, Tri.Contains only accepts points of the bounding rectangle of the vertices ----- *)
Lemma bbox_in_rect r a b p : in_rect r a -> in_rect r b -> bbox a b p = true -> in_rect r p.
Proof.
  unfold in_rect, bbox. intros [[A1 A2] [A3 A4]] [[B1 B2] [B3 B4]] H.
  rewrite !andb_true_iff, !Qle_bool_iff in H. destruct H as [[[H1 H2] H3] H4].
  destruct (Qmin'_spec (px a) (px b)) as [_ [_ [E1|E1]]]; rewrite E1 in H1;
  destruct (Qmax'_spec (px a) (px b)) as [_ [_ [E2|E2]]]; rewrite E2 in H2;
  destruct (Qmin'_spec (py a) (py b)) as [_ [_ [E3|E3]]]; rewrite E3 in H3;
  destruct (Qmax'_spec (py a) (py b)) as [_ [_ [E4|E4]]]; rewrite E4 in H4; lra.
Qed.

Lemma wavg_lo d1 d2 d3 x1 x2 x3 X lo :
  (d1 + d2 + d3) * X == d2 * x1 + d3 * x2 + d1 * x3 ->
  (d1 < 0 /\ d2 < 0 /\ d3 < 0) \/ (0 < d1 /\ 0 < d2 /\ 0 < d3) ->
  lo <= x1 -> lo <= x2 -> lo <= x3 -> lo <= X.
Proof.
  intros E Hs H1 H2 H3.
  assert (E' : (d1 + d2 + d3) * (X - lo) == d2 * (x1 - lo) + d3 * (x2 - lo) + d1 * (x3 - lo)).
  { transitivity ((d1 + d2 + d3) * X - (d1 + d2 + d3) * lo); [ring|]. rewrite E. ring. }
  destruct Hs as [[N1 [N2 N3]]|[P1 [P2 P3]]]; nra.
Qed.
Lemma wavg_hi d1 d2 d3 x1 x2 x3 X hi :
  (d1 + d2 + d3) * X == d2 * x1 + d3 * x2 + d1 * x3 ->
  (d1 < 0 /\ d2 < 0 /\ d3 < 0) \/ (0 < d1 /\ 0 < d2 /\ 0 < d3) ->
  x1 <= hi -> x2 <= hi -> x3 <= hi -> X <= hi.
Proof.
  intros E Hs H1 H2 H3.
  assert (E' : (d1 + d2 + d3) * (hi - X) == d2 * (hi - x1) + d3 * (hi - x2) + d1 * (hi - x3)).
  { transitivity ((d1 + d2 + d3) * hi - (d1 + d2 + d3) * X); [ring|]. rewrite E. ring. }
  destruct Hs as [[N1 [N2 N3]]|[P1 [P2 P3]]]; nra.
Qed.

Lemma tc3_in_rect r a b c p :
  in_rect r a -> in_rect r b -> in_rect r c -> tc3 a b c p = true -> in_rect r p.
Proof.
  intros Ha Hb Hc H. unfold tc3 in H.
  assert (Ex : (det a b p + det b c p + det c a p) * px p == det b c p * px a + det c a p * px b + det a b p * px c)
    by (unfold det; ring).
  assert (Ey : (det a b p + det b c p + det c a p) * py p == det b c p * py a + det c a p * py b + det a b p * py c)
    by (unfold det; ring).
  assert (G : (det a b p < 0 /\ det b c p < 0 /\ det c a p < 0) \/ (0 < det a b p /\ 0 < det b c p /\ 0 < det c a p) ->
              in_rect r p).
  { intros Hs. destruct Ha as [[A1 A2] [A3 A4]], Hb as [[B1 B2] [B3 B4]], Hc as [[C1 C2] [C3 C4]].
    unfold in_rect. repeat split.
    - exact (wavg_lo _ _ _ _ _ _ _ _ Ex Hs A1 B1 C1).
    - exact (wavg_hi _ _ _ _ _ _ _ _ Ex Hs A2 B2 C2).
    - exact (wavg_lo _ _ _ _ _ _ _ _ Ey Hs A3 B3 C3).
    - exact (wavg_hi _ _ _ _ _ _ _ _ Ey Hs A4 B4 C4). }
  destruct (orientation_cases a b p) as [[E1 G1]|[[E1 G1]|[E1 G1]]]; rewrite E1 in H;
    [ | | exact (bbox_in_rect r a b p Ha Hb H)];
  (destruct (orientation_cases b c p) as [[E2 G2]|[[E2 G2]|[E2 G2]]]; rewrite E2 in H;
    [ | | exact (bbox_in_rect r b c p Hb Hc H)]);
  (destruct (orientation_cases c a p) as [[E3 G3]|[[E3 G3]|[E3 G3]]]; rewrite E3 in H;
    [ | | exact (bbox_in_rect r c a p Hc Ha H)]);
  cbn [orient_eqb andb] in H; try discriminate H; apply G; tauto.
Qed.

(* T2c for Tri.Contains: a point accepted by a triangle of the triangulation is in the corridor *)
Theorem contains_inside rects t p :
  corridor_wf rects -> In t (triangulate rects) -> tri_contains t p = true -> in_corridor rects p.
Proof.
  intros W Ht Hc. destruct (triangulate_in_rect rects t W Ht) as [r [Hr [A [B C]]]].
  exists r. split; [exact Hr|]. rewrite tri_contains_eq in Hc. exact (tc3_in_rect r _ _ _ p A B C Hc).
Qed.

(* T2c + T2e: the triangles (as Tri.Contains sees them) cover exactly the corridor *)
Corollary triangulation_exact rects p :
  corridor_wf rects -> corridor_strict rects ->
  (in_corridor rects p <-> exists t, In t (triangulate rects) /\ tri_contains t p = true).
Proof.
  intros W Hs. split.
  - intros Hp. exact (triangulate_covers rects p W Hs Hp).
  - intros [t [Ht Hc]]. exact (contains_inside rects t p W Ht Hc).
Qed.
Print Assumptions triangulation_exact.

(* ---------- non-vacuity ---------- *)
Example stair4_strict : corridor_strict stair4.
Proof.
  intros r Hr. unfold stair4 in Hr. cbn [In] in Hr.
  destruct Hr as [<-|[<-|[<-|[<-|[]]]]]; unfold rect_strict; cbn [px py fst snd r_tl r_br]; lra.
Qed.

(* a point strictly inside the third rectangle, and the bottom-right corner of the last one (outside the class) *)
Example stair4_locate :
  (In (start_tri (70, 50) stair4) (triangulate stair4) /\ tri_contains (start_tri (70, 50) stair4) (70, 50) = true) /\
  (In (start_tri (72, 80) stair4) (triangulate stair4) /\ tri_contains (start_tri (72, 80) stair4) (72, 80) = true).
Proof.
  split; apply locate_total; try exact stair4_wf; try exact stair4_strict.
  - exists (mkRect (56, 40) (96, 56)). split; [right; right; left; reflexivity|].
    unfold in_rect; cbn [px py fst snd r_tl r_br]; lra.
  - exists (mkRect (8, 56) (72, 80)). split; [right; right; right; left; reflexivity|].
    unfold in_rect; cbn [px py fst snd r_tl r_br]; lra.
Qed.
