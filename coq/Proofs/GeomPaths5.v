(* GeomPaths5.v — universal structural theorems about the corridor router (property C19), part 5:
   the panic "disconnected triangulation diagonal" (ErrIndex 64) is UNREACHABLE, for all inputs.
   T3d  [shortest_no_disconnected]   shortest p1 p2 rects <> Err (ErrIndex 64), for every p1, p2, rects (no hypothesis).
        [shortest_errors3]            the only possible failures are ErrIndex 63 (deque index), ErrIndex 66 (no triangle path)
                                      and ErrFuel 65 (cycle in the predecessor map).
   Why: the crossed diagonals form a chain of adjacency entries; an entry (i, j, side) of the dual graph is a side (up to
   seg_eqb) of the triangle numbered i and of the triangle numbered j; ids are unique; two sides of one triangle share a vertex;
   and the two ends of the deque are always the two end points of the last diagonal. *)
From Coq Require Import Lqa.
From Autog Require Import Base ListLemmas Geom GeomProofs GeomTwo GeomPaths GeomPaths2.
Local Open Scope Q_scope.

(* ================= pt_eqb / seg_eqb are equivalences ================= *)
Lemma pt_eqb_iff a b : pt_eqb a b = true <-> fst a == fst b /\ snd a == snd b.
Proof. unfold pt_eqb. rewrite andb_true_iff, !Qeq_bool_iff. tauto. Qed.

Lemma pt_eqb_sym a b : pt_eqb a b = true -> pt_eqb b a = true.
Proof. rewrite !pt_eqb_iff. intros [A B]. split; symmetry; assumption. Qed.

Lemma pt_eqb_trans a b c : pt_eqb a b = true -> pt_eqb b c = true -> pt_eqb a c = true.
Proof. rewrite !pt_eqb_iff. intros [A B] [C D]. split; [rewrite A; exact C | rewrite B; exact D]. Qed.

Lemma seg_eqb_iff s k : seg_eqb s k = true <-> pt_eqb (fst s) (fst k) = true /\ pt_eqb (snd s) (snd k) = true.
Proof. unfold seg_eqb. apply andb_true_iff. Qed.

Lemma seg_eqb_refl s : seg_eqb s s = true.
Proof. apply seg_eqb_iff. split; apply pt_eqb_refl. Qed.

Lemma seg_eqb_trans s k m : seg_eqb s k = true -> seg_eqb k m = true -> seg_eqb s m = true.
Proof. rewrite !seg_eqb_iff. intros [A B] [C D]. split; eapply pt_eqb_trans; eassumption. Qed.

(* two segments share an end point (up to pt_eqb) *)
Definition seg_ends (s : seg) : list pt := [fst s; snd s].
Definition shares (d d' : seg) : Prop :=
  exists e e', In e (seg_ends d) /\ In e' (seg_ends d') /\ pt_eqb e e' = true.

(* ================= the dual graph: every entry is a side of both triangles it names ================= *)
Definition has_side (T : tri) (s : seg) : Prop := exists k, seg_eqb s (ordered_side T k) = true.
Definition side_of_id (all : list tri) (i : nat) (s : seg) : Prop :=
  exists T, In T all /\ t_id T = i /\ has_side T s.

Lemma find_side_some s pm id : find_side s pm = Some id -> exists k, In (k, id) pm /\ seg_eqb s k = true.
Proof.
  induction pm as [|[k v] pm IH]; intros H; [discriminate H|].
  cbn [find_side] in H. destruct (seg_eqb s k) eqn:E.
  - injection H as <-. exists k. split; [left; reflexivity | exact E].
  - destruct (IH H) as [k' [Hin Hk]]. exists k'. split; [right; exact Hin | exact Hk].
Qed.

Definition dg_inv (all : list tri) (acc : list (seg * nat) * list adj_entry) : Prop :=
  (forall k o, In (k, o) (fst acc) -> side_of_id all o k) /\
  (forall i j s, In ((i, j, s) : adj_entry) (snd acc) -> side_of_id all i s /\ side_of_id all j s).

Lemma dg_step_inv all t acc k : In t all -> dg_inv all acc -> dg_inv all (dg_step t acc k).
Proof.
  intros Ht [Hpm Hadj]. destruct acc as [pm adj]. unfold dg_step. cbn [fst snd] in *.
  assert (Own : side_of_id all (t_id t) (ordered_side t k)).
  { exists t. split; [exact Ht|]. split; [reflexivity|]. exists k. apply seg_eqb_refl. }
  destruct (find_side (ordered_side t k) pm) as [id|] eqn:E.
  - split; cbn [fst snd]; [exact Hpm|].
    destruct (find_side_some _ _ _ E) as [key [Hin Hk]].
    assert (Oth : side_of_id all id (ordered_side t k)).
    { destruct (Hpm key id Hin) as [T [HT [Hid [k' Hk']]]]. exists T. split; [exact HT|]. split; [exact Hid|].
      exists k'. exact (seg_eqb_trans _ _ _ Hk Hk'). }
    intros i j s [Heq|[Heq|Hin']].
    + injection Heq as <- <- <-. split; assumption.
    + injection Heq as <- <- <-. split; assumption.
    + exact (Hadj i j s Hin').
  - split; cbn [fst snd]; [|exact Hadj].
    intros key o Hin. apply in_app_iff in Hin. destruct Hin as [Hin|[Heq|[]]].
    + exact (Hpm key o Hin).
    + injection Heq as <- <-. exact Own.
Qed.

Lemma dual_graph_entries start ts i j s :
  In ((i, j, s) : adj_entry) (dual_graph start ts) ->
  side_of_id (start :: ts) i s /\ side_of_id (start :: ts) j s.
Proof.
  rewrite dual_graph_unfold. set (all := start :: ts).
  assert (G : dg_inv all (fold_left (fun acc t => dg_step t (dg_step t (dg_step t acc 0%nat) 1%nat) 2%nat) ts
                           ([(ordered_side start 0, t_id start)], []))).
  { apply (fold_left_inv _ (dg_inv all) (fun t => In t all)).
    - intros a t Ha Ht. apply dg_step_inv; [exact Ht|]. apply dg_step_inv; [exact Ht|]. apply dg_step_inv; assumption.
    - intros t Ht. right; exact Ht.
    - split; cbn [fst snd].
      + intros k o [Heq|[]]. injection Heq as <- <-. exists start. split; [left; reflexivity|]. split; [reflexivity|].
        exists 0%nat. apply seg_eqb_refl.
      + intros i' j' s' []. }
  intros H. exact (proj2 G i j s H).
Qed.

Lemma adj_get_entry adj i j s : adj_get adj i j = Some s -> In ((i, j, s) : adj_entry) adj.
Proof.
  unfold adj_get. destruct (find _ adj) as [e|] eqn:E; [|discriminate].
  cbn [option_map]. intros H. injection H as <-. apply find_some in E. destruct E as [Hin Hb].
  apply andb_true_iff in Hb. destruct Hb as [A B]. apply Nat.eqb_eq in A, B.
  destruct e as [[i' j'] s']. cbn [fst snd] in *. subst. exact Hin.
Qed.

(* ================= the crossed diagonals form a chain of adjacency entries ================= *)
Inductive dchain (adj : list adj_entry) : nat -> nat -> list seg -> Prop :=
| dc_nil s : dchain adj s s []
| dc_cons s t e dg out : adj_get adj s t = Some dg -> dchain adj t e out -> dchain adj s e (dg :: out).

Lemma crossed_diagonals_chain nt adj : forall fuel s e visited out v,
  crossed_diagonals fuel nt adj s e visited = (Some out, v) -> dchain adj s e out.
Proof.
  induction fuel as [|f IH]; intros s e visited out v H; [discriminate H|].
  cbn [crossed_diagonals] in H. destruct (Nat.eqb s e) eqn:Ese.
  - injection H as <- _. apply Nat.eqb_eq in Ese. subst e. apply dc_nil.
  - revert H. generalize (s :: visited). generalize (iota 0 (Datatypes.S nt)).
    intros tids. induction tids as [|tid rest IHt]; intros vis H; [discriminate H|].
    destruct (adj_get adj s tid) as [dg|] eqn:Eg.
    + destruct (mem_nat tid vis).
      * exact (IHt _ H).
      * destruct (crossed_diagonals f nt adj tid e vis) as [[o|] v'] eqn:Ec.
        -- injection H as <- _. apply dc_cons with tid; [exact Eg | exact (IH _ _ _ _ _ Ec)].
        -- exact (IHt _ H).
    + exact (IHt _ H).
Qed.

(* ----- two sides of one triangle share a vertex ----- *)
Lemma ordered_side_ends T k :
  exists i j, (i < 3)%nat /\ (j < 3)%nat /\ j = ((i + 1) mod 3)%nat /\
    ((fst (ordered_side T k) = nth i (tri_pts T) (0, 0) /\ snd (ordered_side T k) = nth j (tri_pts T) (0, 0)) \/
     (fst (ordered_side T k) = nth j (tri_pts T) (0, 0) /\ snd (ordered_side T k) = nth i (tri_pts T) (0, 0))).
Proof.
  exists (k mod 3)%nat, ((k + 1) mod 3)%nat.
  assert (A : (k mod 3 < 3)%nat) by (apply Nat.mod_upper_bound; lia).
  assert (B : ((k + 1) mod 3 < 3)%nat) by (apply Nat.mod_upper_bound; lia).
  split; [exact A|]. split; [exact B|]. split.
  - rewrite Nat.add_mod_idemp_l by lia. reflexivity.
  - unfold ordered_side. cbv zeta.
    destruct (Qlt_bool _ _); [left; split; reflexivity|].
    destruct (Qlt_bool _ _); [right; split; reflexivity|].
    destruct (Qlt_bool _ _); [left | right]; split; reflexivity.
Qed.

Lemma sides_share_raw T k k' : exists e e',
  In e (seg_ends (ordered_side T k)) /\ In e' (seg_ends (ordered_side T k')) /\ e = e'.
Proof.
  destruct (ordered_side_ends T k) as [i [j [Hi [Hj [Ej H]]]]].
  destruct (ordered_side_ends T k') as [i' [j' [Hi' [Hj' [Ej' H']]]]].
  unfold seg_ends.
  assert (C : i = i' \/ i = j' \/ j = i' \/ j = j').
  { subst j j'. destruct i as [|[|[|i]]]; [| | |lia]; (destruct i' as [|[|[|i']]]; [| | |lia]); cbn; lia. }
  destruct H as [[F S]|[F S]]; destruct H' as [[F' S']|[F' S']]; rewrite F, S, F', S';
  (destruct C as [C|[C|[C|C]]];
   [ exists (nth i (tri_pts T) (0, 0)), (nth i' (tri_pts T) (0, 0))
   | exists (nth i (tri_pts T) (0, 0)), (nth j' (tri_pts T) (0, 0))
   | exists (nth j (tri_pts T) (0, 0)), (nth i' (tri_pts T) (0, 0))
   | exists (nth j (tri_pts T) (0, 0)), (nth j' (tri_pts T) (0, 0)) ]);
  cbn [In]; (split; [auto | split; [auto | rewrite C; reflexivity]]).
Qed.

Lemma has_side_shares T s s' : has_side T s -> has_side T s' -> shares s s'.
Proof.
  intros [k Hk] [k' Hk'].
  destruct (sides_share_raw T k k') as [e [e' [He [He' Eq]]]]. subst e'.
  apply seg_eqb_iff in Hk, Hk'. destruct Hk as [A B], Hk' as [A' B'].
  unfold seg_ends in He, He'. cbn [In] in He, He'.
  unfold shares, seg_ends.
  destruct He as [<-|[<-|[]]]; destruct He' as [E|[E|[]]].
  - exists (fst s), (fst s'). cbn [In]. split; [tauto|]. split; [tauto|].
    eapply pt_eqb_trans; [exact A|]. rewrite E in A'. apply pt_eqb_sym. exact A'.
  - exists (fst s), (snd s'). cbn [In]. split; [tauto|]. split; [tauto|].
    eapply pt_eqb_trans; [exact A|]. rewrite E in B'. apply pt_eqb_sym. exact B'.
  - exists (snd s), (fst s'). cbn [In]. split; [tauto|]. split; [tauto|].
    eapply pt_eqb_trans; [exact B|]. rewrite E in A'. apply pt_eqb_sym. exact A'.
  - exists (snd s), (snd s'). cbn [In]. split; [tauto|]. split; [tauto|].
    eapply pt_eqb_trans; [exact B|]. rewrite E in B'. apply pt_eqb_sym. exact B'.
Qed.

(* consecutive elements of a list *)
Fixpoint chain_shares (l : list seg) : Prop :=
  match l with
  | d :: ((d' :: _) as t) => shares d d' /\ chain_shares t
  | _ => True
  end.

Definition ids_unique (all : list tri) : Prop := forall T T', In T all -> In T' all -> t_id T = t_id T' -> T = T'.

Lemma dchain_shares all adj :
  ids_unique all ->
  (forall i j s, In ((i, j, s) : adj_entry) adj -> side_of_id all i s /\ side_of_id all j s) ->
  forall s e out, dchain adj s e out ->
    chain_shares out /\ (forall d, hd_error out = Some d -> side_of_id all s d).
Proof.
  intros Hu Hadj s e out H. induction H as [s | s t e dg out Eg Hc IH].
  - split; [exact I | intros d Hd; discriminate Hd].
  - apply adj_get_entry in Eg. destruct (Hadj _ _ _ Eg) as [Hs Ht].
    split; [|intros d Hd; injection Hd as <-; exact Hs].
    destruct IH as [IH1 IH2]. destruct out as [|d' out']; [exact I|].
    cbn [chain_shares]. split; [|exact IH1].
    destruct Ht as [T [HT [Hid HsT]]]. destruct (IH2 d' eq_refl) as [T' [HT' [Hid' HsT']]].
    assert (T = T') by (apply Hu; [exact HT | exact HT' | congruence]). subst T'.
    exact (has_side_shares T dg d' HsT HsT').
Qed.

Lemma chain_shares_snoc : forall l x y,
  chain_shares (x :: l) -> shares (last (x :: l) x) y -> chain_shares ((x :: l) ++ [y]).
Proof.
  induction l as [|z l IH]; intros x y H Hs.
  - cbn [app chain_shares last] in *. tauto.
  - change ((x :: z :: l) ++ [y]) with (x :: ((z :: l) ++ [y])).
    cbn [chain_shares] in H. destruct H as [H1 H2].
    change (chain_shares (x :: (z :: l) ++ [y])) with (shares x z /\ chain_shares ((z :: l) ++ [y])).
    split; [exact H1|]. apply IH; [exact H2|].
    change (last (x :: z :: l) x) with (last (z :: l) x) in Hs.
    rewrite (RealLength.last_default_irrelevant z l z x). exact Hs.
Qed.

(* ================= the two ends of the deque are the end points of the last diagonal ================= *)
Lemma shrink_left_b apex v : forall fuel d d',
  shrink_left fuel d apex v = Ok d' -> dq_b d' = dq_b d /\ dq_data d' = dq_data d.
Proof.
  induction fuel as [|f IH]; intros d d' H.
  - cbn [shrink_left] in H. destruct (outside_left d apex v); [|discriminate]. injection H as <-. tauto.
  - rewrite shrink_left_S in H. destruct (outside_left d apex v).
    + injection H as <-. tauto.
    + apply IH in H. cbn [dq_b dq_data] in H. exact H.
Qed.
Lemma shrink_right_f apex v : forall fuel d d',
  shrink_right fuel d apex v = Ok d' -> dq_f d' = dq_f d /\ dq_data d' = dq_data d.
Proof.
  induction fuel as [|f IH]; intros d d' H.
  - cbn [shrink_right] in H. destruct (outside_right d apex v); [|discriminate]. injection H as <-. tauto.
  - rewrite shrink_right_S in H. destruct (outside_right d apex v).
    + injection H as <-. tauto.
    + apply IH in H. cbn [dq_f dq_data] in H. exact H.
Qed.

Lemma peek_front_push_front d v :
  (0 <= dq_f d - 1 < Z.of_nat (length (dq_data d)))%Z -> peek_front (push_front d v) 1 = v.
Proof.
  intros H. unfold peek_front, push_front, dq_get, set_nth. cbn [dq_f dq_data].
  replace (dq_f d - 1 + 1 - 1)%Z with (dq_f d - 1)%Z by lia. apply nth_upd_same. lia.
Qed.
Lemma peek_back_push_front d v :
  (0 <= dq_f d - 1)%Z -> (dq_f d <= dq_b d)%Z -> peek_back (push_front d v) 1 = peek_back d 1.
Proof.
  intros H1 H2. unfold peek_back, push_front, dq_get, set_nth. cbn [dq_b dq_data]. apply nth_upd_other. lia.
Qed.
Lemma peek_back_push_back d v :
  (0 <= dq_b d + 1 < Z.of_nat (length (dq_data d)))%Z -> peek_back (push_back d v) 1 = v.
Proof.
  intros H. unfold peek_back, push_back, dq_get, set_nth. cbn [dq_b dq_data].
  replace (dq_b d + 1 - 1 + 1)%Z with (dq_b d + 1)%Z by lia. apply nth_upd_same. lia.
Qed.
Lemma peek_front_push_back d v :
  (0 <= dq_f d)%Z -> (dq_f d <= dq_b d)%Z -> peek_front (push_back d v) 1 = peek_front d 1.
Proof.
  intros H1 H2. unfold peek_front, push_back, dq_get, set_nth. cbn [dq_f dq_data]. apply nth_upd_other. lia.
Qed.

Definition ends_ok (d : deque) (prev : seg) : Prop :=
  (pt_eqb (peek_front d 1) (fst prev) = true /\ pt_eqb (peek_back d 1) (snd prev) = true) \/
  (pt_eqb (peek_front d 1) (snd prev) = true /\ pt_eqb (peek_back d 1) (fst prev) = true).

Lemma common_vertex_cases prev cur : common_vertex prev cur = fst cur \/ common_vertex prev cur = snd cur.
Proof. unfold common_vertex. destruct (_ || _); tauto. Qed.

(* the common vertex is at one end of the deque *)
Lemma common_vertex_at_end d prev cur :
  ends_ok d prev -> shares prev cur ->
  pt_eqb (peek_back d 1) (common_vertex prev cur) = true \/ pt_eqb (peek_front d 1) (common_vertex prev cur) = true.
Proof.
  intros He Hs. unfold common_vertex.
  destruct (pt_eqb (fst prev) (fst cur)) eqn:E1; [|destruct (pt_eqb (snd prev) (fst cur)) eqn:E2]; cbn [orb].
  - destruct He as [[A B]|[A B]]; [right | left]; eapply pt_eqb_trans; eassumption.
  - destruct He as [[A B]|[A B]]; [left | right]; eapply pt_eqb_trans; eassumption.
  - destruct Hs as [e [e' [He1 [He2 Hee]]]]. unfold seg_ends in He1, He2. cbn [In] in He1, He2.
    destruct He2 as [<-|[<-|[]]].
    + destruct He1 as [<-|[<-|[]]]; congruence.
    + destruct He1 as [<-|[<-|[]]]; destruct He as [[A B]|[A B]];
        first [ left; eapply pt_eqb_trans; eassumption | right; eapply pt_eqb_trans; eassumption ].
Qed.

(* after the push: the retained end y (== c) and the new end v = seg_other cur c are the two end points of cur *)
Lemma new_ends cur c y :
  c = fst cur \/ c = snd cur -> pt_eqb y c = true ->
  (pt_eqb (seg_other cur c) (fst cur) = true /\ pt_eqb y (snd cur) = true) \/
  (pt_eqb (seg_other cur c) (snd cur) = true /\ pt_eqb y (fst cur) = true).
Proof.
  intros Hc Hy. unfold seg_other. destruct Hc as [->| ->].
  - rewrite pt_eqb_refl. right. split; [apply pt_eqb_refl | exact Hy].
  - destruct (pt_eqb (fst cur) (snd cur)) eqn:E.
    + left. split; [apply pt_eqb_sym; exact E | exact Hy].
    + left. split; [apply pt_eqb_refl | exact Hy].
Qed.

Notation dq_okT := (dq_ok (fun _ : pt => True)).

Lemma funnel_no64 : forall dl prev d apex pm e,
  chain_shares (prev :: dl) -> ends_ok d prev -> dq_okT d ->
  funnel dl prev d apex pm = Err e -> e = ErrIndex 63.
Proof.
  induction dl as [|cur rest IH]; intros prev d apex pm e Hch He Hd H.
  - rewrite funnel_nil in H. discriminate H.
  - rewrite funnel_cons in H. cbv zeta in H.
    change (chain_shares (prev :: cur :: rest)) with (shares prev cur /\ chain_shares (cur :: rest)) in Hch.
    destruct Hch as [Hs Hch].
    pose proof (common_vertex_at_end d prev cur He Hs) as Hc.
    pose proof (common_vertex_cases prev cur) as Hcc.
    set (c := common_vertex prev cur) in *. set (v := seg_other cur c) in *.
    destruct (pt_eqb (peek_back d 1) c) eqn:Eb.
    + destruct (shrink_left_total apex v _ d (dq_ok_len _ d Hd)) as [d1 Es]. rewrite Es in H. cbn [bind] in H.
      destruct (shrink_left_ok (fun _ => True) (fun _ => True) _ _ _ _ _ Hd Es) as [Hd1 _].
      destruct (shrink_left_b _ _ _ _ _ Es) as [Eb1 Ed1].
      destruct (negb (dq_in d1 (dq_f d1 - 1))) eqn:Ein; [injection H as <-; reflexivity|].
      apply negb_false_iff in Ein. apply dq_in_true in Ein.
      destruct Hd1 as [[H0 [H1 [H2 H3]]] H4].
      eapply IH; [exact Hch | | | exact H].
      * unfold ends_ok. rewrite (peek_front_push_front d1 v Ein), (peek_back_push_front d1 v) by lia.
        assert (Epb : peek_back d1 1 = peek_back d 1) by (unfold peek_back, dq_get; rewrite Eb1, Ed1; reflexivity).
        rewrite Epb. exact (new_ends cur c _ Hcc Eb).
      * apply push_front_wk; [repeat split; assumption | lia | exact I].
    + destruct Hc as [Hc|Hc]; [congruence|]. rewrite Hc in H.
      destruct (shrink_right_total apex v _ d (dq_ok_len _ d Hd)) as [d1 Es]. rewrite Es in H. cbn [bind] in H.
      destruct (shrink_right_ok (fun _ => True) (fun _ => True) _ _ _ _ _ Hd Es) as [Hd1 _].
      destruct (shrink_right_f _ _ _ _ _ Es) as [Ef1 Ed1].
      destruct (negb (dq_in d1 (dq_b d1 + 1))) eqn:Ein; [injection H as <-; reflexivity|].
      apply negb_false_iff in Ein. apply dq_in_true in Ein.
      destruct Hd1 as [[H0 [H1 [H2 H3]]] H4].
      eapply IH; [exact Hch | | | exact H].
      * unfold ends_ok. rewrite (peek_back_push_back d1 v Ein), (peek_front_push_back d1 v) by lia.
        assert (Epf : peek_front d1 1 = peek_front d 1) by (unfold peek_front, dq_get; rewrite Ef1, Ed1; reflexivity).
        rewrite Epf. destruct (new_ends cur c _ Hcc Hc) as [[A B]|[A B]]; [right | left]; tauto.
      * apply push_back_wk; [repeat split; assumption | lia | exact I].
Qed.

(* ================= the initial deque ================= *)
Lemma init_dq_ends n p1 d0 : (1 <= n)%nat -> ends_ok (init_dq n p1 d0) d0.
Proof.
  intros Hn. unfold init_dq. cbv zeta.
  set (dq0 := mkDq (repeat (0, 0) (2 * (2 * n))) (Z.of_nat (2 * n)) (Z.of_nat (2 * n) - 1)).
  assert (L0 : length (dq_data dq0) = (2 * (2 * n))%nat) by (unfold dq0; cbn [dq_data]; apply repeat_length).
  assert (PL : forall d z, length (dq_data (push_front d z)) = length (dq_data d))
    by (intros d z; unfold push_front, set_nth; cbn [dq_data]; apply upd_length).
  assert (G : forall x y, peek_front (push_back (push_front (push_front dq0 p1) x) y) 1 = x /\
                          peek_back (push_back (push_front (push_front dq0 p1) x) y) 1 = y).
  { intros x y. split.
    - rewrite peek_front_push_back; [| unfold dq0; cbn [dq_f push_front]; lia | unfold dq0; cbn [dq_f dq_b push_front]; lia].
      apply peek_front_push_front. rewrite PL, L0. unfold dq0. cbn [dq_f push_front]. lia.
    - apply peek_back_push_back. rewrite !PL, L0. unfold dq0. cbn [dq_b push_front]. lia. }
  unfold ends_ok.
  destruct (orientation p1 (fst d0) (snd d0)).
  - destruct (G (fst d0) (snd d0)) as [-> ->]. left. split; apply pt_eqb_refl.
  - destruct (G (snd d0) (fst d0)) as [-> ->]. right. split; apply pt_eqb_refl.
  - destruct (G (snd d0) (fst d0)) as [-> ->]. right. split; apply pt_eqb_refl.
Qed.

(* ================= unique ids ================= *)
Lemma start_tri_cases p rects : start_tri p rects = tri0 \/ In (start_tri p rects) (triangulate rects).
Proof.
  unfold start_tri. generalize (triangulate rects). intros ts.
  assert (G : forall l s, (s = tri0 \/ In s ts) -> (forall t, In t l -> In t ts) ->
              fold_left (fun s t => if tri_contains t p then t else s) l s = tri0 \/
              In (fold_left (fun s t => if tri_contains t p then t else s) l s) ts).
  { induction l as [|x l IH]; intros s Hs Hsub; [exact Hs|].
    cbn [fold_left]. apply IH; [|intros t Ht; apply Hsub; right; exact Ht].
    destruct (tri_contains x p); [right; apply Hsub; left; reflexivity | exact Hs]. }
  apply G; [left; reflexivity | tauto].
Qed.

Lemma triangulate_ids_unique rects : ids_unique (triangulate rects).
Proof.
  intros T T' HT HT' E. apply triangulate_In in HT, HT'.
  destruct HT as [k [Hk [E1 E2]]], HT' as [k' [Hk' [E1' E2']]].
  assert (k = k') by lia. subst k'. rewrite <- E1' in E1.
  destruct T as [i a b c], T' as [i' a' b' c']. unfold tri_triple in E1. cbn [t_a t_b t_c t_id] in *.
  injection E1 as -> -> ->. congruence.
Qed.

Lemma start_ids_unique p rects : ids_unique (start_tri p rects :: triangulate rects).
Proof.
  assert (Z0 : forall T, In T (triangulate rects) -> t_id T <> 0%nat).
  { intros T HT. apply triangulate_In in HT. destruct HT as [k [_ [_ E]]]. lia. }
  pose proof (triangulate_ids_unique rects) as U.
  destruct (start_tri_cases p rects) as [E|Hin].
  - rewrite E. intros T T' [<-|HT] [<-|HT'] Eid.
    + reflexivity.
    + exfalso. apply (Z0 T' HT'). symmetry. exact Eid.
    + exfalso. apply (Z0 T HT). exact Eid.
    + exact (U T T' HT HT' Eid).
  - intros T T' HT HT' Eid. apply U; [destruct HT as [<-|HT]; assumption | destruct HT' as [<-|HT']; assumption | exact Eid].
Qed.

(* ================= the theorems ================= *)
Lemma diagonals_chain_shares p1 rects fuel nt s e d0 drest p2 :
  fst (crossed_diagonals fuel nt (dual_graph (start_tri p1 rects) (triangulate rects)) s e []) = Some (d0 :: drest) ->
  chain_shares ((d0 :: drest) ++ [last_diag p2 d0 drest]).
Proof.
  destruct (crossed_diagonals _ _ _ _ _ _) as [o v] eqn:E. cbn [fst]. intros ->.
  apply crossed_diagonals_chain in E.
  destruct (dchain_shares (start_tri p1 rects :: triangulate rects) _ (start_ids_unique p1 rects)
              (dual_graph_entries (start_tri p1 rects) (triangulate rects)) _ _ _ E) as [Hc _].
  apply chain_shares_snoc; [exact Hc|].
  unfold last_diag, shares, seg_ends. exists (fst (last (d0 :: drest) d0)), (fst (last (d0 :: drest) d0)).
  cbn [fst snd In]. split; [tauto|]. split; [tauto|]. apply pt_eqb_refl.
Qed.

Lemma tail_no64 p1 p2 n d0 drest e :
  (1 <= n)%nat -> chain_shares ((d0 :: drest) ++ [last_diag p2 d0 drest]) ->
  shortest_tail p1 p2 n d0 drest = Err e -> e = ErrIndex 63 \/ e = ErrFuel 65.
Proof.
  intros Hn Hch. unfold shortest_tail. intros H.
  destruct (funnel _ d0 _ _ []) as [pm|e'] eqn:Ef.
  - cbn [bind] in H. destruct (walk_pred _ pm p2 []) as [wp|e''] eqn:Ew; [discriminate H|].
    cbn [bind] in H. injection H as <-. right. exact (walk_pred_errors _ _ _ _ _ Ew).
  - cbn [bind] in H. injection H as <-. left.
    refine (funnel_no64 _ _ _ _ _ _ Hch (init_dq_ends n p1 d0 Hn) _ Ef).
    exact (init_dq_ok (fun _ => True) n p1 d0 Hn I I I).
Qed.

(* T3d: the panic "disconnected triangulation diagonal" is unreachable, and the shrink loops never exhaust their fuel:
   whatever the input, the router can only fail with a deque index out of range (63), no triangle path (66), or a cycle in the
   predecessor map (65) *)
Theorem shortest_errors3 p1 p2 rects e :
  shortest p1 p2 rects = Err e -> e = ErrIndex 63 \/ e = ErrIndex 66 \/ e = ErrFuel 65.
Proof.
  rewrite shortest_unfold. cbv zeta. intros H.
  destruct (Nat.eqb _ _); [discriminate H|].
  destruct (fst (crossed_diagonals _ _ _ _ _ _)) as [[|d0 drest]|] eqn:E;
    [injection H as <-; tauto | | injection H as <-; tauto].
  destruct (diagonals_facts _ _ _ _ _ _ _ _ E) as [Hn _].
  pose proof (diagonals_chain_shares _ _ _ _ _ _ _ _ p2 E) as Hch.
  destruct (tail_no64 _ _ _ _ _ _ Hn Hch H) as [->| ->]; tauto.
Qed.
Print Assumptions shortest_errors3.

Corollary shortest_no_disconnected p1 p2 rects : shortest p1 p2 rects <> Err (ErrIndex 64).
Proof. intros H. destruct (shortest_errors3 _ _ _ _ H) as [E|[E|E]]; discriminate E. Qed.
Print Assumptions shortest_no_disconnected.

(* the three remaining failures do happen (outside the router's class): the bound is sharp *)
Example err63_happens : shortest (10, 6) (3, 0) [mkRect (0, 0) (10, 6)] = Err (ErrIndex 63).
Proof. vm_compute. reflexivity. Qed.
Example err65_happens : shortest (3, 0) (10, 6) [mkRect (0, 0) (10, 6)] = Err (ErrFuel 65).
Proof. vm_compute. reflexivity. Qed.
(* ErrIndex 66 on a corridor that is not well-formed (two rectangles that do not touch) *)
Example err66_happens : shortest (1, 1) (21, 21) [mkRect (0, 0) (2, 2); mkRect (20, 20) (22, 22)] = Err (ErrIndex 66).
Proof. vm_compute. reflexivity. Qed.
