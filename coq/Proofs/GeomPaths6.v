(* GeomPaths6.v — universal structural theorems about the corridor router (property C19), part 6:
   the depth-first search [crossed_diagonals] is COMPLETE, and triangles that share a side are connected in the dual graph.
   [dfs_complete]      if the stop id is reachable from the start id in the graph of adjacency entries (all ids <= nt), then
                       [crossed_diagonals (S nt) nt adj s e []] returns Some list of diagonals.
   [shared_side_conn]  two triangles of ts having a side in common (up to seg_eqb) are connected in [dual_graph start ts]. *)
From Coq Require Import Lqa.
From Autog Require Import Base ListLemmas Geom GeomProofs GeomTwo GeomPaths GeomPaths2 GeomPaths5.
Local Open Scope nat_scope.

(* ================= the search, with its inner loop named ================= *)
Fixpoint cd_loop (rec : nat -> list nat -> option (list seg) * list nat) (adj : list adj_entry) (s : nat)
  (tids : list nat) (visited : list nat) : option (list seg) * list nat :=
  match tids with
  | [] => (None, visited)
  | tid :: rest =>
      match adj_get adj s tid with
      | Some dg =>
          if mem_nat tid visited then cd_loop rec adj s rest visited else
          match rec tid visited with
          | (Some out, v) => (Some (dg :: out), v)
          | (None, v) => cd_loop rec adj s rest v
          end
      | None => cd_loop rec adj s rest visited
      end
  end.

Lemma crossed_diagonals_S f nt adj s e visited :
  crossed_diagonals (S f) nt adj s e visited =
  if Nat.eqb s e then (Some [], visited)
  else cd_loop (fun tid v => crossed_diagonals f nt adj tid e v) adj s (iota 0 (S nt)) (s :: visited).
Proof.
  cbn [crossed_diagonals]. destruct (Nat.eqb s e); [reflexivity|].
  generalize (s :: visited). generalize (iota 0 (S nt)).
  induction l as [|tid rest IH]; intros vis; [reflexivity|].
  cbn [cd_loop]. destruct (adj_get adj s tid); [|apply IH].
  destruct (mem_nat tid vis); [apply IH|].
  destruct (crossed_diagonals f nt adj tid e vis) as [[o|] v]; [reflexivity | apply IH].
Qed.

Lemma mem_nat_true x l : mem_nat x l = true <-> In x l.
Proof.
  unfold mem_nat. rewrite existsb_exists. split.
  - intros [y [Hy E]]. apply Nat.eqb_eq in E. subst y. exact Hy.
  - intros H. exists x. split; [exact H | apply Nat.eqb_refl].
Qed.
Lemma mem_nat_false x l : mem_nat x l = false <-> ~ In x l.
Proof.
  split.
  - intros H Hin. apply mem_nat_true in Hin. congruence.
  - intros H. destruct (mem_nat x l) eqn:E; [|reflexivity]. apply mem_nat_true in E. contradiction.
Qed.

(* ---------- counting unvisited nodes ---------- *)
Lemma filter_le {A} (f g : A -> bool) l :
  (forall x, In x l -> f x = true -> g x = true) -> length (filter f l) <= length (filter g l).
Proof.
  induction l as [|x l IH]; intros H; [cbn; lia|].
  assert (IH' : length (filter f l) <= length (filter g l)) by (apply IH; intros y Hy; apply H; right; exact Hy).
  cbn [filter]. destruct (f x) eqn:Ef.
  - rewrite (H x (or_introl eq_refl) Ef). cbn [length]. lia.
  - destruct (g x); cbn [length]; lia.
Qed.

Lemma filter_lt {A} (f g : A -> bool) l x :
  (forall y, In y l -> f y = true -> g y = true) -> In x l -> f x = false -> g x = true ->
  length (filter f l) < length (filter g l).
Proof.
  induction l as [|y l IH]; intros H Hx Hf Hg; [destruct Hx|].
  assert (Hl : forall z, In z l -> f z = true -> g z = true) by (intros z Hz; apply H; right; exact Hz).
  cbn [filter]. destruct Hx as [->|Hx].
  - rewrite Hf, Hg. cbn [length]. pose proof (filter_le f g l Hl). lia.
  - specialize (IH Hl Hx Hf Hg). destruct (f y) eqn:Ef.
    + rewrite (H y (or_introl eq_refl) Ef). cbn [length]. lia.
    + destruct (g y); cbn [length]; lia.
Qed.

Section DFS.
  Variables (nt : nat) (adj : list adj_entry) (e : nat).

  Definition nodes : list nat := iota 0 (S nt).
  Definition unv (V : list nat) : nat := length (filter (fun x => negb (mem_nat x V)) nodes).
  Definition edge (i j : nat) : Prop := adj_get adj i j <> None.

  Lemma in_nodes x : In x nodes <-> x <= nt.
  Proof. unfold nodes. rewrite in_iota. lia. Qed.

  Lemma unv_mono V V' : incl V V' -> unv V' <= unv V.
  Proof.
    intros H. unfold unv. apply filter_le. intros x _ Hx.
    apply negb_true_iff in Hx. apply negb_true_iff. apply mem_nat_false in Hx. apply mem_nat_false.
    intros Hin. apply Hx. apply H. exact Hin.
  Qed.

  Lemma unv_cons s V : s <= nt -> ~ In s V -> unv (s :: V) < unv V.
  Proof.
    intros Hs Hn. unfold unv. apply filter_lt with s.
    - intros x _ Hx. apply negb_true_iff in Hx. apply negb_true_iff. apply mem_nat_false in Hx. apply mem_nat_false.
      intros Hin. apply Hx. right. exact Hin.
    - apply in_nodes. exact Hs.
    - apply negb_false_iff. apply mem_nat_true. left. reflexivity.
    - apply negb_true_iff. apply mem_nat_false. exact Hn.
  Qed.

  (* what a failed search leaves behind: every newly visited node is not the target and has all its neighbours visited *)
  Definition closed_new (V V' : list nat) : Prop :=
    forall u, In u V' -> ~ In u V -> u <> e /\ forall w, edge u w -> w <= nt -> In w V'.

  Lemma closed_new_trans V V1 V' : incl V V1 -> incl V1 V' -> closed_new V V1 -> closed_new V1 V' -> closed_new V V'.
  Proof.
    intros I1 I2 C1 C2 u Hu Hn.
    destruct (in_dec Nat.eq_dec u V1) as [Hin|Hout].
    - destruct (C1 u Hin Hn) as [A B]. split; [exact A|]. intros w Hw Hwn. apply I2. exact (B w Hw Hwn).
    - exact (C2 u Hu Hout).
  Qed.

  Lemma cd_none : forall fuel s V V',
    crossed_diagonals fuel nt adj s e V = (None, V') -> s <= nt -> ~ In s V -> unv V <= fuel ->
    incl V V' /\ In s V' /\ closed_new V V'.
  Proof.
    induction fuel as [|f IH]; intros s V V' H Hs Hn Hf.
    - exfalso. pose proof (unv_cons s V Hs Hn). lia.
    - rewrite crossed_diagonals_S in H. destruct (Nat.eqb s e) eqn:Ese; [discriminate H|].
      apply Nat.eqb_neq in Ese.
      assert (Hf1 : unv (s :: V) <= f) by (pose proof (unv_cons s V Hs Hn); lia).
      (* the inner loop *)
      assert (L : forall tids V1 V2,
                 cd_loop (fun tid v => crossed_diagonals f nt adj tid e v) adj s tids V1 = (None, V2) ->
                 incl tids nodes -> unv V1 <= f ->
                 incl V1 V2 /\ closed_new V1 V2 /\ (forall tid, In tid tids -> edge s tid -> In tid V2)).
      { induction tids as [|tid rest IHt]; intros V1 V2 HL Hsub Hf'.
        - cbn [cd_loop] in HL. injection HL as <-. split; [apply incl_refl|]. split.
          + intros u Hu Hnu. contradiction.
          + intros tid [].
        - assert (Hsub' : incl rest nodes) by (intros x Hx; apply Hsub; right; exact Hx).
          assert (Htid : tid <= nt) by (apply in_nodes; apply Hsub; left; reflexivity).
          cbn [cd_loop] in HL. destruct (adj_get adj s tid) as [dg|] eqn:Eg.
          + destruct (mem_nat tid V1) eqn:Em.
            * destruct (IHt _ _ HL Hsub' Hf') as [A [B C]]. split; [exact A|]. split; [exact B|].
              intros t [<-|Ht] He; [apply A; apply mem_nat_true; exact Em | exact (C t Ht He)].
            * apply mem_nat_false in Em.
              destruct (crossed_diagonals f nt adj tid e V1) as [[o|] v] eqn:Ec; [discriminate HL|].
              destruct (IH _ _ _ Ec Htid Em Hf') as [A1 [B1 C1]].
              assert (Hfv : unv v <= f) by (pose proof (unv_mono V1 v A1); lia).
              destruct (IHt _ _ HL Hsub' Hfv) as [A [B C]].
              split; [intros x Hx; apply A; apply A1; exact Hx|]. split.
              -- exact (closed_new_trans V1 v V2 A1 A C1 B).
              -- intros t [<-|Ht] He; [apply A; exact B1 | exact (C t Ht He)].
          + destruct (IHt _ _ HL Hsub' Hf') as [A [B C]]. split; [exact A|]. split; [exact B|].
            intros t [<-|Ht] He; [exfalso; apply He; exact Eg | exact (C t Ht He)]. }
      destruct (L _ _ _ H (incl_refl _) Hf1) as [A [B C]].
      split; [intros x Hx; apply A; right; exact Hx|]. split; [apply A; left; reflexivity|].
      intros u Hu Hnu. destruct (Nat.eq_dec u s) as [->|Hus].
      * split; [exact Ese|]. intros w Hw Hwn. apply C; [apply in_nodes; exact Hwn | exact Hw].
      * apply B; [exact Hu|]. intros [Heq|Hin]; [congruence | contradiction].
  Qed.

  Inductive gpath : nat -> nat -> Prop :=
  | gp_refl u : gpath u u
  | gp_step u w z : edge u w -> w <= nt -> gpath w z -> gpath u z.

  Lemma gpath_trans u w z : gpath u w -> gpath w z -> gpath u z.
  Proof. intros H1 H2. induction H1 as [u|u w' z' He Hw H IH]; [exact H2|]. apply gp_step with w'; [exact He | exact Hw | exact (IH H2)]. Qed.

  Theorem dfs_complete s :
    s <= nt -> gpath s e -> exists out v, crossed_diagonals (S nt) nt adj s e [] = (Some out, v).
  Proof.
    intros Hs Hp.
    destruct (crossed_diagonals (S nt) nt adj s e []) as [[out|] v] eqn:E; [exists out, v; reflexivity|].
    exfalso.
    assert (Hu : unv [] <= S nt).
    { unfold unv. etransitivity; [apply filter_le with (g := fun _ => true); intros; reflexivity|].
      assert (F : forall l : list nat, filter (fun _ => true) l = l) by (induction l as [|x l IHl]; [reflexivity | cbn; rewrite IHl; reflexivity]).
      rewrite F. unfold nodes. rewrite iota_length. lia. }
    destruct (cd_none _ _ _ _ E Hs (fun H => H) Hu) as [_ [Hin Hc]].
    assert (G : forall u z, gpath u z -> z = e -> In u v -> False).
    { intros u z Hg. induction Hg as [u | u w z He Hw Hg IH]; intros Ez Hu'.
      - destruct (Hc u Hu' (fun H => H)) as [Ne _]. congruence.
      - destruct (Hc u Hu' (fun H => H)) as [_ Hcl]. apply (IH Ez). exact (Hcl w He Hw). }
    exact (G s e Hp eq_refl Hin).
  Qed.
End DFS.

(* ================= triangles sharing a side are connected in the dual graph ================= *)
Lemma seg_eqb_sym s k : seg_eqb s k = true -> seg_eqb k s = true.
Proof. rewrite !seg_eqb_iff. intros [A B]. split; apply pt_eqb_sym; assumption. Qed.

Lemma find_side_eqv s s' pm : seg_eqb s s' = true -> find_side s pm = find_side s' pm.
Proof.
  intros E. induction pm as [|[k v] pm IH]; [reflexivity|].
  cbn [find_side]. rewrite IH.
  assert (Ek : seg_eqb s k = seg_eqb s' k).
  { destruct (seg_eqb s k) eqn:E1; destruct (seg_eqb s' k) eqn:E2; try reflexivity.
    - rewrite (seg_eqb_trans _ _ _ (seg_eqb_sym _ _ E) E1) in E2. discriminate.
    - rewrite (seg_eqb_trans _ _ _ E E2) in E1. discriminate. }
  rewrite Ek. reflexivity.
Qed.

Lemma find_side_app_some s pm x o : find_side s pm = Some o -> find_side s (pm ++ x) = Some o.
Proof.
  induction pm as [|[k v] pm IH]; intros H; [discriminate H|].
  cbn [find_side app] in *. destruct (seg_eqb s k); [exact H | exact (IH H)].
Qed.

Lemma find_side_app_none s pm v : find_side s pm = None -> find_side s (pm ++ [(s, v)]) = Some v.
Proof.
  induction pm as [|[k w] pm IH]; intros H.
  - cbn [find_side app]. rewrite seg_eqb_refl. reflexivity.
  - cbn [find_side app] in *. destruct (seg_eqb s k); [discriminate H | exact (IH H)].
Qed.

Definition has_entry (adj : list adj_entry) (i j : nat) : Prop := exists s, In ((i, j, s) : adj_entry) adj.

Lemma has_entry_edge adj i j : has_entry adj i j -> edge adj i j.
Proof.
  intros [s Hin]. unfold edge, adj_get.
  destruct (find (fun e : adj_entry => Nat.eqb (fst (fst e)) i && Nat.eqb (snd (fst e)) j) adj) as [x|] eqn:E; [discriminate|].
  exfalso. pose proof (find_none _ _ E _ Hin) as H. cbn [fst snd] in H. rewrite !Nat.eqb_refl in H. discriminate H.
Qed.

Definition dg_state (start : tri) (ts : list tri) : list (seg * nat) * list adj_entry :=
  fold_left (fun acc t => dg_step t (dg_step t (dg_step t acc 0) 1) 2) ts ([(ordered_side start 0, t_id start)], []).

Lemma dual_graph_state start ts : dual_graph start ts = snd (dg_state start ts).
Proof. apply dual_graph_unfold. Qed.

Lemma dg_state_inv start ts : dg_inv (start :: ts) (dg_state start ts).
Proof.
  unfold dg_state. apply (fold_left_inv _ (dg_inv (start :: ts)) (fun t => In t (start :: ts))).
  - intros a t Ha Ht. apply dg_step_inv; [exact Ht|]. apply dg_step_inv; [exact Ht|]. apply dg_step_inv; assumption.
  - intros t Ht. right; exact Ht.
  - split; cbn [fst snd].
    + intros k o [Heq|[]]. injection Heq as <- <-. exists start. split; [left; reflexivity|]. split; [reflexivity|].
      exists 0. apply seg_eqb_refl.
    + intros i' j' s' [].
Qed.

(* side k of T is registered: its first owner o is T itself or is linked to T both ways *)
Definition linked_at (acc : list (seg * nat) * list adj_entry) (T : tri) (k : nat) : Prop :=
  exists o, find_side (ordered_side T k) (fst acc) = Some o /\
            (o = t_id T \/ (has_entry (snd acc) o (t_id T) /\ has_entry (snd acc) (t_id T) o)).

Lemma dg_step_stable t acc k T k' : linked_at acc T k' -> linked_at (dg_step t acc k) T k'.
Proof.
  intros [o [Hf Ho]]. destruct acc as [pm adj]. unfold dg_step. cbn [fst snd] in *.
  destruct (find_side (ordered_side t k) pm) as [id|].
  - exists o. cbn [fst snd]. split; [exact Hf|].
    destruct Ho as [Ho|[[s1 H1] [s2 H2]]]; [left; exact Ho|]. right. split; [exists s1 | exists s2]; right; right; assumption.
  - exists o. cbn [fst snd]. split; [apply find_side_app_some; exact Hf | exact Ho].
Qed.

Lemma dg_step_new t acc k : linked_at (dg_step t acc k) t k.
Proof.
  destruct acc as [pm adj]. unfold linked_at, dg_step.
  destruct (find_side (ordered_side t k) pm) as [id|] eqn:E; cbn [fst snd].
  - exists id. split; [exact E|]. right. split.
    + exists (ordered_side t k). left. reflexivity.
    + exists (ordered_side t k). right. left. reflexivity.
  - exists (t_id t). split; [apply find_side_app_none; exact E | left; reflexivity].
Qed.

Lemma ordered_side_mod t k : ordered_side t k = ordered_side t (k mod 3).
Proof.
  unfold ordered_side. rewrite Nat.mod_mod by lia. rewrite (Nat.add_mod_idemp_l k 1 3) by lia. reflexivity.
Qed.

Lemma linked_at_mod acc T k : linked_at acc T (k mod 3) -> linked_at acc T k.
Proof. unfold linked_at. rewrite <- ordered_side_mod. tauto. Qed.

Lemma dg_state_linked start ts T k : In T ts -> linked_at (dg_state start ts) T k.
Proof.
  intros HT. apply linked_at_mod.
  assert (Hk : k mod 3 < 3) by (apply Nat.mod_upper_bound; lia). revert Hk. generalize (k mod 3). clear k. intros k Hk.
  unfold dg_state.
  assert (G : forall l acc, (In T l \/ (forall j, j < 3 -> linked_at acc T j)) ->
              forall j, j < 3 -> linked_at (fold_left (fun acc t => dg_step t (dg_step t (dg_step t acc 0) 1) 2) l acc) T j).
  { induction l as [|t l IH]; intros acc H j Hj.
    - cbn [fold_left]. destruct H as [[]|H]. exact (H j Hj).
    - cbn [fold_left]. apply IH; [|exact Hj].
      destruct H as [[->|Hin]|H].
      + right. intros j' Hj'. destruct j' as [|[|[|j']]]; [| | |lia].
        * apply dg_step_stable. apply dg_step_stable. apply dg_step_new.
        * apply dg_step_stable. apply dg_step_new.
        * apply dg_step_new.
      + left. exact Hin.
      + right. intros j' Hj'. apply dg_step_stable. apply dg_step_stable. apply dg_step_stable. exact (H j' Hj'). }
  apply G; [left; exact HT | exact Hk].
Qed.

Theorem shared_side_conn start ts nt T T' k k' :
  (forall X, In X (start :: ts) -> t_id X <= nt) ->
  In T ts -> In T' ts -> seg_eqb (ordered_side T k) (ordered_side T' k') = true ->
  gpath nt (dual_graph start ts) (t_id T) (t_id T').
Proof.
  intros Hb HT HT' Hs. rewrite dual_graph_state.
  destruct (dg_state_linked start ts T k HT) as [o [Hf Ho]].
  destruct (dg_state_linked start ts T' k' HT') as [o' [Hf' Ho']].
  rewrite (find_side_eqv _ _ _ Hs) in Hf. rewrite Hf in Hf'. injection Hf' as <-.
  assert (Hob : o <= nt).
  { destruct (find_side_some _ _ _ Hf) as [key [Hin _]].
    destruct (proj1 (dg_state_inv start ts) key o Hin) as [X [HX [<- _]]]. exact (Hb X HX). }
  assert (HTb : t_id T' <= nt) by (apply Hb; right; exact HT').
  assert (P1 : gpath nt (snd (dg_state start ts)) (t_id T) o).
  { destruct Ho as [->|[_ H2]]; [apply gp_refl|]. apply gp_step with o; [apply has_entry_edge; exact H2 | exact Hob | apply gp_refl]. }
  assert (P2 : gpath nt (snd (dg_state start ts)) o (t_id T')).
  { destruct Ho' as [->|[H1 _]]; [apply gp_refl|]. apply gp_step with (t_id T'); [apply has_entry_edge; exact H1 | exact HTb | apply gp_refl]. }
  exact (gpath_trans _ _ _ _ _ P1 P2).
Qed.
Print Assumptions shared_side_conn.
Print Assumptions dfs_complete.
