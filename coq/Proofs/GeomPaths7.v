(* GeomPaths7.v — universal structural theorems about the corridor router (property C19), part 7:
   the triangles of the triangulation of a well-formed corridor are connected through shared sides; hence the depth-first
   search of the router always finds a chain of triangles.
   [all_pts_connected]   any two emitted triples are linked by a chain of emitted triples, consecutive ones sharing a side.
   T3e [dfs_total]       well-formed corridor of rectangles of positive width and height, start and end ANYWHERE in the corridor:
                         shortest p1 p2 rects <> Err (ErrIndex 66).
   T3  [corridor_errors] in that setting the only possible failures are ErrIndex 63 and ErrFuel 65. *)
From Coq Require Import Lqa.
From Autog Require Import Base ListLemmas Geom GeomProofs GeomTwo GeomPaths GeomPaths2 GeomPaths3 GeomPaths4 GeomPaths5 GeomPaths6.
Local Open Scope Q_scope.

(* ================= sides of triples, adjacency ================= *)
Definition norm (a b : pt) : seg :=
  if Qlt_bool (px a) (px b) then (a, b)
  else if Qlt_bool (px b) (px a) then (b, a)
  else if Qlt_bool (py a) (py b) then (a, b) else (b, a).

Definition tvert (x : triple) (k : nat) : pt := nth k [fst (fst x); snd (fst x); snd x] (0, 0).
Definition tside (x : triple) (k : nat) : seg := norm (tvert x (k mod 3)) (tvert x ((k + 1) mod 3)).

Lemma tside_tri T k : ordered_side T k = tside (tri_triple T) k.
Proof. destruct T as [i a b c]. reflexivity. Qed.

Definition hadj (x x' : triple) : Prop := exists k k', seg_eqb (tside x k) (tside x' k') = true.

Lemma norm_eqv a b a' b' :
  (pt_eqb a a' = true /\ pt_eqb b b' = true) \/ (pt_eqb a b' = true /\ pt_eqb b a' = true) ->
  seg_eqb (norm a b) (norm a' b') = true.
Proof.
  rewrite !pt_eqb_iff. destruct a as [ax ay], b as [bx by_], a' as [ax' ay'], b' as [bx' by'].
  cbn [fst snd]. intros H. unfold norm, px, py. cbn [fst snd].
  destruct (Qlt_bool ax bx) eqn:C1; [apply Qlt_bool_true in C1 | apply Qlt_bool_false in C1];
  (destruct (Qlt_bool bx ax) eqn:C2; [apply Qlt_bool_true in C2 | apply Qlt_bool_false in C2]);
  (destruct (Qlt_bool ay by_) eqn:C3; [apply Qlt_bool_true in C3 | apply Qlt_bool_false in C3]);
  (destruct (Qlt_bool ax' bx') eqn:C4; [apply Qlt_bool_true in C4 | apply Qlt_bool_false in C4]);
  (destruct (Qlt_bool bx' ax') eqn:C5; [apply Qlt_bool_true in C5 | apply Qlt_bool_false in C5]);
  (destruct (Qlt_bool ay' by') eqn:C6; [apply Qlt_bool_true in C6 | apply Qlt_bool_false in C6]);
  apply seg_eqb_iff; rewrite !pt_eqb_iff; cbn [fst snd];
  destruct H as [[[H1 H2] [H3 H4]]|[[H1 H2] [H3 H4]]]; first [ exfalso; lra | repeat split; lra ].
Qed.

Lemma hadj_intro x x' k k' :
  (k < 3)%nat -> (k' < 3)%nat ->
  (pt_eqb (tvert x k) (tvert x' k') = true /\ pt_eqb (tvert x ((k + 1) mod 3)) (tvert x' ((k' + 1) mod 3)) = true) \/
  (pt_eqb (tvert x k) (tvert x' ((k' + 1) mod 3)) = true /\ pt_eqb (tvert x ((k + 1) mod 3)) (tvert x' k') = true) ->
  hadj x x'.
Proof.
  intros Hk Hk' H. exists k, k'. unfold tside. rewrite (Nat.mod_small k 3 Hk), (Nat.mod_small k' 3 Hk').
  apply norm_eqv. exact H.
Qed.

Lemma hadj_sym x y : hadj x y -> hadj y x.
Proof. intros [k [k' H]]. exists k', k. apply seg_eqb_sym. exact H. Qed.

Lemma hadj_refl x : hadj x x.
Proof. exists 0%nat, 0%nat. apply seg_eqb_refl. Qed.

(* chains of emitted triples *)
Inductive hconn (L : list triple) : triple -> triple -> Prop :=
| hc_refl x : In x L -> hconn L x x
| hc_step x y z : In x L -> In y L -> hadj x y -> hconn L y z -> hconn L x z.

Lemma hconn_trans L x y z : hconn L x y -> hconn L y z -> hconn L x z.
Proof. intros H1 H2. induction H1 as [x Hx | x w y Hx Hw Ha H IH]; [exact H2|]. exact (hc_step L x w z Hx Hw Ha (IH H2)). Qed.

Lemma hconn_in_l L x y : hconn L x y -> In x L.
Proof. intros H. destruct H; assumption. Qed.
Lemma hconn_in_r L x y : hconn L x y -> In y L.
Proof. intros H. induction H; assumption. Qed.

Lemma hconn_sym L x y : hconn L x y -> hconn L y x.
Proof.
  intros H. induction H as [x Hx | x w y Hx Hw Ha H IH]; [apply hc_refl; exact Hx|].
  apply (hconn_trans L y w x IH). apply (hc_step L w x x Hw Hx (hadj_sym _ _ Ha)). apply hc_refl. exact Hx.
Qed.

Lemma hconn_incl L L' x y : incl L L' -> hconn L x y -> hconn L' x y.
Proof.
  intros Hi H. induction H as [x Hx | x w y Hx Hw Ha H IH]; [apply hc_refl; apply Hi; exact Hx|].
  exact (hc_step L' x w y (Hi _ Hx) (Hi _ Hw) Ha IH).
Qed.

(* ================= inside one step: every triple is linked to the root triple ================= *)
Definition root_abs (r1 r2 : rect) (last : bool) : triple :=
  if last then (r_br r1, r_tl r1, cBL r1)
  else (fst (left2right (r_br r1) (cTR r2)), rightmost_pt (cBL r1) (r_tl r2), r_tl r1).

Ltac in_tac := cbn [In]; solve [repeat (first [left; reflexivity | right])].
Ltac try_kk k k' :=
  apply (hadj_intro _ _ k k');
  [ lia | lia | cbn [tvert nth fst snd Nat.modulo Nat.divmod Nat.add Nat.sub];
                first [ left; split; apply pt_eqb_refl | right; split; apply pt_eqb_refl ] ].
Ltac hadj_refl_tac :=
  first [ try_kk 0%nat 0%nat | try_kk 0%nat 1%nat | try_kk 0%nat 2%nat
        | try_kk 1%nat 0%nat | try_kk 1%nat 1%nat | try_kk 1%nat 2%nat
        | try_kk 2%nat 0%nat | try_kk 2%nat 1%nat | try_kk 2%nat 2%nat ].
(* x is linked to the root if it is adjacent to some y already known to be linked *)
Ltac grow x :=
  match goal with
  | H : hconn ?l ?y ?root |- _ =>
      let G := fresh "G" in
      assert (G : hconn l x root) by (apply (hc_step l x y root); [in_tac | in_tac | hadj_refl_tac | exact H])
  end.
Ltac grow_all l0 :=
  let rec go l :=
    lazymatch l with
    | ?x :: ?t =>
        first [ match goal with H : hconn _ x _ |- _ => idtac end | grow x | idtac ]; go t
    | _ => idtac
    end in
  go l0.
Ltac finish :=
  match goal with
  | |- forall x, In x ?l -> hconn ?l x ?root =>
      let x := fresh "x" in let Hx := fresh "Hx" in
      intros x Hx; cbn [In] in Hx;
      repeat (destruct Hx as [Hx|Hx]; [subst x; assumption|]); destruct Hx
  end.

Lemma step_connected r0 r1 r2 first last :
  first && last = false ->
  let l := step_pts_abs r0 r1 r2 first last in
  In (root_abs r1 r2 last) l /\ forall x, In x l -> hconn l x (root_abs r1 r2 last).
Proof.
  intros Hfl. cbv zeta. unfold step_pts_abs, root_abs, leftmost, rightmost_pt, left2right.
  cbn [px py fst snd cTR cBL].
  destruct first, last; [discriminate Hfl | | |]; cbn [negb orb app fst snd].
  - (* first, not last *)
    destruct (Qlt_bool (px (r_br r1)) (px (r_br r2))); destruct (Qlt_bool (px (r_br r2)) (px (r_br r1)));
    destruct (Qlt_bool (px (r_tl r1)) (px (r_tl r2)));
    cbn [negb orb app fst snd];
    (split; [in_tac|]);
    match goal with |- forall x, In x ?l -> hconn ?l x ?root =>
      assert (G0 : hconn l root root) by (apply hc_refl; in_tac);
      grow_all l; grow_all l; grow_all l; finish end.
  - (* last, not first *)
    rewrite !app_nil_r.
    destruct (Qlt_bool (px (r_tl r1)) (px (r_tl r0))); destruct (Qlt_bool (px (r_br r0)) (px (r_br r1)));
    cbn [negb orb app fst snd];
    (split; [in_tac|]);
    match goal with |- forall x, In x ?l -> hconn ?l x ?root =>
      assert (G0 : hconn l root root) by (apply hc_refl; in_tac);
      grow_all l; grow_all l; grow_all l; finish end.
  - (* middle *)
    destruct (Qlt_bool (px (r_tl r1)) (px (r_tl r0))); destruct (Qlt_bool (px (r_br r0)) (px (r_br r1)));
    destruct (Qlt_bool (px (r_br r1)) (px (r_br r2))); destruct (Qlt_bool (px (r_br r2)) (px (r_br r1)));
    destruct (Qlt_bool (px (r_tl r1)) (px (r_tl r2)));
    cbn [negb orb app fst snd];
    (split; [in_tac|]);
    match goal with |- forall x, In x ?l -> hconn ?l x ?root =>
      assert (G0 : hconn l root root) by (apply hc_refl; in_tac);
      grow_all l; grow_all l; grow_all l; finish end.
Qed.

(* ================= from one step to the next: the root of step i is adjacent to a triple of step i+1 ================= *)
Lemma ex_in_tail {A} (h : A) t (P : A -> Prop) : (exists x, In x t /\ P x) -> exists x, In x (h :: t) /\ P x.
Proof. intros [x [H1 H2]]. exists x. split; [right; exact H1 | exact H2]. Qed.

Ltac ptq := apply pt_eqb_iff; cbn [fst snd]; split; lra.
Ltac try_kk_q k k' :=
  apply (hadj_intro _ _ k k');
  [ lia | lia | cbn [tvert nth fst snd Nat.modulo Nat.divmod Nat.add Nat.sub];
                first [ left; split; ptq | right; split; ptq ] ].
Ltac hadj_q_tac :=
  first [ try_kk_q 0%nat 0%nat | try_kk_q 0%nat 1%nat | try_kk_q 0%nat 2%nat
        | try_kk_q 1%nat 0%nat | try_kk_q 1%nat 1%nat | try_kk_q 1%nat 2%nat
        | try_kk_q 2%nat 0%nat | try_kk_q 2%nat 1%nat | try_kk_q 2%nat 2%nat ].
Ltac find_tau :=
  lazymatch goal with
  | |- exists x, In x (?h :: ?t) /\ _ =>
      first [ exists h; split; [left; reflexivity | hadj_q_tac] | (apply ex_in_tail; find_tau) ]
  end.

Lemma cross_adj r0 r1 r2 last :
  stacked_strict r0 r1 ->
  exists x, In x (step_pts_abs r0 r1 r2 false last) /\ hadj (root_abs r0 r1 false) x.
Proof.
  destruct r0 as [[a0 t0] [b0 u0]], r1 as [[a1 t1] [b1 u1]], r2 as [[a2 t2] [b2 u2]].
  unfold stacked_strict. cbn [px py fst snd r_tl r_br]. intros [Ey [S1 [S2 [S3 S4]]]].
  unfold step_pts_abs, root_abs, leftmost, rightmost_pt, left2right, cTR, cBL. cbn [px py fst snd r_tl r_br].
  destruct last.
  - rewrite !app_nil_r.
    qsplit (Qlt_bool a1 a0); qsplit (Qlt_bool b0 b1); qsplit (Qlt_bool a0 a1);
      cbn [negb orb app fst snd]; try (exfalso; lra); find_tau.
  - destruct (Qlt_bool b2 b1);
    qsplit (Qlt_bool a1 a0); qsplit (Qlt_bool b0 b1); qsplit (Qlt_bool a0 a1);
      cbn [negb orb app fst snd]; try (exfalso; lra); find_tau.
Qed.

(* ================= the whole triangulation ================= *)
Definition root_pts (rects : list rect) (i : nat) : triple :=
  root_abs (nth i rects rect0) (nth (Datatypes.S i) rects rect0) (Nat.eqb (Datatypes.S i) (length rects)).

Lemma step_conn rects i :
  (2 <= length rects)%nat -> (i < length rects)%nat ->
  In (root_pts rects i) (step_pts rects i) /\
  forall x, In x (step_pts rects i) -> hconn (step_pts rects i) x (root_pts rects i).
Proof.
  intros Hn Hi. unfold step_pts, root_pts. apply step_connected.
  destruct (Nat.eqb i 0) eqn:E0; [|reflexivity]. apply Nat.eqb_eq in E0. subst i.
  cbn [andb]. apply Nat.eqb_neq. lia.
Qed.

Lemma step_incl rects i : (2 <= length rects)%nat -> (i < length rects)%nat -> incl (step_pts rects i) (all_pts rects).
Proof. intros Hn Hi x Hx. exact (step_in_all_pts rects i x Hn Hi Hx). Qed.

Lemma roots_conn rects :
  corridor_wf rects -> (2 <= length rects)%nat ->
  forall i, (i < length rects)%nat -> hconn (all_pts rects) (root_pts rects i) (root_pts rects 0).
Proof.
  intros W Hn. induction i as [|i IH]; intros Hi.
  - apply hc_refl. apply (step_incl rects 0 Hn Hi). exact (proj1 (step_conn rects 0 Hn Hi)).
  - specialize (IH ltac:(lia)).
    destruct (step_conn rects (Datatypes.S i) Hn Hi) as [Hroot Hstep].
    assert (Hx : exists x, In x (step_pts rects (Datatypes.S i)) /\ hadj (root_pts rects i) x).
    { unfold step_pts, root_pts at 1.
      change (Nat.eqb (Datatypes.S i) 0) with false.
      replace (Nat.eqb (Datatypes.S i) (length rects)) with false by (symmetry; apply Nat.eqb_neq; lia).
      replace (Datatypes.S i - 1)%nat with i by lia.
      apply cross_adj. apply stacked_wf_strict. apply corridor_wf_stacked; [exact W | exact Hi]. }
    destruct Hx as [x [Hx Ha]].
    pose proof (hconn_incl _ _ _ _ (step_incl rects (Datatypes.S i) Hn Hi) (Hstep x Hx)) as H1.
    apply (hconn_trans _ _ x _ (hconn_sym _ _ _ H1)).
    apply (hc_step _ x (root_pts rects i) _); [exact (hconn_in_l _ _ _ H1) | exact (hconn_in_l _ _ _ IH) | apply hadj_sym; exact Ha | exact IH].
Qed.

Theorem all_pts_connected rects :
  corridor_wf rects -> forall x z, In x (all_pts rects) -> In z (all_pts rects) -> hconn (all_pts rects) x z.
Proof.
  intros W x z Hx Hz.
  destruct (all_pts_cases rects x Hx) as [[r [Er Hx1]] | [Hn [i [Hi Hxi]]]].
  - (* one rectangle: the two triples share the diagonal *)
    subst rects. unfold all_pts in *. clear Hx1.
    assert (A : forall u v, In u (one_rect_pts r) -> In v (one_rect_pts r) -> hadj u v).
    { intros u v Hu Hv. unfold one_rect_pts in Hu, Hv. cbn [In] in Hu, Hv.
      destruct Hu as [<-|[<-|[]]]; destruct Hv as [<-|[<-|[]]]; try apply hadj_refl; try_kk 0%nat 0%nat. }
    apply (hc_step _ x z z Hx Hz (A x z Hx Hz)). apply hc_refl. exact Hz.
  - destruct (all_pts_cases rects z Hz) as [[r [Er _]] | [_ [j [Hj Hzj]]]]; [subst rects; cbn in Hn; lia|].
    assert (G : forall k y, (k < length rects)%nat -> In y (step_pts rects k) -> hconn (all_pts rects) y (root_pts rects 0)).
    { intros k y Hk Hy. destruct (step_conn rects k Hn Hk) as [_ Hstep].
      apply (hconn_trans _ _ (root_pts rects k)).
      - exact (hconn_incl _ _ _ _ (step_incl rects k Hn Hk) (Hstep y Hy)).
      - exact (roots_conn rects W Hn k Hk). }
    apply (hconn_trans _ _ (root_pts rects 0)); [exact (G i x Hi Hxi) | apply hconn_sym; exact (G j z Hj Hzj)].
Qed.
Print Assumptions all_pts_connected.

(* ================= from chains of triples to paths in the dual graph ================= *)
Lemma hconn_gpath rects start :
  (forall X, In X (start :: triangulate rects) -> (t_id X <= length (triangulate rects))%nat) ->
  forall x z, hconn (all_pts rects) x z ->
  forall T T', In T (triangulate rects) -> In T' (triangulate rects) -> tri_triple T = x -> tri_triple T' = z ->
  gpath (length (triangulate rects)) (dual_graph start (triangulate rects)) (t_id T) (t_id T').
Proof.
  intros Hb x z H. induction H as [x Hx | x y z Hx Hy Ha H IH]; intros T T' HT HT' ET ET'.
  - apply (shared_side_conn start _ _ T T' 0%nat 0%nat Hb HT HT').
    rewrite !tside_tri, ET, ET'. apply seg_eqb_refl.
  - destruct (all_pts_tri rects y Hy) as [Ty [HTy ETy]].
    destruct Ha as [k [k' Hk]].
    apply (gpath_trans _ _ _ (t_id Ty)).
    + apply (shared_side_conn start _ _ T Ty k k' Hb HT HTy). rewrite !tside_tri, ET, ETy. exact Hk.
    + exact (IH Ty T' HTy HT' ETy ET').
Qed.

Lemma triangulate_id_bound rects T : In T (triangulate rects) -> (1 <= t_id T <= length (triangulate rects))%nat.
Proof.
  intros H. apply triangulate_In in H. destruct H as [k [Hk [_ E]]]. rewrite triangulate_length. lia.
Qed.

(* T3e: the search always finds a chain of triangles *)
Theorem dfs_total rects p1 p2 :
  corridor_wf rects -> corridor_strict rects -> in_corridor rects p1 -> in_corridor rects p2 ->
  shortest p1 p2 rects <> Err (ErrIndex 66).
Proof.
  intros W Hs I1 I2 H.
  destruct (locate_total rects p1 W Hs I1) as [S1 _]. destruct (locate_total rects p2 W Hs I2) as [S2 _].
  rewrite shortest_unfold in H. cbv zeta in H.
  destruct (Nat.eqb (t_id (start_tri p1 rects)) (t_id (start_tri p2 rects))) eqn:Eid; [discriminate H|].
  set (ts := triangulate rects) in *. set (start := start_tri p1 rects) in *. set (stop := start_tri p2 rects) in *.
  assert (Hb : forall X, In X (start :: ts) -> (t_id X <= length ts)%nat).
  { intros X [<-|HX]; [exact (proj2 (triangulate_id_bound rects _ S1)) | exact (proj2 (triangulate_id_bound rects _ HX))]. }
  assert (Hp : gpath (length ts) (dual_graph start ts) (t_id start) (t_id stop)).
  { apply (hconn_gpath rects start Hb (tri_triple start) (tri_triple stop)); try assumption; try reflexivity.
    apply all_pts_connected; [exact W | apply triangulate_In_pts; exact S1 | apply triangulate_In_pts; exact S2]. }
  destruct (dfs_complete (length ts) (dual_graph start ts) (t_id stop) (t_id start) (Hb start (or_introl eq_refl)) Hp)
    as [out [v E]].
  rewrite E in H. cbn [fst] in H.
  destruct out as [|d0 drest].
  - apply crossed_diagonals_chain in E. apply Nat.eqb_neq in Eid. inversion E as [s0 Es1 Es2 |]. congruence.
  - unfold shortest_tail in H.
    destruct (funnel _ d0 _ _ []) as [pm|e'] eqn:Ef.
    + cbn [bind] in H. destruct (walk_pred _ pm p2 []) as [wp|e''] eqn:Ew; [discriminate H|].
      cbn [bind] in H. injection H as H. rewrite (walk_pred_errors _ _ _ _ _ Ew) in H. discriminate H.
    + cbn [bind] in H. injection H as H. subst e'.
      assert (Hn : (1 <= length rects)%nat).
      { apply triangulate_nil_length. intros E0. fold ts in E0. rewrite E0 in S1. destruct S1. }
      destruct (funnel_errors (fun _ => True) (fun _ => True) _ _ _ _ _ _ (fun _ _ => conj I I)
                  (init_dq_ok (fun _ => True) (length rects) p1 d0 Hn I I I) Ef) as [E63|E64]; discriminate.
Qed.
Print Assumptions dfs_total.

(* T3, summary: in a well-formed corridor of rectangles of positive size, with start and end anywhere in the corridor, the router
   can only fail with a deque index out of range (ErrIndex 63) or a cycle in the predecessor map (ErrFuel 65) *)
Theorem corridor_errors rects p1 p2 e :
  corridor_wf rects -> corridor_strict rects -> in_corridor rects p1 -> in_corridor rects p2 ->
  shortest p1 p2 rects = Err e -> e = ErrIndex 63 \/ e = ErrFuel 65.
Proof.
  intros W Hs I1 I2 H. destruct (shortest_errors3 _ _ _ _ H) as [->|[->| ->]]; [tauto | | tauto].
  exfalso. exact (dfs_total rects p1 p2 W Hs I1 I2 H).
Qed.
Print Assumptions corridor_errors.

(* non-vacuity: the staircase; both failures are attained inside a well-formed corridor (one rectangle, a corner as end point) *)
Example stair4_no66 : shortest (20, 0) (72, 80) stair4 <> Err (ErrIndex 66).
Proof.
  apply dfs_total; [exact stair4_wf | exact stair4_strict | |].
  - exists (mkRect (0, 0) (40, 16)). split; [left; reflexivity|]. unfold in_rect; cbn [px py fst snd r_tl r_br]; lra.
  - exists (mkRect (8, 56) (72, 80)). split; [right; right; right; left; reflexivity|].
    unfold in_rect; cbn [px py fst snd r_tl r_br]; lra.
Qed.

(* ================= inside the router's class ================= *)
Lemma class_strict rects p1 p2 : class_facts rects p1 p2 -> corridor_strict rects.
Proof.
  intros CF r Hr. destruct (In_nth _ _ rect0 Hr) as [i [Hi <-]].
  split; [|exact (cf_h CF _ (nth_In _ _ Hi))].
  destruct (Nat.eq_dec (length rects) 1) as [E1|E1].
  - assert (i = 0%nat) by lia. subst i. destruct (cf_p1x CF) as [A B]. lra.
  - destruct (Nat.eq_dec (Datatypes.S i) (length rects)) as [El|El].
    + assert (Hi' : (Datatypes.S (i - 1) < length rects)%nat) by lia.
      pose proof (stacked_wf_strict _ _ (corridor_wf_stacked rects (i - 1) (cf_wf CF) Hi')) as [_ [_ [_ [_ S4]]]].
      replace (Datatypes.S (i - 1)) with i in S4 by lia. exact S4.
    + assert (Hi' : (Datatypes.S i < length rects)%nat) by lia.
      pose proof (stacked_wf_strict _ _ (corridor_wf_stacked rects i (cf_wf CF) Hi')) as [_ [_ [_ [S3 _]]]]. exact S3.
Qed.

(* the summary inside the class, for corridors of any length: the router answers end :: corners ++ [start], all in the corridor,
   or fails with ErrIndex 63 or ErrFuel 65; no other outcome is possible *)
Theorem class_total_outcome rects p1 p2 :
  corridor_class rects p1 p2 = true ->
  (exists mid, shortest p1 p2 rects = Ok (p2 :: mid ++ [p1]) /\
     (forall q, In q mid -> tri_vertex rects q /\ exists r, In r rects /\ corner_of r q) /\
     (forall q, In q (p2 :: mid ++ [p1]) -> in_corridor rects q)) \/
  shortest p1 p2 rects = Err (ErrIndex 63) \/ shortest p1 p2 rects = Err (ErrFuel 65).
Proof.
  intros Hc. destruct (shortest p1 p2 rects) as [path|e] eqn:E.
  - left. destruct (class_shape rects p1 p2 path Hc E) as [mid [-> [Hm Hin]]]. exists mid. tauto.
  - right. pose proof (corridor_class_facts _ _ _ Hc) as CF.
    destruct (corridor_errors rects p1 p2 e (cf_wf CF) (class_strict _ _ _ CF)
                (class_p1_inside rects p1 p2 CF) (class_p2_inside rects p1 p2 CF) E) as [->| ->]; tauto.
Qed.
Print Assumptions class_total_outcome.
