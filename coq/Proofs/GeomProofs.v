(* GeomProofs.v — facts about the corridor router model (Model/Geom.v).
   G1  a corridor well-formedness checker [corridor_ok] (reflected by [corridor_wf]) and a SOUND containment
       checker [path_inside]: if it answers true, every point of every segment of the polyline is in the corridor.
   G2  one rectangle: what [shortest] returns (and two families of inputs INSIDE the rectangle on which it fails).
   G3  in the real numbers: the length of any polyline is at least the distance of its end points, hence a
       two-point path is a shortest path among all polylines. *)
From Coq Require Import Lqa.
From Autog Require Import Base Geom.
Local Open Scope Q_scope.

(* ================= G1: containment ================= *)

Definition in_rect (r : rect) (p : pt) : Prop :=
  px (r_tl r) <= px p <= px (r_br r) /\ py (r_tl r) <= py p <= py (r_br r).
Definition in_corridor (rects : list rect) (p : pt) : Prop := exists r, In r rects /\ in_rect r p.
Definition on_segment (a b p : pt) : Prop :=
  exists t : Q, 0 <= t <= 1 /\ px p == px a + t * (px b - px a) /\ py p == py a + t * (py b - py a).
Definition consecutive (a b : pt) (path : list pt) : Prop := exists l1 l2, path = l1 ++ a :: b :: l2.

(* ---------- boolean comparisons ---------- *)
Lemma Qlt_bool_true a b : Qlt_bool a b = true <-> a < b.
Proof.
  unfold Qlt_bool. rewrite negb_true_iff. split; intros H.
  - apply Qnot_le_lt. intros Hle. apply Qle_bool_iff in Hle. congruence.
  - destruct (Qle_bool b a) eqn:E; [|reflexivity]. apply Qle_bool_iff in E. lra.
Qed.

Lemma Qlt_bool_false a b : Qlt_bool a b = false <-> b <= a.
Proof.
  unfold Qlt_bool. rewrite negb_false_iff. apply Qle_bool_iff.
Qed.

Definition in_rectb (r : rect) (p : pt) : bool :=
  Qle_bool (px (r_tl r)) (px p) && Qle_bool (px p) (px (r_br r)) &&
  Qle_bool (py (r_tl r)) (py p) && Qle_bool (py p) (py (r_br r)).

Lemma in_rectb_iff r p : in_rectb r p = true <-> in_rect r p.
Proof.
  unfold in_rectb, in_rect. rewrite !andb_true_iff, !Qle_bool_iff. tauto.
Qed.

(* ---------- well-formed corridors ---------- *)
Definition rect_ok (r : rect) : bool :=
  Qle_bool (px (r_tl r)) (px (r_br r)) && Qle_bool (py (r_tl r)) (py (r_br r)).
(* consecutive rectangles: the lower edge of the first is at the level of the upper edge of the second, and the
   two x-ranges overlap in a segment of positive length *)
Definition stacked (r1 r2 : rect) : bool :=
  Qeq_bool (py (r_br r1)) (py (r_tl r2)) &&
  Qlt_bool (Qmax' (px (r_tl r1)) (px (r_tl r2))) (Qmin' (px (r_br r1)) (px (r_br r2))).
Fixpoint corridor_ok (rects : list rect) : bool :=
  match rects with
  | [] => true
  | r1 :: rest => rect_ok r1 && match rest with [] => true | r2 :: _ => stacked r1 r2 end && corridor_ok rest
  end.

Definition rect_wf (r : rect) : Prop := px (r_tl r) <= px (r_br r) /\ py (r_tl r) <= py (r_br r).
Definition stacked_wf (r1 r2 : rect) : Prop :=
  py (r_br r1) == py (r_tl r2) /\
  exists x1 x2, x1 < x2 /\ px (r_tl r1) <= x1 /\ px (r_tl r2) <= x1 /\ x2 <= px (r_br r1) /\ x2 <= px (r_br r2).
Fixpoint corridor_wf (rects : list rect) : Prop :=
  match rects with
  | [] => True
  | r1 :: rest => rect_wf r1 /\ match rest with [] => True | r2 :: _ => stacked_wf r1 r2 end /\ corridor_wf rest
  end.

Lemma rect_ok_iff r : rect_ok r = true <-> rect_wf r.
Proof. unfold rect_ok, rect_wf. rewrite andb_true_iff, !Qle_bool_iff. tauto. Qed.

Lemma Qmax'_spec a b : a <= Qmax' a b /\ b <= Qmax' a b /\ (Qmax' a b == a \/ Qmax' a b == b).
Proof.
  unfold Qmax'. destruct (Qle_bool a b) eqn:E.
  - apply Qle_bool_iff in E. repeat split; [lra | lra | right; reflexivity].
  - assert (b < a) by (apply Qlt_bool_true; unfold Qlt_bool; now rewrite E).
    repeat split; [lra | lra | left; reflexivity].
Qed.

Lemma Qmin'_spec a b : Qmin' a b <= a /\ Qmin' a b <= b /\ (Qmin' a b == a \/ Qmin' a b == b).
Proof.
  unfold Qmin'. destruct (Qle_bool a b) eqn:E.
  - apply Qle_bool_iff in E. repeat split; [lra | lra | left; reflexivity].
  - assert (b < a) by (apply Qlt_bool_true; unfold Qlt_bool; now rewrite E).
    repeat split; [lra | lra | right; reflexivity].
Qed.

Lemma stacked_iff r1 r2 : stacked r1 r2 = true <-> stacked_wf r1 r2.
Proof.
  unfold stacked, stacked_wf. rewrite andb_true_iff, Qeq_bool_iff, Qlt_bool_true.
  pose proof (Qmax'_spec (px (r_tl r1)) (px (r_tl r2))) as [M1 [M2 M3]].
  pose proof (Qmin'_spec (px (r_br r1)) (px (r_br r2))) as [N1 [N2 N3]].
  split.
  - intros [Hy Hx]. split; [exact Hy|].
    exists (Qmax' (px (r_tl r1)) (px (r_tl r2))), (Qmin' (px (r_br r1)) (px (r_br r2))). tauto.
  - intros [Hy [x1 [x2 [H12 [A [B [C D]]]]]]]. split; [exact Hy|].
    destruct M3 as [M3|M3], N3 as [N3|N3]; rewrite M3, N3; lra.
Qed.

Theorem corridor_ok_iff rects : corridor_ok rects = true <-> corridor_wf rects.
Proof.
  induction rects as [|r1 rest IH]; [cbn; tauto|].
  cbn [corridor_ok corridor_wf]. rewrite !andb_true_iff, rect_ok_iff, IH.
  destruct rest as [|r2 rest']; [tauto|]. rewrite stacked_iff. tauto.
Qed.
Print Assumptions corridor_ok_iff.

(* ---------- segments ---------- *)
Lemma on_segment_sym a b p : on_segment a b p -> on_segment b a p.
Proof.
  intros [t [Ht [Hx Hy]]]. exists (1 - t). split; [lra|]. split; [rewrite Hx | rewrite Hy]; ring.
Qed.

Lemma on_segment_l a b : on_segment a b a.
Proof. exists 0. split; [lra|]. split; ring. Qed.

Lemma on_segment_r a b : on_segment a b b.
Proof. exists 1. split; [lra|]. split; ring. Qed.

(* rectangles are convex *)
Lemma in_rect_convex r a b p : in_rect r a -> in_rect r b -> on_segment a b p -> in_rect r p.
Proof.
  unfold in_rect. intros [[A1 A2] [A3 A4]] [[B1 B2] [B3 B4]] [t [[T0 T1] [Hx Hy]]].
  assert (Ex : px p == (1 - t) * px a + t * px b) by (rewrite Hx; ring).
  assert (Ey : py p == (1 - t) * py a + t * py b) by (rewrite Hy; ring).
  assert (S0 : 0 <= 1 - t) by lra.
  assert (mono : forall lo u v, lo <= u -> lo <= v -> lo <= (1 - t) * u + t * v).
  { intros lo u v Hu Hv. nra. }
  assert (mono' : forall hi u v, u <= hi -> v <= hi -> (1 - t) * u + t * v <= hi).
  { intros hi u v Hu Hv. nra. }
  rewrite Ex, Ey. repeat split; [apply mono | apply mono' | apply mono | apply mono']; assumption.
Qed.

(* cutting a segment at one of its points *)
Lemma on_segment_split a b c p :
  on_segment a b c -> on_segment a b p -> on_segment a c p \/ on_segment c b p.
Proof.
  intros [s [[S0 S1] [Cx Cy]]] [t [[T0 T1] [Hx Hy]]].
  destruct (Qlt_le_dec s t) as [Hst|Hts].
  - (* p lies between c and b *)
    right. assert (Hs : ~ 1 - s == 0) by lra.
    exists ((t - s) / (1 - s)). split.
    + split.
      * apply Qle_shift_div_l; lra.
      * apply Qle_shift_div_r; lra.
    + split; [rewrite Hx, Cx | rewrite Hy, Cy]; field; exact Hs.
  - left. destruct (Qeq_dec s 0) as [Es|Es].
    + (* c = a, hence p = a *)
      assert (Et : t == 0) by lra. exists 0. split; [lra|].
      split; [rewrite Hx | rewrite Hy]; rewrite Et; ring.
    + exists (t / s). split.
      * split.
        -- apply Qle_shift_div_l; lra.
        -- apply Qle_shift_div_r; lra.
      * split; [rewrite Hx, Cx | rewrite Hy, Cy]; field; exact Es.
Qed.

(* the point of the line through a and b at level y (needs py a <> py b) *)
Definition cross (a b : pt) (y : Q) : pt :=
  (px a + (y - py a) / (py b - py a) * (px b - px a), y).

Lemma cross_on_segment a b y : py a < y -> y < py b -> on_segment a b (cross a b y).
Proof.
  intros H1 H2. assert (Hd : ~ py b - py a == 0) by lra.
  exists ((y - py a) / (py b - py a)). split.
  - split.
    + apply Qle_shift_div_l; lra.
    + apply Qle_shift_div_r; lra.
  - unfold cross, px, py. cbn [fst snd]. split; [reflexivity|]. field. exact Hd.
Qed.

(* ---------- the checker ---------- *)
(* Walk down the corridor. [a] is the upper end point. If both end points are in the current rectangle the
   segment is inside it (convexity). Otherwise, if the lower edge of the current rectangle lies strictly between
   the two end points, cut the segment there: the upper part must be inside the current rectangle, the lower part
   is checked against the remaining rectangles. Otherwise skip the rectangle. *)
Fixpoint seg_walk (rs : list rect) (a b : pt) : bool :=
  match rs with
  | [] => false
  | r :: rest =>
      if in_rectb r a && in_rectb r b then true else
      let y := py (r_br r) in
      if Qlt_bool (py a) y && Qlt_bool y (py b) then
        let c := cross a b y in
        in_rectb r a && in_rectb r c && seg_walk rest c b
      else seg_walk rest a b
  end.

Definition same_rect (rects : list rect) (a b : pt) : bool := existsb (fun r => in_rectb r a && in_rectb r b) rects.
Definition seg_inside (rects : list rect) (a b : pt) : bool :=
  same_rect rects a b || seg_walk rects a b || seg_walk rects b a.

Definition pt_inside (rects : list rect) (p : pt) : bool := existsb (fun r => in_rectb r p) rects.

Fixpoint segs_inside (rects : list rect) (path : list pt) : bool :=
  match path with
  | a :: ((b :: _) as t) => seg_inside rects a b && segs_inside rects t
  | _ => true
  end.

Definition path_inside (rects : list rect) (path : list pt) : bool :=
  forallb (pt_inside rects) path && segs_inside rects path.

Lemma in_corridor_cons r rs p : in_corridor rs p -> in_corridor (r :: rs) p.
Proof. intros [r' [Hin Hr]]. exists r'. split; [right; exact Hin | exact Hr]. Qed.

Lemma seg_walk_sound rs : forall a b, seg_walk rs a b = true -> forall p, on_segment a b p -> in_corridor rs p.
Proof.
  induction rs as [|r rest IH]; intros a b H p Hp; [discriminate H|].
  cbn [seg_walk] in H.
  destruct (in_rectb r a && in_rectb r b) eqn:Eab.
  - apply andb_true_iff in Eab. destruct Eab as [Ea Eb]. apply in_rectb_iff in Ea, Eb.
    exists r. split; [left; reflexivity|]. exact (in_rect_convex r a b p Ea Eb Hp).
  - destruct (Qlt_bool (py a) (py (r_br r)) && Qlt_bool (py (r_br r)) (py b)) eqn:Ey.
    + apply andb_true_iff in Ey. destruct Ey as [Y1 Y2]. apply Qlt_bool_true in Y1, Y2.
      apply andb_true_iff in H. destruct H as [H Hrest]. apply andb_true_iff in H. destruct H as [Ha Hc].
      apply in_rectb_iff in Ha, Hc.
      pose proof (cross_on_segment a b _ Y1 Y2) as Hcross.
      destruct (on_segment_split a b _ p Hcross Hp) as [Hup|Hlow].
      * exists r. split; [left; reflexivity|]. exact (in_rect_convex r a _ p Ha Hc Hup).
      * apply in_corridor_cons. exact (IH _ _ Hrest p Hlow).
    + apply in_corridor_cons. exact (IH _ _ H p Hp).
Qed.

Theorem seg_inside_sound rects a b :
  seg_inside rects a b = true -> forall p, on_segment a b p -> in_corridor rects p.
Proof.
  unfold seg_inside. intros H p Hp. apply orb_true_iff in H. destruct H as [H|H].
  - apply orb_true_iff in H. destruct H as [H|H].
    + unfold same_rect in H. apply existsb_exists in H. destruct H as [r [Hr H]].
      apply andb_true_iff in H. destruct H as [Ha Hb]. apply in_rectb_iff in Ha, Hb.
      exists r. split; [exact Hr|]. exact (in_rect_convex r a b p Ha Hb Hp).
    + exact (seg_walk_sound rects a b H p Hp).
  - exact (seg_walk_sound rects b a H p (on_segment_sym a b p Hp)).
Qed.

Lemma segs_inside_consecutive rects path a b :
  segs_inside rects path = true -> consecutive a b path -> seg_inside rects a b = true.
Proof.
  intros H [l1 [l2 ->]]. induction l1 as [|x l1 IH].
  - cbn [app segs_inside] in H. apply andb_true_iff in H. tauto.
  - apply IH. cbn [app] in H. destruct (l1 ++ a :: b :: l2) eqn:E.
    + destruct l1; discriminate E.
    + cbn [segs_inside] in H. apply andb_true_iff in H. tauto.
Qed.

Theorem path_inside_sound rects path :
  path_inside rects path = true ->
  forall a b p, consecutive a b path -> on_segment a b p -> in_corridor rects p.
Proof.
  unfold path_inside. intros H a b p Hc Hp. apply andb_true_iff in H. destruct H as [_ H].
  exact (seg_inside_sound rects a b (segs_inside_consecutive rects path a b H Hc) p Hp).
Qed.
Print Assumptions path_inside_sound.

(* the vertices themselves (this also covers a one-point path, which has no segment) *)
Theorem path_inside_vertices rects path :
  path_inside rects path = true -> forall p, In p path -> in_corridor rects p.
Proof.
  unfold path_inside. intros H p Hin. apply andb_true_iff in H. destruct H as [H _].
  rewrite forallb_forall in H. specialize (H p Hin). unfold pt_inside in H.
  apply existsb_exists in H. destruct H as [r [Hr Hp]]. exists r. split; [exact Hr | now apply in_rectb_iff].
Qed.

(* the checker accepts a segment with both end points in one rectangle *)
Lemma seg_inside_same_rect rects r a b :
  In r rects -> in_rect r a -> in_rect r b -> seg_inside rects a b = true.
Proof.
  intros Hin Ha Hb. unfold seg_inside. apply orb_true_iff. left. apply orb_true_iff. left.
  unfold same_rect. apply existsb_exists. exists r. split; [exact Hin|].
  apply in_rectb_iff in Ha, Hb. now rewrite Ha, Hb.
Qed.

(* ---------- examples: a Z-shaped corridor of three rectangles ---------- *)
Definition ex_corridor : list rect :=
  [mkRect (0, 0) (10, 4); mkRect (6, 4) (20, 8); mkRect (16, 8) (30, 12)].

Example ex_corridor_ok : corridor_ok ex_corridor = true.
Proof. vm_compute. reflexivity. Qed.

(* a path from the bottom to the top around the two inner corners *)
Example ex_path_inside : path_inside ex_corridor [(25, 12); (16, 8); (10, 4); (2, 0)] = true.
Proof. vm_compute. reflexivity. Qed.

(* the straight segment crosses two boundaries inside the overlaps: accepted after two cuts *)
Example ex_straight_inside : path_inside ex_corridor [(25, 12); (2, 0)] = true.
Proof. vm_compute. reflexivity. Qed.

(* this straight segment leaves the corridor (at level 4 it is at x = 15 > 10): rejected *)
Example ex_straight_outside : path_inside ex_corridor [(30, 8); (0, 0)] = false.
Proof. vm_compute. reflexivity. Qed.

(* the router's answers on this corridor are accepted by the checker *)
Example ex_shortest_inside :
  shortest (1, 0) (29, 12) ex_corridor = Ok [(29, 12); (10, 4); (1, 0)] /\
  path_inside ex_corridor [(29, 12); (10, 4); (1, 0)] = true /\
  shortest (1, 0) (17, 12) ex_corridor = Ok [(17, 12); (16, 8); (1, 0)] /\
  path_inside ex_corridor [(17, 12); (16, 8); (1, 0)] = true.
Proof. vm_compute. repeat split. Qed.

(* ================= G2: one rectangle ================= *)
Lemma Qeq_bool_false a b : Qeq_bool a b = false <-> ~ a == b.
Proof.
  split; intros H.
  - intros E. apply Qeq_bool_iff in E. congruence.
  - destruct (Qeq_bool a b) eqn:E; [|reflexivity]. apply Qeq_bool_iff in E. contradiction.
Qed.

Definition det (a b c : pt) : Q := (px b - px a) * (py c - py a) - (py b - py a) * (px c - px a).

Lemma orientation_cases a b c :
  (orientation a b c = CCW /\ det a b c < 0) \/ (orientation a b c = CW /\ 0 < det a b c)
  \/ (orientation a b c = CLN /\ det a b c == 0).
Proof.
  unfold orientation. fold (det a b c).
  destruct (Qlt_bool (det a b c) 0) eqn:E1.
  - left. split; [reflexivity|]. now apply Qlt_bool_true.
  - apply Qlt_bool_false in E1. destruct (Qlt_bool 0 (det a b c)) eqn:E2.
    + right; left. split; [reflexivity|]. now apply Qlt_bool_true.
    + apply Qlt_bool_false in E2. right; right. split; [reflexivity|]. lra.
Qed.

Lemma bbox_intro q r p :
  (px q <= px p \/ px r <= px p) -> (px p <= px q \/ px p <= px r) ->
  (py q <= py p \/ py r <= py p) -> (py p <= py q \/ py p <= py r) ->
  Qle_bool (Qmin' (px q) (px r)) (px p) && Qle_bool (px p) (Qmax' (px q) (px r))
  && Qle_bool (Qmin' (py q) (py r)) (py p) && Qle_bool (py p) (Qmax' (py q) (py r)) = true.
Proof.
  intros H1 H2 H3 H4. rewrite !andb_true_iff, !Qle_bool_iff.
  assert (mn : forall a b x, a <= x \/ b <= x -> Qmin' a b <= x).
  { intros a b x H. unfold Qmin'. destruct (Qle_bool a b) eqn:E.
    - apply Qle_bool_iff in E. destruct H; lra.
    - assert (b < a) by (apply Qlt_bool_true; unfold Qlt_bool; now rewrite E). destruct H; lra. }
  assert (mx : forall a b x, x <= a \/ x <= b -> x <= Qmax' a b).
  { intros a b x H. unfold Qmax'. destruct (Qle_bool a b) eqn:E.
    - apply Qle_bool_iff in E. destruct H; lra.
    - assert (b < a) by (apply Qlt_bool_true; unfold Qlt_bool; now rewrite E). destruct H; lra. }
  repeat split; [apply mn | apply mx | apply mn | apply mx]; assumption.
Qed.

(* the geometry of two points on either side of the diagonal, in coordinates relative to a corner *)
Lemma geo_strict X Y a b c e :
  0 < X -> 0 < Y -> 0 <= a -> 0 <= b -> 0 <= c -> 0 <= e ->
  0 < X * b - Y * a -> X * e - Y * c <= 0 -> ~ (c == 0 /\ e == 0) -> 0 < b * c - a * e.
Proof.
  intros HX HY Ha Hb Hc He D1 D2 Hn.
  assert (E : X * (b * c - a * e) == c * (X * b - Y * a) + a * (Y * c - X * e)) by ring.
  destruct (Qlt_le_dec 0 c) as [Hc'|Hc'].
  - assert (0 < c * (X * b - Y * a)) by nra. assert (0 <= a * (Y * c - X * e)) by nra. nra.
  - exfalso. apply Hn. assert (c == 0) by lra. split; [assumption|]. nra.
Qed.

Lemma geo_weak X a b c e D1 D2 :
  0 < X -> 0 <= a -> 0 <= c -> 0 < D1 -> D2 <= 0 ->
  X * (a * e - b * c) == c * D1 - a * D2 -> 0 <= a * e - b * c.
Proof. intros. nra. Qed.

Section OneRect.
  Variables x0 y0 x1 y1 : Q.
  Hypothesis Hx : x0 < x1.
  Hypothesis Hy : y0 < y1.
  Let r := mkRect (x0, y0) (x1, y1).
  Let dg : seg := ((x0, y0), (x1, y1)).
  Let T1 := mkTri 1 (x1, y1) (x0, y0) (x1, y0).
  Let T2 := mkTri 2 (x1, y1) (x0, y0) (x0, y1).

  Lemma tri_one : triangulate [r] = [T1; T2].
  Proof. reflexivity. Qed.

  Local Opaque Qlt_bool Qeq_bool.

  Ltac qb :=
    rewrite ?(proj2 (Qlt_bool_true x0 x1) Hx), ?(proj2 (Qlt_bool_true y0 y1) Hy),
      ?(proj2 (Qlt_bool_false x1 x0) (Qlt_le_weak _ _ Hx)), ?(proj2 (Qlt_bool_false y1 y0) (Qlt_le_weak _ _ Hy)),
      ?(proj2 (Qlt_bool_false x0 x0) (Qle_refl _)), ?(proj2 (Qlt_bool_false x1 x1) (Qle_refl _)),
      ?(proj2 (Qlt_bool_false y0 y0) (Qle_refl _)), ?(proj2 (Qlt_bool_false y1 y1) (Qle_refl _)),
      ?(Qeq_bool_refl x0), ?(Qeq_bool_refl x1), ?(Qeq_bool_refl y0), ?(Qeq_bool_refl y1),
      ?(proj2 (Qeq_bool_false x0 x1) ltac:(lra)), ?(proj2 (Qeq_bool_false x1 x0) ltac:(lra)),
      ?(proj2 (Qeq_bool_false y0 y1) ltac:(lra)), ?(proj2 (Qeq_bool_false y1 y0) ltac:(lra)).

  Lemma dual_T1 : dual_graph T1 [T1; T2] = [(1, 2, dg); (2, 1, dg); (1, 1, dg); (1, 1, dg)]%nat.
  Proof.
    unfold dual_graph, T1, T2, dg. cbn. unfold ordered_side. cbn.
    repeat (progress (unfold seg_eqb, pt_eqb; cbn; qb)). reflexivity.
  Qed.
  Lemma dual_T2 : dual_graph T2 [T1; T2] = [(2, 2, dg); (2, 2, dg); (2, 1, dg); (1, 2, dg)]%nat.
  Proof.
    unfold dual_graph, T1, T2, dg. cbn. unfold ordered_side. cbn.
    repeat (progress (unfold seg_eqb, pt_eqb; cbn; qb)). reflexivity.
  Qed.

  Lemma pt_eqb_refl p : pt_eqb p p = true.
  Proof. unfold pt_eqb. now rewrite !Qeq_bool_refl. Qed.

  Let u : pt := (x0, y0).
  Let w : pt := (x1, y1).
  Lemma pt_wu : pt_eqb w u = false.
  Proof. unfold pt_eqb, w, u. cbn [fst snd]. qb. reflexivity. Qed.

  Lemma walk_two p1 p2 : pt_eqb p2 p1 = false -> walk_pred 4 [(p2, p1)] p2 [] = Ok [p2; p1].
  Proof.
    intros Ne. cbn [walk_pred pred_get]. rewrite pt_eqb_refl. cbn [walk_pred pred_get]. rewrite Ne. reflexivity.
  Qed.

  Definition dqA (p1 : pt) := mkDq [u; p1; w; (0, 0)] 0 2.
  Definition dqB (p1 : pt) := mkDq [w; p1; u; (0, 0)] 0 2.

  Lemma funnelA p1 p2 :
    orientation p1 w p2 = CW -> orientation u p1 p2 <> CCW ->
    funnel [(u, p2)] (u, w) (dqA p1) 1 [] = Ok [(p2, p1)].
  Proof.
    intros O2 O3. cbn [funnel].
    change (peek_back (dqA p1) 1) with w. change (peek_front (dqA p1) 1) with u.
    unfold common_vertex, seg_other. cbn [fst snd]. rewrite (pt_eqb_refl u). cbn [orb].
    rewrite pt_wu. rewrite (pt_eqb_refl u).
    change (Datatypes.S (length (dq_data (dqA p1)))) with 5%nat.
    assert (SR : shrink_right 5 (dqA p1) 1 p2 = Ok (mkDq [u; p1; w; (0, 0)] 0 1)).
    { cbn [shrink_right].
      replace (outside_right (dqA p1) 1 p2) with (negb (orient_eqb (orientation p1 w p2) CW) || false) by reflexivity.
      rewrite O2. cbn [orient_eqb negb orb].
      change (mkDq (dq_data (dqA p1)) (dq_f (dqA p1)) (dq_b (dqA p1) - 1)) with (mkDq [u; p1; w; (0, 0)] 0 1).
      replace (outside_right (mkDq [u; p1; w; (0, 0)] 0 1) 1 p2)
        with (negb (orient_eqb (orientation u p1 p2) CCW)) by reflexivity.
      destruct (orientation u p1 p2); [contradiction | reflexivity | reflexivity]. }
    rewrite SR. cbn [bind]. reflexivity.
  Qed.

  Lemma caseA p1 p2 :
    tri_contains T2 p1 = false -> tri_contains T1 p1 = true -> tri_contains T2 p2 = true ->
    orientation p1 u w = CCW ->
    orientation p1 w p2 = CW ->
    orientation u p1 p2 <> CCW ->
    pt_eqb p2 p1 = false ->
    shortest p1 p2 [r] = Ok [p2; p1].
  Proof.
    intros A1 A2 A3 O1 O2 O3 Ne.
    unfold shortest. rewrite tri_one. cbn [fold_left]. rewrite A1, A2, A3.
    change (t_id T1) with 1%nat. change (t_id T2) with 2%nat. cbn [Nat.eqb].
    rewrite dual_T1. cbn [length]. 
    replace (fst (crossed_diagonals 3 2 [(1, 2, dg); (2, 1, dg); (1, 1, dg); (1, 1, dg)]%nat 1 2 [])) with (Some [dg]) by reflexivity.
    unfold dg. cbn [fst snd]. fold u w. rewrite O1.
    cbn [app last tl fst snd].
    replace (push_back (push_front (push_front _ p1) u) w) with (dqA p1) by reflexivity.
    replace (dq_f (push_front _ p1)) with 1%Z by reflexivity.
    match goal with |- context [funnel ?a ?b ?c ?d ?e] =>
      replace (funnel a b c d e) with (@Ok pred_map [(p2, p1)]) by (symmetry; exact (funnelA p1 p2 O2 O3)) end.
    cbn [bind length].
    match goal with |- context [walk_pred ?a ?b ?c ?d] =>
      replace (walk_pred a b c d) with (Ok [p2; p1]) by (symmetry; exact (walk_two p1 p2 Ne)) end.
    cbn [bind last].
    rewrite pt_eqb_refl. reflexivity.
  Qed.

  Lemma funnelB p1 p2 :
    orientation p1 w p2 = CCW -> orientation u p1 p2 <> CW ->
    funnel [(u, p2)] (u, w) (dqB p1) 1 [] = Ok [(p2, p1)].
  Proof.
    intros O2 O3. cbn [funnel].
    change (peek_back (dqB p1) 1) with u.
    unfold common_vertex, seg_other. cbn [fst snd]. rewrite (pt_eqb_refl u). cbn [orb].
    rewrite (pt_eqb_refl u).
    change (Datatypes.S (length (dq_data (dqB p1)))) with 5%nat.
    assert (SL : shrink_left 5 (dqB p1) 1 p2 = Ok (mkDq [w; p1; u; (0, 0)] 1 2)).
    { cbn [shrink_left].
      replace (outside_left (dqB p1) 1 p2) with (negb (orient_eqb (orientation p1 w p2) CCW) || false) by reflexivity.
      rewrite O2. cbn [orient_eqb negb orb].
      change (mkDq (dq_data (dqB p1)) (dq_f (dqB p1) + 1) (dq_b (dqB p1))) with (mkDq [w; p1; u; (0, 0)] 1 2).
      replace (outside_left (mkDq [w; p1; u; (0, 0)] 1 2) 1 p2)
        with (negb (orient_eqb (orientation u p1 p2) CW)) by reflexivity.
      destruct (orientation u p1 p2); [reflexivity | reflexivity | contradiction]. }
    rewrite SL. cbn [bind]. reflexivity.
  Qed.

  Lemma caseB p1 p2 :
    tri_contains T2 p1 = true -> tri_contains T2 p2 = false -> tri_contains T1 p2 = true ->
    orientation p1 u w <> CCW ->
    orientation p1 w p2 = CCW ->
    orientation u p1 p2 <> CW ->
    pt_eqb p2 p1 = false ->
    shortest p1 p2 [r] = Ok [p2; p1].
  Proof.
    intros A1 A2 A3 O1 O2 O3 Ne.
    unfold shortest. rewrite tri_one. cbn [fold_left]. rewrite A1, A2, A3.
    change (t_id T1) with 1%nat. change (t_id T2) with 2%nat. cbn [Nat.eqb].
    rewrite dual_T2. cbn [length].
    replace (fst (crossed_diagonals 3 2 [(2, 2, dg); (2, 2, dg); (2, 1, dg); (1, 2, dg)]%nat 2 1 [])) with (Some [dg]) by reflexivity.
    unfold dg. cbn [fst snd]. fold u w.
    cbn [app last tl fst snd].
    assert (DQ : forall d0, match orientation p1 u w with
                 | CCW => push_back (push_front (push_front d0 p1) u) w
                 | _ => push_back (push_front (push_front d0 p1) w) u
                 end = push_back (push_front (push_front d0 p1) w) u).
    { intros d0. destruct (orientation p1 u w); [contradiction | reflexivity | reflexivity]. }
    rewrite DQ.
    replace (push_back (push_front (push_front _ p1) w) u) with (dqB p1) by reflexivity.
    replace (dq_f (push_front _ p1)) with 1%Z by reflexivity.
    match goal with |- context [funnel ?a ?b ?c ?d ?e] =>
      replace (funnel a b c d e) with (@Ok pred_map [(p2, p1)]) by (symmetry; exact (funnelB p1 p2 O2 O3)) end.
    cbn [bind length].
    match goal with |- context [walk_pred ?a ?b ?c ?d] =>
      replace (walk_pred a b c d) with (Ok [p2; p1]) by (symmetry; exact (walk_two p1 p2 Ne)) end.
    cbn [bind last].
    rewrite pt_eqb_refl. reflexivity.
  Qed.

  Lemma same_case p1 p2 :
    tri_contains T2 p1 = tri_contains T2 p2 ->
    (tri_contains T2 p1 = false -> tri_contains T1 p1 = tri_contains T1 p2) ->
    shortest p1 p2 [r] = Ok [p2; p1].
  Proof.
    intros E2 E1. unfold shortest. rewrite tri_one. cbn [fold_left]. rewrite <- E2.
    destruct (tri_contains T2 p1) eqn:B2.
    - reflexivity.
    - rewrite <- (E1 eq_refl). destruct (tri_contains T1 p1); reflexivity.
  Qed.

  (* ----- which triangle contains a point of the rectangle ----- *)
  Definition in_r (p : pt) : Prop := (x0 <= px p /\ px p <= x1) /\ (y0 <= py p /\ py p <= y1).
  Definition diag_det (p : pt) : Q := (x0 - x1) * (py p - y1) - (y0 - y1) * (px p - x1).

  Ltac orient_split :=
    match goal with
    | |- context [orientation ?a ?b ?c] =>
        let H := fresh "H" in
        destruct (orientation_cases a b c) as [[-> H]|[[-> H]|[-> H]]];
        unfold det, px, py in H; cbn [fst snd] in H
    end.
  Ltac leaf :=
    first [ reflexivity
          | exfalso; nra
          | apply bbox_intro; unfold px, py; cbn [fst snd]; first [left; nra | right; nra] ].

  Lemma T2_in p : in_r p -> diag_det p <= 0 -> tri_contains T2 p = true.
  Proof.
    intros [[X0 X1] [Y0 Y1]] HD. unfold diag_det in HD. unfold px, py in *.
    unfold tri_contains, T2. cbn [tri_pts t_a t_b t_c]. cbn -[orientation Qle_bool Qmin' Qmax' px py].
    orient_split; [ | leaf | leaf].
    orient_split; [ | leaf | leaf].
    orient_split; leaf.
  Qed.

  Lemma T2_out p : in_r p -> 0 < diag_det p -> tri_contains T2 p = false.
  Proof.
    intros [[X0 X1] [Y0 Y1]] HD. unfold diag_det in HD. unfold px, py in *.
    unfold tri_contains, T2. cbn [tri_pts t_a t_b t_c]. cbn -[orientation Qle_bool Qmin' Qmax' px py].
    orient_split; [leaf | | leaf].
    orient_split; [ | leaf | leaf].
    orient_split; leaf.
  Qed.

  Lemma T1_in p : in_r p -> 0 < diag_det p -> tri_contains T1 p = true.
  Proof.
    intros [[X0 X1] [Y0 Y1]] HD. unfold diag_det in HD. unfold px, py in *.
    unfold tri_contains, T1. cbn [tri_pts t_a t_b t_c]. cbn -[orientation Qle_bool Qmin' Qmax' px py].
    orient_split; [leaf | | leaf].
    orient_split; [leaf | | leaf].
    orient_split; leaf.
  Qed.

  Lemma orient_ne a b c o : (orientation a b c = o -> False) -> orientation a b c <> o.
  Proof. intros H E. exact (H E). Qed.

  Definition is_br (p : pt) : Prop := px p == x1 /\ py p == y1.

  Theorem one_rect p1 p2 :
    in_r p1 -> in_r p2 -> (0 < diag_det p1 -> ~ is_br p2) -> (0 < diag_det p2 -> ~ is_br p1) ->
    shortest p1 p2 [r] = Ok [p2; p1].
  Proof.
    intros I1 I2 N2 N1.
    destruct (Qlt_le_dec 0 (diag_det p1)) as [D1|D1]; destruct (Qlt_le_dec 0 (diag_det p2)) as [D2|D2].
    - apply same_case.
      + now rewrite !T2_out.
      + intros _. now rewrite !T1_in.
    - (* p1 strictly above the diagonal, p2 on or below it *)
      specialize (N2 D1).
      destruct I1 as [[X0 X1] [Y0 Y1]], I2 as [[U0 U1] [V0 V1]].
      assert (J1 : in_r p1) by (repeat split; assumption).
      assert (J2 : in_r p2) by (repeat split; assumption).
      unfold is_br in N2. unfold diag_det in D1, D2. unfold px, py in *.
      apply caseA.
      + apply T2_out; [exact J1 | exact D1].
      + apply T1_in; [exact J1 | exact D1].
      + apply T2_in; [exact J2 | exact D2].
      + destruct (orientation_cases p1 u w) as [[E H]|[[E H]|[E H]]]; [exact E | exfalso | exfalso];
          unfold det, u, w, px, py in H; cbn [fst snd] in H; nra.
      + assert (G : 0 < (y1 - snd p1) * (x1 - fst p2) - (x1 - fst p1) * (y1 - snd p2)).
        { apply geo_strict with (X := x1 - x0) (Y := y1 - y0); try lra; try nra. }
        destruct (orientation_cases p1 w p2) as [[E H]|[[E H]|[E H]]]; [exfalso | exact E | exfalso];
          unfold det, u, w, px, py in H; cbn [fst snd] in H; nra.
      + apply orient_ne. intros E.
        destruct (orientation_cases u p1 p2) as [[_ H]|[[E' _]|[E' _]]]; [|congruence|congruence].
        unfold det, u, w, px, py in H; cbn [fst snd] in H.
        assert (G : 0 <= (fst p1 - x0) * (snd p2 - y0) - (snd p1 - y0) * (fst p2 - x0)).
        { apply geo_weak with (X := x1 - x0) (D1 := (x0 - x1) * (snd p1 - y1) - (y0 - y1) * (fst p1 - x1))
                          (D2 := (x0 - x1) * (snd p2 - y1) - (y0 - y1) * (fst p2 - x1)); try lra; try ring. }
        nra.
      + destruct (pt_eqb p2 p1) eqn:E; [|reflexivity]. exfalso.
        unfold pt_eqb in E. apply andb_true_iff in E. destruct E as [E1 E2].
        apply Qeq_bool_iff in E1, E2. rewrite E1, E2 in D2. lra.
    - (* p1 on or below the diagonal, p2 strictly above it *)
      specialize (N1 D2).
      destruct I1 as [[X0 X1] [Y0 Y1]], I2 as [[U0 U1] [V0 V1]].
      assert (J1 : in_r p1) by (repeat split; assumption).
      assert (J2 : in_r p2) by (repeat split; assumption).
      unfold is_br in N1. unfold diag_det in D1, D2. unfold px, py in *.
      apply caseB.
      + apply T2_in; [exact J1 | exact D1].
      + apply T2_out; [exact J2 | exact D2].
      + apply T1_in; [exact J2 | exact D2].
      + apply orient_ne. intros E.
        destruct (orientation_cases p1 u w) as [[_ H]|[[E' _]|[E' _]]]; [|congruence|congruence].
        unfold det, u, w, px, py in H; cbn [fst snd] in H; nra.
      + assert (G : 0 < (y1 - snd p2) * (x1 - fst p1) - (x1 - fst p2) * (y1 - snd p1)).
        { apply geo_strict with (X := x1 - x0) (Y := y1 - y0); try lra; try nra. }
        destruct (orientation_cases p1 w p2) as [[E H]|[[E H]|[E H]]]; [exact E | exfalso | exfalso];
          unfold det, u, w, px, py in H; cbn [fst snd] in H; nra.
      + apply orient_ne. intros E.
        destruct (orientation_cases u p1 p2) as [[E' _]|[[_ H]|[E' _]]]; [congruence| |congruence].
        unfold det, u, w, px, py in H; cbn [fst snd] in H.
        assert (G : 0 <= (fst p2 - x0) * (snd p1 - y0) - (snd p2 - y0) * (fst p1 - x0)).
        { apply geo_weak with (X := x1 - x0) (D1 := (x0 - x1) * (snd p2 - y1) - (y0 - y1) * (fst p2 - x1))
                          (D2 := (x0 - x1) * (snd p1 - y1) - (y0 - y1) * (fst p1 - x1)); try lra; try ring. }
        nra.
      + destruct (pt_eqb p2 p1) eqn:E; [|reflexivity]. exfalso.
        unfold pt_eqb in E. apply andb_true_iff in E. destruct E as [E1 E2].
        apply Qeq_bool_iff in E1, E2. rewrite E1, E2 in D2. lra.
    - apply same_case.
      + now rewrite !T2_in.
      + intros H. rewrite T2_in in H; [discriminate | assumption | assumption].
  Qed.
End OneRect.

Transparent Qlt_bool Qeq_bool.

Definition pt_eq (a b : pt) : Prop := px a == px b /\ py a == py b.
(* strictly on the upper-right side of the diagonal tl-br (the side of the corner (br.x, tl.y)) *)
Definition above_diag (r : rect) (p : pt) : Prop :=
  0 < (px (r_tl r) - px (r_br r)) * (py p - py (r_br r)) - (py (r_tl r) - py (r_br r)) * (px p - px (r_br r)).
Definition rect_strict (r : rect) : Prop := px (r_tl r) < px (r_br r) /\ py (r_tl r) < py (r_br r).

(* G2, sharp form: inside one rectangle the router answers the straight segment, EXCEPT when one point is the
   bottom-right corner and the other lies strictly above the diagonal (see the counterexamples below). *)
Theorem shortest_one_rect_sharp r p1 p2 :
  rect_strict r -> in_rect r p1 -> in_rect r p2 ->
  (above_diag r p1 -> ~ pt_eq p2 (r_br r)) -> (above_diag r p2 -> ~ pt_eq p1 (r_br r)) ->
  shortest p1 p2 [r] = Ok [p2; p1].
Proof.
  destruct r as [[x0 y0] [x1 y1]]. unfold rect_strict, in_rect, above_diag, pt_eq.
  cbn [r_tl r_br]. unfold px at 1 2 3 4, py at 1 2 3 4. cbn [fst snd].
  intros [Hx Hy] I1 I2 N2 N1.
  apply (one_rect x0 y0 x1 y1 Hx Hy p1 p2).
  - unfold in_r. unfold px, py in *. cbn [fst snd] in *. tauto.
  - unfold in_r. unfold px, py in *. cbn [fst snd] in *. tauto.
  - intros HD. apply N2. exact HD.
  - intros HD. apply N1. exact HD.
Qed.
Print Assumptions shortest_one_rect_sharp.

Corollary shortest_one_rect r p1 p2 :
  rect_strict r -> in_rect r p1 -> in_rect r p2 -> ~ pt_eq p1 (r_br r) -> ~ pt_eq p2 (r_br r) ->
  shortest p1 p2 [r] = Ok [p2; p1].
Proof. intros Hr I1 I2 N1 N2. apply shortest_one_rect_sharp; auto. Qed.

(* the answer lies inside the rectangle: the checker accepts it, and every point of the segment is in r *)
Corollary shortest_one_rect_inside r p1 p2 :
  rect_strict r -> in_rect r p1 -> in_rect r p2 -> ~ pt_eq p1 (r_br r) -> ~ pt_eq p2 (r_br r) ->
  exists path, shortest p1 p2 [r] = Ok path /\ path_inside [r] path = true /\
               forall p, on_segment p2 p1 p -> in_rect r p.
Proof.
  intros Hr I1 I2 N1 N2. exists [p2; p1]. split; [apply shortest_one_rect; assumption|]. split.
  - unfold path_inside. cbn [forallb segs_inside]. unfold pt_inside. cbn [existsb].
    rewrite (proj2 (in_rectb_iff r p1) I1), (proj2 (in_rectb_iff r p2) I2). cbn [orb andb].
    rewrite (seg_inside_same_rect [r] r p2 p1 (or_introl eq_refl) I2 I1). reflexivity.
  - intros p Hp. exact (in_rect_convex r p2 p1 p I2 I1 Hp).
Qed.
Print Assumptions shortest_one_rect_inside.

Example ex_one_rect :
  let r := mkRect (0, 0) (10, 6) in
  rect_strict r /\ in_rect r (8, 1) /\ in_rect r (2, 5) /\ ~ pt_eq (8, 1) (r_br r) /\ ~ pt_eq (2, 5) (r_br r) /\
  shortest (8, 1) (2, 5) [r] = Ok [(2, 5); (8, 1)].
Proof.
  cbv zeta. unfold rect_strict, in_rect, pt_eq. cbn [r_tl r_br px py fst snd].
  repeat split; try lra; try (intros [H1 H2]; lra).
Qed.

(* COUNTEREXAMPLES (both points are in the rectangle): with the end point at the bottom-right corner and the
   start strictly above the diagonal the predecessor map gets the cycle br -> br (the Go loop does not end);
   with the start at the corner the deque index becomes -1 (Go panics). *)
Example ex_one_rect_loops : shortest (3, 0) (10, 6) [mkRect (0, 0) (10, 6)] = Err (ErrFuel 65).
Proof. vm_compute. reflexivity. Qed.
Example ex_one_rect_panics : shortest (10, 6) (3, 0) [mkRect (0, 0) (10, 6)] = Err (ErrIndex 63).
Proof. vm_compute. reflexivity. Qed.

(* ================= G3: the lower bound, in the real numbers ================= *)
Require Import Reals Lra Qreals.

Module RealLength.
  Local Open Scope R_scope.

  Definition rpt := (R * R)%type.
  Definition dist (a b : rpt) : R := sqrt (Rsqr (fst a - fst b) + Rsqr (snd a - snd b)).

  (* Euclidean length of a polyline *)
  Fixpoint plen (l : list rpt) : R :=
    match l with
    | a :: ((b :: _) as t) => dist a b + plen t
    | _ => 0
    end.

  Lemma dist_refl a : dist a a = 0.
  Proof. unfold dist. apply (distance_refl (fst a) (snd a)). Qed.

  Lemma dist_triangle a b c : dist a b <= dist a c + dist c b.
  Proof. unfold dist. apply (triangle (fst a) (snd a) (fst b) (snd b) (fst c) (snd c)). Qed.

  Lemma dist_nonneg a b : 0 <= dist a b.
  Proof. unfold dist. apply sqrt_pos. Qed.

  Lemma dist_sym a b : dist a b = dist b a.
  Proof. unfold dist. apply (distance_symm (fst a) (snd a) (fst b) (snd b)). Qed.

  Lemma plen_nonneg l : 0 <= plen l.
  Proof.
    induction l as [|a l IH]; [cbn; lra|]. destruct l as [|b l]; [cbn; lra|].
    change (0 <= dist a b + plen (b :: l)). pose proof (dist_nonneg a b). lra.
  Qed.

  Lemma last_cons_cons {A} (x y : A) (l : list A) (d : A) : last (x :: y :: l) d = last (y :: l) d.
  Proof. reflexivity. Qed.

  Lemma last_default_irrelevant {A} (y : A) (l : list A) (d d' : A) : last (y :: l) d = last (y :: l) d'.
  Proof.
    revert y. induction l as [|z l IH]; intros y; [reflexivity|].
    rewrite !last_cons_cons. apply IH.
  Qed.

  Lemma plen_ge_dist_from a l : dist a (last l a) <= plen (a :: l).
  Proof.
    revert a. induction l as [|x l IH]; intros a.
    - cbn [last plen]. rewrite dist_refl. lra.
    - change (plen (a :: x :: l)) with (dist a x + plen (x :: l)).
      specialize (IH x).
      assert (E : last (x :: l) a = last l x).
      { destruct l as [|y l]; [reflexivity|]. rewrite last_cons_cons. apply last_default_irrelevant. }
      rewrite E. pose proof (dist_triangle a (last l x) x). lra.
  Qed.

  (* the length of a polyline is at least the distance between its first and last points *)
  Theorem plen_ge_dist path a b :
    hd_error path = Some a -> last path a = b -> dist a b <= plen path.
  Proof.
    intros Hh Hl. destruct path as [|x l]; [discriminate Hh|]. injection Hh as ->.
    rewrite <- Hl. destruct l as [|y l].
    - cbn [last plen]. rewrite dist_refl. lra.
    - rewrite last_cons_cons. rewrite (last_default_irrelevant y l a y).
      change (last (y :: l) y) with (last (y :: l) y).
      pose proof (plen_ge_dist_from a (y :: l)) as H.
      rewrite (last_default_irrelevant y l a y) in H. exact H.
  Qed.

  (* a two-point path is a shortest path between its end points among ALL polylines (inside the corridor or not) *)
  Corollary straight_is_shortest path a b :
    hd_error path = Some a -> last path a = b -> plen [a; b] <= plen path.
  Proof.
    intros Hh Hl. change (plen [a; b]) with (dist a b + 0). pose proof (plen_ge_dist path a b Hh Hl). lra.
  Qed.

  (* the same for the rational points of the model *)
  Definition pt2R (p : pt) : rpt := (Q2R (px p), Q2R (py p)).
  Definition rlen (path : list pt) : R := plen (map pt2R path).

  Corollary straight_is_shortest_pt (path : list pt) (p2 p1 : pt) :
    hd_error path = Some p2 -> last path p2 = p1 -> rlen [p2; p1] <= rlen path.
  Proof.
    intros Hh Hl. unfold rlen. cbn [map]. apply straight_is_shortest.
    - destruct path; [discriminate Hh|]. injection Hh as ->. reflexivity.
    - rewrite <- Hl. clear. induction path as [|x l IH]; [reflexivity|].
      destruct l as [|y l]; [reflexivity|]. cbn [map] in *. rewrite !last_cons_cons. exact IH.
  Qed.

  Example ex_rlen : rlen [(3, 4)%Q; (0, 0)%Q] = 5.
  Proof.
    unfold rlen. cbn [map plen]. unfold dist, pt2R, px, py. cbn [fst snd].
    replace (Q2R 3) with 3 by (unfold Q2R; cbn; lra).
    replace (Q2R 4) with 4 by (unfold Q2R; cbn; lra).
    replace (Q2R 0) with 0 by (unfold Q2R; cbn; lra).
    replace (Rsqr (3 - 0) + Rsqr (4 - 0)) with (Rsqr 5) by (unfold Rsqr; lra).
    rewrite sqrt_Rsqr by lra. lra.
  Qed.
End RealLength.

Print Assumptions RealLength.plen_ge_dist.
Print Assumptions RealLength.straight_is_shortest_pt.

(* G2 + G3 together: in one rectangle the router's answer is inside the rectangle and no polyline between the same
   end points (inside the corridor or not) is shorter *)
Theorem one_rect_optimal r p1 p2 :
  rect_strict r -> in_rect r p1 -> in_rect r p2 -> ~ pt_eq p1 (r_br r) -> ~ pt_eq p2 (r_br r) ->
  exists path, shortest p1 p2 [r] = Ok path /\ path_inside [r] path = true /\
    forall other : list pt, hd_error other = Some p2 -> last other p2 = p1 ->
      (RealLength.rlen path <= RealLength.rlen other)%R.
Proof.
  intros Hr I1 I2 N1 N2. exists [p2; p1].
  destruct (shortest_one_rect_inside r p1 p2 Hr I1 I2 N1 N2) as [path [E [Hin _]]].
  rewrite (shortest_one_rect r p1 p2 Hr I1 I2 N1 N2) in E. injection E as <-.
  split; [apply shortest_one_rect; assumption|]. split; [exact Hin|].
  intros other Hh Hl. apply RealLength.straight_is_shortest_pt; assumption.
Qed.
Print Assumptions one_rect_optimal.
