(* GeomTwo.v — the corridor router on corridors of TWO rectangles (property C19), part 1:
   symbolic evaluation of [shortest p1 p2 [r1; r2]] (triangulate + dual graph + DFS + funnel + walk)
   on a generic pair of stacked rectangles, start strictly inside the top edge of r1, end strictly inside the
   bottom edge of r2.  The evaluation is done by a small tactic "engine" that decides every comparison of
   coordinates by [lra] and every orientation test by [nra], splitting on the tests that are not determined.

   Main result:  [shortest_two_rect]
       two_rect_class r1 r2 p1 p2 = true -> shortest p1 p2 [r1; r2] = Ok (two_rect_path r1 r2 p1 p2)
   for ALL nine relative positions of the x-ranges (left sides <, ==, > ; right sides <, ==, >): lemmas
   [two_lt_lt] ... [two_gt_gt] of Section Two.  [two_rect_path] is the straight segment [p2; p1] when p1, the left end
   of the shared boundary segment and p2 do not turn clockwise (the straight line passes on or right of the left end)
   and p1, the right end and p2 do (it passes strictly left of the right end); else it is [p2; c; p1] with c the end
   that is missed (GeomTwo2.two_rect_path_spec says this with the crossing abscissa).
   Containment and optimality are in GeomTwo2.v. *)
From Coq Require Import Lqa.
From Autog Require Import Base Geom GeomProofs.
Local Open Scope Q_scope.

(* ================= deciding comparisons and orientations ================= *)
Lemma orient_ccw a b c : det a b c < 0 -> orientation a b c = CCW.
Proof. intros H. destruct (orientation_cases a b c) as [[E _]|[[_ H']|[_ H']]]; [exact E | lra | lra]. Qed.
Lemma orient_cw a b c : 0 < det a b c -> orientation a b c = CW.
Proof. intros H. destruct (orientation_cases a b c) as [[_ H']|[[E _]|[_ H']]]; [lra | exact E | lra]. Qed.
Lemma orient_cln a b c : det a b c == 0 -> orientation a b c = CLN.
Proof. intros H. destruct (orientation_cases a b c) as [[_ H']|[[_ H']|[E _]]]; [lra | lra | exact E]. Qed.

Lemma Qle_bool_false a b : Qle_bool a b = false <-> b < a.
Proof.
  split; intros H.
  - apply Qnot_le_lt. intros Hle. apply Qle_bool_iff in Hle. congruence.
  - destruct (Qle_bool a b) eqn:E; [|reflexivity]. apply Qle_bool_iff in E. lra.
Qed.

Lemma if_same {A} (b : bool) (x : A) : (if b then x else x) = x.
Proof. destruct b; reflexivity. Qed.

Ltac qdec1 :=
  match goal with
  | |- context [Qlt_bool ?x ?y] =>
      first [ rewrite (proj2 (Qlt_bool_true x y)) by lra | rewrite (proj2 (Qlt_bool_false x y)) by lra ]
  | |- context [Qeq_bool ?x ?y] =>
      first [ rewrite (proj2 (Qeq_bool_iff x y)) by lra | rewrite (proj2 (Qeq_bool_false x y)) by lra ]
  | |- context [Qle_bool ?x ?y] =>
      first [ rewrite (proj2 (Qle_bool_iff x y)) by lra | rewrite (proj2 (Qle_bool_false x y)) by lra ]
  end.

Ltac det_goal := unfold det, px, py; cbn [fst snd]; nra.
Ltac odec a b c :=
  first [ rewrite (orient_ccw a b c) by det_goal
        | rewrite (orient_cw a b c) by det_goal
        | rewrite (orient_cln a b c) by det_goal ].
Ltac osplit a b c :=
  let H := fresh "HO" in
  destruct (orientation_cases a b c) as [[-> H]|[[-> H]|[-> H]]]; unfold det, px, py in H; cbn [fst snd] in H.

(* ================= tri_contains in flat form ================= *)
Definition bbox (q r p : pt) : bool :=
  Qle_bool (Qmin' (px q) (px r)) (px p) && Qle_bool (px p) (Qmax' (px q) (px r))
  && Qle_bool (Qmin' (py q) (py r)) (py p) && Qle_bool (py p) (Qmax' (py q) (py r)).

Definition tc3 (a b c p : pt) : bool :=
  match orientation a b p with
  | CLN => bbox a b p
  | o1 => match orientation b c p with
          | CLN => bbox b c p
          | o2 => match orientation c a p with
                  | CLN => bbox c a p
                  | o3 => orient_eqb o1 o2 && orient_eqb o2 o3
                  end
          end
  end.

Lemma tri_contains_eq t p : tri_contains t p = tc3 (t_a t) (t_b t) (t_c t) p.
Proof.
  destruct t as [n a b c]. unfold tri_contains, tc3, bbox. cbn [t_a t_b t_c tri_pts].
  cbn -[orientation Qle_bool Qmin' Qmax' px py].
  destruct (orientation a b p), (orientation b c p), (orientation c a p); reflexivity.
Qed.

Ltac tc_tac :=
  rewrite tri_contains_eq; unfold tc3; cbn [t_a t_b t_c];
  repeat match goal with |- (match orientation ?a ?b ?c with _ => _ end) = _ => odec a b c end;
  try reflexivity;
  unfold bbox, Qmin', Qmax', px, py; cbn [fst snd]; repeat (qdec1; cbn [andb]); reflexivity.

Lemma bbox_false_y_above q r p : py p < py q -> py p < py r -> bbox q r p = false.
Proof.
  intros H1 H2. unfold bbox.
  assert (E : Qle_bool (Qmin' (py q) (py r)) (py p) = false).
  { apply Qle_bool_false. destruct (Qmin'_spec (py q) (py r)) as [_ [_ [E|E]]]; rewrite E; assumption. }
  rewrite E. rewrite andb_false_r. reflexivity.
Qed.
Lemma bbox_false_y_below q r p : py q < py p -> py r < py p -> bbox q r p = false.
Proof.
  intros H1 H2. unfold bbox.
  assert (E : Qle_bool (py p) (Qmax' (py q) (py r)) = false).
  { apply Qle_bool_false. destruct (Qmax'_spec (py q) (py r)) as [_ [_ [E|E]]]; rewrite E; assumption. }
  rewrite E. rewrite andb_false_r. reflexivity.
Qed.

Lemma tc3_false_above a b c p : py p < py a -> py p < py b -> py p < py c -> tc3 a b c p = false.
Proof.
  intros Ha Hb Hc. unfold tc3.
  destruct (orientation_cases a b p) as [[E1 H1]|[[E1 H1]|[E1 H1]]];
  destruct (orientation_cases b c p) as [[E2 H2]|[[E2 H2]|[E2 H2]]];
  destruct (orientation_cases c a p) as [[E3 H3]|[[E3 H3]|[E3 H3]]];
  rewrite E1, ?E2, ?E3; cbv iota beta; cbn [orient_eqb andb];
  try reflexivity; try (apply bbox_false_y_above; assumption);
  exfalso; unfold det in *;
  assert (E : ((px b - px a) * (py p - py a) - (py b - py a) * (px p - px a)) * (py c - py p)
            + ((px c - px b) * (py p - py b) - (py c - py b) * (px p - px b)) * (py a - py p)
            + ((px a - px c) * (py p - py c) - (py a - py c) * (px p - px c)) * (py b - py p) == 0) by ring;
  nra.
Qed.
Lemma tc3_false_below a b c p : py a < py p -> py b < py p -> py c < py p -> tc3 a b c p = false.
Proof.
  intros Ha Hb Hc. unfold tc3.
  destruct (orientation_cases a b p) as [[E1 H1]|[[E1 H1]|[E1 H1]]];
  destruct (orientation_cases b c p) as [[E2 H2]|[[E2 H2]|[E2 H2]]];
  destruct (orientation_cases c a p) as [[E3 H3]|[[E3 H3]|[E3 H3]]];
  rewrite E1, ?E2, ?E3; cbv iota beta; cbn [orient_eqb andb];
  try reflexivity; try (apply bbox_false_y_below; assumption);
  exfalso; unfold det in *;
  assert (E : ((px b - px a) * (py p - py a) - (py b - py a) * (px p - px a)) * (py c - py p)
            + ((px c - px b) * (py p - py b) - (py c - py b) * (px p - px b)) * (py a - py p)
            + ((px a - px c) * (py p - py c) - (py a - py c) * (px p - px c)) * (py b - py p) == 0) by ring;
  nra.
Qed.

Lemma tc_false_above t p :
  py p < py (t_a t) -> py p < py (t_b t) -> py p < py (t_c t) -> tri_contains t p = false.
Proof. intros. rewrite tri_contains_eq. now apply tc3_false_above. Qed.
Lemma tc_false_below t p :
  py (t_a t) < py p -> py (t_b t) < py p -> py (t_c t) < py p -> tri_contains t p = false.
Proof. intros. rewrite tri_contains_eq. now apply tc3_false_below. Qed.

(* the last triangle containing p *)
Ltac tc_sep := cbn [t_a t_b t_c px py fst snd]; lra.
Ltac pick_tri :=
  cbn [fold_left];
  repeat match goal with
    | |- (if tri_contains ?t ?p then _ else _) = _ =>
        first [ rewrite (tc_false_above t p) by tc_sep
              | rewrite (tc_false_below t p) by tc_sep
              | let H := fresh in assert (H : tri_contains t p = false) by tc_tac; rewrite H; clear H
              | let H := fresh in assert (H : tri_contains t p = true) by tc_tac; rewrite H; clear H ]
    end;
  match goal with |- (if _ then _ else _) = _ => fail 1 | |- _ => reflexivity end.

(* ================= dual graph, one side at a time ================= *)
Definition dg_step (t : tri) (acc : list (seg * nat) * list adj_entry) (i : nat) :=
  let '(pm, adj) := acc in
  let side := ordered_side t i in
  match find_side side pm with
  | None => (pm ++ [(side, t_id t)], adj)
  | Some id => (pm, (id, t_id t, side) :: (t_id t, id, side) :: adj)
  end.

Lemma dual_graph_unfold start ts :
  dual_graph start ts =
  snd (fold_left (fun acc t => dg_step t (dg_step t (dg_step t acc 0%nat) 1%nat) 2%nat) ts
         ([(ordered_side start 0, t_id start)], [])).
Proof. reflexivity. Qed.

Lemma dg_step_none t pm adj i s :
  ordered_side t i = s -> find_side s pm = None -> dg_step t (pm, adj) i = (pm ++ [(s, t_id t)], adj).
Proof. intros <- H. unfold dg_step. now rewrite H. Qed.
Lemma dg_step_some t pm adj i s id :
  ordered_side t i = s -> find_side s pm = Some id ->
  dg_step t (pm, adj) i =
  (pm, (((id, t_id t, s) : adj_entry) :: ((t_id t, id, s) : adj_entry) :: adj : list adj_entry)).
Proof. intros <- H. unfold dg_step. now rewrite H. Qed.

Lemma seg_eqb_true (x1 y1 x2 y2 x3 y3 x4 y4 : Q) :
  x1 == x3 -> y1 == y3 -> x2 == x4 -> y2 == y4 -> seg_eqb ((x1, y1), (x2, y2)) ((x3, y3), (x4, y4)) = true.
Proof.
  intros A B C D. unfold seg_eqb, pt_eqb. cbn [fst snd].
  now rewrite (proj2 (Qeq_bool_iff _ _) A), (proj2 (Qeq_bool_iff _ _) B), (proj2 (Qeq_bool_iff _ _) C),
    (proj2 (Qeq_bool_iff _ _) D).
Qed.
Lemma seg_eqb_false (x1 y1 x2 y2 x3 y3 x4 y4 : Q) :
  (~ x1 == x3) \/ (~ y1 == y3) \/ (~ x2 == x4) \/ (~ y2 == y4) ->
  seg_eqb ((x1, y1), (x2, y2)) ((x3, y3), (x4, y4)) = false.
Proof.
  intros H. unfold seg_eqb, pt_eqb. cbn [fst snd].
  destruct H as [H|[H|[H|H]]]; apply Qeq_bool_false in H; rewrite H; rewrite ?andb_false_r; reflexivity.
Qed.
Lemma find_side_ne s k v t : seg_eqb s k = false -> find_side s ((k, v) :: t) = find_side s t.
Proof. intros H. cbn [find_side]. now rewrite H. Qed.
Lemma find_side_eq s k v t : seg_eqb s k = true -> find_side s ((k, v) :: t) = Some v.
Proof. intros H. cbn [find_side]. now rewrite H. Qed.

Ltac seg_dec :=
  first [ apply seg_eqb_true; lra
        | apply seg_eqb_false; first [ left; lra | right; left; lra | right; right; left; lra | right; right; right; lra ] ].
Ltac find_side_eval :=
  repeat first [ rewrite find_side_ne by seg_dec | rewrite find_side_eq by seg_dec ];
  try reflexivity.
Ltac side_eval :=
  unfold ordered_side; cbn [tri_pts t_a t_b t_c nth Nat.modulo Nat.divmod Nat.add fst snd px py Nat.sub];
  repeat qdec1; reflexivity.
Ltac dg_one :=
  match goal with
  | |- context [dg_step ?t (?pm, ?adj) ?i] =>
      let s := fresh "s" in let Hs := fresh "Hs" in
      evar (s : seg);
      assert (Hs : ordered_side t i = s) by (subst s; side_eval);
      subst s;
      first [ erewrite (dg_step_none t pm adj i _ Hs) by find_side_eval
            | erewrite (dg_step_some t pm adj i _ _ Hs) by find_side_eval ];
      clear Hs; cbv [t_id app]
  end.
Ltac dual_eval :=
  rewrite dual_graph_unfold; cbn [fold_left];
  match goal with
  | |- context [ordered_side ?t 0] =>
      let s := fresh "s" in let Hs := fresh "Hs" in
      evar (s : seg);
      assert (Hs : ordered_side t 0 = s) by (subst s; side_eval);
      subst s; rewrite Hs; clear Hs
  end;
  cbv [t_id];
  repeat dg_one; cbn [snd].

(* ================= the funnel, one step at a time ================= *)
Lemma funnel_cons cur rest prev d apex pm :
  funnel (cur :: rest) prev d apex pm =
      let c := common_vertex prev cur in
      let fuel := S (length (dq_data d)) in
      if pt_eqb (peek_back d 1) c then
        let v := seg_other cur c in
        do d <- shrink_left fuel d apex v;
        if negb (dq_in d (dq_f d - 1)) then Err (ErrIndex 63) else
        let apex := if (apex <? dq_f d)%Z then dq_f d else apex in
        funnel rest cur (push_front d v) apex ((v, peek_front d 1) :: pm)
      else if pt_eqb (peek_front d 1) c then
        let v := seg_other cur c in
        do d <- shrink_right fuel d apex v;
        if negb (dq_in d (dq_b d + 1)) then Err (ErrIndex 63) else
        let apex := if (dq_b d <? apex)%Z then dq_b d else apex in
        funnel rest cur (push_back d v) apex ((v, peek_back d 1) :: pm)
      else Err (ErrIndex 64).
Proof. reflexivity. Qed.
Lemma funnel_nil prev d apex pm : funnel [] prev d apex pm = Ok pm.
Proof. reflexivity. Qed.
Lemma shrink_left_S f d apex v :
  shrink_left (S f) d apex v =
  if outside_left d apex v then Ok d else shrink_left f (mkDq (dq_data d) (dq_f d + 1) (dq_b d)) apex v.
Proof. reflexivity. Qed.
Lemma shrink_right_S f d apex v :
  shrink_right (S f) d apex v =
  if outside_right d apex v then Ok d else shrink_right f (mkDq (dq_data d) (dq_f d) (dq_b d - 1)) apex v.
Proof. reflexivity. Qed.
Lemma walk_pred_S f pm u acc :
  walk_pred (S f) pm u acc =
      match pred_get pm u with
      | Some w => walk_pred f pm w (acc ++ [u])
      | None => Ok (acc ++ [u])
      end.
Proof. reflexivity. Qed.

Ltac enorm := cbv -[orientation Qeq_bool Qlt_bool Qle_bool funnel shrink_left shrink_right walk_pred].
Ltac estep :=
  first [ rewrite !if_same
        | qdec1
        | match goal with |- context [orientation ?a ?b ?c] => first [odec a b c | osplit a b c] end
        | rewrite funnel_cons | rewrite funnel_nil | rewrite shrink_left_S | rewrite shrink_right_S
        | rewrite walk_pred_S ];
  enorm.

(* ================= shortest, staged ================= *)
Lemma shortest_eval p1 p2 rects ts start stop d0 drest :
  triangulate rects = ts ->
  fold_left (fun s t => if tri_contains t p1 then t else s) ts tri0 = start ->
  fold_left (fun s t => if tri_contains t p2 then t else s) ts tri0 = stop ->
  Nat.eqb (t_id start) (t_id stop) = false ->
  fst (crossed_diagonals (S (length ts)) (length ts) (dual_graph start ts) (t_id start) (t_id stop) [])
    = Some (d0 :: drest) ->
  shortest p1 p2 rects =
    (let dlast := last (d0 :: drest) d0 in
     let dl := (d0 :: drest) ++ [(fst dlast, p2)] in
     let size := (2 * length rects)%nat in
     let dq := mkDq (repeat (0, 0) (2 * size)) (Z.of_nat size) (Z.of_nat size - 1) in
     let dq := push_front dq p1 in
     let apex := dq_f dq in
     let dq := match orientation p1 (fst d0) (snd d0) with
               | CCW => push_back (push_front dq (fst d0)) (snd d0)
               | _ => push_back (push_front dq (snd d0)) (fst d0)
               end in
     do pm <- funnel (tl dl) d0 dq apex [];
     do path <- walk_pred (S (S (length dl))) pm p2 [];
     Ok (if pt_eqb (last path (0, 0)) p1 then path else path ++ [p1])).
Proof.
  intros <- <- <- H1 H2. unfold shortest. cbv zeta. rewrite H1, H2. reflexivity.
Qed.

(* ================= the class and the expected answer ================= *)
Definition two_rect_class (r1 r2 : rect) (p1 p2 : pt) : bool :=
  Qlt_bool (py (r_tl r1)) (py (r_br r1)) && Qlt_bool (py (r_tl r2)) (py (r_br r2)) &&
  stacked r1 r2 &&
  Qeq_bool (py p1) (py (r_tl r1)) && Qlt_bool (px (r_tl r1)) (px p1) && Qlt_bool (px p1) (px (r_br r1)) &&
  Qeq_bool (py p2) (py (r_br r2)) && Qlt_bool (px (r_tl r2)) (px p2) && Qlt_bool (px p2) (px (r_br r2)).

(* the two ends of the shared boundary segment, as the router writes them *)
Definition cornerL (r1 r2 : rect) : pt := (Qmax' (px (r_tl r1)) (px (r_tl r2)), py (r_tl r2)).
Definition cornerR (r1 r2 : rect) : pt :=
  if Qlt_bool (px (r_br r1)) (px (r_br r2)) then r_br r1 else (px (r_br r2), py (r_tl r2)).

(* the expected answer: the straight segment when it crosses the shared boundary segment (strictly before its right
   end), else the polyline through the nearer end of the shared segment *)
Definition two_rect_path (r1 r2 : rect) (p1 p2 : pt) : list pt :=
  match orientation p1 (cornerL r1 r2) p2 with
  | CW => [p2; cornerL r1 r2; p1]
  | _ => match orientation p1 (cornerR r1 r2) p2 with
         | CW => [p2; p1]
         | _ => [p2; cornerR r1 r2; p1]
         end
  end.

Section Two.
  Variables a1 b1 a2 b2 y0 y1 y1' y2 s e t0 t2 : Q.
  Hypothesis Hy01 : y0 < y1.
  Hypothesis Hy11 : y1 == y1'.
  Hypothesis Hy12 : y1' < y2.
  Hypothesis Hab1 : a1 < b1.
  Hypothesis Hab2 : a2 < b2.
  Hypothesis Hab12 : a1 < b2.
  Hypothesis Hab21 : a2 < b1.
  Hypothesis Ht0 : t0 == y0.
  Hypothesis Ht2 : t2 == y2.
  Hypothesis Hs : a1 < s < b1.
  Hypothesis He : a2 < e < b2.
  Let r1 := mkRect (a1, y0) (b1, y1).
  Let r2 := mkRect (a2, y1') (b2, y2).
  Let p1 : pt := (s, t0).
  Let p2 : pt := (e, t2).
  Local Opaque Qlt_bool Qeq_bool Qle_bool orientation.

  Ltac tri_eval :=
    unfold triangulate, r1, r2;
    cbn [length iota fold_left nth Nat.eqb Nat.sub r_tl r_br px py fst snd];
    unfold left2right, leftmost, rightmost_pt, add_tri; cbn [px py fst snd];
    repeat qdec1; cbn [negb app length]; reflexivity.

  (* one sub-class: the right-hand side is hidden behind [rhs] while the left-hand side is evaluated (so that the
     engine only splits on the tests the router really makes); [shortest_eval] leaves, in this order: the
     triangulation, the start and stop triangles, their ids, the list of crossed diagonals (dual graph evaluated side
     by side, then the DFS by computation on the ids), and the funnel + walk, run by the engine; in every leaf both
     sides are then closed lists of points and [reflexivity] ends *)
  Ltac class_tac :=
    let rhs := fresh "rhs" in let Erhs := fresh "Erhs" in
    remember (two_rect_path r1 r2 p1 p2) as rhs eqn:Erhs;
    erewrite shortest_eval; cycle 1;
    [ tri_eval
    | unfold p1; pick_tri
    | unfold p2; pick_tri
    | reflexivity
    | cbn [t_id length]; dual_eval; vm_compute; reflexivity
    | unfold p1, p2; enorm; repeat estep;
      subst rhs; unfold two_rect_path, cornerL, cornerR, p1, p2, r1, r2, Qmax'; enorm; repeat estep; reflexivity ].

  Lemma two_lt_lt : a1 < a2 -> b2 < b1 -> shortest p1 p2 [r1; r2] = Ok (two_rect_path r1 r2 p1 p2).
  Proof.
    intros Ha Hb. class_tac.
  Qed.

  Lemma two_lt_eq : a1 < a2 -> b1 == b2 -> shortest p1 p2 [r1; r2] = Ok (two_rect_path r1 r2 p1 p2).
  Proof.
    intros Ha Hb. class_tac.
  Qed.

  Lemma two_lt_gt : a1 < a2 -> b1 < b2 -> shortest p1 p2 [r1; r2] = Ok (two_rect_path r1 r2 p1 p2).
  Proof.
    intros Ha Hb. class_tac.
  Qed.

  Lemma two_eq_lt : a1 == a2 -> b2 < b1 -> shortest p1 p2 [r1; r2] = Ok (two_rect_path r1 r2 p1 p2).
  Proof.
    intros Ha Hb. class_tac.
  Qed.

  Lemma two_eq_eq : a1 == a2 -> b1 == b2 -> shortest p1 p2 [r1; r2] = Ok (two_rect_path r1 r2 p1 p2).
  Proof.
    intros Ha Hb. class_tac.
  Qed.

  Lemma two_eq_gt : a1 == a2 -> b1 < b2 -> shortest p1 p2 [r1; r2] = Ok (two_rect_path r1 r2 p1 p2).
  Proof.
    intros Ha Hb. class_tac.
  Qed.

  Lemma two_gt_lt : a2 < a1 -> b2 < b1 -> shortest p1 p2 [r1; r2] = Ok (two_rect_path r1 r2 p1 p2).
  Proof.
    intros Ha Hb. class_tac.
  Qed.

  Lemma two_gt_eq : a2 < a1 -> b1 == b2 -> shortest p1 p2 [r1; r2] = Ok (two_rect_path r1 r2 p1 p2).
  Proof.
    intros Ha Hb. class_tac.
  Qed.

  Lemma two_gt_gt : a2 < a1 -> b1 < b2 -> shortest p1 p2 [r1; r2] = Ok (two_rect_path r1 r2 p1 p2).
  Proof.
    intros Ha Hb. class_tac.
  Qed.
End Two.

(* ================= the main theorem of part 1 ================= *)
Lemma two_rect_class_spec r1 r2 p1 p2 :
  two_rect_class r1 r2 p1 p2 = true <->
  (py (r_tl r1) < py (r_br r1) /\ py (r_tl r2) < py (r_br r2) /\ py (r_br r1) == py (r_tl r2) /\
   (px (r_tl r1) < px (r_br r1) /\ px (r_tl r2) < px (r_br r2) /\
    px (r_tl r1) < px (r_br r2) /\ px (r_tl r2) < px (r_br r1)) /\
   (py p1 == py (r_tl r1) /\ px (r_tl r1) < px p1 < px (r_br r1)) /\
   (py p2 == py (r_br r2) /\ px (r_tl r2) < px p2 < px (r_br r2))).
Proof.
  unfold two_rect_class, stacked. rewrite !andb_true_iff, !Qlt_bool_true, !Qeq_bool_iff.
  pose proof (Qmax'_spec (px (r_tl r1)) (px (r_tl r2))) as [M1 [M2 M3]].
  pose proof (Qmin'_spec (px (r_br r1)) (px (r_br r2))) as [N1 [N2 N3]].
  split.
  - intros [[[[[[[[H1 H2] [H3 H4]] H5] H6] H7] H8] H9] H10]. repeat split; try assumption; lra.
  - intros [H1 [H2 [H3 [[A [B [C D]]] [[H5 [H6 H7]] [H8 [H9 H10]]]]]]]. repeat split; try assumption.
    destruct M3 as [M3|M3], N3 as [N3|N3]; rewrite M3, N3; assumption.
Qed.

Theorem shortest_two_rect r1 r2 p1 p2 :
  two_rect_class r1 r2 p1 p2 = true ->
  shortest p1 p2 [r1; r2] = Ok (two_rect_path r1 r2 p1 p2).
Proof.
  intros H. apply two_rect_class_spec in H.
  destruct r1 as [[a1 y0] [b1 y1]], r2 as [[a2 y1'] [b2 y2]], p1 as [s t0], p2 as [e t2].
  cbn [r_tl r_br px py fst snd] in H.
  destruct H as [H1 [H2 [H3 [[A [B [C D]]] [[H5 H6] [H8 H9]]]]]].
  destruct (Q_dec a1 a2) as [[Ha|Ha]|Ha]; destruct (Q_dec b1 b2) as [[Hb|Hb]|Hb].
  - apply two_lt_gt; assumption.
  - apply two_lt_lt; assumption.
  - apply two_lt_eq; assumption.
  - apply two_gt_gt; assumption.
  - apply two_gt_lt; assumption.
  - apply two_gt_eq; assumption.
  - apply two_eq_gt; assumption.
  - apply two_eq_lt; assumption.
  - apply two_eq_eq; assumption.
Qed.
Print Assumptions shortest_two_rect.

(* ================= examples: one instance per sub-class (r1 = (a1,0)-(b1,4), r2 = (a2,4)-(b2,9)) ================= *)
Definition ex_two (a1 b1 a2 b2 s e : Q) : bool * res (list pt) * list pt :=
  let r1 := mkRect (a1, 0) (b1, 4) in let r2 := mkRect (a2, 4) (b2, 9) in
  (two_rect_class r1 r2 (s, 0) (e, 9), shortest (s, 0) (e, 9) [r1; r2], two_rect_path r1 r2 (s, 0) (e, 9)).

(* r2 strictly inside r1's x-range: straight, bend at the left end, bend at the right end *)
Example ex_lt_lt :
  ex_two 0 20 6 14 10 10 = (true, Ok [(10, 9); (10, 0)], [(10, 9); (10, 0)]) /\
  ex_two 0 20 6 14 1 7 = (true, Ok [(7, 9); (6, 4); (1, 0)], [(7, 9); (6, 4); (1, 0)]) /\
  ex_two 0 20 6 14 19 13 = (true, Ok [(13, 9); (14, 4); (19, 0)], [(13, 9); (14, 4); (19, 0)]).
Proof. vm_compute. repeat split. Qed.
(* same right edge *)
Example ex_lt_eq :
  ex_two 0 20 6 20 10 10 = (true, Ok [(10, 9); (10, 0)], [(10, 9); (10, 0)]) /\
  ex_two 0 20 6 20 1 7 = (true, Ok [(7, 9); (6, 4); (1, 0)], [(7, 9); (6, 4); (1, 0)]).
Proof. vm_compute. repeat split. Qed.
(* r2 shifted to the right *)
Example ex_lt_gt :
  ex_two 0 14 6 20 10 10 = (true, Ok [(10, 9); (10, 0)], [(10, 9); (10, 0)]) /\
  ex_two 0 14 6 20 1 7 = (true, Ok [(7, 9); (6, 4); (1, 0)], [(7, 9); (6, 4); (1, 0)]) /\
  ex_two 0 14 6 20 13 19 = (true, Ok [(19, 9); (14, 4); (13, 0)], [(19, 9); (14, 4); (13, 0)]).
Proof. vm_compute. repeat split. Qed.
(* same left edge (given by two different fractions), r2 narrower on the right *)
Example ex_eq_lt :
  ex_two 0 20 (0 # 3) 14 10 10 = (true, Ok [(10, 9); (10, 0)], [(10, 9); (10, 0)]) /\
  ex_two 0 20 (0 # 3) 14 19 13 = (true, Ok [(13, 9); (14, 4); (19, 0)], [(13, 9); (14, 4); (19, 0)]).
Proof. vm_compute. repeat split. Qed.
(* x-aligned rectangles: always straight *)
Example ex_eq_eq :
  ex_two 0 20 0 (40 # 2) 1 19 = (true, Ok [(19, 9); (1, 0)], [(19, 9); (1, 0)]) /\
  ex_two 0 20 0 (40 # 2) 19 1 = (true, Ok [(1, 9); (19, 0)], [(1, 9); (19, 0)]).
Proof. vm_compute. repeat split. Qed.
(* same left edge, r2 wider on the right *)
Example ex_eq_gt :
  ex_two 0 14 0 20 10 10 = (true, Ok [(10, 9); (10, 0)], [(10, 9); (10, 0)]) /\
  ex_two 0 14 0 20 13 19 = (true, Ok [(19, 9); (14, 4); (13, 0)], [(19, 9); (14, 4); (13, 0)]).
Proof. vm_compute. repeat split. Qed.
(* r2 shifted to the left *)
Example ex_gt_lt :
  ex_two 6 20 0 14 10 10 = (true, Ok [(10, 9); (10, 0)], [(10, 9); (10, 0)]) /\
  ex_two 6 20 0 14 7 1 = (true, Ok [(1, 9); (6, 4); (7, 0)], [(1, 9); (6, 4); (7, 0)]) /\
  ex_two 6 20 0 14 19 13 = (true, Ok [(13, 9); (14, 4); (19, 0)], [(13, 9); (14, 4); (19, 0)]).
Proof. vm_compute. repeat split. Qed.
(* r2 wider on the left, same right edge *)
Example ex_gt_eq :
  ex_two 6 20 0 20 10 10 = (true, Ok [(10, 9); (10, 0)], [(10, 9); (10, 0)]) /\
  ex_two 6 20 0 20 7 1 = (true, Ok [(1, 9); (6, 4); (7, 0)], [(1, 9); (6, 4); (7, 0)]).
Proof. vm_compute. repeat split. Qed.
(* r1 strictly inside r2's x-range (the triangulation of r2 has overlapping triangles here; the answer is still right) *)
Example ex_gt_gt :
  ex_two 6 14 0 20 10 10 = (true, Ok [(10, 9); (10, 0)], [(10, 9); (10, 0)]) /\
  ex_two 6 14 0 20 7 1 = (true, Ok [(1, 9); (6, 4); (7, 0)], [(1, 9); (6, 4); (7, 0)]) /\
  ex_two 6 14 0 20 13 19 = (true, Ok [(19, 9); (14, 4); (13, 0)], [(19, 9); (14, 4); (13, 0)]).
Proof. vm_compute. repeat split. Qed.
(* the straight segment through the right end of the shared segment: the router inserts the (collinear) corner;
   through the left end: it does not *)
Example ex_through_corners :
  ex_two 0 20 6 14 18 9 = (true, Ok [(9, 9); (14, 4); (18, 0)], [(9, 9); (14, 4); (18, 0)]) /\
  ex_two 0 20 6 14 2 11 = (true, Ok [(11, 9); (2, 0)], [(11, 9); (2, 0)]).
Proof. vm_compute. repeat split. Qed.
(* OUTSIDE the class (start or end at an end point of its edge) the router's answer can be wrong:
   - start at the top-left corner: it answers the straight segment, which leaves the corridor
     ((0,0)-(13,9) is at x = 52/9 < 6 on the level 4);
   - start at the top-left corner of a right-shifted r1: a detour through (14,9), not a shortest path;
   - start at the top-right corner: the predecessor map is cyclic (the Go loop does not end). *)
Example ex_two_outside_class :
  ex_two 0 20 6 14 0 13 = (false, Ok [(13, 9); (0, 0)], [(13, 9); (6, 4); (0, 0)]) /\
  path_inside [mkRect (0, 0) (20, 4); mkRect (6, 4) (14, 9)] [(13, 9); (0, 0)] = false /\
  ex_two 6 20 0 14 6 0 = (false, Ok [(0, 9); (14, 9); (14, 4); (6, 0)], [(0, 9); (6, 4); (6, 0)]) /\
  ex_two 0 14 6 20 14 20 = (false, Err (ErrFuel 65), [(20, 9); (14, 4); (14, 0)]).
Proof. vm_compute. repeat split. Qed.

(* a remark on the model (= the Go code): when r2 is wider than r1 on BOTH sides the triangulation of r2 contains
   overlapping triangles (here (10,5) is strictly inside the triangles 3 and 6, and the side (0,4)-(20,9) has three
   owners); the router's answer is still the right one in the class (lemma [two_gt_gt]) *)
Example ex_overlapping_triangles :
  let ts := triangulate [mkRect (6, 0) (14, 4); mkRect (0, 4) (20, 9)] in
  map t_id (filter (fun t => tri_contains t (10, 5)) ts) = [3; 6]%nat /\
  map (fun t => (t_a t, t_b t, t_c t)) (filter (fun t => tri_contains t (10, 5)) ts) =
    [((20, 9), (6, 4), (14, 4)); ((20, 9), (0, 4), (14, 4))].
Proof. vm_compute. split; reflexivity. Qed.
