(* GeomTwo2.v — the corridor router on corridors of TWO rectangles (property C19), parts 2 and 3:
   the answer [two_rect_path] computed in GeomTwo.v lies inside the corridor (accepted by the verified checker
   [path_inside]) and no polyline inside the corridor between the same end points is shorter (real numbers). *)
From Coq Require Import Lqa.
From Autog Require Import Base Geom GeomProofs GeomTwo.
Local Open Scope Q_scope.

(* ================= part 2: containment ================= *)
Lemma cross_x_ge a b y L :
  py a < py b -> (L - px a) * (py b - py a) <= (y - py a) * (px b - px a) -> L <= px (cross a b y).
Proof.
  intros Hab H. unfold cross, px at 1. cbn [fst].
  set (k := (y - py a) / (py b - py a)).
  assert (E : k * (py b - py a) == y - py a) by (unfold k; field; lra).
  assert (E2 : (k * (px b - px a)) * (py b - py a) == (y - py a) * (px b - px a)).
  { rewrite <- E. ring. }
  nra.
Qed.

Lemma cross_x_le a b y R :
  py a < py b -> (y - py a) * (px b - px a) <= (R - px a) * (py b - py a) -> px (cross a b y) <= R.
Proof.
  intros Hab H. unfold cross, px at 1. cbn [fst].
  set (k := (y - py a) / (py b - py a)).
  assert (E : k * (py b - py a) == y - py a) by (unfold k; field; lra).
  assert (E2 : (k * (px b - px a)) * (py b - py a) == (y - py a) * (px b - px a)).
  { rewrite <- E. ring. }
  nra.
Qed.

Lemma in_rectb_intro r p :
  px (r_tl r) <= px p -> px p <= px (r_br r) -> py (r_tl r) <= py p -> py p <= py (r_br r) -> in_rectb r p = true.
Proof. intros. apply in_rectb_iff. unfold in_rect. tauto. Qed.

Section TwoInside.
  Variables a1 b1 a2 b2 y0 y1 y1' y2 s e t0 t2 : Q.
  Hypothesis Hy01 : y0 < y1.
  Hypothesis Hy11 : y1 == y1'.
  Hypothesis Hy12 : y1' < y2.
  Hypothesis Hab1 : a1 < b1.
  Hypothesis Hab2 : a2 < b2.
  Hypothesis Hab12 : a1 < b2.
  Hypothesis Hab21 : a2 < b1.
  Hypothesis Ht0 : t0 == y0.
  Hypothesis Ht2 : t2 == y2.
  Hypothesis Hs : a1 < s < b1.
  Hypothesis He : a2 < e < b2.
  Let r1 := mkRect (a1, y0) (b1, y1).
  Let r2 := mkRect (a2, y1') (b2, y2).
  Let p1 : pt := (s, t0).
  Let p2 : pt := (e, t2).

  Lemma cornerL_x : px (cornerL r1 r2) == Qmax' a1 a2 /\ py (cornerL r1 r2) == y1.
  Proof. unfold cornerL, r1, r2. cbn [r_tl r_br px py fst snd]. split; [reflexivity | lra]. Qed.

  Lemma cornerR_x : px (cornerR r1 r2) == Qmin' b1 b2 /\ py (cornerR r1 r2) == y1.
  Proof.
    unfold cornerR, r1, r2, Qmin'. cbn [r_tl r_br px py fst snd].
    destruct (Qlt_bool b1 b2) eqn:E.
    - apply Qlt_bool_true in E. cbn [px py fst snd].
      rewrite (proj2 (Qle_bool_iff b1 b2)) by lra. split; reflexivity.
    - apply Qlt_bool_false in E. cbn [px py fst snd].
      destruct (Qle_bool b1 b2) eqn:E2; [apply Qle_bool_iff in E2; split; lra | split; lra].
  Qed.

  Lemma maxL_bounds : a1 <= Qmax' a1 a2 /\ a2 <= Qmax' a1 a2 /\ Qmax' a1 a2 < b1 /\ Qmax' a1 a2 < b2.
  Proof. destruct (Qmax'_spec a1 a2) as [M1 [M2 [M3|M3]]]; rewrite M3; repeat split; lra. Qed.
  Lemma minR_bounds : Qmin' b1 b2 <= b1 /\ Qmin' b1 b2 <= b2 /\ a1 < Qmin' b1 b2 /\ a2 < Qmin' b1 b2.
  Proof. destruct (Qmin'_spec b1 b2) as [M1 [M2 [M3|M3]]]; rewrite M3; repeat split; lra. Qed.

  Lemma p1_in_r1 : in_rectb r1 p1 = true.
  Proof. apply in_rectb_intro; unfold r1, p1; cbn [r_tl r_br px py fst snd]; lra. Qed.
  Lemma p2_in_r2 : in_rectb r2 p2 = true.
  Proof. apply in_rectb_intro; unfold r2, p2; cbn [r_tl r_br px py fst snd]; lra. Qed.

  (* a point of the shared boundary segment is in both rectangles *)
  Lemma shared_in_both c :
    Qmax' a1 a2 <= px c -> px c <= Qmin' b1 b2 -> py c == y1 -> in_rectb r1 c = true /\ in_rectb r2 c = true.
  Proof.
    intros H1 H2 H3. pose proof maxL_bounds as [A1 [A2 _]]. pose proof minR_bounds as [B1 [B2 _]].
    split; apply in_rectb_intro; unfold r1, r2; cbn [r_tl r_br px py fst snd]; lra.
  Qed.

  Lemma bend_inside c :
    Qmax' a1 a2 <= px c -> px c <= Qmin' b1 b2 -> py c == y1 -> path_inside [r1; r2] [p2; c; p1] = true.
  Proof.
    intros H1 H2 H3. destruct (shared_in_both c H1 H2 H3) as [C1 C2].
    unfold path_inside. cbn [forallb segs_inside]. unfold pt_inside, seg_inside, same_rect. cbn [existsb].
    rewrite p1_in_r1, p2_in_r2, C1, C2. cbn [andb orb]. rewrite !orb_true_r. reflexivity.
  Qed.

  Lemma straight_inside :
    (Qmax' a1 a2 - s) * (t2 - t0) <= (y1 - t0) * (e - s) ->
    (y1 - t0) * (e - s) <= (Qmin' b1 b2 - s) * (t2 - t0) ->
    path_inside [r1; r2] [p2; p1] = true.
  Proof.
    intros HL HR.
    assert (Hlt : py p1 < py p2) by (unfold p1, p2; cbn [py snd]; lra).
    pose proof (cross_x_ge p1 p2 y1 (Qmax' a1 a2) Hlt) as G1.
    pose proof (cross_x_le p1 p2 y1 (Qmin' b1 b2) Hlt) as G2.
    unfold p1 at 1 2 3 4, p2 at 1 2 in G1. unfold p1 at 1 2 3 4, p2 at 1 2 in G2.
    cbn [px py fst snd] in G1, G2. specialize (G1 HL). specialize (G2 HR).
    assert (Hc : py (cross p1 p2 y1) == y1) by reflexivity.
    destruct (shared_in_both _ G1 G2 Hc) as [C1 C2].
    unfold path_inside. cbn [forallb segs_inside]. unfold pt_inside. cbn [existsb].
    rewrite p1_in_r1, p2_in_r2. cbn [andb orb]. rewrite orb_true_r. cbn [andb].
    rewrite andb_true_r.
    unfold seg_inside. apply orb_true_iff. right.
    cbn [seg_walk]. rewrite p1_in_r1. cbn [andb].
    destruct (in_rectb r1 p2); [reflexivity|].
    replace (py (r_br r1)) with y1 by reflexivity.
    rewrite (proj2 (Qlt_bool_true (py p1) y1)) by (unfold p1; cbn [py snd]; lra).
    rewrite (proj2 (Qlt_bool_true y1 (py p2))) by (unfold p2; cbn [py snd]; lra).
    cbn [andb]. rewrite C1, C2, p2_in_r2. reflexivity.
  Qed.

  Lemma two_inside : path_inside [r1; r2] (two_rect_path r1 r2 p1 p2) = true.
  Proof.
    unfold two_rect_path.
    pose proof cornerL_x as [LX LY]. pose proof cornerR_x as [RX RY].
    pose proof maxL_bounds as [A1 [A2 [A3 A4]]]. pose proof minR_bounds as [B1 [B2 [B3 B4]]].
    assert (MM : Qmax' a1 a2 < Qmin' b1 b2).
    { destruct (Qmin'_spec b1 b2) as [_ [_ [M|M]]]; rewrite M; assumption. }
    destruct (orientation_cases p1 (cornerL r1 r2) p2) as [[-> HL]|[[-> HL]|[-> HL]]].
    2: { apply bend_inside; lra. }
    all: destruct (orientation_cases p1 (cornerR r1 r2) p2) as [[-> HR]|[[-> HR]|[-> HR]]];
      try (apply bend_inside; lra).
    all: unfold det in HL, HR; unfold p1 at 1 2 3 4, p2 at 1 2 in HL; unfold p1 at 1 2 3 4, p2 at 1 2 in HR;
      cbn [px py fst snd] in HL, HR; rewrite LX, LY in HL; rewrite RX, RY in HR;
      apply straight_inside; lra.
  Qed.
End TwoInside.

Theorem two_rect_inside r1 r2 p1 p2 :
  two_rect_class r1 r2 p1 p2 = true -> path_inside [r1; r2] (two_rect_path r1 r2 p1 p2) = true.
Proof.
  intros H. apply two_rect_class_spec in H.
  destruct r1 as [[a1 y0] [b1 y1]], r2 as [[a2 y1'] [b2 y2]], p1 as [s t0], p2 as [e t2].
  cbn [r_tl r_br px py fst snd] in H.
  destruct H as [H1 [H2 [H3 [[A [B [C D]]] [[H5 H6] [H8 H9]]]]]].
  apply two_inside; assumption.
Qed.
Print Assumptions two_rect_inside.
(* ================= the answer in terms of the crossing abscissa ================= *)
Lemma cross_x_lt a b y L :
  py a < py b -> (y - py a) * (px b - px a) < (L - px a) * (py b - py a) -> px (cross a b y) < L.
Proof.
  intros Hab H. unfold cross, px at 1. cbn [fst].
  set (k := (y - py a) / (py b - py a)).
  assert (E : k * (py b - py a) == y - py a) by (unfold k; field; lra).
  assert (E2 : (k * (px b - px a)) * (py b - py a) == (y - py a) * (px b - px a)).
  { rewrite <- E. ring. }
  nra.
Qed.

(* the two ends of the shared segment *)
Lemma corner_coords r1 r2 p1 p2 :
  two_rect_class r1 r2 p1 p2 = true ->
  px (cornerL r1 r2) == Qmax' (px (r_tl r1)) (px (r_tl r2)) /\ py (cornerL r1 r2) == py (r_br r1) /\
  px (cornerR r1 r2) == Qmin' (px (r_br r1)) (px (r_br r2)) /\ py (cornerR r1 r2) == py (r_br r1).
Proof.
  intros H. apply two_rect_class_spec in H.
  destruct r1 as [[a1 y0] [b1 y1]], r2 as [[a2 y1'] [b2 y2]], p1 as [s t0], p2 as [e t2].
  cbn [r_tl r_br px py fst snd] in H.
  destruct H as [H1 [H2 [H3 _]]].
  pose proof (cornerL_x a1 b1 a2 b2 y0 y1 y1' y2 H3) as [A B].
  pose proof (cornerR_x a1 b1 a2 b2 y0 y1 y1' y2 H3) as [C D].
  cbn [r_tl r_br px py fst snd]. tauto.
Qed.

(* [two_rect_path] is: the straight segment when it meets the common level y1 at an abscissa m in [L, R) where
   [L, R] = [max of the left sides, min of the right sides] is the shared boundary segment; the polyline through
   the left end when m < L; the polyline through the right end when R <= m *)
Theorem two_rect_path_spec r1 r2 p1 p2 :
  two_rect_class r1 r2 p1 p2 = true ->
  let m := px (cross p1 p2 (py (r_br r1))) in
  let L := Qmax' (px (r_tl r1)) (px (r_tl r2)) in
  let R := Qmin' (px (r_br r1)) (px (r_br r2)) in
  (m < L -> two_rect_path r1 r2 p1 p2 = [p2; cornerL r1 r2; p1]) /\
  (L <= m < R -> two_rect_path r1 r2 p1 p2 = [p2; p1]) /\
  (R <= m -> two_rect_path r1 r2 p1 p2 = [p2; cornerR r1 r2; p1]).
Proof.
  intros H m L R. pose proof (corner_coords r1 r2 p1 p2 H) as [LX [LY [RX RY]]].
  apply two_rect_class_spec in H. destruct H as [H1 [H2 [H3 [[A [B [C D]]] [[H5 H6] [H8 H9]]]]]].
  assert (Hlt : py p1 < py p2) by lra.
  assert (LR : L < R).
  { unfold L, R. destruct (Qmax'_spec (px (r_tl r1)) (px (r_tl r2))) as [_ [_ [E|E]]];
    destruct (Qmin'_spec (px (r_br r1)) (px (r_br r2))) as [_ [_ [E'|E']]]; rewrite E, E'; assumption. }
  unfold two_rect_path.
  (* the sign of each determinant says on which side of the corner the crossing point is *)
  assert (GL : forall c, py c == py (r_br r1) ->
             (0 < det p1 c p2 -> m < px c) /\ (det p1 c p2 <= 0 -> px c <= m)).
  { intros c Hc. unfold det. split; intros Hd.
    - apply cross_x_lt; [exact Hlt|]. rewrite <- Hc. lra.
    - apply cross_x_ge; [exact Hlt|]. rewrite <- Hc. lra. }
  destruct (GL (cornerL r1 r2) LY) as [GL1 GL2]. destruct (GL (cornerR r1 r2) RY) as [GR1 GR2].
  clear GL. subst m L R.
  destruct (orientation_cases p1 (cornerL r1 r2) p2) as [[EL HL]|[[EL HL]|[EL HL]]];
  destruct (orientation_cases p1 (cornerR r1 r2) p2) as [[ER HR]|[[ER HR]|[ER HR]]];
  rewrite EL, ?ER; (split; [|split]); intros Hm; try reflexivity; exfalso;
  try (assert (GL1' := GL1 HL)); try (assert (GL2' := GL2 ltac:(lra)));
  try (assert (GR1' := GR1 HR)); try (assert (GR2' := GR2 ltac:(lra))); lra.
Qed.
Print Assumptions two_rect_path_spec.

(* ================= part 3 (rational side): every polyline inside the corridor crosses the shared level ================= *)
Lemma lin_lower0 X D lo : (forall u, 0 < u -> u <= 1 -> lo <= X + u * D) -> lo <= X.
Proof.
  intros H. apply Qnot_lt_le. intros Hc.
  destruct (Qlt_le_dec 0 D) as [HD|HD].
  - set (dl := lo - X). assert (Hdl : 0 < dl) by (unfold dl; lra).
    set (u := dl / (dl + D)).
    assert (Eu : u * (dl + D) == dl) by (unfold u; field; lra).
    assert (U0 : 0 < u) by (apply Qlt_shift_div_l; lra).
    assert (U1 : u <= 1) by (apply Qle_shift_div_r; lra).
    specialize (H u U0 U1). unfold dl in *. nra.
  - specialize (H 1). lra.
Qed.

(* an affine function bounded on (t,1] is bounded at t; bounded on [0,t) is bounded at t *)
Lemma lin_closure_r x0 D t lo hi :
  t < 1 -> (forall t', t < t' -> t' <= 1 -> lo <= x0 + t' * D <= hi) -> lo <= x0 + t * D <= hi.
Proof.
  intros Ht H. split.
  - apply (lin_lower0 (x0 + t * D) ((1 - t) * D) lo). intros u U0 U1.
    destruct (H (t + u * (1 - t))) as [G _]; [nra | nra |]. 
    assert (E : x0 + (t + u * (1 - t)) * D == x0 + t * D + u * ((1 - t) * D)) by ring. lra.
  - assert (G' : - hi <= - (x0 + t * D)); [|lra].
    apply (lin_lower0 (- (x0 + t * D)) (- ((1 - t) * D)) (- hi)). intros u U0 U1.
    destruct (H (t + u * (1 - t))) as [_ G]; [nra | nra |].
    assert (E : x0 + (t + u * (1 - t)) * D == x0 + t * D + u * ((1 - t) * D)) by ring. lra.
Qed.

Lemma lin_closure_l x0 D t lo hi :
  0 < t -> (forall t', 0 <= t' -> t' < t -> lo <= x0 + t' * D <= hi) -> lo <= x0 + t * D <= hi.
Proof.
  intros Ht H. split.
  - apply (lin_lower0 (x0 + t * D) (- (t * D)) lo). intros u U0 U1.
    destruct (H (t - u * t)) as [G _]; [nra | nra |].
    assert (E : x0 + (t - u * t) * D == x0 + t * D + u * (- (t * D))) by ring. lra.
  - assert (G' : - hi <= - (x0 + t * D)); [|lra].
    apply (lin_lower0 (- (x0 + t * D)) (t * D) (- hi)). intros u U0 U1.
    destruct (H (t - u * t)) as [_ G]; [nra | nra |].
    assert (E : x0 + (t - u * t) * D == x0 + t * D + u * (- (t * D))) by ring. lra.
Qed.

Definition inside (rects : list rect) (l : list pt) : Prop :=
  forall a b p, consecutive a b l -> on_segment a b p -> in_corridor rects p.

Lemma consecutive_cons x a b l : consecutive a b l -> consecutive a b (x :: l).
Proof. intros [l1 [l2 ->]]. exists (x :: l1), l2. reflexivity. Qed.
Lemma consecutive_head a b l : consecutive a b (a :: b :: l).
Proof. exists [], l. reflexivity. Qed.
Lemma inside_tail rects x l : inside rects (x :: l) -> inside rects l.
Proof. intros H a b p Hc Hp. apply (H a b p); [now apply consecutive_cons | exact Hp]. Qed.

Section Cross.
  Variables a1 b1 a2 b2 y0 y1 y1' y2 : Q.
  Hypothesis Hy01 : y0 < y1.
  Hypothesis Hy11 : y1 == y1'.
  Hypothesis Hy12 : y1' < y2.
  Let r1 := mkRect (a1, y0) (b1, y1).
  Let r2 := mkRect (a2, y1') (b2, y2).

  Lemma below_in_r1 p : in_corridor [r1; r2] p -> py p < y1 -> a1 <= px p <= b1.
  Proof.
    intros [r [[<-|[<-|[]]] Hr]] Hp; unfold in_rect, r1, r2 in Hr; cbn [r_tl r_br px py fst snd] in Hr.
    - tauto.
    - lra.
  Qed.
  Lemma above_in_r2 p : in_corridor [r1; r2] p -> y1 < py p -> a2 <= px p <= b2.
  Proof.
    intros [r [[<-|[<-|[]]] Hr]] Hp; unfold in_rect, r1, r2 in Hr; cbn [r_tl r_br px py fst snd] in Hr.
    - lra.
    - tauto.
  Qed.

  (* the point of parameter t on the segment a b *)
  Definition seg_pt (a b : pt) (t : Q) : pt := (px a + t * (px b - px a), py a + t * (py b - py a)).
  Lemma seg_pt_on a b t : 0 <= t <= 1 -> on_segment a b (seg_pt a b t).
  Proof. intros Ht. exists t. split; [exact Ht|]. split; reflexivity. Qed.

  (* a polyline inside the corridor that starts on or below the shared level (y >= y1) and ends above it (y < y1)
     has a point on the level y1 whose abscissa is in r1's range *)
  Lemma cross_down : forall l a,
    inside [r1; r2] (a :: l) -> y1 <= py a -> py (last l a) < y1 ->
    exists u v m, consecutive u v (a :: l) /\ on_segment u v m /\ py m == y1 /\ a1 <= px m <= b1.
  Proof.
    induction l as [|b l IH]; intros a Hin Ha Hl.
    - cbn [last] in Hl. lra.
    - assert (El : last (b :: l) a = last l b).
      { destruct l as [|c l]; [reflexivity|]. cbn [last]. clear. revert c. induction l as [|d l IHl]; intros c; [reflexivity|].
        cbn [last]. cbn [last] in IHl. apply IHl. }
      rewrite El in Hl.
      destruct (Qlt_le_dec (py b) y1) as [Hb|Hb].
      + set (t := (py a - y1) / (py a - py b)).
        assert (Et : t * (py a - py b) == py a - y1) by (unfold t; field; lra).
        assert (T0 : 0 <= t) by (apply Qle_shift_div_l; lra).
        assert (T1 : t < 1) by (apply Qlt_shift_div_r; lra).
        exists a, b, (seg_pt a b t). split; [apply consecutive_head|].
        split; [apply seg_pt_on; lra|]. split.
        * unfold seg_pt, py at 1. cbn [snd]. nra.
        * unfold seg_pt, px at 1 3. cbn [fst].
          apply lin_closure_r; [exact T1|]. intros t' T2 T3.
          assert (Hq : on_segment a b (seg_pt a b t')) by (apply seg_pt_on; lra).
          pose proof (Hin a b _ (consecutive_head a b l) Hq) as Hc.
          apply below_in_r1 in Hc; [exact Hc|].
          unfold seg_pt, py at 1. cbn [snd]. nra.
      + destruct (IH b (inside_tail _ _ _ Hin) Hb Hl) as [u [v [m [Hc Hm]]]].
        exists u, v, m. split; [now apply consecutive_cons | exact Hm].
  Qed.

  (* ... that starts strictly below the shared level (y > y1) and ends on or above it has a point on the level y1
     whose abscissa is in r2's range *)
  Lemma cross_up : forall l a,
    inside [r1; r2] (a :: l) -> y1 < py a -> py (last l a) <= y1 ->
    exists u v m, consecutive u v (a :: l) /\ on_segment u v m /\ py m == y1 /\ a2 <= px m <= b2.
  Proof.
    induction l as [|b l IH]; intros a Hin Ha Hl.
    - cbn [last] in Hl. lra.
    - assert (El : last (b :: l) a = last l b).
      { destruct l as [|c l]; [reflexivity|]. cbn [last]. clear. revert c. induction l as [|d l IHl]; intros c; [reflexivity|].
        cbn [last]. cbn [last] in IHl. apply IHl. }
      rewrite El in Hl.
      destruct (Qlt_le_dec y1 (py b)) as [Hb|Hb].
      + destruct (IH b (inside_tail _ _ _ Hin) Hb Hl) as [u [v [m [Hc Hm]]]].
        exists u, v, m. split; [now apply consecutive_cons | exact Hm].
      + set (t := (py a - y1) / (py a - py b)).
        assert (Et : t * (py a - py b) == py a - y1) by (unfold t; field; lra).
        assert (T0 : 0 < t) by (apply Qlt_shift_div_l; lra).
        assert (T1 : t <= 1) by (apply Qle_shift_div_r; lra).
        exists a, b, (seg_pt a b t). split; [apply consecutive_head|].
        split; [apply seg_pt_on; lra|]. split.
        * unfold seg_pt, py at 1. cbn [snd]. nra.
        * unfold seg_pt, px at 1 3. cbn [fst].
          apply lin_closure_l; [exact T0|]. intros t' T2 T3.
          assert (Hq : on_segment a b (seg_pt a b t')) by (apply seg_pt_on; lra).
          pose proof (Hin a b _ (consecutive_head a b l) Hq) as Hc.
          apply above_in_r2 in Hc; [exact Hc|].
          unfold seg_pt, py at 1. cbn [snd]. nra.
  Qed.
End Cross.

(* ================= part 3 (real side): lengths ================= *)
Require Import Reals Lra Qreals.

Module TwoLength.
  Import RealLength.
  Local Open Scope R_scope.

  Definition norm (dx dy : R) : R := sqrt (Rsqr dx + Rsqr dy).
  Lemma dist_norm a b : dist a b = norm (fst a - fst b) (snd a - snd b).
  Proof. reflexivity. Qed.

  Lemma norm_scale k dx dy : 0 <= k -> norm (k * dx) (k * dy) = k * norm dx dy.
  Proof.
    intros Hk. unfold norm. rewrite !Rsqr_mult, <- Rmult_plus_distr_l.
    rewrite sqrt_mult; [rewrite sqrt_Rsqr by assumption; reflexivity | apply Rle_0_sqr |].
    apply Rplus_le_le_0_compat; apply Rle_0_sqr.
  Qed.

  Lemma norm_triangle dx1 dy1 dx2 dy2 : norm (dx1 + dx2) (dy1 + dy2) <= norm dx1 dy1 + norm dx2 dy2.
  Proof.
    pose proof (dist_triangle (dx1 + dx2, dy1 + dy2) (0, 0) (dx2, dy2)) as H.
    rewrite !dist_norm in H. cbn [fst snd] in H.
    replace (dx1 + dx2 - 0) with (dx1 + dx2) in H by ring.
    replace (dy1 + dy2 - 0) with (dy1 + dy2) in H by ring.
    replace (dx1 + dx2 - dx2) with dx1 in H by ring.
    replace (dy1 + dy2 - dy2) with dy1 in H by ring.
    replace (dx2 - 0) with dx2 in H by ring.
    replace (dy2 - 0) with dy2 in H by ring.
    exact H.
  Qed.

  (* the point of parameter t on the segment a b *)
  Definition rseg (a b : rpt) (t : R) : rpt := (fst a + t * (fst b - fst a), snd a + t * (snd b - snd a)).

  Lemma dist_rseg_l a b t : 0 <= t -> dist a (rseg a b t) = t * dist a b.
  Proof.
    intros Ht. rewrite !dist_norm. unfold rseg. cbn [fst snd].
    replace (fst a - (fst a + t * (fst b - fst a))) with (t * (fst a - fst b)) by ring.
    replace (snd a - (snd a + t * (snd b - snd a))) with (t * (snd a - snd b)) by ring.
    apply norm_scale. exact Ht.
  Qed.
  Lemma dist_rseg_r a b t : t <= 1 -> dist (rseg a b t) b = (1 - t) * dist a b.
  Proof.
    intros Ht. rewrite !dist_norm. unfold rseg. cbn [fst snd].
    replace (fst a + t * (fst b - fst a) - fst b) with ((1 - t) * (fst a - fst b)) by ring.
    replace (snd a + t * (snd b - snd a) - snd b) with ((1 - t) * (snd a - snd b)) by ring.
    apply norm_scale. lra.
  Qed.
  Lemma dist_rseg_split a b t : 0 <= t <= 1 -> dist a (rseg a b t) + dist (rseg a b t) b = dist a b.
  Proof. intros [H0 H1]. rewrite dist_rseg_l, dist_rseg_r by assumption. ring. Qed.

  (* the distance to a fixed point is convex along a segment *)
  Lemma dist_convex p u v k : 0 <= k <= 1 -> dist p (rseg u v k) <= (1 - k) * dist p u + k * dist p v.
  Proof.
    intros [H0 H1]. rewrite !dist_norm. unfold rseg. cbn [fst snd].
    replace (fst p - (fst u + k * (fst v - fst u))) with ((1 - k) * (fst p - fst u) + k * (fst p - fst v)) by ring.
    replace (snd p - (snd u + k * (snd v - snd u))) with ((1 - k) * (snd p - snd u) + k * (snd p - snd v)) by ring.
    eapply Rle_trans; [apply norm_triangle|].
    rewrite !norm_scale by lra. lra.
  Qed.

  (* p1 above and p2 below the level Y; m0 is where the straight segment p1 p2 meets the level. If the corner
     (L, Y) lies between m0 and another point (x, Y) of the level, going through the corner is not longer than
     going through that point. *)
  Lemma bend_shorter (p1 p2 : rpt) (Y L x : R) :
    snd p1 < Y < snd p2 ->
    let m0 := fst p1 + (Y - snd p1) / (snd p2 - snd p1) * (fst p2 - fst p1) in
    (m0 <= L <= x \/ x <= L <= m0) ->
    dist p1 (L, Y) + dist (L, Y) p2 <= dist p1 (x, Y) + dist (x, Y) p2.
  Proof.
    intros [HY1 HY2] m0 HL.
    set (mu := (Y - snd p1) / (snd p2 - snd p1)).
    assert (Emu : mu * (snd p2 - snd p1) = Y - snd p1) by (unfold mu; field; lra).
    assert (Mu0 : 0 <= mu) by (unfold mu; apply Rle_mult_inv_pos; lra).
    assert (Mu1 : mu <= 1).
    { unfold mu. apply (Rmult_le_reg_r (snd p2 - snd p1)); [lra|]. unfold Rdiv. rewrite Rmult_assoc, Rinv_l by lra. lra. }
    assert (EM0 : rseg p1 p2 mu = (m0, Y)).
    { unfold rseg, m0. fold mu. f_equal. lra. }
    (* the straight path is not longer than the path through (x, Y) *)
    assert (F0 : dist p1 (m0, Y) + dist (m0, Y) p2 <= dist p1 (x, Y) + dist (x, Y) p2).
    { rewrite <- EM0. rewrite dist_rseg_split by lra. apply dist_triangle. }
    destruct (Req_dec x m0) as [Exm|Nxm].
    - assert (L = x) by (destruct HL; lra). subst L. lra.
    - set (k := (L - m0) / (x - m0)).
      assert (Ek : k * (x - m0) = L - m0) by (unfold k; field; lra).
      assert (K01 : 0 <= k <= 1).
      { destruct HL as [HL|HL].
        - assert (0 < x - m0) by lra. split.
          + unfold k. apply Rle_mult_inv_pos; lra.
          + apply (Rmult_le_reg_r (x - m0)); [lra|]. lra.
        - assert (0 < m0 - x) by lra. split.
          + apply (Rmult_le_reg_r (m0 - x)); [lra|]. nra.
          + apply (Rmult_le_reg_r (m0 - x)); [lra|]. nra. }
      assert (EC : rseg (m0, Y) (x, Y) k = (L, Y)).
      { unfold rseg. cbn [fst snd]. f_equal; nra. }
      pose proof (dist_convex p1 (m0, Y) (x, Y) k K01) as C1.
      pose proof (dist_convex p2 (m0, Y) (x, Y) k K01) as C2.
      rewrite EC in C1, C2.
      rewrite (dist_sym (L, Y) p2), (dist_sym (x, Y) p2).
      rewrite (dist_sym (m0, Y) p2), (dist_sym (x, Y) p2) in F0.
      nra.
  Qed.

  (* ----- polylines ----- *)
  Lemma plen_cons2 a b l : plen (a :: b :: l) = dist a b + plen (b :: l).
  Proof. reflexivity. Qed.

  Lemma plen_app l1 : forall a l2, plen (l1 ++ a :: l2) = plen (l1 ++ [a]) + plen (a :: l2).
  Proof.
    induction l1 as [|x l1 IH]; intros a l2.
    - cbn [app plen]. lra.
    - destruct l1 as [|y l1].
      + cbn [app]. rewrite !plen_cons2. cbn [plen]. lra.
      + change ((x :: y :: l1) ++ a :: l2) with (x :: y :: (l1 ++ a :: l2)).
        change ((x :: y :: l1) ++ [a]) with (x :: y :: (l1 ++ [a])).
        rewrite !plen_cons2. specialize (IH a l2). cbn [app] in IH. lra.
  Qed.

  Lemma last_app_cons {A} (l1 : list A) x l2 d : last (l1 ++ x :: l2) d = last (x :: l2) d.
  Proof.
    induction l1 as [|y l1 IH]; [reflexivity|].
    cbn [app]. destruct (l1 ++ x :: l2) eqn:E; [destruct l1; discriminate E|]. rewrite <- IH. reflexivity.
  Qed.

  (* a polyline through the point m of one of its segments is at least as long as first-m-last *)
  Lemma plen_via l1 a b l2 m t p :
    0 <= t <= 1 -> m = rseg a b t -> hd_error (l1 ++ a :: b :: l2) = Some p ->
    dist p m + dist m (last (l1 ++ a :: b :: l2) p) <= plen (l1 ++ a :: b :: l2).
  Proof.
    intros Ht -> Hh.
    rewrite last_app_cons. rewrite plen_app, plen_cons2.
    assert (H1 : dist p a <= plen (l1 ++ [a])).
    { apply plen_ge_dist.
      - destruct l1; cbn [app hd_error] in *; congruence.
      - rewrite last_app_cons. reflexivity. }
    assert (H2 : dist b (last (a :: b :: l2) p) <= plen (b :: l2)).
    { pose proof (plen_ge_dist_from b l2) as H.
      replace (last (a :: b :: l2) p) with (last l2 b); [exact H|].
      rewrite last_cons_cons. destruct l2 as [|c l2]; [reflexivity|].
      rewrite last_cons_cons. apply last_default_irrelevant. }
    pose proof (dist_rseg_split a b t Ht) as H3.
    pose proof (dist_triangle p (rseg a b t) a) as H4.
    pose proof (dist_triangle (rseg a b t) (last (a :: b :: l2) p) b) as H5.
    lra.
  Qed.
End TwoLength.


(* ================= part 3: optimality ================= *)
Module TwoOptimal.
  Import RealLength TwoLength.

  Lemma Q2R_0' : Q2R 0 = 0%R.
  Proof. unfold Q2R. cbn. lra. Qed.

  Lemma on_segment_R a b m :
    on_segment a b m -> exists t : R, (0 <= t <= 1)%R /\ pt2R m = rseg (pt2R a) (pt2R b) t.
  Proof.
    intros [t [[T0 T1] [Hx Hy]]]. exists (Q2R t). split.
    - split.
      + apply Qle_Rle in T0. rewrite Q2R_0' in T0. exact T0.
      + apply Qle_Rle in T1. replace (Q2R 1) with 1%R in T1 by (unfold Q2R; cbn; lra). exact T1.
    - unfold pt2R, rseg. cbn [fst snd]. apply Qeq_eqR in Hx, Hy.
      rewrite Q2R_plus, Q2R_mult, Q2R_minus in Hx, Hy. rewrite Hx, Hy. reflexivity.
  Qed.

  Lemma map_last_pt (l : list pt) d : last (map pt2R l) (pt2R d) = pt2R (last l d).
  Proof.
    induction l as [|x l IH]; [reflexivity|].
    destruct l as [|y l]; [reflexivity|]. cbn [map] in *. rewrite !last_cons_cons. exact IH.
  Qed.

  Lemma rlen_via other u v m p :
    consecutive u v other -> on_segment u v m -> hd_error other = Some p ->
    (dist (pt2R p) (pt2R m) + dist (pt2R m) (pt2R (last other p)) <= rlen other)%R.
  Proof.
    intros [l1 [l2 ->]] Hm Hh. destruct (on_segment_R u v m Hm) as [t [Ht Em]].
    unfold rlen. rewrite <- map_last_pt. rewrite map_app. cbn [map].
    apply (plen_via (map pt2R l1) (pt2R u) (pt2R v) (map pt2R l2) (pt2R m) t (pt2R p) Ht Em).
    destruct l1; cbn [app map hd_error] in *; congruence.
  Qed.

  Local Open Scope R_scope.
  Lemma m0_le S T0 E T2 Y Lr :
    T0 < T2 -> 0 <= (Lr - S) * (T2 - T0) - (Y - T0) * (E - S) -> S + (Y - T0) / (T2 - T0) * (E - S) <= Lr.
  Proof.
    intros HT H. set (k := (Y - T0) / (T2 - T0)).
    assert (Ek : k * (T2 - T0) = Y - T0) by (unfold k; field; lra).
    apply (Rmult_le_reg_r (T2 - T0)); [lra|]. nra.
  Qed.
  Lemma m0_ge S T0 E T2 Y Lr :
    T0 < T2 -> (Lr - S) * (T2 - T0) - (Y - T0) * (E - S) <= 0 -> Lr <= S + (Y - T0) / (T2 - T0) * (E - S).
  Proof.
    intros HT H. set (k := (Y - T0) / (T2 - T0)).
    assert (Ek : k * (T2 - T0) = Y - T0) by (unfold k; field; lra).
    apply (Rmult_le_reg_r (T2 - T0)); [lra|]. nra.
  Qed.
  Local Close Scope R_scope.

  Lemma last_cons_default {A} (x : A) l d : last (x :: l) d = last l x.
  Proof.
    destruct l as [|y l]; [reflexivity|]. rewrite last_cons_cons. apply last_default_irrelevant.
  Qed.

  Section Opt.
    Variables a1 b1 a2 b2 y0 y1 y1' y2 s e t0 t2 : Q.
    Hypothesis Hy01 : y0 < y1.
    Hypothesis Hy11 : y1 == y1'.
    Hypothesis Hy12 : y1' < y2.
    Hypothesis Hab1 : a1 < b1.
    Hypothesis Hab2 : a2 < b2.
    Hypothesis Hab12 : a1 < b2.
    Hypothesis Hab21 : a2 < b1.
    Hypothesis Ht0 : t0 == y0.
    Hypothesis Ht2 : t2 == y2.
    Hypothesis Hs : a1 < s < b1.
    Hypothesis He : a2 < e < b2.
    Let r1 := mkRect (a1, y0) (b1, y1).
    Let r2 := mkRect (a2, y1') (b2, y2).
    Let p1 : pt := (s, t0).
    Let p2 : pt := (e, t2).

    (* going from p2 to p1 through the corner c = (L, y1) instead of m = (x, y1), when L is between the crossing
       point of the straight line and x *)
    Lemma via_corner (c m : pt) :
      py c == y1 -> py m == y1 ->
      (0 <= (px c - s) * (t2 - t0) - (py c - t0) * (e - s) /\ px c <= px m \/
       (px c - s) * (t2 - t0) - (py c - t0) * (e - s) <= 0 /\ px m <= px c) ->
      (rlen [p2; c; p1] <= dist (pt2R p2) (pt2R m) + dist (pt2R m) (pt2R p1))%R.
    Proof.
      intros Hc Hm H. unfold rlen. cbn [map plen].
      assert (EC : pt2R c = (Q2R (px c), Q2R y1)) by (unfold pt2R; f_equal; now apply Qeq_eqR).
      assert (EM : pt2R m = (Q2R (px m), Q2R y1)) by (unfold pt2R; f_equal; now apply Qeq_eqR).
      rewrite EC, EM.
      assert (T02 : (Q2R t0 < Q2R t2)%R) by (apply Qlt_Rlt; Lqa.lra).
      assert (T01 : (Q2R t0 < Q2R y1)%R) by (apply Qlt_Rlt; Lqa.lra).
      assert (T12 : (Q2R y1 < Q2R t2)%R) by (apply Qlt_Rlt; Lqa.lra).
      pose proof (bend_shorter (pt2R p1) (pt2R p2) (Q2R y1) (Q2R (px c)) (Q2R (px m))) as B.
      unfold p1, p2, pt2R in B. cbn [px py fst snd] in B. specialize (B (conj T01 T12)). cbv zeta in B.
      assert (Hyc : Q2R (py c) = Q2R y1) by now apply Qeq_eqR.
      assert (G : (dist (Q2R s, Q2R t0) (Q2R (px c), Q2R y1) + dist (Q2R (px c), Q2R y1) (Q2R e, Q2R t2) <=
                   dist (Q2R s, Q2R t0) (Q2R (px m), Q2R y1) + dist (Q2R (px m), Q2R y1) (Q2R e, Q2R t2))%R).
      { apply B. destruct H as [[HD HX]|[HD HX]].
        - left. split.
          + apply m0_le; [exact T02|]. apply Qle_Rle in HD.
            rewrite Q2R_0', Q2R_minus, !Q2R_mult, !Q2R_minus, Hyc in HD. exact HD.
          + now apply Qle_Rle.
        - right. split.
          + now apply Qle_Rle.
          + apply m0_ge; [exact T02|]. apply Qle_Rle in HD.
            rewrite Q2R_0', Q2R_minus, !Q2R_mult, !Q2R_minus, Hyc in HD. exact HD. }
      unfold p1, p2, pt2R. cbn [px py fst snd].
      rewrite (dist_sym (Q2R e, Q2R t2) (Q2R (px c), Q2R y1)), (dist_sym (Q2R (px c), Q2R y1) (Q2R s, Q2R t0)).
      rewrite (dist_sym (Q2R e, Q2R t2) (Q2R (px m), Q2R y1)), (dist_sym (Q2R (px m), Q2R y1) (Q2R s, Q2R t0)).
      lra.
    Qed.

    Lemma two_optimal other :
      hd_error other = Some p2 -> last other p2 = p1 -> inside [r1; r2] other ->
      (rlen (two_rect_path r1 r2 p1 p2) <= rlen other)%R.
    Proof.
      intros Hh Hl Hin.
      destruct other as [|x l]; [discriminate Hh|]. injection Hh as ->.
      assert (Hl' : last l p2 = p1) by (rewrite <- Hl; symmetry; apply last_cons_default).
      assert (Y1 : y1 <= py p2) by (unfold p2; cbn [py snd]; Lqa.lra).
      assert (Y1' : y1 < py p2) by (unfold p2; cbn [py snd]; Lqa.lra).
      assert (Y0 : py (last l p2) < y1) by (rewrite Hl'; unfold p1; cbn [py snd]; Lqa.lra).
      assert (Y0' : py (last l p2) <= y1) by Lqa.lra.
      destruct (cross_down a1 b1 a2 b2 y0 y1 y1' y2 Hy11 l p2 Hin Y1 Y0) as [u1 [v1 [m1 [C1 [S1 [M1 X1]]]]]].
      destruct (cross_up a1 b1 a2 b2 y0 y1 y1' y2 l p2 Hin Y1' Y0') as [u2 [v2 [m2 [C2 [S2 [M2 X2]]]]]].
      pose proof (rlen_via (p2 :: l) u1 v1 m1 p2 C1 S1 eq_refl) as L1. rewrite Hl in L1.
      pose proof (rlen_via (p2 :: l) u2 v2 m2 p2 C2 S2 eq_refl) as L2. rewrite Hl in L2.
      pose proof (cornerL_x a1 b1 a2 b2 y0 y1 y1' y2 Hy11) as [LX LY].
      pose proof (cornerR_x a1 b1 a2 b2 y0 y1 y1' y2 Hy11) as [RX RY].
      fold r1 r2 in LX, LY, RX, RY.
      unfold two_rect_path.
      destruct (orientation_cases p1 (cornerL r1 r2) p2) as [[-> HL]|[[-> HL]|[-> HL]]].
      2: { (* bend at the left end *)
        unfold det in HL. unfold p1 at 1 2 3 4, p2 at 1 2 in HL. cbn [px py fst snd] in HL.
        destruct (Qmax'_spec a1 a2) as [_ [_ [E|E]]].
        - eapply Rle_trans; [|exact L1]. apply via_corner; [exact LY | exact M1 |]. left. split; Lqa.lra.
        - eapply Rle_trans; [|exact L2]. apply via_corner; [exact LY | exact M2 |]. left. split; Lqa.lra. }
      all: destruct (orientation_cases p1 (cornerR r1 r2) p2) as [[-> HR]|[[-> HR]|[-> HR]]].
      2, 5: apply straight_is_shortest_pt; [reflexivity | exact Hl].
      all: unfold det in HR; unfold p1 at 1 2 3 4, p2 at 1 2 in HR; cbn [px py fst snd] in HR;
        destruct (Qmin'_spec b1 b2) as [_ [_ [E|E]]];
        [ eapply Rle_trans; [|exact L1]; apply via_corner; [exact RY | exact M1 |]; right; split; Lqa.lra
        | eapply Rle_trans; [|exact L2]; apply via_corner; [exact RY | exact M2 |]; right; split; Lqa.lra ].
    Qed.
  End Opt.
End TwoOptimal.

(* every point of every segment of the polyline is in the corridor *)
Definition polyline_inside (rects : list rect) (l : list pt) : Prop :=
  forall a b p, consecutive a b l -> on_segment a b p -> in_corridor rects p.

Theorem two_rect_shortest r1 r2 p1 p2 :
  two_rect_class r1 r2 p1 p2 = true ->
  forall other : list pt, hd_error other = Some p2 -> last other p2 = p1 -> polyline_inside [r1; r2] other ->
    (RealLength.rlen (two_rect_path r1 r2 p1 p2) <= RealLength.rlen other)%R.
Proof.
  intros H. apply two_rect_class_spec in H.
  destruct r1 as [[a1 y0] [b1 y1]], r2 as [[a2 y1'] [b2 y2]], p1 as [s t0], p2 as [e t2].
  cbn [r_tl r_br px py fst snd] in H.
  destruct H as [H1 [H2 [H3 [[A [B [C D]]] [[H5 H6] [H8 H9]]]]]].
  intros other Hh Hl Hin. apply TwoOptimal.two_optimal; assumption.
Qed.
Print Assumptions two_rect_shortest.

(* C19 on corridors of two rectangles: the router returns a polyline from the end point to the start point which
   lies inside the corridor and is a shortest path inside the corridor *)
Theorem two_rect_correct r1 r2 p1 p2 :
  two_rect_class r1 r2 p1 p2 = true ->
  exists path,
    shortest p1 p2 [r1; r2] = Ok path /\
    hd_error path = Some p2 /\ last path p2 = p1 /\
    path_inside [r1; r2] path = true /\
    (forall a b p, consecutive a b path -> on_segment a b p -> in_corridor [r1; r2] p) /\
    (forall other : list pt, hd_error other = Some p2 -> last other p2 = p1 -> polyline_inside [r1; r2] other ->
       (RealLength.rlen path <= RealLength.rlen other)%R).
Proof.
  intros H. exists (two_rect_path r1 r2 p1 p2).
  split; [now apply shortest_two_rect|].
  split; [unfold two_rect_path; destruct (orientation p1 (cornerL r1 r2) p2), (orientation p1 (cornerR r1 r2) p2); reflexivity|].
  split; [unfold two_rect_path; destruct (orientation p1 (cornerL r1 r2) p2), (orientation p1 (cornerR r1 r2) p2); reflexivity|].
  split; [now apply two_rect_inside|].
  split; [apply path_inside_sound; now apply two_rect_inside|].
  now apply two_rect_shortest.
Qed.
Print Assumptions two_rect_correct.

(* ================= examples ================= *)
(* the hypotheses are satisfiable; the three kinds of answers on one corridor (r2 strictly inside r1's x-range) *)
Example ex_two_correct_class :
  let r1 := mkRect (0, 0) (20, 4) in let r2 := mkRect (6, 4) (14, 9) in
  two_rect_class r1 r2 (10, 0) (10, 9) = true /\ two_rect_class r1 r2 (1, 0) (7, 9) = true /\
  two_rect_class r1 r2 (19, 0) (13, 9) = true /\
  shortest (10, 0) (10, 9) [r1; r2] = Ok [(10, 9); (10, 0)] /\
  shortest (1, 0) (7, 9) [r1; r2] = Ok [(7, 9); (6, 4); (1, 0)] /\
  shortest (19, 0) (13, 9) [r1; r2] = Ok [(13, 9); (14, 4); (19, 0)] /\
  path_inside [r1; r2] [(7, 9); (6, 4); (1, 0)] = true /\
  path_inside [r1; r2] [(7, 9); (1, 0)] = false.
Proof. vm_compute. repeat split. Qed.

(* an instance of the final theorem *)
Example ex_two_correct :
  let r1 := mkRect (0, 0) (20, 4) in let r2 := mkRect (6, 4) (14, 9) in
  exists path, shortest (1, 0) (7, 9) [r1; r2] = Ok path /\ path_inside [r1; r2] path = true /\
    forall other : list pt, hd_error other = Some (7, 9) -> last other (7, 9) = (1, 0) ->
      polyline_inside [r1; r2] other -> (RealLength.rlen path <= RealLength.rlen other)%R.
Proof.
  cbv zeta.
  destruct (two_rect_correct (mkRect (0, 0) (20, 4)) (mkRect (6, 4) (14, 9)) (1, 0) (7, 9) eq_refl)
    as [path [E [_ [_ [I [_ O]]]]]].
  exists path. repeat split; assumption.
Qed.
