(* ListLemmas.v — small reusable facts about the list helpers of Model/Base.v and the arena accessors of Model/Graph.v *)
From Autog Require Import Base Graph.
From Coq Require Import Permutation.
Local Open Scope nat_scope.

(* ---------- upd / nth ---------- *)
Lemma upd_length : forall A (l : list A) i f, length (upd l i f) = length l.
Proof. induction l as [|x t IH]; intros [|i] f; cbn; auto. Qed.

Lemma nth_upd_same : forall A (l : list A) i f d, i < length l -> nth i (upd l i f) d = f (nth i l d).
Proof. induction l as [|x t IH]; intros [|i] f d H; cbn in *; try lia; auto. apply IH; lia. Qed.

Lemma nth_upd_other : forall A (l : list A) i j f d, i <> j -> nth j (upd l i f) d = nth j l d.
Proof. induction l as [|x t IH]; intros [|i] [|j] f d H; cbn in *; try congruence; auto. Qed.

Lemma upd_oob : forall A (l : list A) i f, length l <= i -> upd l i f = l.
Proof. induction l as [|x t IH]; intros [|i] f H; cbn in *; try lia; auto. f_equal. apply IH. lia. Qed.

Lemma upd_app_l : forall A (l l' : list A) i f, i < length l -> upd (l ++ l') i f = upd l i f ++ l'.
Proof. induction l as [|x t IH]; intros l' [|i] f H; cbn in *; try lia; auto. f_equal. apply IH. lia. Qed.

(* ---------- iota ---------- *)
Lemma iota_seq : forall n s, iota s n = seq s n.
Proof. induction n as [|n IH]; intros s; cbn; [reflexivity|]. rewrite IH. reflexivity. Qed.

Lemma iota_length : forall n s, length (iota s n) = n.
Proof. intros. rewrite iota_seq. apply seq_length. Qed.

Lemma iota_snoc : forall n s, iota s (S n) = iota s n ++ [s + n].
Proof. intros. rewrite !iota_seq. rewrite seq_S. reflexivity. Qed.

Lemma in_iota : forall n s x, In x (iota s n) <-> s <= x < s + n.
Proof. intros. rewrite iota_seq. apply in_seq. Qed.

Lemma NoDup_iota : forall n s, NoDup (iota s n).
Proof. intros. rewrite iota_seq. apply seq_NoDup. Qed.

(* ---------- mem_nat / remove_nat ---------- *)
Lemma mem_nat_In : forall x l, mem_nat x l = true <-> In x l.
Proof.
  intros x l. unfold mem_nat. rewrite existsb_exists. split.
  - intros [y [Hy E]]. apply Nat.eqb_eq in E. subst. exact Hy.
  - intros H. exists x. split; auto. apply Nat.eqb_refl.
Qed.

Lemma mem_nat_false : forall x l, mem_nat x l = false <-> ~ In x l.
Proof. intros. rewrite <- mem_nat_In. destruct (mem_nat x l); split; congruence. Qed.

Lemma mem_nat_app : forall x l l', mem_nat x (l ++ l') = mem_nat x l || mem_nat x l'.
Proof. intros. unfold mem_nat. apply existsb_app. Qed.

Lemma remove_nat_filter : forall x l, remove_nat x l = filter (fun y => negb (Nat.eqb x y)) l.
Proof. induction l as [|y t IH]; cbn; auto. destruct (Nat.eqb x y); cbn; rewrite IH; auto. Qed.

(* ---------- filter ---------- *)
Lemma filter_filter : forall A (p q : A -> bool) l, filter p (filter q l) = filter (fun x => q x && p x) l.
Proof.
  induction l as [|x t IH]; cbn; auto.
  destruct (q x) eqn:Q; cbn; [destruct (p x)|]; rewrite IH; auto.
Qed.

Lemma filter_comm : forall A (p q : A -> bool) l, filter p (filter q l) = filter q (filter p l).
Proof. intros. rewrite !filter_filter. apply filter_ext. intros. apply andb_comm. Qed.

Lemma filter_true : forall A (p : A -> bool) l, (forall x, In x l -> p x = true) -> filter p l = l.
Proof.
  induction l as [|x t IH]; cbn; intros H; auto.
  rewrite H by auto. f_equal. apply IH. auto.
Qed.

Lemma filter_false : forall A (p : A -> bool) l, (forall x, In x l -> p x = false) -> filter p l = [].
Proof.
  induction l as [|x t IH]; cbn; intros H; auto.
  rewrite H by auto. apply IH. auto.
Qed.

Lemma filter_partition_perm : forall A (p : A -> bool) l,
  Permutation (filter p l ++ filter (fun x => negb (p x)) l) l.
Proof.
  induction l as [|x t IH]; cbn; auto.
  destruct (p x); cbn.
  - constructor. exact IH.
  - apply Permutation_sym. apply Permutation_cons_app. apply Permutation_sym. exact IH.
Qed.

Lemma NoDup_filter' : forall A (p : A -> bool) l, NoDup l -> NoDup (filter p l).
Proof. intros. apply NoDup_filter. auto. Qed.

(* ---------- arena accessors ---------- *)
Lemma gnode_upd_node_same : forall g i f, i < length (g_na g) -> gnode (upd_node g i f) i = f (gnode g i).
Proof. intros. unfold gnode, upd_node, with_na. cbn. apply nth_upd_same. auto. Qed.

Lemma gnode_upd_node_other : forall g i j f, i <> j -> gnode (upd_node g i f) j = gnode g j.
Proof. intros. unfold gnode, upd_node, with_na. cbn. apply nth_upd_other. auto. Qed.

(* if f fixes the default node, no bound is needed *)
Lemma gnode_upd_node_fix : forall g i j f, f node0 = node0 ->
  gnode (upd_node g i f) j = if Nat.eqb i j then f (gnode g j) else gnode g j.
Proof.
  intros g i j f F. destruct (Nat.eqb i j) eqn:E.
  - apply Nat.eqb_eq in E. subst j. destruct (Nat.lt_ge_cases i (length (g_na g))) as [L|L].
    + apply gnode_upd_node_same; auto.
    + unfold gnode, upd_node, with_na; cbn. rewrite upd_oob by auto.
      rewrite nth_overflow by auto. auto.
  - apply Nat.eqb_neq in E. apply gnode_upd_node_other; auto.
Qed.

Lemma gnode_upd_node : forall g i j f, i < length (g_na g) ->
  gnode (upd_node g i f) j = if Nat.eqb i j then f (gnode g j) else gnode g j.
Proof.
  intros g i j f L. destruct (Nat.eqb i j) eqn:E.
  - apply Nat.eqb_eq in E. subst j. apply gnode_upd_node_same; auto.
  - apply Nat.eqb_neq in E. apply gnode_upd_node_other; auto.
Qed.

Lemma gedge_upd_node : forall g i f e, gedge (upd_node g i f) e = gedge g e.
Proof. reflexivity. Qed.

Lemma upd_node_na_length : forall g i f, length (g_na (upd_node g i f)) = length (g_na g).
Proof. intros. unfold upd_node, with_na. cbn. apply upd_length. Qed.
