(* LongestPath.v — correctness of the longest-path layering (Model/Phase2.v: follow_lp, lp_nodes,
   exec_longest_path), model of internal/phase2/longest_path.go.

   Main results (g is the input graph, h the unique "height" function of g):
     L1 exec_longest_path_ok       : no error (in particular the fuel suffices) on consistent, acyclic inputs
     L2 exec_longest_path_spec     : layer' n = nl - h n, nothing else changes
     L3 feasible                   : every non-self-loop edge spans >= delta layers, 0 <= layer' n <= nl - 1
     L4 sinks_bottom / some_top    : sinks are in band nl-1, some node is in band 0
     L5 height_is_longest_path ... : (unit deltas) h n = number of nodes on a longest directed path from n
     L6 order_independent          : the visiting order of the nodes is irrelevant *)
From Autog Require Import Base Graph Phase2.
From Coq Require Import Permutation.
Local Open Scope Z_scope.

(* ------------------------------------------------------------------------------------------------ *)
(** * Generic list lemmas *)

Lemma upd_length {A} (l : list A) i f : length (upd l i f) = length l.
Proof. revert i; induction l as [|x t IH]; intros [|i]; simpl; auto. Qed.

Lemma nth_upd_eq {A} (l : list A) i f d :
  (i < length l)%nat -> nth i (upd l i f) d = f (nth i l d).
Proof.
  revert i; induction l as [|x t IH]; intros [|i] H; simpl in *; try lia; auto.
  apply IH; lia.
Qed.

Lemma nth_upd_neq {A} (l : list A) i j f d : i <> j -> nth j (upd l i f) d = nth j l d.
Proof.
  revert i j; induction l as [|x t IH]; intros [|i] [|j] H; simpl; auto; try congruence.
Qed.

Lemma set_nth_length {A} (l : list A) i a : length (set_nth l i a) = length l.
Proof. apply upd_length. Qed.

Lemma nth_set_nth_eq {A} (l : list A) i a d : (i < length l)%nat -> nth i (set_nth l i a) d = a.
Proof. intros H; unfold set_nth; rewrite nth_upd_eq; auto. Qed.

Lemma nth_set_nth_neq {A} (l : list A) i j a d : i <> j -> nth j (set_nth l i a) d = nth j l d.
Proof. intros H; unfold set_nth; apply nth_upd_neq; auto. Qed.

Lemma filter_length_le' {A} (p : A -> bool) l : (length (filter p l) <= length l)%nat.
Proof. induction l as [|a t IH]; simpl; auto. destruct (p a); simpl; lia. Qed.

Lemma filter_length_mono {A} (p q : A -> bool) l :
  (forall x, In x l -> p x = true -> q x = true) ->
  (length (filter p l) <= length (filter q l))%nat.
Proof.
  induction l as [|a t IH]; intros H; simpl; auto.
  assert (IH' : (length (filter p t) <= length (filter q t))%nat)
    by (apply IH; intros x Hx; apply H; right; exact Hx).
  destruct (p a) eqn:Hp.
  - rewrite (H a (or_introl eq_refl) Hp); simpl; lia.
  - destruct (q a); simpl; lia.
Qed.

Lemma filter_length_strict {A} (p q : A -> bool) l x :
  (forall y, In y l -> p y = true -> q y = true) ->
  In x l -> p x = false -> q x = true ->
  (length (filter p l) < length (filter q l))%nat.
Proof.
  induction l as [|a t IH]; intros H Hin Hp Hq; simpl in *; [contradiction|].
  assert (Ht : forall y, In y t -> p y = true -> q y = true)
    by (intros y Hy; apply H; right; exact Hy).
  destruct Hin as [Heq | Hin].
  - subst a. rewrite Hp, Hq. simpl.
    pose proof (filter_length_mono p q t Ht). lia.
  - specialize (IH Ht Hin Hp Hq).
    destruct (p a) eqn:Hpa.
    + rewrite (H a (or_introl eq_refl) Hpa); simpl; lia.
    + destruct (q a); simpl; lia.
Qed.

(* maximum of a function over a list, 0 for the empty list *)
Definition maxl (h : nat -> Z) (l : list nat) : Z := fold_right Z.max 0 (map h l).

Lemma maxl_spec h l :
  0 <= maxl h l /\ (forall n, In n l -> h n <= maxl h l) /\
  (maxl h l = 0 \/ exists n, In n l /\ h n = maxl h l).
Proof.
  unfold maxl. induction l as [|a t (IH0 & IHub & IHatt)]; simpl.
  - split; [lia|]. split; [intros n []|]. left; reflexivity.
  - split; [lia|]. split.
    + intros n [Heq | Hin]; [subst; lia|]. specialize (IHub n Hin); lia.
    + destruct (Z.max_spec (h a) (fold_right Z.max 0 (map h t))) as [[Hlt Hm] | [Hle Hm]];
        rewrite Hm.
      * destruct IHatt as [Hz | (n & Hn & Hhn)]; [left; exact Hz|].
        right; exists n; split; [right; exact Hn| exact Hhn].
      * right; exists a; split; [left; reflexivity | reflexivity].
Qed.

(* ------------------------------------------------------------------------------------------------ *)
(** * Well-formedness predicates *)

Record consistent (g : graph) : Prop := {
  c_nodup : NoDup (g_N g);
  c_bound : forall n, In n (g_N g) -> (n < length (g_na g))%nat;
  c_out : forall n, In n (g_N g) -> forall e, In e (n_out (gnode g n)) ->
          e_from (gedge g e) = n /\ In (e_to (gedge g e)) (g_N g)
}.

(* acyclicity (self loops are ignored by the algorithm): a strictly increasing potential *)
Arguments c_nodup {g} _.
Arguments c_bound {g} _ _ _.
Arguments c_out {g} _ _ _ _ _.

Definition ranked (g : graph) : Prop :=
  exists rk : nat -> Z, forall n e, In n (g_N g) -> In e (n_out (gnode g n)) ->
    self_loop g e = false -> rk n < rk (e_to (gedge g e)).

Definition unit_delta (g : graph) : Prop :=
  forall n e, In n (g_N g) -> In e (n_out (gnode g n)) -> e_delta (gedge g e) = 1.

(* a nat-valued, bounded, strictly DEcreasing level function, derived from a ranking *)
Definition leveled (g : graph) (lv : nat -> nat) : Prop :=
  (forall n e, In n (g_N g) -> In e (n_out (gnode g n)) -> self_loop g e = false ->
     (lv (e_to (gedge g e)) < lv n)%nat) /\
  (forall n, In n (g_N g) -> (lv n <= length (g_N g))%nat).

Definition lvl (g : graph) (rk : nat -> Z) (n : nat) : nat :=
  length (filter (fun m => rk n <=? rk m) (g_N g)).

Lemma ranked_leveled g : consistent g -> ranked g -> exists lv, leveled g lv.
Proof.
  intros Hc [rk Hrk]. exists (lvl g rk). split.
  - intros n e Hn He Hsl. unfold lvl.
    specialize (Hrk n e Hn He Hsl).
    apply filter_length_strict with (x := n); auto.
    + intros y _ Hy. apply Z.leb_le in Hy. apply Z.leb_le. lia.
    + apply Z.leb_gt. lia.
    + apply Z.leb_le. lia.
  - intros n _. apply filter_length_le'.
Qed.

Lemma connected_node_out g n e :
  e_from (gedge g e) = n -> connected_node g e n = e_to (gedge g e).
Proof.
  intros Hf. unfold connected_node.
  destruct (Nat.eqb (e_to (gedge g e)) n) eqn:Heq; auto.
  apply Nat.eqb_eq in Heq. congruence.
Qed.

Lemma length_N_le g : consistent g -> (length (g_N g) <= length (g_na g))%nat.
Proof.
  intros Hc.
  rewrite <- (seq_length (length (g_na g)) 0).
  apply NoDup_incl_length; [apply (c_nodup Hc)|].
  intros n Hn. apply in_seq. pose proof (c_bound Hc n Hn). lia.
Qed.

(* ------------------------------------------------------------------------------------------------ *)
(** * Specification: the height function *)

Definition hstepf (g : graph) (h : nat -> Z) (acc : Z) (e : nat) : Z :=
  if self_loop g e then acc else Z.max acc (h (e_to (gedge g e)) + e_delta (gedge g e)).

(* max(1, max over non-self-loop out-edges e of n of h(target e) + delta e) *)
Definition hstep (g : graph) (h : nat -> Z) (n : nat) : Z :=
  fold_left (hstepf g h) (n_out (gnode g n)) 1.

Definition is_height (g : graph) (h : nat -> Z) : Prop :=
  forall n, In n (g_N g) -> h n = hstep g h n.

Lemma hfold_ge_init g h es a : a <= fold_left (hstepf g h) es a.
Proof.
  revert a; induction es as [|e t IH]; intros a; simpl; [lia|].
  specialize (IH (hstepf g h a e)). unfold hstepf in *. destruct (self_loop g e); lia.
Qed.

Lemma hfold_ge_elem g h es a e :
  In e es -> self_loop g e = false ->
  h (e_to (gedge g e)) + e_delta (gedge g e) <= fold_left (hstepf g h) es a.
Proof.
  revert a; induction es as [|x t IH]; intros a Hin Hsl; simpl in *; [contradiction|].
  destruct Hin as [Heq | Hin].
  - subst x. pose proof (hfold_ge_init g h t (hstepf g h a e)) as H.
    assert (Hs : hstepf g h a e = Z.max a (h (e_to (gedge g e)) + e_delta (gedge g e)))
      by (unfold hstepf; rewrite Hsl; reflexivity).
    rewrite Hs in *. lia.
  - apply IH; auto.
Qed.

Lemma hfold_attained g h es a :
  fold_left (hstepf g h) es a = a \/
  exists e, In e es /\ self_loop g e = false /\
            fold_left (hstepf g h) es a = h (e_to (gedge g e)) + e_delta (gedge g e).
Proof.
  revert a; induction es as [|x t IH]; intros a; simpl; [left; reflexivity|].
  destruct (IH (hstepf g h a x)) as [Heq | (e & He & Hsl & Heq)].
  - destruct (self_loop g x) eqn:Hx.
    + left. rewrite Heq. unfold hstepf. rewrite Hx. reflexivity.
    + assert (Hs : hstepf g h a x = Z.max a (h (e_to (gedge g x)) + e_delta (gedge g x)))
        by (unfold hstepf; rewrite Hx; reflexivity).
      rewrite Heq, Hs.
      destruct (Z.max_spec a (h (e_to (gedge g x)) + e_delta (gedge g x))) as [[_ Hm] | [_ Hm]];
        rewrite Hm.
      * right. exists x. split; [left; reflexivity|]. split; [exact Hx | reflexivity].
      * left; reflexivity.
  - right. exists e. split; [right; exact He|]. split; [exact Hsl | exact Heq].
Qed.

Lemma hfold_ext g h1 h2 es a :
  (forall e, In e es -> self_loop g e = false -> h1 (e_to (gedge g e)) = h2 (e_to (gedge g e))) ->
  fold_left (hstepf g h1) es a = fold_left (hstepf g h2) es a.
Proof.
  revert a; induction es as [|x t IH]; intros a H; simpl; auto.
  assert (Hx : hstepf g h1 a x = hstepf g h2 a x).
  { unfold hstepf. destruct (self_loop g x) eqn:Hsl; auto.
    rewrite (H x (or_introl eq_refl) Hsl). reflexivity. }
  rewrite Hx. apply IH. intros e He. apply H. right; exact He.
Qed.

Lemma height_ge1 g h n : is_height g h -> In n (g_N g) -> 1 <= h n.
Proof. intros Hh Hn. rewrite (Hh n Hn). apply hfold_ge_init. Qed.

Lemma height_edge g h n e :
  is_height g h -> In n (g_N g) -> In e (n_out (gnode g n)) -> self_loop g e = false ->
  h (e_to (gedge g e)) + e_delta (gedge g e) <= h n.
Proof. intros Hh Hn He Hsl. rewrite (Hh n Hn). apply hfold_ge_elem; auto. Qed.

(* existence: iterate the defining equation length(g_N)+1 times *)
Fixpoint hf (g : graph) (k : nat) (n : nat) : Z :=
  match k with O => 1 | S k' => hstep g (hf g k') n end.

Definition height (g : graph) : nat -> Z := hf g (S (length (g_N g))).

Lemma hf_stable g lv : consistent g -> leveled g lv ->
  forall k n, In n (g_N g) -> (lv n < k)%nat -> hf g (S k) n = hf g k n.
Proof.
  intros Hc [Hdec Hbnd]. induction k as [|k IH]; intros n Hn Hlt; [lia|].
  change (hstep g (hf g (S k)) n = hstep g (hf g k) n).
  unfold hstep. apply hfold_ext. intros e He Hsl.
  apply IH.
  - apply (c_out Hc n Hn e He).
  - specialize (Hdec n e Hn He Hsl). lia.
Qed.

Lemma height_is_height g : consistent g -> ranked g -> is_height g (height g).
Proof.
  intros Hc Hr. destruct (ranked_leveled g Hc Hr) as [lv Hl].
  intros n Hn. unfold height.
  change (hstep g (hf g (length (g_N g))) n = hstep g (hf g (S (length (g_N g)))) n).
  unfold hstep. apply hfold_ext. intros e He Hsl. symmetry.
  apply (hf_stable g lv Hc Hl).
  - apply (c_out Hc n Hn e He).
  - destruct Hl as [Hdec Hbnd].
    specialize (Hdec n e Hn He Hsl). specialize (Hbnd n Hn). lia.
Qed.

Lemma height_unique g h1 h2 :
  consistent g -> ranked g -> is_height g h1 -> is_height g h2 ->
  forall n, In n (g_N g) -> h1 n = h2 n.
Proof.
  intros Hc Hr H1 H2. destruct (ranked_leveled g Hc Hr) as [lv [Hdec Hbnd]].
  assert (H : forall k n, (lv n < k)%nat -> In n (g_N g) -> h1 n = h2 n).
  { induction k as [|k IH]; intros n Hlt Hn; [lia|].
    rewrite (H1 n Hn), (H2 n Hn). unfold hstep. apply hfold_ext. intros e He Hsl.
    apply IH.
    - specialize (Hdec n e Hn He Hsl). lia.
    - apply (c_out Hc n Hn e He). }
  intros n Hn. apply (H (S (lv n))); auto.
Qed.

Print Assumptions height_is_height.
Print Assumptions height_unique.

(* ------------------------------------------------------------------------------------------------ *)
(** * The inner loop of follow_lp, named *)

Definition lp_loop (F : nat -> list Z * Z -> res (Z * (list Z * Z))) (g : graph) (n : nat) :=
  fix loop (es : list nat) (nodeh : Z) (st : list Z * Z) {struct es} : res (Z * (list Z * Z)) :=
    match es with
    | [] => Ok (nodeh, st)
    | e :: t =>
        if self_loop g e then loop t nodeh st else
        do r <- F (connected_node g e n) st;
        loop t (Z.max nodeh (fst r + e_delta (gedge g e))) (snd r)
    end.

Lemma lp_loop_cons F g n e t a st :
  lp_loop F g n (e :: t) a st =
  if self_loop g e then lp_loop F g n t a st else
  do r <- F (connected_node g e n) st;
  lp_loop F g n t (Z.max a (fst r + e_delta (gedge g e))) (snd r).
Proof. reflexivity. Qed.

Lemma follow_lp_S f g n st :
  follow_lp (S f) g n st =
  if 0 <=? nth n (fst st) (-1) then Ok (nth n (fst st) (-1), st) else
  do r <- lp_loop (follow_lp f g) g n (n_out (gnode g n)) 1 st;
  let '(nodeh, (hs, nl)) := r in Ok (nodeh, (set_nth hs n nodeh, Z.max nl nodeh)).
Proof. reflexivity. Qed.

(* ------------------------------------------------------------------------------------------------ *)
(** * The memoised DFS computes the height function *)

Section LP.
  Variable g : graph.
  Variable h : nat -> Z.
  Variable lv : nat -> nat.
  Hypothesis Hc : consistent g.
  Hypothesis Hl : leveled g lv.
  Hypothesis Hh : is_height g h.

  (* entry m of the memo table has been computed (and is correct) *)
  Definition done (hs : list Z) (m : nat) : Prop := In m (g_N g) /\ nth m hs (-1) = h m.

  (* invariant of the state (memo table, running number of layers):
     every entry is either "not computed" or the height of a node of g_N;
     the running nl is the maximum of the computed entries (0 if none) *)
  Record Inv (st : list Z * Z) : Prop := {
    inv_len : length (fst st) = length (g_na g);
    inv_tab : forall m, nth m (fst st) (-1) = -1 \/ done (fst st) m;
    inv_nl0 : 0 <= snd st;
    inv_ub : forall m, done (fst st) m -> h m <= snd st;
    inv_att : snd st = 0 \/ exists m, done (fst st) m /\ h m = snd st
  }.

  Definition mono (st st' : list Z * Z) : Prop := forall m, done (fst st) m -> done (fst st') m.

  Lemma lp_loop_ok f n :
    (forall m st, Inv st -> In m (g_N g) -> (lv m < f)%nat ->
       exists st', follow_lp f g m st = Ok (h m, st') /\ Inv st' /\ mono st st' /\ done (fst st') m) ->
    In n (g_N g) -> (lv n < S f)%nat ->
    forall es, incl es (n_out (gnode g n)) ->
    forall a st, Inv st ->
    exists st', lp_loop (follow_lp f g) g n es a st = Ok (fold_left (hstepf g h) es a, st') /\
                Inv st' /\ mono st st'.
  Proof.
    intros IHf Hn Hlv. induction es as [|e t IHes]; intros Hincl a st Hinv.
    - exists st. simpl. split; [reflexivity|]. split; [exact Hinv|]. intros m Hm; exact Hm.
    - assert (He : In e (n_out (gnode g n))) by (apply Hincl; left; reflexivity).
      assert (Ht : incl t (n_out (gnode g n))) by (intros x Hx; apply Hincl; right; exact Hx).
      destruct (c_out Hc n Hn e He) as [Hfrom Hto].
      rewrite lp_loop_cons.
      change (fold_left (hstepf g h) (e :: t) a) with (fold_left (hstepf g h) t (hstepf g h a e)).
      destruct (self_loop g e) eqn:Hsl.
      + assert (Hs : hstepf g h a e = a) by (unfold hstepf; rewrite Hsl; reflexivity).
        rewrite Hs. apply IHes; auto.
      + assert (Hs : hstepf g h a e = Z.max a (h (e_to (gedge g e)) + e_delta (gedge g e)))
          by (unfold hstepf; rewrite Hsl; reflexivity).
        rewrite Hs. rewrite (connected_node_out g n e Hfrom).
        assert (Hlt : (lv (e_to (gedge g e)) < f)%nat).
        { destruct Hl as [Hdec _]. specialize (Hdec n e Hn He Hsl). lia. }
        destruct (IHf (e_to (gedge g e)) st Hinv Hto Hlt) as (st1 & Hrun & Hinv1 & Hmono1 & _).
        rewrite Hrun. cbn [bind fst snd].
        destruct (IHes Ht (Z.max a (h (e_to (gedge g e)) + e_delta (gedge g e))) st1 Hinv1)
          as (st2 & Hrun2 & Hinv2 & Hmono2).
        exists st2. split; [exact Hrun2|]. split; [exact Hinv2|].
        intros m Hm. apply Hmono2, Hmono1, Hm.
  Qed.

  Lemma follow_lp_ok : forall f n st, Inv st -> In n (g_N g) -> (lv n < f)%nat ->
    exists st', follow_lp f g n st = Ok (h n, st') /\ Inv st' /\ mono st st' /\ done (fst st') n.
  Proof.
    induction f as [|f IHf]; intros n st Hinv Hn Hlv; [lia|].
    rewrite follow_lp_S.
    pose proof (height_ge1 g h n Hh Hn) as Hge.
    destruct (inv_tab st Hinv n) as [Hm1 | Hdone].
    - rewrite Hm1. change (0 <=? -1) with false. cbv iota.
      destruct (lp_loop_ok f n IHf Hn Hlv (n_out (gnode g n)) (incl_refl _) 1 st Hinv)
        as (st1 & Hrun & Hinv1 & Hmono1).
      rewrite Hrun. cbn [bind].
      change (fold_left (hstepf g h) (n_out (gnode g n)) 1) with (hstep g h n).
      rewrite <- (Hh n Hn).
      destruct st1 as [hs1 nl1].
      destruct Hinv1 as [Hlen1 Htab1 Hnl01 Hub1 Hatt1]. cbn [fst snd] in *.
      assert (Hnlt : (n < length hs1)%nat) by (rewrite Hlen1; apply (c_bound Hc n Hn)).
      assert (Htn : nth n (set_nth hs1 n (h n)) (-1) = h n) by (apply nth_set_nth_eq; exact Hnlt).
      assert (Htm : forall m, m <> n -> nth m (set_nth hs1 n (h n)) (-1) = nth m hs1 (-1))
        by (intros m Hmn; apply nth_set_nth_neq; congruence).
      assert (Hpres : forall m, done hs1 m -> done (set_nth hs1 n (h n)) m).
      { intros m [Hin Hv]. destruct (Nat.eq_dec m n) as [-> | Hne].
        - split; [exact Hn | exact Htn].
        - split; [exact Hin|]. rewrite (Htm m Hne). exact Hv. }
      assert (Hback : forall m, m <> n -> done (set_nth hs1 n (h n)) m -> done hs1 m).
      { intros m Hne [Hin Hv]. split; [exact Hin|]. rewrite <- (Htm m Hne). exact Hv. }
      exists (set_nth hs1 n (h n), Z.max nl1 (h n)).
      split; [reflexivity|]. split; [|split].
      + constructor; cbn [fst snd].
        * rewrite set_nth_length. exact Hlen1.
        * intros m. destruct (Nat.eq_dec m n) as [-> | Hne].
          -- right. split; [exact Hn | exact Htn].
          -- destruct (Htab1 m) as [Hu | Hd].
             ++ left. rewrite (Htm m Hne). exact Hu.
             ++ right. apply Hpres, Hd.
        * lia.
        * intros m Hd. destruct (Nat.eq_dec m n) as [-> | Hne]; [lia|].
          specialize (Hub1 m (Hback m Hne Hd)). lia.
        * destruct (Z_le_gt_dec nl1 (h n)) as [Hle | Hgt].
          -- right. exists n. split; [split; [exact Hn | exact Htn] | lia].
          -- destruct Hatt1 as [Hz | (m & Hd & Hv)]; [lia|].
             right. exists m. split; [apply Hpres, Hd | lia].
      + intros m Hm. cbn [fst]. apply Hpres. apply (Hmono1 m Hm).
      + cbn [fst]. split; [exact Hn | exact Htn].
    - destruct Hdone as [_ Hd]. rewrite Hd.
      assert (Hb : (0 <=? h n) = true) by (apply Z.leb_le; lia). rewrite Hb.
      exists st. split; [reflexivity|]. split; [exact Hinv|].
      split; [intros m Hm; exact Hm|]. split; [exact Hn | exact Hd].
  Qed.

  Lemma lp_nodes_ok fuel : (forall n, In n (g_N g) -> (lv n < fuel)%nat) ->
    forall ns, incl ns (g_N g) -> forall st, Inv st ->
    exists st', lp_nodes fuel g ns st = Ok st' /\ Inv st' /\ mono st st' /\
                forall n, In n ns -> done (fst st') n.
  Proof.
    intros Hfuel. induction ns as [|n t IH]; intros Hincl st Hinv.
    - exists st. simpl. split; [reflexivity|]. split; [exact Hinv|].
      split; [intros m Hm; exact Hm | intros n []].
    - assert (Hn : In n (g_N g)) by (apply Hincl; left; reflexivity).
      assert (Ht : incl t (g_N g)) by (intros x Hx; apply Hincl; right; exact Hx).
      cbn [lp_nodes].
      destruct (follow_lp_ok fuel n st Hinv Hn (Hfuel n Hn)) as (st1 & Hrun & Hinv1 & Hmono1 & Hd1).
      rewrite Hrun. cbn [bind snd].
      destruct (IH Ht st1 Hinv1) as (st2 & Hrun2 & Hinv2 & Hmono2 & Hd2).
      exists st2. split; [exact Hrun2|]. split; [exact Hinv2|]. split.
      + intros m Hm. apply Hmono2, Hmono1, Hm.
      + intros m [<- | Hm]; [apply Hmono2, Hd1 | apply Hd2, Hm].
  Qed.

  Lemma Inv_init : Inv (repeat (-1) (length (g_na g)), 0).
  Proof.
    constructor; cbn [fst snd].
    - apply repeat_length.
    - intros m. left. apply nth_repeat.
    - lia.
    - intros m [Hin Hv]. rewrite nth_repeat in Hv.
      pose proof (height_ge1 g h m Hh Hin). lia.
    - left; reflexivity.
  Qed.

  (* once every node of g_N has been visited, the state is completely determined *)
  Lemma final_nl st : Inv st -> (forall n, In n (g_N g) -> done (fst st) n) ->
    snd st = maxl h (g_N g).
  Proof.
    intros [_ _ Hnl0 Hub Hatt] Hall.
    destruct (maxl_spec h (g_N g)) as (M0 & Mub & Matt).
    apply Z.le_antisymm.
    - destruct Hatt as [Hz | (m & [Hin _] & Hv)]; [lia|]. specialize (Mub m Hin). lia.
    - destruct Matt as [Hz | (m & Hin & Hv)]; [lia|]. specialize (Hub m (Hall m Hin)). lia.
  Qed.

  Lemma final_tab st1 st2 : Inv st1 -> Inv st2 ->
    (forall n, In n (g_N g) -> done (fst st1) n) ->
    (forall n, In n (g_N g) -> done (fst st2) n) -> fst st1 = fst st2.
  Proof.
    intros I1 I2 A1 A2.
    apply nth_ext with (d := -1) (d' := -1).
    - rewrite (inv_len _ I1), (inv_len _ I2). reflexivity.
    - intros m _.
      destruct (inv_tab _ I1 m) as [H1 | [Hin1 H1]]; destruct (inv_tab _ I2 m) as [H2 | [Hin2 H2]].
      + congruence.
      + destruct (A1 m Hin2) as [_ H1']. pose proof (height_ge1 g h m Hh Hin2). lia.
      + destruct (A2 m Hin1) as [_ H2']. pose proof (height_ge1 g h m Hh Hin1). lia.
      + congruence.
  Qed.
End LP.

(* ------------------------------------------------------------------------------------------------ *)
(** * Running over an arbitrary visiting list *)

Definition lp_init (g : graph) : list Z * Z := (repeat (-1) (length (g_na g)), 0).

(* number of layers of the specification: the maximal height (0 for the empty graph) *)
Definition nlayers (g : graph) (h : nat -> Z) : Z := maxl h (g_N g).

(* Core lemma: visiting ANY list ns of nodes of g_N, with any fuel > |g_N|, succeeds; every entry of the
   memo table is -1 or the height of a node of g_N, the entries of ns are computed, and the running nl is
   the maximum of the computed entries. *)
Lemma lp_nodes_total g h fuel ns :
  consistent g -> ranked g -> is_height g h ->
  (length (g_N g) < fuel)%nat -> incl ns (g_N g) ->
  exists st, lp_nodes fuel g ns (lp_init g) = Ok st /\ Inv g h st /\
             forall n, In n ns -> done g h (fst st) n.
Proof.
  intros Hc Hr Hh Hfuel Hincl. destruct (ranked_leveled g Hc Hr) as [lv Hl].
  assert (Hf : forall n, In n (g_N g) -> (lv n < fuel)%nat).
  { intros n Hn. destruct Hl as [_ Hb]. specialize (Hb n Hn). lia. }
  destruct (lp_nodes_ok g h lv Hc Hl Hh fuel Hf ns Hincl (lp_init g) (Inv_init g h Hh))
    as (st & Hrun & Hinv & _ & Hd).
  exists st. split; [exact Hrun|]. split; [exact Hinv | exact Hd].
Qed.

(* If ns covers g_N, the final state is completely determined by h. *)
Lemma lp_nodes_full g h fuel ns :
  consistent g -> ranked g -> is_height g h ->
  (length (g_N g) < fuel)%nat -> incl ns (g_N g) -> incl (g_N g) ns ->
  exists hs, lp_nodes fuel g ns (lp_init g) = Ok (hs, nlayers g h) /\
             length hs = length (g_na g) /\
             (forall n, In n (g_N g) -> nth n hs (-1) = h n) /\
             (forall n, ~ In n (g_N g) -> nth n hs (-1) = -1).
Proof.
  intros Hc Hr Hh Hfuel Hi1 Hi2.
  destruct (lp_nodes_total g h fuel ns Hc Hr Hh Hfuel Hi1) as ([hs nl] & Hrun & Hinv & Hd).
  assert (Hall : forall n, In n (g_N g) -> done g h hs n) by (intros n Hn; apply (Hd n), Hi2, Hn).
  pose proof (final_nl g h (hs, nl) Hinv Hall) as Hnl. cbn [snd] in Hnl. subst nl.
  exists hs. split; [exact Hrun|]. split; [apply (inv_len g h _ Hinv)|]. split.
  - intros n Hn. apply (Hall n Hn).
  - intros n Hn. destruct (inv_tab g h _ Hinv n) as [Hu | [Hin _]]; [exact Hu | contradiction].
Qed.

Lemma fuel_ok g : consistent g -> (length (g_N g) < S (length (g_na g)))%nat.
Proof. intros Hc. pose proof (length_N_le g Hc). lia. Qed.

(* ------------------------------------------------------------------------------------------------ *)
(** * Writing the layers back *)

Lemma gnode_upd_node_eq g i f :
  (i < length (g_na g))%nat -> gnode (upd_node g i f) i = f (gnode g i).
Proof. intros H. unfold gnode, upd_node, with_na; cbn [g_na]. apply nth_upd_eq; exact H. Qed.

Lemma gnode_upd_node_neq g i j f : i <> j -> gnode (upd_node g i f) j = gnode g j.
Proof. intros H. unfold gnode, upd_node, with_na; cbn [g_na]. apply nth_upd_neq; exact H. Qed.

Definition set_layers (v : nat -> Z) (l : list nat) (g : graph) : graph :=
  fold_left (fun g n => upd_node g n (set_layer (v n))) l g.

Lemma set_layers_spec v l : forall g,
  g_ea (set_layers v l g) = g_ea g /\ g_N (set_layers v l g) = g_N g /\
  g_E (set_layers v l g) = g_E g /\ g_L (set_layers v l g) = g_L g /\
  length (g_na (set_layers v l g)) = length (g_na g) /\
  forall n,
    (In n l -> (n < length (g_na g))%nat -> gnode (set_layers v l g) n = set_layer (v n) (gnode g n)) /\
    (~ In n l -> gnode (set_layers v l g) n = gnode g n).
Proof.
  induction l as [|a t IH]; intros g.
  - cbn [set_layers fold_left]. repeat (split; [reflexivity|]).
    intros n. split; [intros [] | reflexivity].
  - change (set_layers v (a :: t) g) with (set_layers v t (upd_node g a (set_layer (v a)))).
    destruct (IH (upd_node g a (set_layer (v a)))) as (Hea & HN & HE & HL & Hlen & Hnodes).
    assert (Hlen1 : length (g_na (upd_node g a (set_layer (v a)))) = length (g_na g))
      by (unfold upd_node, with_na; cbn [g_na]; apply upd_length).
    split; [rewrite Hea; reflexivity|]. split; [rewrite HN; reflexivity|].
    split; [rewrite HE; reflexivity|]. split; [rewrite HL; reflexivity|].
    split; [rewrite Hlen; exact Hlen1|].
    intros n. destruct (Hnodes n) as [Hin Hnot]. split.
    + intros [<- | Hn] Hlt.
      * destruct (in_dec Nat.eq_dec a t) as [Hi | Hni].
        -- rewrite Hin; [|exact Hi | rewrite Hlen1; exact Hlt].
           rewrite gnode_upd_node_eq by exact Hlt. reflexivity.
        -- rewrite Hnot by exact Hni. apply gnode_upd_node_eq; exact Hlt.
      * rewrite Hin; [|exact Hn | rewrite Hlen1; exact Hlt].
        destruct (Nat.eq_dec a n) as [-> | Hne].
        -- rewrite gnode_upd_node_eq by exact Hlt. reflexivity.
        -- rewrite gnode_upd_node_neq by exact Hne. reflexivity.
    + intros Hni. rewrite Hnot by (intro Hx; apply Hni; right; exact Hx).
      apply gnode_upd_node_neq. intro Hx; apply Hni; left; exact Hx.
Qed.

(* the same computation, visiting the nodes in the order [ns] instead of [g_N g] *)
Definition exec_longest_path_on (ns : list nat) (g : graph) : res graph :=
  do st <- lp_nodes (S (length (g_na g))) g ns (repeat (-1) (length (g_na g)), 0);
  let '(hs, nl) := st in
  Ok (fold_left (fun g n => upd_node g n (set_layer (nl - nth n hs (-1)))) (g_N g) g).

Lemma exec_longest_path_on_N g : exec_longest_path g = exec_longest_path_on (g_N g) g.
Proof. reflexivity. Qed.

(* postcondition of the phase *)
Record lp_post (g : graph) (h : nat -> Z) (g' : graph) : Prop := {
  lp_layer : forall n, In n (g_N g) -> n_layer (gnode g' n) = nlayers g h - h n;
  lp_frame : forall n, gnode g' n = set_layer (n_layer (gnode g' n)) (gnode g n);
  lp_other : forall n, ~ In n (g_N g) -> gnode g' n = gnode g n;
  lp_len : length (g_na g') = length (g_na g);
  lp_ea : g_ea g' = g_ea g;
  lp_N : g_N g' = g_N g;
  lp_E : g_E g' = g_E g;
  lp_L : g_L g' = g_L g
}.

Lemma exec_on_post g h ns :
  consistent g -> ranked g -> is_height g h -> incl ns (g_N g) -> incl (g_N g) ns ->
  exists g', exec_longest_path_on ns g = Ok g' /\ lp_post g h g'.
Proof.
  intros Hc Hr Hh Hi1 Hi2.
  destruct (lp_nodes_full g h (S (length (g_na g))) ns Hc Hr Hh (fuel_ok g Hc) Hi1 Hi2)
    as (hs & Hrun & Hlen & Hin & Hout).
  unfold exec_longest_path_on. unfold lp_init in Hrun. rewrite Hrun. cbn [bind].
  eexists. split; [reflexivity|].
  change (fold_left (fun g0 n => upd_node g0 n (set_layer (nlayers g h - nth n hs (-1)))) (g_N g) g)
    with (set_layers (fun n => nlayers g h - nth n hs (-1)) (g_N g) g).
  destruct (set_layers_spec (fun n => nlayers g h - nth n hs (-1)) (g_N g) g)
    as (Hea & HN & HE & HL & Hl & Hnodes).
  constructor; auto.
  - intros n Hn. destruct (Hnodes n) as [H1 _].
    rewrite (H1 Hn (c_bound Hc n Hn)). cbn [set_layer n_layer]. rewrite (Hin n Hn). reflexivity.
  - intros n. destruct (Hnodes n) as [H1 H2].
    destruct (in_dec Nat.eq_dec n (g_N g)) as [Hn | Hn].
    + rewrite (H1 Hn (c_bound Hc n Hn)). reflexivity.
    + rewrite (H2 Hn). destruct (gnode g n); reflexivity.
  - intros n Hn. destruct (Hnodes n) as [_ H2]. apply (H2 Hn).
Qed.

(* ------------------------------------------------------------------------------------------------ *)
(** * L1: no error *)

Theorem exec_longest_path_ok g :
  consistent g -> ranked g -> exists g', exec_longest_path g = Ok g'.
Proof.
  intros Hc Hr.
  destruct (exec_on_post g (height g) (g_N g) Hc Hr (height_is_height g Hc Hr)
              (incl_refl _) (incl_refl _)) as (g' & Hrun & _).
  exists g'. exact Hrun.
Qed.
Print Assumptions exec_longest_path_ok.

(** * L2: functional specification *)

Theorem exec_longest_path_spec g g' h :
  consistent g -> ranked g -> is_height g h -> exec_longest_path g = Ok g' ->
  (forall n, In n (g_N g) -> n_layer (gnode g' n) = nlayers g h - h n) /\
  (forall n, gnode g' n = set_layer (n_layer (gnode g' n)) (gnode g n)) /\
  (forall n, ~ In n (g_N g) -> gnode g' n = gnode g n) /\
  length (g_na g') = length (g_na g) /\
  g_ea g' = g_ea g /\ g_N g' = g_N g /\ g_E g' = g_E g /\ g_L g' = g_L g.
Proof.
  intros Hc Hr Hh Hrun.
  destruct (exec_on_post g h (g_N g) Hc Hr Hh (incl_refl _) (incl_refl _)) as (g1 & Hrun1 & Hp).
  rewrite exec_longest_path_on_N in Hrun. rewrite Hrun in Hrun1. injection Hrun1 as <-.
  destruct Hp. repeat (split; [assumption|]). assumption.
Qed.
Print Assumptions exec_longest_path_spec.

Lemma exec_longest_path_post g g' h :
  consistent g -> ranked g -> is_height g h -> exec_longest_path g = Ok g' -> lp_post g h g'.
Proof.
  intros Hc Hr Hh Hrun.
  destruct (exec_longest_path_spec g g' h Hc Hr Hh Hrun) as (H1 & H2 & H3 & H4 & H5 & H6 & H7 & H8).
  constructor; assumption.
Qed.

(* the same, with the canonical height function *)
Corollary exec_longest_path_spec_height g g' :
  consistent g -> ranked g -> exec_longest_path g = Ok g' -> lp_post g (height g) g'.
Proof. intros Hc Hr. apply exec_longest_path_post; auto. apply height_is_height; auto. Qed.

(* ------------------------------------------------------------------------------------------------ *)
(** * L3: feasibility (holds for arbitrary deltas) *)

Lemma nlayers_bounds g h n : is_height g h -> In n (g_N g) -> 1 <= h n <= nlayers g h.
Proof.
  intros Hh Hn. split; [apply (height_ge1 g h n Hh Hn)|].
  destruct (maxl_spec h (g_N g)) as (_ & Hub & _). apply Hub, Hn.
Qed.

Theorem feasible g g' h :
  consistent g -> ranked g -> is_height g h -> exec_longest_path g = Ok g' ->
  forall n, In n (g_N g) ->
    0 <= n_layer (gnode g' n) <= nlayers g h - 1 /\
    forall e, In e (n_out (gnode g n)) -> self_loop g e = false ->
      n_layer (gnode g' (e_to (gedge g e))) - n_layer (gnode g' n) >= e_delta (gedge g e).
Proof.
  intros Hc Hr Hh Hrun n Hn.
  pose proof (exec_longest_path_post g g' h Hc Hr Hh Hrun) as Hp.
  rewrite (lp_layer g h g' Hp n Hn).
  pose proof (nlayers_bounds g h n Hh Hn) as Hb.
  split; [lia|]. intros e He Hsl.
  destruct (c_out Hc n Hn e He) as [_ Hto].
  rewrite (lp_layer g h g' Hp _ Hto).
  pose proof (height_edge g h n e Hh Hn He Hsl). lia.
Qed.
Print Assumptions feasible.

(* the same, read off the output graph only: every non-self-loop edge has non-negative slack *)
Corollary feasible_slack g g' :
  consistent g -> ranked g -> exec_longest_path g = Ok g' ->
  forall n e, In n (g_N g') -> In e (n_out (gnode g' n)) -> self_loop g' e = false ->
    slack g' e >= 0.
Proof.
  intros Hc Hr Hrun n e Hn He Hsl.
  pose proof (height_is_height g Hc Hr) as Hh.
  pose proof (exec_longest_path_post g g' _ Hc Hr Hh Hrun) as Hp.
  rewrite (lp_N _ _ _ Hp) in Hn.
  assert (Hout : n_out (gnode g' n) = n_out (gnode g n))
    by (rewrite (lp_frame _ _ _ Hp n); reflexivity).
  rewrite Hout in He.
  assert (Hed : gedge g' e = gedge g e) by (unfold gedge; rewrite (lp_ea _ _ _ Hp); reflexivity).
  assert (Hsl' : self_loop g e = false) by (unfold self_loop in *; rewrite Hed in Hsl; exact Hsl).
  destruct (feasible g g' _ Hc Hr Hh Hrun n Hn) as [_ Hf].
  specialize (Hf e He Hsl').
  destruct (c_out Hc n Hn e He) as [Hfrom _].
  unfold slack, layer_of. rewrite Hed, Hfrom. lia.
Qed.

(* ------------------------------------------------------------------------------------------------ *)
(** * L4: sinks are in the bottom band, some node is in band 0 *)

Definition is_sink (g : graph) (n : nat) : Prop :=
  forall e, In e (n_out (gnode g n)) -> self_loop g e = true.

Lemma height_sink g h n : is_height g h -> In n (g_N g) -> is_sink g n -> h n = 1.
Proof.
  intros Hh Hn Hs. rewrite (Hh n Hn). unfold hstep.
  destruct (hfold_attained g h (n_out (gnode g n)) 1) as [Heq | (e & He & Hsl & _)]; [exact Heq|].
  rewrite (Hs e He) in Hsl. discriminate.
Qed.

Theorem sinks_bottom g g' h :
  consistent g -> ranked g -> is_height g h -> exec_longest_path g = Ok g' ->
  forall n, In n (g_N g) -> is_sink g n -> n_layer (gnode g' n) = nlayers g h - 1.
Proof.
  intros Hc Hr Hh Hrun n Hn Hs.
  pose proof (exec_longest_path_post g g' h Hc Hr Hh Hrun) as Hp.
  rewrite (lp_layer g h g' Hp n Hn), (height_sink g h n Hh Hn Hs). reflexivity.
Qed.
Print Assumptions sinks_bottom.

Theorem some_top g g' :
  consistent g -> ranked g -> exec_longest_path g = Ok g' -> g_N g <> [] ->
  exists n, In n (g_N g) /\ n_layer (gnode g' n) = 0.
Proof.
  intros Hc Hr Hrun Hne.
  pose proof (height_is_height g Hc Hr) as Hh.
  pose proof (exec_longest_path_post g g' _ Hc Hr Hh Hrun) as Hp.
  destruct (maxl_spec (height g) (g_N g)) as (_ & Hub & Hatt).
  destruct Hatt as [Hz | (n & Hn & Hv)].
  - destruct (g_N g) as [|n0 t] eqn:HN; [congruence|].
    assert (Hn0 : In n0 (g_N g)) by (rewrite HN; left; reflexivity).
    pose proof (nlayers_bounds g _ n0 Hh Hn0) as Hb. unfold nlayers in Hb. rewrite HN in Hb. lia.
  - exists n. split; [exact Hn|]. rewrite (lp_layer _ _ _ Hp n Hn). unfold nlayers. lia.
Qed.
Print Assumptions some_top.

(* ------------------------------------------------------------------------------------------------ *)
(** * L6: the visiting order is irrelevant *)

(* General form: any two visiting lists that cover exactly the nodes of g_N (duplicates allowed), and any two
   sufficient amounts of fuel, produce the same memo table and the same number of layers. *)
Lemma lp_nodes_order_irrelevant g fuel1 fuel2 ns1 ns2 :
  consistent g -> ranked g ->
  (length (g_N g) < fuel1)%nat -> (length (g_N g) < fuel2)%nat ->
  incl ns1 (g_N g) -> incl (g_N g) ns1 -> incl ns2 (g_N g) -> incl (g_N g) ns2 ->
  lp_nodes fuel1 g ns1 (lp_init g) = lp_nodes fuel2 g ns2 (lp_init g).
Proof.
  intros Hc Hr Hf1 Hf2 Ha1 Hb1 Ha2 Hb2.
  pose proof (height_is_height g Hc Hr) as Hh.
  destruct (lp_nodes_full g _ fuel1 ns1 Hc Hr Hh Hf1 Ha1 Hb1) as (hs1 & Hrun1 & Hl1 & Hi1 & Ho1).
  destruct (lp_nodes_full g _ fuel2 ns2 Hc Hr Hh Hf2 Ha2 Hb2) as (hs2 & Hrun2 & Hl2 & Hi2 & Ho2).
  rewrite Hrun1, Hrun2. f_equal. f_equal.
  apply nth_ext with (d := -1) (d' := -1); [congruence|].
  intros m _. destruct (in_dec Nat.eq_dec m (g_N g)) as [Hm | Hm].
  - rewrite (Hi1 m Hm), (Hi2 m Hm). reflexivity.
  - rewrite (Ho1 m Hm), (Ho2 m Hm). reflexivity.
Qed.

Theorem order_independent g ns' :
  consistent g -> ranked g -> Permutation ns' (g_N g) ->
  (* same memo table and same number of layers, which are the heights and their maximum ... *)
  (exists hs, lp_nodes (S (length (g_na g))) g ns' (lp_init g) = Ok (hs, nlayers g (height g)) /\
              lp_nodes (S (length (g_na g))) g (g_N g) (lp_init g) = Ok (hs, nlayers g (height g)) /\
              forall n, In n (g_N g) -> nth n hs (-1) = height g n) /\
  (* ... hence the same output graph *)
  exec_longest_path_on ns' g = exec_longest_path g.
Proof.
  intros Hc Hr Hperm.
  assert (Ha : incl ns' (g_N g)) by (intros x Hx; apply (Permutation_in x Hperm Hx)).
  assert (Hb : incl (g_N g) ns')
    by (intros x Hx; apply (Permutation_in x (Permutation_sym Hperm) Hx)).
  pose proof (lp_nodes_order_irrelevant g _ _ ns' (g_N g) Hc Hr (fuel_ok g Hc) (fuel_ok g Hc)
                Ha Hb (incl_refl _) (incl_refl _)) as Heq.
  split.
  - destruct (lp_nodes_full g _ (S (length (g_na g))) ns' Hc Hr (height_is_height g Hc Hr)
                (fuel_ok g Hc) Ha Hb) as (hs & Hrun & _ & Hin & _).
    exists hs. split; [exact Hrun|]. split; [rewrite <- Heq; exact Hrun | exact Hin].
  - rewrite exec_longest_path_on_N. unfold exec_longest_path_on.
    unfold lp_init in Heq. rewrite Heq. reflexivity.
Qed.
Print Assumptions order_independent.

(* ------------------------------------------------------------------------------------------------ *)
(** * L5: heights are longest paths (unit deltas) *)

(* [path g n p m]: p is the list of edges of a directed path n -> ... -> m through nodes of g_N, each edge
   taken from the out-list of its source; self loops are excluded (the algorithm ignores them). *)
Inductive path (g : graph) : nat -> list nat -> nat -> Prop :=
| path_nil n : In n (g_N g) -> path g n [] n
| path_cons n e p m :
    In n (g_N g) -> In e (n_out (gnode g n)) -> e_from (gedge g e) = n -> self_loop g e = false ->
    path g (e_to (gedge g e)) p m -> path g n (e :: p) m.

Definition pweight (g : graph) (p : list nat) : Z :=
  fold_right (fun e acc => e_delta (gedge g e) + acc) 0 p.

(* general deltas: h n = 1 + maximal weight of a path from n *)
Theorem height_path_weight_ub g h n p m :
  is_height g h -> path g n p m -> 1 + pweight g p <= h n.
Proof.
  intros Hh Hp. induction Hp as [n Hn | n e p m Hn He Hfrom Hsl Hp IH].
  - simpl. pose proof (height_ge1 g h n Hh Hn). lia.
  - cbn [pweight fold_right]. fold (pweight g p).
    pose proof (height_edge g h n e Hh Hn He Hsl). lia.
Qed.

Theorem height_path_weight_attained g h n :
  consistent g -> ranked g -> is_height g h -> In n (g_N g) ->
  exists p m, path g n p m /\ 1 + pweight g p = h n.
Proof.
  intros Hc Hr Hh. destruct (ranked_leveled g Hc Hr) as [lv [Hdec _]].
  assert (H : forall k n, (lv n < k)%nat -> In n (g_N g) ->
                          exists p m, path g n p m /\ 1 + pweight g p = h n).
  { induction k as [|k IH]; intros x Hlt Hx; [lia|].
    destruct (hfold_attained g h (n_out (gnode g x)) 1) as [Heq | (e & He & Hsl & Heq)].
    - exists [], x. split; [constructor; exact Hx|]. rewrite (Hh x Hx). unfold hstep.
      rewrite Heq. reflexivity.
    - destruct (c_out Hc x Hx e He) as [Hfrom Hto].
      destruct (IH (e_to (gedge g e))) as (p & m & Hp & Hw); [|exact Hto|].
      { specialize (Hdec x e Hx He Hsl). lia. }
      exists (e :: p), m. split; [constructor; auto|].
      cbn [pweight fold_right]. fold (pweight g p). rewrite (Hh x Hx). unfold hstep. lia. }
  intros Hn. apply (H (S (lv n))); auto.
Qed.

Lemma path_unit_weight g n p m :
  unit_delta g -> path g n p m -> pweight g p = Z.of_nat (length p).
Proof.
  intros Hu Hp. induction Hp as [n Hn | n e p m Hn He Hfrom Hsl Hp IH]; [reflexivity|].
  cbn [pweight fold_right length]. fold (pweight g p). rewrite IH, (Hu n e Hn He). lia.
Qed.

(* unit deltas: h n = number of NODES on a longest directed path from n, and such a path ends in a sink *)
Theorem height_is_longest_path g h n :
  consistent g -> ranked g -> unit_delta g -> is_height g h -> In n (g_N g) ->
  (forall p m, path g n p m -> Z.of_nat (S (length p)) <= h n) /\
  (exists p m, path g n p m /\ is_sink g m /\ Z.of_nat (S (length p)) = h n).
Proof.
  intros Hc Hr Hu Hh Hn. split.
  - intros p m Hp. pose proof (height_path_weight_ub g h n p m Hh Hp) as H.
    rewrite (path_unit_weight g n p m Hu Hp) in H. lia.
  - destruct (ranked_leveled g Hc Hr) as [lv [Hdec _]].
    assert (H : forall k n, (lv n < k)%nat -> In n (g_N g) ->
              exists p m, path g n p m /\ is_sink g m /\ Z.of_nat (S (length p)) = h n).
    { clear n Hn. induction k as [|k IH]; intros x Hlt Hx; [lia|].
      destruct (hfold_attained g h (n_out (gnode g x)) 1) as [Heq | (e & He & Hsl & Heq)].
      - assert (Hx1 : h x = 1) by (rewrite (Hh x Hx); exact Heq).
        exists [], x. split; [constructor; exact Hx|]. split; [|simpl; lia].
        intros e He. destruct (self_loop g e) eqn:Hsl; [reflexivity|].
        pose proof (height_edge g h x e Hh Hx He Hsl) as Hle.
        destruct (c_out Hc x Hx e He) as [_ Hto].
        pose proof (height_ge1 g h _ Hh Hto). rewrite (Hu x e Hx He) in Hle. lia.
      - destruct (c_out Hc x Hx e He) as [Hfrom Hto].
        destruct (IH (e_to (gedge g e))) as (p & m & Hp & Hs & Hw); [|exact Hto|].
        { specialize (Hdec x e Hx He Hsl). lia. }
        exists (e :: p), m. split; [constructor; auto|]. split; [exact Hs|].
        rewrite (Hh x Hx). unfold hstep. rewrite Heq, (Hu x e Hx He).
        cbn [length]. lia. }
    apply (H (S (lv n))); auto.
Qed.
Print Assumptions height_is_longest_path.

(* the number of bands is the number of nodes on a longest directed path of the graph *)
Theorem nlayers_is_longest_path g h :
  consistent g -> ranked g -> unit_delta g -> is_height g h -> g_N g <> [] ->
  (forall n p m, path g n p m -> Z.of_nat (S (length p)) <= nlayers g h) /\
  (exists n p m, path g n p m /\ is_sink g m /\ Z.of_nat (S (length p)) = nlayers g h).
Proof.
  intros Hc Hr Hu Hh Hne. split.
  - intros n p m Hp.
    assert (Hn : In n (g_N g)) by (destruct Hp; assumption).
    destruct (height_is_longest_path g h n Hc Hr Hu Hh Hn) as [Hub _].
    specialize (Hub p m Hp). pose proof (nlayers_bounds g h n Hh Hn). lia.
  - destruct (maxl_spec h (g_N g)) as (_ & Hub & [Hz | (n & Hn & Hv)]).
    + destruct (g_N g) as [|n0 t] eqn:HN; [congruence|].
      assert (Hn0 : In n0 (g_N g)) by (rewrite HN; left; reflexivity).
      pose proof (nlayers_bounds g h n0 Hh Hn0) as Hb. unfold nlayers in Hb. rewrite HN in Hb. lia.
    + destruct (height_is_longest_path g h n Hc Hr Hu Hh Hn) as [_ (p & m & Hp & Hs & Hw)].
      exists n, p, m. split; [exact Hp|]. split; [exact Hs|]. unfold nlayers. lia.
Qed.
Print Assumptions nlayers_is_longest_path.

(* nl - 1 - layer' n is the length (in edges) of a longest path from n, which leads to a sink *)
Theorem layer_is_dist_to_sink g g' h n :
  consistent g -> ranked g -> unit_delta g -> is_height g h -> exec_longest_path g = Ok g' ->
  In n (g_N g) ->
  (forall p m, path g n p m -> Z.of_nat (length p) <= nlayers g h - 1 - n_layer (gnode g' n)) /\
  (exists p m, path g n p m /\ is_sink g m /\
               Z.of_nat (length p) = nlayers g h - 1 - n_layer (gnode g' n)).
Proof.
  intros Hc Hr Hu Hh Hrun Hn.
  pose proof (exec_longest_path_post g g' h Hc Hr Hh Hrun) as Hpost.
  rewrite (lp_layer g h g' Hpost n Hn).
  destruct (height_is_longest_path g h n Hc Hr Hu Hh Hn) as [Hub (p & m & Hp & Hs & Hw)].
  split.
  - intros q m' Hq. specialize (Hub q m' Hq). lia.
  - exists p, m. split; [exact Hp|]. split; [exact Hs|]. lia.
Qed.
Print Assumptions layer_is_dist_to_sink.

(* ------------------------------------------------------------------------------------------------ *)
(** * Examples: the hypotheses are satisfiable on a non-trivial instance *)

Module Ex.
  (*   0 -> 1 -> 3,  0 -> 2 -> 3,  0 -> 3,  3 -> 3 (self loop),  4 isolated;
       arena slot 5 belongs to another component (not in g_N). g_N is deliberately not sorted. *)
  Definition mk (a b : nat) : edge := mkEdge a b 1 1 false false 0 [] false.
  Definition nd (i o : list nat) : node := mkNode i o 0 0 false 0 0 0 0.
  Definition ex_g : graph :=
    mkGraph
      [ nd [] [0;1;5]%nat; nd [0]%nat [2]%nat; nd [1]%nat [3]%nat; nd [2;3;5;4]%nat [4]%nat;
        nd [] []; nd [] [] ]
      [ mk 0 1; mk 0 2; mk 1 3; mk 2 3; mk 3 3; mk 0 3 ]
      [3;0;4;1;2]%nat [0;1;2;3;4;5]%nat [].

  Example ex_consistent : consistent ex_g.
  Proof.
    constructor.
    - cbn [ex_g g_N]. repeat (constructor; [simpl; intuition lia|]). constructor.
    - intros n Hn. cbn in Hn |- *. intuition lia.
    - intros n Hn e He. cbn [ex_g g_N] in Hn.
      repeat (destruct Hn as [<- | Hn];
              [ cbn in He; repeat (destruct He as [<- | He]; [cbn; intuition lia|]); contradiction |]).
      contradiction.
  Qed.

  Definition ex_rk (n : nat) : Z :=
    match n with 0%nat => 0 | 1%nat => 1 | 2%nat => 1 | 3%nat => 2 | _ => 0 end.

  Example ex_ranked : ranked ex_g.
  Proof.
    exists ex_rk. intros n e Hn He Hsl. cbn [ex_g g_N] in Hn.
    repeat (destruct Hn as [<- | Hn];
            [ cbn in He; repeat (destruct He as [<- | He];
                                 [first [discriminate Hsl | vm_compute; reflexivity]|]);
              contradiction |]).
    contradiction.
  Qed.

  Example ex_unit_delta : unit_delta ex_g.
  Proof.
    intros n e Hn He. cbn [ex_g g_N] in Hn.
    repeat (destruct Hn as [<- | Hn];
            [ cbn in He; repeat (destruct He as [<- | He]; [reflexivity|]); contradiction |]).
    contradiction.
  Qed.

  (* heights and layers of nodes 0..4; three bands *)
  Example ex_heights : map (height ex_g) [0;1;2;3;4]%nat = [3;2;2;1;1] /\ nlayers ex_g (height ex_g) = 3.
  Proof. split; vm_compute; reflexivity. Qed.

  Example ex_run :
    match exec_longest_path ex_g with
    | Ok g' => map (fun n => n_layer (gnode g' n)) [0;1;2;3;4]%nat = [0;1;1;2;2]
    | Err _ => False
    end.
  Proof. vm_compute. reflexivity. Qed.

  (* another visiting order gives the very same graph *)
  Example ex_order : exec_longest_path_on [2;1;4;0;3]%nat ex_g = exec_longest_path ex_g.
  Proof. vm_compute. reflexivity. Qed.

  (* ranked is necessary: on a 2-cycle the model reports fuel exhaustion (Go: unbounded recursion) *)
  Definition cyc_g : graph :=
    mkGraph [ nd [1]%nat [0]%nat; nd [0]%nat [1]%nat ] [ mk 0 1; mk 1 0 ] [0;1]%nat [0;1]%nat [].
  Example ex_cycle : exec_longest_path cyc_g = Err (ErrFuel 21).
  Proof. vm_compute. reflexivity. Qed.
End Ex.

Print Assumptions lp_nodes_total.
Print Assumptions lp_nodes_full.
Print Assumptions lp_nodes_order_irrelevant.
Print Assumptions feasible_slack.
Print Assumptions height_path_weight_ub.
Print Assumptions height_path_weight_attained.
