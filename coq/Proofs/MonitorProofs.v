(* MonitorProofs.v — sequential histories of Layout calls (C18) and interleavings of calls without a monitor (C15) *)
From Coq Require Import String List Bool Arith Lia.
From Autog Require Import Monitor.
Import ListNotations.
Open Scope string_scope.
Open Scope list_scope.

Definition T := expected_funcs.

(* ---- single steps, by computation on the table ---- *)
Lemma step_Set : forall mon p a s, step T (mkCall "Set" mon p a) s =
  match mon with Some m => (mkM (Some m) (ph s) (al s), [], 1) | None => (s, [], 0) end.
Proof. intros [m|] p a s; reflexivity. Qed.

Lemma step_Reset : forall arg p a s, step T (mkCall "Reset" arg p a) s =
  match cur s with Some _ => (mkM None 0 0, [], 3) | None => (s, [], 0) end.
Proof. intros arg p a [[m|] p0 a0]; reflexivity. Qed.

Lemma step_Prefix : forall arg p a s, step T (mkCall "PrefixFor" arg p a) s =
  match cur s with Some m => (mkM (Some m) p a, [], 2) | None => (s, [], 0) end.
Proof. intros arg p a [[m|] p0 a0]; reflexivity. Qed.

Lemma step_Log : forall arg p a s, step T (mkCall "Log" arg p a) s =
  match cur s with Some m => (s, [(m, ph s, al s)], 0) | None => (s, [], 0) end.
Proof. intros arg p a [[m|] p0 a0]; reflexivity. Qed.

Definition stepf (r : mstate * list event * nat) (c : mcall) :=
  let '(s, ev, w) := r in let '(s', ev', w') := step T c s in (s', ev ++ ev', w + w').

Lemma run_unfold : forall cs s, run T cs s = fold_left stepf cs (s, [], 0).
Proof. reflexivity. Qed.

Lemma fold_acc : forall cs s0 e0 w0,
  fold_left stepf cs (s0, e0, w0) =
  let '(s1, e1, w1) := fold_left stepf cs (s0, [], 0) in (s1, e0 ++ e1, w0 + w1).
Proof.
  induction cs as [|c cs IH]; intros s0 e0 w0; cbn [fold_left].
  - rewrite app_nil_r, Nat.add_0_r. reflexivity.
  - unfold stepf at 2 4. destruct (step T c s0) as [[s' ev'] w'].
    rewrite IH. rewrite (IH s' ([] ++ ev') (0 + w')).
    destruct (fold_left stepf cs (s', [], 0)) as [[s1 e1] w1]. cbn. rewrite app_assoc, Nat.add_assoc. reflexivity.
Qed.

Lemma run_cons : forall c cs s,
  run T (c :: cs) s =
  let '(s1, e1, w1) := step T c s in let '(s2, e2, w2) := run T cs s1 in (s2, e1 ++ e2, w1 + w2).
Proof.
  intros c cs s. rewrite !run_unfold. cbn [fold_left]. unfold stepf at 2.
  destruct (step T c s) as [[s1 e1] w1]. rewrite fold_acc. rewrite run_unfold.
  destruct (fold_left stepf cs (s1, [], 0)) as [[s2 e2] w2]. reflexivity.
Qed.

Lemma run_app : forall cs1 cs2 s,
  run T (cs1 ++ cs2) s =
  let '(s1, e1, w1) := run T cs1 s in let '(s2, e2, w2) := run T cs2 s1 in (s2, e1 ++ e2, w1 + w2).
Proof.
  induction cs1 as [|c cs1 IH]; intros cs2 s.
  - cbn [app]. change (run T [] s) with (s, @nil event, 0). cbv beta iota. destruct (run T cs2 s) as [[s2 e2] w2]. reflexivity.
  - cbn [app]. rewrite !run_cons. destruct (step T c s) as [[s1 e1] w1]. rewrite IH.
    destruct (run T cs1 s1) as [[s2 e2] w2]. destruct (run T cs2 s2) as [[s3 e3] w3].
    rewrite app_assoc, Nat.add_assoc. reflexivity.
Qed.

(* ---- C15: calls that never pass a monitor ---- *)
Definition no_monitor (c : mcall) : Prop := fn c = "Set" -> arg c = None.

Lemma step_no_monitor : forall c p a, no_monitor c -> step T c (mkM None p a) = (mkM None p a, [], 0).
Proof.
  intros [f ar cp ca] p a H. unfold step, T, expected_funcs. cbn [lookup fn].
  destruct (String.eqb "Set" f) eqn:E1.
  - apply String.eqb_eq in E1. subst f. unfold no_monitor in H. cbn in H. rewrite (H eq_refl). reflexivity.
  - destruct (String.eqb "PrefixFor" f); [reflexivity|].
    destruct (String.eqb "Reset" f); [reflexivity|].
    destruct (String.eqb "Log" f); reflexivity.
Qed.

(* any sequence of monitor-package calls — hence any interleaving of the calls of any number of concurrent
   Layout invocations — that never passes a monitor leaves the package state untouched, writes nothing and
   delivers nothing *)
Theorem no_monitor_no_effect : forall cs p a,
  Forall no_monitor cs -> run T cs (mkM None p a) = (mkM None p a, [], 0).
Proof.
  induction cs as [|c cs IH]; intros p a H; [reflexivity|].
  inversion H as [|c' cs' Hc Hcs]; subst. rewrite run_cons, (step_no_monitor c p a Hc), (IH p a Hcs). reflexivity.
Qed.

(* ---- C18: one Layout call ---- *)
Lemma body_some : forall body m p a,
  exists p' a' ev w, run T (map body_call body) (mkM (Some m) p a) = (mkM (Some m) p' a', ev, w)
                     /\ forall e, In e ev -> fst (fst e) = m.
Proof.
  induction body as [|b body IH]; intros m p a.
  - exists p, a, [], 0. split; [reflexivity | intros e []].
  - cbn [map]. rewrite run_cons. destruct b as [p1 a1|]; cbn [body_call].
    + rewrite step_Prefix. cbn [cur]. destruct (IH m p1 a1) as (p' & a' & ev & w & E & Hev). rewrite E.
      exists p', a', ([] ++ ev), (2 + w). split; [reflexivity | exact Hev].
    + rewrite step_Log. cbn [cur ph al]. destruct (IH m p a) as (p' & a' & ev & w & E & Hev). rewrite E.
      exists p', a', ([(m, p, a)] ++ ev), (0 + w). split; [reflexivity|].
      intros e [<-|He]; [reflexivity | exact (Hev e He)].
Qed.

Lemma body_none : forall body p a, run T (map body_call body) (mkM None p a) = (mkM None p a, [], 0).
Proof.
  intros body p a. apply no_monitor_no_effect. apply Forall_forall. intros c Hc.
  apply in_map_iff in Hc. destruct Hc as (b & <- & _). destruct b; intros H; cbn in H; discriminate.
Qed.

(* a Layout call started in the initial state ends in the initial state — whether its body ran to the end or was
   cut short by a panic (the body is an arbitrary list) — and everything it delivers goes to its own monitor *)
Theorem layout_call_spec : forall mon body,
  exists ev w, run T (layout_call mon body) m_init = (m_init, ev, w)
               /\ forall e, In e ev -> mon = Some (fst (fst e)).
Proof.
  intros mon body. unfold layout_call. rewrite run_cons, step_Set. destruct mon as [m|]; cbn [m_init ph al].
  - rewrite run_app. destruct (body_some body m 0 0) as (p' & a' & ev & w & E & Hev). rewrite E.
    rewrite run_cons, step_Reset. cbn [cur]. change (run T [] (mkM None 0 0)) with (mkM None 0 0, @nil event, 0).
    exists ([] ++ ev ++ [] ++ []), (1 + (w + (3 + 0))). split; [reflexivity|].
    intros e He. cbn in He. rewrite !app_nil_r in He. f_equal. symmetry. exact (Hev e He).
  - change (mkM None 0 0) with m_init. rewrite run_app. unfold m_init. rewrite body_none.
    rewrite run_cons, step_Reset. cbn [cur]. change (run T [] (mkM None 0 0)) with (mkM None 0 0, @nil event, 0).
    exists [], 0. split; [reflexivity | intros e []].
Qed.

(* ---- C18: histories of Layout calls, one after the other ---- *)
Definition lcall := (option nat * list bodyop)%type.

(* events delivered during each call of a history, and the state at its end *)
Fixpoint history (calls : list lcall) (s : mstate) : list (list event) * mstate :=
  match calls with
  | [] => ([], s)
  | (mon, body) :: rest =>
      let '(s', ev, _) := run T (layout_call mon body) s in
      let '(evs, s'') := history rest s' in (ev :: evs, s'')
  end.

Theorem history_spec : forall calls,
  let '(evs, s) := history calls m_init in
  s = m_init /\ Forall2 (fun (c : lcall) ev => forall e, In e ev -> fst c = Some (fst (fst e))) calls evs.
Proof.
  induction calls as [|[mon body] rest IH]; cbn [history].
  - split; [reflexivity | constructor].
  - destruct (layout_call_spec mon body) as (ev & w & E & Hev). rewrite E.
    destruct (history rest m_init) as [evs s]. destruct IH as [IH1 IH2].
    split; [exact IH1 | constructor; [exact Hev | exact IH2]].
Qed.

(* a monitor never hears from a call it was not passed to: if monitor x receives an event during call i of a
   history, then call i was given x *)
Corollary events_only_from_own_call : forall calls i c ev e,
  nth_error calls i = Some c -> nth_error (fst (history calls m_init)) i = Some ev -> In e ev ->
  fst c = Some (fst (fst e)).
Proof.
  intros calls i c ev e Hc Hev He. pose proof (history_spec calls) as H.
  destruct (history calls m_init) as [evs s]. destruct H as [_ H]. cbn [fst] in Hev.
  revert i Hc Hev. induction H as [|c0 ev0 cs evs0 H0 Hrest IH]; intros i Hc Hev.
  - destruct i; discriminate.
  - destruct i as [|i]; cbn in Hc, Hev.
    + inversion Hc; inversion Hev; subst. exact (H0 e He).
    + exact (IH i Hc Hev).
Qed.

(* non-vacuity: a history in which a monitor does receive events *)
Example history_example :
  history [(Some 7, [BPrefix 1 2; BLog; BPrefix 3 1; BLog]); (None, [BLog]); (Some 9, [BLog])] m_init
  = ([[(7, 1, 2); (7, 3, 1)]; []; [(9, 0, 0)]], m_init).
Proof. reflexivity. Qed.
