(* NSBridge.v — the network-simplex premise of the end-to-end theorems is discharged:
   - [ns_layering_ok]: on a consistent, ranked (acyclic) component whose edges have delta >= 1, network simplex
     (with any parameters) satisfies the layering contract [layering_ok] of E2EBridge.v;
   - [ns_premise_holds]: hence [ns_premise o g] holds for every [component_input g];
   - the end-to-end theorems E1-E4 restated without that premise. *)
From Autog Require Import Base Graph Populate Phase1 Phase2 Phase3 Phase4 Phase5 Layout Wmedian Pipeline.
From Autog.Proofs Require Import ListLemmas Consistent SelfLoopProofs.
From Autog.Proofs Require CBBase LongestPath.
From Autog.Proofs Require Import OptNormalize OptVbalance OptFeasible OptInit OptPipeline.
From Autog.Proofs Require Import NSDefs NSTree NSLimLow NSComp NSFeasLoop NSPivot NSHbalance.
From Autog.Proofs Require Import Positioners Routes BreakMerge SinkColoringProofs E2EBridge E2EBackbone E2EOutput E2EFrontend.
From Coq Require Import Permutation Lia.

(* ------------------------------------------------------------------------------------------------ *)
(* the well-formedness used by the NS proofs follows from CBBase.consistent + ranked                  *)
(* ------------------------------------------------------------------------------------------------ *)
Lemma rank_lower_bound : forall (rk : nat -> Z) (l : list nat), exists m, forall n, In n l -> (m <= rk n)%Z.
Proof.
  intros rk l; induction l as [|a l [m IH]].
  - exists 0%Z. intros n [].
  - exists (Z.min m (rk a)). intros n [Hn|Hn]; [subst n; lia | specialize (IH n Hn); lia].
Qed.

Lemma nodup_same_length : forall (a b : list nat), NoDup a -> NoDup b -> (forall x, In x a <-> In x b) ->
  length a = length b.
Proof.
  intros a b Ha Hb H. apply Nat.le_antisymm.
  - apply (NoDup_incl_length Ha). intros x Hx. apply H. exact Hx.
  - apply (NoDup_incl_length Hb). intros x Hx. apply H. exact Hx.
Qed.

Theorem ns_wf_of_consistent : forall g, CBBase.consistent g -> CBBase.ranked g -> ns_wf g /\ acyclic g.
Proof.
  intros g [[ND LT] [NDE HE] HO HI] [rk Hrk].
  assert (Hein : edges_in g) by (intros e He; destruct (HE e He) as (_ & F & T); split; assumption).
  split.
  - constructor.
    + constructor.
      * split; assumption.
      * exact Hein.
      * intros n Hn. destruct (HI n Hn) as [NDi Hi]. destruct (HO n Hn) as [NDo Ho].
        split; [exact Hi|]. split; [exact Ho|]. split.
        -- apply nodup_same_length; [exact NDi | apply NoDup_filter; exact NDE|].
           intros e. rewrite Hi, filter_In, Nat.eqb_eq. reflexivity.
        -- apply nodup_same_length; [exact NDo | apply NoDup_filter; exact NDE|].
           intros e. rewrite Ho, filter_In, Nat.eqb_eq. reflexivity.
    + exact NDE.
    + intros e He Heq. specialize (Hrk e He). rewrite Heq in Hrk. lia.
  - destruct (rank_lower_bound rk (g_N g)) as [m Hm].
    exists (fun n => Z.to_nat (rk n - m)). intros e He. destruct (Hein e He) as [F T].
    specialize (Hrk e He). pose proof (Hm _ F). pose proof (Hm _ T). lia.
Qed.

(* ------------------------------------------------------------------------------------------------ *)
(* from the frame + feasibility to the layering contract                                             *)
(* ------------------------------------------------------------------------------------------------ *)
Lemma edge_tc_eq_tc : forall a b, edge_tc a b -> edge_eq_tc a b.
Proof.
  intros [] [] (A1 & A2 & A3 & A4 & A5 & A6 & A7). cbn in *. subst. reflexivity.
Qed.

Theorem layering_ok_of_frame : forall g g',
  ns_frame g g' -> feasible g' -> (forall e, In e (g_E g) -> (1 <= e_delta (gedge g e))%Z) ->
  layering_ok g g'.
Proof.
  intros g g' [F1 F2 F3 F4 F5 F6 F7] Hf Hd. constructor; try assumption.
  - intros e. apply edge_tc_eq_tc. apply F7.
  - intros e He. specialize (Hf e He). rewrite F2 in He. specialize (Hd e He).
    destruct (F7 e) as (_ & _ & D & _). unfold slack in Hf. cbv zeta in Hf. rewrite D in Hf. lia.
Qed.

Theorem ns_layering_ok : forall p g,
  CBBase.consistent g -> CBBase.ranked g -> (forall e, In e (g_E g) -> (1 <= e_delta (gedge g e))%Z) ->
  ns_ok_for p g.
Proof.
  intros p g C R D g' H. destruct (ns_wf_of_consistent g C R) as [W Hac].
  destruct (exec_network_simplex_feasible_all p g g' W Hac H) as (Hf & _ & Fr).
  apply (layering_ok_of_frame g g' Fr Hf D).
Qed.
Print Assumptions ns_layering_ok.

(* ------------------------------------------------------------------------------------------------ *)
(* the premise of the end-to-end theorems                                                            *)
(* ------------------------------------------------------------------------------------------------ *)
Theorem ns_premise_holds : forall o g, component_input g -> ns_premise o g.
Proof.
  intros o g CI. apply (ns_premise_intro o g CI). intros g0 del g1 S01.
  apply ns_layering_ok.
  - apply (s1_c _ _ _ _ S01).
  - apply (s1_ranked _ _ _ _ S01).
  - intros e He. destruct (s1_edge _ _ _ _ S01 e He) as (_ & _ & _ & D & _). rewrite D. lia.
Qed.
Print Assumptions ns_premise_holds.

Theorem pipeline_backbone_ns : forall o g g' x,
  component_input g -> options_ok o -> wm_premise o g ->
  layout_component o g = Ok (g', x) ->
  exists g0 del g1 g2 g3 k g3' cx g4 gm routes g5, backbone o g g' x g0 del g1 g2 g3 k g3' cx g4 gm routes g5.
Proof. intros o g g' x CI OK WM H. exact (pipeline_backbone o g g' x CI OK WM (ns_premise_holds o g CI) H). Qed.

Theorem E1_output_graph_ns : forall o g g' x,
  component_input g -> options_ok o -> wm_premise o g ->
  layout_component o g = Ok (g', x) -> E1_statement g g'.
Proof. intros o g g' x CI OK WM H. exact (E1_output_graph o g g' x CI OK WM (ns_premise_holds o g CI) H). Qed.

Theorem E2_bands_ns : forall o g g' x,
  component_input g -> options_ok o -> wm_premise o g ->
  layout_component o g = Ok (g', x) -> E2_statement (o_layer_spacing o) g g'.
Proof. intros o g g' x CI OK WM H. exact (E2_bands o g g' x CI OK WM (ns_premise_holds o g CI) H). Qed.

Theorem E3_endpoints_ns : forall o g g' x,
  component_input g -> options_ok o -> wm_premise o g ->
  layout_component o g = Ok (g', x) -> E3_statement g g'.
Proof. intros o g g' x CI OK WM H. exact (E3_endpoints o g g' x CI OK WM (ns_premise_holds o g CI) H). Qed.

Theorem E4_route_shape_ns : forall o g g' x,
  component_input g -> options_ok o -> wm_premise o g ->
  layout_component o g = Ok (g', x) -> E4_statement (o_p5 o) (o_layer_spacing o) g g'.
Proof. intros o g g' x CI OK WM H. exact (E4_route_shape o g g' x CI OK WM (ns_premise_holds o g CI) H). Qed.

(* E1 - E4 for the components [layout] really processes, with no premise about network simplex *)
Theorem layout_component_end_to_end_ns : forall (A : Type) (eqA : A -> A -> bool),
  (forall x y, eqA x y = true <-> x = y) ->
  forall es ids g fixed sizes o c c' x,
    populate A eqA es = Ok (ids, g) ->
    In c (components (apply_sizes A eqA fixed sizes ids g)) -> (2 <= length (g_N c))%nat ->
    options_ok o -> wm_premise o c ->
    layout_component o c = Ok (c', x) ->
    E1_statement c c' /\ E2_statement (o_layer_spacing o) c c' /\ E3_statement c c' /\
    E4_statement (o_p5 o) (o_layer_spacing o) c c'.
Proof.
  intros A eqA OKA es ids g fixed sizes o c c' x H Hc TWO OO WM L.
  pose proof (frontend_component_input A eqA OKA es ids g fixed sizes H c Hc TWO) as CI.
  exact (layout_component_end_to_end A eqA OKA es ids g fixed sizes o c c' x H Hc TWO OO WM
           (ns_premise_holds o c CI) L).
Qed.
Print Assumptions layout_component_end_to_end_ns.
