(* NSComp.v — N2/N3 for the model: on a state whose flagged edges form a spanning tree,
   - [stree_exists]: a successful [set_stree_values] has the shape of a tree t whose nodes are exactly g_N
     (each once) and whose edges are exactly the flagged edges of g_E; lim/low are the postorder numbering of t;
   - [in_head_spec]: [in_head_component] is membership in (or in the complement of) a subtree;
   - [in_head_iff_conn]: {n | in_head_component n e} is exactly the set of nodes connected to the head of e
     by tree edges other than e, and its complement the set connected to the tail of e;
   - [tree_edge_same_side] (H1) and [tree_edge_tail_to_head] (H2), the two facts used by OptFeasible.pivot_step_feasible. *)
From Autog Require Import Base Graph Populate Phase2 Optimality OptNormalize OptVbalance OptFeasible OptInit
  NSDefs NSFeasLoop NSTree NSLimLow.

(* ------------------------------------------------------------------------------------------------ *)
(* walk_stree only looks at flags, adjacency and edge ends                                           *)
(* ------------------------------------------------------------------------------------------------ *)
Lemma ws_loop_ext : forall g g' rec rec' n,
  (forall e, e_tree (gedge g' e) = e_tree (gedge g e)) ->
  (forall e m, connected_node g' e m = connected_node g e m) ->
  (forall m low st, rec' m low st = rec m low st) ->
  forall es lim st, ws_loop rec' g' n es lim st = ws_loop rec g n es lim st.
Proof.
  intros g g' rec rec' n Hf Hc Hr es; induction es as [|e t IH]; intros lim st; [reflexivity|].
  destruct st as [[lims lows] vis]. cbn [ws_loop]. fold (ws_loop rec g n) (ws_loop rec' g' n).
  rewrite Hf, Hc, Hr.
  destruct (e_tree (gedge g e) && negb (mem_nat e vis))%bool; [|apply IH].
  destruct (rec (connected_node g e n) lim (lims, lows, e :: vis)) as [r|err]; cbn [bind]; [apply IH | reflexivity].
Qed.

Lemma walk_stree_ext : forall g g', same_tree g g' ->
  forall fuel n low st, walk_stree fuel g' n low st = walk_stree fuel g n low st.
Proof.
  intros g g' [G T]. induction fuel as [|f IH]; intros n low st; [reflexivity|].
  destruct st as [[lims lows] vis]. rewrite !walk_stree_S.
  assert (Ea : all_edges g' n = all_edges g n).
  { destruct G as (G1 & _). unfold all_edges, gnode. rewrite G1. reflexivity. }
  rewrite Ea. rewrite (ws_loop_ext g g' (walk_stree f g) (walk_stree f g') n T); [reflexivity| |exact IH].
  intros e m. apply (conn_geom g g' e m G).
Qed.

Lemma set_stree_values_same_tree : forall g g', same_tree g g' -> set_stree_values g' = set_stree_values g.
Proof.
  intros g g' S. pose proof S as [(G1 & G2 & _) _]. unfold set_stree_values. rewrite G2, G1.
  destruct (g_N g) as [|root rest]; [reflexivity|]. rewrite (walk_stree_ext g g' S). reflexivity.
Qed.

(* ------------------------------------------------------------------------------------------------ *)
(* the tree behind lim/low                                                                           *)
(* ------------------------------------------------------------------------------------------------ *)
Record stree_of (g : graph) (ll : limlow) (t : rtree) : Prop := mkStreeOf {
  so_root : rroot t = root_of g;
  so_nodes : forall n, In n (rnodes t) <-> In n (g_N g);
  so_nd : NoDup (rnodes t);
  so_nde : NoDup (redges t);
  so_edges : forall e, In e (redges t) <-> In e (g_E g) /\ e_tree (gedge g e) = true;
  so_links : forall l, In l (rlinks t) -> link_ok g l;
  so_lt : forall p c, In (p, c) (rlinks t) -> lim_of ll (rroot c) < lim_of ll p;
  so_iv : forall p c, In (p, c) (rlinks t) -> forall k, In k (g_N g) ->
            (In k (rnodes c) <-> low_of ll (rroot c) <= lim_of ll k <= lim_of ll (rroot c));
  so_num : forall k, In k (g_N g) -> 1 <= low_of ll k /\ 1 <= lim_of ll k <= Z.of_nat (length (g_N g));
  so_inj : forall k1 k2, In k1 (g_N g) -> In k2 (g_N g) -> lim_of ll k1 = lim_of ll k2 -> k1 = k2
}.

Lemma nodes_closed : forall (S : nat -> Prop) t, S (rroot t) ->
  (forall p c, In (p, c) (rlinks t) -> S p -> S (rroot c)) -> forall x, In x (rnodes t) -> S x.
Proof.
  intros S. induction t as [e n cs IH] using rtree_ind2. intros Hr Hl x Hx. cbn [rroot] in Hr.
  rewrite rnodes_eq in Hx. destruct Hx as [Hx|Hx]; [subst x; exact Hr|].
  apply in_fnodes in Hx. destruct Hx as [c [Hc Hx]]. apply (IH c Hc); [| |exact Hx].
  - apply (Hl n c); [|exact Hr]. rewrite rlinks_eq. apply in_flinks. left. split; [reflexivity | exact Hc].
  - intros p c' Hin. apply Hl. rewrite rlinks_eq. apply in_flinks. right. exists c. split; assumption.
Qed.

Lemma joins_two : forall g e a b p r, joins g e a b -> joins g e p r -> (b = p \/ b = r).
Proof. intros g e a b p r [[A1 A2]|[A1 A2]] [[B1 B2]|[B1 B2]]; [right|left|left|right]; congruence. Qed.

Lemma conn_in_N : forall g e n, ns_wf g -> In e (g_E g) -> In (connected_node g e n) (g_N g).
Proof.
  intros g e n [[_ Ein _] _ _] He. destruct (Ein e He) as [Hf Ht]. unfold connected_node.
  destruct (Nat.eqb (e_to (gedge g e)) n); assumption.
Qed.

Theorem stree_exists : forall g ll, ns_wf g -> spanning_tree g -> set_stree_values g = Ok ll ->
  exists t, stree_of g ll t.
Proof.
  intros g ll W [Hconn Hcnt] H. unfold set_stree_values in H.
  unfold root_of in Hconn. destruct (g_N g) as [|root rest] eqn:EN; [discriminate|]. cbn [hd] in Hconn.
  set (z := repeat 0 (length (g_na g))) in *.
  destruct (walk_stree (S (length (g_na g))) g root 1 (z, z, [])) as [[next [[lims0 lows0] vis']]|err] eqn:Ew;
    cbn [bind] in H; [|discriminate].
  inversion H; subst ll. clear H.
  destruct (walk_run g _ _ _ _ _ _ _ _ _ _ Ew) as [cs [R N]].
  set (t := RT 0%nat root cs). specialize (N 0%nat). fold t in N.
  destruct R as [R1 R2 R3 R4 R5 R6 R7].
  pose proof W as [[[HndN HrN] Ein A] HndE Hnl].
  assert (HrootN : In root (g_N g)) by (rewrite EN; left; reflexivity).
  (* A: what the links know *)
  assert (HA : forall p c, In (p, c) (rlinks t) ->
             e_tree (gedge g (redge c)) = true /\ In (redge c) (all_edges g p) /\
             rroot c = connected_node g (redge c) p).
  { intros p c Hin. unfold t in Hin. rewrite rlinks_eq in Hin. apply in_flinks in Hin.
    destruct Hin as [[Hp Hc]|[c0 [Hc0 Hx]]].
    - subst p. destruct (R6 c Hc) as (C1 & C2 & C3). split; [exact C2|]. split; assumption.
    - apply R7. apply in_flat_map. exists c0. split; assumption. }
  (* B: all nodes of t are nodes of the component *)
  assert (HB : forall x, In x (rnodes t) -> In x (g_N g)).
  { apply nodes_closed; [exact HrootN|]. intros p c Hin Hp. destruct (HA p c Hin) as (_ & A2 & A3).
    rewrite A3. apply (conn_in_N g _ _ W). apply (ns_wf_all_edges g p _ W Hp). exact A2. }
  (* C: the links are usable tree edges *)
  assert (HC : forall l, In l (rlinks t) -> link_ok g l).
  { intros [p c] Hin. destruct (HA p c Hin) as (A1 & A2 & A3).
    destruct (rlinks_facts t p c Hin) as (Hp & _).
    apply (ns_wf_all_edges g p _ W (HB p Hp)) in A2. destruct A2 as [HeE Hend].
    unfold link_ok. cbn [fst snd]. split; [exact HeE|]. split; [exact A1|]. rewrite A3. apply conn_joins. exact Hend. }
  (* D: edges of t are flagged edges of g_E *)
  assert (HD : incl (redges t) (tree_edges g)).
  { intros e He. apply in_redges_link in He. destruct He as [p [c [Hin He]]]. subst e.
    destruct (HC _ Hin) as (L1 & L2 & _). cbn [snd] in *. apply in_tree_edges. split; assumption. }
  (* E: every node connected to the root is in t *)
  assert (HE : forall a n, tconn g all_ok a n -> In a (rnodes t) -> In n (rnodes t)).
  { intros a0 n Hc. induction Hc as [a|a b c e Hab IH0 He Ht _ Hj]; intros Ha; [exact Ha|].
    pose proof (IH0 Ha) as IH. clear IH0.
    assert (Hb : In b (g_N g)) by (apply HB; exact IH).
    assert (Heb : In e (all_edges g b)).
    { apply (ns_wf_all_edges g b e W Hb). split; [exact He|]. destruct Hj as [[J1 J2]|[J1 J2]]; [right|left]; assumption. }
    assert (Hvis : In e vis').
    { unfold t in IH. rewrite rnodes_eq in IH. destruct IH as [IH|IH].
      - subst b. apply R4; assumption.
      - apply (R5 b IH e Heb Ht). }
    apply R1 in Hvis. destruct Hvis as [Hvis|[]].
    change (fedges cs) with (redges t) in Hvis. apply in_redges_link in Hvis.
    destruct Hvis as [p [c0 [Hin He0]]]. subst e. destruct (HC _ Hin) as (_ & _ & L3). cbn [fst snd] in L3.
    destruct (rlinks_facts t p c0 Hin) as (Hp & _).
    destruct (joins_two g _ b c p (rroot c0) Hj L3) as [->| ->]; [exact Hp|].
    apply (link_nodes_incl t p c0 Hin). apply rroot_in. }
  assert (Hincl : incl (g_N g) (rnodes t)).
  { intros n Hn. apply (HE root n); [apply Hconn; rewrite <- EN; exact Hn|].
    unfold t. rewrite rnodes_eq. left. reflexivity. }
  (* F: counting *)
  assert (Hnde : NoDup (redges t)) by exact R2.
  assert (Hle : (length (redges t) <= tree_count g)%nat) by (apply (NoDup_incl_length Hnde HD)).
  assert (Hlen : (length (rnodes t) <= length (g_N g))%nat).
  { rewrite length_rnodes. rewrite EN. lia. }
  assert (Hndt : NoDup (rnodes t)) by (apply (NoDup_incl_NoDup HndN Hlen Hincl)).
  assert (Hge : (length (g_N g) <= length (rnodes t))%nat) by (apply (NoDup_incl_length HndN Hincl)).
  assert (Hall : incl (tree_edges g) (redges t)).
  { apply (NoDup_length_incl Hnde); [|exact HD]. rewrite length_rnodes in Hge. rewrite EN in Hge.
    unfold tree_count in Hcnt. lia. }
  (* G: the numbering *)
  assert (Hbd : bounded (rnodes t) (z, z)).
  { intros k Hk. cbn [fst snd]. unfold z. rewrite repeat_length. split; apply HrN; apply HB; exact Hk. }
  destruct (num_tree_ok t 1 (z, z) Hndt Hbd) as (O & _ & _). rewrite N in O. cbn [fst snd] in O.
  destruct O as [O1 O2 O3 O4 O5 Oi O6].
  exists t. constructor.
  - unfold root_of. rewrite EN. reflexivity.
  - intros n. split; [apply HB | apply Hincl].
  - exact Hndt.
  - exact Hnde.
  - intros e. rewrite <- in_tree_edges. split; [apply HD | apply Hall].
  - exact HC.
  - intros p c Hin. apply (O6 p c Hin).
  - intros p c Hin k Hk. destruct (O6 p c Hin) as [_ Hiv]. apply (Hiv k (Hincl k Hk)).
  - intros k Hk. destruct (O5 k (Hincl k Hk)) as [G1 [G2 G3]].
    unfold low_of, lim_of. cbn [lims lows]. unfold lowf, limf in G1, G2, G3. cbn [fst snd] in G1, G2, G3.
    assert (Hl : length (rnodes t) = length (g_N g)) by lia. rewrite Hl in O4. lia.
  - intros k1 k2 H1 H2 Heq. apply (Oi k1 k2 (Hincl k1 H1) (Hincl k2 H2) Heq).
Qed.
Print Assumptions stree_exists.

(* ------------------------------------------------------------------------------------------------ *)
(* in_head_component in terms of the tree                                                            *)
(* ------------------------------------------------------------------------------------------------ *)
Section Components.
  Variables (g : graph) (ll : limlow) (t : rtree).
  Hypothesis W : ns_wf g.
  Hypothesis St : stree_of g ll t.

  Lemma link_of_tree_edge : forall e, In e (g_E g) -> e_tree (gedge g e) = true ->
    exists p c, In (p, c) (rlinks t) /\ redge c = e.
  Proof. intros e He Ht. apply in_redges_link. apply (so_edges _ _ _ St). split; assumption. Qed.

  Lemma link_ends : forall p c, In (p, c) (rlinks t) ->
    p <> rroot c /\ In p (g_N g) /\ In (rroot c) (g_N g) /\
    ~ In p (rnodes c) /\ In (rroot c) (rnodes c) /\
    In (redge c) (g_E g) /\ e_tree (gedge g (redge c)) = true /\ joins g (redge c) p (rroot c).
  Proof.
    intros p c Hin. destruct (so_links _ _ _ St _ Hin) as (L1 & L2 & L3). cbn [fst snd] in *.
    pose proof (so_lt _ _ _ St p c Hin) as Hlt.
    destruct (rlinks_facts t p c Hin) as (Hp & _).
    destruct (rlinks_nodup_nodes t p c (so_nd _ _ _ St) Hin) as [_ Hpc].
    split; [intros Heq; rewrite Heq in Hlt; lia|].
    split; [apply (so_nodes _ _ _ St); exact Hp|].
    split; [apply (so_nodes _ _ _ St); apply (link_nodes_incl t p c Hin); apply rroot_in|].
    split; [exact Hpc|]. split; [apply rroot_in|]. repeat split; assumption.
  Qed.

  Lemma mem_iv : forall p c n, In (p, c) (rlinks t) -> In n (g_N g) ->
    ((low_of ll (rroot c) <=? lim_of ll n) && (lim_of ll n <=? lim_of ll (rroot c)))%bool = mem_nat n (rnodes c).
  Proof.
    intros p c n Hin Hn. pose proof (so_iv _ _ _ St p c Hin n Hn) as Hiv.
    destruct (mem_nat n (rnodes c)) eqn:Em.
    - apply mem_nat_In in Em. apply Hiv in Em. apply andb_true_intro. split; apply Z.leb_le; lia.
    - destruct ((low_of ll (rroot c) <=? lim_of ll n) && (lim_of ll n <=? lim_of ll (rroot c)))%bool eqn:Eb; [|reflexivity].
      apply andb_prop in Eb. destruct Eb as [E1 E2]. apply Z.leb_le in E1, E2.
      assert (Hc : In n (rnodes c)) by (apply Hiv; lia). apply mem_nat_In in Hc. congruence.
  Qed.

  (* the child end of the edge has the smaller lim; the test is membership in the child subtree *)
  Lemma in_head_spec : forall p c n, In (p, c) (rlinks t) -> In n (g_N g) ->
    in_head_component g ll n (redge c) =
    if Nat.eqb (e_from (gedge g (redge c))) (rroot c) then negb (mem_nat n (rnodes c)) else mem_nat n (rnodes c).
  Proof.
    intros p c n Hin Hn. destruct (link_ends p c Hin) as (Hne & _ & _ & _ & _ & _ & _ & Hj).
    pose proof (so_lt _ _ _ St p c Hin) as Hlt. pose proof (mem_iv p c n Hin Hn) as Hm.
    unfold in_head_component. cbv zeta. destruct Hj as [[J1 J2]|[J1 J2]]; rewrite J1, J2.
    - apply Nat.eqb_neq in Hne. rewrite Hne.
      assert (E : lim_of ll p <? lim_of ll (rroot c) = false) by (apply Z.ltb_ge; lia). rewrite E. exact Hm.
    - rewrite Nat.eqb_refl.
      assert (E : lim_of ll (rroot c) <? lim_of ll p = true) by (apply Z.ltb_lt; lia). rewrite E. rewrite Hm. reflexivity.
  Qed.

  (* H2: e itself goes from the tail component to the head component *)
  Lemma head_tail_ends : forall e, In e (g_E g) -> e_tree (gedge g e) = true ->
    in_head_component g ll (e_to (gedge g e)) e = true /\ in_head_component g ll (e_from (gedge g e)) e = false.
  Proof.
    intros e He Ht. destruct (link_of_tree_edge e He Ht) as [p [c [Hin Hec]]]. subst e.
    destruct (link_ends p c Hin) as (Hne & HpN & HrN & Hpc & Hrc & _ & _ & Hj).
    assert (Mp : mem_nat p (rnodes c) = false).
    { destruct (mem_nat p (rnodes c)) eqn:E; [|reflexivity]. apply mem_nat_In in E. contradiction. }
    assert (Mr : mem_nat (rroot c) (rnodes c) = true) by (apply mem_nat_In; exact Hrc).
    destruct Hj as [[J1 J2]|[J1 J2]].
    - rewrite J1, J2. rewrite (in_head_spec p c _ Hin HrN), (in_head_spec p c _ Hin HpN). rewrite J1.
      apply Nat.eqb_neq in Hne. rewrite Hne, Mp, Mr. split; reflexivity.
    - rewrite J1, J2. rewrite (in_head_spec p c _ Hin HrN), (in_head_spec p c _ Hin HpN). rewrite J1.
      rewrite Nat.eqb_refl, Mp, Mr. split; reflexivity.
  Qed.

  (* H1: every other tree edge has both ends on the same side *)
  Lemma same_side : forall e f, In e (g_E g) -> e_tree (gedge g e) = true ->
    In f (g_E g) -> e_tree (gedge g f) = true -> f <> e ->
    in_head_component g ll (e_from (gedge g f)) e = in_head_component g ll (e_to (gedge g f)) e.
  Proof.
    intros e f He Ht Hf Htf Hne.
    destruct (link_of_tree_edge e He Ht) as [p [c [Hin Hec]]].
    destruct (link_of_tree_edge f Hf Htf) as [p2 [c2 [Hin2 Hfc]]].
    assert (Hne' : redge c <> redge c2) by congruence. subst e.
    destruct (link_ends p2 c2 Hin2) as (_ & Hp2N & Hr2N & _ & _ & _ & _ & Hj). rewrite Hfc in Hj.
    pose proof (links_sep t p c p2 c2 (so_nd _ _ _ St) Hin Hin2 Hne') as Hsep.
    assert (Mm : mem_nat p2 (rnodes c) = mem_nat (rroot c2) (rnodes c)).
    { destruct (mem_nat p2 (rnodes c)) eqn:E1; destruct (mem_nat (rroot c2) (rnodes c)) eqn:E2; try reflexivity.
      - apply mem_nat_In in E1. apply Hsep in E1. apply mem_nat_In in E1. congruence.
      - apply mem_nat_In in E2. apply Hsep in E2. apply mem_nat_In in E2. congruence. }
    destruct Hj as [[J1 J2]|[J1 J2]]; rewrite J1, J2;
      rewrite (in_head_spec p c _ Hin Hp2N), (in_head_spec p c _ Hin Hr2N), Mm; reflexivity.
  Qed.

  Lemma conn_same_side : forall e a b, In e (g_E g) -> e_tree (gedge g e) = true ->
    tconn g (avoid e) a b -> In a (g_N g) ->
    In b (g_N g) /\ in_head_component g ll a e = in_head_component g ll b e.
  Proof.
    intros e a b He Ht Hc. induction Hc as [a|a b c x Hab IH Hx Htx Hok Hj]; intros Ha.
    - split; [exact Ha | reflexivity].
    - destruct (IH Ha) as [Hb Heq]. apply avoid_true in Hok.
      pose proof (same_side e x He Ht Hx Htx Hok) as Hs.
      destruct W as [[_ Ein _] _ _]. destruct (Ein x Hx) as [Hfx Htox].
      destruct Hj as [[J1 J2]|[J1 J2]]; rewrite J1, J2 in *; split; try assumption; congruence.
  Qed.

  (* N3: the two classes are the two components of (tree - e): the nodes connected to the head of e, resp.
     to the tail of e, by tree edges other than e *)
  Theorem in_head_iff_conn_t : forall e n, In e (g_E g) -> e_tree (gedge g e) = true -> In n (g_N g) ->
    (in_head_component g ll n e = true <-> tconn g (avoid e) (e_to (gedge g e)) n) /\
    (in_head_component g ll n e = false <-> tconn g (avoid e) (e_from (gedge g e)) n).
  Proof.
    intros e n He Ht Hn. destruct (head_tail_ends e He Ht) as [Hto Hfrom].
    destruct W as [[_ Ein _] _ _]. destruct (Ein e He) as [HfN HtN].
    assert (Hfwd : (in_head_component g ll n e = true -> tconn g (avoid e) (e_to (gedge g e)) n) /\
                   (in_head_component g ll n e = false -> tconn g (avoid e) (e_from (gedge g e)) n)).
    { destruct (link_of_tree_edge e He Ht) as [p [c [Hin Hec]]]. subst e.
      destruct (link_ends p c Hin) as (Hne & HpN & HrN & Hpc & Hrc & _ & _ & Hj).
      rewrite (in_head_spec p c n Hin Hn).
      assert (Hins : In n (rnodes c) -> tconn g (avoid (redge c)) (rroot c) n).
      { apply (conn_inside_link g t p c (so_links _ _ _ St) (so_nde _ _ _ St) Hin). }
      assert (Hout : ~ In n (rnodes c) -> tconn g (avoid (redge c)) p n).
      { intros Hnc.
        assert (Hnt : In n (rnodes t)) by (apply (so_nodes _ _ _ St); exact Hn).
        assert (Hpt : In p (rnodes t)) by (apply (so_nodes _ _ _ St); exact HpN).
        pose proof (conn_outside g t (so_links _ _ _ St) (so_nde _ _ _ St) p c Hin n Hnt Hnc) as C1.
        pose proof (conn_outside g t (so_links _ _ _ St) (so_nde _ _ _ St) p c Hin p Hpt Hpc) as C2.
        eapply tconn_trans; [apply tconn_sym; exact C2 | exact C1]. }
      destruct Hj as [[J1 J2]|[J1 J2]]; rewrite J1, J2.
      - apply Nat.eqb_neq in Hne. rewrite Hne. split; intros Hm.
        + apply Hins. apply mem_nat_In. exact Hm.
        + apply Hout. intros Hc. apply mem_nat_In in Hc. congruence.
      - rewrite Nat.eqb_refl. split; intros Hm.
        + apply Hout. intros Hc. apply mem_nat_In in Hc. rewrite Hc in Hm. discriminate.
        + apply Hins. apply mem_nat_In. apply negb_false_iff. exact Hm. }
    destruct Hfwd as [F1 F2]. split; split; try assumption.
    - intros Hc. destruct (conn_same_side e _ _ He Ht Hc HtN) as [_ Heq]. congruence.
    - intros Hc. destruct (conn_same_side e _ _ He Ht Hc HfN) as [_ Heq]. congruence.
  Qed.
End Components.

(* ------------------------------------------------------------------------------------------------ *)
(* the same, stated on the model only                                                                *)
(* ------------------------------------------------------------------------------------------------ *)
Theorem in_head_iff_conn : forall g ll e n,
  ns_wf g -> spanning_tree g -> set_stree_values g = Ok ll ->
  In e (g_E g) -> e_tree (gedge g e) = true -> In n (g_N g) ->
  (in_head_component g ll n e = true <-> tconn g (avoid e) (e_to (gedge g e)) n) /\
  (in_head_component g ll n e = false <-> tconn g (avoid e) (e_from (gedge g e)) n).
Proof.
  intros g ll e n W S H He Ht Hn. destruct (stree_exists g ll W S H) as [t St].
  apply (in_head_iff_conn_t g ll t W St e n He Ht Hn).
Qed.
Print Assumptions in_head_iff_conn.

(* H1 *)
Theorem tree_edge_same_side : forall g ll e f,
  ns_wf g -> spanning_tree g -> set_stree_values g = Ok ll ->
  In e (g_E g) -> e_tree (gedge g e) = true -> In f (g_E g) -> e_tree (gedge g f) = true -> f <> e ->
  in_head_component g ll (e_from (gedge g f)) e = in_head_component g ll (e_to (gedge g f)) e.
Proof.
  intros g ll e f W S H He Ht Hf Htf Hne. destruct (stree_exists g ll W S H) as [t St].
  apply (same_side g ll t St e f He Ht Hf Htf Hne).
Qed.
Print Assumptions tree_edge_same_side.

(* H2 *)
Theorem tree_edge_tail_to_head : forall g ll e,
  ns_wf g -> spanning_tree g -> set_stree_values g = Ok ll ->
  In e (g_E g) -> e_tree (gedge g e) = true ->
  in_head_component g ll (e_to (gedge g e)) e = true /\ in_head_component g ll (e_from (gedge g e)) e = false.
Proof.
  intros g ll e W S H He Ht. destruct (stree_exists g ll W S H) as [t St].
  apply (head_tail_ends g ll t St e He Ht).
Qed.
Print Assumptions tree_edge_tail_to_head.

(* the premises of OptFeasible.pivot_step_feasible *)
Corollary pivot_premises : forall g ll e,
  ns_wf g -> spanning_tree g -> set_stree_values g = Ok ll ->
  In e (g_E g) -> e_tree (gedge g e) = true ->
  (forall f', In f' (g_E g) -> e_tree (gedge g f') = true -> f' <> e -> head_to_tail g ll e f' = false) /\
  head_to_tail g ll e e = false.
Proof.
  intros g ll e W S H He Ht. split.
  - intros f' Hf' Htf' Hne. unfold head_to_tail.
    rewrite (tree_edge_same_side g ll e f' W S H He Ht Hf' Htf' Hne).
    destruct (in_head_component g ll (e_to (gedge g f')) e); reflexivity.
  - unfold head_to_tail. destruct (tree_edge_tail_to_head g ll e W S H He Ht) as [H1 H2]. rewrite H2. reflexivity.
Qed.

(* ------------------------------------------------------------------------------------------------ *)
(* Examples: a 5-node DAG                                                                            *)
(* ------------------------------------------------------------------------------------------------ *)
Definition ex5_edges : list (list nat) := [[0;1];[0;2];[1;3];[2;3];[3;4];[0;4]]%nat.
Definition ex5 : graph := pop_graph ex5_edges.

Example ex5_wf : ns_wfb ex5 = true /\ acyclicb (fun n => n) ex5 = true.
Proof. vm_compute. split; reflexivity. Qed.

(* the hypotheses of stree_exists / in_head_iff_conn hold for the state produced by feasible_tree *)
Example ex5_stree : forall g' ll, feasible_tree ex5 = Ok (g', ll) ->
  exists g0 t, g' = set_cut_values g0 ll /\ ns_wf g0 /\ spanning_tree g0 /\ set_stree_values g0 = Ok ll /\ stree_of g0 ll t.
Proof.
  intros g' ll H. destruct ex5_wf as [H1 H2].
  destruct (feasible_tree_spanning ex5 g' ll (ns_wfb_ok _ H1) (acyclicb_ok _ _ H2) H)
    as [g0 (Hs & Eg & S0 & W0 & _)].
  destruct (stree_exists g0 ll W0 S0 Hs) as [t St]. exists g0, t.
  split; [exact Eg|]. split; [exact W0|]. split; [exact S0|]. split; [exact Hs | exact St].
Qed.

(* the model's numbers: tree edges 0-1, 1-3, 2-3, 3-4; postorder numbers lim and subtree minima low *)
Example ex5_numbers :
  match feasible_tree ex5 with
  | Ok (g, ll) => (map (lim_of ll) (g_N g), map (low_of ll) (g_N g), map (fun e => e_tree (gedge g e)) (g_E g))
  | Err _ => ([], [], [])
  end = ([5; 4; 1; 3; 2], [1; 1; 1; 1; 2], [true; false; true; true; true; false]).
Proof. vm_compute. reflexivity. Qed.

(* an independent computation of the component of (tree - e) that contains a node: closure under tree edges *)
Definition comp_step (g : graph) (e : nat) (S : list nat) : list nat :=
  fold_left (fun S x =>
    if e_tree (gedge g x) && negb (Nat.eqb x e) then
      if mem_nat (e_from (gedge g x)) S && negb (mem_nat (e_to (gedge g x)) S) then e_to (gedge g x) :: S
      else if mem_nat (e_to (gedge g x)) S && negb (mem_nat (e_from (gedge g x)) S) then e_from (gedge g x) :: S
      else S
    else S) (g_E g) S.
Definition comp_of (g : graph) (e start : nat) : list nat := Nat.iter (length (g_N g)) (comp_step g e) [start].
Definition comp_checkb (g : graph) (ll : limlow) : bool :=
  forallb (fun e => negb (e_tree (gedge g e)) ||
                    forallb (fun n => Bool.eqb (in_head_component g ll n e)
                                               (mem_nat n (comp_of g e (e_to (gedge g e))))) (g_N g)) (g_E g).

(* on the example, in_head_component agrees with the component of the head computed by closure *)
Example ex5_components :
  match feasible_tree ex5 with Ok (g, ll) => comp_checkb g ll | Err _ => false end = true.
Proof. vm_compute. reflexivity. Qed.

Example ex2_components :
  match feasible_tree (pop_graph ex_edges2) with Ok (g, ll) => comp_checkb g ll | Err _ => false end = true.
Proof. vm_compute. reflexivity. Qed.
