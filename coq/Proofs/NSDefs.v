(* NSDefs.v — shared vocabulary for the proof that network simplex returns a feasible layering:
   - [tconn]: connection of two nodes by flagged (spanning-tree) edges of g_E, ignoring direction;
   - [spanning_tree]: every node of g_N is connected to the root [hd (g_N g)] and #flagged edges = |N| - 1;
   - [ns_wf]: the well-formedness of a component (adjacency consistent, no duplicate edges, no self loops);
   - [same_tree]: two states with the same geometry and the same tree flags;
   - [ns_frame]: what network simplex may change (layers of nodes; tree flag and cut value of edges). *)
From Autog Require Import Base Graph Populate Phase2 Optimality OptNormalize OptVbalance OptFeasible OptInit.

(* ------------------------------------------------------------------------------------------------ *)
(* connection by tree edges                                                                          *)
(* ------------------------------------------------------------------------------------------------ *)
Definition joins (g : graph) (e a b : nat) : Prop :=
  (e_from (gedge g e) = a /\ e_to (gedge g e) = b) \/ (e_from (gedge g e) = b /\ e_to (gedge g e) = a).

Lemma joins_sym : forall g e a b, joins g e a b -> joins g e b a.
Proof. intros g e a b [H|H]; [right|left]; exact H. Qed.

(* [ok] restricts the usable edges further (used for "all tree edges but e") *)
Inductive tconn (g : graph) (ok : nat -> bool) : nat -> nat -> Prop :=
| tc_refl : forall a, tconn g ok a a
| tc_step : forall a b c e, tconn g ok a b -> In e (g_E g) -> e_tree (gedge g e) = true -> ok e = true ->
            joins g e b c -> tconn g ok a c.

Lemma tconn_trans : forall g ok a b c, tconn g ok a b -> tconn g ok b c -> tconn g ok a c.
Proof.
  intros g ok a b c Hab Hbc. induction Hbc as [|b x y e Hbx IH He Ht Hok Hj]; [exact Hab|].
  eapply tc_step; [apply IH; exact Hab | exact He | exact Ht | exact Hok | exact Hj].
Qed.

Lemma tconn_edge : forall g ok a b e, In e (g_E g) -> e_tree (gedge g e) = true -> ok e = true ->
  joins g e a b -> tconn g ok a b.
Proof. intros g ok a b e He Ht Hok Hj. eapply tc_step; [apply tc_refl | exact He | exact Ht | exact Hok | exact Hj]. Qed.

Lemma tconn_sym : forall g ok a b, tconn g ok a b -> tconn g ok b a.
Proof.
  intros g ok a b H. induction H as [|a b c e Hab IH He Ht Hok Hj]; [apply tc_refl|].
  eapply tconn_trans; [|exact IH]. apply (tconn_edge g ok c b e He Ht Hok). apply joins_sym. exact Hj.
Qed.

(* monotonicity: another state / another filter in which every usable edge stays usable *)
Lemma tconn_mono : forall g ok g' ok' a b,
  g_E g' = g_E g ->
  (forall e, In e (g_E g) -> e_tree (gedge g e) = true -> ok e = true ->
             e_tree (gedge g' e) = true /\ ok' e = true /\
             e_from (gedge g' e) = e_from (gedge g e) /\ e_to (gedge g' e) = e_to (gedge g e)) ->
  tconn g ok a b -> tconn g' ok' a b.
Proof.
  intros g ok g' ok' a b HE Hm H. induction H as [|a b c e Hab IH He Ht Hok Hj]; [apply tc_refl|].
  destruct (Hm e He Ht Hok) as (Ht' & Hok' & Hf & Hto).
  eapply tc_step; [exact IH | rewrite HE; exact He | exact Ht' | exact Hok' |].
  unfold joins in *. rewrite Hf, Hto. exact Hj.
Qed.

(* ------------------------------------------------------------------------------------------------ *)
(* the spanning-tree invariant                                                                       *)
(* ------------------------------------------------------------------------------------------------ *)
Definition tree_edges (g : graph) : list nat := filter (fun e => e_tree (gedge g e)) (g_E g).
Definition tree_count (g : graph) : nat := length (tree_edges g).
Definition all_ok (e : nat) : bool := true.
Definition root_of (g : graph) : nat := hd 0%nat (g_N g).

Definition spanning_tree (g : graph) : Prop :=
  (forall n, In n (g_N g) -> tconn g all_ok (root_of g) n) /\ S (tree_count g) = length (g_N g).

Lemma in_tree_edges : forall g e, In e (tree_edges g) <-> In e (g_E g) /\ e_tree (gedge g e) = true.
Proof. intros g e. unfold tree_edges. apply filter_In. Qed.

(* ------------------------------------------------------------------------------------------------ *)
(* well-formedness of a component                                                                    *)
(* ------------------------------------------------------------------------------------------------ *)
Definition no_self_loops (g : graph) : Prop :=
  forall e, In e (g_E g) -> e_from (gedge g e) <> e_to (gedge g e).

Record ns_wf (g : graph) : Prop := mkNsWf {
  nw_vb : vb_wf g;
  nw_ndE : NoDup (g_E g);
  nw_noloop : no_self_loops g
}.

Lemma no_loop_lt : forall g e, no_self_loops g -> In e (g_E g) -> (e < length (g_ea g))%nat.
Proof.
  intros g e H He. destruct (Nat.lt_ge_cases e (length (g_ea g))) as [Hlt|Hge]; [exact Hlt|].
  exfalso. apply (H e He). rewrite (gedge_overflow g e Hge). reflexivity.
Qed.

Lemma acyclic_no_self_loops : forall g, acyclic g -> no_self_loops g.
Proof. intros g [rk Hrk] e He Heq. specialize (Hrk e He). rewrite Heq in Hrk. lia. Qed.

Lemma no_self_loops_geom_same : forall g g', geom_same g g' -> no_self_loops g -> no_self_loops g'.
Proof.
  intros g g' (A1 & A2 & A3 & A4) H e He. rewrite A3 in He. destruct (A4 e) as (P1 & P2 & _).
  rewrite P1, P2. apply H. exact He.
Qed.

Lemma ns_wf_geom_same : forall g g', geom_same g g' -> ns_wf g -> ns_wf g'.
Proof.
  intros g g' G [W1 W2 W3]. constructor.
  - apply (vb_wf_geom_same G W1).
  - destruct G as (_ & _ & A3 & _). rewrite A3. exact W2.
  - apply (no_self_loops_geom_same g g' G W3).
Qed.

Lemma ns_wf_lay_only : forall g g', lay_only g g' -> ns_wf g -> ns_wf g'.
Proof.
  intros g g' L [W1 W2 W3]. constructor.
  - apply (vb_wf_lay_only L W1).
  - rewrite (lay_only_E L). exact W2.
  - intros e He. rewrite (lay_only_E L) in He. rewrite (lay_only_gedge L e). apply W3. exact He.
Qed.

Arguments ns_wf_geom_same {g g'}. Arguments ns_wf_lay_only {g g'}.

(* the adjacency facts in the form used by the graph walks *)
Lemma ns_wf_all_edges : forall g n e, ns_wf g -> In n (g_N g) ->
  (In e (all_edges g n) <-> In e (g_E g) /\ (e_to (gedge g e) = n \/ e_from (gedge g e) = n)).
Proof.
  intros g n e [[_ _ A] _ _] Hn. destruct (A n Hn) as (B1 & B2 & _). unfold all_edges.
  rewrite in_app_iff, B1, B2. tauto.
Qed.

Lemma conn_joins : forall g e n, e_to (gedge g e) = n \/ e_from (gedge g e) = n ->
  joins g e n (connected_node g e n).
Proof.
  intros g e n H. unfold joins, connected_node.
  destruct (Nat.eqb (e_to (gedge g e)) n) eqn:E.
  - apply Nat.eqb_eq in E. right. split; [reflexivity | exact E].
  - apply Nat.eqb_neq in E. destruct H as [H|H]; [contradiction|]. left. split; [exact H | reflexivity].
Qed.

(* ------------------------------------------------------------------------------------------------ *)
(* states with the same geometry and the same tree flags                                             *)
(* ------------------------------------------------------------------------------------------------ *)
Definition same_tree (g g' : graph) : Prop :=
  geom_same g g' /\ forall e, e_tree (gedge g' e) = e_tree (gedge g e).

Lemma same_tree_refl : forall g, same_tree g g.
Proof. intros g. split; [apply geom_same_refl | reflexivity]. Qed.

Lemma same_tree_trans : forall g1 g2 g3, same_tree g1 g2 -> same_tree g2 g3 -> same_tree g1 g3.
Proof.
  intros g1 g2 g3 [G12 T12] [G23 T23]. split; [eapply geom_same_trans; eassumption|].
  intros e. rewrite T23. apply T12.
Qed.

Lemma same_tree_sym : forall g g', same_tree g g' -> same_tree g' g.
Proof.
  intros g g' [(A1 & A2 & A3 & A4) T]. split.
  - repeat split; try (symmetry; assumption); destruct (A4 e) as (P1 & P2 & P3 & P4); symmetry; assumption.
  - intros e. symmetry. apply T.
Qed.

Lemma set_cut_values_same_tree : forall g ll, same_tree g (set_cut_values g ll).
Proof. intros g ll. split; [apply set_cut_values_geom | intros e; apply set_cut_values_tree]. Qed.

Lemma tree_edges_same_tree : forall g g', same_tree g g' -> tree_edges g' = tree_edges g.
Proof.
  intros g g' [(_ & _ & A3 & _) T]. unfold tree_edges. rewrite A3. apply filter_ext_in'. exact T.
Qed.

Lemma tconn_same_tree : forall g g' ok a b, same_tree g g' -> tconn g ok a b -> tconn g' ok a b.
Proof.
  intros g g' ok a b [(A1 & A2 & A3 & A4) T] H. apply (tconn_mono g ok g' ok a b A3); [|exact H].
  intros e He Ht Hok. rewrite T. destruct (A4 e) as (P1 & P2 & _). repeat split; assumption.
Qed.

Lemma spanning_tree_same_tree : forall g g', same_tree g g' -> spanning_tree g -> spanning_tree g'.
Proof.
  intros g g' S [H1 H2]. pose proof S as [(A1 & A2 & A3 & A4) T]. split.
  - unfold root_of. rewrite A2. intros n Hn. apply (tconn_same_tree g g' _ _ _ S). apply H1. exact Hn.
  - unfold tree_count. rewrite (tree_edges_same_tree g g' S), A2. exact H2.
Qed.

(* ------------------------------------------------------------------------------------------------ *)
(* the frame of network simplex                                                                      *)
(* ------------------------------------------------------------------------------------------------ *)
Definition edge_tc (a b : edge) : Prop :=
  e_from a = e_from b /\ e_to a = e_to b /\ e_delta a = e_delta b /\ e_weight a = e_weight b /\
  e_rev a = e_rev b /\ e_pts a = e_pts b /\ e_ahs a = e_ahs b.

Record ns_frame (g g' : graph) : Prop := mkNsFrame {
  nf_N : g_N g' = g_N g;
  nf_E : g_E g' = g_E g;
  nf_L : g_L g' = g_L g;
  nf_na : length (g_na g') = length (g_na g);
  nf_ea : length (g_ea g') = length (g_ea g);
  nf_node : forall n, gnode g' n = set_layer (n_layer (gnode g' n)) (gnode g n);
  nf_edge : forall e, edge_tc (gedge g' e) (gedge g e)
}.

Lemma edge_tc_refl : forall a, edge_tc a a.
Proof. intros a. repeat split. Qed.

Lemma edge_tc_trans : forall a b c, edge_tc a b -> edge_tc b c -> edge_tc a c.
Proof.
  intros a b c (A1 & A2 & A3 & A4 & A5 & A6 & A7) (B1 & B2 & B3 & B4 & B5 & B6 & B7).
  repeat split; congruence.
Qed.

Lemma ns_frame_refl : forall g, ns_frame g g.
Proof.
  intros g. constructor; try reflexivity.
  - intros n. symmetry. apply set_layer_same.
  - intros e. apply edge_tc_refl.
Qed.

Lemma ns_frame_trans : forall g1 g2 g3, ns_frame g1 g2 -> ns_frame g2 g3 -> ns_frame g1 g3.
Proof.
  intros g1 g2 g3 [A1 A2 A3 A4 A5 A6 A7] [B1 B2 B3 B4 B5 B6 B7]. constructor; try congruence.
  - intros n. rewrite (B6 n) at 1. rewrite (A6 n). destruct (gnode g1 n); reflexivity.
  - intros e. eapply edge_tc_trans; [apply B7 | apply A7].
Qed.

Lemma ns_frame_lay_only : forall g g', lay_only g g' -> ns_frame g g'.
Proof.
  intros g g' (A1 & A2 & A3 & A4 & A5 & A6). constructor; try assumption.
  - rewrite A1. reflexivity.
  - intros e. unfold gedge. rewrite A1. apply edge_tc_refl.
Qed.

Lemma ns_frame_upd_edge : forall g a k, (forall ed, edge_tc (k ed) ed) -> ns_frame g (upd_edge g a k).
Proof.
  intros g a k Hk. constructor; try reflexivity.
  - unfold upd_edge, with_ea; cbn [g_ea]. apply length_upd.
  - intros n. symmetry. apply set_layer_same.
  - intros e. rewrite gedge_upd_edge.
    destruct (Nat.eqb e a && Nat.ltb e (length (g_ea g)))%bool; [apply Hk | apply edge_tc_refl].
Qed.

Lemma ns_frame_fold : forall (F : graph -> nat -> graph),
  (forall g e, ns_frame g (F g e)) -> forall l g, ns_frame g (fold_left F l g).
Proof.
  intros F HF l; induction l as [|x t IH]; intros g; cbn [fold_left]; [apply ns_frame_refl|].
  eapply ns_frame_trans; [apply HF | apply IH].
Qed.

Lemma ns_frame_set_cut_values : forall g ll, ns_frame g (set_cut_values g ll).
Proof.
  intros g ll. unfold set_cut_values. apply ns_frame_fold. intros g1 e.
  destruct (negb (e_tree (gedge g1 e))); [apply ns_frame_refl|].
  apply ns_frame_upd_edge. intros ed. repeat split.
Qed.

Lemma ns_frame_clear_flags : forall g, ns_frame g (clear_flags g).
Proof.
  intros g. unfold clear_flags. apply ns_frame_fold. intros g1 e.
  apply ns_frame_upd_edge. intros ed. repeat split.
Qed.

Lemma ns_frame_tt_rel : forall g g', tt_rel g g' -> ns_frame g g'.
Proof.
  intros g g' (A1 & A2 & A3 & A4 & A5 & A6). constructor; try assumption.
  - rewrite A1. reflexivity.
  - intros n. unfold gnode. rewrite A1. symmetry. apply set_layer_same.
  - intros e. destruct (A6 e) as [H|[H _]]; rewrite H; repeat split.
Qed.
