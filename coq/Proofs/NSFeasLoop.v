(* NSFeasLoop.v — feasible_loop returns a spanning tree:
   on success the flagged edges connect every node of g_N to the root, and there are |N| - 1 of them.
   - [tt_loop_clean2], [tt_clean2]: the clean-mode invariant of tight_tree extended by connectivity and counting;
   - [feasible_loop_spanning], [feasible_tree_spanning]. *)
From Autog Require Import Base Graph Populate Phase2 Optimality OptNormalize OptVbalance OptFeasible OptInit NSDefs.

(* ------------------------------------------------------------------------------------------------ *)
(* generic list fact: switching one predicate value from false to true adds one to the filter length *)
(* ------------------------------------------------------------------------------------------------ *)
Lemma filter_len_add : forall (p q : nat -> bool) l e,
  NoDup l -> In e l -> p e = false -> q e = true -> (forall x, x <> e -> q x = p x) ->
  length (filter q l) = S (length (filter p l)).
Proof.
  intros p q l e; induction l as [|x t IH]; intros Hnd Hin Hp Hq Hag; [destruct Hin|].
  inversion Hnd as [|x' t' Hx Ht]; subst. cbn [filter].
  destruct (Nat.eq_dec x e) as [->|Hne].
  - rewrite Hp, Hq. cbn [length]. f_equal. f_equal.
    apply filter_ext_in. intros y Hy. apply Hag. intros ->. contradiction.
  - destruct Hin as [Hin|Hin]; [contradiction|].
    rewrite (Hag x Hne). destruct (p x); cbn [length]; rewrite (IH Ht Hin Hp Hq Hag); reflexivity.
Qed.

(* ------------------------------------------------------------------------------------------------ *)
(* flags along tt_rel                                                                                 *)
(* ------------------------------------------------------------------------------------------------ *)
Lemma e_tree_set_tree : forall b ed, e_tree (set_tree b ed) = b.
Proof. intros b ed. destruct ed; reflexivity. Qed.

Lemma tt_rel_flag_mono : forall g g' e, tt_rel g g' -> e_tree (gedge g e) = true -> e_tree (gedge g' e) = true.
Proof.
  intros g g' e (_ & _ & _ & _ & _ & A6) H. destruct (A6 e) as [HA|[HA _]]; rewrite HA.
  - exact H.
  - apply e_tree_set_tree.
Qed.

Lemma tconn_tt_rel : forall g g' ok a b, tt_rel g g' -> tconn g ok a b -> tconn g' ok a b.
Proof.
  intros g g' ok a b R H. pose proof (tt_rel_geom R) as (A1 & A2 & A3 & A4).
  apply (tconn_mono g ok g' ok a b A3); [|exact H].
  intros e He Ht Hok. destruct (A4 e) as (P1 & P2 & _).
  split; [apply (tt_rel_flag_mono g g' e R Ht)|]. split; [exact Hok|]. split; assumption.
Qed.

Lemma joins_geom : forall g g' e a b, geom_same g g' -> joins g e a b -> joins g' e a b.
Proof.
  intros g g' e a b (_ & _ & _ & A4) H. destruct (A4 e) as (P1 & P2 & _). unfold joins in *.
  rewrite P1, P2. exact H.
Qed.

(* ------------------------------------------------------------------------------------------------ *)
(* counting the flagged edges of the base edge list                                                   *)
(* ------------------------------------------------------------------------------------------------ *)
Definition fcnt (gb g : graph) : nat := length (filter (fun e => e_tree (gedge g e)) (g_E gb)).

Lemma fcnt_flag : forall gb g e,
  NoDup (g_E gb) -> In e (g_E gb) -> (e < length (g_ea g))%nat -> e_tree (gedge g e) = false ->
  fcnt gb (upd_edge g e (set_tree true)) = S (fcnt gb g).
Proof.
  intros gb g e Hnd He Hlt Hf. unfold fcnt.
  apply (filter_len_add (fun x => e_tree (gedge g x)) _ (g_E gb) e Hnd He Hf).
  - rewrite gedge_upd_edge. rewrite Nat.eqb_refl. apply Nat.ltb_lt in Hlt. rewrite Hlt. cbn [andb].
    apply e_tree_set_tree.
  - intros x Hx. rewrite gedge_upd_edge. apply Nat.eqb_neq in Hx. rewrite Hx. reflexivity.
Qed.

Lemma fcnt_tree_count : forall g, fcnt g g = tree_count g.
Proof. intros g. reflexivity. Qed.

(* ------------------------------------------------------------------------------------------------ *)
(* the extended clean-mode invariant                                                                 *)
(* ------------------------------------------------------------------------------------------------ *)
(* c is the node the walk is at; vn the nodes visited before *)
Definition tt_post2 (gb : graph) (c : nat) (g : graph) (vn : list nat) (g' : graph) (vn' : list nat) : Prop :=
  (forall x, In x vn' -> In x vn \/ tconn g' all_ok c x) /\
  (fcnt gb g' + length vn = fcnt gb g + length vn')%nat.

Definition tt_rec_ok2 (gb : graph) (rec : nat -> tt_st -> res tt_st) : Prop :=
  forall m g ve vn g' ve' vn', rec m (g, ve, vn) = Ok (g', ve', vn') ->
    geom_same gb g -> In m (g_N gb) -> ~ In m vn -> NoDup vn -> incl vn (g_N gb) ->
    flagged_in (g_E gb) g ve -> flagged_ends (g_E gb) g (m :: vn) ->
    tt_post gb g ve (m :: vn) g' ve' vn' /\ tt_post2 gb m g (m :: vn) g' vn'.

Lemma tt_rec_ok2_ok : forall gb rec, tt_rec_ok2 gb rec -> tt_rec_ok gb rec.
Proof.
  intros gb rec H m g ve vn g' ve' vn' Hr G HmN Hmv Hnd Hincl HQ HP.
  apply (H m g ve vn g' ve' vn' Hr G HmN Hmv Hnd Hincl HQ HP).
Qed.

Lemma tt_loop_clean2 : forall gb rec n,
  ns_wf gb -> In n (g_N gb) -> tt_rec_ok2 gb rec ->
  forall es g ve vn g' ve' vn',
    tt_loop rec n es (g, ve, vn) = Ok (g', ve', vn') ->
    incl es (all_edges gb n) -> geom_same gb g -> In n vn -> NoDup vn -> incl vn (g_N gb) ->
    flagged_in (g_E gb) g ve -> flagged_ends (g_E gb) g vn ->
    tt_post gb g ve vn g' ve' vn' /\ tt_post2 gb n g vn g' vn'.
Proof.
  intros gb rec n Wb HnN Hrec.
  pose proof Wb as [[Wn Hein Aadj] HndE Hnl].
  pose proof (adj_ok_ADJ gb Aadj) as HADJ.
  pose proof (tt_rec_ok2_ok gb rec Hrec) as Hrec1.
  intros es; induction es as [|e t IH];
    intros g ve vn g' ve' vn' H Hes G Hnvn Hnd Hincl HQ HP.
  - split; [apply (tt_loop_clean gb rec n HADJ Hein HnN Hrec1 _ _ _ _ _ _ _ H); assumption|].
    cbn [tt_loop] in H. inversion H; subst. split; [intros x Hx; left; exact Hx | reflexivity].
  - split; [apply (tt_loop_clean gb rec n HADJ Hein HnN Hrec1 _ _ _ _ _ _ _ H); assumption|].
    cbn [tt_loop] in H. fold (tt_loop rec n) in H.
    assert (Hes' : incl t (all_edges gb n)) by (intros x Hx; apply Hes; right; exact Hx).
    destruct (mem_nat e ve) eqn:Em; [apply (IH _ _ _ _ _ _ H Hes' G Hnvn Hnd Hincl HQ HP)|].
    cbv zeta in H.
    destruct (HADJ n HnN e (Hes e (or_introl eq_refl))) as [HeE Hend].
    destruct (e_tree (gedge g e)) eqn:Et.
    { exfalso. pose proof (HQ e HeE Et) as Hin. apply mem_nat_In in Hin. congruence. }
    pose proof G as (G1 & G2 & G3 & G4).
    assert (Hend_g : e_to (gedge g e) = n \/ e_from (gedge g e) = n).
    { destruct (G4 e) as (P1 & P2 & _). rewrite P1, P2. exact Hend. }
    destruct (conn_ends g e n Hend_g) as [Cf Ct].
    pose proof (conn_joins g e n Hend_g) as Hjoin.
    set (m := connected_node g e n) in *.
    assert (HQ' : flagged_in (g_E gb) g (e :: ve)) by (intros x Hx Hxt; right; apply HQ; assumption).
    destruct (negb (mem_nat m vn) && (slack g e =? 0))%bool eqn:Ec.
    + apply andb_prop in Ec. destruct Ec as [Emv Ez]. apply Z.eqb_eq in Ez.
      apply negb_true_iff in Emv.
      assert (Hmv : ~ In m vn) by (intros Hin; apply mem_nat_In in Hin; congruence).
      destruct (rec m (upd_edge g e (set_tree true), e :: ve, vn)) as [[[g3 ve3] vn3]|err] eqn:Er;
        cbn [bind] in H; [|discriminate].
      assert (Hlt : (e < length (g_ea g))%nat).
      { apply no_loop_lt; [apply (no_self_loops_geom_same gb g G Hnl) | rewrite G3; exact HeE]. }
      pose proof (fcnt_flag gb g e HndE HeE Hlt Et) as Hcnt2.
      assert (Ht2 : e_tree (gedge (upd_edge g e (set_tree true)) e) = true).
      { rewrite gedge_upd_edge. rewrite Nat.eqb_refl. apply Nat.ltb_lt in Hlt. rewrite Hlt. cbn [andb].
        apply e_tree_set_tree. }
      set (g2 := upd_edge g e (set_tree true)) in *.
      assert (R2 : tt_rel g g2) by (apply tt_rel_flag; exact Ez).
      assert (G2' : geom_same gb g2) by (eapply geom_same_trans; [exact G | apply (tt_rel_geom R2)]).
      assert (HmN : In m (g_N gb)).
      { destruct (Hein e HeE) as [Hf Ht]. destruct (G4 e) as (P1 & P2 & _). rewrite <- P1 in Hf. rewrite <- P2 in Ht.
        destruct Cf as [Cf|Cf]; [|rewrite <- Cf; exact Hf].
        destruct Ct as [Ct|Ct]; [|rewrite <- Ct; exact Ht].
        unfold m, connected_node. rewrite Ct, Nat.eqb_refl. rewrite Cf. exact HnN. }
      assert (HQ2 : flagged_in (g_E gb) g2 (e :: ve)).
      { intros x Hx Hxt. apply flag_upd in Hxt. destruct Hxt as [->|Hxt]; [left; reflexivity|].
        right. apply HQ; assumption. }
      assert (HP2 : flagged_ends (g_E gb) g2 (m :: vn)).
      { intros x Hx Hxt. destruct (tt_rel_geom R2) as (_ & _ & _ & Q4). destruct (Q4 x) as (P1 & P2 & _).
        rewrite P1, P2. apply flag_upd in Hxt. destruct Hxt as [->|Hxt].
        - split.
          + destruct Cf as [Cf|Cf]; [right; rewrite Cf; exact Hnvn | left; symmetry; exact Cf].
          + destruct Ct as [Ct|Ct]; [right; rewrite Ct; exact Hnvn | left; symmetry; exact Ct].
        - destruct (HP x Hx Hxt) as [Ha Hb]. split; right; assumption. }
      destruct (Hrec m g2 (e :: ve) vn g3 ve3 vn3 Er G2' HmN Hmv Hnd Hincl HQ2 HP2)
        as [(R3 & Hnd3 & Hincl3 & Hsub3 & Hve3 & HQ3 & HP3) (Hc3 & Hn3)].
      assert (G3' : geom_same gb g3) by (eapply geom_same_trans; [exact G2' | apply (tt_rel_geom R3)]).
      assert (Hnvn3 : In n vn3) by (apply Hsub3; right; exact Hnvn).
      destruct (IH _ _ _ _ _ _ H Hes' G3' Hnvn3 Hnd3 Hincl3 HQ3 HP3)
        as [(R4 & Hnd4 & Hincl4 & Hsub4 & Hve4 & HQ4 & HP4) (Hc4 & Hn4)].
      assert (R24 : tt_rel g2 g') by (eapply tt_rel_trans; eassumption).
      assert (Hnm : tconn g' all_ok n m).
      { apply (tconn_edge g' all_ok n m e).
        - destruct (tt_rel_geom R24) as (_ & _ & X & _). rewrite X. cbn [g2 upd_edge with_ea g_E]. rewrite G3. exact HeE.
        - apply (tt_rel_flag_mono g2 g' e R24 Ht2).
        - reflexivity.
        - apply (joins_geom g g' e n m); [|exact Hjoin].
          eapply geom_same_trans; [apply (tt_rel_geom R2) | apply (tt_rel_geom R24)]. }
      split.
      * intros x Hx. destruct (Hc4 x Hx) as [Hx3|Hx3]; [|right; exact Hx3].
        destruct (Hc3 x Hx3) as [[Hxm|Hxv]|Hxc].
        -- subst x. right. exact Hnm.
        -- left. exact Hxv.
        -- right. eapply tconn_trans; [exact Hnm|]. apply (tconn_tt_rel g3 g' _ _ _ R4 Hxc).
      * cbn [length] in Hn3. lia.
    + apply (IH _ _ _ _ _ _ H Hes' G Hnvn Hnd Hincl HQ' HP).
Qed.

Lemma tt_clean2 : forall gb, ns_wf gb -> forall fuel, tt_rec_ok2 gb (tight_tree fuel).
Proof.
  intros gb Wb fuel; induction fuel as [|f IH];
    intros m g ve vn g' ve' vn' H G HmN Hmv Hnd Hincl HQ HP.
  - cbn in H. discriminate.
  - rewrite tight_tree_S in H.
    assert (Eall : all_edges g m = all_edges gb m).
    { destruct G as (G1 & _). unfold all_edges, gnode. rewrite G1. reflexivity. }
    rewrite Eall in H.
    apply (tt_loop_clean2 gb (tight_tree f) m Wb HmN IH _ _ _ _ _ _ _ H); try assumption.
    + apply incl_refl.
    + left; reflexivity.
    + constructor; assumption.
    + intros x [Hx|Hx]; [subst x; exact HmN | apply Hincl; exact Hx].
Qed.

(* ------------------------------------------------------------------------------------------------ *)
(* (1) feasible_loop                                                                                 *)
(* ------------------------------------------------------------------------------------------------ *)
Lemma fcnt_clear_flags : forall g, fcnt (clear_flags g) (clear_flags g) = 0%nat.
Proof.
  intros g. unfold fcnt. apply filter_length_zero. intros e He.
  destruct (clear_flags_geom g) as (_ & _ & A3 & _). rewrite A3 in He. apply clear_flags_none. exact He.
Qed.

Lemma tree_shift_lay_only : forall g tree e,
  NoDup tree -> (forall n, In n tree -> (n < length (g_na g))%nat) -> lay_only g (tree_shift g tree e).
Proof.
  intros g tree e Hnd Hr. unfold tree_shift. cbv zeta.
  match goal with |- lay_only _ (fold_left _ _ _) =>
    set (d := if mem_nat (e_to (gedge g e)) tree then - slack g e else slack g e) end.
  apply (shift_nodes_spec (fun z => z + d) (fun _ => true) tree g Hnd Hr).
Qed.

Lemma feasible_loop_spanning_full : forall fuel g g',
  ns_wf g -> feasible g -> feasible_loop fuel g = Ok g' ->
  spanning_tree g' /\ ns_frame g g' /\ ns_wf g' /\ feasible g'.
Proof.
  induction fuel as [|f IH]; intros g g' W Hf H.
  - cbn in H. discriminate.
  - rewrite feasible_loop_S in H.
    destruct (g_N g) as [|root rest] eqn:EN; [discriminate|].
    cbv zeta in H.
    pose proof (clear_flags_geom g) as G0.
    pose proof (ns_frame_clear_flags g) as F0.
    pose proof (fcnt_clear_flags g) as Hc0.
    set (g0 := clear_flags g) in *.
    destruct (tight_tree (S (length (g_na g0))) root (g0, [], [])) as [[[g1 ve] tree]|err] eqn:Ett;
      cbn [bind] in H; [|discriminate].
    pose proof (ns_wf_geom_same G0 W) as W0.
    pose proof (tight_tree_spec _ _ _ _ Ett) as R1. cbn [gof fst] in R1.
    pose proof (tt_rel_geom R1) as G1.
    pose proof (ns_frame_tt_rel g0 g1 R1) as F1.
    pose proof (ns_wf_geom_same G1 W0) as W1.
    assert (F01 : ns_frame g g1) by (eapply ns_frame_trans; eassumption).
    assert (Hf0 : feasible g0) by (apply (feasible_geom_same G0 Hf)).
    assert (Hf1 : feasible g1) by (apply (feasible_geom_same G1 Hf0)).
    assert (E01 : g_E g1 = g_E g0) by (destruct G1 as (_ & _ & X & _); exact X).
    assert (N01 : g_N g1 = g_N g0) by (destruct G1 as (_ & X & _); exact X).
    assert (E0 : g_E g0 = g_E g) by (destruct G0 as (_ & _ & X & _); exact X).
    assert (N0 : g_N g0 = g_N g) by (destruct G0 as (_ & X & _); exact X).
    assert (HrootN : In root (g_N g0)) by (rewrite N0, EN; left; reflexivity).
    (* clean-mode facts about tight_tree *)
    destruct (tt_clean2 g0 W0 _ root g0 [] [] g1 ve tree Ett
                (geom_same_refl g0) HrootN (fun x => x) (NoDup_nil nat) (fun x Hx => match Hx with end))
      as [(_ & HndT & HinclT & _ & _ & _ & HPT) (HconnT & HcntT)].
    { intros x Hx Hxt. unfold g0 in Hxt. rewrite E0 in Hx. rewrite (clear_flags_none g x Hx) in Hxt.
      discriminate. }
    { intros x Hx Hxt. unfold g0 in Hxt. rewrite E0 in Hx. rewrite (clear_flags_none g x Hx) in Hxt.
      discriminate. }
    destruct (Nat.eqb (length tree) (length (g_N g1))) eqn:Elen.
    + inversion H; subst g'. apply Nat.eqb_eq in Elen.
      split; [|split; [exact F01 | split; [exact W1 | exact Hf1]]].
      split.
      * intros n Hn.
        assert (Hroot1 : root_of g1 = root) by (unfold root_of; rewrite N01, N0, EN; reflexivity).
        rewrite Hroot1.
        assert (Hall : incl (g_N g0) tree).
        { apply NoDup_length_incl; [exact HndT | rewrite <- N01, <- Elen; apply Nat.le_refl | exact HinclT]. }
        rewrite N01 in Hn. destruct (HconnT n (Hall n Hn)) as [[Hx|[]]|Hx]; [subst n; apply tc_refl | exact Hx].
      * assert (Htc : tree_count g1 = fcnt g0 g1).
        { unfold tree_count, tree_edges, fcnt. rewrite E01. reflexivity. }
        rewrite Htc, <- Elen. cbn [length] in HcntT. lia.
    + destruct (incident_non_tree_edge g1 tree) as [e|] eqn:Einc; [|discriminate].
      pose proof W1 as [[[Hnd1 Hr1] Hein1 A1] _ _].
      assert (Hnocross : forall x, In x (g_E g1) -> e_tree (gedge g1 x) = true -> ~ crossing g1 tree x).
      { intros x Hx Hxt Hcr. rewrite E01 in Hx. destruct (HPT x Hx Hxt) as [Ha Hb].
        apply mem_nat_In in Ha, Hb. unfold crossing in Hcr. congruence. }
      destruct (incident_spec g1 tree e A1 Hein1 Hnocross Einc) as (HeE & Hcr & Hmin).
      assert (HrT : forall n, In n tree -> (n < length (g_na g1))%nat).
      { intros n Hn. apply Hr1. rewrite N01. apply HinclT. exact Hn. }
      destruct (tree_shift_feasible g1 tree e HndT HrT Hf1 HeE Hcr (fun e' He' Hc' _ => Hmin e' He' Hc'))
        as (Hf2 & _ & _).
      pose proof (tree_shift_lay_only g1 tree e HndT HrT) as L2.
      pose proof (ns_wf_lay_only L2 W1) as W2.
      destruct (IH _ _ W2 Hf2 H) as (S' & F' & W' & Hf').
      split; [exact S'|]. split; [|split; [exact W' | exact Hf']].
      eapply ns_frame_trans; [exact F01|]. eapply ns_frame_trans; [apply (ns_frame_lay_only _ _ L2) | exact F'].
Qed.

Theorem feasible_loop_spanning : forall fuel g g',
  ns_wf g -> feasible g -> feasible_loop fuel g = Ok g' ->
  spanning_tree g' /\ ns_frame g g' /\ ns_wf g'.
Proof.
  intros fuel g g' W Hf H. destruct (feasible_loop_spanning_full fuel g g' W Hf H) as (A & B & C & _).
  split; [exact A|]. split; [exact B | exact C].
Qed.
Print Assumptions feasible_loop_spanning.

(* ------------------------------------------------------------------------------------------------ *)
(* (2) feasible_tree                                                                                 *)
(* ------------------------------------------------------------------------------------------------ *)
Theorem feasible_tree_spanning : forall g g' ll,
  ns_wf g -> acyclic g -> feasible_tree g = Ok (g', ll) ->
  exists g0, set_stree_values g0 = Ok ll /\ g' = set_cut_values g0 ll /\
             spanning_tree g0 /\ ns_wf g0 /\ feasible g0 /\
             (forall e, In e (g_E g0) -> e_tree (gedge g0 e) = true -> slack g0 e = 0) /\
             ns_frame g g0.
Proof.
  intros g g' ll W Hac H. unfold feasible_tree in H.
  pose proof W as [Wv HndE _].
  destruct (init_layers g) as [g1|err] eqn:E1; cbn [bind] in H; [|discriminate].
  destruct (init_layers_feasible g g1 Wv HndE Hac E1) as [Hf1 L1].
  pose proof (ns_wf_lay_only L1 W) as W1.
  destruct (feasible_loop (S (length (g_N g1))) g1) as [g2|err] eqn:E2; cbn [bind] in H; [|discriminate].
  destruct (feasible_loop_feasible _ g1 g2 (vb_wf_lay_only L1 Wv) Hf1 E2) as (Hf2 & Ht2 & _ & _).
  destruct (feasible_loop_spanning _ g1 g2 W1 Hf1 E2) as (S2 & F2 & W2).
  destruct (set_stree_values g2) as [ll2|err] eqn:E3; cbn [bind] in H; [|discriminate].
  inversion H; subst g' ll. clear H.
  exists g2. split; [exact E3|]. split; [reflexivity|]. split; [exact S2|]. split; [exact W2|].
  split; [exact Hf2|]. split; [exact Ht2|].
  eapply ns_frame_trans; [apply (ns_frame_lay_only _ _ L1) | exact F2].
Qed.
Print Assumptions feasible_tree_spanning.

(* ------------------------------------------------------------------------------------------------ *)
(* Example: the hypotheses hold for a graph built by Populate                                        *)
(* ------------------------------------------------------------------------------------------------ *)
Definition no_self_loopsb (g : graph) : bool :=
  forallb (fun e => negb (Nat.eqb (e_from (gedge g e)) (e_to (gedge g e)))) (g_E g).

Lemma no_self_loopsb_ok : forall g, no_self_loopsb g = true -> no_self_loops g.
Proof.
  intros g H e He. unfold no_self_loopsb in H. rewrite forallb_forall in H. specialize (H e He).
  apply negb_true_iff in H. apply Nat.eqb_neq in H. exact H.
Qed.

Definition ns_wfb (g : graph) : bool := vb_wfb g && nodupb (g_E g) && no_self_loopsb g.

Lemma ns_wfb_ok : forall g, ns_wfb g = true -> ns_wf g.
Proof.
  intros g H. unfold ns_wfb in H. apply andb_prop in H. destruct H as [H H3].
  apply andb_prop in H. destruct H as [H1 H2]. constructor.
  - apply vb_wfb_ok. exact H1.
  - apply nodupb_NoDup. exact H2.
  - apply no_self_loopsb_ok. exact H3.
Qed.

Example ex_ns_hyps :
  ns_wfb (pop_graph ex_edges2) = true /\ acyclicb ex_rank2 (pop_graph ex_edges2) = true /\
  is_ok (feasible_tree (pop_graph ex_edges2)) = true.
Proof. vm_compute. repeat split; reflexivity. Qed.

Example ex_feasible_tree_spanning : forall g' ll, feasible_tree (pop_graph ex_edges2) = Ok (g', ll) ->
  exists g0, set_stree_values g0 = Ok ll /\ g' = set_cut_values g0 ll /\
             spanning_tree g0 /\ ns_wf g0 /\ feasible g0 /\
             (forall e, In e (g_E g0) -> e_tree (gedge g0 e) = true -> slack g0 e = 0) /\
             ns_frame (pop_graph ex_edges2) g0.
Proof.
  intros g' ll H. destruct ex_ns_hyps as (H1 & H2 & _).
  apply (feasible_tree_spanning (pop_graph ex_edges2) g' ll (ns_wfb_ok _ H1) (acyclicb_ok ex_rank2 _ H2) H).
Qed.

(* feasible_loop on the initial layering of the example: the hypotheses of (1) hold and it succeeds *)
Example ex_feasible_loop_hyps :
  match init_layers (pop_graph ex_edges2) with
  | Ok g1 => ns_wfb g1 && feasibleb g1 && is_ok (feasible_loop (S (length (g_N g1))) g1)
  | Err _ => false
  end = true.
Proof. vm_compute. reflexivity. Qed.
