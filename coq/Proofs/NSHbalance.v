(* NSHbalance.v — the balancing used for the positioner's auxiliary graph (ns_balance = 2):
   - [adjust_layers_spec]: adjust_layers moves exactly the nodes of the subtree below its start node;
   - [hbalance_feasible]: hbalance keeps the layering feasible (it moves one component of (tree - e) by at most
     the least slack of the edges that would be shortened);
   - [exec_network_simplex_feasible_all]: the final theorem without the restriction ns_balance <> 2. *)
From Autog Require Import Base Graph Populate Phase2 Optimality OptNormalize OptVbalance OptFeasible OptInit
  OptPipeline NSDefs NSFeasLoop NSTree NSLimLow NSComp NSPivot.

(* ------------------------------------------------------------------------------------------------ *)
(* subtrees and their children                                                                       *)
(* ------------------------------------------------------------------------------------------------ *)
Definition sub (t s : rtree) : Prop := s = t \/ exists p, In (p, s) (rlinks t).

Lemma sub_links : forall t s, sub t s -> incl (rlinks s) (rlinks t).
Proof.
  intros t s [->|[p Hp]]; [apply incl_refl|]. destruct (rlinks_facts t p s Hp) as (_ & _ & A3 & _). exact A3.
Qed.

Lemma kid_link : forall s c, In c (rkids s) -> In (rroot s, c) (rlinks s).
Proof.
  intros [e n cs] c Hc. cbn [rkids rroot] in *. rewrite rlinks_eq. apply in_flinks. left. split; [reflexivity | exact Hc].
Qed.

Lemma sub_kid_link : forall t s c, sub t s -> In c (rkids s) -> In (rroot s, c) (rlinks t).
Proof. intros t s c Hs Hc. apply (sub_links t s Hs). apply kid_link. exact Hc. Qed.

Lemma sub_kid_sub : forall t s c, sub t s -> In c (rkids s) -> sub t c.
Proof. intros t s c Hs Hc. right. exists (rroot s). apply (sub_kid_link t s c Hs Hc). Qed.

Lemma sub_nodes : forall t s, sub t s -> incl (rnodes s) (rnodes t).
Proof. intros t s [->|[p Hp]]; [apply incl_refl | apply (link_nodes_incl t p s Hp)]. Qed.

Lemma sub_nodup : forall t s, NoDup (rnodes t) -> sub t s -> NoDup (rnodes s).
Proof.
  induction t as [e n cs IH] using rtree_ind2. intros s Hnd [->|[p Hp]]; [exact Hnd|].
  rewrite rnodes_eq in Hnd. inversion Hnd as [|n' l' Hn Hf]; subst.
  rewrite rlinks_eq in Hp. apply in_flinks in Hp. destruct Hp as [[_ Hc]|[c0 [Hc0 Hx]]].
  - apply (flat_map_NoDup_block _ _ rnodes cs s Hf Hc).
  - apply (IH c0 Hc0); [apply (flat_map_NoDup_block _ _ rnodes cs c0 Hf Hc0)|]. right. exists p. exact Hx.
Qed.

Lemma sub_nodup_edges : forall t s, NoDup (redges t) -> sub t s -> NoDup (redges s).
Proof.
  induction t as [e n cs IH] using rtree_ind2. intros s Hnd [->|[p Hp]]; [exact Hnd|].
  rewrite redges_eq in Hnd. rewrite rlinks_eq in Hp. apply in_flinks in Hp.
  assert (Hblk : forall c0, In c0 cs -> NoDup (redges c0)).
  { intros c0 Hc0. pose proof (flat_map_NoDup_block _ _ eblock cs c0 Hnd Hc0) as Hb. unfold eblock in Hb.
    inversion Hb; assumption. }
  destruct Hp as [[_ Hc]|[c0 [Hc0 Hx]]].
  - apply (Hblk s Hc).
  - apply (IH c0 Hc0); [apply (Hblk c0 Hc0)|]. right. exists p. exact Hx.
Qed.

(* the links that start at the root of a subtree lead to its children *)
Lemma kids_of_aux : forall t, NoDup (rnodes t) -> forall p' c', In (p', c') (rlinks t) ->
  (p' = rroot t -> In c' (rkids t)) /\
  (forall p s, In (p, s) (rlinks t) -> p' = rroot s -> In c' (rkids s)).
Proof.
  induction t as [e n cs IH] using rtree_ind2. intros Hnd p' c' Hin.
  rewrite rnodes_eq in Hnd. inversion Hnd as [|n' l' Hn Hf]; subst. cbn [rroot rkids].
  assert (Hdisj : forall a b x, In a cs -> In b cs -> In x (rnodes a) -> In x (rnodes b) -> a = b).
  { intros a b x Ha Hb Hxa Hxb. apply (flat_map_NoDup_inj _ _ rnodes cs a b x Hf Ha Hb Hxa Hxb). }
  assert (Hsub : forall c0, In c0 cs -> NoDup (rnodes c0)).
  { intros c0 Hc0. apply (flat_map_NoDup_block _ _ rnodes cs c0 Hf Hc0). }
  rewrite rlinks_eq in Hin |- *. apply in_flinks in Hin. destruct Hin as [[Hp Hc]|[cj [Hcj Hx]]].
  - subst p'. split; [intros _; exact Hc|]. intros p s Hps Heq. exfalso. apply Hn.
    rewrite Heq. apply in_flinks in Hps. destruct Hps as [[_ Hs]|[ci [Hci Hy]]].
    + apply in_fnodes. exists s. split; [exact Hs | apply rroot_in].
    + apply in_fnodes. exists ci. split; [exact Hci | apply (link_nodes_incl ci p s Hy); apply rroot_in].
  - destruct (rlinks_facts cj p' c' Hx) as (Hp'j & _).
    split.
    + intros Heq. exfalso. apply Hn. rewrite <- Heq. apply in_fnodes. exists cj. split; assumption.
    + intros p s Hps Heq. apply in_flinks in Hps. destruct Hps as [[_ Hs]|[ci [Hci Hy]]].
      * assert (s = cj) by (apply (Hdisj s cj p' Hs Hcj); [rewrite Heq; apply rroot_in | exact Hp'j]). subst s.
        apply (proj1 (IH cj Hcj (Hsub cj Hcj) p' c' Hx) Heq).
      * assert (ci = cj).
        { apply (Hdisj ci cj p' Hci Hcj); [|exact Hp'j]. rewrite Heq. apply (link_nodes_incl ci p s Hy). apply rroot_in. }
        subst ci. apply (proj2 (IH cj Hcj (Hsub cj Hcj) p' c' Hx) p s Hy Heq).
Qed.

Lemma kids_of : forall t s p' c', NoDup (rnodes t) -> sub t s -> In (p', c') (rlinks t) -> p' = rroot s ->
  In c' (rkids s).
Proof.
  intros t s p' c' Hnd [->|[p Hp]] Hin Heq.
  - apply (proj1 (kids_of_aux t Hnd p' c' Hin) Heq).
  - apply (proj2 (kids_of_aux t Hnd p' c' Hin) p s Hp Heq).
Qed.

(* ------------------------------------------------------------------------------------------------ *)
(* adjust_layers                                                                                     *)
(* ------------------------------------------------------------------------------------------------ *)
Definition al_loop (rec : nat -> graph -> res graph) (ll : limlow) (n : nat) (pick : edge -> nat) :
  list nat -> graph -> res graph :=
  fix loop (es : list nat) (g : graph) : res graph :=
    match es with
    | [] => Ok g
    | e :: t =>
        if negb (e_tree (gedge g e)) then loop t g else
        if negb (lim_of ll n <? lim_of ll (connected_node g e n))
        then do g' <- rec (pick (gedge g e)) g; loop t g'
        else loop t g
    end.

Lemma adjust_layers_S : forall f ll n delta g,
  adjust_layers (S f) ll n delta g =
  let g0 := upd_node g n (fun nd => set_layer (n_layer nd - delta) nd) in
  do g1 <- al_loop (fun m g => adjust_layers f ll m delta g) ll n e_to (n_out (gnode g0 n)) g0;
  al_loop (fun m g => adjust_layers f ll m delta g) ll n e_from (n_in (gnode g1 n)) g1.
Proof. reflexivity. Qed.

Definition hit (cs : list rtree) (es : list nat) (k : nat) : bool :=
  existsb (fun c => mem_nat (redge c) es && mem_nat k (rnodes c)) cs.

Lemma hit_iff : forall cs es k, hit cs es k = true <-> exists c, In c cs /\ In (redge c) es /\ In k (rnodes c).
Proof.
  intros cs es k. unfold hit. rewrite existsb_exists. split; intros [c [Hc H]]; exists c; (split; [exact Hc|]).
  - apply andb_prop in H. destruct H as [H1 H2]. split; apply mem_nat_In; assumption.
  - destruct H as [H1 H2]. apply andb_true_intro. split; apply mem_nat_In; assumption.
Qed.

Lemma bool_ext : forall a b : bool, (a = true <-> b = true) -> a = b.
Proof. intros [] [] [H1 H2]; try reflexivity; [symmetry; apply H1 | apply H2]; reflexivity. Qed.

Lemma joins_conn : forall g e n m, joins g e n m -> n <> m -> connected_node g e n = m.
Proof.
  intros g e n m [[J1 J2]|[J1 J2]] Hne; unfold connected_node; rewrite J1, J2.
  - assert (E : Nat.eqb m n = false) by (apply Nat.eqb_neq; congruence). rewrite E. reflexivity.
  - rewrite Nat.eqb_refl. reflexivity.
Qed.

Definition shifted_by (S : nat -> bool) (delta : Z) (g g' : graph) : Prop :=
  lay_only g g' /\ forall k, layer_of g' k = if S k then layer_of g k - delta else layer_of g k.

Section Adjust.
  Variables (gb : graph) (ll : limlow) (t : rtree).
  Hypothesis W : ns_wf gb.
  Hypothesis St : stree_of gb ll t.

  (* facts about the edges at the root n of a subtree s *)
  Lemma kid_facts : forall s c, sub t s -> In c (rkids s) ->
    In (redge c) (all_edges gb (rroot s)) /\ e_tree (gedge gb (redge c)) = true /\
    connected_node gb (redge c) (rroot s) = rroot c /\ lim_of ll (rroot c) < lim_of ll (rroot s) /\
    joins gb (redge c) (rroot s) (rroot c).
  Proof.
    intros s c Hs Hc. pose proof (sub_kid_link t s c Hs Hc) as Hl.
    destruct (link_ends gb ll t St _ _ Hl) as (Hne & HpN & _ & _ & _ & HeE & Het & Hj).
    split; [|split; [exact Het | split; [apply (joins_conn gb _ _ _ Hj Hne) | split; [apply (so_lt _ _ _ St _ _ Hl) | exact Hj]]]].
    apply (ns_wf_all_edges gb (rroot s) _ W HpN). split; [exact HeE|].
    destruct Hj as [[J1 J2]|[J1 J2]]; [right | left]; assumption.
  Qed.

  Lemma down_edge_kid : forall s x, sub t s -> In (rroot s) (g_N gb) -> In x (all_edges gb (rroot s)) ->
    e_tree (gedge gb x) = true -> lim_of ll (rroot s) <? lim_of ll (connected_node gb x (rroot s)) = false ->
    exists c, In c (rkids s) /\ redge c = x.
  Proof.
    intros s x Hs HnN Hx Htx Hdown. apply (ns_wf_all_edges gb (rroot s) x W HnN) in Hx. destruct Hx as [HxE Hend].
    destruct (link_of_tree_edge gb ll t St x HxE Htx) as [p' [c' [Hl Hec]]]. subst x.
    destruct (link_ends gb ll t St _ _ Hl) as (Hne & _ & _ & _ & _ & _ & _ & Hj).
    pose proof (so_lt _ _ _ St _ _ Hl) as Hlt.
    exists c'. split; [|reflexivity].
    assert (Hcase : rroot s = p' \/ rroot s = rroot c').
    { destruct Hj as [[J1 J2]|[J1 J2]]; destruct Hend as [He|He]; rewrite ?J1, ?J2 in He; auto. }
    destruct Hcase as [Hc|Hc].
    - apply (kids_of t s p' c' (so_nd _ _ _ St) Hs Hl). symmetry. exact Hc.
    - exfalso. rewrite Hc in Hdown. rewrite (joins_conn gb _ _ _ (joins_sym _ _ _ _ Hj)) in Hdown by congruence.
      apply Z.ltb_ge in Hdown. lia.
  Qed.

  Lemma al_loop_spec : forall rec (pick : edge -> nat) delta s, sub t s -> In (rroot s) (g_N gb) ->
    (forall c g g', In c (rkids s) -> lay_only gb g -> rec (rroot c) g = Ok g' ->
                    shifted_by (fun k => mem_nat k (rnodes c)) delta g g') ->
    forall es, NoDup es -> incl es (all_edges gb (rroot s)) ->
      (forall e, In e es -> pick (gedge gb e) = connected_node gb e (rroot s)) ->
      forall g g', lay_only gb g -> al_loop rec ll (rroot s) pick es g = Ok g' ->
        shifted_by (hit (rkids s) es) delta g g'.
  Proof.
    intros rec pick delta s Hs HnN Hrec. set (n := rroot s) in *.
    intros es; induction es as [|e es IH]; intros Hnd Hes Hpick g g' L H.
    - cbn [al_loop] in H. inversion H; subst g'. split; [apply lay_only_refl|]. intros k.
      assert (E : hit (rkids s) [] k = false).
      { destruct (hit (rkids s) [] k) eqn:E; [|reflexivity]. apply hit_iff in E. destruct E as [c [_ [[] _]]]. }
      rewrite E. reflexivity.
    - cbn [al_loop] in H. fold (al_loop rec ll n pick) in H.
      inversion Hnd as [|e' es' Hee Hnd' Eq1]. clear Eq1 e' es' H0.
      assert (Hes' : incl es (all_edges gb n)) by (intros x Hx; apply Hes; right; exact Hx).
      assert (Hpick' : forall x, In x es -> pick (gedge gb x) = connected_node gb x n) by (intros x Hx; apply Hpick; right; exact Hx).
      assert (Eg : gedge g e = gedge gb e) by (apply (lay_only_gedge L)).
      assert (Ec : connected_node g e n = connected_node gb e n) by (unfold connected_node; rewrite Eg; reflexivity).
      rewrite Eg, Ec in H.
      (* if e does not lead to a child, it contributes nothing *)
      assert (Hskip : (forall c, In c (rkids s) -> redge c <> e) ->
                      forall g1 g2, shifted_by (hit (rkids s) es) delta g1 g2 -> shifted_by (hit (rkids s) (e :: es)) delta g1 g2).
      { intros Hno g1 g2 [L12 Hl]. split; [exact L12|]. intros k. rewrite Hl.
        assert (E : hit (rkids s) (e :: es) k = hit (rkids s) es k).
        { apply bool_ext. rewrite !hit_iff. split; intros [c [Hc [He Hk]]]; exists c; (split; [exact Hc|]); (split; [|exact Hk]).
          - destruct He as [He|He]; [exfalso; apply (Hno c Hc); symmetry; exact He | exact He].
          - right. exact He. }
        rewrite E. reflexivity. }
      destruct (e_tree (gedge gb e)) eqn:Et; cbn [negb] in H.
      + destruct (lim_of ll n <? lim_of ll (connected_node gb e n)) eqn:Elt; cbn [negb] in H.
        * (* going up *)
          apply Hskip; [|apply (IH Hnd' Hes' Hpick' g g' L H)].
          intros c Hc Heq. destruct (kid_facts s c Hs Hc) as (_ & _ & K3 & K4 & _). fold n in K3, K4.
          rewrite <- Heq, K3 in Elt. apply Z.ltb_lt in Elt. lia.
        * (* going down into a child *)
          destruct (down_edge_kid s e Hs HnN (Hes e (or_introl eq_refl)) Et Elt) as [c [Hc Hce]].
          destruct (kid_facts s c Hs Hc) as (_ & _ & K3 & _). fold n in K3. rewrite Hce in K3.
          rewrite (Hpick e (or_introl eq_refl)), K3 in H.
          destruct (rec (rroot c) g) as [g1|err] eqn:Er; cbn [bind] in H; [|discriminate].
          destruct (Hrec c g g1 Hc L Er) as [L1 Hl1].
          destruct (IH Hnd' Hes' Hpick' g1 g' (lay_only_trans _ _ _ L L1) H) as [L2 Hl2].
          split; [eapply lay_only_trans; eassumption|]. intros k. rewrite Hl2, Hl1.
          (* the children have disjoint node sets and distinct edges *)
          pose proof (sub_nodup t s (so_nd _ _ _ St) Hs) as Hnds.
          pose proof (sub_nodup_edges t s (so_nde _ _ _ St) Hs) as Hndes.
          assert (Hkid_eq : forall c', In c' (rkids s) -> In k (rnodes c') -> In k (rnodes c) -> c' = c).
          { intros c' Hc' Hk' Hk. clear - Hnds Hc' Hc Hk' Hk. destruct s as [pe n0 cs]. cbn [rkids] in *. rewrite rnodes_eq in Hnds.
            inversion Hnds as [|x l Hx Hf]; subst.
            apply (flat_map_NoDup_inj _ _ rnodes cs c' c k Hf Hc' Hc Hk' Hk). }
          assert (Hkid_edge : forall c', In c' (rkids s) -> redge c' = redge c -> c' = c).
          { intros c' Hc' He'. clear - Hndes Hc' Hc He'. destruct s as [pe n0 cs]. cbn [rkids] in *. rewrite redges_eq in Hndes.
            apply (flat_map_NoDup_inj _ _ eblock cs c' c (redge c) Hndes Hc' Hc); left; congruence. }
          destruct (mem_nat k (rnodes c)) eqn:Ek.
          -- apply mem_nat_In in Ek.
             assert (E1 : hit (rkids s) es k = false).
             { destruct (hit (rkids s) es k) eqn:E; [|reflexivity]. apply hit_iff in E.
               destruct E as [c' [Hc' [He' Hk']]]. rewrite (Hkid_eq c' Hc' Hk' Ek) in He'. rewrite Hce in He'. contradiction. }
             assert (E2 : hit (rkids s) (e :: es) k = true).
             { apply hit_iff. exists c. split; [exact Hc|]. split; [left; symmetry; exact Hce | exact Ek]. }
             rewrite E1, E2. reflexivity.
          -- assert (E : hit (rkids s) (e :: es) k = hit (rkids s) es k).
             { apply bool_ext. rewrite !hit_iff. split; intros [c' [Hc' [He' Hk']]]; exists c'; (split; [exact Hc'|]); (split; [|exact Hk']).
               - destruct He' as [He'|He']; [|exact He']. exfalso.
                 assert (c' = c) by (apply (Hkid_edge c' Hc'); congruence).
                 subst c'. apply mem_nat_In in Hk'. congruence.
               - right. exact He'. }
             rewrite E. reflexivity.
      + (* not a tree edge *)
        apply Hskip; [|apply (IH Hnd' Hes' Hpick' g g' L H)].
        intros c Hc Heq. destruct (kid_facts s c Hs Hc) as (_ & K2 & _). rewrite Heq in K2. congruence.
  Qed.

  Lemma nodup_in : forall n, In n (g_N gb) -> NoDup (n_in (gnode gb n)).
  Proof.
    intros n Hn. destruct W as [[_ _ A] HndE _]. destruct (A n Hn) as (Ain & _ & Lin & _).
    apply NoDup_incl_NoDup with (l := filter (fun e => Nat.eqb (e_to (gedge gb e)) n) (g_E gb)).
    - apply NoDup_filter. exact HndE.
    - rewrite Lin. apply Nat.le_refl.
    - intros e He. apply filter_In in He. destruct He as [He Hf]. apply Nat.eqb_eq in Hf.
      apply Ain. split; assumption.
  Qed.

  Theorem adjust_layers_spec : forall fuel s delta g g', sub t s -> lay_only gb g ->
    adjust_layers fuel ll (rroot s) delta g = Ok g' ->
    shifted_by (fun k => mem_nat k (rnodes s)) delta g g'.
  Proof.
    induction fuel as [|f IH]; intros s delta g g' Hs L H; [cbn in H; discriminate|].
    rewrite adjust_layers_S in H. cbv zeta in H.
    set (n := rroot s) in *.
    set (g0 := upd_node g n (fun nd => set_layer (n_layer nd - delta) nd)) in *.
    assert (HnN : In n (g_N gb)).
    { apply (so_nodes _ _ _ St). apply (sub_nodes t s Hs). apply rroot_in. }
    pose proof W as [[[HndN HrN] Ein A] HndE Hnl].
    destruct (A n HnN) as (Ain & Aout & _ & _).
    assert (L0 : lay_only g g0) by (exact (lay_only_upd_node g n (fun nd => n_layer nd - delta))).
    assert (Lb0 : lay_only gb g0) by (eapply lay_only_trans; eassumption).
    assert (Hl0 : forall k, layer_of g0 k = if Nat.eqb k n then layer_of g k - delta else layer_of g k).
    { intros k. unfold g0. rewrite (layer_of_upd_node g n (fun z => z - delta) k).
      destruct (Nat.eqb k n) eqn:E; cbn [andb]; [|reflexivity]. apply Nat.eqb_eq in E. subst k.
      assert (Hlt : (n < length (g_na g))%nat) by (rewrite (lay_only_len L); apply HrN; exact HnN).
      apply Nat.ltb_lt in Hlt. rewrite Hlt. reflexivity. }
    assert (Hrec : forall c g1 g2, In c (rkids s) -> lay_only gb g1 -> adjust_layers f ll (rroot c) delta g1 = Ok g2 ->
                     shifted_by (fun k => mem_nat k (rnodes c)) delta g1 g2).
    { intros c g1 g2 Hc L1 H1. apply (IH c delta g1 g2 (sub_kid_sub t s c Hs Hc) L1 H1). }
    rewrite (lay_only_out Lb0 n) in H.
    destruct (al_loop (fun m g => adjust_layers f ll m delta g) ll n e_to (n_out (gnode gb n)) g0) as [g1|err] eqn:E1;
      cbn [bind] in H; [|discriminate].
    destruct (al_loop_spec (fun m g => adjust_layers f ll m delta g) e_to delta s Hs HnN Hrec
                (n_out (gnode gb n)) (nodup_out gb (nw_vb _ W) HndE n HnN)) with (g := g0) (g' := g1) as [L1 Hl1].
    { intros e He. unfold all_edges. apply in_or_app. right. exact He. }
    { intros e He. apply Aout in He. destruct He as [HeE Hf]. unfold connected_node.
      assert (E : Nat.eqb (e_to (gedge gb e)) n = false).
      { apply Nat.eqb_neq. intros Heq. apply (Hnl e HeE). congruence. }
      fold n. rewrite E. reflexivity. }
    { exact Lb0. }
    { exact E1. }
    assert (Lb1 : lay_only gb g1) by (eapply lay_only_trans; eassumption).
    rewrite (lay_only_in Lb1 n) in H.
    destruct (al_loop_spec (fun m g => adjust_layers f ll m delta g) e_from delta s Hs HnN Hrec
                (n_in (gnode gb n)) (nodup_in n HnN)) with (g := g1) (g' := g') as [L2 Hl2].
    { intros e He. unfold all_edges. apply in_or_app. left. exact He. }
    { intros e He. apply Ain in He. destruct He as [HeE Ht]. unfold connected_node. fold n.
      rewrite Ht, Nat.eqb_refl. reflexivity. }
    { exact Lb1. }
    { exact H. }
    split; [eapply lay_only_trans; [exact L0|]; eapply lay_only_trans; eassumption|].
    intros k. rewrite Hl2, Hl1, Hl0.
    pose proof (sub_nodup t s (so_nd _ _ _ St) Hs) as Hnds.
    assert (Es : rnodes s = n :: fnodes (rkids s)) by (unfold n; destruct s as [pe n0 cs]; reflexivity).
    rewrite Es in Hnds |- *. inversion Hnds as [|x l Hn Hf]; subst x l.
    assert (HA : forall es, hit (rkids s) es k = true -> In k (fnodes (rkids s))).
    { intros es Hh. apply hit_iff in Hh. destruct Hh as [c [Hc [_ Hk]]]. apply in_fnodes. exists c. split; assumption. }
    assert (HC : hit (rkids s) (n_out (gnode gb n)) k = true -> hit (rkids s) (n_in (gnode gb n)) k = true -> False).
    { intros H1 H2. apply hit_iff in H1, H2. destruct H1 as [c1 [Hc1 [He1 Hk1]]]. destruct H2 as [c2 [Hc2 [He2 Hk2]]].
      assert (c1 = c2) by (apply (flat_map_NoDup_inj _ _ rnodes (rkids s) c1 c2 k Hf Hc1 Hc2 Hk1 Hk2)). subst c2.
      apply Aout in He1. apply Ain in He2. destruct He1 as [HeE Hfr]. destruct He2 as [_ Hto].
      apply (Hnl _ HeE). congruence. }
    change (mem_nat k (n :: fnodes (rkids s))) with (Nat.eqb k n || mem_nat k (fnodes (rkids s)))%bool.
    destruct (Nat.eqb k n) eqn:Ekn.
    - apply Nat.eqb_eq in Ekn. subst k. cbn [orb].
      destruct (hit (rkids s) (n_in (gnode gb n)) n) eqn:E2; [exfalso; apply Hn; apply (HA _ E2)|].
      destruct (hit (rkids s) (n_out (gnode gb n)) n) eqn:E3; [exfalso; apply Hn; apply (HA _ E3)|]. reflexivity.
    - cbn [orb]. destruct (mem_nat k (fnodes (rkids s))) eqn:Em.
      + apply mem_nat_In in Em. apply in_fnodes in Em. destruct Em as [c [Hc Hk]].
        destruct (kid_facts s c Hs Hc) as (K1 & _). fold n in K1. unfold all_edges in K1. apply in_app_or in K1.
        destruct K1 as [K1|K1].
        * assert (E2 : hit (rkids s) (n_in (gnode gb n)) k = true) by (apply hit_iff; exists c; repeat split; assumption).
          rewrite E2. destruct (hit (rkids s) (n_out (gnode gb n)) k) eqn:E3; [exfalso; apply HC; auto | reflexivity].
        * assert (E3 : hit (rkids s) (n_out (gnode gb n)) k = true) by (apply hit_iff; exists c; repeat split; assumption).
          rewrite E3. destruct (hit (rkids s) (n_in (gnode gb n)) k) eqn:E2; [exfalso; apply HC; auto | reflexivity].
      + destruct (hit (rkids s) (n_in (gnode gb n)) k) eqn:E2.
        { apply HA in E2. apply mem_nat_In in E2. congruence. }
        destruct (hit (rkids s) (n_out (gnode gb n)) k) eqn:E3.
        { apply HA in E3. apply mem_nat_In in E3. congruence. }
        reflexivity.
  Qed.
End Adjust.

(* ------------------------------------------------------------------------------------------------ *)
(* states that differ only in the layers                                                             *)
(* ------------------------------------------------------------------------------------------------ *)
Lemma walk_stree_ext' : forall g g',
  (forall e, e_tree (gedge g' e) = e_tree (gedge g e)) ->
  (forall e m, connected_node g' e m = connected_node g e m) ->
  (forall n, all_edges g' n = all_edges g n) ->
  forall fuel n low st, walk_stree fuel g' n low st = walk_stree fuel g n low st.
Proof.
  intros g g' T C A. induction fuel as [|f IH]; intros n low st; [reflexivity|].
  destruct st as [[lims lows] vis]. rewrite !walk_stree_S. rewrite A.
  rewrite (ws_loop_ext g g' (walk_stree f g) (walk_stree f g') n T C IH). reflexivity.
Qed.

Lemma set_stree_values_lay_only : forall g g', lay_only g g' -> set_stree_values g' = set_stree_values g.
Proof.
  intros g g' L. unfold set_stree_values. rewrite (lay_only_N L), (lay_only_len L).
  destruct (g_N g) as [|root rest]; [reflexivity|].
  rewrite (walk_stree_ext' g g'); [reflexivity| | |].
  - intros e. rewrite (lay_only_gedge L e). reflexivity.
  - intros e m. unfold connected_node. rewrite (lay_only_gedge L e). reflexivity.
  - intros n. unfold all_edges. rewrite (lay_only_in L n), (lay_only_out L n). reflexivity.
Qed.

Lemma spanning_tree_lay_only : forall g g', lay_only g g' -> spanning_tree g -> spanning_tree g'.
Proof.
  intros g g' L [H1 H2]. split.
  - unfold root_of. rewrite (lay_only_N L). intros n Hn.
    apply (tconn_mono g all_ok g' all_ok _ _ (lay_only_E L)); [|apply H1; exact Hn].
    intros e He Ht Hok. rewrite (lay_only_gedge L e). repeat split; assumption.
  - unfold tree_count, tree_edges. rewrite (lay_only_E L), (lay_only_N L). rewrite <- H2. unfold tree_count, tree_edges.
    f_equal. f_equal. apply filter_ext_in'. intros e. rewrite (lay_only_gedge L e). reflexivity.
Qed.

Lemma shifted_slack : forall S delta g g' x, shifted_by S delta g g' ->
  slack g' x = slack g x - (if S (e_to (gedge g x)) then delta else 0) + (if S (e_from (gedge g x)) then delta else 0).
Proof.
  intros S delta g g' x [L Hl]. unfold slack. cbv zeta. rewrite (lay_only_gedge L x), !Hl.
  destruct (S (e_to (gedge g x))); destruct (S (e_from (gedge g x))); lia.
Qed.

(* ------------------------------------------------------------------------------------------------ *)
(* hbalance                                                                                          *)
(* ------------------------------------------------------------------------------------------------ *)
Definition hb_step (ll : limlow) (rg : res graph) (e : nat) : res graph :=
  do g <- rg;
  if negb (e_tree (gedge g e)) then Ok g else
  if e_cut (gedge g e) =? 0 then
    match min_slack_non_tree_edge g ll e with
    | None => Ok g
    | Some f =>
        let d := slack g f in
        if d <? 1 then Ok g else
        if lim_of ll (e_from (gedge g e)) <? lim_of ll (e_to (gedge g e))
        then adjust_layers (S (length (g_na g))) ll (e_from (gedge g e)) d g
        else adjust_layers (S (length (g_na g))) ll (e_to (gedge g e)) (- d) g
    end
  else Ok g.

Lemma hbalance_eq : forall g ll, hbalance g ll = fold_left (hb_step ll) (g_E g) (Ok g).
Proof. reflexivity. Qed.

Record hb_inv (ll : limlow) (g : graph) : Prop := mkHbInv {
  hi_wf : ns_wf g;
  hi_span : spanning_tree g;
  hi_feas : feasible g;
  hi_ll : set_stree_values g = Ok ll
}.

Lemma hb_inv_lay_only : forall ll g g', lay_only g g' -> feasible g' -> hb_inv ll g -> hb_inv ll g'.
Proof.
  intros ll g g' L Hf [I1 I2 I3 I4]. constructor.
  - apply (ns_wf_lay_only L I1).
  - apply (spanning_tree_lay_only g g' L I2).
  - exact Hf.
  - rewrite (set_stree_values_lay_only g g' L). exact I4.
Qed.

Lemma hb_step_inv : forall ll g e g', hb_inv ll g -> In e (g_E g) -> hb_step ll (Ok g) e = Ok g' ->
  hb_inv ll g' /\ lay_only g g'.
Proof.
  intros ll g e g' I He H. unfold hb_step in H. cbn [bind] in H.
  assert (Hsame : Ok g = Ok g' -> hb_inv ll g' /\ lay_only g g').
  { intros E. inversion E; subst g'. split; [exact I | apply lay_only_refl]. }
  destruct (e_tree (gedge g e)) eqn:Et; cbn [negb] in H; [|apply Hsame; exact H].
  destruct (e_cut (gedge g e) =? 0); [|apply Hsame; exact H].
  destruct (min_slack_non_tree_edge g ll e) as [f|] eqn:Em; [|apply Hsame; exact H].
  cbv zeta in H. destruct (slack g f <? 1) eqn:Ed; [apply Hsame; exact H|]. apply Z.ltb_ge in Ed.
  destruct I as [W Sp Hfeas Hll]. pose proof W as [[Wn Ein A] HndE Hnl].
  destruct (pivot_premises g ll e W Sp Hll He Et) as [P1 P2].
  destruct (min_slack_spec g ll e f Em) as (HfE & Hne & Hnt & Hh & Hm).
  assert (Hall : forall x, In x (g_E g) -> head_to_tail g ll e x = true -> slack g f <= slack g x).
  { intros x Hx Hhx. destruct (Nat.eq_dec x e) as [->|Hne']; [congruence|].
    destruct (e_tree (gedge g x)) eqn:Etx.
    - rewrite (P1 x Hx Etx Hne') in Hhx. discriminate.
    - apply Hm; assumption. }
  destruct (stree_exists g ll W Sp Hll) as [t St].
  destruct (link_of_tree_edge g ll t St e He Et) as [p [c [Hl Hec]]]. subst e.
  destruct (link_ends g ll t St p c Hl) as (Hpr & HpN & HrN & _ & _ & _ & _ & Hj).
  pose proof (so_lt _ _ _ St p c Hl) as Hlt.
  assert (Hsub : sub t c) by (right; exists p; exact Hl).
  set (d := slack g f) in *.
  (* in both cases exactly the nodes of c move, and every slack stays >= 0 *)
  assert (Hfin : forall delta, adjust_layers (S (length (g_na g))) ll (rroot c) delta g = Ok g' ->
            (forall x, In x (g_E g) ->
               0 <= slack g x - (if mem_nat (e_to (gedge g x)) (rnodes c) then delta else 0)
                              + (if mem_nat (e_from (gedge g x)) (rnodes c) then delta else 0)) ->
            hb_inv ll g' /\ lay_only g g').
  { intros delta Ha Hsl.
    pose proof (adjust_layers_spec g ll t W St _ c delta g g' Hsub (lay_only_refl g) Ha) as Sh.
    pose proof Sh as [L _]. split; [|exact L].
    apply (hb_inv_lay_only ll g g' L); [|constructor; assumption].
    intros x Hx. rewrite (lay_only_E L) in Hx. rewrite (shifted_slack _ _ _ _ x Sh). apply Hsl. exact Hx. }
  destruct (lim_of ll (e_from (gedge g (redge c))) <? lim_of ll (e_to (gedge g (redge c)))) eqn:Elt.
  - (* the tail end is the child: the tail component moves up by d *)
    apply Z.ltb_lt in Elt.
    assert (Hends : e_from (gedge g (redge c)) = rroot c /\ e_to (gedge g (redge c)) = p).
    { destruct Hj as [[J1 J2]|[J1 J2]]; [rewrite J1, J2 in Elt; lia | split; assumption]. }
    destruct Hends as [J1 J2]. rewrite J1 in H. apply (Hfin d H).
    intros x Hx. destruct (Ein x Hx) as [HfN HtN]. pose proof (Hfeas x Hx) as Hs. specialize (Hall x Hx).
    unfold head_to_tail in Hall.
    rewrite (in_head_spec g ll t St p c _ Hl HfN), (in_head_spec g ll t St p c _ Hl HtN) in Hall.
    rewrite J1, Nat.eqb_refl in Hall.
    destruct (mem_nat (e_to (gedge g x)) (rnodes c)); destruct (mem_nat (e_from (gedge g x)) (rnodes c));
      cbn [negb andb] in Hall; try lia; (specialize (Hall eq_refl); lia).
  - (* the head end is the child: the head component moves down by d *)
    apply Z.ltb_ge in Elt.
    assert (Hends : e_from (gedge g (redge c)) = p /\ e_to (gedge g (redge c)) = rroot c).
    { destruct Hj as [[J1 J2]|[J1 J2]]; [split; assumption | rewrite J1, J2 in Elt; lia]. }
    destruct Hends as [J1 J2]. rewrite J2 in H. apply (Hfin (- d) H).
    intros x Hx. destruct (Ein x Hx) as [HfN HtN]. pose proof (Hfeas x Hx) as Hs. specialize (Hall x Hx).
    unfold head_to_tail in Hall.
    rewrite (in_head_spec g ll t St p c _ Hl HfN), (in_head_spec g ll t St p c _ Hl HtN) in Hall.
    rewrite J1 in Hall. apply Nat.eqb_neq in Hpr. rewrite Hpr in Hall.
    destruct (mem_nat (e_to (gedge g x)) (rnodes c)); destruct (mem_nat (e_from (gedge g x)) (rnodes c));
      cbn [negb andb] in Hall; try lia; (specialize (Hall eq_refl); lia).
Qed.

Lemma hb_fold_err : forall ll l err, fold_left (hb_step ll) l (Err err) = Err err.
Proof. intros ll l err. induction l as [|e l IH]; [reflexivity|]. cbn [fold_left]. exact IH. Qed.

Lemma hb_fold_inv : forall ll l g g', hb_inv ll g -> incl l (g_E g) ->
  fold_left (hb_step ll) l (Ok g) = Ok g' -> hb_inv ll g' /\ lay_only g g'.
Proof.
  intros ll l; induction l as [|e l IH]; intros g g' I Hl H; cbn [fold_left] in H.
  - inversion H; subst g'. split; [exact I | apply lay_only_refl].
  - destruct (hb_step ll (Ok g) e) as [g1|err] eqn:E1; [|rewrite hb_fold_err in H; discriminate].
    destruct (hb_step_inv ll g e g1 I (Hl e (or_introl eq_refl)) E1) as [I1 L1].
    destruct (IH g1 g' I1) as [I2 L2]; [|exact H|].
    + rewrite (lay_only_E L1). intros x Hx. apply Hl. right. exact Hx.
    + split; [exact I2 | eapply lay_only_trans; eassumption].
Qed.

Theorem hbalance_feasible : forall g ll g',
  ns_wf g -> spanning_tree g -> feasible g -> set_stree_values g = Ok ll ->
  hbalance g ll = Ok g' -> feasible g' /\ lay_only g g'.
Proof.
  intros g ll g' W S Hf Hll H. rewrite hbalance_eq in H.
  destruct (hb_fold_inv ll (g_E g) g g' (mkHbInv ll g W S Hf Hll) (incl_refl _) H) as [[_ _ Hf' _] L].
  split; assumption.
Qed.
Print Assumptions hbalance_feasible.

(* ------------------------------------------------------------------------------------------------ *)
(* the final theorem, for every value of ns_balance                                                  *)
(* ------------------------------------------------------------------------------------------------ *)
Theorem exec_network_simplex_feasible_all : forall p g g',
  ns_wf g -> acyclic g ->
  exec_network_simplex p g = Ok g' ->
  feasible g' /\ layers_nonneg g' /\ ns_frame g g'.
Proof.
  intros p g g' W Hac H.
  destruct (Z.eq_dec (ns_balance p) 2) as [E2|E2]; [|apply (exec_network_simplex_feasible p g g' W Hac E2 H)].
  unfold exec_network_simplex, exec_network_simplex_capped in H.
  destruct (feasible_tree g) as [[g1 ll1]|err] eqn:Eft; cbn [bind] in H; [|discriminate].
  destruct (feasible_tree_inv g g1 ll1 W Hac Eft) as [I1 F1].
  match type of H with context [pivot_loop ?fu ?i ?mx g1 ll1] => destruct (pivot_loop fu i mx g1 ll1) as [[[g2 ll2] cap]|err] eqn:Epl end;
    cbn [bind] in H; [|discriminate].
  destruct (pivot_loop_inv _ _ _ _ _ _ _ _ I1 Epl) as [[W2 S2 Hf2 _ Hll2] F2].
  pose proof W2 as [[Wn2 Ein2 A2] _ _].
  destruct (normalize_layers g2 Wn2) as (L3 & _ & _).
  assert (Hf3 : feasible (normalize g2)).
  { intros e He. rewrite (lay_only_E L3) in He. rewrite (normalize_slack g2 Wn2 Ein2 e He). apply Hf2. exact He. }
  rewrite E2 in H. cbn [Z.eqb Pos.eqb] in H.
  destruct (hbalance (normalize g2) ll2) as [g4|err] eqn:Eh; cbn [bind] in H; [|discriminate].
  inversion H; subst g'. cbn [fst]. clear H.
  pose proof (hb_inv_lay_only ll2 g2 (normalize g2) L3 Hf3 (mkHbInv ll2 g2 W2 S2 Hf2 Hll2)) as [W3 S3 _ Hll3].
  destruct (hbalance_feasible (normalize g2) ll2 g4 W3 S3 Hf3 Hll3 Eh) as [Hf4 L4].
  pose proof (ns_wf_lay_only L4 W3) as [[Wn4 Ein4 A4] _ _].
  destruct (normalize_layers g4 Wn4) as (L5 & _ & _).
  split; [|split].
  - intros e He. rewrite (lay_only_E L5) in He. rewrite (normalize_slack g4 Wn4 Ein4 e He). apply Hf4. exact He.
  - apply (normalize_nonneg g4 Wn4).
  - eapply ns_frame_trans; [exact F1|]. eapply ns_frame_trans; [exact F2|].
    apply ns_frame_lay_only. eapply lay_only_trans; [exact L3|]. eapply lay_only_trans; eassumption.
Qed.
Print Assumptions exec_network_simplex_feasible_all.

(* Example: the balancing of the positioner (balance = 2) on the 5-node DAG and on ex_edges2 *)
Example ex5_hbalance : forall g', exec_network_simplex (mkNsParams 1 5 2) ex5 = Ok g' ->
  feasible g' /\ layers_nonneg g' /\ ns_frame ex5 g'.
Proof.
  intros g' H. destruct ex5_wf as (H1 & H2).
  apply (exec_network_simplex_feasible_all (mkNsParams 1 5 2) ex5 g' (ns_wfb_ok _ H1) (acyclicb_ok _ _ H2) H).
Qed.

Example ex2_hbalance_run :
  match exec_network_simplex (mkNsParams 1 10 2) (pop_graph ex_edges2) with
  | Ok g => feasibleb g && layers_nonnegb g
  | Err _ => false
  end = true.
Proof. vm_compute. reflexivity. Qed.
