(* NSLimLow.v — N2: the postorder numbering computed by [walk_stree].
   - [num_tree]: the numbering as a function of the shape (an [rtree]);
   - [num_tree_ok]: for a tree with distinct nodes, lim is a postorder number, low the least number of the
     subtree, and the nodes of the subtree of c are exactly those whose lim lies in [low c, lim c];
     the child end of every tree edge has the smaller lim;
   - [walk_run]: a successful run of [walk_stree] has a shape t, computes [num_tree t], visits every
     flagged edge at every node it reaches, and never uses an edge twice. *)
From Autog Require Import Base Graph Populate Phase2 Optimality OptNormalize OptVbalance OptFeasible OptInit NSDefs NSTree.

Definition LL := (list Z * list Z)%type.
Definition limf (L : LL) (k : nat) : Z := nth k (fst L) 0.
Definition lowf (L : LL) (k : nat) : Z := nth k (snd L) 0.

Fixpoint num_tree (t : rtree) (low : Z) (L : LL) : Z * LL :=
  match t with
  | RT _ n cs =>
      let r := fold_left (fun (acc : Z * LL) c => num_tree c (fst acc) (snd acc)) cs
                         (low, (fst L, set_nth (snd L) n low)) in
      (fst r + 1, (set_nth (fst (snd r)) n (fst r), snd (snd r)))
  end.

Definition num_forest (cs : list rtree) (low : Z) (L : LL) : Z * LL :=
  fold_left (fun (acc : Z * LL) c => num_tree c (fst acc) (snd acc)) cs (low, L).

Lemma num_tree_eq : forall e n cs low L,
  num_tree (RT e n cs) low L =
  let r := num_forest cs low (fst L, set_nth (snd L) n low) in
  (fst r + 1, (set_nth (fst (snd r)) n (fst r), snd (snd r))).
Proof. reflexivity. Qed.

Lemma num_forest_cons : forall c cs low L,
  num_forest (c :: cs) low L = num_forest cs (fst (num_tree c low L)) (snd (num_tree c low L)).
Proof.
  intros c cs low L. unfold num_forest. cbn [fold_left fst snd]. destruct (num_tree c low L) as [a b]. reflexivity.
Qed.

Lemma nth_set_nth : forall (l : list Z) n a k,
  nth k (set_nth l n a) 0 = if (Nat.eqb k n && Nat.ltb k (length l))%bool then a else nth k l 0.
Proof. intros l n a k. unfold set_nth. apply nth_upd. Qed.

Lemma length_set_nth : forall (l : list Z) n a, length (set_nth l n a) = length l.
Proof. intros. unfold set_nth. apply length_upd. Qed.

Record num_ok (S : list nat) (links : list (nat * rtree)) (low next : Z) (L L' : LL) : Prop := mkNumOk {
  no_len1 : length (fst L') = length (fst L);
  no_len2 : length (snd L') = length (snd L);
  no_out : forall k, ~ In k S -> limf L' k = limf L k /\ lowf L' k = lowf L k;
  no_next : next = low + Z.of_nat (length S);
  no_rng : forall k, In k S -> low <= lowf L' k /\ low <= limf L' k < next;
  no_inj : forall k1 k2, In k1 S -> In k2 S -> limf L' k1 = limf L' k2 -> k1 = k2;
  no_links : forall p c, In (p, c) links ->
      limf L' (rroot c) < limf L' p /\
      forall k, In k S -> (In k (rnodes c) <-> lowf L' (rroot c) <= limf L' k <= limf L' (rroot c))
}.

Definition bounded (S : list nat) (L : LL) : Prop :=
  forall k, In k S -> (k < length (fst L))%nat /\ (k < length (snd L))%nat.

Definition tree_num_ok (t : rtree) : Prop :=
  forall low L, NoDup (rnodes t) -> bounded (rnodes t) L ->
    num_ok (rnodes t) (rlinks t) low (fst (num_tree t low L)) L (snd (num_tree t low L)) /\
    limf (snd (num_tree t low L)) (rroot t) = fst (num_tree t low L) - 1 /\
    lowf (snd (num_tree t low L)) (rroot t) = low.

Definition top_iv (cs : list rtree) (L' : LL) : Prop :=
  forall c, In c cs -> forall k, In k (fnodes cs) ->
    (In k (rnodes c) <-> lowf L' (rroot c) <= limf L' k <= limf L' (rroot c)).

Lemma in_flat_rlinks : forall cs p c, In (p, c) (flat_map rlinks cs) ->
  In p (fnodes cs) /\ incl (rnodes c) (fnodes cs).
Proof.
  intros cs p c H. apply in_flat_map in H. destruct H as [cj [Hcj Hx]].
  destruct (rlinks_facts cj p c Hx) as (A1 & _). split.
  - apply in_fnodes. exists cj. split; assumption.
  - intros x Hxc. apply in_fnodes. exists cj. split; [exact Hcj | apply (link_nodes_incl cj p c Hx); exact Hxc].
Qed.

Lemma num_forest_ok : forall cs, (forall c, In c cs -> tree_num_ok c) ->
  forall low L, NoDup (fnodes cs) -> bounded (fnodes cs) L ->
    num_ok (fnodes cs) (flat_map rlinks cs) low (fst (num_forest cs low L)) L (snd (num_forest cs low L)) /\
    top_iv cs (snd (num_forest cs low L)).
Proof.
  induction cs as [|c cs IHcs]; intros IH low L Hnd Hb.
  - cbn [num_forest fold_left fst snd fnodes flat_map]. split.
    + constructor; try reflexivity.
      * intros k _. split; reflexivity.
      * cbn [length]. lia.
      * intros k [].
      * intros k1 k2 [].
      * intros p c [].
    + intros c [].
  - rewrite num_forest_cons.
    change (fnodes (c :: cs)) with (rnodes c ++ fnodes cs) in *.
    destruct (NoDup_app_inv _ _ _ Hnd) as (Hndc & Hndcs & Hdisj).
    assert (Hbc : bounded (rnodes c) L) by (intros k Hk; apply Hb; apply in_or_app; left; exact Hk).
    destruct (IH c (or_introl eq_refl) low L Hndc Hbc) as (Oc & Rlim & Rlow).
    set (n1 := fst (num_tree c low L)) in *. set (L1 := snd (num_tree c low L)) in *.
    destruct Oc as [C1 C2 C3 C4 C5 Ci C6].
    assert (Hbcs : bounded (fnodes cs) L1).
    { intros k Hk. rewrite C1, C2. apply Hb. apply in_or_app. right. exact Hk. }
    destruct (IHcs (fun c' Hc' => IH c' (or_intror Hc')) n1 L1 Hndcs Hbcs) as (Os & Tiv).
    set (nx := fst (num_forest cs n1 L1)) in *. set (L' := snd (num_forest cs n1 L1)) in *.
    destruct Os as [S1 S2 S3 S4 S5 Si S6].
    assert (Hn1 : low <= n1) by lia.
    (* values of the nodes of c are not touched by the rest *)
    assert (Hkeep : forall k, In k (rnodes c) -> limf L' k = limf L1 k /\ lowf L' k = lowf L1 k).
    { intros k Hk. apply S3. apply Hdisj. exact Hk. }
    assert (Hrc : In (rroot c) (rnodes c)) by apply rroot_in.
    split.
    + constructor.
      * congruence.
      * congruence.
      * intros k Hk. destruct (S3 k) as [E1 E2]; [intros Hin; apply Hk; apply in_or_app; right; exact Hin|].
        destruct (C3 k) as [F1 F2]; [intros Hin; apply Hk; apply in_or_app; left; exact Hin|].
        split; congruence.
      * rewrite app_length, Nat2Z.inj_add. lia.
      * intros k Hk. apply in_app_or in Hk. destruct Hk as [Hk|Hk].
        -- destruct (Hkeep k Hk) as [E1 E2]. rewrite E1, E2. destruct (C5 k Hk) as [G1 G2]. lia.
        -- destruct (S5 k Hk) as [G1 G2]. lia.
      * intros k1 k2 H1 H2 Heq. apply in_app_or in H1. apply in_app_or in H2.
        destruct H1 as [H1|H1]; destruct H2 as [H2|H2].
        -- destruct (Hkeep k1 H1) as [E1 _]. destruct (Hkeep k2 H2) as [E2 _]. rewrite E1, E2 in Heq.
           apply (Ci k1 k2 H1 H2 Heq).
        -- destruct (Hkeep k1 H1) as [E1 _]. rewrite E1 in Heq.
           destruct (C5 k1 H1) as [_ G1]. destruct (S5 k2 H2) as [_ G2]. lia.
        -- destruct (Hkeep k2 H2) as [E2 _]. rewrite E2 in Heq.
           destruct (C5 k2 H2) as [_ G1]. destruct (S5 k1 H1) as [_ G2]. lia.
        -- apply (Si k1 k2 H1 H2 Heq).
      * intros p c0 Hin. cbn [flat_map] in Hin. apply in_app_or in Hin. destruct Hin as [Hin|Hin].
        -- (* a link inside c *)
           destruct (rlinks_facts c p c0 Hin) as (A1 & _).
           pose proof (link_nodes_incl c p c0 Hin) as A2.
           assert (Hr0 : In (rroot c0) (rnodes c)) by (apply A2; apply rroot_in).
           destruct (C6 p c0 Hin) as [D1 D2].
           destruct (Hkeep p A1) as [Ep _]. destruct (Hkeep _ Hr0) as [Er1 Er2].
           split; [rewrite Ep, Er1; exact D1|].
           intros k Hk. apply in_app_or in Hk. destruct Hk as [Hk|Hk].
           ++ destruct (Hkeep k Hk) as [Ek _]. rewrite Er1, Er2, Ek. apply D2. exact Hk.
           ++ destruct (S5 k Hk) as [_ G2]. destruct (C5 _ Hr0) as [_ G3]. split.
              ** intros Hkc. exfalso. apply (Hdisj k (A2 k Hkc) Hk).
              ** intros Hiv. rewrite Er1 in Hiv. lia.
        -- (* a link inside the rest *)
           destruct (in_flat_rlinks cs p c0 Hin) as [A1 A2].
           assert (Hr0 : In (rroot c0) (fnodes cs)) by (apply A2; apply rroot_in).
           destruct (S6 p c0 Hin) as [D1 D2]. split; [exact D1|].
           intros k Hk. apply in_app_or in Hk. destruct Hk as [Hk|Hk].
           ++ destruct (Hkeep k Hk) as [Ek _]. destruct (C5 k Hk) as [_ G2]. destruct (S5 _ Hr0) as [G3 _]. split.
              ** intros Hkc. exfalso. apply (Hdisj k Hk (A2 k Hkc)).
              ** intros Hiv. rewrite Ek in Hiv. lia.
           ++ apply D2. exact Hk.
    + intros c' Hc' k Hk. apply in_app_or in Hk. destruct Hc' as [Hc'|Hc'].
      * subst c'. destruct (Hkeep _ Hrc) as [Er1 Er2]. rewrite Er1, Er2, Rlim, Rlow.
        destruct Hk as [Hk|Hk].
        -- destruct (Hkeep k Hk) as [Ek _]. rewrite Ek. destruct (C5 k Hk) as [_ G2]. split; [intros _; lia | intros _; exact Hk].
        -- destruct (S5 k Hk) as [_ G2]. split.
           ++ intros Hkc. exfalso. apply (Hdisj k Hkc Hk).
           ++ intros Hiv. lia.
      * assert (Hr' : In (rroot c') (fnodes cs)) by (apply in_fnodes; exists c'; split; [exact Hc' | apply rroot_in]).
        destruct Hk as [Hk|Hk].
        -- destruct (Hkeep k Hk) as [Ek _]. destruct (C5 k Hk) as [_ G2]. destruct (S5 _ Hr') as [G3 _]. split.
           ++ intros Hkc. exfalso. apply (Hdisj k Hk). apply in_fnodes. exists c'. split; assumption.
           ++ intros Hiv. rewrite Ek in Hiv. lia.
        -- apply Tiv; assumption.
Qed.

Theorem num_tree_ok : forall t, tree_num_ok t.
Proof.
  induction t as [e n cs IH] using rtree_ind2. intros low L Hnd Hb.
  rewrite num_tree_eq. cbv zeta. rewrite rnodes_eq in Hnd, Hb |- *. rewrite rlinks_eq. cbn [rroot].
  inversion Hnd as [|n' l' Hn Hf]; subst.
  set (L0 := (fst L, set_nth (snd L) n low)).
  assert (Hb0 : bounded (fnodes cs) L0).
  { intros k Hk. unfold L0. cbn [fst snd]. rewrite length_set_nth. apply Hb. right. exact Hk. }
  destruct (num_forest_ok cs IH low L0 Hf Hb0) as (Os & Tiv).
  set (lim := fst (num_forest cs low L0)) in *. set (L2 := snd (num_forest cs low L0)) in *.
  destruct Os as [S1 S2 S3 S4 S5 Si S6]. cbn [fst snd].
  destruct (Hb n (or_introl eq_refl)) as [Bn1 Bn2].
  assert (Hlim0 : forall k, limf L0 k = limf L k) by (intros k; reflexivity).
  assert (Hlow0 : forall k, lowf L0 k = if Nat.eqb k n then low else lowf L k).
  { intros k. unfold lowf, L0. cbn [snd]. rewrite nth_set_nth.
    destruct (Nat.eqb k n) eqn:E; cbn [andb]; [|reflexivity].
    apply Nat.eqb_eq in E. subst k. apply Nat.ltb_lt in Bn2. rewrite Bn2. reflexivity. }
  set (L' := (set_nth (fst L2) n lim, snd L2)).
  assert (Hlim' : forall k, limf L' k = if Nat.eqb k n then lim else limf L2 k).
  { intros k. unfold limf, L'. cbn [fst]. rewrite nth_set_nth.
    destruct (Nat.eqb k n) eqn:E; cbn [andb]; [|reflexivity].
    apply Nat.eqb_eq in E. subst k. rewrite S1. unfold L0. cbn [fst].
    apply Nat.ltb_lt in Bn1. rewrite Bn1. reflexivity. }
  assert (Hlow' : forall k, lowf L' k = lowf L2 k) by (intros k; reflexivity).
  assert (Hlown : lowf L2 n = low).
  { destruct (S3 n Hn) as [_ E]. rewrite E, Hlow0, Nat.eqb_refl. reflexivity. }
  assert (Hne : forall k, In k (fnodes cs) -> Nat.eqb k n = false).
  { intros k Hk. apply Nat.eqb_neq. intros ->. contradiction. }
  assert (Hlimlo : low <= lim) by lia.
  split; [|split].
  - constructor.
    + unfold L'. cbn [fst]. rewrite length_set_nth, S1. reflexivity.
    + unfold L'. cbn [snd]. rewrite S2. unfold L0. cbn [snd]. apply length_set_nth.
    + intros k Hk. assert (Hkn : k <> n) by (intros ->; apply Hk; left; reflexivity).
      assert (Hkf : ~ In k (fnodes cs)) by (intros Hin; apply Hk; right; exact Hin).
      destruct (S3 k Hkf) as [E1 E2]. apply Nat.eqb_neq in Hkn.
      rewrite Hlim', Hlow', Hkn, E1, E2, Hlim0, Hlow0, Hkn. split; reflexivity.
    + cbn [length]. lia.
    + intros k [Hk|Hk].
      * subst k. rewrite Hlim', Hlow', Nat.eqb_refl, Hlown. lia.
      * rewrite Hlim', Hlow', (Hne k Hk). destruct (S5 k Hk) as [G1 G2]. lia.
    + intros k1 k2 [H1|H1] [H2|H2] Heq.
      * congruence.
      * subst k1. rewrite !Hlim', Nat.eqb_refl, (Hne k2 H2) in Heq. destruct (S5 k2 H2) as [_ G2]. lia.
      * subst k2. rewrite !Hlim', Nat.eqb_refl, (Hne k1 H1) in Heq. destruct (S5 k1 H1) as [_ G2]. lia.
      * rewrite !Hlim', (Hne k1 H1), (Hne k2 H2) in Heq. apply (Si k1 k2 H1 H2 Heq).
    + intros p c0 Hin. apply in_flinks in Hin.
      assert (Hcase : (p = n \/ In p (fnodes cs)) /\ incl (rnodes c0) (fnodes cs) /\
                      (forall k, In k (fnodes cs) ->
                         (In k (rnodes c0) <-> lowf L2 (rroot c0) <= limf L2 k <= limf L2 (rroot c0))) /\
                      (In p (fnodes cs) -> limf L2 (rroot c0) < limf L2 p)).
      { destruct Hin as [[Hp Hc0]|[cj [Hcj Hx]]].
        - subst p. split; [left; reflexivity|]. split; [|split].
          + intros x Hx. apply in_fnodes. exists c0. split; assumption.
          + intros k Hk. apply Tiv; assumption.
          + intros Hin. contradiction.
        - assert (Hfl : In (p, c0) (flat_map rlinks cs)) by (apply in_flat_map; exists cj; split; assumption).
          destruct (in_flat_rlinks cs p c0 Hfl) as [A1 A2]. destruct (S6 p c0 Hfl) as [D1 D2].
          split; [right; exact A1|]. split; [exact A2|]. split; [exact D2 | intros _; exact D1]. }
      destruct Hcase as (Hp & A2 & D2 & D1).
      assert (Hr0 : In (rroot c0) (fnodes cs)) by (apply A2; apply rroot_in).
      destruct (S5 _ Hr0) as [G1 G2].
      rewrite !Hlim', !Hlow', (Hne _ Hr0). split.
      * destruct Hp as [Hp|Hp]; [subst p; rewrite Nat.eqb_refl; lia | rewrite (Hne p Hp); apply D1; exact Hp].
      * intros k [Hk|Hk].
        -- subst k. rewrite Hlim', Nat.eqb_refl. split.
           ++ intros Hkc. exfalso. apply Hn. apply A2. exact Hkc.
           ++ intros Hiv. lia.
        -- rewrite Hlim', (Hne k Hk). apply D2. exact Hk.
  - rewrite Hlim', Nat.eqb_refl. lia.
  - rewrite Hlow'. exact Hlown.
Qed.

(* ------------------------------------------------------------------------------------------------ *)
(* the shape of a successful run of walk_stree                                                       *)
(* ------------------------------------------------------------------------------------------------ *)
Definition ws_loop (rec : nat -> Z -> ws_st -> res (Z * ws_st)) (g : graph) (n : nat) :
  list nat -> Z -> ws_st -> res (Z * ws_st) :=
  fix loop (es : list nat) (lim : Z) (st : ws_st) : res (Z * ws_st) :=
    match es with
    | [] => Ok (lim, st)
    | e :: t =>
        let '(lims, lows, vis) := st in
        if e_tree (gedge g e) && negb (mem_nat e vis) then
          do r <- rec (connected_node g e n) lim (lims, lows, e :: vis);
          loop t (fst r) (snd r)
        else loop t lim st
    end.

Lemma walk_stree_S : forall f g n low lims lows vis,
  walk_stree (S f) g n low (lims, lows, vis) =
  do r <- ws_loop (walk_stree f g) g n (all_edges g n) low (lims, set_nth lows n low, vis);
  let '(lim, (lims, lows, vis)) := r in Ok (lim + 1, (set_nth lims n lim, lows, vis)).
Proof. reflexivity. Qed.

Lemma NoDup_app_intro : forall A (a b : list A), NoDup a -> NoDup b -> (forall x, In x a -> ~ In x b) -> NoDup (a ++ b).
Proof.
  intros A a; induction a as [|h a IH]; intros b Ha Hb Hd; cbn [app]; [exact Hb|].
  inversion Ha as [|h' a' Hh Ha']; subst. constructor.
  - intros Hin. apply in_app_or in Hin. destruct Hin as [Hin|Hin]; [contradiction|].
    apply (Hd h (or_introl eq_refl) Hin).
  - apply IH; [exact Ha' | exact Hb|]. intros x Hx. apply Hd. right. exact Hx.
Qed.

Record run_ok (g : graph) (n : nat) (es vis : list nat) (cs : list rtree) (vis' : list nat) : Prop := mkRunOk {
  ro_vis : forall x, In x vis' <-> In x (fedges cs) \/ In x vis;
  ro_nd : NoDup (fedges cs);
  ro_disj : forall x, In x (fedges cs) -> ~ In x vis;
  ro_top : forall e, In e es -> e_tree (gedge g e) = true -> In e vis';
  ro_closed : forall x, In x (fnodes cs) -> forall e, In e (all_edges g x) -> e_tree (gedge g e) = true -> In e vis';
  ro_kids : forall c, In c cs ->
      In (redge c) es /\ e_tree (gedge g (redge c)) = true /\ rroot c = connected_node g (redge c) n;
  ro_links : forall p c, In (p, c) (flat_map rlinks cs) ->
      e_tree (gedge g (redge c)) = true /\ In (redge c) (all_edges g p) /\ rroot c = connected_node g (redge c) p
}.

Definition rec_ok (g : graph) (rec : nat -> Z -> ws_st -> res (Z * ws_st)) : Prop :=
  forall m low lims lows vis next lims' lows' vis',
    rec m low (lims, lows, vis) = Ok (next, (lims', lows', vis')) ->
    exists cs, run_ok g m (all_edges g m) vis cs vis' /\
               forall pe, num_tree (RT pe m cs) low (lims, lows) = (next, (lims', lows')).

Lemma ws_loop_run : forall g rec n, rec_ok g rec ->
  forall es lim lims lows vis lim' lims' lows' vis',
    ws_loop rec g n es lim (lims, lows, vis) = Ok (lim', (lims', lows', vis')) ->
    exists cs, run_ok g n es vis cs vis' /\ num_forest cs lim (lims, lows) = (lim', (lims', lows')).
Proof.
  intros g rec n Hrec es; induction es as [|e t IH]; intros lim lims lows vis lim' lims' lows' vis' H.
  - cbn [ws_loop] in H. inversion H; subst. exists []. split; [|reflexivity].
    constructor; cbn [fedges fnodes flat_map].
    + intros x. cbn [In]. tauto.
    + constructor.
    + intros x [].
    + intros e [].
    + intros x [].
    + intros c [].
    + intros p c [].
  - cbn [ws_loop] in H. fold (ws_loop rec g n) in H.
    destruct (e_tree (gedge g e) && negb (mem_nat e vis))%bool eqn:Ec.
    + apply andb_prop in Ec. destruct Ec as [Et Em]. apply negb_true_iff in Em.
      assert (Hev : ~ In e vis) by (intros Hin; apply mem_nat_In in Hin; congruence).
      destruct (rec (connected_node g e n) lim (lims, lows, e :: vis)) as [[n1 [[l1 w1] v1]]|err] eqn:Er;
        cbn [bind] in H; [|discriminate].
      cbn [fst snd] in H.
      destruct (Hrec _ _ _ _ _ _ _ _ _ Er) as [cs0 [R0 N0]].
      destruct (IH _ _ _ _ _ _ _ _ H) as [cs' [R' N']].
      set (m := connected_node g e n) in *.
      exists (RT e m cs0 :: cs'). split.
      * destruct R0 as [A1 A2 A3 A4 A5 A6 A7]. destruct R' as [B1 B2 B3 B4 B5 B6 B7].
        assert (Hfe : forall x, In x (fedges (RT e m cs0 :: cs')) <-> x = e \/ In x (fedges cs0) \/ In x (fedges cs')).
        { intros x. unfold fedges at 1. cbn [flat_map]. unfold eblock at 1. cbn [redge]. rewrite redges_eq.
          rewrite in_app_iff. cbn [In]. fold (fedges cs'). split.
          - intros [[Hx|Hx]|Hx]; [left; symmetry; exact Hx | right; left; exact Hx | right; right; exact Hx].
          - intros [Hx|[Hx|Hx]]; [left; left; symmetry; exact Hx | left; right; exact Hx | right; exact Hx]. }
        assert (Hv1 : forall x, In x v1 <-> In x (fedges cs0) \/ x = e \/ In x vis).
        { intros x. rewrite A1. cbn [In]. split; intros [Hx|[Hx|Hx]]; auto. }
        constructor.
        -- intros x. rewrite B1, Hv1, Hfe. tauto.
        -- unfold fedges. cbn [flat_map]. unfold eblock at 1. cbn [redge]. rewrite redges_eq.
           fold (fedges cs'). apply NoDup_app_intro.
           ++ constructor; [|exact A2]. intros Hin. apply (A3 e Hin). left. reflexivity.
           ++ exact B2.
           ++ intros x Hx Hx'. apply (B3 x Hx'). apply Hv1. destruct Hx as [Hx|Hx]; [right; left; symmetry; exact Hx | left; exact Hx].
        -- intros x Hx. apply Hfe in Hx. destruct Hx as [Hx|[Hx|Hx]].
           ++ subst x. exact Hev.
           ++ intros Hin. apply (A3 x Hx). right. exact Hin.
           ++ intros Hin. apply (B3 x Hx). apply Hv1. right. right. exact Hin.
        -- intros e' [He'|He'] Ht'.
           ++ subst e'. apply B1. right. apply Hv1. right. left. reflexivity.
           ++ apply B4; assumption.
        -- intros x Hx e' He' Ht'. unfold fnodes in Hx. cbn [flat_map] in Hx. rewrite rnodes_eq in Hx.
           apply in_app_or in Hx. destruct Hx as [[Hx|Hx]|Hx].
           ++ subst x. apply B1. right. apply A4; assumption.
           ++ apply B1. right. apply (A5 x Hx e' He' Ht').
           ++ apply (B5 x Hx e' He' Ht').
        -- intros c [Hc|Hc].
           ++ subst c. cbn [redge rroot]. split; [left; reflexivity|]. split; [exact Et | reflexivity].
           ++ destruct (B6 c Hc) as (C1 & C2 & C3). split; [right; exact C1|]. split; assumption.
        -- intros p c Hin. cbn [flat_map] in Hin. apply in_app_or in Hin. destruct Hin as [Hin|Hin].
           ++ rewrite rlinks_eq in Hin. apply in_flinks in Hin. destruct Hin as [[Hp Hc]|[c0 [Hc0 Hx]]].
              ** subst p. destruct (A6 c Hc) as (C1 & C2 & C3). split; [exact C2|]. split; assumption.
              ** apply A7. apply in_flat_map. exists c0. split; assumption.
           ++ apply B7. exact Hin.
      * rewrite num_forest_cons. rewrite (N0 e). cbn [fst snd]. exact N'.
    + destruct (IH _ _ _ _ _ _ _ _ H) as [cs' [R' N']]. exists cs'. split; [|exact N'].
      destruct R' as [B1 B2 B3 B4 B5 B6 B7]. constructor; try assumption.
      * intros e' [He'|He'] Ht'; [|apply B4; assumption]. subst e'. rewrite Ht' in Ec. cbn [andb] in Ec.
        apply negb_false_iff in Ec. apply mem_nat_In in Ec. apply B1. right. exact Ec.
      * intros c Hc. destruct (B6 c Hc) as (C1 & C2 & C3). split; [right; exact C1|]. split; assumption.
Qed.

Theorem walk_run : forall g fuel, rec_ok g (walk_stree fuel g).
Proof.
  intros g fuel; induction fuel as [|f IH]; intros m low lims lows vis next lims' lows' vis' H.
  - cbn in H. discriminate.
  - rewrite walk_stree_S in H.
    destruct (ws_loop (walk_stree f g) g m (all_edges g m) low (lims, set_nth lows m low, vis))
      as [[lim [[l2 w2] v2]]|err] eqn:El; cbn [bind] in H; [|discriminate].
    inversion H; subst. clear H.
    destruct (ws_loop_run g (walk_stree f g) m IH _ _ _ _ _ _ _ _ _ El) as [cs [R N]].
    exists cs. split; [exact R|]. intros pe. rewrite num_tree_eq. cbn [fst snd]. rewrite N. reflexivity.
Qed.
Print Assumptions walk_run.

(* ------------------------------------------------------------------------------------------------ *)
(* Example: the numbering of ex_rt                                                                   *)
(* ------------------------------------------------------------------------------------------------ *)
Example ex_num_tree :
  num_tree ex_rt 1 (repeat 0 4, repeat 0 4) = (5, ([4; 1; 3; 2], [1; 1; 2; 2])).
Proof. vm_compute. reflexivity. Qed.

Example ex_num_tree_ok :
  let L' := snd (num_tree ex_rt 1 (repeat 0 4, repeat 0 4)) in
  forall p c, In (p, c) (rlinks ex_rt) ->
    limf L' (rroot c) < limf L' p /\
    forall k, In k (rnodes ex_rt) -> (In k (rnodes c) <-> lowf L' (rroot c) <= limf L' k <= limf L' (rroot c)).
Proof.
  intros L' p c Hin.
  assert (Hb : bounded (rnodes ex_rt) (repeat 0 4, repeat 0 4)).
  { intros k Hk. cbn in Hk. cbn [fst snd repeat length]. destruct Hk as [<-|[<-|[<-|[<-|[]]]]]; split; lia. }
  destruct (num_tree_ok ex_rt 1 (repeat 0 4, repeat 0 4) (proj1 ex_rt_nodup) Hb) as (O & _ & _).
  apply (no_links _ _ _ _ _ _ O p c Hin).
Qed.
