(* NSOptCut.v — C1: what [set_cut_values] computes.
   - [cutval g ll e]: the value computed for the tree edge e, as a function of the state before the pass;
   - [set_cut_values_cut]: after the pass every tree edge of g_E carries [cutval g ll e] (the pass only changes cut
     values, and [cutval] does not read cut values);
   - [cutval_sum]: cutval = weight of e + sum over non-tree edges of weight * (Y(to) - Y(from)), Y = indicator of
     the head component of e;
   - [cutval_all_edges]: on a state with a spanning tree and its numbering, this is the sum over ALL edges of
     weight * (Y(to) - Y(from)): no other tree edge crosses the cut, and e itself goes from tail to head;
   - [cutval_nodes]: by summation by parts, it is the sum of the weight divergences of the nodes of the head
     component. *)
From Autog Require Import Base Graph Populate Phase2 Optimality OptNormalize OptVbalance OptFeasible OptInit
  OptPipeline NSDefs NSFeasLoop NSTree NSLimLow NSComp NSPivot.

(* ------------------------------------------------------------------------------------------------ *)
(* the pass, step by step                                                                            *)
(* ------------------------------------------------------------------------------------------------ *)
Definition cv_step (g : graph) (ll : limlow) (e : nat) (cv : Z) (f : nat) : Z :=
  if e_tree (gedge g f) then cv else
  let hf := in_head_component g ll (e_from (gedge g f)) e in
  let ht := in_head_component g ll (e_to (gedge g f)) e in
  if negb hf && ht then cv + e_weight (gedge g f)
  else if hf && negb ht then cv - e_weight (gedge g f) else cv.

Definition cutval (g : graph) (ll : limlow) (e : nat) : Z :=
  fold_left (cv_step g ll e) (g_E g) (e_weight (gedge g e)).

Definition scv_step (ll : limlow) (g : graph) (e : nat) : graph :=
  if negb (e_tree (gedge g e)) then g else upd_edge g e (set_cut (cutval g ll e)).

Lemma set_cut_values_eq : forall g ll, set_cut_values g ll = fold_left (scv_step ll) (g_E g) g.
Proof. reflexivity. Qed.

(* cutval reads only the edge list, the flags, the ends and the weights *)
Lemma in_head_geom : forall g g' ll n e, geom_same g g' ->
  in_head_component g' ll n e = in_head_component g ll n e.
Proof.
  intros g g' ll n e (_ & _ & _ & A4). destruct (A4 e) as (P1 & P2 & _).
  unfold in_head_component. cbv zeta. rewrite P1, P2. reflexivity.
Qed.

Lemma cutval_same_tree : forall g g' ll e, same_tree g g' -> cutval g' ll e = cutval g ll e.
Proof.
  intros g g' ll e [G T]. pose proof G as (_ & _ & A3 & A4). unfold cutval. rewrite A3.
  destruct (A4 e) as (_ & _ & _ & Pw). rewrite Pw.
  apply fold_left_ext. intros cv f. unfold cv_step. cbv zeta. rewrite T.
  destruct (A4 f) as (Q1 & Q2 & _ & Q4). rewrite Q1, Q2, Q4.
  rewrite !(in_head_geom g g' ll _ e G). reflexivity.
Qed.

Lemma same_tree_set_cut : forall g a z, same_tree g (upd_edge g a (set_cut z)).
Proof.
  intros g a z. split.
  - apply geom_same_upd_edge. intros ed. repeat split.
  - intros e. rewrite gedge_upd_edge. destruct (Nat.eqb e a && Nat.ltb e (length (g_ea g)))%bool; reflexivity.
Qed.

Lemma scv_step_same_tree : forall ll g e, same_tree g (scv_step ll g e).
Proof.
  intros ll g e. unfold scv_step. destruct (negb (e_tree (gedge g e))); [apply same_tree_refl | apply same_tree_set_cut].
Qed.

Lemma scv_step_len : forall ll g e, length (g_ea (scv_step ll g e)) = length (g_ea g).
Proof.
  intros ll g e. unfold scv_step. destruct (negb (e_tree (gedge g e))); [reflexivity|].
  unfold upd_edge, with_ea; cbn [g_ea]. apply length_upd.
Qed.

Lemma scv_fold : forall ll g l g1, same_tree g g1 -> length (g_ea g1) = length (g_ea g) ->
  same_tree g (fold_left (scv_step ll) l g1) /\
  length (g_ea (fold_left (scv_step ll) l g1)) = length (g_ea g) /\
  forall e, e_cut (gedge (fold_left (scv_step ll) l g1) e) =
            if (mem_nat e l && e_tree (gedge g e) && Nat.ltb e (length (g_ea g)))%bool
            then cutval g ll e else e_cut (gedge g1 e).
Proof.
  intros ll g l; induction l as [|a t IH]; intros g1 S1 Hlen; cbn [fold_left].
  - split; [exact S1|]. split; [exact Hlen|]. intros e. reflexivity.
  - assert (S2 : same_tree g (scv_step ll g1 a)).
    { eapply same_tree_trans; [exact S1 | apply scv_step_same_tree]. }
    assert (Hlen2 : length (g_ea (scv_step ll g1 a)) = length (g_ea g)) by (rewrite scv_step_len; exact Hlen).
    destruct (IH _ S2 Hlen2) as (R1 & R2 & R3). split; [exact R1|]. split; [exact R2|].
    intros e. rewrite R3. unfold mem_nat. cbn [existsb]. fold (mem_nat e t).
    destruct (mem_nat e t && e_tree (gedge g e) && Nat.ltb e (length (g_ea g)))%bool eqn:Et.
    + apply andb_prop in Et. destruct Et as [Et E3]. apply andb_prop in Et. destruct Et as [E1 E2].
      rewrite E1, E2, E3, orb_true_r. reflexivity.
    + (* e is not written later: look at the step for a *)
      unfold scv_step. destruct S1 as [G1 T1]. rewrite (T1 a).
      destruct (Nat.eqb e a) eqn:Eea; cbn [orb].
      * apply Nat.eqb_eq in Eea. subst a. destruct (e_tree (gedge g e)) eqn:Ete; cbn [negb andb].
        -- rewrite gedge_upd_edge, Nat.eqb_refl, Hlen. cbn [andb].
           destruct (Nat.ltb e (length (g_ea g))); [|reflexivity].
           cbn [set_cut e_cut]. apply (cutval_same_tree g g1 ll e (conj G1 T1)).
        -- reflexivity.
      * destruct (negb (e_tree (gedge g a))).
        -- rewrite Et. reflexivity.
        -- rewrite gedge_upd_edge, Eea. cbn [andb]. rewrite Et. reflexivity.
Qed.

(* C1, first half: the pass writes [cutval] (of the state before the pass) on every tree edge *)
Theorem set_cut_values_cut : forall g ll e,
  In e (g_E g) -> e_tree (gedge g e) = true -> (e < length (g_ea g))%nat ->
  e_cut (gedge (set_cut_values g ll) e) = cutval g ll e.
Proof.
  intros g ll e He Ht Hlt. rewrite set_cut_values_eq.
  destruct (scv_fold ll g (g_E g) g (same_tree_refl g) eq_refl) as (_ & _ & R). rewrite R.
  apply mem_nat_In in He. apply Nat.ltb_lt in Hlt. rewrite He, Ht, Hlt. reflexivity.
Qed.
Print Assumptions set_cut_values_cut.

(* the property of a state that the pivot loop maintains *)
Definition cut_ok (g : graph) (ll : limlow) : Prop :=
  forall e, In e (g_E g) -> e_tree (gedge g e) = true -> e_cut (gedge g e) = cutval g ll e.

Theorem set_cut_values_cut_ok : forall g ll, no_self_loops g -> cut_ok (set_cut_values g ll) ll.
Proof.
  intros g ll Hnl e He Ht.
  pose proof (set_cut_values_same_tree g ll) as S. pose proof S as [(_ & _ & A3 & _) T].
  rewrite A3 in He. rewrite T in Ht.
  rewrite (cutval_same_tree g _ ll e S).
  apply set_cut_values_cut; [exact He | exact Ht | apply (no_loop_lt g e Hnl He)].
Qed.
Print Assumptions set_cut_values_cut_ok.

(* ------------------------------------------------------------------------------------------------ *)
(* cutval as a sum                                                                                   *)
(* ------------------------------------------------------------------------------------------------ *)
Definition ind (b : bool) : Z := if b then 1 else 0.
Definition hY (g : graph) (ll : limlow) (e n : nat) : Z := ind (in_head_component g ll n e).

(* weight * (Y(to) - Y(from)): +w for tail->head, -w for head->tail, 0 otherwise *)
Definition cross_w (g : graph) (ll : limlow) (e f : nat) : Z :=
  e_weight (gedge g f) * (hY g ll e (e_to (gedge g f)) - hY g ll e (e_from (gedge g f))).

Lemma cv_fold_sum : forall g ll e l a,
  fold_left (cv_step g ll e) l a =
  a + sumf (fun f => if e_tree (gedge g f) then 0 else cross_w g ll e f) l.
Proof.
  intros g ll e l; induction l as [|f t IH]; intros a; cbn [fold_left sumf]; [lia|].
  rewrite IH. unfold cv_step, cross_w, hY, ind. cbv zeta.
  destruct (e_tree (gedge g f)); [lia|].
  destruct (in_head_component g ll (e_from (gedge g f)) e);
    destruct (in_head_component g ll (e_to (gedge g f)) e); cbn [negb andb]; lia.
Qed.

Theorem cutval_sum : forall g ll e,
  cutval g ll e = e_weight (gedge g e)
                  + sumf (fun f => if e_tree (gedge g f) then 0 else cross_w g ll e f) (g_E g).
Proof. intros g ll e. unfold cutval. apply cv_fold_sum. Qed.

(* C1, second half: on a spanning tree with its numbering, the sum runs over all edges *)
Theorem cutval_all_edges : forall g ll e,
  ns_wf g -> spanning_tree g -> set_stree_values g = Ok ll ->
  In e (g_E g) -> e_tree (gedge g e) = true ->
  cutval g ll e = sumf (cross_w g ll e) (g_E g).
Proof.
  intros g ll e W S Hll He Ht. rewrite cutval_sum.
  rewrite (sumf_ext (cross_w g ll e)
             (fun f => (if Nat.eqb e f then e_weight (gedge g f) else 0)
                       + (if e_tree (gedge g f) then 0 else cross_w g ll e f)) (g_E g)).
  - rewrite sumf_add. rewrite (sumf_indicator (fun f => e_weight (gedge g f)) e (g_E g) (nw_ndE _ W) He). reflexivity.
  - intros f Hf. destruct (Nat.eqb e f) eqn:Eef.
    + apply Nat.eqb_eq in Eef. subst f. rewrite Ht.
      destruct (tree_edge_tail_to_head g ll e W S Hll He Ht) as [H1 H2].
      unfold cross_w, hY. rewrite H1, H2. cbn [ind]. lia.
    + apply Nat.eqb_neq in Eef. destruct (e_tree (gedge g f)) eqn:Etf; [|lia].
      assert (Hne : f <> e) by congruence.
      pose proof (tree_edge_same_side g ll e f W S Hll He Ht Hf Etf Hne) as Hs.
      unfold cross_w, hY. rewrite Hs. lia.
Qed.
Print Assumptions cutval_all_edges.

(* ------------------------------------------------------------------------------------------------ *)
(* ... and, by parts, a sum over nodes                                                               *)
(* ------------------------------------------------------------------------------------------------ *)
Definition wdiv (g : graph) (v : nat) : Z := divergence (fun e => e_weight (gedge g e)) g v.

Theorem cutval_nodes : forall g ll e N,
  ns_wf g -> spanning_tree g -> set_stree_values g = Ok ll ->
  In e (g_E g) -> e_tree (gedge g e) = true ->
  NoDup N -> (forall n, In n (g_N g) -> In n N) ->
  cutval g ll e = sumf (fun v => hY g ll e v * wdiv g v) N.
Proof.
  intros g ll e N W S Hll He Ht HndN Hincl. rewrite (cutval_all_edges g ll e W S Hll He Ht).
  assert (Hends : forall x, In x (g_E g) -> In (e_from (gedge g x)) N /\ In (e_to (gedge g x)) N).
  { intros x Hx. destruct (vw_edges _ (nw_vb _ W) x Hx) as [A B]. split; apply Hincl; assumption. }
  rewrite (sumf_ext _ (fun v => hY g ll e v *
             divg (fun x => e_from (gedge g x)) (fun x => e_to (gedge g x)) (fun x => e_weight (gedge g x)) (g_E g) v) N).
  2:{ intros v _. unfold wdiv. rewrite divergence_divg. reflexivity. }
  rewrite (sum_by_parts (fun x => e_from (gedge g x)) (fun x => e_to (gedge g x))
             (fun x => e_weight (gedge g x)) (hY g ll e) N (g_E g) HndN Hends).
  apply sumf_ext. intros f _. unfold cross_w. reflexivity.
Qed.
Print Assumptions cutval_nodes.

(* the total divergence of any edge function is zero *)
Lemma total_divergence_zero : forall g (f : nat -> Z) N,
  NoDup N -> (forall x, In x (g_E g) -> In (e_from (gedge g x)) N /\ In (e_to (gedge g x)) N) ->
  sumf (divergence f g) N = 0.
Proof.
  intros g f N HndN Hends.
  rewrite (sumf_ext _ (fun v => (fun _ => 1) v *
             divg (fun x => e_from (gedge g x)) (fun x => e_to (gedge g x)) f (g_E g) v) N).
  2:{ intros v _. rewrite divergence_divg. lia. }
  rewrite (sum_by_parts (fun x => e_from (gedge g x)) (fun x => e_to (gedge g x)) f (fun _ => 1) N (g_E g) HndN Hends).
  rewrite (sumf_ext _ (fun _ => 0)) by (intros; lia). apply sumf_zero.
Qed.

(* ------------------------------------------------------------------------------------------------ *)
(* Examples                                                                                          *)
(* ------------------------------------------------------------------------------------------------ *)
(* on the 5-node DAG and on ex_edges2: the stored cut values are cutval, and cutval is the sum over all edges *)
Definition cut_okb (g : graph) (ll : limlow) : bool :=
  forallb (fun e => negb (e_tree (gedge g e)) ||
                    ((e_cut (gedge g e) =? cutval g ll e) && (cutval g ll e =? sumf (cross_w g ll e) (g_E g)))) (g_E g).

Example ex5_cut_ok : match feasible_tree ex5 with Ok (g, ll) => cut_okb g ll | Err _ => false end = true.
Proof. vm_compute. reflexivity. Qed.

Example ex2_cut_ok :
  match feasible_tree (pop_graph ex_edges2) with Ok (g, ll) => cut_okb g ll | Err _ => false end = true.
Proof. vm_compute. reflexivity. Qed.

Example ex5_cut_values :
  match feasible_tree ex5 with
  | Ok (g, ll) => map (fun e => (e_tree (gedge g e), e_cut (gedge g e))) (g_E g)
  | Err _ => []
  end = [(true, 3); (false, 0); (true, 3); (true, 0); (true, 2); (false, 0)].
Proof. vm_compute. reflexivity. Qed.

(* the hypotheses of cutval_all_edges / cutval_nodes hold after feasible_tree *)
Example ex5_cutval_nodes : forall g ll e, feasible_tree ex5 = Ok (g, ll) ->
  In e (g_E g) -> e_tree (gedge g e) = true ->
  e_cut (gedge g e) = sumf (fun v => hY g ll e v * wdiv g v) (g_N g).
Proof.
  intros g ll e H He Ht. destruct ex5_wf as (H1 & H2).
  destruct (feasible_tree_spanning ex5 g ll (ns_wfb_ok _ H1) (acyclicb_ok _ _ H2) H)
    as [g0 (Hs & Eg & S0 & W0 & _)].
  destruct (feasible_tree_inv ex5 g ll (ns_wfb_ok _ H1) (acyclicb_ok _ _ H2) H) as [[W S _ _ Hll] _].
  assert (C : cut_ok g ll) by (rewrite Eg; apply set_cut_values_cut_ok; apply (nw_noloop _ W0)).
  rewrite (C e He Ht).
  apply (cutval_nodes g ll e (g_N g) W S Hll He Ht); [apply (vw_nodes _ (nw_vb _ W)) | auto].
Qed.
