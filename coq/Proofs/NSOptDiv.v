(* NSOptDiv.v — C2: the divergence lemma.
   On a state with a spanning tree, its numbering and cut values as computed by [set_cut_values], the flow
   "cut value on tree edges, 0 elsewhere" has at every node the same divergence as the weights.
   Route: the tree shape t of [stree_exists].  For a link (p, c) of t with edge e:
     cutval e = + (sum of the weight divergences of the nodes of c)   if e points into c,
              = - (the same sum)                                      if e points out of c
   ([link_cutval], from [cutval_nodes] and the fact that all divergences add up to 0).  Hence the contribution
   of e to the flow divergence at v is  D(c) * ([root c = v] - [p = v])  whatever the direction of e, and these
   contributions telescope over the tree ([tele]). *)
From Coq Require Import Permutation.
From Autog Require Import Base Graph Populate Phase2 Optimality OptNormalize OptVbalance OptFeasible OptInit
  OptPipeline NSDefs NSFeasLoop NSTree NSLimLow NSComp NSPivot NSHbalance NSOptCut.

(* ------------------------------------------------------------------------------------------------ *)
(* sums                                                                                              *)
(* ------------------------------------------------------------------------------------------------ *)
Fixpoint lsum (l : list Z) : Z := match l with [] => 0 | x :: t => x + lsum t end.

Lemma lsum_app : forall a b, lsum (a ++ b) = lsum a + lsum b.
Proof. induction a as [|x a IH]; intros b; cbn [app lsum]; [lia|]. rewrite IH. lia. Qed.

Lemma lsum_map_ext : forall A (F G : A -> Z) l, (forall x, In x l -> F x = G x) -> lsum (map F l) = lsum (map G l).
Proof.
  intros A F G l; induction l as [|x t IH]; intros H; cbn [map lsum]; [reflexivity|].
  rewrite (H x (or_introl eq_refl)). rewrite IH; [reflexivity|]. intros y Hy. apply H. right. exact Hy.
Qed.

Lemma sumf_map : forall A (h : nat -> Z) (k : A -> nat) l, sumf h (map k l) = lsum (map (fun x => h (k x)) l).
Proof. intros A h k l; induction l as [|x t IH]; cbn [map sumf lsum]; [reflexivity|]. rewrite IH. reflexivity. Qed.

Lemma sumf_perm : forall (h : nat -> Z) l l', Permutation l l' -> sumf h l = sumf h l'.
Proof. intros h l l' P. induction P; cbn [sumf]; lia. Qed.

Lemma sumf_filter : forall (h : nat -> Z) (p : nat -> bool) l,
  (forall x, In x l -> p x = false -> h x = 0) -> sumf h l = sumf h (filter p l).
Proof.
  intros h p l; induction l as [|x t IH]; intros H; cbn [filter sumf]; [reflexivity|].
  assert (IHt : sumf h t = sumf h (filter p t)) by (apply IH; intros y Hy; apply H; right; exact Hy).
  destruct (p x) eqn:Ep; cbn [sumf]; [lia|]. rewrite (H x (or_introl eq_refl) Ep). lia.
Qed.

Lemma mem_nat_false : forall x l, mem_nat x l = false <-> ~ In x l.
Proof.
  intros x l. split.
  - intros H Hin. apply mem_nat_In in Hin. congruence.
  - intros H. destruct (mem_nat x l) eqn:E; [|reflexivity]. apply mem_nat_In in E. contradiction.
Qed.

(* the sum over a sublist s of l, written as a sum over l *)
Lemma sumf_sub : forall (h : nat -> Z) s l, NoDup s -> NoDup l -> incl s l ->
  sumf (fun v => if mem_nat v s then h v else 0) l = sumf h s.
Proof.
  intros h s; induction s as [|a s IH]; intros l Hs Hl Hincl.
  - cbn [sumf]. rewrite (sumf_ext _ (fun _ => 0)) by reflexivity. apply sumf_zero.
  - inversion Hs as [|a' s' Ha Hs']; subst. cbn [sumf].
    rewrite <- (IH l Hs' Hl) by (intros x Hx; apply Hincl; right; exact Hx).
    rewrite <- (sumf_indicator h a l Hl) by (apply Hincl; left; reflexivity).
    rewrite <- sumf_add. apply sumf_ext. intros v _.
    unfold mem_nat. cbn [existsb]. fold (mem_nat v s). rewrite (Nat.eqb_sym v a).
    destruct (Nat.eqb a v) eqn:E; cbn [orb]; [|lia].
    apply Nat.eqb_eq in E. subst v. apply mem_nat_false in Ha. rewrite Ha. lia.
Qed.

(* ------------------------------------------------------------------------------------------------ *)
(* the telescoping sum over a tree shape                                                             *)
(* ------------------------------------------------------------------------------------------------ *)
Section Tele.
  Variable d : nat -> Z.
  Variable v : nat.

  Definition Dsum (c : rtree) : Z := sumf d (rnodes c).
  Definition at_v (l : list nat) : Z := sumf (fun u => if Nat.eqb v u then d u else 0) l.
  Definition link_term (l : nat * rtree) : Z :=
    Dsum (snd l) * (ind (Nat.eqb (rroot (snd l)) v) - ind (Nat.eqb (fst l) v)).

  Definition tele_ok (t : rtree) : Prop :=
    lsum (map link_term (rlinks t)) = at_v (rnodes t) - ind (Nat.eqb (rroot t) v) * Dsum t.

  Lemma tele_forest : forall n cs, (forall c, In c cs -> tele_ok c) ->
    lsum (map link_term (flinks n cs)) = at_v (fnodes cs) - ind (Nat.eqb n v) * sumf d (fnodes cs).
  Proof.
    intros n cs; induction cs as [|c cs IH]; intros H.
    - cbn. lia.
    - unfold flinks, fnodes in *. cbn [flat_map]. unfold lblock at 1. cbn [app map lsum].
      rewrite map_app, lsum_app. unfold at_v in *. rewrite !sumf_app.
      rewrite IH by (intros c' Hc'; apply H; right; exact Hc').
      pose proof (H c (or_introl eq_refl)) as Hc. unfold tele_ok, at_v in Hc. rewrite Hc.
      unfold link_term at 1. cbn [fst snd]. unfold Dsum. lia.
  Qed.

  Theorem tele : forall t, tele_ok t.
  Proof.
    induction t as [e n cs IH] using rtree_ind2. unfold tele_ok.
    rewrite rlinks_eq, (tele_forest n cs IH). unfold Dsum, at_v. rewrite rnodes_eq. cbn [sumf rroot].
    rewrite (Nat.eqb_sym v n). unfold ind. destruct (Nat.eqb n v); lia.
  Qed.
End Tele.

(* ------------------------------------------------------------------------------------------------ *)
(* cut values along the links of the tree                                                            *)
(* ------------------------------------------------------------------------------------------------ *)
Section Links.
  Variables (g : graph) (ll : limlow) (t : rtree).
  Hypothesis W : ns_wf g.
  Hypothesis S : spanning_tree g.
  Hypothesis Hll : set_stree_values g = Ok ll.
  Hypothesis St : stree_of g ll t.

  Let d := wdiv g.

  Lemma tree_ends : forall x, In x (g_E g) -> In (e_from (gedge g x)) (rnodes t) /\ In (e_to (gedge g x)) (rnodes t).
  Proof.
    intros x Hx. destruct (vw_edges _ (nw_vb _ W) x Hx) as [A B]. split; apply (so_nodes _ _ _ St); assumption.
  Qed.

  Lemma total_zero : Dsum d t = 0.
  Proof. unfold Dsum, d, wdiv. apply total_divergence_zero; [apply (so_nd _ _ _ St) | apply tree_ends]. Qed.

  Lemma link_cutval : forall p c, In (p, c) (rlinks t) ->
    cutval g ll (redge c) =
    if Nat.eqb (e_from (gedge g (redge c))) (rroot c) then - Dsum d c else Dsum d c.
  Proof.
    intros p c Hin.
    destruct (link_ends g ll t St p c Hin) as (_ & _ & _ & _ & _ & HeE & Het & _).
    rewrite (cutval_nodes g ll (redge c) (rnodes t) W S Hll HeE Het (so_nd _ _ _ St))
      by (intros n Hn; apply (so_nodes _ _ _ St); exact Hn).
    assert (Hsub : sumf (fun n => if mem_nat n (rnodes c) then d n else 0) (rnodes t) = Dsum d c).
    { apply sumf_sub; [|apply (so_nd _ _ _ St) | apply (link_nodes_incl t p c Hin)].
      apply (sub_nodup t c (so_nd _ _ _ St)). right. exists p. exact Hin. }
    destruct (Nat.eqb (e_from (gedge g (redge c))) (rroot c)) eqn:Ed.
    - rewrite (sumf_ext _ (fun n => d n + (-1) * (if mem_nat n (rnodes c) then d n else 0)) (rnodes t)).
      + rewrite sumf_add, sumf_scale, Hsub. pose proof total_zero as Hz. unfold Dsum in Hz. rewrite Hz. lia.
      + intros n Hn. apply (so_nodes _ _ _ St) in Hn. unfold hY. rewrite (in_head_spec g ll t St p c n Hin Hn), Ed.
        fold d. destruct (mem_nat n (rnodes c)); cbn [negb ind]; lia.
    - rewrite <- Hsub. apply sumf_ext. intros n Hn. apply (so_nodes _ _ _ St) in Hn.
      unfold hY. rewrite (in_head_spec g ll t St p c n Hin Hn), Ed.
      fold d. destruct (mem_nat n (rnodes c)); cbn [ind]; lia.
  Qed.
End Links.

(* ------------------------------------------------------------------------------------------------ *)
(* C2: the divergence lemma                                                                          *)
(* ------------------------------------------------------------------------------------------------ *)
Section Divergence.
  Variables (g : graph) (ll : limlow) (t : rtree).
  Hypothesis W : ns_wf g.
  Hypothesis S : spanning_tree g.
  Hypothesis Hll : set_stree_values g = Ok ll.
  Hypothesis St : stree_of g ll t.
  Hypothesis C : cut_ok g ll.

  Let d := wdiv g.

  (* the term of an edge in the divergence of the flow at v *)
  Definition flow_term (v e : nat) : Z :=
    (if Nat.eqb (e_to (gedge g e)) v then flow g e else 0) - (if Nat.eqb (e_from (gedge g e)) v then flow g e else 0).

  Lemma flow_term_link : forall v p c, In (p, c) (rlinks t) ->
    flow_term v (redge c) = link_term d v (p, c).
  Proof.
    intros v p c Hin.
    destruct (link_ends g ll t St p c Hin) as (Hne & _ & _ & _ & _ & HeE & Het & Hj).
    unfold flow_term, flow. rewrite Het, (C _ HeE Het), (link_cutval g ll t W S Hll St p c Hin).
    unfold link_term. cbn [fst snd]. fold d.
    destruct Hj as [[J1 J2]|[J1 J2]]; rewrite J1, J2.
    - apply Nat.eqb_neq in Hne. rewrite Hne. unfold ind.
      destruct (Nat.eqb (rroot c) v); destruct (Nat.eqb p v); lia.
    - rewrite Nat.eqb_refl. unfold ind.
      destruct (Nat.eqb (rroot c) v); destruct (Nat.eqb p v); lia.
  Qed.

  Lemma tree_edges_perm : Permutation (tree_edges g) (redges t).
  Proof.
    apply NoDup_Permutation.
    - unfold tree_edges. apply NoDup_filter. apply (nw_ndE _ W).
    - apply (so_nde _ _ _ St).
    - intros e. rewrite in_tree_edges. symmetry. apply (so_edges _ _ _ St).
  Qed.

  Theorem flow_divergence_t : forall v, In v (g_N g) ->
    divergence (flow g) g v = divergence (fun e => e_weight (gedge g e)) g v.
  Proof.
    intros v Hv. rewrite (divergence_divg (flow g)). unfold divg.
    change (sumf (flow_term v) (g_E g) = d v).
    rewrite (sumf_filter (flow_term v) (fun e => e_tree (gedge g e)) (g_E g)).
    2:{ intros e _ Hnt. unfold flow_term, flow. rewrite Hnt.
        destruct (Nat.eqb (e_to (gedge g e)) v); destruct (Nat.eqb (e_from (gedge g e)) v); lia. }
    fold (tree_edges g). rewrite (sumf_perm (flow_term v) _ _ tree_edges_perm).
    rewrite redges_links, sumf_map.
    rewrite (lsum_map_ext _ _ (link_term d v)).
    2:{ intros [p c] Hin. cbn [snd]. apply (flow_term_link v p c Hin). }
    pose proof (tele d v t) as Ht. unfold tele_ok in Ht. rewrite Ht.
    pose proof (total_zero g ll t W St) as Hz. fold d in Hz. rewrite Hz. unfold at_v.
    rewrite (sumf_indicator d v (rnodes t) (so_nd _ _ _ St)) by (apply (so_nodes _ _ _ St); exact Hv).
    lia.
  Qed.
End Divergence.

(* stated on the model only *)
Theorem flow_divergence : forall g ll,
  ns_wf g -> spanning_tree g -> set_stree_values g = Ok ll -> cut_ok g ll ->
  forall v, In v (g_N g) ->
  divergence (flow g) g v = divergence (fun e => e_weight (gedge g e)) g v.
Proof.
  intros g ll W S Hll C v Hv. destruct (stree_exists g ll W S Hll) as [t St].
  apply (flow_divergence_t g ll t W S Hll St C v Hv).
Qed.
Print Assumptions flow_divergence.

(* the same for the state produced by the pass itself *)
Corollary set_cut_values_divergence : forall g ll,
  ns_wf g -> spanning_tree g -> set_stree_values g = Ok ll ->
  let g' := set_cut_values g ll in
  forall v, In v (g_N g') ->
  divergence (flow g') g' v = divergence (fun e => e_weight (gedge g' e)) g' v.
Proof.
  intros g ll W S Hll g' v Hv.
  pose proof (set_cut_values_same_tree g ll) as S01. fold g' in S01.
  apply (flow_divergence g' ll).
  - apply (ns_wf_geom_same (proj1 S01) W).
  - apply (spanning_tree_same_tree g g' S01 S).
  - rewrite (set_stree_values_same_tree g g' S01). exact Hll.
  - apply set_cut_values_cut_ok. apply (nw_noloop _ W).
  - exact Hv.
Qed.
Print Assumptions set_cut_values_divergence.

(* ------------------------------------------------------------------------------------------------ *)
(* Examples                                                                                          *)
(* ------------------------------------------------------------------------------------------------ *)
Definition div_okb (g : graph) : bool :=
  forallb (fun v => divergence (flow g) g v =? divergence (fun e => e_weight (gedge g e)) g v) (g_N g).

(* the conclusion, computed: it holds after feasible_tree (before any pivot, where the certificate as a whole
   fails because of a negative cut value) *)
Example ex2_div_computed :
  match feasible_tree (pop_graph ex_edges2) with
  | Ok (g, ll) => (div_okb g, cert_ok g, neg_cut_tree_edge g)
  | Err _ => (false, false, None)
  end = (true, false, Some 0%nat).
Proof. vm_compute. reflexivity. Qed.

(* the theorem applied: its hypotheses hold after feasible_tree *)
Example ex2_div : forall g ll v, feasible_tree (pop_graph ex_edges2) = Ok (g, ll) -> In v (g_N g) ->
  divergence (flow g) g v = divergence (fun e => e_weight (gedge g e)) g v.
Proof.
  intros g ll v H Hv. destruct ex_ns_hyps as (H1 & H2 & _).
  destruct (feasible_tree_spanning _ g ll (ns_wfb_ok _ H1) (acyclicb_ok ex_rank2 _ H2) H)
    as [g0 (Hs & Eg & S0 & W0 & _)].
  subst g. apply (set_cut_values_divergence g0 ll W0 S0 Hs v Hv).
Qed.

Example ex5_div : forall g ll v, feasible_tree ex5 = Ok (g, ll) -> In v (g_N g) ->
  divergence (flow g) g v = divergence (fun e => e_weight (gedge g e)) g v.
Proof.
  intros g ll v H Hv. destruct ex5_wf as (H1 & H2).
  destruct (feasible_tree_spanning _ g ll (ns_wfb_ok _ H1) (acyclicb_ok _ _ H2) H)
    as [g0 (Hs & Eg & S0 & W0 & _)].
  subst g. apply (set_cut_values_divergence g0 ll W0 S0 Hs v Hv).
Qed.
