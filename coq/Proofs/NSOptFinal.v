(* NSOptFinal.v — C3/C4: network simplex is optimal whenever its pivot loop does not stop on the budget.
   - [cert_of_inv]: invariant + cut values as computed by the model + no negative cut value => cert_ok;
   - [stuck_impossible]: with non-negative weights, a tree edge with a negative cut value always has a
     non-tree edge from its head component to its tail component, so the "nil candidate" exit of the pivot
     loop cannot be taken;
   - [pivot_loop_inv_cut], [pivot_loop_optimal]: the state at the end of an un-capped pivot loop passes the check;
   - [exec_network_simplex_optimal*]: optimality of the result of execNetworkSimplex (balance = 1, or none);
   - [layers_contiguous], [exec_network_simplex_no_empty_band]: with all minimum lengths 1, the used layers
     form an interval, hence no band of the result is empty. *)
From Autog Require Import Base Graph Populate Phase2 Optimality OptNormalize OptVbalance OptFeasible OptInit
  OptPipeline NSDefs NSFeasLoop NSTree NSLimLow NSComp NSPivot NSTotal NSHbalance NSOptCut NSOptDiv.

(* ------------------------------------------------------------------------------------------------ *)
(* C3: the certificate                                                                               *)
(* ------------------------------------------------------------------------------------------------ *)
Theorem cert_of_inv : forall g ll,
  ns_inv g ll -> cut_ok g ll -> neg_cut_tree_edge g = None -> cert_ok g = true.
Proof.
  intros g ll [W S Hf Ht Hll] C Hn. apply cert_ok_spec. constructor.
  - exact Hf.
  - intros e He Hte. split; [apply Ht; assumption|].
    unfold neg_cut_tree_edge in Hn. pose proof (find_none _ _ Hn e He) as K. cbv beta in K.
    rewrite Hte in K. cbn [andb] in K. apply Z.ltb_ge in K. exact K.
  - apply (flow_divergence g ll W S Hll C).
  - apply (vw_edges _ (nw_vb _ W)).
Qed.
Print Assumptions cert_of_inv.

Corollary inv_optimal : forall g ll,
  ns_inv g ll -> cut_ok g ll -> neg_cut_tree_edge g = None ->
  forall lay', feasible_lay lay' g -> total_length (layer_of g) g <= total_length lay' g.
Proof. intros g ll I C Hn. apply cert_sound. apply (cert_of_inv g ll I C Hn). Qed.

(* ------------------------------------------------------------------------------------------------ *)
(* the "nil candidate" exit                                                                          *)
(* ------------------------------------------------------------------------------------------------ *)
Lemma min_slack_none : forall g ll e, min_slack_non_tree_edge g ll e = None ->
  forall f, In f (g_E g) -> f <> e -> e_tree (gedge g f) = false -> head_to_tail g ll e f = false.
Proof.
  intros g ll e H. unfold min_slack_non_tree_edge in H.
  set (keep := fun f => (negb (Nat.eqb f e || e_tree (gedge g f)) && head_to_tail g ll e f)%bool).
  rewrite (fold_left_ext _ (amin_step keep (slack g) (fun f => f))) in H.
  2:{ intros acc x. unfold amin_step, keep, head_to_tail.
      destruct (Nat.eqb x e || e_tree (gedge g x))%bool; cbn [negb andb]; [reflexivity|].
      destruct (in_head_component g ll (e_from (gedge g x)) e && negb (in_head_component g ll (e_to (gedge g x)) e))%bool;
        reflexivity. }
  intros f Hf Hne Ht. pose proof (amin_none keep (slack g) (fun f => f) (g_E g) H f Hf) as K.
  unfold keep in K. apply Nat.eqb_neq in Hne. rewrite Hne, Ht in K. cbn [orb negb andb] in K. exact K.
Qed.

Definition nonneg_weights (g : graph) : Prop := forall e, In e (g_E g) -> 0 <= e_weight (gedge g e).

Lemma unit_nonneg_weights : forall g, unit_weights g -> nonneg_weights g.
Proof. intros g H e He. rewrite (H e He). lia. Qed.

(* a state in which the pivot loop gives up although a negative cut value is left *)
Definition stuck (g : graph) (ll : limlow) : Prop :=
  exists e, neg_cut_tree_edge g = Some e /\ min_slack_non_tree_edge g ll e = None.

Theorem stuck_impossible : forall g ll, cut_ok g ll -> nonneg_weights g -> ~ stuck g ll.
Proof.
  intros g ll C Hw [e [Hn Hm]].
  unfold neg_cut_tree_edge in Hn. apply find_some in Hn. destruct Hn as [He Hb].
  apply andb_prop in Hb. destruct Hb as [Ht Hc]. apply Z.ltb_lt in Hc.
  rewrite (C e He Ht), cutval_sum in Hc.
  assert (Hs : 0 <= sumf (fun f => if e_tree (gedge g f) then 0 else cross_w g ll e f) (g_E g)).
  { apply Z.le_trans with (sumf (fun _ => 0) (g_E g)); [rewrite sumf_zero; lia|].
    apply sumf_le. intros f Hf. cbv beta.
    destruct (e_tree (gedge g f)) eqn:Etf; [lia|].
    assert (Hne : f <> e) by congruence.
    pose proof (min_slack_none g ll e Hm f Hf Hne Etf) as Hh. unfold head_to_tail in Hh.
    pose proof (Hw f Hf) as Hwf. unfold cross_w, hY.
    destruct (in_head_component g ll (e_from (gedge g f)) e);
      destruct (in_head_component g ll (e_to (gedge g f)) e); cbn [negb andb] in Hh; cbn [ind];
      try discriminate; lia. }
  pose proof (Hw e He). lia.
Qed.
Print Assumptions stuck_impossible.

(* ------------------------------------------------------------------------------------------------ *)
(* the invariant with cut values, through feasible_tree and the pivot loop                           *)
(* ------------------------------------------------------------------------------------------------ *)
Theorem feasible_tree_inv_cut : forall g g' ll,
  ns_wf g -> acyclic g -> feasible_tree g = Ok (g', ll) ->
  ns_inv g' ll /\ cut_ok g' ll /\ ns_frame g g'.
Proof.
  intros g g' ll W Hac H. destruct (feasible_tree_inv g g' ll W Hac H) as [I F].
  destruct (feasible_tree_spanning g g' ll W Hac H) as [g0 (_ & Eg & _ & W0 & _)].
  split; [exact I|]. split; [|exact F]. rewrite Eg. apply set_cut_values_cut_ok. apply (nw_noloop _ W0).
Qed.

Lemma exchange_cut_ok : forall g ll e f g' ll', ns_wf g -> exchange g ll e f = Ok (g', ll') -> cut_ok g' ll'.
Proof.
  intros g ll e f g' ll' W Hex. destruct (exchange_shape g ll e f g' ll' Hex) as [_ Eg]. rewrite Eg.
  apply set_cut_values_cut_ok.
  apply (no_self_loops_geom_same _ _ (swap_flags_geom _ e f)).
  pose proof (exch_shift_lay_only g ll e f (vw_nodes _ (nw_vb _ W))) as L.
  apply (nw_noloop _ (ns_wf_lay_only L W)).
Qed.

Theorem pivot_loop_inv_cut : forall fuel i maxitr g ll g' ll' b,
  ns_inv g ll -> cut_ok g ll -> pivot_loop fuel i maxitr g ll = Ok (g', ll', b) ->
  ns_inv g' ll' /\ cut_ok g' ll' /\ ns_frame g g' /\
  (b = false -> neg_cut_tree_edge g' = None \/ stuck g' ll').
Proof.
  induction fuel as [|fu IH]; intros i maxitr g ll g' ll' b I C H.
  - cbn [pivot_loop] in H.
    destruct (neg_cut_tree_edge g) as [e|] eqn:En.
    2:{ inversion H; subst. split; [exact I|]. split; [exact C|]. split; [apply ns_frame_refl|]. intros _. left. exact En. }
    destruct (maxitr <=? i).
    { inversion H; subst. split; [exact I|]. split; [exact C|]. split; [apply ns_frame_refl|]. discriminate. }
    destruct (min_slack_non_tree_edge g ll e) as [f|] eqn:Em; [discriminate|].
    inversion H; subst. split; [exact I|]. split; [exact C|]. split; [apply ns_frame_refl|].
    intros _. right. exists e. split; assumption.
  - cbn [pivot_loop] in H.
    destruct (neg_cut_tree_edge g) as [e|] eqn:En.
    2:{ inversion H; subst. split; [exact I|]. split; [exact C|]. split; [apply ns_frame_refl|]. intros _. left. exact En. }
    destruct (maxitr <=? i).
    { inversion H; subst. split; [exact I|]. split; [exact C|]. split; [apply ns_frame_refl|]. discriminate. }
    destruct (min_slack_non_tree_edge g ll e) as [f|] eqn:Em.
    2:{ inversion H; subst. split; [exact I|]. split; [exact C|]. split; [apply ns_frame_refl|].
        intros _. right. exists e. split; assumption. }
    destruct (exchange g ll e f) as [[g1 ll1]|err] eqn:Ex; cbn [bind] in H; [|discriminate].
    cbn [fst snd] in H. destruct (neg_cut_tree_edge_spec g e En) as [He Ht].
    destruct (exchange_inv g ll e f g1 ll1 I He Ht Em Ex) as (I1 & F1 & _ & _).
    pose proof (exchange_cut_ok g ll e f g1 ll1 (ni_wf _ _ I) Ex) as C1.
    destruct (IH _ _ _ _ _ _ _ I1 C1 H) as (I2 & C2 & F2 & Hb).
    split; [exact I2|]. split; [exact C2|]. split; [eapply ns_frame_trans; eassumption | exact Hb].
Qed.
Print Assumptions pivot_loop_inv_cut.

Lemma nonneg_weights_frame : forall g g', ns_frame g g' -> nonneg_weights g -> nonneg_weights g'.
Proof.
  intros g g' F H e He. rewrite (nf_E _ _ F) in He. destruct (nf_edge _ _ F e) as (_ & _ & _ & Pw & _).
  rewrite Pw. apply H. exact He.
Qed.

Lemma unit_weights_frame : forall g g', ns_frame g g' -> unit_weights g -> unit_weights g'.
Proof.
  intros g g' F H e He. rewrite (nf_E _ _ F) in He. destruct (nf_edge _ _ F e) as (_ & _ & _ & Pw & _).
  rewrite Pw. apply H. exact He.
Qed.

Lemma unit_deltas_frame : forall g g', ns_frame g g' -> unit_deltas g -> unit_deltas g'.
Proof.
  intros g g' F H e He. rewrite (nf_E _ _ F) in He. destruct (nf_edge _ _ F e) as (_ & _ & Pd & _).
  rewrite Pd. apply H. exact He.
Qed.

(* C3: the pivot loop, stopped otherwise than on its budget, ends in a certified state *)
Theorem pivot_loop_optimal : forall fuel i maxitr g ll g' ll',
  ns_inv g ll -> cut_ok g ll -> nonneg_weights g ->
  pivot_loop fuel i maxitr g ll = Ok (g', ll', false) ->
  cert_ok g' = true.
Proof.
  intros fuel i maxitr g ll g' ll' I C Hw H.
  destruct (pivot_loop_inv_cut _ _ _ _ _ _ _ _ I C H) as (I2 & C2 & F2 & Hb).
  destruct (Hb eq_refl) as [Hn|Hst].
  - apply (cert_of_inv g' ll' I2 C2 Hn).
  - exfalso. apply (stuck_impossible g' ll' C2 (nonneg_weights_frame g g' F2 Hw) Hst).
Qed.
Print Assumptions pivot_loop_optimal.

(* without the hypothesis on the weights: the case distinction stays in the statement *)
Theorem pivot_loop_optimal_cases : forall fuel i maxitr g ll g' ll',
  ns_inv g ll -> cut_ok g ll ->
  pivot_loop fuel i maxitr g ll = Ok (g', ll', false) ->
  cert_ok g' = true \/ stuck g' ll'.
Proof.
  intros fuel i maxitr g ll g' ll' I C H.
  destruct (pivot_loop_inv_cut _ _ _ _ _ _ _ _ I C H) as (I2 & C2 & F2 & Hb).
  destruct (Hb eq_refl) as [Hn|Hst]; [left; apply (cert_of_inv g' ll' I2 C2 Hn) | right; exact Hst].
Qed.

(* ------------------------------------------------------------------------------------------------ *)
(* the run of execNetworkSimplex                                                                     *)
(* ------------------------------------------------------------------------------------------------ *)
Lemma exec_capped_shape : forall p g g' b,
  ns_wf g -> acyclic g -> exec_network_simplex_capped p g = Ok (g', b) ->
  exists g2 ll2, ns_inv g2 ll2 /\ cut_ok g2 ll2 /\ ns_frame g g2 /\
    (b = false -> neg_cut_tree_edge g2 = None \/ stuck g2 ll2) /\
    (if ns_balance p =? 1 then g' = vbalance (normalize g2)
     else if ns_balance p =? 2 then exists gh, hbalance (normalize g2) ll2 = Ok gh /\ g' = normalize gh
     else g' = normalize g2).
Proof.
  intros p g g' b W Hac H. unfold exec_network_simplex_capped in H.
  destruct (feasible_tree g) as [[g1 ll1]|err] eqn:Eft; cbn [bind] in H; [|discriminate].
  destruct (feasible_tree_inv_cut g g1 ll1 W Hac Eft) as (I1 & C1 & F1).
  match type of H with context [pivot_loop ?fu ?i ?mx g1 ll1] =>
    destruct (pivot_loop fu i mx g1 ll1) as [[[g2 ll2] cap]|err] eqn:Epl end;
    cbn [bind] in H; [|discriminate].
  destruct (pivot_loop_inv_cut _ _ _ _ _ _ _ _ I1 C1 Epl) as (I2 & C2 & F2 & Hb).
  exists g2, ll2. split; [exact I2|]. split; [exact C2|]. split; [eapply ns_frame_trans; eassumption|].
  destruct (ns_balance p =? 1) eqn:E1.
  - cbn [bind] in H. inversion H; subst g' b. split; [exact Hb | reflexivity].
  - destruct (ns_balance p =? 2) eqn:E2.
    + destruct (hbalance (normalize g2) ll2) as [gh|err] eqn:Eh; cbn [bind] in H; [|discriminate].
      inversion H; subst g' b. split; [exact Hb|]. exists gh. split; reflexivity.
    + cbn [bind] in H. inversion H; subst g' b. split; [exact Hb | reflexivity].
Qed.

(* C4: with balance = 1 (normalize, then vbalance), unit weights *)
Theorem exec_network_simplex_optimal : forall p g g',
  ns_wf g -> acyclic g -> unit_weights g -> ns_balance p = 1 ->
  exec_network_simplex_capped p g = Ok (g', false) ->
  feasible g' /\ layers_nonneg g' /\ ns_frame g g' /\
  forall lay', feasible_lay lay' g' -> total_length (layer_of g') g' <= total_length lay' g'.
Proof.
  intros p g g' W Hac Hu Hbal H.
  destruct (exec_capped_shape p g g' false W Hac H) as (g2 & ll2 & I2 & C2 & F2 & Hb & Hg').
  rewrite Hbal in Hg'. cbn in Hg'.
  pose proof (unit_weights_frame g g2 F2 Hu) as Hu2.
  assert (Hc : cert_ok g2 = true).
  { destruct (Hb eq_refl) as [Hn|Hst]; [apply (cert_of_inv g2 ll2 I2 C2 Hn)|].
    exfalso. apply (stuck_impossible g2 ll2 C2 (unit_nonneg_weights g2 Hu2) Hst). }
  pose proof (nw_vb _ (ni_wf _ _ I2)) as Wv.
  destruct (postprocess_optimal g2 Wv Hc Hu2) as (P1 & P2 & _ & P4). rewrite <- Hg' in P1, P2, P4.
  split; [exact P1|]. split; [exact P2|]. split; [|exact P4].
  eapply ns_frame_trans; [exact F2|].
  destruct (normalize_layers g2 (vw_nodes _ Wv)) as (L3 & _ & _).
  assert (Hf3 : feasible (normalize g2)).
  { intros e He. rewrite (lay_only_E L3) in He. rewrite (normalize_slack g2 (vw_nodes _ Wv) (vw_edges _ Wv) e He).
    apply (ni_feas _ _ I2). exact He. }
  rewrite Hg'. eapply ns_frame_trans; [apply (ns_frame_lay_only _ _ L3)|].
  apply ns_frame_lay_only. apply (vbalance_lay_only _ (vb_wf_lay_only L3 Wv) Hf3 (normalize_nonneg g2 (vw_nodes _ Wv))).
Qed.
Print Assumptions exec_network_simplex_optimal.

(* ... in the words of the task: the sum over the edges of the number of bands they span is minimal *)
Corollary exec_network_simplex_min_spans : forall p g g',
  ns_wf g -> acyclic g -> unit_weights g -> ns_balance p = 1 ->
  exec_network_simplex_capped p g = Ok (g', false) ->
  (forall e, In e (g_E g') -> span (layer_of g') g' e >= e_delta (gedge g' e)) /\
  forall lay', (forall e, In e (g_E g') -> span lay' g' e >= e_delta (gedge g' e)) ->
  sum_spans (layer_of g') g' <= sum_spans lay' g'.
Proof.
  intros p g g' W Hac Hu Hbal H.
  destruct (exec_network_simplex_optimal p g g' W Hac Hu Hbal H) as (Hf & _ & F & Hopt).
  pose proof (unit_weights_frame g g' F Hu) as Hu'. split.
  - intros e He. specialize (Hf e He). unfold slack in Hf. cbv zeta in Hf. unfold span. lia.
  - intros lay' Hl. rewrite <- !(total_length_unit g' _ Hu'). apply Hopt. exact Hl.
Qed.

Corollary exec_network_simplex_min_spans_delta1 : forall p g g',
  ns_wf g -> acyclic g -> unit_weights g -> unit_deltas g -> ns_balance p = 1 ->
  exec_network_simplex_capped p g = Ok (g', false) ->
  (forall e, In e (g_E g') -> span (layer_of g') g' e >= 1) /\
  forall lay', (forall e, In e (g_E g') -> span lay' g' e >= 1) ->
  sum_spans (layer_of g') g' <= sum_spans lay' g'.
Proof.
  intros p g g' W Hac Hu Hd Hbal H.
  destruct (exec_network_simplex_min_spans p g g' W Hac Hu Hbal H) as [A B].
  destruct (exec_network_simplex_optimal p g g' W Hac Hu Hbal H) as (_ & _ & F & _).
  pose proof (unit_deltas_frame g g' F Hd) as Hd'. split.
  - intros e He. rewrite <- (Hd' e He). apply A. exact He.
  - intros lay' Hl. apply B. intros e He. rewrite (Hd' e He). apply Hl. exact He.
Qed.
Print Assumptions exec_network_simplex_min_spans_delta1.

(* the same, measured on the input graph g itself: the layering returned is a best layering OF g *)
Lemma total_length_frame : forall g g' lay, ns_frame g g' -> total_length lay g' = total_length lay g.
Proof.
  intros g g' lay F. rewrite !total_length_sumf, (nf_E _ _ F). apply sumf_ext. intros e _.
  destruct (nf_edge _ _ F e) as (P1 & P2 & _ & P4 & _). rewrite P1, P2, P4. reflexivity.
Qed.

Lemma feasible_lay_frame : forall g g' lay, ns_frame g g' -> feasible_lay lay g -> feasible_lay lay g'.
Proof.
  intros g g' lay F H e He. rewrite (nf_E _ _ F) in He.
  destruct (nf_edge _ _ F e) as (P1 & P2 & P3 & _). rewrite P1, P2, P3. apply H. exact He.
Qed.

Corollary exec_network_simplex_optimal_input : forall p g g',
  ns_wf g -> acyclic g -> unit_weights g -> ns_balance p = 1 ->
  exec_network_simplex_capped p g = Ok (g', false) ->
  feasible_lay (layer_of g') g /\
  forall lay', feasible_lay lay' g -> total_length (layer_of g') g <= total_length lay' g.
Proof.
  intros p g g' W Hac Hu Hbal H.
  destruct (exec_network_simplex_optimal p g g' W Hac Hu Hbal H) as (Hf & _ & F & Hopt). split.
  - intros e He. rewrite <- (nf_E _ _ F) in He. specialize (Hf e He). unfold slack in Hf. cbv zeta in Hf.
    destruct (nf_edge _ _ F e) as (P1 & P2 & P3 & _). rewrite <- P1, <- P2, <- P3. lia.
  - intros lay' Hl. rewrite <- !(total_length_frame g g' _ F). apply Hopt. apply (feasible_lay_frame g g' lay' F Hl).
Qed.
Print Assumptions exec_network_simplex_optimal_input.

(* without balancing (balance neither 1 nor 2): any non-negative weights *)
Theorem exec_network_simplex_optimal_nobalance : forall p g g',
  ns_wf g -> acyclic g -> nonneg_weights g -> ns_balance p <> 1 -> ns_balance p <> 2 ->
  exec_network_simplex_capped p g = Ok (g', false) ->
  cert_ok g' = true /\
  forall lay', feasible_lay lay' g' -> total_length (layer_of g') g' <= total_length lay' g'.
Proof.
  intros p g g' W Hac Hw Hb1 Hb2 H.
  destruct (exec_capped_shape p g g' false W Hac H) as (g2 & ll2 & I2 & C2 & F2 & Hb & Hg').
  apply Z.eqb_neq in Hb1, Hb2. rewrite Hb1, Hb2 in Hg'. subst g'.
  assert (Hc : cert_ok g2 = true).
  { destruct (Hb eq_refl) as [Hn|Hst]; [apply (cert_of_inv g2 ll2 I2 C2 Hn)|].
    exfalso. apply (stuck_impossible g2 ll2 C2 (nonneg_weights_frame g g2 F2 Hw) Hst). }
  pose proof (vw_nodes _ (nw_vb _ (ni_wf _ _ I2))) as Wn.
  split; [apply (normalize_cert_ok g2 Wn Hc) | apply (normalize_optimal g2 Wn Hc)].
Qed.
Print Assumptions exec_network_simplex_optimal_nobalance.

(* ------------------------------------------------------------------------------------------------ *)
(* the used layers form an interval                                                                  *)
(* ------------------------------------------------------------------------------------------------ *)
Definition tight_tree_edges (g : graph) : Prop :=
  forall e, In e (g_E g) -> e_tree (gedge g e) = true -> slack g e = 0.

Lemma tconn_layers : forall g ok a b,
  edges_in g -> unit_deltas g -> tight_tree_edges g -> In a (g_N g) -> tconn g ok a b ->
  In b (g_N g) /\
  forall k, Z.min (layer_of g a) (layer_of g b) <= k <= Z.max (layer_of g a) (layer_of g b) ->
            exists n, In n (g_N g) /\ layer_of g n = k.
Proof.
  intros g ok a b Ein Hd Ht Ha Hc. induction Hc as [a|a b c e Hab IH He Hte Hok Hj].
  - split; [exact Ha|]. intros k Hk. exists a. split; [exact Ha | lia].
  - destruct (IH Ha) as [Hb IHk]. destruct (Ein e He) as [HfN HtN].
    pose proof (Ht e He Hte) as Hs. unfold slack in Hs. cbv zeta in Hs. rewrite (Hd e He) in Hs.
    assert (HcN : In c (g_N g)) by (destruct Hj as [[J1 J2]|[J1 J2]]; congruence).
    assert (Hstep : layer_of g c = layer_of g b + 1 \/ layer_of g c = layer_of g b - 1).
    { destruct Hj as [[J1 J2]|[J1 J2]]; rewrite J1, J2 in Hs; lia. }
    split; [exact HcN|]. intros k Hk.
    destruct (Z.eq_dec k (layer_of g c)) as [->|Hne]; [exists c; split; [exact HcN | reflexivity]|].
    apply IHk. lia.
Qed.

Theorem layers_contiguous : forall g,
  edges_in g -> spanning_tree g -> tight_tree_edges g -> unit_deltas g ->
  (exists n, In n (g_N g) /\ layer_of g n = 0) ->
  forall k, 0 <= k <= vb_lmax g -> exists n, In n (g_N g) /\ layer_of g n = k.
Proof.
  intros g Ein [Hconn _] Ht Hd [n0 [Hn0 Hl0]] k Hk.
  destruct (fold_max_spec (layer_of g) (g_N g) 0) as (_ & _ & A3). cbv zeta in A3. fold (vb_lmax g) in A3.
  destruct A3 as [A3|[m [Hm A3]]].
  - exists n0. split; [exact Hn0 | lia].
  - assert (Hc : tconn g all_ok n0 m).
    { eapply tconn_trans; [apply tconn_sym; apply Hconn; exact Hn0 | apply Hconn; exact Hm]. }
    destruct (tconn_layers g all_ok n0 m Ein Hd Ht Hn0 Hc) as [_ Hall]. apply Hall. lia.
Qed.
Print Assumptions layers_contiguous.

(* the state after the pivot loop, normalised: every layer 0..max is used *)
Lemma normalize_full : forall g ll, ns_inv g ll -> unit_deltas g ->
  forall k, 0 <= k <= vb_lmax (normalize g) -> exists n, In n (g_N (normalize g)) /\ layer_of (normalize g) n = k.
Proof.
  intros g ll [W S Hf Ht Hll] Hd.
  pose proof (nw_vb _ W) as [Wn Ein A].
  destruct (normalize_layers g Wn) as (L & _ & _).
  assert (Hne : g_N g <> []).
  { intros E. unfold set_stree_values in Hll. rewrite E in Hll. discriminate. }
  apply layers_contiguous.
  - apply (edges_in_lay_only L Ein).
  - apply (spanning_tree_lay_only g _ L S).
  - intros e He Hte. rewrite (lay_only_E L) in He. rewrite (lay_only_gedge L e) in Hte.
    rewrite (normalize_slack g Wn Ein e He). apply Ht; assumption.
  - intros e He. rewrite (lay_only_E L) in He. rewrite (lay_only_gedge L e). apply Hd. exact He.
  - destruct (normalize_min_zero g Wn Hne) as [_ H0]. exact H0.
Qed.

(* C4, last part: no band of the result is empty (whether or not the pivot loop was capped) *)
Theorem exec_network_simplex_no_empty_band : forall p g g' b g'',
  ns_wf g -> acyclic g -> unit_deltas g -> ns_balance p <> 2 ->
  exec_network_simplex_capped p g = Ok (g', b) ->
  init_layer_slices g' = Ok g'' ->
  forall i, (i < length (g_L g''))%nat -> l_nodes (glayer g'' i) <> [].
Proof.
  intros p g g' b g'' W Hac Hd Hb2 H Hsl.
  destruct (exec_capped_shape p g g' b W Hac H) as (g2 & ll2 & I2 & C2 & F2 & _ & Hg').
  pose proof (unit_deltas_frame g g2 F2 Hd) as Hd2.
  pose proof (normalize_full g2 ll2 I2 Hd2) as Hfull.
  pose proof (nw_vb _ (ni_wf _ _ I2)) as Wv. pose proof Wv as [Wn Ein A].
  destruct (normalize_layers g2 Wn) as (L3 & _ & _).
  destruct (ns_balance p =? 1) eqn:E1.
  - subst g'.
    assert (Hf3 : feasible (normalize g2)).
    { intros e He. rewrite (lay_only_E L3) in He. rewrite (normalize_slack g2 Wn Ein e He).
      apply (ni_feas _ _ I2). exact He. }
    destruct (vbalance_no_empty_band (normalize g2) g'' (vb_wf_lay_only L3 Wv) Hf3 (normalize_nonneg g2 Wn) Hfull Hsl)
      as [_ Hne]. exact Hne.
  - apply Z.eqb_neq in Hb2. rewrite Hb2 in Hg'. subst g'.
    apply (slices_no_empty_band (normalize g2) g'' Hsl Hfull).
Qed.
Print Assumptions exec_network_simplex_no_empty_band.

(* the same at the level of phase 2 (a component with a single node skips network simplex) *)
Corollary phase2_ns_no_empty_band : forall p g g'',
  ns_wf g -> acyclic g -> unit_deltas g -> ns_balance p <> 2 -> length (g_N g) <> 1%nat ->
  phase2 NetworkSimplex p g = Ok g'' ->
  forall i, (i < length (g_L g''))%nat -> l_nodes (glayer g'' i) <> [].
Proof.
  intros p g g'' W Hac Hd Hb2 Hlen H. unfold phase2, assign_layers in H.
  apply Nat.eqb_neq in Hlen. rewrite Hlen in H. unfold exec_network_simplex in H.
  destruct (exec_network_simplex_capped p g) as [[g' b]|err] eqn:Ex; cbn [bind fst] in H; [|discriminate].
  apply (exec_network_simplex_no_empty_band p g g' b g'' W Hac Hd Hb2 Ex H).
Qed.

(* ------------------------------------------------------------------------------------------------ *)
(* Examples                                                                                          *)
(* ------------------------------------------------------------------------------------------------ *)
Definition unit_deltasb (g : graph) : bool := forallb (fun e => e_delta (gedge g e) =? 1) (g_E g).

Lemma unit_weightsb_ok : forall g, unit_weightsb g = true -> unit_weights g.
Proof. intros g H e He. unfold unit_weightsb in H. rewrite forallb_forall in H. apply Z.eqb_eq. apply H. exact He. Qed.

Lemma unit_deltasb_ok : forall g, unit_deltasb g = true -> unit_deltas g.
Proof. intros g H e He. unfold unit_deltasb in H. rewrite forallb_forall in H. apply Z.eqb_eq. apply H. exact He. Qed.

Example ex2_unit : unit_weightsb (pop_graph ex_edges2) = true /\ unit_deltasb (pop_graph ex_edges2) = true.
Proof. vm_compute. split; reflexivity. Qed.

Example ex5_unit : unit_weightsb ex5 = true /\ unit_deltasb ex5 = true.
Proof. vm_compute. split; reflexivity. Qed.

(* the run on ex_edges2 is not capped (thoroughness 1 * factor 5 = 5 iterations allowed; it needs fewer) *)
Example ex2_run :
  match exec_network_simplex_capped (mkNsParams 1 5 1) (pop_graph ex_edges2) with
  | Ok (g, capped) => (capped, total_length (layer_of g) g, map (layer_of g) (g_N g))
  | Err _ => (true, -1, [])
  end = (false, 20, [0; 3; 3; 2; 4; 1; 2; 3; 2; 1]).
Proof. vm_compute. reflexivity. Qed.

(* the final theorem applied to it: 20 is the minimum over ALL layerings in which every edge spans >= 1 band *)
Example ex2_optimal : forall g', exec_network_simplex_capped (mkNsParams 1 5 1) (pop_graph ex_edges2) = Ok (g', false) ->
  forall lay', (forall e, In e (g_E g') -> span lay' g' e >= 1) -> sum_spans (layer_of g') g' <= sum_spans lay' g'.
Proof.
  intros g' H. destruct ex_ns_hyps as (H1 & H2 & _). destruct ex2_unit as [U1 U2].
  apply (exec_network_simplex_min_spans_delta1 (mkNsParams 1 5 1) (pop_graph ex_edges2) g'
           (ns_wfb_ok _ H1) (acyclicb_ok ex_rank2 _ H2) (unit_weightsb_ok _ U1) (unit_deltasb_ok _ U2) eq_refl H).
Qed.

(* with a budget of one iteration the same graph is capped, and the result is indeed worse *)
Example ex2_capped :
  match exec_network_simplex_capped (mkNsParams 0 1 1) (pop_graph ex_edges2) with
  | Ok (g, capped) => (capped, total_length (layer_of g) g)
  | Err _ => (false, -1)
  end = (true, 22).
Proof. vm_compute. reflexivity. Qed.

Example ex5_optimal : forall g', exec_network_simplex_capped (mkNsParams 1 5 1) ex5 = Ok (g', false) ->
  forall lay', feasible_lay lay' g' -> total_length (layer_of g') g' <= total_length lay' g'.
Proof.
  intros g' H. destruct ex5_wf as (H1 & H2). destruct ex5_unit as [U1 _].
  apply (exec_network_simplex_optimal (mkNsParams 1 5 1) ex5 g'
           (ns_wfb_ok _ H1) (acyclicb_ok _ _ H2) (unit_weightsb_ok _ U1) eq_refl H).
Qed.

Example ex2_no_empty_band : forall g' b g'',
  exec_network_simplex_capped (mkNsParams 1 5 1) (pop_graph ex_edges2) = Ok (g', b) ->
  init_layer_slices g' = Ok g'' ->
  forall i, (i < length (g_L g''))%nat -> l_nodes (glayer g'' i) <> [].
Proof.
  intros g' b g'' H Hs. destruct ex_ns_hyps as (H1 & H2 & _). destruct ex2_unit as [_ U2].
  apply (exec_network_simplex_no_empty_band (mkNsParams 1 5 1) (pop_graph ex_edges2) g' b g''
           (ns_wfb_ok _ H1) (acyclicb_ok ex_rank2 _ H2) (unit_deltasb_ok _ U2)); [cbn; discriminate | exact H | exact Hs].
Qed.

Example ex2_bands :
  match exec_network_simplex_capped (mkNsParams 1 5 1) (pop_graph ex_edges2) with
  | Ok (g, _) => match init_layer_slices g with Ok g'' => map l_nodes (g_L g'') | Err _ => [] end
  | Err _ => []
  end = [[0]; [5; 9]; [3; 6; 8]; [1; 2; 7]; [4]]%nat.
Proof. vm_compute. reflexivity. Qed.
