(* NSOptHbalance.v — optimality also survives the balancing of the positioner (ns_balance = 2).
   [hbalance] moves one component of (tree - e) only when the cut value of e is 0.  Moving the subtree c below
   the edge e by delta changes the total length by  -delta * (W(into c) - W(out of c)) = -+ delta * cutval(e) = 0
   ([shifted_total_length], [link_shift_sum]).  Hence the total length is unchanged ([hbalance_total_length]),
   and an un-capped run with balance = 2 is optimal as well ([exec_network_simplex_optimal_hbalance]). *)
From Autog Require Import Base Graph Populate Phase2 Optimality OptNormalize OptVbalance OptFeasible OptInit
  OptPipeline NSDefs NSFeasLoop NSTree NSLimLow NSComp NSPivot NSTotal NSHbalance NSOptCut NSOptDiv NSOptFinal.

(* ------------------------------------------------------------------------------------------------ *)
(* the total length after moving a set of nodes                                                      *)
(* ------------------------------------------------------------------------------------------------ *)
Lemma shifted_total_length : forall S delta g g', shifted_by S delta g g' ->
  total_length (layer_of g') g' = total_length (layer_of g) g
    - delta * sumf (fun x => e_weight (gedge g x) *
                             (ind (S (e_to (gedge g x))) - ind (S (e_from (gedge g x))))) (g_E g).
Proof.
  intros S delta g g' [L Hl]. rewrite (total_length_lay_only (layer_of g') L). rewrite !total_length_sumf.
  rewrite (sumf_ext (fun e => e_weight (gedge g e) * (layer_of g' (e_to (gedge g e)) - layer_of g' (e_from (gedge g e))))
     (fun e => e_weight (gedge g e) * (layer_of g (e_to (gedge g e)) - layer_of g (e_from (gedge g e)))
               + (- delta) * (e_weight (gedge g e) * (ind (S (e_to (gedge g e))) - ind (S (e_from (gedge g e))))))
     (g_E g)).
  - rewrite sumf_add, sumf_scale. lia.
  - intros e _. rewrite !Hl. unfold ind.
    destruct (S (e_to (gedge g e))); destruct (S (e_from (gedge g e))); ring.
Qed.

(* cut values do not depend on the layers *)
Lemma cutval_lay_only : forall g g' ll e, lay_only g g' -> cutval g' ll e = cutval g ll e.
Proof.
  intros g g' ll e (Eea & _ & EE & _). unfold cutval, cv_step, in_head_component, gedge. rewrite Eea, EE. reflexivity.
Qed.

Lemma cut_ok_lay_only : forall g g' ll, lay_only g g' -> cut_ok g ll -> cut_ok g' ll.
Proof.
  intros g g' ll L C e He Ht. rewrite (lay_only_E L) in He. rewrite (lay_only_gedge L e) in Ht |- *.
  rewrite (cutval_lay_only g g' ll e L). apply C; assumption.
Qed.

Section LinkShift.
  Variables (g : graph) (ll : limlow) (t : rtree).
  Hypothesis W : ns_wf g.
  Hypothesis S : spanning_tree g.
  Hypothesis Hll : set_stree_values g = Ok ll.
  Hypothesis St : stree_of g ll t.

  (* net weight entering the subtree c = +- the cut value of the edge above c *)
  Lemma link_shift_sum : forall p c, In (p, c) (rlinks t) ->
    sumf (fun x => e_weight (gedge g x) *
                   (ind (mem_nat (e_to (gedge g x)) (rnodes c)) - ind (mem_nat (e_from (gedge g x)) (rnodes c)))) (g_E g)
    = if Nat.eqb (e_from (gedge g (redge c))) (rroot c) then - cutval g ll (redge c) else cutval g ll (redge c).
  Proof.
    intros p c Hin.
    destruct (link_ends g ll t St p c Hin) as (_ & _ & _ & _ & _ & HeE & Het & _).
    rewrite (cutval_all_edges g ll (redge c) W S Hll HeE Het).
    destruct (Nat.eqb (e_from (gedge g (redge c))) (rroot c)) eqn:Ed.
    - transitivity ((-1) * sumf (cross_w g ll (redge c)) (g_E g)); [|lia]. rewrite <- sumf_scale.
      apply sumf_ext. intros x Hx. destruct (vw_edges _ (nw_vb _ W) x Hx) as [HfN HtN].
      unfold cross_w, hY. rewrite (in_head_spec g ll t St p c _ Hin HfN), (in_head_spec g ll t St p c _ Hin HtN), Ed.
      destruct (mem_nat (e_to (gedge g x)) (rnodes c)); destruct (mem_nat (e_from (gedge g x)) (rnodes c));
        cbn [negb ind]; ring.
    - apply sumf_ext. intros x Hx. destruct (vw_edges _ (nw_vb _ W) x Hx) as [HfN HtN].
      unfold cross_w, hY. rewrite (in_head_spec g ll t St p c _ Hin HfN), (in_head_spec g ll t St p c _ Hin HtN), Ed.
      reflexivity.
  Qed.
End LinkShift.

(* ------------------------------------------------------------------------------------------------ *)
(* one step of hbalance, and the whole of it                                                         *)
(* ------------------------------------------------------------------------------------------------ *)
Lemma hb_step_length : forall ll g e g', hb_inv ll g -> cut_ok g ll -> In e (g_E g) ->
  hb_step ll (Ok g) e = Ok g' ->
  total_length (layer_of g') g' = total_length (layer_of g) g.
Proof.
  intros ll g e g' I C He H. unfold hb_step in H. cbn [bind] in H.
  assert (Hsame : Ok g = Ok g' -> total_length (layer_of g') g' = total_length (layer_of g) g).
  { intros E. inversion E; subst g'. reflexivity. }
  destruct (e_tree (gedge g e)) eqn:Et; cbn [negb] in H; [|apply Hsame; exact H].
  destruct (e_cut (gedge g e) =? 0) eqn:Ec; [|apply Hsame; exact H]. apply Z.eqb_eq in Ec.
  destruct (min_slack_non_tree_edge g ll e) as [f|] eqn:Em; [|apply Hsame; exact H].
  cbv zeta in H. destruct (slack g f <? 1) eqn:Ed; [apply Hsame; exact H|].
  destruct I as [W Sp Hfeas Hll].
  destruct (stree_exists g ll W Sp Hll) as [t St].
  destruct (link_of_tree_edge g ll t St e He Et) as [p [c [Hl Hec]]]. subst e.
  destruct (link_ends g ll t St p c Hl) as (Hpr & _ & _ & _ & _ & _ & _ & Hj).
  pose proof (so_lt _ _ _ St p c Hl) as Hlt.
  assert (Hsub : sub t c) by (right; exists p; exact Hl).
  rewrite (C _ He Et) in Ec.
  assert (Hfin : forall delta, adjust_layers (S (length (g_na g))) ll (rroot c) delta g = Ok g' ->
                   total_length (layer_of g') g' = total_length (layer_of g) g).
  { intros delta Ha.
    pose proof (adjust_layers_spec g ll t W St _ c delta g g' Hsub (lay_only_refl g) Ha) as Sh.
    rewrite (shifted_total_length _ _ _ _ Sh). rewrite (link_shift_sum g ll t W Sp Hll St p c Hl). rewrite Ec.
    destruct (Nat.eqb (e_from (gedge g (redge c))) (rroot c)); lia. }
  destruct (lim_of ll (e_from (gedge g (redge c))) <? lim_of ll (e_to (gedge g (redge c)))) eqn:Elt.
  - apply Z.ltb_lt in Elt.
    assert (J1 : e_from (gedge g (redge c)) = rroot c).
    { destruct Hj as [[J1 J2]|[J1 J2]]; [rewrite J1, J2 in Elt; lia | exact J1]. }
    rewrite J1 in H. apply (Hfin _ H).
  - apply Z.ltb_ge in Elt.
    assert (J2 : e_to (gedge g (redge c)) = rroot c).
    { destruct Hj as [[J1 J2]|[J1 J2]]; [exact J2 | rewrite J1, J2 in Elt; lia]. }
    rewrite J2 in H. apply (Hfin _ H).
Qed.

Lemma hb_fold_length : forall ll l g g', hb_inv ll g -> cut_ok g ll -> incl l (g_E g) ->
  fold_left (hb_step ll) l (Ok g) = Ok g' ->
  total_length (layer_of g') g' = total_length (layer_of g) g.
Proof.
  intros ll l; induction l as [|e l IH]; intros g g' I C Hl H; cbn [fold_left] in H.
  - inversion H; subst g'. reflexivity.
  - destruct (hb_step ll (Ok g) e) as [g1|err] eqn:E1; [|rewrite hb_fold_err in H; discriminate].
    destruct (hb_step_inv ll g e g1 I (Hl e (or_introl eq_refl)) E1) as [I1 L1].
    rewrite (IH g1 g' I1 (cut_ok_lay_only g g1 ll L1 C)); [| |exact H].
    + apply (hb_step_length ll g e g1 I C (Hl e (or_introl eq_refl)) E1).
    + rewrite (lay_only_E L1). intros x Hx. apply Hl. right. exact Hx.
Qed.

Theorem hbalance_total_length : forall g ll g',
  ns_wf g -> spanning_tree g -> feasible g -> set_stree_values g = Ok ll -> cut_ok g ll ->
  hbalance g ll = Ok g' ->
  total_length (layer_of g') g' = total_length (layer_of g) g.
Proof.
  intros g ll g' W S Hf Hll C H. rewrite hbalance_eq in H.
  apply (hb_fold_length ll (g_E g) g g' (mkHbInv ll g W S Hf Hll) C (incl_refl _) H).
Qed.
Print Assumptions hbalance_total_length.

(* ------------------------------------------------------------------------------------------------ *)
(* the final theorem for balance = 2                                                                 *)
(* ------------------------------------------------------------------------------------------------ *)
Lemma feasible_lay_lay_only : forall g g' lay, lay_only g g' -> feasible_lay lay g' -> feasible_lay lay g.
Proof.
  intros g g' lay L H e He. specialize (H e). rewrite (lay_only_E L), (lay_only_gedge L e) in H. apply H. exact He.
Qed.

Theorem exec_network_simplex_optimal_hbalance : forall p g g',
  ns_wf g -> acyclic g -> nonneg_weights g -> ns_balance p = 2 ->
  exec_network_simplex_capped p g = Ok (g', false) ->
  feasible g' /\ layers_nonneg g' /\ ns_frame g g' /\
  forall lay', feasible_lay lay' g' -> total_length (layer_of g') g' <= total_length lay' g'.
Proof.
  intros p g g' W Hac Hw Hbal H.
  assert (H' : exec_network_simplex p g = Ok g') by (unfold exec_network_simplex; rewrite H; reflexivity).
  destruct (exec_network_simplex_feasible_all p g g' W Hac H') as (Hf' & Hnn' & F').
  split; [exact Hf'|]. split; [exact Hnn'|]. split; [exact F'|].
  destruct (exec_capped_shape p g g' false W Hac H) as (g2 & ll2 & I2 & C2 & F2 & Hb & Hg').
  rewrite Hbal in Hg'. cbn in Hg'. destruct Hg' as [gh [Eh Eg']].
  assert (Hc : cert_ok g2 = true).
  { destruct (Hb eq_refl) as [Hn|Hst]; [apply (cert_of_inv g2 ll2 I2 C2 Hn)|].
    exfalso. apply (stuck_impossible g2 ll2 C2 (nonneg_weights_frame g g2 F2 Hw) Hst). }
  destruct I2 as [W2 S2 Hf2 _ Hll2]. pose proof W2 as [[Wn2 Ein2 A2] _ _].
  destruct (normalize_layers g2 Wn2) as (L3 & _ & _).
  assert (Hf3 : feasible (normalize g2)).
  { intros e He. rewrite (lay_only_E L3) in He. rewrite (normalize_slack g2 Wn2 Ein2 e He). apply Hf2. exact He. }
  pose proof (hb_inv_lay_only ll2 g2 (normalize g2) L3 Hf3 (mkHbInv ll2 g2 W2 S2 Hf2 Hll2)) as [W3 S3 _ Hll3].
  pose proof (cut_ok_lay_only g2 (normalize g2) ll2 L3 C2) as C3.
  destruct (hbalance_feasible (normalize g2) ll2 gh W3 S3 Hf3 Hll3 Eh) as [Hf4 L4].
  pose proof (hbalance_total_length (normalize g2) ll2 gh W3 S3 Hf3 Hll3 C3 Eh) as Hlen4.
  pose proof (ns_wf_lay_only L4 W3) as [[Wn4 Ein4 A4] _ _].
  destruct (normalize_layers gh Wn4) as (L5 & _ & _).
  intros lay' Hlay'. subst g'.
  rewrite (normalize_total_length gh Wn4 Ein4), Hlen4.
  assert (L35 : lay_only (normalize g2) (normalize gh)) by (eapply lay_only_trans; eassumption).
  rewrite (total_length_lay_only lay' L35).
  apply (normalize_optimal g2 Wn2 Hc). apply (feasible_lay_lay_only _ _ lay' L35 Hlay').
Qed.
Print Assumptions exec_network_simplex_optimal_hbalance.

(* for every value of ns_balance, with unit weights *)
Theorem exec_network_simplex_optimal_all : forall p g g',
  ns_wf g -> acyclic g -> unit_weights g ->
  exec_network_simplex_capped p g = Ok (g', false) ->
  forall lay', feasible_lay lay' g' -> total_length (layer_of g') g' <= total_length lay' g'.
Proof.
  intros p g g' W Hac Hu H.
  destruct (Z.eq_dec (ns_balance p) 1) as [E1|E1].
  - apply (exec_network_simplex_optimal p g g' W Hac Hu E1 H).
  - destruct (Z.eq_dec (ns_balance p) 2) as [E2|E2].
    + apply (exec_network_simplex_optimal_hbalance p g g' W Hac (unit_nonneg_weights g Hu) E2 H).
    + apply (exec_network_simplex_optimal_nobalance p g g' W Hac (unit_nonneg_weights g Hu) E1 E2 H).
Qed.
Print Assumptions exec_network_simplex_optimal_all.

(* ------------------------------------------------------------------------------------------------ *)
(* Examples                                                                                          *)
(* ------------------------------------------------------------------------------------------------ *)
Example ex2_hbalance_optimal_run :
  match exec_network_simplex_capped (mkNsParams 1 10 2) (pop_graph ex_edges2) with
  | Ok (g, capped) => (capped, total_length (layer_of g) g, map (layer_of g) (g_N g))
  | Err _ => (true, -1, [])
  end = (false, 20, [0; 3; 3; 3; 4; 1; 2; 3; 2; 1]).   (* node 3 moved from layer 2 to 3; still 20 *)
Proof. vm_compute. reflexivity. Qed.

Example ex2_hbalance_optimal : forall g',
  exec_network_simplex_capped (mkNsParams 1 10 2) (pop_graph ex_edges2) = Ok (g', false) ->
  forall lay', feasible_lay lay' g' -> total_length (layer_of g') g' <= total_length lay' g'.
Proof.
  intros g' H. destruct ex_ns_hyps as (H1 & H2 & _). destruct ex2_unit as [U1 _].
  apply (exec_network_simplex_optimal_all (mkNsParams 1 10 2) (pop_graph ex_edges2) g'
           (ns_wfb_ok _ H1) (acyclicb_ok ex_rank2 _ H2) (unit_weightsb_ok _ U1) H).
Qed.
