(* NSPModelChange.v — the model follows the repaired Go library:

     phase2.Alg.Process       = AssignLayers ; build g.Layers      (Model/Phase2.v: [phase2] = [assign_layers] ; [init_layer_slices])
     NetworkSimplex positioner calls phase2.NetworkSimplex.AssignLayers on its auxiliary graph
                                                                  (Model/Phase4.v: [exec_ns_positioner] calls [assign_layers])

   This file states the OLD positioner ([exec_ns_positioner_old], which ran the whole of [phase2] on the auxiliary
   graph and so built one layer per unit of x) and proves that the change is invisible in the result:

   S1  bridges: [phase2_eq_assign_slices], [init_layer_slices_layer_of], [phase2_ok_assign_layers],
       [assign_layers_ok_phase2] (the converse, when the layers are non-negative)
   S2  [ns_finish_layer_ext]: the positioner reads the auxiliary graph only through [layer_of]
   S3  [exec_ns_positioner_unchanged]: whenever the old definition returned [Ok g'], the new one returns the same [Ok g'];
       [exec_ns_positioner_old_err]: the old one failed exactly when the new one fails, or with the index panic of
       the slice construction; [phase4_ns_unchanged]: the same for phase 4 as a whole
   S4  examples (vm_compute): [sx_g] of SinkColoringProofs.v / NSPositioner.v and the ordered component of [wc_g]
       (NSPositioner.v S8): same coordinates as before. *)
From Autog Require Import Base Graph Phase2 Phase4 Positioners SinkColoringProofs NSPositioner.
From Coq Require Import Lia.
Local Open Scope nat_scope.

(* the positioner as it was modelled before the change *)
Definition exec_ns_positioner_old (thoroughness factor : Z) (spacing : Q) (g : graph) : res graph :=
  let a := aux_graph factor spacing g in
  do a <- phase2 NetworkSimplex (mkNsParams thoroughness (Z.of_nat (length (g_N g))) 2) a;
  let idx n := match index_of n (g_N g) with Some i => i | None => 0%nat end in
  let g := with_L g (map (fun l => set_layer_h (layer_height g (l_nodes l) (l_h l)) l) (g_L g)) in
  let xs := flat_map l_nodes (g_L g) in
  let g := fold_left (fun g n => upd_node g n (set_x (inQ (layer_of a (idx n)) - nW g n / 2))) xs g in
  match xs with
  | [] => Ok g
  | n0 :: _ =>
      let lbound := fold_left (fun m n => Qmin' m (nX g n)) xs (nX g n0) in
      Ok (fold_left (fun g n => upd_node g n (fun nd => set_x (n_x nd - lbound) nd)) (g_N g) g)
  end.

Definition phase4_old (alg : p4alg) (p : p4params) (g : graph) : res graph :=
  if Nat.eqb (length (g_N g)) 1 then
    match g_N g with
    | n :: _ => Ok (upd_layer g 0 (set_layer_wh (nW g n) (nH g n)))
    | [] => Ok g
    end
  else
    do g <- match alg with
            | VAlign => Ok (exec_valign (node_spacing p) g)
            | PackRight => Ok (exec_pack_right (node_spacing p) g)
            | SinkColoring => exec_sink_coloring (node_spacing p) g
            | NsPositioner => exec_ns_positioner_old (p4_thoroughness p) (p4_factor p) (node_spacing p) g
            | OtherPositioner => Ok g
            end;
    Ok (assign_y (layer_spacing p) g).

(* ====================================================================================== *)
(** * 1. bridges between [phase2] and [assign_layers]                                       *)
(* ====================================================================================== *)

Lemma phase2_eq_assign_slices : forall alg p g,
  phase2 alg p g = (do a <- assign_layers alg p g; init_layer_slices a).
Proof. reflexivity. Qed.

(* [phase2] computes exactly what it computed before the split *)
Lemma phase2_same_as_before : forall alg p g,
  phase2 alg p g =
  (do g <- (if Nat.eqb (length (g_N g)) 1 then Ok g else
            match alg with
            | LongestPath => exec_longest_path g
            | NetworkSimplex => exec_network_simplex p g
            end);
   init_layer_slices g).
Proof. reflexivity. Qed.

(* building the layer slices does not change the layer numbers *)
Lemma init_layer_slices_layer_of : forall g g', init_layer_slices g = Ok g' -> forall n, layer_of g' n = layer_of g n.
Proof. intros g g' H n. exact (init_layer_slices_layer g g' n H). Qed.

Lemma phase2_ok_assign_layers : forall alg p g g',
  phase2 alg p g = Ok g' ->
  exists a, assign_layers alg p g = Ok a /\ init_layer_slices a = Ok g' /\ forall n, layer_of g' n = layer_of a n.
Proof.
  intros alg p g g' H. rewrite phase2_eq_assign_slices in H.
  destruct (assign_layers alg p g) as [a|e]; cbn [bind] in H; [|discriminate].
  exists a. split; [reflexivity|]. split; [exact H|]. exact (init_layer_slices_layer_of a g' H).
Qed.

Lemma phase2_err_assign_layers : forall alg p g e,
  assign_layers alg p g = Err e -> phase2 alg p g = Err e.
Proof. intros alg p g e H. rewrite phase2_eq_assign_slices, H. reflexivity. Qed.

(* the only way in which [phase2] can fail after [assign_layers] succeeded is the index panic of a negative layer *)
Lemma init_layer_slices_cases : forall g,
  (exists g', init_layer_slices g = Ok g') \/ init_layer_slices g = Err (ErrIndex 28).
Proof.
  intros g. unfold init_layer_slices. cbv zeta.
  destruct (existsb (fun n => (layer_of g n <? 0)%Z) (g_N g)); [right; reflexivity|left; eexists; reflexivity].
Qed.

Lemma assign_layers_ok_phase2 : forall alg p g a,
  assign_layers alg p g = Ok a -> (forall n, In n (g_N a) -> (0 <= layer_of a n)%Z) ->
  exists g', phase2 alg p g = Ok g' /\ forall n, layer_of g' n = layer_of a n.
Proof.
  intros alg p g a H Hnn. rewrite phase2_eq_assign_slices, H. cbn [bind].
  unfold init_layer_slices. cbv zeta.
  destruct (existsb (fun n => (layer_of a n <? 0)%Z) (g_N a)) eqn:E.
  - exfalso. apply existsb_exists in E. destruct E as (n & Hn & Hlt). apply Z.ltb_lt in Hlt.
    specialize (Hnn n Hn). lia.
  - eexists. split; [reflexivity|]. intros n. reflexivity.
Qed.

(* ====================================================================================== *)
(** * 2. the positioner reads the auxiliary graph only through its layer numbers            *)
(* ====================================================================================== *)

Lemma fold_left_ext_pw : forall (St X : Type) (F G : St -> X -> St),
  (forall st x, F st x = G st x) -> forall xs st, fold_left F xs st = fold_left G xs st.
Proof.
  intros St X F G H xs; induction xs as [|x t IH]; intros st; cbn [fold_left]; [reflexivity|].
  rewrite H. apply IH.
Qed.

Lemma ns_g1_layer_ext : forall g a a',
  (forall n, layer_of a n = layer_of a' n) -> ns_g1 g a = ns_g1 g a'.
Proof.
  intros g a a' H. unfold ns_g1. apply fold_left_ext_pw. intros st n. rewrite H. reflexivity.
Qed.

Lemma ns_finish_layer_ext : forall g a a',
  (forall n, layer_of a n = layer_of a' n) -> ns_finish g a = ns_finish g a'.
Proof.
  intros g a a' H. unfold ns_finish, ns_lbound. rewrite (ns_g1_layer_ext g a a' H). reflexivity.
Qed.

(* the old positioner in the same normal form as [exec_ns_positioner_eq] *)
Lemma exec_ns_positioner_old_eq : forall th f s g,
  exec_ns_positioner_old th f s g =
  (do a <- phase2 NetworkSimplex (ns_params th g) (aux_graph f s g); Ok (ns_finish g a)).
Proof.
  intros th f s g. unfold exec_ns_positioner_old, ns_params.
  destruct (phase2 NetworkSimplex _ (aux_graph f s g)) as [a|e]; cbn [bind]; [|reflexivity].
  unfold ns_finish, ns_lbound, ns_g1, ns_xs, ns_g0, ns_idx, shift_x. cbv zeta.
  destruct (flat_map l_nodes (g_L (with_L g (map (fun l => set_layer_h (layer_height g (l_nodes l) (l_h l)) l) (g_L g)))))
    as [|n0 t]; reflexivity.
Qed.

(* ====================================================================================== *)
(** * 3. the result of the positioner is unchanged                                          *)
(* ====================================================================================== *)

Theorem exec_ns_positioner_unchanged : forall th f s g g',
  exec_ns_positioner_old th f s g = Ok g' -> exec_ns_positioner th f s g = Ok g'.
Proof.
  intros th f s g g' H. rewrite exec_ns_positioner_old_eq in H. rewrite exec_ns_positioner_eq.
  destruct (phase2 NetworkSimplex (ns_params th g) (aux_graph f s g)) as [a2|e] eqn:E2; cbn [bind] in H; [|discriminate].
  destruct (phase2_ok_assign_layers _ _ _ _ E2) as (a & Ea & _ & Hl).
  rewrite Ea. cbn [bind]. rewrite <- H. f_equal. apply ns_finish_layer_ext. intros n. symmetry. apply Hl.
Qed.
Print Assumptions exec_ns_positioner_unchanged.

(* in the other direction: the new positioner succeeds at least as often; the old one could additionally fail only
   with the index panic of the layer-slice construction (and, in Go and under vm_compute, by exhausting the memory) *)
Theorem exec_ns_positioner_old_cases : forall th f s g,
  exec_ns_positioner_old th f s g = exec_ns_positioner th f s g \/
  (exec_ns_positioner_old th f s g = Err (ErrIndex 28) /\ exists g', exec_ns_positioner th f s g = Ok g').
Proof.
  intros th f s g. rewrite exec_ns_positioner_old_eq, exec_ns_positioner_eq, phase2_eq_assign_slices.
  destruct (assign_layers NetworkSimplex (ns_params th g) (aux_graph f s g)) as [a|e]; cbn [bind]; [|left; reflexivity].
  destruct (init_layer_slices_cases a) as [[a2 E]|E]; rewrite E; cbn [bind].
  - left. f_equal. apply ns_finish_layer_ext. exact (init_layer_slices_layer_of a a2 E).
  - right. split; [reflexivity|]. eexists. reflexivity.
Qed.
Print Assumptions exec_ns_positioner_old_cases.

Theorem phase4_unchanged : forall alg p g g',
  phase4_old alg p g = Ok g' -> phase4 alg p g = Ok g'.
Proof.
  intros alg p g g' H. unfold phase4_old in H. unfold phase4.
  destruct (Nat.eqb (length (g_N g)) 1); [exact H|].
  destruct alg; try exact H.
  destruct (exec_ns_positioner_old (p4_thoroughness p) (p4_factor p) (node_spacing p) g) as [g1|e] eqn:E;
    cbn [bind] in H; [|discriminate].
  rewrite (exec_ns_positioner_unchanged _ _ _ _ _ E). exact H.
Qed.
Print Assumptions phase4_unchanged.

(* ====================================================================================== *)
(** * 4. examples                                                                           *)
(* ====================================================================================== *)

(* sx_g: two bands of two nodes (SinkColoringProofs.v S9, NSPositioner.v S6) *)
Example sx_old_runs : sx_show (exec_ns_positioner_old 1 1 5 sx_g) = Some ([15; 38; 0; 45], [6; 8])%Q.
Proof. vm_compute. reflexivity. Qed.

Example sx_new_runs : sx_show (exec_ns_positioner 1 1 5 sx_g) = Some ([15; 38; 0; 45], [6; 8])%Q.
Proof. vm_compute. reflexivity. Qed.

Example sx_same : exec_ns_positioner 1 1 5 sx_g = exec_ns_positioner_old 1 1 5 sx_g.
Proof. vm_compute. reflexivity. Qed.

(* the hypothesis of [exec_ns_positioner_unchanged] is satisfiable, and the theorem gives the new run *)
Example sx_unchanged_applies : exists g',
  exec_ns_positioner_old 1 1 5 sx_g = Ok g' /\ exec_ns_positioner 1 1 5 sx_g = Ok g'.
Proof.
  destruct (exec_ns_positioner_old 1 1 5 sx_g) as [g'|e] eqn:E.
  - exists g'. split; [reflexivity|]. exact (exec_ns_positioner_unchanged 1 1 5 sx_g g' E).
  - exfalso. vm_compute in E. discriminate.
Qed.

(* the old model built 29 layer slices on the auxiliary graph of sx_g (x runs from 0 to 28); the new one builds none *)
Example sx_old_slices :
  match phase2 NetworkSimplex (ns_params 1 sx_g) (aux_graph 1 5 sx_g),
        assign_layers NetworkSimplex (ns_params 1 sx_g) (aux_graph 1 5 sx_g) with
  | Ok a2, Ok a => Some (length (g_L a2), length (g_L a))
  | _, _ => None
  end = Some (29, 0).
Proof. vm_compute. reflexivity. Qed.

(* wc_g (WholeCrossings.v; laid out with the NetworkSimplex positioner in NSPositioner.v S8): the ordered component
   that reaches phase 4 *)
From Autog Require Import Populate Phase1 Phase3 Layout Wmedian Pipeline WholeCrossings.
Local Open Scope nat_scope.

Definition wc_g3 : graph := Eval vm_compute in
  match (let '(g, del) := ignore_self_loops wc_g in
         do g <- phase1 (o_p1 wc_o4) g;
         do g <- phase2 (o_p2 wc_o4) (Layout.ns_params wc_o4) g;
         do r <- phase3_wmedian wmedian_max_iter g;
         Ok (fst r)) with
  | Ok g => g
  | Err _ => empty_graph
  end.

Example wc_g3_nontrivial : length (g_N wc_g3) = 8 /\ length (g_L wc_g3) = 3.
Proof. vm_compute. split; reflexivity. Qed.

Example wc_same :
  exec_ns_positioner 1 1 5 wc_g3 = exec_ns_positioner_old 1 1 5 wc_g3 /\
  match exec_ns_positioner 1 1 5 wc_g3 with Ok _ => true | Err _ => false end = true.
Proof. split; vm_compute; reflexivity. Qed.

Example wc_phase4_same :
  phase4 NsPositioner (p4_params wc_o4) wc_g3 = phase4_old NsPositioner (p4_params wc_o4) wc_g3 /\
  match phase4 NsPositioner (p4_params wc_o4) wc_g3 with
  | Ok g => Some (map (fun n => Qred (nX g n)) (g_N g))
  | Err _ => None
  end = Some (map (fun n => Qred (nX wc_out4 n)) (g_N wc_out4)).
Proof. split; vm_compute; reflexivity. Qed.
