(* NSPWhole.v — the remaining end-to-end theorems, carried over to the NetworkSimplex POSITIONER.

   [options_ok' o] (Proofs/NSPositioner.v) allows the four size-aware positioners VAlign, PackRight, SinkColoring and
   NsPositioner (and the modelled routers).  This file restates, with [options_ok'] in place of [options_ok]:
     - [W2_crossings'] / [G6_crossings']                  (Proofs/WholeCrossings.v, Final.v);
     - [W4a_layout_output'] / [G7_layout_output']         (Proofs/WholeLayout.v, Final.v) — not asked for, but free;
     - [W4b_layout_separated'] / [G8_layout_separated']   (Proofs/WholeLayout.v, Final.v);
     - [W4c_layout_crossings'] / [G9_layout_crossings']   (Proofs/WholeLayout.v, Final.v).
   The proofs are the originals: what they need from phase 4 is [NSPositioner.bbx_phase4'] (phase 4 only writes x, y
   and the layer heights: positions, layers and the node lists of the layers are kept, so the ORDER of every band is
   the one the ordering phase chose) and, for the separation of the components, [NSPositioner.W3_no_overlap'].
   The tree theorems are in Proofs/NSPWhole2.v. *)
From Autog Require Import Base Graph Populate Phase1 Phase2 Phase3 Phase4 Phase5 Layout Wmedian Pipeline Check.
From Autog.Proofs Require Import ListLemmas Consistent PopulateProofs SizesProofs ComponentsProofs SelfLoopProofs Summary.
From Autog.Proofs Require CBBase CBGreedy CBGreedyRanks CBDepthFirst CBHasCycles CycleBreaking LongestPath
                          OptNormalize OptVbalance OptPipeline CollectProofs.
From Autog.Proofs Require CrossCountProofs WmedianProofs TreeProofs.
From Autog.Proofs Require Import Positioners Routes BreakMerge SinkColoringProofs Shift E2EBridge E2EBackbone E2EOutput E2EFrontend.
From Autog.Proofs Require Import NSBridge WholeBridge WholeCrossings WholeOverlap WholeLayout Final NSPositioner.
From Coq Require Import Permutation Lia Lqa.
Local Open Scope nat_scope.

(* ====================================================================================================== *)
(** * 1. W2 / G6: the reported crossing number, four positioners                                           *)
(* ====================================================================================================== *)

Lemma W2_of_backbone' : forall o g g' x g0 del g1 g2 g3 k g3' cx g4 gm routes g5,
  component_input g -> options_ok' o -> backbone o g g' x g0 del g1 g2 g3 k g3' cx g4 gm routes g5 ->
  W2_statement o g g' x.
Proof.
  intros o g g' x g0 del g1 g2 g3 k g3' cx g4 gm routes g5 CI OK BB.
  pose proof (bbx_layered _ _ _ _ _ _ _ _ _ _ _ _ _ _ _ _ BB) as LY.
  destruct (bbx_contract _ _ _ _ _ _ _ _ _ _ _ _ _ _ _ _ BB) as [OC RC].
  destruct (bbx_phase4' _ _ _ _ _ _ _ _ _ _ _ _ _ _ _ _ BB OK) as (F1 & F2 & F3 & F4 & F5 & F6 & F7).
  pose proof (bbx_out_L _ _ _ _ _ _ _ _ _ _ _ _ _ _ _ _ CI BB) as OL.
  pose proof (bb_e3' _ _ _ _ _ _ _ _ _ _ _ _ _ _ _ _ BB) as WE.
  assert (E0 : g0 = fst (ignore_self_loops g)) by (rewrite (bb_e0 _ _ _ _ _ _ _ _ _ _ _ _ _ _ _ _ BB); reflexivity).
  assert (NP : forall n, n_pos (gnode g' n) = n_pos (gnode g3' n) /\ n_layer (gnode g' n) = n_layer (gnode g3' n)).
  { intros n. destruct (bbx_out_pos _ _ _ _ _ _ _ _ _ _ _ _ _ _ _ _ CI BB n) as [-> ->].
    destruct (set_xy_fields _ _ (F5 n)) as (_ & _ & -> & -> & _). split; reflexivity. }
  assert (LN : forall kk, l_nodes (glayer g' kk) = l_nodes (glayer g3' kk)).
  { intros kk. unfold glayer at 1. rewrite OL. apply F6. }
  assert (D4 : drawing_crossings g4 = drawing_crossings g3').
  { apply drawing_crossings_ext; try assumption. intros n. unfold layer_of, pos_of.
    destruct (set_xy_fields _ _ (F5 n)) as (_ & _ & -> & -> & _). split; reflexivity. }
  exists g1, g2, g3, g3', cx, g4.
  split; [rewrite <- E0; apply (bb_e1 _ _ _ _ _ _ _ _ _ _ _ _ _ _ _ _ BB)|].
  split; [apply (bb_e2 _ _ _ _ _ _ _ _ _ _ _ _ _ _ _ _ BB)|]. split; [apply (bb_e3 _ _ _ _ _ _ _ _ _ _ _ _ _ _ _ _ BB)|].
  split; [exact WE|]. split; [apply (bb_e4 _ _ _ _ _ _ _ _ _ _ _ _ _ _ _ _ BB)|].
  split; [apply (bb_x _ _ _ _ _ _ _ _ _ _ _ _ _ _ _ _ BB)|]. split; [exact RC|].
  split; [rewrite RC; apply TreeProofs.reported_crossings_nonneg|]. split; [exact LY|]. split; [exact OC|].
  split; [exact NP|]. split; [exact LN|]. split; [rewrite OL; exact F7|].
  split.
  { intros kk j Hj. rewrite LN in *. unfold pos_of. destruct (NP (nth j (l_nodes (glayer g3' kk)) 0)) as [-> _].
    apply (WmedianProofs.oc_pos _ _ OC kk j Hj). }
  split; [exact D4|]. split.
  { intros SC. pose proof (simple_g3 _ _ _ _ _ _ _ _ _ _ _ _ _ _ _ _ CI BB SC) as SE.
    destruct (WmedianProofs.exec_wmedian_drawing wmedian_max_iter g3 g3' cx LY SE WE) as [OP DC].
    split; [exact OP|]. split; [exact DC|]. rewrite D4. exact DC. }
  split.
  { intros [FO|FO].
    - destruct (TreeProofs.out_forest_no_crossings wmedian_max_iter g3 g3' cx LY FO WE) as (A & _ & B & _).
      split; [exact A|]. rewrite D4. exact B.
    - destruct (TreeProofs.in_forest_no_crossings wmedian_max_iter g3 g3' cx LY FO WE) as (A & _ & B & _).
      split; [exact A|]. rewrite D4. exact B. }
  split.
  { intros root [T|T].
    - destruct (TreeProofs.rooted_out_tree_no_crossings wmedian_max_iter g3 root g3' cx LY T WE) as [A B].
      split; [exact A|]. rewrite D4. exact B.
    - destruct (TreeProofs.rooted_in_tree_no_crossings wmedian_max_iter g3 root g3' cx LY T WE) as [A B].
      split; [exact A|]. rewrite D4. exact B. }
  intros SP. pose proof (break_long_edges_noop g2 SP) as N. pose proof (bb_e3 _ _ _ _ _ _ _ _ _ _ _ _ _ _ _ _ BB). congruence.
Qed.

Theorem W2_crossings' : forall o g g' x,
  component_input g -> options_ok' o -> ns_premise o g -> layout_component o g = Ok (g', x) -> W2_statement o g g' x.
Proof.
  intros o g g' x CI OK NS H.
  destruct (pipeline_backbone_F' o g g' x CI OK NS H) as (g0 & del & g1 & g2 & g3 & k & g3' & cx & g4 & gm & routes & g5 & BB).
  eapply W2_of_backbone'; eassumption.
Qed.
Print Assumptions W2_crossings'.

Theorem G6_crossings' : forall o g g' x, component_input g -> options_ok' o ->
  layout_component o g = Ok (g', x) -> W2_statement o g g' x.
Proof. intros o g g' x CI OK H. exact (W2_crossings' o g g' x CI OK (ns_premise_holds o g CI) H). Qed.
Print Assumptions G6_crossings'.

(* the short form *)
Corollary W2_reported_is_drawn' : forall o g g' x,
  component_input g -> options_ok' o -> layout_component o g = Ok (g', x) -> simple_component g ->
  exists g3' cx, x = Some cx /\ cx = reported_crossings g3' /\ cx = drawing_crossings g3' /\
    (forall n, n_pos (gnode g' n) = n_pos (gnode g3' n) /\ n_layer (gnode g' n) = n_layer (gnode g3' n)) /\
    (forall kk, l_nodes (glayer g' kk) = l_nodes (glayer g3' kk)).
Proof.
  intros o g g' x CI OK H SC.
  destruct (G6_crossings' o g g' x CI OK H)
    as (g1 & g2 & g3 & g3' & cx & g4 & _ & _ & _ & _ & _ & A & B & _ & _ & _ & C & D & _ & _ & _ & E & _).
  exists g3', cx. destruct (E SC) as (_ & E1 & _). auto.
Qed.

(* the order of every band, read from the x coordinates: with non-negative sizes and spacing, x is strictly increasing
   along every band of the final graph whenever the widths and NodeSpacing are not both zero; in general
   x a + w a + NodeSpacing <= x b for a before b (this is [W3_no_overlap'], recalled here next to W2) *)
Corollary W2_order_from_x' : forall o g g' x,
  component_input g -> options_ok' o -> sizes_nonneg g -> spacing_nonneg o -> layout_component o g = Ok (g', x) ->
  forall kk i j a b, i < j ->
    nth_error (l_nodes (glayer g' kk)) i = Some a -> nth_error (l_nodes (glayer g' kk)) j = Some b ->
    (nX g' a + nW g' a + o_node_spacing o <= nX g' b)%Q /\ (nX g' a <= nX g' b)%Q.
Proof.
  intros o g g' x CI OK SZ SP H kk i j a b Hij Ha Hb.
  destruct (W3_no_overlap' o g g' x CI OK (ns_premise_holds o g CI) SZ SP H) as (NODE & BDS & _ & NOVk & _).
  pose proof (NOVk kk i j a b Hij Ha Hb) as K. split; [exact K|].
  destruct (BDS kk a (nth_error_In _ _ Ha)) as (HaN & _).
  destruct (NODE a HaN) as (_ & _ & _ & W & _). destruct SP as [S0 _]. lra.
Qed.

(* ====================================================================================================== *)
(** * 2. W4 / G7, G8, G9: the whole Layout, four positioners                                               *)
(* ====================================================================================================== *)

Section W4'.
  Variable A : Type.
  Variable eqA : A -> A -> bool.
  Hypothesis OK : forall x y, eqA x y = true <-> x = y.
  Variables (o : options) (fixed : option (Q * Q)) (sizes : option (list (A * (Q * Q)))) (es : list (list A)).
  Variables (ids : list A) (ns : list onode) (oes : list oedge) (xs : list Z).
  Hypothesis OO : options_ok' o.
  Hypothesis NS : ns_premise_layout A eqA o fixed sizes es.
  Hypothesis LAY : layout A eqA o fixed sizes es = Ok (ids, (ns, oes, xs)).

  (* E1 for one component with at least two nodes, from the backbone *)
  Lemma F1_output_graph' : forall g g' x,
    component_input g -> ns_premise o g -> layout_component o g = Ok (g', x) -> E1_statement g g'.
  Proof.
    intros g g' x CI NSg H.
    destruct (pipeline_backbone_F' o g g' x CI OO NSg H) as (g0 & del & g1 & g2 & g3 & k & g3' & cx & g4 & gm & routes & g5 & BB).
    eapply E1_of_backbone; eassumption.
  Qed.

  (* every component the layout processes satisfies E1 *)
  Lemma layout_components_E1' : forall g, populate A eqA es = Ok (ids, g) ->
    forall c c' x, In c (components (apply_sizes A eqA fixed sizes ids g)) -> layout_component o c = Ok (c', x) ->
      E1_statement c c'.
  Proof.
    intros g POP c c' x Hc LC.
    destruct (front_components A eqA OK es ids g fixed sizes POP c Hc) as (FC & _).
    destruct (Nat.le_gt_cases 2 (length (g_N c))) as [TWO|ONE].
    - apply (F1_output_graph' c c' x); [|apply (NS ids g c POP Hc TWO)|exact LC].
      apply (frontend_component_input A eqA OK es ids g fixed sizes POP c Hc TWO).
    - apply (single_E1 o c c' x FC); [|exact LC].
      pose proof (fc_nonempty _ FC). destruct (g_N c) as [|n [|m t]]; cbn in *; [congruence|reflexivity|lia].
  Qed.

  Theorem W4a_layout_output' : o_virtual o = false ->
    NoDup ids /\ (forall x, In x ids <-> exists p, In p es /\ In x p) /\
    Permutation (map on_id ns) (iota 0 (length ids)) /\
    (forall a, In a ns -> exists x, nth_error ids (on_id a) = Some x /\
                                    (on_w a, on_h a) = size_of A eqA fixed sizes x (0, 0)%Q) /\
    Permutation (map (id_pair A ids) oes) es.
  Proof.
    intros OV. destruct (layout_inv A eqA o fixed sizes es ids ns oes xs LAY) as (g & POP & _ & LC).
    pose proof (populate_wf eqA OK es POP) as P.
    destruct (front_g1 A eqA OK es ids g fixed sizes POP) as (C1 & EA1 & N1 & E1 & NA1 & _ & SZ1).
    set (g1 := apply_sizes A eqA fixed sizes ids g) in *.
    destruct (components_partition g1 C1) as (P1 & _ & _ & _ & _ & P6 & P7 & _). cbv zeta in *.
    destruct (layout_components_collected o (components g1) 0 ns oes xs OV (layout_components_E1' g POP) LC) as [CN CE].
    assert (GN : forall c, In c (components g1) -> forall n, gnode c n = gnode g1 n).
    { intros c Hc n. unfold gnode. destruct (P1 c Hc) as (-> & _). reflexivity. }
    assert (GE : forall c, In c (components g1) -> forall e, gedge c e = gedge g e).
    { intros c Hc e. unfold gedge. destruct (P1 c Hc) as (_ & -> & _). rewrite EA1. reflexivity. }
    assert (CN' : map (fun on => (on_id on, on_w on, on_h on)) ns =
                  map (fun n => (n, n_w (gnode g1 n), n_h (gnode g1 n))) (flat_map g_N (components g1))).
    { rewrite CN, <- flat_map_map_outer. apply WholeLayout.flat_map_ext_in. intros c Hc. apply map_ext. intros n.
      rewrite (GN c Hc n). reflexivity. }
    assert (PN : Permutation (flat_map g_N (components g1)) (iota 0 (length ids))).
    { rewrite flat_map_concat_map, <- N1. exact P6. }
    split; [apply (p_nodup P)|]. split.
    { intros x. split; [apply (p_ids_sound P)|]. intros (p & Hp & Hx). apply (p_ids_complete P p x Hp Hx). }
    split.
    { replace (map on_id ns) with (map (fun t : nat * Q * Q => fst (fst t)) (map (fun on => (on_id on, on_w on, on_h on)) ns))
        by (rewrite map_map; reflexivity).
      rewrite CN', map_map. cbn [fst]. rewrite map_id. exact PN. }
    split.
    { intros a Ha.
      assert (Hin : In (on_id a, on_w a, on_h a) (map (fun on => (on_id on, on_w on, on_h on)) ns))
        by (apply (in_map (fun on => (on_id on, on_w on, on_h on))), Ha).
      rewrite CN' in Hin. apply in_map_iff in Hin. destruct Hin as (n & En & Hn). injection En as E1' E2' E3'.
      apply (Permutation_in _ PN) in Hn. apply ListLemmas.in_iota in Hn.
      destruct (nth_error ids n) as [x|] eqn:Ex; [|apply nth_error_None in Ex; lia].
      exists x. rewrite <- E1', <- E2', <- E3'. split; [exact Ex|apply (SZ1 n x Ex)]. }
    assert (CE' : map (fun oe => (oe_from oe, oe_to oe)) oes =
                  map (fun e => (e_from (gedge g e), e_to (gedge g e))) (flat_map nl_sl (components g1))).
    { rewrite CE, <- flat_map_map_outer. apply WholeLayout.flat_map_ext_in. intros c Hc. apply map_ext. intros e.
      rewrite (GE c Hc e). reflexivity. }
    assert (PE : Permutation (flat_map nl_sl (components g1)) (iota 0 (length es))).
    { eapply Permutation_trans; [|rewrite <- E1; rewrite <- flat_map_concat_map in P7; exact P7].
      apply flat_map_perm_pointwise. intros c _. unfold nl_sl.
      eapply Permutation_trans; [apply Permutation_app_comm|]. apply filter_partition_perm. }
    set (pr := fun t : nat * nat => match nth_error ids (fst t), nth_error ids (snd t) with
                                    | Some s, Some t' => [s; t'] | _, _ => [] end).
    replace (map (id_pair A ids) oes) with (map pr (map (fun oe => (oe_from oe, oe_to oe)) oes))
      by (rewrite map_map; reflexivity).
    rewrite CE', map_map.
    eapply Permutation_trans; [apply Permutation_map, PE|].
    rewrite (map_iota_nth_error _ _ es 0); [apply Permutation_refl|].
    intros i p Hi. cbn [Nat.add]. destruct (p_arity P p (nth_error_In _ _ Hi)) as (s & t & ->).
    destruct (p_edge P i Hi) as (F & T & _). unfold pr. cbn [fst snd]. rewrite F, T. reflexivity.
  Qed.

  (* ---------- W4 (b) ---------- *)
  Section Sep.
  Hypothesis SP : spacing_nonneg o.
  Hypothesis SZ : sizes_cfg_nonneg A eqA fixed sizes ids.

  Lemma layout_component_ok' : forall g, populate A eqA es = Ok (ids, g) ->
    forall c c' x, In c (components (apply_sizes A eqA fixed sizes ids g)) -> layout_component o c = Ok (c', x) ->
      Shift.comp_ok c' /\ E1_statement c c'.
  Proof.
    intros g POP c c' x Hc LC.
    split; [|apply (layout_components_E1' g POP c c' x Hc LC)].
    destruct (front_components A eqA OK es ids g fixed sizes POP c Hc) as (FC & NA & _).
    destruct (front_g1 A eqA OK es ids g fixed sizes POP) as (C1 & _ & N1 & _ & _ & _ & SZ1).
    destruct (Nat.le_gt_cases 2 (length (g_N c))) as [TWO|ONE].
    - assert (SN : sizes_nonneg c).
      { intros n Hn. destruct (components_partition _ C1) as (_ & P2 & _). cbv zeta in P2.
        rewrite (P2 c Hc) in Hn. apply filter_In in Hn. destruct Hn as [Hn _]. rewrite N1 in Hn.
        apply ListLemmas.in_iota in Hn.
        destruct (nth_error ids n) as [y|] eqn:Ey; [|apply nth_error_None in Ey; lia].
        pose proof (SZ1 n y Ey) as E. unfold gnode. rewrite NA. fold (gnode (apply_sizes A eqA fixed sizes ids g) n).
        destruct (SZ y (nth_error_In _ _ Ey)) as [W H]. rewrite <- E in W, H. exact (conj W H). }
      apply (W3_no_overlap' o c c' x); [|exact OO|apply (NS ids g c POP Hc TWO)|exact SN|exact SP|exact LC].
      apply (frontend_component_input A eqA OK es ids g fixed sizes POP c Hc TWO).
    - apply (single_comp_ok o c c' x FC); [|exact LC].
      pose proof (fc_nonempty _ FC). destruct (g_N c) as [|n [|m t]]; cbn in *; [congruence|reflexivity|lia].
  Qed.

  Theorem W4b_layout_separated' : o_virtual o = false ->
    (forall a, In a ns -> (0 <= on_x a)%Q) /\
    forall g, populate A eqA es = Ok (ids, g) ->
      let cs := components (apply_sizes A eqA fixed sizes ids g) in
      (forall a, In a ns -> exists i, i < length cs /\ In (on_id a) (g_N (nth i cs graph0))) /\
      (forall i j a b, i < j -> j < length cs -> In a ns -> In b ns ->
         In (on_id a) (g_N (nth i cs graph0)) -> In (on_id b) (g_N (nth j cs graph0)) ->
         (on_x a + on_w a + o_node_spacing o <= on_x b)%Q).
  Proof.
    intros OV. destruct (layout_inv A eqA o fixed sizes es ids ns oes xs LAY) as (g & POP & _ & LC).
    destruct (layout_components_collect_all o _ 0 LC) as (gs & F2 & CA).
    set (cs := components (apply_sizes A eqA fixed sizes ids g)) in *.
    pose proof (Forall2_length' _ _ _ _ _ F2) as LEN.
    assert (NTH : forall k, k < length cs -> In (nth k cs graph0) cs /\
              exists x, layout_component o (nth k cs graph0) = Ok (nth k gs graph0, x)).
    { intros k Hk. split; [apply nth_In, Hk|]. apply (Forall2_nth_rel _ _ _ cs gs k graph0 graph0 F2 Hk). }
    assert (COK : forall g', In g' gs -> Shift.comp_ok g').
    { intros g' Hg'. destruct (In_nth _ _ graph0 Hg') as (k & Hk & <-). rewrite <- LEN in Hk.
      destruct (NTH k Hk) as (Hc & x & LCk). apply (layout_component_ok' g POP _ _ x Hc LCk). }
    destruct (@Shift.collect_all_separated o gs ns oes CA (proj1 SP) COK) as (ENS & SEP & XNN).
    split; [exact XNN|].
    intros g_ POP_. assert (g_ = g) by congruence. subst g_. cbv zeta. fold cs.
    assert (FROM : forall a, In a ns -> exists k, k < length cs /\ In a (comp_nodes o gs 0 k) /\
              In (on_id a) (g_N (nth k cs graph0))).
    { intros a Ha. rewrite ENS in Ha. apply Shift.in_concat_map_seq in Ha. destruct Ha as (k & Hk & Ha).
      rewrite <- LEN in Hk. exists k. split; [exact Hk|]. split; [exact Ha|].
      destruct (NTH k Hk) as (Hc & x & LCk). destruct (layout_component_ok' g POP _ _ x Hc LCk) as (_ & E1).
      destruct E1 as (_ & _ & _ & (vs & EN & VS) & _).
      unfold comp_nodes in Ha. rewrite OV in Ha. apply CollectProofs.collect_nodes_In in Ha.
      destruct Ha as (n & Hn & Kp & ->). cbn [CollectProofs.onode_of on_id].
      rewrite EN in Hn. apply in_app_or in Hn. destruct Hn as [Hn|Hn]; [exact Hn|].
      destruct (VS n Hn) as [_ V]. unfold CollectProofs.keep_node in Kp. rewrite V in Kp. discriminate. }
    destruct (front_g1 A eqA OK es ids g fixed sizes POP) as (C1 & _ & N1 & _).
    destruct (components_partition _ C1) as (_ & _ & _ & _ & _ & P6 & _). cbv zeta in P6. fold cs in P6.
    assert (ND : NoDup (flat_map g_N cs)).
    { rewrite flat_map_concat_map. eapply Permutation_NoDup; [apply Permutation_sym, P6|]. apply (c_nodupN _ C1). }
    assert (UNIQ : forall n i k, i < length cs -> k < length cs ->
              In n (g_N (nth i cs graph0)) -> In n (g_N (nth k cs graph0)) -> i = k).
    { intros n i k Hi Hk Ni Nk. destruct (Nat.eq_dec i k) as [E|NE]; [exact E|exfalso].
      apply (flat_map_disjoint _ _ g_N cs i k (nth i cs graph0) (nth k cs graph0) n ND); auto;
        apply nth_error_nth'; assumption. }
    split.
    - intros a Ha. destruct (FROM a Ha) as (k & Hk & _ & Hn). exists k. split; assumption.
    - intros i j a b Hij Hj Ha Hb Ia Ib.
      destruct (FROM a Ha) as (ka & Hka & Ca & Na). destruct (FROM b Hb) as (kb & Hkb & Cb & Nb).
      assert (ka = i) by (apply (UNIQ (on_id a)); try assumption; lia). subst ka.
      assert (kb = j) by (apply (UNIQ (on_id b)); assumption). subst kb.
      apply (SEP i j a b); [rewrite <- LEN; lia|exact Ca|exact Cb].
  Qed.
  End Sep.

  (* ---------- W4 (c) ---------- *)
  Theorem W4c_layout_crossings' : forall g, populate A eqA es = Ok (ids, g) ->
    Forall2 (fun c v => exists c', layout_component o c = Ok (c', Some v) /\ component_input c /\
                                   W2_statement o c c' (Some v) /\ (0 <= v)%Z)
            (filter big (components (apply_sizes A eqA fixed sizes ids g))) xs.
  Proof.
    intros g POP. destruct (layout_inv A eqA o fixed sizes es ids ns oes xs LAY) as (g_ & POP_ & _ & LC).
    assert (g_ = g) by congruence. subst g_.
    set (cs := components (apply_sizes A eqA fixed sizes ids g)) in *.
    assert (CIc : forall c, In c cs -> big c = true -> component_input c /\ ns_premise o c).
    { intros c Hc B. apply Nat.leb_le in B. split; [|apply (NS ids g c POP Hc B)].
      apply (frontend_component_input A eqA OK es ids g fixed sizes POP c Hc B). }
    assert (F : Forall2 (fun c v => exists c', layout_component o c = Ok (c', Some v)) (filter big cs) xs).
    { apply (layout_components_xs o cs 0 ns oes xs); [|exact LC].
      intros c c' x Hc Lc. destruct (big c) eqn:B.
      - destruct (CIc c Hc B) as [CI NSc].
        destruct (W2_crossings' o c c' x CI OO NSc Lc) as (_ & _ & _ & _ & cx & _ & _ & _ & _ & _ & _ & X & _). exists cx. exact X.
      - apply Nat.leb_gt in B. destruct (front_components A eqA OK es ids g fixed sizes POP c Hc) as (FC & _).
        assert (L1 : length (g_N c) = 1).
        { pose proof (fc_nonempty _ FC). destruct (g_N c) as [|n [|m t]]; cbn in *; [congruence|reflexivity|lia]. }
        apply (single_facts o c c' x FC L1 Lc). }
    eapply Forall2_impl_in; [exact F|]. intros c v Hc _ (c' & Lc).
    apply filter_In in Hc. destruct Hc as [Hc B]. destruct (CIc c Hc B) as [CI NSc].
    pose proof (W2_crossings' o c c' (Some v) CI OO NSc Lc) as W. exists c'. split; [exact Lc|]. split; [exact CI|].
    split; [exact W|]. destruct W as (_ & _ & _ & _ & cx & _ & _ & _ & _ & _ & _ & X & _ & NN & _).
    injection X as ->. exact NN.
  Qed.
End W4'.
Print Assumptions W4a_layout_output'.
Print Assumptions W4b_layout_separated'.
Print Assumptions W4c_layout_crossings'.

(* ---------- with the premise about network simplex discharged (as in Final.v) ---------- *)
Theorem G7_layout_output' : forall (A : Type) (eqA : A -> A -> bool), (forall x y, eqA x y = true <-> x = y) ->
  forall o fixed sizes es ids ns oes xs, options_ok' o ->
  layout A eqA o fixed sizes es = Ok (ids, (ns, oes, xs)) -> o_virtual o = false ->
  NoDup ids /\ (forall x, In x ids <-> exists p, In p es /\ In x p) /\
  Permutation (map on_id ns) (iota 0 (length ids)) /\
  (forall a, In a ns -> exists x, nth_error ids (on_id a) = Some x /\
                                  (on_w a, on_h a) = SizesProofs.size_of A eqA fixed sizes x (0, 0)%Q) /\
  Permutation (map (id_pair A ids) oes) es.
Proof.
  intros A eqA OK o fixed sizes es ids ns oes xs OO LAY OV.
  exact (W4a_layout_output' A eqA OK o fixed sizes es ids ns oes xs OO (ns_layout_holds A eqA OK o fixed sizes es) LAY OV).
Qed.
Print Assumptions G7_layout_output'.

Theorem G8_layout_separated' : forall (A : Type) (eqA : A -> A -> bool), (forall x y, eqA x y = true <-> x = y) ->
  forall o fixed sizes es ids ns oes xs, options_ok' o ->
  layout A eqA o fixed sizes es = Ok (ids, (ns, oes, xs)) ->
  spacing_nonneg o -> sizes_cfg_nonneg A eqA fixed sizes ids -> o_virtual o = false ->
  (forall a, In a ns -> (0 <= on_x a)%Q) /\
  (forall g, populate A eqA es = Ok (ids, g) ->
     let cs := components (apply_sizes A eqA fixed sizes ids g) in
     (forall a, In a ns -> exists i, (i < length cs)%nat /\ In (on_id a) (g_N (nth i cs Shift.graph0))) /\
     (forall i j a b, (i < j)%nat -> (j < length cs)%nat -> In a ns -> In b ns ->
        In (on_id a) (g_N (nth i cs Shift.graph0)) -> In (on_id b) (g_N (nth j cs Shift.graph0)) ->
        (on_x a + on_w a + o_node_spacing o <= on_x b)%Q)).
Proof.
  intros A eqA OK o fixed sizes es ids ns oes xs OO LAY SP SZ OV.
  exact (W4b_layout_separated' A eqA OK o fixed sizes es ids ns oes xs OO (ns_layout_holds A eqA OK o fixed sizes es) LAY SP SZ OV).
Qed.
Print Assumptions G8_layout_separated'.

Theorem G9_layout_crossings' : forall (A : Type) (eqA : A -> A -> bool), (forall x y, eqA x y = true <-> x = y) ->
  forall o fixed sizes es ids ns oes xs, options_ok' o ->
  layout A eqA o fixed sizes es = Ok (ids, (ns, oes, xs)) ->
  forall g, populate A eqA es = Ok (ids, g) ->
  Forall2 (fun c v => exists c', layout_component o c = Ok (c', Some v) /\ component_input c /\
                                 W2_statement o c c' (Some v) /\ (0 <= v)%Z)
          (filter big (components (apply_sizes A eqA fixed sizes ids g))) xs.
Proof.
  intros A eqA OK o fixed sizes es ids ns oes xs OO LAY g POP.
  exact (W4c_layout_crossings' A eqA OK o fixed sizes es ids ns oes xs OO (ns_layout_holds A eqA OK o fixed sizes es) LAY g POP).
Qed.
Print Assumptions G9_layout_crossings'.

(* ====================================================================================================== *)
(** * 3. Examples: the hypotheses hold with [o_p4 o = NsPositioner]                                         *)
(* ====================================================================================================== *)

Example wc_o4_is_ns : o_p4 wc_o4 = NsPositioner. Proof. reflexivity. Qed.

(* (a) one component (a root above K(3,3), one long edge, one self loop), NetworkSimplex positioner: 9 crossings are
   reported and the ordered graph is drawn with 9 crossings; the final graph has the same order *)
Example wc_crossings4 :
  exists g3', 9%Z = reported_crossings g3' /\ 9%Z = drawing_crossings g3' /\
    (forall n, n_pos (gnode wc_out4 n) = n_pos (gnode g3' n) /\ n_layer (gnode wc_out4 n) = n_layer (gnode g3' n)) /\
    (forall kk, l_nodes (glayer wc_out4 kk) = l_nodes (glayer g3' kk)).
Proof.
  destruct (W2_reported_is_drawn' wc_o4 wc_g wc_out4 _ wc_input wc_options_ok4 wc_layout4 wc_simple)
    as (g3' & cx & X & A & B & C & D).
  injection X as <-. exists g3'. auto.
Qed.
Print Assumptions wc_crossings4.

Example wc_G6_ns : W2_statement wc_o4 wc_g wc_out4 (Some 9%Z).
Proof. exact (G6_crossings' wc_o4 wc_g wc_out4 _ wc_input wc_options_ok4 wc_layout4). Qed.

(* the x coordinates of the bands of that drawing increase along the bands *)
Example wc_out4_bands :
  map (fun l => map (fun n => Qred (nX wc_out4 n)) (l_nodes l)) (g_L wc_out4) = [[30]; [0; 15; 30; 45]; [0; 15; 30]]%Q.
Proof. vm_compute. reflexivity. Qed.

(* (b) the whole Layout of WholeLayout.v (three components: a diamond with a long edge and a self loop, a single node
   with a self loop and its own size, an antiparallel pair), NetworkSimplex positioner *)
Definition wl_result4 := Eval vm_compute in
  match layout nat Nat.eqb wc_o4 (Some (10, 6)%Q) wl_sizes wl_edges with
  | Ok (_, r) => r
  | Err _ => ([], [], [])
  end.
Definition wl_ns4 : list onode := fst (fst wl_result4).
Definition wl_oes4 : list oedge := snd (fst wl_result4).
Definition wl_xs4 : list Z := snd wl_result4.

Example wl_layout4 : layout nat Nat.eqb wc_o4 (Some (10, 6)%Q) wl_sizes wl_edges = Ok (wl_ids, (wl_ns4, wl_oes4, wl_xs4)).
Proof. vm_compute. reflexivity. Qed.

Example wl_eval4 :
  map on_id wl_ns4 = [0; 1; 2; 3; 4; 5; 6] /\
  map (fun a => (Qred (on_x a), Qred (on_y a), Qred (on_w a))) wl_ns4 =
    [(25, 0, 10); (0, 13, 10); (15, 13, 10); (25, 26, 10); (40, 0, 8); (53, 0, 10); (53, 13, 10)]%Q /\
  map (fun e => (oe_from e, oe_to e, oe_ahs e)) wl_oes4 =
    [(0, 1, false); (0, 2, false); (1, 3, false); (2, 3, false); (0, 3, false); (3, 3, false); (4, 4, false);
     (5, 6, false); (6, 5, true)] /\
  wl_xs4 = [0; 0]%Z.
Proof. vm_compute. repeat split; reflexivity. Qed.

Example wc_spacing4 : spacing_nonneg wc_o4.
Proof. split; vm_compute; discriminate. Qed.

Example wl_G7_ns :
  Permutation (map on_id wl_ns4) (iota 0 7) /\ Permutation (map (id_pair nat wl_ids) wl_oes4) wl_edges.
Proof.
  destruct (G7_layout_output' nat Nat.eqb Nat.eqb_eq wc_o4 (Some (10, 6)%Q) wl_sizes wl_edges wl_ids wl_ns4 wl_oes4 wl_xs4
              wc_options_ok4 wl_layout4 eq_refl) as (_ & _ & A & _ & B).
  split; assumption.
Qed.

Example wl_G8_ns : forall a, In a wl_ns4 -> (0 <= on_x a)%Q.
Proof.
  apply (G8_layout_separated' nat Nat.eqb Nat.eqb_eq wc_o4 (Some (10, 6)%Q) wl_sizes wl_edges wl_ids wl_ns4 wl_oes4 wl_xs4
           wc_options_ok4 wl_layout4 wc_spacing4 wl_sizes_nonneg eq_refl).
Qed.

Example wl_G9_ns : forall g, populate nat Nat.eqb wl_edges = Ok (wl_ids, g) ->
  length (filter big (components (apply_sizes nat Nat.eqb (Some (10, 6)%Q) wl_sizes wl_ids g))) = 2.
Proof.
  intros g POP.
  pose proof (G9_layout_crossings' nat Nat.eqb Nat.eqb_eq wc_o4 (Some (10, 6)%Q) wl_sizes wl_edges wl_ids wl_ns4 wl_oes4 wl_xs4
                wc_options_ok4 wl_layout4 g POP) as F.
  apply Forall2_length' in F. exact F.
Qed.
Print Assumptions wl_G7_ns.
Print Assumptions wl_G8_ns.
Print Assumptions wl_G9_ns.

(* the forms of Properties/C12.v and Properties/C04.v, four positioners *)
Corollary C12_component_end_to_end' : forall o g g' x, component_input g -> options_ok' o ->
  layout_component o g = Ok (g', x) -> W2_statement o g g' x.
Proof. exact G6_crossings'. Qed.

Corollary C04_layout_components_apart' : forall (A : Type) (eqA : A -> A -> bool), (forall x y, eqA x y = true <-> x = y) ->
  forall o fixed sizes es ids ns oes xs, options_ok' o ->
  layout A eqA o fixed sizes es = Ok (ids, (ns, oes, xs)) ->
  spacing_nonneg o -> sizes_cfg_nonneg A eqA fixed sizes ids -> o_virtual o = false ->
  (forall a, In a ns -> (0 <= on_x a)%Q) /\
  (forall g, populate A eqA es = Ok (ids, g) ->
     let cs := components (apply_sizes A eqA fixed sizes ids g) in
     (forall a, In a ns -> exists i, (i < length cs)%nat /\ In (on_id a) (g_N (nth i cs Shift.graph0))) /\
     (forall i j a b, (i < j)%nat -> (j < length cs)%nat -> In a ns -> In b ns ->
        In (on_id a) (g_N (nth i cs Shift.graph0)) -> In (on_id b) (g_N (nth j cs Shift.graph0)) ->
        (on_x a + on_w a + o_node_spacing o <= on_x b)%Q)).
Proof. exact G8_layout_separated'. Qed.
