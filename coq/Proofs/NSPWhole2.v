(* NSPWhole2.v — "rooted trees are drawn without edge crossings", end to end, carried over to the NetworkSimplex
   POSITIONER: [Proofs/TreeEndToEnd.v] with [options_ok'] (VAlign, PackRight, SinkColoring, NsPositioner; see
   Proofs/NSPositioner.v) in place of [options_ok].

   Parts A-C of TreeEndToEnd.v (network simplex LAYERING on a tree, the phase-2 output is a rooted tree, the ordering
   phase reports 0) do not look at phase 4 at all; only the last step — the final graph has the order of the ordered
   graph — does, through [bbx_phase4]; here it goes through [NSPositioner.bbx_phase4']. *)
From Autog Require Import Base Graph Populate Phase1 Phase2 Phase3 Phase4 Phase5 Layout Wmedian Pipeline.
From Autog.Proofs Require Import ListLemmas Consistent SelfLoopProofs.
From Autog.Proofs Require CBBase CBHasCycles CBGreedyRanks CycleBreaking.
From Autog.Proofs Require CrossCountProofs WmedianProofs TreeProofs.
From Autog.Proofs Require Import Positioners Routes BreakMerge SinkColoringProofs E2EBridge E2EBackbone E2EOutput E2EFrontend.
From Autog.Proofs Require Import NSBridge WholeBridge WholeCrossings Final TreeEndToEnd NSPositioner.
From Coq Require Import Permutation Lia.

(* ====================================================================================================== *)
(** * C'. The final graph of a rooted tree, four positioners                                               *)
(* ====================================================================================================== *)

Section TreeBackbone'.
  Variables (top : bool) (root : nat).
  Variables (o : options) (g g' : graph) (x : option Z) (g0 : graph) (del : list nat) (g1 g2 g3 : graph) (k : nat)
            (g3' : graph) (cx : Z) (g4 gm : graph) (routes : list (nat * list nat)) (g5 : graph).
  Hypothesis CI : component_input g.
  Hypothesis BB : backbone o g g' x g0 del g1 g2 g3 k g3' cx g4 gm routes g5.
  Hypothesis NS : o_p2 o = NetworkSimplex.
  Hypothesis DT : dir_tree top g root.
  Hypothesis OK : options_ok' o.

  Let S01 := bb_s01 _ _ _ _ _ _ _ _ _ _ _ _ _ _ _ _ BB.
  Let S23 := bb_s23 _ _ _ _ _ _ _ _ _ _ _ _ _ _ _ _ BB.
  Let S45 := bb_s45 _ _ _ _ _ _ _ _ _ _ _ _ _ _ _ _ BB.
  Let PP := s2_post _ _ _ _ S23.

  Let G3 : g3 = g2 := tb_g3 top root _ _ _ _ _ _ _ _ _ _ _ _ _ _ _ _ CI BB NS DT.
  Let G1 : g1 = g0 := tb_g1 top root _ _ _ _ _ _ _ _ _ _ _ _ _ _ _ _ BB DT.

  Lemma tb_out_node' : forall n, layer_of g' n = layer_of g3' n /\ pos_of g' n = pos_of g3' n.
  Proof.
    intros n. destruct (bbx_phase4' _ _ _ _ _ _ _ _ _ _ _ _ _ _ _ _ BB OK) as (_ & _ & _ & _ & F5 & _).
    unfold layer_of, pos_of. destruct (bbx_out_pos _ _ _ _ _ _ _ _ _ _ _ _ _ _ _ _ CI BB n) as [-> ->].
    destruct (set_xy_fields _ _ (F5 n)) as (_ & _ & -> & -> & _). split; reflexivity.
  Qed.

  Lemma tb_layer3'' : forall n, layer_of g3' n = layer_of g2 n.
  Proof.
    intros n. pose proof (E2EBridge.oc_nodes _ _ (s4_oc _ _ _ _ _ _ _ _ _ S45) n) as E. rewrite G3 in E.
    unfold layer_of. destruct (gnode g3' n), (gnode g2 n). unfold set_pos in E. cbn in *. congruence.
  Qed.

  Lemma tb_out_L' : length (g_L g') = length (g_L g2).
  Proof.
    destruct (bbx_phase4' _ _ _ _ _ _ _ _ _ _ _ _ _ _ _ _ BB OK) as (_ & _ & _ & _ & _ & _ & F7).
    rewrite (bbx_out_L _ _ _ _ _ _ _ _ _ _ _ _ _ _ _ _ CI BB), F7, (E2EBridge.oc_L _ _ (s4_oc _ _ _ _ _ _ _ _ _ S45)), G3.
    reflexivity.
  Qed.

  Lemma tb_out_E' : g_E g' = nl_edges g ++ filter (self_loop g) (g_E g).
  Proof. destruct (E1_of_backbone _ _ _ _ _ _ _ _ _ _ _ _ _ _ _ _ CI BB) as (A & _). exact A. Qed.

  Lemma tb_out_ends' : forall e, In e (g_E g) ->
    e_from (gedge g' e) = e_from (gedge g e) /\ e_to (gedge g' e) = e_to (gedge g e).
  Proof.
    intros e He. destruct (E1_of_backbone _ _ _ _ _ _ _ _ _ _ _ _ _ _ _ _ CI BB) as (_ & B & _).
    destruct (B e He) as (A1 & A2 & _). auto.
  Qed.

  (* the drawing of the final graph (self loops included) has as many crossings as the ordered graph: none *)
  Theorem tb_out_drawing' : drawing_crossings g' = 0.
  Proof.
    destruct (tb_cx top root _ _ _ _ _ _ _ _ _ _ _ _ _ _ _ _ CI BB NS DT) as (_ & _ & D0). rewrite <- D0.
    pose proof (s4_oc _ _ _ _ _ _ _ _ _ S45) as OC. rewrite G3 in OC.
    apply (drawing_crossings_ends g' g3' (filter (self_loop g) (g_E g))).
    - rewrite tb_out_L'. symmetry. apply (E2EBridge.oc_L _ _ OC).
    - rewrite tb_out_E', (E2EBridge.oc_E _ _ OC). f_equal.
      rewrite (p2_E _ _ PP), G1. symmetry. apply (tb_E0 _ _ _ _ _ _ _ _ _ _ _ _ _ _ _ _ BB).
    - intros e He. rewrite (E2EBridge.oc_E _ _ OC) in He.
      assert (E3 : gedge g3' e = gedge g2 e) by (unfold gedge; rewrite (E2EBridge.oc_ea _ _ OC); reflexivity).
      rewrite E3. destruct (tb_ends2 top root _ _ _ _ _ _ _ _ _ _ _ _ _ _ _ _ BB DT e) as [-> ->]. apply tb_out_ends'.
      apply (tb_edge2 top root _ _ _ _ _ _ _ _ _ _ _ _ _ _ _ _ BB DT) in He.
      unfold nl_edges in He. apply filter_In in He. apply He.
    - intros e He. apply filter_In in He. destruct He as [He Hs].
      destruct (tb_out_ends' e He) as [-> ->]. unfold self_loop in Hs. apply Nat.eqb_eq in Hs. exact Hs.
    - apply tb_out_node'.
  Qed.

  (* every tree edge goes down exactly one layer in the final graph, and the root is where it should be *)
  Lemma tb_out_layers' :
    (forall e, In e (nl_edges g) -> layer_of g' (e_to (gedge g e)) = layer_of g' (e_from (gedge g e)) + 1) /\
    layer_of g' root = (if top then 0 else Z.of_nat (length (g_L g')) - 1).
  Proof.
    assert (LY : forall n, layer_of g' n = layer_of g2 n).
    { intros n. destruct (tb_out_node' n) as [-> _]. apply tb_layer3''. }
    split.
    - intros e He. apply (tb_edge2 top root _ _ _ _ _ _ _ _ _ _ _ _ _ _ _ _ BB DT) in He.
      pose proof (tb_step top root _ _ _ _ _ _ _ _ _ _ _ _ _ _ _ _ CI BB NS DT e He) as St.
      destruct (tb_ends2 top root _ _ _ _ _ _ _ _ _ _ _ _ _ _ _ _ BB DT e) as [A B]. rewrite A, B in St. rewrite !LY. exact St.
    - rewrite LY, tb_out_L'. apply (tb_root_layer top root _ _ _ _ _ _ _ _ _ _ _ _ _ _ _ _ CI BB NS DT).
  Qed.
End TreeBackbone'.

(* ====================================================================================================== *)
(** * D'. End to end                                                                                       *)
(* ====================================================================================================== *)

(* both directions at once *)
Theorem dir_tree_no_crossings_end_to_end' : forall top o g g' x root,
  component_input g -> options_ok' o -> o_p2 o = NetworkSimplex -> dir_tree top g root ->
  layout_component o g = Ok (g', x) ->
  (* the ordering phase reports 0 crossings; the drawing of the final graph has none *)
  x = Some 0 /\ drawing_crossings g' = 0 /\
  (* every edge of the tree goes down exactly one layer; the root lies in the first / last layer *)
  (forall e, In e (g_E g) -> self_loop g e = false ->
     layer_of g' (e_to (gedge g e)) = layer_of g' (e_from (gedge g e)) + 1) /\
  layer_of g' root = (if top then 0 else Z.of_nat (length (g_L g')) - 1) /\
  (* the intermediate graphs: phase 1 reverses nothing, phase 2 gives unit spans, no edge has to be broken *)
  exists g2 g3' g4,
    phase1 (o_p1 o) (fst (ignore_self_loops g)) = Ok (fst (ignore_self_loops g)) /\
    phase2 (o_p2 o) (Layout.ns_params o) (fst (ignore_self_loops g)) = Ok g2 /\
    (forall e, In e (g_E g2) -> BreakMerge.span g2 e = 1) /\
    break_long_edges g2 = Ok g2 /\
    TreeProofs.forest top g2 /\
    (top = true -> TreeProofs.rooted_out_tree g2 root) /\ (top = false -> TreeProofs.rooted_in_tree g2 root) /\
    exec_wmedian wmedian_max_iter g2 = Ok (g3', 0) /\ reported_crossings g3' = 0 /\ drawing_crossings g3' = 0 /\
    phase4 (o_p4 o) (p4_params o) g3' = Ok g4 /\ drawing_crossings g4 = 0.
Proof.
  intros top o g g' x root CI OK NS DT H.
  destruct (pipeline_backbone_F' o g g' x CI OK (ns_premise_holds o g CI) H)
    as (g0 & del & g1 & g2 & g3 & k & g3' & cx & g4 & gm & routes & g5 & BB).
  destruct (tb_cx top root _ _ _ _ _ _ _ _ _ _ _ _ _ _ _ _ CI BB NS DT) as (C0 & R0 & D0).
  pose proof (tb_g1 top root _ _ _ _ _ _ _ _ _ _ _ _ _ _ _ _ BB DT) as E1.
  pose proof (tb_g3 top root _ _ _ _ _ _ _ _ _ _ _ _ _ _ _ _ CI BB NS DT) as E3.
  assert (E0 : g0 = fst (ignore_self_loops g)) by (rewrite (bb_e0 _ _ _ _ _ _ _ _ _ _ _ _ _ _ _ _ BB); reflexivity).
  destruct (tb_out_layers' top root _ _ _ _ _ _ _ _ _ _ _ _ _ _ _ _ CI BB NS DT OK) as (LE & LR).
  split; [rewrite (bb_x _ _ _ _ _ _ _ _ _ _ _ _ _ _ _ _ BB), C0; reflexivity|].
  split; [apply (tb_out_drawing' top root _ _ _ _ _ _ _ _ _ _ _ _ _ _ _ _ CI BB NS DT OK)|].
  split.
  { intros e He Hs. apply LE. unfold nl_edges. apply filter_In. split; [exact He|]. rewrite Hs. reflexivity. }
  split; [exact LR|].
  exists g2, g3', g4.
  pose proof (bb_e1 _ _ _ _ _ _ _ _ _ _ _ _ _ _ _ _ BB) as P1. pose proof (bb_e2 _ _ _ _ _ _ _ _ _ _ _ _ _ _ _ _ BB) as P2.
  pose proof (bb_e3 _ _ _ _ _ _ _ _ _ _ _ _ _ _ _ _ BB) as P3. pose proof (bb_e3' _ _ _ _ _ _ _ _ _ _ _ _ _ _ _ _ BB) as P3'.
  rewrite E1 in P1, P2. rewrite E3 in P3, P3'. rewrite C0 in P3'. rewrite E0 in P1, P2.
  split; [exact P1|]. split; [exact P2|].
  split; [apply (tb_spans top root _ _ _ _ _ _ _ _ _ _ _ _ _ _ _ _ CI BB NS DT)|]. split; [exact P3|].
  split; [apply (tb_forest top root _ _ _ _ _ _ _ _ _ _ _ _ _ _ _ _ CI BB NS DT)|].
  split; [apply (tb_rooted_out_tree top root _ _ _ _ _ _ _ _ _ _ _ _ _ _ _ _ CI BB NS DT)|].
  split; [apply (tb_rooted_in_tree top root _ _ _ _ _ _ _ _ _ _ _ _ _ _ _ _ CI BB NS DT)|].
  split; [exact P3'|]. split; [exact R0|]. split; [exact D0|].
  split; [apply (bb_e4 _ _ _ _ _ _ _ _ _ _ _ _ _ _ _ _ BB)|].
  destruct (bbx_phase4' _ _ _ _ _ _ _ _ _ _ _ _ _ _ _ _ BB OK) as (F1 & F2 & F3 & F4 & F5 & F6 & F7).
  rewrite <- D0. apply drawing_crossings_ext; try assumption.
  intros n. unfold layer_of, pos_of. destruct (set_xy_fields _ _ (F5 n)) as (_ & _ & -> & -> & _). split; reflexivity.
Qed.
Print Assumptions dir_tree_no_crossings_end_to_end'.

(* The user-facing statements ([TreeEndToEnd.out_tree_no_crossings_end_to_end], [in_tree_no_crossings_end_to_end]).
   With network-simplex layering, either cycle breaker, any of the FOUR size-aware positioners, any modelled router,
   and whatever the order of the edge list: *)
Theorem out_tree_end_to_end' : forall o g g' x root,
  component_input g -> options_ok' o -> o_p2 o = NetworkSimplex -> out_tree_input g root ->
  layout_component o g = Ok (g', x) ->
  x = Some 0 /\ drawing_crossings g' = 0 /\
  (forall e, In e (g_E g) -> self_loop g e = false ->
     layer_of g' (e_to (gedge g e)) = layer_of g' (e_from (gedge g e)) + 1) /\
  layer_of g' root = 0 /\
  exists g2 g3' g4,
    phase1 (o_p1 o) (fst (ignore_self_loops g)) = Ok (fst (ignore_self_loops g)) /\
    phase2 (o_p2 o) (Layout.ns_params o) (fst (ignore_self_loops g)) = Ok g2 /\
    break_long_edges g2 = Ok g2 /\ TreeProofs.rooted_out_tree g2 root /\
    exec_wmedian wmedian_max_iter g2 = Ok (g3', 0) /\
    phase4 (o_p4 o) (p4_params o) g3' = Ok g4 /\ drawing_crossings g4 = 0.
Proof.
  intros o g g' x root CI OK NS OT H. apply out_tree_dir in OT.
  destruct (dir_tree_no_crossings_end_to_end' true o g g' x root CI OK NS OT H)
    as (A & B & C & D & g2 & g3' & g4 & P1 & P2 & _ & P3 & _ & RT & _ & WE & _ & _ & P4 & D4).
  split; [exact A|]. split; [exact B|]. split; [exact C|]. split; [exact D|].
  exists g2, g3', g4. repeat (split; [assumption|]). split; [apply RT; reflexivity|]. auto.
Qed.
Print Assumptions out_tree_end_to_end'.

Theorem in_tree_end_to_end' : forall o g g' x root,
  component_input g -> options_ok' o -> o_p2 o = NetworkSimplex -> in_tree_input g root ->
  layout_component o g = Ok (g', x) ->
  x = Some 0 /\ drawing_crossings g' = 0 /\
  (forall e, In e (g_E g) -> self_loop g e = false ->
     layer_of g' (e_to (gedge g e)) = layer_of g' (e_from (gedge g e)) + 1) /\
  layer_of g' root = Z.of_nat (length (g_L g')) - 1 /\
  exists g2 g3' g4,
    phase1 (o_p1 o) (fst (ignore_self_loops g)) = Ok (fst (ignore_self_loops g)) /\
    phase2 (o_p2 o) (Layout.ns_params o) (fst (ignore_self_loops g)) = Ok g2 /\
    break_long_edges g2 = Ok g2 /\ TreeProofs.rooted_in_tree g2 root /\
    exec_wmedian wmedian_max_iter g2 = Ok (g3', 0) /\
    phase4 (o_p4 o) (p4_params o) g3' = Ok g4 /\ drawing_crossings g4 = 0.
Proof.
  intros o g g' x root CI OK NS IT H. apply in_tree_dir in IT.
  destruct (dir_tree_no_crossings_end_to_end' false o g g' x root CI OK NS IT H)
    as (A & B & C & D & g2 & g3' & g4 & P1 & P2 & _ & P3 & _ & _ & RT & WE & _ & _ & P4 & D4).
  split; [exact A|]. split; [exact B|]. split; [exact C|]. split; [exact D|].
  exists g2, g3', g4. repeat (split; [assumption|]). split; [apply RT; reflexivity|]. auto.
Qed.
Print Assumptions in_tree_end_to_end'.

(* the same under the names of TreeEndToEnd.v *)
Definition out_tree_no_crossings_end_to_end' := out_tree_end_to_end'.
Definition in_tree_no_crossings_end_to_end' := in_tree_end_to_end'.

(* the forms of Properties/C13.v *)
Corollary C13_out_tree_end_to_end' : forall o g g' x root,
  component_input g -> options_ok' o -> o_p2 o = Phase2.NetworkSimplex -> out_tree_input g root ->
  layout_component o g = Ok (g', x) -> x = Some 0%Z /\ drawing_crossings g' = 0%Z.
Proof.
  intros o g g' x root CI OK NS T H.
  destruct (out_tree_end_to_end' o g g' x root CI OK NS T H) as (A & B & _). split; assumption.
Qed.
Print Assumptions C13_out_tree_end_to_end'.

Corollary C13_in_tree_end_to_end' : forall o g g' x root,
  component_input g -> options_ok' o -> o_p2 o = Phase2.NetworkSimplex -> in_tree_input g root ->
  layout_component o g = Ok (g', x) -> x = Some 0%Z /\ drawing_crossings g' = 0%Z.
Proof.
  intros o g g' x root CI OK NS T H.
  destruct (in_tree_end_to_end' o g g' x root CI OK NS T H) as (A & B & _). split; assumption.
Qed.
Print Assumptions C13_in_tree_end_to_end'.

(* ====================================================================================================== *)
(** * E'. Examples: network-simplex layering AND the NetworkSimplex positioner                              *)
(* ====================================================================================================== *)

Definition te_o4 : options := mkOptions DepthFirst NetworkSimplex NsPositioner Polyline 1 1 5 7 false.

Example te_o4_is_ns : o_p2 te_o4 = NetworkSimplex /\ o_p4 te_o4 = NsPositioner.
Proof. split; reflexivity. Qed.

Example te_options_ok4 : options_ok' te_o4.
Proof. split; [right; reflexivity|right; left; reflexivity]. Qed.

(* (a) the out-tree of TreeEndToEnd.v (7 nodes, root = node 2, a self loop at node 3): the run *)
Example te_run4 : exists g', layout_component te_o4 te_g = Ok (g', Some 0) /\ drawing_crossings g' = 0 /\
  map l_nodes (g_L g') = [[2]; [0; 3]; [1; 5; 4; 6]]%nat.
Proof. eexists. vm_compute. repeat split; reflexivity. Qed.

(* the theorem on this instance, with the options of the run ... *)
Example te_no_crossings4 : forall g' x,
  layout_component te_o4 te_g = Ok (g', x) -> x = Some 0 /\ drawing_crossings g' = 0 /\ layer_of g' 2 = 0.
Proof.
  intros g' x H.
  destruct (out_tree_end_to_end' te_o4 te_g g' x 2%nat te_input te_options_ok4 eq_refl te_out_tree H) as (A & B & _ & C & _).
  auto.
Qed.

(* ... and for every choice of cycle breaker, positioner among the four, router, spacing and budgets *)
Example te_no_crossings' : forall o g' x, options_ok' o -> o_p2 o = NetworkSimplex ->
  layout_component o te_g = Ok (g', x) -> x = Some 0 /\ drawing_crossings g' = 0 /\ layer_of g' 2 = 0.
Proof.
  intros o g' x OK NS H.
  destruct (out_tree_end_to_end' o te_g g' x 2%nat te_input OK NS te_out_tree H) as (A & B & _ & C & _). auto.
Qed.
Print Assumptions te_no_crossings'.

(* (b) the in-tree *)
Example ti_run4 : exists g', layout_component te_o4 ti_g = Ok (g', Some 0) /\ drawing_crossings g' = 0 /\
  map l_nodes (g_L g') = [[0; 5; 3; 6]; [1; 4]; [2]]%nat.
Proof. eexists. vm_compute. repeat split; reflexivity. Qed.

Example ti_no_crossings' : forall o g' x, options_ok' o -> o_p2 o = NetworkSimplex ->
  layout_component o ti_g = Ok (g', x) ->
  x = Some 0 /\ drawing_crossings g' = 0 /\ layer_of g' 2 = Z.of_nat (length (g_L g')) - 1.
Proof.
  intros o g' x OK NS H.
  destruct (in_tree_end_to_end' o ti_g g' x 2%nat ti_input OK NS ti_in_tree H) as (A & B & _ & C & _). auto.
Qed.
Print Assumptions ti_no_crossings'.

Example ti_no_crossings4 : forall g' x,
  layout_component te_o4 ti_g = Ok (g', x) ->
  x = Some 0 /\ drawing_crossings g' = 0 /\ layer_of g' 2 = Z.of_nat (length (g_L g')) - 1.
Proof. intros g' x H. exact (ti_no_crossings' te_o4 g' x te_options_ok4 eq_refl H). Qed.
