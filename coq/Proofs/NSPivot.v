(* NSPivot.v — N4/N5 and the final theorem.
   - [exchange_spanning]: replacing the tree edge e by a non-tree edge f whose ends lie in different
     components of (tree - e) gives a spanning tree again;
   - [exchange_inv]: one pivot step preserves the invariant [ns_inv] (well-formed, spanning tree, feasible,
     lim/low computed from the current tree);
   - [pivot_loop_inv]: so does the whole pivot loop;
   - [exec_network_simplex_feasible]: the layering returned by network simplex is feasible. *)
From Autog Require Import Base Graph Populate Phase2 Optimality OptNormalize OptVbalance OptFeasible OptInit
  OptPipeline NSDefs NSTree NSLimLow NSComp NSFeasLoop.

Record ns_inv (g : graph) (ll : limlow) : Prop := mkNsInv {
  ni_wf : ns_wf g;
  ni_span : spanning_tree g;
  ni_feas : feasible g;
  ni_tight : forall e, In e (g_E g) -> e_tree (gedge g e) = true -> slack g e = 0;
  ni_ll : set_stree_values g = Ok ll
}.

Lemma ns_inv_same_tree : forall g g' ll, same_tree g g' -> ns_inv g ll -> ns_inv g' ll.
Proof.
  intros g g' ll S [I1 I2 I3 I5 I4]. pose proof S as [G T]. constructor.
  - apply (ns_wf_geom_same G I1).
  - apply (spanning_tree_same_tree g g' S I2).
  - apply (feasible_geom_same G I3).
  - intros e He Ht. rewrite (slack_geom_same e G). rewrite T in Ht.
    destruct G as (_ & _ & B3 & _). rewrite B3 in He. apply I5; assumption.
  - rewrite (set_stree_values_same_tree g g' S). exact I4.
Qed.

(* ------------------------------------------------------------------------------------------------ *)
(* the state after the exchange                                                                      *)
(* ------------------------------------------------------------------------------------------------ *)
Definition swap_flags (g : graph) (e f : nat) : graph :=
  upd_edge (upd_edge g e (set_tree false)) f (set_tree true).

Lemma swap_flags_geom : forall g e f, geom_same g (swap_flags g e f).
Proof.
  intros g e f. unfold swap_flags. eapply geom_same_trans; apply geom_same_upd_edge; intros ed; repeat split.
Qed.

Lemma swap_flags_frame : forall g e f, ns_frame g (swap_flags g e f).
Proof.
  intros g e f. unfold swap_flags. eapply ns_frame_trans; apply ns_frame_upd_edge; intros ed; repeat split.
Qed.

Lemma swap_flags_tree : forall g e f x, (e < length (g_ea g))%nat -> (f < length (g_ea g))%nat ->
  e_tree (gedge (swap_flags g e f) x) =
  if Nat.eqb x f then true else if Nat.eqb x e then false else e_tree (gedge g x).
Proof.
  intros g e f x He Hf. unfold swap_flags. rewrite gedge_upd_edge.
  assert (Hlen : length (g_ea (upd_edge g e (set_tree false))) = length (g_ea g)).
  { unfold upd_edge, with_ea; cbn [g_ea]. apply length_upd. }
  rewrite Hlen. destruct (Nat.eqb x f) eqn:Exf; cbn [andb].
  - apply Nat.eqb_eq in Exf. subst x. apply Nat.ltb_lt in Hf. rewrite Hf. reflexivity.
  - rewrite gedge_upd_edge. destruct (Nat.eqb x e) eqn:Exe; cbn [andb]; [|reflexivity].
    apply Nat.eqb_eq in Exe. subst x. apply Nat.ltb_lt in He. rewrite He. reflexivity.
Qed.

(* the layers after the exchange: the tail component is moved up by the slack of f *)
Definition exch_shift (g : graph) (ll : limlow) (e f : nat) : graph :=
  if 0 <? slack g f
  then shift_nodes (fun z => z + - slack g f) (fun n => negb (in_head_component g ll n e)) (g_N g) g
  else g.

Lemma exch_shift_lay_only : forall g ll e f, nodes_wf g -> lay_only g (exch_shift g ll e f).
Proof.
  intros g ll e f [Hnd Hr]. unfold exch_shift. destruct (0 <? slack g f); [|apply lay_only_refl].
  apply (shift_nodes_spec (fun z => z + - slack g f) (fun n => negb (in_head_component g ll n e)) (g_N g) g Hnd Hr).
Qed.

(* an edge whose two ends are on the same side keeps its slack *)
Lemma exch_shift_slack : forall g ll e f x, nodes_wf g -> edges_in g -> In x (g_E g) ->
  in_head_component g ll (e_from (gedge g x)) e = in_head_component g ll (e_to (gedge g x)) e ->
  slack (exch_shift g ll e f) x = slack g x.
Proof.
  intros g ll e f x [Hnd Hr] Ein Hx Heq. unfold exch_shift. destruct (0 <? slack g f); [|reflexivity].
  rewrite (slack_shift g (- slack g f) (fun n => negb (in_head_component g ll n e)) (g_N g) x Hnd Hr).
  destruct (Ein x Hx) as [Hf Ht]. apply mem_nat_In in Hf, Ht. rewrite Hf, Ht, Heq. cbn [andb].
  destruct (negb (in_head_component g ll (e_to (gedge g x)) e)); lia.
Qed.

Lemma exchange_shape : forall g ll e f g' ll',
  exchange g ll e f = Ok (g', ll') ->
  set_stree_values (swap_flags (exch_shift g ll e f) e f) = Ok ll' /\
  g' = set_cut_values (swap_flags (exch_shift g ll e f) e f) ll'.
Proof.
  intros g ll e f g' ll' H. unfold exchange in H. cbv zeta in H.
  change (if 0 <? slack g f
          then fold_left (fun g' n => if negb (in_head_component g ll n e)
                                      then upd_node g' n (fun nd => set_layer (n_layer nd - slack g f) nd) else g')
                         (g_N g) g
          else g) with (exch_shift g ll e f) in H.
  fold (swap_flags (exch_shift g ll e f) e f) in H.
  destruct (set_stree_values (swap_flags (exch_shift g ll e f) e f)) as [ll2|err] eqn:Es; cbn [bind] in H; [|discriminate].
  inversion H; subst g' ll'. split; reflexivity.
Qed.

(* ------------------------------------------------------------------------------------------------ *)
(* N4: the exchange keeps the spanning tree                                                          *)
(* ------------------------------------------------------------------------------------------------ *)
Lemma filter_len_swap : forall (p q : nat -> bool) l e f,
  NoDup l -> In e l -> In f l -> e <> f -> p e = true -> p f = false -> q e = false -> q f = true ->
  (forall x, x <> e -> x <> f -> q x = p x) ->
  length (filter q l) = length (filter p l).
Proof.
  intros p q l e f Hnd He Hf Hne Hpe Hpf Hqe Hqf Hag.
  set (r := fun x => if Nat.eqb x e then false else p x).
  assert (H1 : length (filter p l) = S (length (filter r l))).
  { apply (filter_len_add r p l e Hnd He); [unfold r; rewrite Nat.eqb_refl; reflexivity | exact Hpe|].
    intros x Hx. unfold r. apply Nat.eqb_neq in Hx. rewrite Hx. reflexivity. }
  assert (H2 : length (filter q l) = S (length (filter r l))).
  { apply (filter_len_add r q l f Hnd Hf); [|exact Hqf|].
    - unfold r. assert (E : Nat.eqb f e = false) by (apply Nat.eqb_neq; congruence). rewrite E. exact Hpf.
    - intros x Hx. unfold r. destruct (Nat.eqb x e) eqn:E.
      + apply Nat.eqb_eq in E. subst x. exact Hqe.
      + apply Nat.eqb_neq in E. apply Hag; assumption. }
  congruence.
Qed.

Theorem exchange_spanning : forall g ll e f g2,
  ns_wf g -> spanning_tree g -> set_stree_values g = Ok ll ->
  In e (g_E g) -> e_tree (gedge g e) = true ->
  In f (g_E g) -> e_tree (gedge g f) = false ->
  in_head_component g ll (e_from (gedge g f)) e <> in_head_component g ll (e_to (gedge g f)) e ->
  (* g2: the same component with e unflagged and f flagged *)
  g_N g2 = g_N g -> g_E g2 = g_E g ->
  (forall x, e_from (gedge g2 x) = e_from (gedge g x) /\ e_to (gedge g2 x) = e_to (gedge g x)) ->
  (forall x, e_tree (gedge g2 x) = if Nat.eqb x f then true else if Nat.eqb x e then false else e_tree (gedge g x)) ->
  spanning_tree g2.
Proof.
  intros g ll e f g2 W S H He Ht Hf Htf Hcross HN HE Hgeo Hfl.
  assert (Hef : e <> f) by (intros ->; congruence).
  pose proof W as [[[HndN HrN] Ein A] HndE Hnl].
  destruct S as [Hconn Hcnt]. pose proof (conj Hconn Hcnt : spanning_tree g) as S.
  split.
  - (* connectivity *)
    assert (Hmono : forall a b, tconn g (avoid e) a b -> tconn g2 all_ok a b).
    { intros a b Hc. apply (tconn_mono g (avoid e) g2 all_ok a b HE); [|exact Hc].
      intros x Hx Htx Hok. apply avoid_true in Hok. destruct (Hgeo x) as [G1 G2].
      split; [|split; [reflexivity | split; assumption]].
      rewrite Hfl. destruct (Nat.eqb x f); [reflexivity|]. apply Nat.eqb_neq in Hok. rewrite Hok. exact Htx. }
    assert (Hclass : forall a b, In a (g_N g) -> In b (g_N g) ->
              in_head_component g ll a e = in_head_component g ll b e -> tconn g (avoid e) a b).
    { intros a b Ha Hb Heq.
      destruct (in_head_iff_conn g ll e a W S H He Ht Ha) as [[A1 _] [A2 _]].
      destruct (in_head_iff_conn g ll e b W S H He Ht Hb) as [[B1 _] [B2 _]].
      destruct (in_head_component g ll a e) eqn:Ea.
      - eapply tconn_trans; [apply tconn_sym; apply A1; reflexivity | apply B1; symmetry; exact Heq].
      - eapply tconn_trans; [apply tconn_sym; apply A2; reflexivity | apply B2; symmetry; exact Heq]. }
    destruct (Ein f Hf) as [HfN HtN].
    assert (Hfstep : tconn g2 all_ok (e_from (gedge g f)) (e_to (gedge g f))).
    { apply (tconn_edge g2 all_ok _ _ f); [rewrite HE; exact Hf | | reflexivity |].
      - rewrite Hfl, Nat.eqb_refl. reflexivity.
      - left. apply Hgeo. }
    unfold root_of. rewrite HN. intros n Hn.
    assert (HrootN : In (hd 0%nat (g_N g)) (g_N g)).
    { destruct (g_N g) as [|r rest]; [destruct Hn | left; reflexivity]. }
    set (r := hd 0%nat (g_N g)) in *.
    destruct (Bool.bool_dec (in_head_component g ll r e) (in_head_component g ll n e)) as [Heq|Hneq].
    + apply Hmono. apply Hclass; assumption.
    + set (u := e_from (gedge g f)) in *. set (v := e_to (gedge g f)) in *.
      destruct (Bool.bool_dec (in_head_component g ll r e) (in_head_component g ll u e)) as [Hru|Hru].
      * assert (Hvn : in_head_component g ll v e = in_head_component g ll n e).
        { destruct (in_head_component g ll r e); destruct (in_head_component g ll n e);
            destruct (in_head_component g ll u e); destruct (in_head_component g ll v e); congruence. }
        eapply tconn_trans; [apply Hmono; apply (Hclass r u HrootN HfN Hru)|].
        eapply tconn_trans; [exact Hfstep | apply Hmono; apply (Hclass v n HtN Hn Hvn)].
      * assert (Hrv : in_head_component g ll r e = in_head_component g ll v e).
        { destruct (in_head_component g ll r e); destruct (in_head_component g ll u e);
            destruct (in_head_component g ll v e); congruence. }
        assert (Hun : in_head_component g ll u e = in_head_component g ll n e).
        { destruct (in_head_component g ll r e); destruct (in_head_component g ll n e);
            destruct (in_head_component g ll u e); congruence. }
        eapply tconn_trans; [apply Hmono; apply (Hclass r v HrootN HtN Hrv)|].
        eapply tconn_trans; [apply tconn_sym; exact Hfstep | apply Hmono; apply (Hclass u n HfN Hn Hun)].
  - (* counting *)
    unfold tree_count, tree_edges in *. rewrite HE, HN. rewrite <- Hcnt. f_equal.
    apply (filter_len_swap (fun x => e_tree (gedge g x)) (fun x => e_tree (gedge g2 x)) (g_E g) e f HndE He Hf Hef Ht Htf).
    + rewrite Hfl, Nat.eqb_refl. apply Nat.eqb_neq in Hef. rewrite Hef. reflexivity.
    + rewrite Hfl, Nat.eqb_refl. reflexivity.
    + intros x Hxe Hxf. rewrite Hfl. apply Nat.eqb_neq in Hxe, Hxf. rewrite Hxe, Hxf. reflexivity.
Qed.
Print Assumptions exchange_spanning.

(* ------------------------------------------------------------------------------------------------ *)
(* one pivot step                                                                                    *)
(* ------------------------------------------------------------------------------------------------ *)
Theorem exchange_inv : forall g ll e f g' ll',
  ns_inv g ll -> In e (g_E g) -> e_tree (gedge g e) = true ->
  min_slack_non_tree_edge g ll e = Some f ->
  exchange g ll e f = Ok (g', ll') ->
  ns_inv g' ll' /\ ns_frame g g' /\ slack g' f = 0 /\
  (forall x, e_tree (gedge g' x) = if Nat.eqb x f then true else if Nat.eqb x e then false else e_tree (gedge g x)).
Proof.
  intros g ll e f g' ll' [W S Hfeas Htight Hll] He Ht Hmin Hex.
  pose proof W as [[Wn Ein A] HndE Hnl].
  destruct (pivot_premises g ll e W S Hll He Ht) as [P1 P2].
  destruct (pivot_step_feasible g ll e f g' ll' Wn Ein Hfeas P1 P2 Hmin Hex) as [Hfeas' Hs0].
  destruct (min_slack_spec g ll e f Hmin) as (HfE & Hne & Hnt & Hh & _).
  destruct (exchange_shape g ll e f g' ll' Hex) as [Es Eg'].
  pose proof (exch_shift_lay_only g ll e f Wn) as L1.
  set (g1 := exch_shift g ll e f) in *.
  set (g2 := swap_flags g1 e f) in *.
  pose proof (swap_flags_geom g1 e f) as G12. fold g2 in G12.
  assert (W1 : ns_wf g1) by (apply (ns_wf_lay_only L1 W)).
  assert (W2 : ns_wf g2) by (apply (ns_wf_geom_same G12 W1)).
  assert (Hcross : in_head_component g ll (e_from (gedge g f)) e <> in_head_component g ll (e_to (gedge g f)) e).
  { unfold head_to_tail in Hh. apply andb_prop in Hh. destruct Hh as [Ha Hb]. apply negb_true_iff in Hb.
    rewrite Ha, Hb. discriminate. }
  assert (Hfl : forall x, e_tree (gedge g2 x) =
                          if Nat.eqb x f then true else if Nat.eqb x e then false else e_tree (gedge g x)).
  { intros x. unfold g2. rewrite swap_flags_tree.
    - rewrite (lay_only_gedge L1 x). reflexivity.
    - destruct L1 as (Eea & _). rewrite Eea. apply (no_loop_lt g e Hnl He).
    - destruct L1 as (Eea & _). rewrite Eea. apply (no_loop_lt g f Hnl HfE). }
  assert (S2 : spanning_tree g2).
  { apply (exchange_spanning g ll e f g2 W S Hll He Ht HfE Hnt Hcross).
    - destruct G12 as (_ & B2 & _). rewrite B2. apply (lay_only_N L1).
    - destruct G12 as (_ & _ & B3 & _). rewrite B3. apply (lay_only_E L1).
    - intros x. destruct G12 as (_ & _ & _ & B4). destruct (B4 x) as (Q1 & Q2 & _).
      rewrite Q1, Q2, (lay_only_gedge L1 x). split; reflexivity.
    - exact Hfl. }
  pose proof (set_cut_values_same_tree g2 ll') as S23. rewrite <- Eg' in S23.
  assert (Hfl' : forall x, e_tree (gedge g' x) =
                           if Nat.eqb x f then true else if Nat.eqb x e then false else e_tree (gedge g x)).
  { intros x. destruct S23 as [_ T]. rewrite T. apply Hfl. }
  split; [|split; [|split; [exact Hs0 | exact Hfl']]].
  - constructor.
    + apply (ns_wf_geom_same (proj1 S23) W2).
    + apply (spanning_tree_same_tree g2 g' S23 S2).
    + exact Hfeas'.
    + (* the tree edges stay tight: f has become tight, the others have both ends on the same side *)
      intros x Hx Htx. rewrite Hfl' in Htx.
      destruct (Nat.eqb x f) eqn:Exf; [apply Nat.eqb_eq in Exf; subst x; exact Hs0|].
      destruct (Nat.eqb x e) eqn:Exe; [discriminate|]. apply Nat.eqb_neq in Exe.
      assert (HxE : In x (g_E g)).
      { destruct S23 as [(_ & _ & B3 & _) _]. rewrite B3 in Hx.
        destruct G12 as (_ & _ & C3 & _). rewrite C3, (lay_only_E L1) in Hx. exact Hx. }
      rewrite (slack_geom_same x (proj1 S23)), (slack_geom_same x G12).
      unfold g1. rewrite (exch_shift_slack g ll e f x Wn Ein HxE).
      * apply Htight; assumption.
      * apply (tree_edge_same_side g ll e x W S Hll He Ht HxE Htx Exe).
    + rewrite (set_stree_values_same_tree g2 g' S23). exact Es.
  - eapply ns_frame_trans; [apply (ns_frame_lay_only g g1 L1)|].
    eapply ns_frame_trans; [apply (swap_flags_frame g1 e f)|]. fold g2. rewrite Eg'. apply ns_frame_set_cut_values.
Qed.
Print Assumptions exchange_inv.

(* ------------------------------------------------------------------------------------------------ *)
(* N5: the pivot loop                                                                                *)
(* ------------------------------------------------------------------------------------------------ *)
Lemma neg_cut_tree_edge_spec : forall g e, neg_cut_tree_edge g = Some e ->
  In e (g_E g) /\ e_tree (gedge g e) = true.
Proof.
  intros g e H. unfold neg_cut_tree_edge in H. apply find_some in H. destruct H as [H1 H2].
  apply andb_prop in H2. split; [exact H1 | apply H2].
Qed.

Theorem pivot_loop_inv : forall fuel i maxitr g ll g' ll' b,
  ns_inv g ll -> pivot_loop fuel i maxitr g ll = Ok (g', ll', b) ->
  ns_inv g' ll' /\ ns_frame g g'.
Proof.
  induction fuel as [|fu IH]; intros i maxitr g ll g' ll' b I H.
  - cbn [pivot_loop] in H.
    destruct (neg_cut_tree_edge g) as [e|]; [|inversion H; subst; split; [exact I | apply ns_frame_refl]].
    destruct (maxitr <=? i); [inversion H; subst; split; [exact I | apply ns_frame_refl]|].
    destruct (min_slack_non_tree_edge g ll e) as [f|]; [discriminate|].
    inversion H; subst; split; [exact I | apply ns_frame_refl].
  - cbn [pivot_loop] in H.
    destruct (neg_cut_tree_edge g) as [e|] eqn:En; [|inversion H; subst; split; [exact I | apply ns_frame_refl]].
    destruct (maxitr <=? i); [inversion H; subst; split; [exact I | apply ns_frame_refl]|].
    destruct (min_slack_non_tree_edge g ll e) as [f|] eqn:Em;
      [|inversion H; subst; split; [exact I | apply ns_frame_refl]].
    destruct (exchange g ll e f) as [[g1 ll1]|err] eqn:Ex; cbn [bind] in H; [|discriminate].
    cbn [fst snd] in H. destruct (neg_cut_tree_edge_spec g e En) as [He Ht].
    destruct (exchange_inv g ll e f g1 ll1 I He Ht Em Ex) as (I1 & F1 & _ & _).
    destruct (IH _ _ _ _ _ _ _ I1 H) as [I2 F2].
    split; [exact I2 | eapply ns_frame_trans; eassumption].
Qed.
Print Assumptions pivot_loop_inv.

(* ------------------------------------------------------------------------------------------------ *)
(* the final theorem                                                                                 *)
(* ------------------------------------------------------------------------------------------------ *)
Theorem feasible_tree_inv : forall g g' ll,
  ns_wf g -> acyclic g -> feasible_tree g = Ok (g', ll) -> ns_inv g' ll /\ ns_frame g g'.
Proof.
  intros g g' ll W Hac H.
  destruct (feasible_tree_spanning g g' ll W Hac H) as [g0 (Hs & Eg & S0 & W0 & F0 & T0 & Fr0)].
  pose proof (set_cut_values_same_tree g0 ll) as S01. rewrite <- Eg in S01.
  split.
  - apply (ns_inv_same_tree g0 g' ll S01). constructor; assumption.
  - eapply ns_frame_trans; [exact Fr0|]. rewrite Eg. apply ns_frame_set_cut_values.
Qed.

Theorem exec_network_simplex_feasible : forall p g g',
  ns_wf g -> acyclic g -> ns_balance p <> 2 ->
  exec_network_simplex p g = Ok g' ->
  feasible g' /\ layers_nonneg g' /\ ns_frame g g'.
Proof.
  intros p g g' W Hac Hbal H. unfold exec_network_simplex, exec_network_simplex_capped in H.
  destruct (feasible_tree g) as [[g1 ll1]|err] eqn:Eft; cbn [bind] in H; [|discriminate].
  destruct (feasible_tree_inv g g1 ll1 W Hac Eft) as [I1 F1].
  match type of H with context [pivot_loop ?fu ?i ?mx g1 ll1] => destruct (pivot_loop fu i mx g1 ll1) as [[[g2 ll2] cap]|err] eqn:Epl end;
    cbn [bind] in H; [|discriminate].
  destruct (pivot_loop_inv _ _ _ _ _ _ _ _ I1 Epl) as [[W2 S2 Hf2 _ Hll2] F2].
  pose proof W2 as [[Wn2 Ein2 A2] _ _].
  destruct (normalize_layers g2 Wn2) as (L3 & _ & _).
  assert (Hf3 : feasible (normalize g2)).
  { intros e He. rewrite (lay_only_E L3) in He. rewrite (normalize_slack g2 Wn2 Ein2 e He). apply Hf2. exact He. }
  pose proof (normalize_nonneg g2 Wn2) as Hnn3.
  assert (F3 : ns_frame g (normalize g2)).
  { eapply ns_frame_trans; [exact F1|]. eapply ns_frame_trans; [exact F2 | apply (ns_frame_lay_only _ _ L3)]. }
  destruct (ns_balance p =? 1) eqn:E1.
  - cbn [bind] in H. inversion H; subst g'. cbn [fst].
    pose proof (vb_wf_lay_only L3 (nw_vb _ W2)) as W3.
    destruct (vbalance_feasible (normalize g2) W3 Hf3 Hnn3) as [Hf4 Hr4].
    split; [exact Hf4|]. split; [intros n Hn; apply (Hr4 n Hn)|].
    eapply ns_frame_trans; [exact F3 | apply ns_frame_lay_only; apply (vbalance_lay_only _ W3 Hf3 Hnn3)].
  - destruct (ns_balance p =? 2) eqn:E2; [apply Z.eqb_eq in E2; contradiction|].
    cbn [bind] in H. inversion H; subst g'. cbn [fst]. split; [exact Hf3|]. split; [exact Hnn3 | exact F3].
Qed.
Print Assumptions exec_network_simplex_feasible.

(* ------------------------------------------------------------------------------------------------ *)
(* the model's fuel for the pivot loop is never exhausted when maxitr <= 100000                       *)
(* ------------------------------------------------------------------------------------------------ *)
Lemma ws_loop_err : forall g rec n,
  (forall m low st e, rec m low st = Err e -> e = ErrFuel 24) ->
  forall es lim st e, ws_loop rec g n es lim st = Err e -> e = ErrFuel 24.
Proof.
  intros g rec n Hrec es; induction es as [|x t IH]; intros lim st e H; [cbn in H; discriminate|].
  destruct st as [[lims lows] vis]. cbn [ws_loop] in H. fold (ws_loop rec g n) in H.
  destruct (e_tree (gedge g x) && negb (mem_nat x vis))%bool; [|apply (IH _ _ _ H)].
  destruct (rec (connected_node g x n) lim (lims, lows, x :: vis)) as [r|err] eqn:Er; cbn [bind] in H.
  - apply (IH _ _ _ H).
  - inversion H; subst. apply (Hrec _ _ _ _ Er).
Qed.

Lemma walk_stree_err : forall g fuel n low st e, walk_stree fuel g n low st = Err e -> e = ErrFuel 24.
Proof.
  intros g fuel; induction fuel as [|f IH]; intros n low st e H; [cbn in H; inversion H; reflexivity|].
  destruct st as [[lims lows] vis]. rewrite walk_stree_S in H.
  destruct (ws_loop (walk_stree f g) g n (all_edges g n) low (lims, set_nth lows n low, vis))
    as [[lim [[l2 w2] v2]]|err] eqn:El; cbn [bind] in H; [discriminate|].
  inversion H; subst. apply (ws_loop_err g (walk_stree f g) n IH _ _ _ _ El).
Qed.

Lemma exchange_err : forall g ll e f err, exchange g ll e f = Err err -> err = ErrFuel 24 \/ err = ErrIndex 24.
Proof.
  intros g ll e f err H. unfold exchange in H. cbv zeta in H.
  match type of H with context [set_stree_values ?G] => destruct (set_stree_values G) as [ll2|err2] eqn:Es end;
    cbn [bind] in H; [discriminate|]. inversion H; subst err2. clear H.
  unfold set_stree_values in Es.
  match type of Es with context [g_N ?G] => destruct (g_N G) as [|root rest] end; [inversion Es; right; reflexivity|].
  match type of Es with context [walk_stree ?a ?b ?c ?d ?st] => destruct (walk_stree a b c d st) as [[nx [[l w] v]]|err2] eqn:Ew end;
    cbn [bind] in Es; [discriminate|]. inversion Es; subst err2. left. apply (walk_stree_err _ _ _ _ _ _ Ew).
Qed.

Theorem pivot_loop_fuel : forall fuel i maxitr g ll,
  maxitr - i < Z.of_nat fuel -> pivot_loop fuel i maxitr g ll <> Err (ErrFuel 26).
Proof.
  induction fuel as [|fu IH]; intros i maxitr g ll Hlt; cbn [pivot_loop].
  - destruct (neg_cut_tree_edge g); [|discriminate].
    destruct (maxitr <=? i) eqn:E; [discriminate|]. apply Z.leb_gt in E. cbn in Hlt. lia.
  - destruct (neg_cut_tree_edge g) as [e|]; [|discriminate].
    destruct (maxitr <=? i) eqn:E; [discriminate|]. apply Z.leb_gt in E.
    destruct (min_slack_non_tree_edge g ll e) as [f|]; [|discriminate].
    destruct (exchange g ll e f) as [r|err] eqn:Ex; cbn [bind].
    + apply IH. lia.
    + destruct (exchange_err g ll e f err Ex) as [-> | ->]; discriminate.
Qed.

Corollary model_pivot_fuel : forall maxitr g ll, maxitr <= 100000 ->
  pivot_loop (S (Z.to_nat (Z.min maxitr 100000))) 0 maxitr g ll <> Err (ErrFuel 26).
Proof. intros maxitr g ll H. apply pivot_loop_fuel. lia. Qed.

(* ------------------------------------------------------------------------------------------------ *)
(* Examples                                                                                          *)
(* ------------------------------------------------------------------------------------------------ *)
(* the invariant holds after feasible_tree on ex_edges2, a pivot is due, and it succeeds *)
Example ex2_inv : forall g ll, feasible_tree (pop_graph ex_edges2) = Ok (g, ll) -> ns_inv g ll.
Proof.
  intros g ll H. destruct ex_ns_hyps as (H1 & H2 & _).
  apply (feasible_tree_inv (pop_graph ex_edges2) g ll (ns_wfb_ok _ H1) (acyclicb_ok ex_rank2 _ H2) H).
Qed.

Example ex2_pivot_due :
  match feasible_tree (pop_graph ex_edges2) with
  | Ok (g, ll) =>
      match neg_cut_tree_edge g with
      | Some e => match min_slack_non_tree_edge g ll e with
                  | Some f => (Some e, Some f, is_ok (exchange g ll e f))
                  | None => (Some e, None, false)
                  end
      | None => (None, None, false)
      end
  | Err _ => (None, None, false)
  end = (Some 0%nat, Some 3%nat, true).
Proof. vm_compute. reflexivity. Qed.

(* the final theorem applied: the hypotheses hold for ex_edges2 and for the 5-node DAG *)
Example ex2_final : forall g', exec_network_simplex (mkNsParams 1 0 1) (pop_graph ex_edges2) = Ok g' ->
  feasible g' /\ layers_nonneg g' /\ ns_frame (pop_graph ex_edges2) g'.
Proof.
  intros g' H. destruct ex_ns_hyps as (H1 & H2 & _).
  apply (exec_network_simplex_feasible (mkNsParams 1 0 1) (pop_graph ex_edges2) g'
           (ns_wfb_ok _ H1) (acyclicb_ok ex_rank2 _ H2)); [cbn; discriminate | exact H].
Qed.

Example ex2_final_run :
  match exec_network_simplex (mkNsParams 1 0 1) (pop_graph ex_edges2) with
  | Ok g => (map (layer_of g) (g_N g), map (slack g) (g_E g))
  | Err _ => ([], [])
  end = ([0; 3; 3; 2; 4; 1; 2; 3; 2; 1], [2; 2; 1; 0; 0; 1; 0; 0; 0; 0; 0; 0; 0; 0]).
Proof. vm_compute. reflexivity. Qed.

Example ex5_final : forall g', exec_network_simplex (mkNsParams 1 0 1) ex5 = Ok g' ->
  feasible g' /\ layers_nonneg g' /\ ns_frame ex5 g'.
Proof.
  intros g' H. destruct ex5_wf as (H1 & H2).
  apply (exec_network_simplex_feasible (mkNsParams 1 0 1) ex5 g'
           (ns_wfb_ok _ H1) (acyclicb_ok _ _ H2)); [cbn; discriminate | exact H].
Qed.

Example ex5_final_run :
  match exec_network_simplex (mkNsParams 1 0 1) ex5 with
  | Ok g => (map (layer_of g) (g_N g), map (slack g) (g_E g))
  | Err _ => ([], [])
  end = ([0; 1; 1; 2; 3], [0; 0; 0; 0; 0; 2]).
Proof. vm_compute. reflexivity. Qed.

(* N3 on the example: the classification of in_head_component is the partition into the two components *)
Example ex5_in_head : forall g ll e n, feasible_tree ex5 = Ok (g, ll) ->
  In e (g_E g) -> e_tree (gedge g e) = true -> In n (g_N g) ->
  (in_head_component g ll n e = true <-> tconn g (avoid e) (e_to (gedge g e)) n) /\
  (in_head_component g ll n e = false <-> tconn g (avoid e) (e_from (gedge g e)) n).
Proof.
  intros g ll e n H He Ht Hn. destruct ex5_wf as (H1 & H2).
  destruct (feasible_tree_inv ex5 g ll (ns_wfb_ok _ H1) (acyclicb_ok _ _ H2) H) as [[W S _ _ Hll] _].
  apply (in_head_iff_conn g ll e n W S Hll He Ht Hn).
Qed.
