(* NSPositioner.v — the NetworkSimplex positioner keeps the nodes of a band NodeSpacing apart, unconditionally.

   S1  small list facts (index_of, nth_error, filter, upd on an arena with one appended element)
   S2  [add_node], [add_edge]: the two elementary construction steps of the auxiliary graph, and the invariant
       [aux_inv k rank a] (node list / edge list are [iota], every edge goes up in [rank], the adjacency lists are
       exactly the filters of the edge list) preserved by them
   S3  [aux_graph] is the composition of these steps ([aux_graph_eq], [edge_add_eq]); hence [aux_graph_inv]
   S4  [aux_graph_ns_wf], [aux_graph_acyclic], [aux_graph_sep_edge] (the separation edge of every pair of
       neighbours of a band is present), and [aux_phase2_feasible]: every layering returned by
       assign_layers NetworkSimplex on the auxiliary graph is [ns_feasible] (via [exec_network_simplex_feasible_all])
   S5  [ns_positioner_no_overlap_unconditional], [ns_positioner_nonneg], [ns_positioner_leftmost_zero],
       [phase4_ns_no_overlap]
   S6  the example [sx_g] of SinkColoringProofs.v
   S7  the backbone for the four positioners: [ns_positioner_pos_frame], [phase4_facts'], [stage23_nsp_wf],
       [stage45_ok'], [pipeline_backbone']
   S8  [W3_no_overlap']: no two node rectangles of a laid-out component overlap, for VAlign / PackRight /
       SinkColoring / NsPositioner; example [wc_W3_ns]

   Hypotheses on the ordered, layered component g ([nsp_wf]): [layers_wf g] (the bands are duplicate-free and
   within the arena), [NoDup (g_N g)], every node of a band is in [g_N g].  Nothing is assumed about the edges
   (an end that is not in g_N is mapped to index 0 by the model), the widths or the spacing for the feasibility;
   [sizes_ok s g] (s >= 0, widths of band nodes >= 0) is needed only to pass from neighbours to arbitrary i < j. *)
From Autog Require Import Base Graph Phase2 Phase4 Positioners SinkColoringProofs.
From Autog Require Import OptNormalize OptVbalance OptFeasible OptInit NSDefs NSHbalance.
From Autog Require ListLemmas.
From Coq Require Import Lqa Lia Qround.
Local Open Scope nat_scope.

(* ====================================================================================== *)
(** * 1. list facts                                                                         *)
(* ====================================================================================== *)

Lemma nsp_index_of_some : forall x l i, index_of x l = Some i -> i < length l /\ nth i l 0 = x.
Proof.
  intros x l; induction l as [|y t IH]; intros i H; cbn [index_of] in H; [discriminate|].
  destruct (Nat.eqb x y) eqn:E.
  - inversion H; subst i. apply Nat.eqb_eq in E. subst y. cbn. split; [lia|reflexivity].
  - destruct (index_of x t) as [j|]; cbn [option_map] in H; [|discriminate].
    inversion H; subst i. destruct (IH j eq_refl) as [A B]. cbn [length nth]. split; [lia|exact B].
Qed.

Lemma nsp_index_of_in : forall x l, In x l -> exists i, index_of x l = Some i.
Proof.
  intros x l; induction l as [|y t IH]; intros H; [destruct H|]. cbn [index_of].
  destruct (Nat.eqb x y) eqn:E; [exists 0; reflexivity|].
  destruct H as [H|H]; [subst y; rewrite Nat.eqb_refl in E; discriminate|].
  destruct (IH H) as [i Hi]. rewrite Hi. exists (S i). reflexivity.
Qed.

Lemma nsp_index_of_app : forall x A B, ~ In x A -> index_of x (A ++ x :: B) = Some (length A).
Proof.
  intros x A B; induction A as [|y t IH]; intros H; cbn [app index_of length].
  - rewrite Nat.eqb_refl. reflexivity.
  - destruct (Nat.eqb x y) eqn:E.
    + apply Nat.eqb_eq in E. subst y. exfalso. apply H. left. reflexivity.
    + rewrite IH; [reflexivity|]. intros H1. apply H. right. exact H1.
Qed.

Definition nsp_pos (x : nat) (l : list nat) : nat := match index_of x l with Some i => i | None => 0 end.

Lemma nsp_pos_app : forall x A B, ~ In x A -> nsp_pos x (A ++ x :: B) = length A.
Proof. intros x A B H. unfold nsp_pos. rewrite nsp_index_of_app by exact H. reflexivity. Qed.

(* neighbours in a list *)
Definition consec (l : list nat) (p n : nat) : Prop :=
  exists k, nth_error l k = Some p /\ nth_error l (S k) = Some n.

Lemma consec_split : forall l p n, consec l p n -> exists l1 l2, l = l1 ++ p :: n :: l2.
Proof.
  intros l p n [k [Hp Hn]]. destruct (nth_error_split l k Hp) as (l1 & l2 & E & Hlen).
  exists l1. subst l. rewrite nth_error_app2 in Hn by lia.
  replace (S k - length l1) with 1 in Hn by lia. cbn [nth_error] in Hn.
  destruct l2 as [|y l2]; cbn [nth_error] in Hn; [discriminate|]. inversion Hn; subst y.
  exists l2. reflexivity.
Qed.

Lemma consec_cons : forall x l p n, consec l p n -> consec (x :: l) p n.
Proof. intros x l p n [k [Hp Hn]]. exists (S k). split; assumption. Qed.

Lemma consec_cons_inv : forall x l p n, consec (x :: l) p n ->
  (p = x /\ exists t, l = n :: t) \/ consec l p n.
Proof.
  intros x l p n [k [Hp Hn]]. destruct k as [|k].
  - left. cbn [nth_error] in Hp, Hn. inversion Hp; subst x. split; [reflexivity|].
    destruct l as [|y t]; cbn [nth_error] in Hn; [discriminate|]. inversion Hn; subst y. exists t. reflexivity.
  - right. exists k. split; assumption.
Qed.

Lemma consec_in : forall l p n, consec l p n -> In p l /\ In n l.
Proof. intros l p n [k [Hp Hn]]. split; eapply nth_error_In; eassumption. Qed.

(* in a duplicate-free list the position of the right neighbour is the successor *)
Lemma nsp_pos_consec : forall l p n, NoDup l -> consec l p n -> nsp_pos p l < nsp_pos n l.
Proof.
  intros l p n Hnd Hc. destruct (consec_split l p n Hc) as (l1 & l2 & ->).
  assert (Hp : ~ In p l1).
  { intros H. apply NoDup_remove_2 in Hnd. apply Hnd. apply in_or_app. left. exact H. }
  rewrite (nsp_pos_app p l1 (n :: l2) Hp).
  change (l1 ++ p :: n :: l2) with (l1 ++ [p] ++ n :: l2) in *. rewrite app_assoc in *.
  assert (Hn : ~ In n (l1 ++ [p])) by (apply NoDup_remove_2 in Hnd; intros H; apply Hnd; apply in_or_app; left; exact H).
  rewrite (nsp_pos_app n (l1 ++ [p]) l2 Hn). rewrite app_length. cbn [length]. lia.
Qed.

(* a part of a flat_map *)
Lemma consec_app : forall A l B p n, consec l p n -> consec (A ++ l ++ B) p n.
Proof.
  intros A l B p n Hc. destruct (consec_split l p n Hc) as (l1 & l2 & ->).
  exists (length (A ++ l1)). rewrite <- app_assoc. rewrite (app_assoc A l1).
  split.
  - rewrite nth_error_app2 by lia. rewrite Nat.sub_diag. reflexivity.
  - rewrite nth_error_app2 by lia. replace (S (length (A ++ l1)) - length (A ++ l1)) with 1 by lia. reflexivity.
Qed.

Lemma consec_flat : forall (L : list layer) l p n, In l L -> consec (l_nodes l) p n ->
  consec (flat_map l_nodes L) p n.
Proof.
  intros L l p n Hl Hc. destruct (in_split l L Hl) as (L1 & L2 & ->).
  rewrite flat_map_app. cbn [flat_map]. apply consec_app. exact Hc.
Qed.

Lemma nsp_filter_snoc : forall (p : nat -> bool) l x,
  filter p (l ++ [x]) = filter p l ++ (if p x then [x] else []).
Proof. intros p l x. rewrite filter_app. reflexivity. Qed.

Lemma nsp_upd_last : forall A (l : list A) x f, upd (l ++ [x]) (length l) f = l ++ [f x].
Proof. intros A l x f; induction l as [|y t IH]; cbn; [reflexivity|]. rewrite IH. reflexivity. Qed.

Lemma nsp_iota_snoc : forall n, iota 0 (S n) = iota 0 n ++ [n].
Proof. intros n. rewrite ListLemmas.iota_snoc. reflexivity. Qed.

Lemma nsp_in_iota : forall n x, In x (iota 0 n) <-> x < n.
Proof. intros n x. rewrite ListLemmas.in_iota. lia. Qed.

Lemma NoDup_app_iota : forall (l : list nat) m k, NoDup l -> (forall n, In n l -> n < m) -> NoDup (l ++ iota m k).
Proof.
  intros l m k; induction l as [|x t IH]; intros Hnd Hlt; cbn [app]; [apply ListLemmas.NoDup_iota|].
  inversion Hnd as [|? ? Hx Ht]; subst. constructor.
  - intros H. apply in_app_or in H. destruct H as [H|H]; [contradiction|].
    apply ListLemmas.in_iota in H. specialize (Hlt x (or_introl eq_refl)). lia.
  - apply IH; [exact Ht|intros n Hn; apply Hlt; right; exact Hn].
Qed.

(* ====================================================================================== *)
(** * 2. the construction steps and their invariant                                        *)
(* ====================================================================================== *)

Definition add_node (a : graph) : graph :=
  with_N (with_na a (g_na a ++ [node0])) (g_N a ++ [length (g_na a)]).

Definition add_edge (a : graph) (u v : nat) (d w : Z) : graph :=
  let f := length (g_ea a) in
  let a := with_E (with_ea a (g_ea a ++ [mkEdge u v d w false false 0 [] false])) (g_E a ++ [f]) in
  let a := upd_node a u (fun nd => set_out (n_out nd ++ [f]) nd) in
  upd_node a v (fun nd => set_in (n_in nd ++ [f]) nd).

Lemma add_edge_na_len : forall a u v d w, length (g_na (add_edge a u v d w)) = length (g_na a).
Proof.
  intros. unfold add_edge. cbv zeta. rewrite !ListLemmas.upd_node_na_length. reflexivity.
Qed.

Lemma add_edge_ea : forall a u v d w,
  g_ea (add_edge a u v d w) = g_ea a ++ [mkEdge u v d w false false 0 [] false].
Proof. reflexivity. Qed.

Lemma add_edge_N : forall a u v d w, g_N (add_edge a u v d w) = g_N a.
Proof. reflexivity. Qed.

Lemma add_edge_E : forall a u v d w, g_E (add_edge a u v d w) = g_E a ++ [length (g_ea a)].
Proof. reflexivity. Qed.

Lemma add_edge_gedge_old : forall a u v d w e, e < length (g_ea a) ->
  gedge (add_edge a u v d w) e = gedge a e.
Proof. intros a u v d w e H. unfold gedge. rewrite add_edge_ea. apply app_nth1. exact H. Qed.

Lemma add_edge_gedge_new : forall a u v d w,
  gedge (add_edge a u v d w) (length (g_ea a)) = mkEdge u v d w false false 0 [] false.
Proof.
  intros a u v d w. unfold gedge. rewrite add_edge_ea. rewrite app_nth2 by lia.
  rewrite Nat.sub_diag. reflexivity.
Qed.

Lemma add_edge_gnode : forall a u v d w n, u < length (g_na a) -> v < length (g_na a) ->
  gnode (add_edge a u v d w) n =
  (if Nat.eqb v n then (fun nd => set_in (n_in nd ++ [length (g_ea a)]) nd) else (fun nd => nd))
    ((if Nat.eqb u n then (fun nd => set_out (n_out nd ++ [length (g_ea a)]) nd) else (fun nd => nd)) (gnode a n)).
Proof.
  intros a u v d w n Hu Hv. unfold add_edge. cbv zeta.
  rewrite ListLemmas.gnode_upd_node by (rewrite ListLemmas.upd_node_na_length; exact Hv).
  rewrite ListLemmas.gnode_upd_node by exact Hu.
  destruct (Nat.eqb v n), (Nat.eqb u n); reflexivity.
Qed.

Lemma add_edge_in : forall a u v d w n, u < length (g_na a) -> v < length (g_na a) ->
  n_in (gnode (add_edge a u v d w) n) =
  n_in (gnode a n) ++ (if Nat.eqb v n then [length (g_ea a)] else []).
Proof.
  intros a u v d w n Hu Hv. rewrite add_edge_gnode by assumption.
  destruct (Nat.eqb v n), (Nat.eqb u n); cbn [set_in set_out n_in]; try rewrite app_nil_r; reflexivity.
Qed.

Lemma add_edge_out : forall a u v d w n, u < length (g_na a) -> v < length (g_na a) ->
  n_out (gnode (add_edge a u v d w) n) =
  n_out (gnode a n) ++ (if Nat.eqb u n then [length (g_ea a)] else []).
Proof.
  intros a u v d w n Hu Hv. rewrite add_edge_gnode by assumption.
  destruct (Nat.eqb v n), (Nat.eqb u n); cbn [set_in set_out n_out]; try rewrite app_nil_r; reflexivity.
Qed.

Record aux_inv (k : nat) (rank : nat -> nat) (a : graph) : Prop := mkAuxInv {
  axi_N : g_N a = iota 0 (length (g_na a));
  axi_E : g_E a = iota 0 (length (g_ea a));
  axi_k : k <= length (g_na a);
  axi_ends : forall e, e < length (g_ea a) ->
      e_from (gedge a e) < length (g_na a) /\ e_to (gedge a e) < length (g_na a) /\
      rank (e_from (gedge a e)) < rank (e_to (gedge a e));
  axi_in : forall n, n < length (g_na a) ->
      n_in (gnode a n) = filter (fun e => Nat.eqb (e_to (gedge a e)) n) (g_E a);
  axi_out : forall n, n < length (g_na a) ->
      n_out (gnode a n) = filter (fun e => Nat.eqb (e_from (gedge a e)) n) (g_E a)
}.

Lemma nsp_filter_ext_in : forall (p q : nat -> bool) l, (forall x, In x l -> p x = q x) -> filter p l = filter q l.
Proof.
  intros p q l; induction l as [|x t IH]; intros H; cbn [filter]; [reflexivity|].
  rewrite (H x) by (left; reflexivity). rewrite IH by (intros y Hy; apply H; right; exact Hy). reflexivity.
Qed.

Lemma add_edge_inv : forall k rank a u v d w,
  aux_inv k rank a -> u < length (g_na a) -> v < length (g_na a) -> rank u < rank v ->
  aux_inv k rank (add_edge a u v d w).
Proof.
  intros k rank a u v d w [I1 I2 I3 I4 I5 I6] Hu Hv Hr.
  assert (Hold : forall e, In e (g_E a) -> gedge (add_edge a u v d w) e = gedge a e).
  { intros e He. apply add_edge_gedge_old. rewrite I2 in He. apply nsp_in_iota in He. exact He. }
  constructor.
  - rewrite add_edge_N, add_edge_na_len. exact I1.
  - rewrite add_edge_E, add_edge_ea, app_length. cbn [length]. rewrite Nat.add_1_r, nsp_iota_snoc, I2. reflexivity.
  - rewrite add_edge_na_len. exact I3.
  - intros e He. rewrite add_edge_ea, app_length in He. cbn [length] in He. rewrite add_edge_na_len.
    destruct (Nat.eq_dec e (length (g_ea a))) as [->|Hne].
    + rewrite add_edge_gedge_new. cbn [e_from e_to]. auto.
    + rewrite add_edge_gedge_old by lia. apply I4. lia.
  - intros n Hn. rewrite add_edge_na_len in Hn. rewrite add_edge_in by assumption.
    rewrite add_edge_E, nsp_filter_snoc, add_edge_gedge_new. cbn [e_to]. rewrite (I5 n Hn). f_equal.
    apply nsp_filter_ext_in. intros e He. rewrite Hold by exact He. reflexivity.
  - intros n Hn. rewrite add_edge_na_len in Hn. rewrite add_edge_out by assumption.
    rewrite add_edge_E, nsp_filter_snoc, add_edge_gedge_new. cbn [e_from]. rewrite (I6 n Hn). f_equal.
    apply nsp_filter_ext_in. intros e He. rewrite Hold by exact He. reflexivity.
Qed.

Lemma add_node_inv : forall k rank a, aux_inv k rank a -> aux_inv k rank (add_node a).
Proof.
  intros k rank a [I1 I2 I3 I4 I5 I6].
  assert (L : length (g_na (add_node a)) = S (length (g_na a))).
  { unfold add_node. cbn [with_N with_na g_na]. rewrite app_length. cbn [length]. lia. }
  assert (GN : forall n, n < length (g_na a) -> gnode (add_node a) n = gnode a n).
  { intros n Hn. unfold gnode, add_node. cbn [with_N with_na g_na]. apply app_nth1. exact Hn. }
  assert (GL : gnode (add_node a) (length (g_na a)) = node0).
  { unfold gnode, add_node. cbn [with_N with_na g_na]. rewrite app_nth2 by lia. rewrite Nat.sub_diag. reflexivity. }
  assert (F : forall (sel : edge -> nat),
             (forall e, e < length (g_ea a) -> sel (gedge a e) < length (g_na a)) ->
             filter (fun e => Nat.eqb (sel (gedge a e)) (length (g_na a))) (g_E a) = []).
  { intros sel Hs. apply ListLemmas.filter_false. intros e He. rewrite I2 in He. apply nsp_in_iota in He.
    apply Nat.eqb_neq. specialize (Hs e He). lia. }
  constructor.
  - rewrite L, nsp_iota_snoc, <- I1. reflexivity.
  - exact I2.
  - rewrite L. lia.
  - intros e He. change (gedge (add_node a) e) with (gedge a e). rewrite L.
    change (g_ea (add_node a)) with (g_ea a) in He. destruct (I4 e He) as (A & B & C). repeat split; try lia.
  - intros n Hn. rewrite L in Hn. change (g_E (add_node a)) with (g_E a).
    change (fun e => Nat.eqb (e_to (gedge (add_node a) e)) n) with (fun e => Nat.eqb (e_to (gedge a e)) n).
    destruct (Nat.eq_dec n (length (g_na a))) as [->|Hne].
    + rewrite GL. cbn [n_in node0]. symmetry. apply (F e_to). intros e He. apply I4. exact He.
    + rewrite GN by lia. apply I5. lia.
  - intros n Hn. rewrite L in Hn. change (g_E (add_node a)) with (g_E a).
    change (fun e => Nat.eqb (e_from (gedge (add_node a) e)) n) with (fun e => Nat.eqb (e_from (gedge a e)) n).
    destruct (Nat.eq_dec n (length (g_na a))) as [->|Hne].
    + rewrite GL. cbn [n_out node0]. symmetry. apply (F e_from). intros e He. apply I4. exact He.
    + rewrite GN by lia. apply I6. lia.
Qed.

(* presence of an edge with given ends and delta; monotone in both steps *)
Definition has_edge (a : graph) (u v : nat) (d : Z) : Prop :=
  exists f, f < length (g_ea a) /\ e_from (gedge a f) = u /\ e_to (gedge a f) = v /\ e_delta (gedge a f) = d.

Lemma has_edge_add_edge_old : forall a u v d w u' v' d',
  has_edge a u' v' d' -> has_edge (add_edge a u v d w) u' v' d'.
Proof.
  intros a u v d w u' v' d' (f & Hf & A & B & C). exists f.
  rewrite add_edge_ea, app_length, add_edge_gedge_old by exact Hf. cbn [length]. repeat split; try assumption. lia.
Qed.

Lemma has_edge_add_edge_new : forall a u v d w, has_edge (add_edge a u v d w) u v d.
Proof.
  intros a u v d w. exists (length (g_ea a)). rewrite add_edge_gedge_new, add_edge_ea, app_length. cbn.
  repeat split. lia.
Qed.

(* ====================================================================================== *)
(** * 3. [aux_graph] as a composition of the steps                                          *)
(* ====================================================================================== *)

Definition aux_base (g : graph) : graph :=
  mkGraph (map (fun n => set_wh (nW g n) (nH g n) node0) (g_N g)) [] (iota 0 (length (g_N g))) [] [].

(* the model's step for an edge that is neither a self loop nor flat *)
Definition edge_add (a : graph) (u v : nat) (w : Z) : graph :=
  let ne := length (g_na a) in
  let eu := length (g_ea a) in let ev := S eu in
  let a := with_N (with_na a (g_na a ++ [set_out [eu; ev] node0])) (g_N a ++ [ne]) in
  let a := with_E (with_ea a (g_ea a ++ [mkEdge ne u 0 w false false 0 [] false; mkEdge ne v 0 w false false 0 [] false]))
                  (g_E a ++ [eu; ev]) in
  let a := upd_node a u (fun n => set_in (n_in n ++ [eu]) n) in
  upd_node a v (fun n => set_in (n_in n ++ [ev]) n).

Definition edge_step (factor : Z) (g : graph) (a : graph) (e : nat) : graph :=
  if self_loop g e || is_flat g e then a else
  edge_add a (ns_idx g (e_from (gedge g e))) (ns_idx g (e_to (gedge g e)))
           (e_weight (gedge g e) * omega g e * factor)%Z.

Definition sep_delta (s : Q) (g : graph) (p n : nat) : Z := Qceiling (nW g p / 2 + nW g n / 2 + s).

Definition sep_step (s : Q) (g : graph) (acc : graph * option nat) (n : nat) : graph * option nat :=
  let '(a, prev) := acc in
  match prev with
  | None => (a, Some n)
  | Some p => (add_edge a (ns_idx g p) (ns_idx g n) (sep_delta s g p n) 0, Some n)
  end.

Definition sep_layer (s : Q) (g : graph) (a : graph) (l : layer) : graph :=
  fst (fold_left (sep_step s g) (l_nodes l) (a, None)).

Lemma aux_graph_eq : forall f s g,
  aux_graph f s g = fold_left (sep_layer s g) (g_L g) (fold_left (edge_step f g) (g_E g) (aux_base g)).
Proof. intros f s g. reflexivity. Qed.

Lemma nsp_upd_last' : forall A (l : list A) x f n, n = length l -> upd (l ++ [x]) n f = l ++ [f x].
Proof. intros A l x f n ->. apply nsp_upd_last. Qed.

Lemma nsp_arena_l : forall (na : list node) y u v (f1 f2 : node -> node), u < length na -> v < length na ->
  upd (upd (na ++ [y]) u f1) v f2 = upd (upd na u f1) v f2 ++ [y].
Proof.
  intros na y u v f1 f2 Hu Hv. rewrite ListLemmas.upd_app_l by exact Hu.
  rewrite ListLemmas.upd_app_l by (rewrite ListLemmas.upd_length; exact Hv). reflexivity.
Qed.

Lemma nsp_arena_r : forall (na : list node) x u v (f1 f2 o1 o2 : node -> node), u < length na -> v < length na ->
  upd (upd (upd (upd (na ++ [x]) (length na) o1) u f1) (length na) o2) v f2 = upd (upd na u f1) v f2 ++ [o2 (o1 x)].
Proof.
  intros na x u v f1 f2 o1 o2 Hu Hv. rewrite nsp_upd_last.
  rewrite ListLemmas.upd_app_l by exact Hu.
  rewrite (nsp_upd_last' _ (upd na u f1) (o1 x) o2 (length na)) by (rewrite ListLemmas.upd_length; reflexivity).
  rewrite ListLemmas.upd_app_l by (rewrite ListLemmas.upd_length; exact Hv). reflexivity.
Qed.

Lemma nsp_graph_ext : forall a b, g_na a = g_na b -> g_ea a = g_ea b -> g_N a = g_N b -> g_E a = g_E b ->
  g_L a = g_L b -> a = b.
Proof. intros [a1 a2 a3 a4 a5] [b1 b2 b3 b4 b5]; cbn; intros; subst; reflexivity. Qed.

Lemma add_edge_na : forall a u v d w,
  g_na (add_edge a u v d w) =
  upd (upd (g_na a) u (fun nd => set_out (n_out nd ++ [length (g_ea a)]) nd)) v
      (fun nd => set_in (n_in nd ++ [length (g_ea a)]) nd).
Proof. reflexivity. Qed.

Lemma add_edge_L : forall a u v d w, g_L (add_edge a u v d w) = g_L a.
Proof. reflexivity. Qed.

Lemma edge_add_na : forall a u v w,
  g_na (edge_add a u v w) =
  upd (upd (g_na a ++ [set_out [length (g_ea a); S (length (g_ea a))] node0]) u
           (fun n => set_in (n_in n ++ [length (g_ea a)]) n)) v
      (fun n => set_in (n_in n ++ [S (length (g_ea a))]) n).
Proof. reflexivity. Qed.

Lemma edge_add_eq : forall a u v w, u < length (g_na a) -> v < length (g_na a) ->
  edge_add a u v w = add_edge (add_edge (add_node a) (length (g_na a)) u 0 w) (length (g_na a)) v 0 w.
Proof.
  intros a u v w Hu Hv. apply nsp_graph_ext.
  - rewrite edge_add_na, !add_edge_na, add_edge_ea, app_length. cbn [length]. rewrite Nat.add_1_r.
    change (g_na (add_node a)) with (g_na a ++ [node0]). change (g_ea (add_node a)) with (g_ea a).
    rewrite nsp_arena_l by assumption. rewrite nsp_arena_r by assumption. reflexivity.
  - rewrite !add_edge_ea. change (g_ea (add_node a)) with (g_ea a). rewrite <- app_assoc. reflexivity.
  - reflexivity.
  - rewrite !add_edge_E, add_edge_ea, app_length. cbn [length]. rewrite Nat.add_1_r.
    change (g_E (add_node a)) with (g_E a). change (g_ea (add_node a)) with (g_ea a).
    rewrite <- app_assoc. reflexivity.
  - reflexivity.
Qed.

Section AuxInv.
  Variable f : Z.
  Variable s : Q.
  Variable g : graph.
  Hypothesis Hwf : layers_wf g.
  Hypothesis HLN : forall n, in_layers g n -> In n (g_N g).
  Hypothesis Hne : g_N g <> [].

  Let k := length (g_N g).
  (* extra nodes below everything; original nodes by their position in the concatenated layers *)
  Definition aux_rank (i : nat) : nat :=
    if Nat.ltb i (length (g_N g)) then S (nsp_pos (nth i (g_N g) 0) (flat_map l_nodes (g_L g))) else 0.

  Lemma ns_idx_lt : forall n, In n (g_N g) -> ns_idx g n < k /\ nth (ns_idx g n) (g_N g) 0 = n.
  Proof.
    intros n Hn. unfold ns_idx. destruct (nsp_index_of_in n (g_N g) Hn) as [i Hi]. rewrite Hi.
    apply nsp_index_of_some. exact Hi.
  Qed.

  (* an edge end outside the node list is mapped to index 0, as in the model *)
  Lemma ns_idx_lt_any : forall n, ns_idx g n < k.
  Proof.
    intros n. unfold ns_idx. destruct (index_of n (g_N g)) as [i|] eqn:E.
    - apply (nsp_index_of_some _ _ _ E).
    - unfold k. destruct (g_N g); [contradiction|cbn; lia].
  Qed.

  Lemma aux_rank_idx : forall n, In n (g_N g) ->
    aux_rank (ns_idx g n) = S (nsp_pos n (flat_map l_nodes (g_L g))).
  Proof.
    intros n Hn. destruct (ns_idx_lt n Hn) as [A B]. unfold aux_rank.
    destruct (Nat.ltb_spec (ns_idx g n) (length (g_N g))) as [_|C]; [|unfold k in A; lia].
    rewrite B. reflexivity.
  Qed.

  Lemma aux_rank_extra : forall i, k <= i -> aux_rank i = 0.
  Proof.
    intros i Hi. unfold aux_rank. destruct (Nat.ltb_spec i (length (g_N g))) as [C|_]; [unfold k in Hi; lia|reflexivity].
  Qed.

  Lemma aux_rank_orig : forall i, i < k -> 0 < aux_rank i.
  Proof.
    intros i Hi. unfold aux_rank. destruct (Nat.ltb_spec i (length (g_N g))) as [_|C]; [lia|unfold k in Hi; lia].
  Qed.

  Lemma aux_rank_consec : forall l p n, In l (g_L g) -> consec (l_nodes l) p n ->
    aux_rank (ns_idx g p) < aux_rank (ns_idx g n).
  Proof.
    intros l p n Hl Hc. destruct (consec_in _ _ _ Hc) as [Ip In_].
    rewrite !aux_rank_idx by (apply HLN; eapply in_layers_intro; eassumption).
    apply -> Nat.succ_lt_mono. apply nsp_pos_consec; [apply Hwf|]. eapply consec_flat; eassumption.
  Qed.

  Lemma aux_base_inv : aux_inv k aux_rank (aux_base g).
  Proof.
    assert (L : length (g_na (aux_base g)) = k) by (unfold aux_base; cbn [g_na]; apply map_length).
    constructor.
    - rewrite L. reflexivity.
    - reflexivity.
    - rewrite L. lia.
    - intros e He. cbn in He. lia.
    - intros n Hn. rewrite L in Hn. unfold gnode, aux_base. cbn [g_na g_E filter].
      rewrite (nth_indep _ node0 (set_wh (nW g 0) (nH g 0) node0)) by (rewrite map_length; exact Hn).
      rewrite (map_nth (fun n => set_wh (nW g n) (nH g n) node0)). reflexivity.
    - intros n Hn. rewrite L in Hn. unfold gnode, aux_base. cbn [g_na g_E filter].
      rewrite (nth_indep _ node0 (set_wh (nW g 0) (nH g 0) node0)) by (rewrite map_length; exact Hn).
      rewrite (map_nth (fun n => set_wh (nW g n) (nH g n) node0)). reflexivity.
  Qed.

  Lemma edge_add_inv : forall a u v w, aux_inv k aux_rank a -> u < k -> v < k ->
    aux_inv k aux_rank (edge_add a u v w) /\
    (forall u' v' d', has_edge a u' v' d' -> has_edge (edge_add a u v w) u' v' d').
  Proof.
    intros a u v w I Hu Hv. pose proof (axi_k _ _ _ I) as Hk.
    rewrite edge_add_eq by lia.
    pose proof (add_node_inv _ _ _ I) as I1.
    assert (L1 : length (g_na (add_node a)) = S (length (g_na a))).
    { unfold add_node. cbn [with_N with_na g_na]. rewrite app_length. cbn [length]. lia. }
    assert (R : forall x, x < k -> aux_rank (length (g_na a)) < aux_rank x).
    { intros x Hx. rewrite aux_rank_extra by exact Hk. apply aux_rank_orig. exact Hx. }
    assert (I2 : aux_inv k aux_rank (add_edge (add_node a) (length (g_na a)) u 0 w)).
    { apply add_edge_inv; [exact I1| rewrite L1; lia | rewrite L1; lia | apply R, Hu]. }
    split.
    - apply add_edge_inv; [exact I2 | | | apply R, Hv]; rewrite add_edge_na_len, L1; lia.
    - intros u' v' d' H. apply has_edge_add_edge_old, has_edge_add_edge_old.
      destruct H as (e & He & A & B & C). exists e. auto.
  Qed.

  Lemma edge_fold_inv : forall es a, aux_inv k aux_rank a ->
    aux_inv k aux_rank (fold_left (edge_step f g) es a).
  Proof.
    induction es as [|e t IH]; intros a I; cbn [fold_left]; [exact I|].
    apply IH. unfold edge_step. destruct (self_loop g e || is_flat g e); [exact I|].
    apply edge_add_inv; [exact I | apply ns_idx_lt_any | apply ns_idx_lt_any].
  Qed.

  (* the separation edges of one band *)
  Definition chain_of (prev : option nat) (ns : list nat) : list nat :=
    match prev with Some p => p :: ns | None => ns end.

  Lemma sep_fold_spec : forall ns a prev,
    aux_inv k aux_rank a ->
    (forall x, In x (chain_of prev ns) -> In x (g_N g)) ->
    (forall p n, consec (chain_of prev ns) p n -> aux_rank (ns_idx g p) < aux_rank (ns_idx g n)) ->
    let a' := fst (fold_left (sep_step s g) ns (a, prev)) in
    aux_inv k aux_rank a' /\
    (forall u v d, has_edge a u v d -> has_edge a' u v d) /\
    (forall p n, consec (chain_of prev ns) p n -> has_edge a' (ns_idx g p) (ns_idx g n) (sep_delta s g p n)).
  Proof.
    induction ns as [|x t IH]; intros a prev I Hin Hrk; cbn [fold_left fst].
    - split; [exact I|]. split; [auto|]. intros p n Hc. exfalso.
      destruct prev as [q|]; cbn [chain_of] in Hc; destruct Hc as [j [Hp Hn]].
      + destruct j; cbn [nth_error] in Hn; discriminate.
      + destruct j; cbn [nth_error] in Hp; discriminate.
    - destruct prev as [q|]; cbn [sep_step].
      + cbn [chain_of] in Hin, Hrk.
        assert (Hq : In q (g_N g)) by (apply Hin; left; reflexivity).
        assert (Hx : In x (g_N g)) by (apply Hin; right; left; reflexivity).
        pose proof (axi_k _ _ _ I) as Hk.
        assert (Hqx : consec (q :: x :: t) q x) by (exists 0; split; reflexivity).
        assert (I' : aux_inv k aux_rank (add_edge a (ns_idx g q) (ns_idx g x) (sep_delta s g q x) 0)).
        { apply add_edge_inv; [exact I| | |apply Hrk, Hqx].
          - destruct (ns_idx_lt q Hq). lia.
          - destruct (ns_idx_lt x Hx). lia. }
        destruct (IH _ (Some x) I') as (J1 & J2 & J3).
        * cbn [chain_of]. intros y Hy. apply Hin. right. exact Hy.
        * cbn [chain_of]. intros p n Hc. apply Hrk. apply consec_cons. exact Hc.
        * split; [exact J1|]. split.
          -- intros u v d H. apply J2. apply has_edge_add_edge_old. exact H.
          -- intros p n Hc. cbn [chain_of] in Hc. destruct (consec_cons_inv _ _ _ _ Hc) as [[-> [t' Et]]|Hc'].
             ++ inversion Et; subst. apply J2. apply has_edge_add_edge_new.
             ++ apply J3. exact Hc'.
      + cbn [chain_of] in Hin, Hrk. apply (IH a (Some x) I); cbn [chain_of]; assumption.
  Qed.

  Lemma sep_layers_spec : forall ls a, (forall l, In l ls -> In l (g_L g)) -> aux_inv k aux_rank a ->
    let a' := fold_left (sep_layer s g) ls a in
    aux_inv k aux_rank a' /\
    (forall u v d, has_edge a u v d -> has_edge a' u v d) /\
    (forall l p n, In l ls -> consec (l_nodes l) p n -> has_edge a' (ns_idx g p) (ns_idx g n) (sep_delta s g p n)).
  Proof.
    induction ls as [|l t IH]; intros a Hls I; cbn [fold_left].
    - split; [exact I|]. split; [auto|]. intros l p n [].
    - assert (Hl : In l (g_L g)) by (apply Hls; left; reflexivity).
      destruct (sep_fold_spec (l_nodes l) a None I) as (J1 & J2 & J3).
      + cbn [chain_of]. intros x Hx. apply HLN. eapply in_layers_intro; eassumption.
      + cbn [chain_of]. intros p n Hc. eapply aux_rank_consec; eassumption.
      + fold (sep_layer s g a l) in J1, J2, J3. cbn [chain_of] in J3.
        destruct (IH (sep_layer s g a l)) as (K1 & K2 & K3); [intros x Hx; apply Hls; right; exact Hx|exact J1|].
        split; [exact K1|]. split.
        * intros u v d H. apply K2, J2, H.
        * intros l' p n [<-|Hl'] Hc; [apply K2, J3, Hc | eapply K3; eassumption].
  Qed.

  Theorem aux_graph_inv :
    aux_inv k aux_rank (aux_graph f s g) /\
    forall l p n, In l (g_L g) -> consec (l_nodes l) p n ->
      has_edge (aux_graph f s g) (ns_idx g p) (ns_idx g n) (sep_delta s g p n).
  Proof.
    rewrite aux_graph_eq.
    destruct (sep_layers_spec (g_L g) (fold_left (edge_step f g) (g_E g) (aux_base g))) as (A & _ & C).
    - auto.
    - apply edge_fold_inv, aux_base_inv.
    - split; [exact A | exact C].
  Qed.
End AuxInv.

(* ====================================================================================== *)
(** * 4. the auxiliary graph is a well-formed acyclic network-simplex input                 *)
(* ====================================================================================== *)

Lemma aux_inv_ns_wf : forall k rank a, aux_inv k rank a -> ns_wf a /\ acyclic a.
Proof.
  intros k rank a [I1 I2 I3 I4 I5 I6].
  assert (HE : forall e, In e (g_E a) -> e < length (g_ea a)) by (intros e He; rewrite I2 in He; apply nsp_in_iota, He).
  assert (HN : forall n, In n (g_N a) <-> n < length (g_na a)) by (intros n; rewrite I1; apply nsp_in_iota).
  assert (Hac : acyclic a).
  { exists rank. intros e He. apply I4, HE, He. }
  split; [|exact Hac]. constructor.
  - constructor.
    + split; [rewrite I1; apply ListLemmas.NoDup_iota | intros n Hn; apply HN, Hn].
    + intros e He. destruct (I4 e (HE e He)) as (A & B & _). split; apply HN; assumption.
    + intros n Hn. apply HN in Hn. rewrite (I5 n Hn), (I6 n Hn).
      split; [|split; [|split; reflexivity]]; intros e; rewrite filter_In, Nat.eqb_eq; reflexivity.
  - rewrite I2. apply ListLemmas.NoDup_iota.
  - apply acyclic_no_self_loops, Hac.
Qed.

(* the hypotheses on the ordered, layered component *)
Record nsp_wf (g : graph) : Prop := mkNspWf {
  pw_layers : layers_wf g;
  pw_N : NoDup (g_N g);
  pw_LN : forall n, in_layers g n -> In n (g_N g)
}.

Theorem aux_graph_ns_wf : forall f s g, nsp_wf g -> g_N g <> [] -> ns_wf (aux_graph f s g).
Proof.
  intros f s g [H1 H2 H3] H4. destruct (aux_graph_inv f s g H1 H3 H4) as [I _].
  apply (aux_inv_ns_wf _ _ _ I).
Qed.
Print Assumptions aux_graph_ns_wf.

Theorem aux_graph_acyclic : forall f s g, nsp_wf g -> g_N g <> [] -> acyclic (aux_graph f s g).
Proof.
  intros f s g [H1 H2 H3] H4. destruct (aux_graph_inv f s g H1 H3 H4) as [I _].
  apply (aux_inv_ns_wf _ _ _ I).
Qed.
Print Assumptions aux_graph_acyclic.

(* the separation edge of two neighbours of a band *)
Theorem aux_graph_sep_edge : forall f s g l k p n, nsp_wf g -> g_N g <> [] ->
  In l (g_L g) -> nth_error (l_nodes l) k = Some p -> nth_error (l_nodes l) (S k) = Some n ->
  exists e, In e (g_E (aux_graph f s g)) /\
            e_from (gedge (aux_graph f s g) e) = ns_idx g p /\
            e_to (gedge (aux_graph f s g) e) = ns_idx g n /\
            e_delta (gedge (aux_graph f s g) e) = Qceiling (nW g p / 2 + nW g n / 2 + s).
Proof.
  intros f s g l k p n [H1 H2 H3] H4 Hl Hp Hn.
  destruct (aux_graph_inv f s g H1 H3 H4) as [I C].
  destruct (C l p n Hl (ex_intro _ k (conj Hp Hn))) as (e & He & A & B & D).
  exists e. split; [|auto]. rewrite (axi_E _ _ _ I). apply nsp_in_iota, He.
Qed.

Lemma init_layer_slices_layer : forall g g' n, init_layer_slices g = Ok g' -> layer_of g' n = layer_of g n.
Proof.
  intros g g' n H. unfold init_layer_slices in H. cbv zeta in H.
  destruct (existsb (fun n => (layer_of g n <? 0)%Z) (g_N g)); [discriminate|].
  inversion H; subst g'. reflexivity.
Qed.

Theorem aux_phase2_feasible : forall th f s g a, nsp_wf g ->
  assign_layers NetworkSimplex (ns_params th g) (aux_graph f s g) = Ok a -> ns_feasible s g a.
Proof.
  intros th f s g a W H l k p n Hl Hp Hn.
  assert (Hne : g_N g <> []).
  { intros E0. assert (Hin : In p (g_N g)).
    { apply (pw_LN g W). eapply in_layers_intro; [exact Hl|eapply nth_error_In, Hp]. }
    rewrite E0 in Hin. destruct Hin. }
  destruct (aux_graph_sep_edge f s g l k p n W Hne Hl Hp Hn) as (e & He & A & B & D).
  pose proof (aux_graph_ns_wf f s g W Hne) as Wa. pose proof (aux_graph_acyclic f s g W Hne) as Ac.
  unfold assign_layers in H.
  destruct (Nat.eqb (length (g_N (aux_graph f s g))) 1) eqn:E1.
  - (* a single auxiliary node: there is no separation edge *)
    exfalso. apply Nat.eqb_eq in E1.
    destruct Wa as [[_ Ein _] _ Nl]. destruct (Ein e He) as [F T]. specialize (Nl e He).
    destruct (g_N (aux_graph f s g)) as [|x [|y t]]; cbn [length] in E1; try discriminate.
    destruct F as [F|[]], T as [T|[]]. congruence.
  - rename H into E2. rename a into a1.
    destruct (exec_network_simplex_feasible_all _ _ _ Wa Ac E2) as (Hf & _ & Fr).
    assert (He1 : In e (g_E a1)) by (rewrite (nf_E _ _ Fr); exact He).
    specialize (Hf e He1). unfold slack in Hf.
    destruct (nf_edge _ _ Fr e) as (T1 & T2 & T3 & _). rewrite T1, T2, T3, A, B, D in Hf. lia.
Qed.
Print Assumptions aux_phase2_feasible.

(* ====================================================================================== *)
(** * 5. the positioner keeps the nodes of a band NodeSpacing apart                         *)
(* ====================================================================================== *)
Local Open Scope Q_scope.

Theorem ns_positioner_no_overlap_unconditional : forall th f s g g' l i j a b,
  exec_ns_positioner th f s g = Ok g' -> nsp_wf g -> sizes_ok s g ->
  In l (g_L g) -> (i < j)%nat ->
  nth_error (l_nodes l) i = Some a -> nth_error (l_nodes l) j = Some b ->
  nX g' a + nW g a + s <= nX g' b.
Proof.
  intros th f s g g' l i j a b H W Hsz Hl Hij Ha Hb.
  apply (ns_positioner_no_overlap th f s g g' l i j a b H (pw_layers g W) Hsz (pw_N g W) (pw_LN g W));
    try assumption.
  intros a0 Ha0. apply (aux_phase2_feasible th f s g a0 W Ha0).
Qed.
Print Assumptions ns_positioner_no_overlap_unconditional.

(* the positioner succeeds whenever network simplex does, and it changes nothing but x and the band heights *)
Lemma ns_finish_xonly : forall g a, xonly (ns_g0 g) (ns_finish g a).
Proof.
  intros g a. unfold ns_finish. destruct (ns_xs g) as [|n0 t]; [apply ns_g1_xonly|].
  eapply xonly_trans; [apply ns_g1_xonly|].
  apply (fold_upd_xonly (shift_x (ns_lbound g a n0))). intros nd. reflexivity.
Qed.

Theorem ns_positioner_widths : forall th f s g g' n,
  exec_ns_positioner th f s g = Ok g' -> nW g' n = nW g n.
Proof.
  intros th f s g g' n H. rewrite exec_ns_positioner_eq in H.
  destruct (assign_layers NetworkSimplex (ns_params th g) (aux_graph f s g)) as [a|e]; cbn [bind] in H; [|discriminate].
  inversion H; subst g'. rewrite (xonly_nW _ _ (ns_finish_xonly g a)). reflexivity.
Qed.

(* the same statement with the widths read in the result *)
Corollary ns_positioner_no_overlap_result : forall th f s g g' l i j a b,
  exec_ns_positioner th f s g = Ok g' -> nsp_wf g -> sizes_ok s g ->
  In l (g_L g) -> (i < j)%nat ->
  nth_error (l_nodes l) i = Some a -> nth_error (l_nodes l) j = Some b ->
  nX g' a + nW g' a + s <= nX g' b.
Proof.
  intros th f s g g' l i j a b H. rewrite (ns_positioner_widths th f s g g' a H).
  apply (ns_positioner_no_overlap_unconditional th f s g g' l i j a b H).
Qed.

(* the minimum taken by the positioner *)
Lemma fold_Qmin'_le : forall (h : nat -> Q) xs m0,
  let m := fold_left (fun m n => Qmin' m (h n)) xs m0 in
  m <= m0 /\ (forall n, In n xs -> m <= h n) /\ (m = m0 \/ exists n, In n xs /\ m = h n).
Proof.
  intros h xs; induction xs as [|x t IH]; intros m0; cbn [fold_left].
  - split; [apply Qle_refl|]. split; [intros n []|left; reflexivity].
  - destruct (IH (Qmin' m0 (h x))) as (A & B & C).
    assert (M : Qmin' m0 (h x) <= m0 /\ Qmin' m0 (h x) <= h x /\ (Qmin' m0 (h x) = m0 \/ Qmin' m0 (h x) = h x)).
    { unfold Qmin'. destruct (Qle_bool m0 (h x)) eqn:E.
      - apply Qle_bool_iff in E. split; [apply Qle_refl|]. split; [exact E|left; reflexivity].
      - assert (~ m0 <= h x) by (intros C'; apply Qle_bool_iff in C'; congruence).
        split; [lra|]. split; [apply Qle_refl|right; reflexivity]. }
    destruct M as (M1 & M2 & M3). split; [lra|]. split.
    + intros n [<-|Hn]; [lra|apply B, Hn].
    + destruct C as [C|[n [Hn C]]].
      * destruct M3 as [M3|M3]; [left; congruence|]. right. exists x. split; [left; reflexivity|congruence].
      * right. exists n. split; [right; exact Hn|exact C].
Qed.

(* x of every node of a band, with the shift: the leftmost edge is at 0 *)
Theorem ns_positioner_x_lb : forall th f s g g',
  exec_ns_positioner th f s g = Ok g' -> layers_wf g -> NoDup (g_N g) ->
  (forall n, in_layers g n -> In n (g_N g)) ->
  exists a lb,
    assign_layers NetworkSimplex (ns_params th g) (aux_graph f s g) = Ok a /\
    (forall n, in_layers g n -> nX g' n = inQ (layer_of a (ns_idx g n)) - nW g n / 2 - lb) /\
    (forall n, in_layers g n -> lb <= inQ (layer_of a (ns_idx g n)) - nW g n / 2) /\
    ((exists n, in_layers g n) -> exists n, in_layers g n /\ lb = inQ (layer_of a (ns_idx g n)) - nW g n / 2).
Proof.
  intros th f s g g' H Hwf HND HN. rewrite exec_ns_positioner_eq in H.
  destruct (assign_layers NetworkSimplex (ns_params th g) (aux_graph f s g)) as [a|e]; cbn [bind] in H; [|discriminate].
  inversion H; subst g'. clear H. exists a.
  unfold ns_finish. destruct (ns_xs g) as [|n0 t] eqn:E.
  - exists 0. split; [reflexivity|].
    assert (F : forall n, ~ in_layers g n).
    { intros n Hn. unfold in_layers in Hn. rewrite <- ns_xs_eq, E in Hn. destruct Hn. }
    split; [intros n Hn; destruct (F n Hn)|]. split; [intros n Hn; destruct (F n Hn)|].
    intros [n Hn]. destruct (F n Hn).
  - exists (ns_lbound g a n0).
    assert (Hxs : forall n, In n (ns_xs g) <-> in_layers g n) by (intros n; rewrite ns_xs_eq; reflexivity).
    assert (Hn0 : in_layers g n0) by (apply Hxs; rewrite E; left; reflexivity).
    destruct (fold_Qmin'_le (fun n => nX (ns_g1 g a) n) (ns_xs g) (nX (ns_g1 g a) n0)) as (A & B & C).
    fold (ns_lbound g a n0) in A, B, C.
    split; [reflexivity|]. split; [|split].
    + intros n Hn.
      pose proof (ns_g1_xonly g a) as X.
      assert (EN : g_N (ns_g1 g a) = g_N g) by (destruct X as (_ & _ & X3 & _); exact X3).
      rewrite EN. unfold nX. rewrite fold_upd_in_nodup; [|exact HND|apply HN, Hn|].
      * unfold shift_x. cbn [set_x n_x]. fold (nX (ns_g1 g a) n). rewrite ns_g1_x by assumption. reflexivity.
      * rewrite (xonly_len _ _ X). unfold ns_g0. cbn [with_L g_na]. apply Hwf, Hn.
    + intros n Hn. rewrite <- (ns_g1_x g a n Hwf Hn). apply B, Hxs, Hn.
    + intros _. destruct C as [C|[n [Hn C]]].
      * exists n0. split; [exact Hn0|]. rewrite C. apply ns_g1_x; assumption.
      * exists n. apply Hxs in Hn. split; [exact Hn|]. rewrite C. apply ns_g1_x; assumption.
Qed.
Print Assumptions ns_positioner_x_lb.

(* x is never negative, and some node sits at exactly 0 (no hypothesis on the auxiliary layering is needed) *)
Theorem ns_positioner_nonneg : forall th f s g g' n,
  exec_ns_positioner th f s g = Ok g' -> layers_wf g -> NoDup (g_N g) ->
  (forall n, in_layers g n -> In n (g_N g)) ->
  in_layers g n -> 0 <= nX g' n.
Proof.
  intros th f s g g' n H Hwf HND HN Hn.
  destruct (ns_positioner_x_lb th f s g g' H Hwf HND HN) as (a & lb & _ & Hx & Hlb & _).
  rewrite (Hx n Hn). specialize (Hlb n Hn). lra.
Qed.
Print Assumptions ns_positioner_nonneg.

Theorem ns_positioner_leftmost_zero : forall th f s g g' n0,
  exec_ns_positioner th f s g = Ok g' -> layers_wf g -> NoDup (g_N g) ->
  (forall n, in_layers g n -> In n (g_N g)) ->
  in_layers g n0 -> exists n, in_layers g n /\ nX g' n == 0.
Proof.
  intros th f s g g' n0 H Hwf HND HN Hn0.
  destruct (ns_positioner_x_lb th f s g g' H Hwf HND HN) as (a & lb & _ & Hx & _ & Hex).
  destruct (Hex (ex_intro _ n0 Hn0)) as (n & Hn & E). exists n. split; [exact Hn|].
  rewrite (Hx n Hn), E. ring.
Qed.
Print Assumptions ns_positioner_leftmost_zero.

(* the whole of phase 4 with the NetworkSimplex positioner (assign_y does not touch x or the widths) *)
Theorem phase4_ns_no_overlap : forall p g g' l i j a b,
  phase4 NsPositioner p g = Ok g' -> length (g_N g) <> 1%nat ->
  nsp_wf g -> sizes_ok (node_spacing p) g ->
  In l (g_L g) -> (i < j)%nat ->
  nth_error (l_nodes l) i = Some a -> nth_error (l_nodes l) j = Some b ->
  nX g' a + nW g' a + node_spacing p <= nX g' b /\ 0 <= nX g' a.
Proof.
  intros p g g' l i j a b H H1 W Hsz Hl Hij Ha Hb. unfold phase4 in H.
  destruct (Nat.eqb_spec (length (g_N g)) 1) as [E|_]; [contradiction|].
  destruct (exec_ns_positioner (p4_thoroughness p) (p4_factor p) (node_spacing p) g) as [g1|e] eqn:E1;
    cbn [bind] in H; [|discriminate].
  inversion H; subst g'. clear H.
  destruct (assign_y_frame (layer_spacing p) g1) as (X & Wd & _). rewrite !X, Wd.
  split.
  - eapply ns_positioner_no_overlap_result; eassumption.
  - eapply ns_positioner_nonneg; [exact E1|apply W|apply W|apply W|].
    eapply in_layers_intro; [exact Hl|eapply nth_error_In, Ha].
Qed.
Print Assumptions phase4_ns_no_overlap.

(* the same, in the form of [phase4_sink_coloring_no_overlap] (widths read in the input) *)
Theorem phase4_ns_no_overlap_in : forall p g g'' l i j a b,
  Nat.eqb (length (g_N g)) 1 = false ->
  phase4 NsPositioner p g = Ok g'' -> nsp_wf g -> sizes_ok (node_spacing p) g ->
  In l (g_L g) -> (i < j)%nat ->
  nth_error (l_nodes l) i = Some a -> nth_error (l_nodes l) j = Some b ->
  nX g'' a + nW g a + node_spacing p <= nX g'' b.
Proof.
  intros p g g'' l i j a b H1 H W Hsz Hl Hij Ha Hb. unfold phase4 in H. rewrite H1 in H.
  destruct (exec_ns_positioner (p4_thoroughness p) (p4_factor p) (node_spacing p) g) as [g1|e] eqn:E1;
    cbn [bind] in H; [|discriminate].
  inversion H; subst g''. clear H.
  destruct (assign_y_frame (layer_spacing p) g1) as (X & _). rewrite !X.
  eapply ns_positioner_no_overlap_unconditional; eassumption.
Qed.

Theorem phase4_ns_nonneg : forall p g g'' n,
  Nat.eqb (length (g_N g)) 1 = false ->
  phase4 NsPositioner p g = Ok g'' -> nsp_wf g -> in_layers g n -> 0 <= nX g'' n.
Proof.
  intros p g g'' n H1 H W Hn. unfold phase4 in H. rewrite H1 in H.
  destruct (exec_ns_positioner (p4_thoroughness p) (p4_factor p) (node_spacing p) g) as [g1|e] eqn:E1;
    cbn [bind] in H; [|discriminate].
  inversion H; subst g''. clear H.
  destruct (assign_y_frame (layer_spacing p) g1) as (X & _). rewrite X.
  eapply ns_positioner_nonneg; [exact E1|apply W|apply W|apply W|exact Hn].
Qed.

(* ====================================================================================== *)
(** * 6. the example of SinkColoringProofs.v: 2 bands, 4 nodes, 3 edges                     *)
(* ====================================================================================== *)

Example sx_nsp_wf : nsp_wf sx_g.
Proof.
  constructor; [exact sx_layers_wf | exact sx_N_nodup | exact sx_layers_in_N].
Qed.

(* the auxiliary graph of the example: 4 + 3 nodes, 6 + 2 edges; the boolean checkers agree with the theorems *)
Example sx_aux_shape :
  (length (g_na (aux_graph 1 5 sx_g)), length (g_ea (aux_graph 1 5 sx_g)),
   map (fun e => (e_from (gedge (aux_graph 1 5 sx_g) e), e_to (gedge (aux_graph 1 5 sx_g) e),
                  e_delta (gedge (aux_graph 1 5 sx_g) e))) [6; 7]%nat) =
  (7%nat, 8%nat, [(0%nat, 1%nat, 20%Z); (2%nat, 3%nat, 28%Z)]).
Proof. vm_compute. reflexivity. Qed.

Example sx_aux_checks :
  NSFeasLoop.ns_wfb (aux_graph 1 5 sx_g) = true /\ acyclicb (aux_rank sx_g) (aux_graph 1 5 sx_g) = true.
Proof. split; vm_compute; reflexivity. Qed.

Example sx_aux_wf : ns_wf (aux_graph 1 5 sx_g) /\ acyclic (aux_graph 1 5 sx_g).
Proof. split; [apply aux_graph_ns_wf | apply aux_graph_acyclic]; try exact sx_nsp_wf; discriminate. Qed.

(* the feasibility that SinkColoringProofs.v checked by evaluation now follows from the theorem *)
Example sx_ns_feasible_thm : forall a,
  assign_layers NetworkSimplex (ns_params 1 sx_g) (aux_graph 1 5 sx_g) = Ok a -> ns_feasible 5 sx_g a.
Proof. intros a H. exact (aux_phase2_feasible 1 1 5 sx_g a sx_nsp_wf H). Qed.

Example sx_ns_no_overlap_unconditional : forall g',
  exec_ns_positioner 1 1 5 sx_g = Ok g' ->
  nX g' 0%nat + 10 + 5 <= nX g' 1%nat /\ nX g' 2%nat + 40 + 5 <= nX g' 3%nat /\
  (forall n, in_layers sx_g n -> 0 <= nX g' n).
Proof.
  intros g' H. split; [|split].
  - apply (ns_positioner_no_overlap_unconditional 1 1 5 sx_g g' (mkLayer [0; 1]%nat 0 0) 0 1 0%nat 1%nat H
             sx_nsp_wf sx_sizes_ok); [left; reflexivity|lia|reflexivity|reflexivity].
  - apply (ns_positioner_no_overlap_unconditional 1 1 5 sx_g g' (mkLayer [2; 3]%nat 0 0) 0 1 2%nat 3%nat H
             sx_nsp_wf sx_sizes_ok); [right; left; reflexivity|lia|reflexivity|reflexivity].
  - intros n Hn. exact (ns_positioner_nonneg 1 1 5 sx_g g' n H sx_layers_wf sx_N_nodup sx_layers_in_N Hn).
Qed.

(* the run succeeds (so the statement above is not vacuous): x = 15, 38, 0, 45 *)
Example sx_ns_run : sx_show (exec_ns_positioner 1 1 5 sx_g) = Some ([15; 38; 0; 45], [6; 8]).
Proof. exact sx_ns_result. Qed.

Example sx_phase4_ns : forall g',
  phase4 NsPositioner (mkP4 5 7 1 1) sx_g = Ok g' ->
  nX g' 0%nat + nW g' 0%nat + 5 <= nX g' 1%nat /\ nX g' 2%nat + nW g' 2%nat + 5 <= nX g' 3%nat.
Proof.
  intros g' H. split.
  - apply (phase4_ns_no_overlap (mkP4 5 7 1 1) sx_g g' (mkLayer [0; 1]%nat 0 0) 0 1 0%nat 1%nat H);
      [cbn; lia|exact sx_nsp_wf|exact sx_sizes_ok|left; reflexivity|lia|reflexivity|reflexivity].
  - apply (phase4_ns_no_overlap (mkP4 5 7 1 1) sx_g g' (mkLayer [2; 3]%nat 0 0) 0 1 2%nat 3%nat H);
      [cbn; lia|exact sx_nsp_wf|exact sx_sizes_ok|right; left; reflexivity|lia|reflexivity|reflexivity].
Qed.

Example sx_phase4_ns_runs :
  match phase4 NsPositioner (mkP4 5 7 1 1) sx_g with Ok _ => true | Err _ => false end = true.
Proof. vm_compute. reflexivity. Qed.

(* ====================================================================================== *)
(** * 7. Into the end-to-end backbone: phase 4 with the NetworkSimplex positioner           *)
(* ====================================================================================== *)
From Autog Require Import Populate Phase1 Phase3 Phase5 Layout Wmedian Pipeline.
From Autog.Proofs Require Import Consistent SelfLoopProofs.
From Autog.Proofs Require CBBase CBGreedy CBGreedyRanks CBDepthFirst CBHasCycles CycleBreaking LongestPath
                          OptPipeline CollectProofs.
From Autog.Proofs Require CrossCountProofs WmedianProofs TreeProofs.
From Autog Require Import Routes BreakMerge Shift E2EBridge E2EBackbone E2EOutput E2EFrontend.
From Autog Require Import WholeBridge WholeCrossings WholeOverlap.
From Coq Require Import Permutation.
Local Open Scope nat_scope.

(* what the positioner leaves alone: the frame used by the backbone for the other three positioners *)
Lemma ns_positioner_pos_frame : forall th f s g g1, exec_ns_positioner th f s g = Ok g1 -> pos_frame g g1.
Proof.
  intros th f s g g1 H. rewrite exec_ns_positioner_eq in H.
  destruct (assign_layers NetworkSimplex (SinkColoringProofs.ns_params th g) (aux_graph f s g)) as [a|e]; cbn [bind] in H; [|discriminate].
  inversion H; subst g1. clear H.
  destruct (ns_finish_xonly g a) as (X1 & X2 & X3 & X4 & X5 & X6).
  set (F := fun l => set_layer_h (layer_height g (l_nodes l) (l_h l)) l) in *.
  assert (HL : g_L (ns_finish g a) = map F (g_L g)) by (rewrite X5; reflexivity).
  assert (Hnth : forall k, l_h (nth k (g_L (ns_finish g a)) layer0) =
                           layer_height g (l_nodes (nth k (g_L g) layer0)) (l_h (nth k (g_L g) layer0))).
  { intros k. rewrite HL. destruct (Nat.lt_ge_cases k (length (g_L g))) as [Hk|Hk].
    - rewrite (nth_indep _ layer0 (F layer0)) by (rewrite map_length; exact Hk). rewrite map_nth. reflexivity.
    - rewrite !nth_overflow; [reflexivity|exact Hk|rewrite map_length; exact Hk]. }
  constructor.
  - intros n. rewrite X6. reflexivity.
  - rewrite HL, map_map. reflexivity.
  - rewrite X1. reflexivity.
  - rewrite X3. reflexivity.
  - rewrite X4. reflexivity.
  - rewrite X2. reflexivity.
  - intros k n Hn. rewrite Hnth. apply layer_height_ge, Hn.
  - intros k H0. rewrite Hnth. eapply Qle_trans; [exact H0|apply layer_height_ge_init].
Qed.

(* the four positioners of the model (Brandes-Koepf is not modelled) *)
Definition modelled_p4' (alg : p4alg) : Prop := modelled_p4 alg \/ alg = NsPositioner.

(* [E2EBridge.phase4_facts], also for the NetworkSimplex positioner *)
Theorem phase4_facts' : forall alg p g g4,
  modelled_p4' alg -> Nat.eqb (length (g_N g)) 1 = false -> phase4 alg p g = Ok g4 ->
  layers_wf g -> (forall k, (0 <= l_h (glayer g k))%Q) ->
  g_ea g4 = g_ea g /\ g_N g4 = g_N g /\ g_E g4 = g_E g /\ length (g_na g4) = length (g_na g) /\
  (forall n, set_x 0 (set_y 0 (gnode g4 n)) = set_x 0 (set_y 0 (gnode g n))) /\
  (forall k, l_nodes (glayer g4 k) = l_nodes (glayer g k)) /\
  length (g_L g4) = length (g_L g) /\
  layers_wf g4 /\
  (forall k n, In n (l_nodes (glayer g4 k)) ->
     nY g4 n = ysum (layer_spacing p) (g_L g4) k /\ (nH g4 n <= l_h (glayer g4 k))%Q) /\
  (forall k, (0 <= l_h (glayer g4 k))%Q).
Proof.
  intros alg p g g4 [Halg| ->] N1 P4 WF H0; [apply (phase4_facts alg p g g4 Halg N1 P4 WF H0)|].
  destruct (phase4_is_assign_y NsPositioner p g g4 N1 P4) as (g1 & -> & Hg1).
  assert (PF : pos_frame g g1) by (eapply ns_positioner_pos_frame; exact Hg1).
  destruct PF as [F1 F2 F3 F4 F5 F6 F7 F8].
  destruct (assign_y_frame (layer_spacing p) g1) as (_ & Y2 & Y3 & Y4 & Y5 & Y6 & Y7 & Y8 & Y9).
  assert (WF1 : layers_wf g1) by (eapply layers_wf_transfer; eassumption).
  assert (LN : forall k, l_nodes (glayer g1 k) = l_nodes (glayer g k)).
  { intros k. unfold glayer. rewrite <- !nth_map_l_nodes, F2. reflexivity. }
  split; [congruence|]. split; [congruence|]. split; [congruence|]. split; [congruence|].
  split; [|split; [|split; [|split; [|split]]]].
  - intros n. pose proof (Y4 n) as E1. pose proof (F1 n) as E2.
    destruct (gnode (assign_y (layer_spacing p) g1) n), (gnode g1 n), (gnode g n).
    unfold set_x, set_y in *. cbn in *. inversion E1. inversion E2. subst. reflexivity.
  - intros k. unfold glayer at 1. rewrite Y5. apply LN.
  - rewrite Y5. rewrite <- (map_length l_nodes (g_L g1)), F2. apply map_length.
  - unfold layers_wf. rewrite Y5, Y6. exact WF1.
  - intros k n Hn. unfold glayer in *. rewrite Y5 in *. split.
    + apply assign_y_layer_eq; assumption.
    + rewrite Y3. replace (nH g1 n) with (nH g n).
      * apply F7. rewrite LN in Hn. exact Hn.
      * unfold nH. pose proof (F1 n) as E. destruct (gnode g1 n), (gnode g n). unfold set_x in E. cbn in *.
        inversion E. reflexivity.
  - intros k. unfold glayer. rewrite Y5. apply F8, H0.
Qed.
Print Assumptions phase4_facts'.

(* the hypotheses of the positioner theorem hold for the graph the backbone hands to phase 4 *)
Lemma order_contract_nsp_wf : forall g g', order_contract g g' -> nsp_wf g -> nsp_wf g'.
Proof.
  intros g g' OC [W1 W2 W3]. destruct (order_contract_facts g g' OC) as (_ & OWF & _ & OIN & _).
  constructor.
  - apply OWF, W1.
  - rewrite (oc_N _ _ OC). exact W2.
  - intros n Hn. rewrite (oc_N _ _ OC). apply W3, OIN, Hn.
Qed.

Lemma stage23_nsp_wf : forall g1 g2 g3 k, stage23 g1 g2 g3 k -> nsp_wf g3.
Proof.
  intros g1 g2 g3 k S. pose proof (s2_post _ _ _ _ S) as PP. constructor.
  - apply (s3_wf _ _ _ _ S).
  - rewrite (s3_N _ _ _ _ S). apply NoDup_app_iota.
    + eapply Permutation_NoDup; [apply (p2_perm _ _ PP)|apply (s2_wf _ _ _ _ S)].
    + intros n Hn. apply (s2_wf _ _ _ _ S). apply (s2_inl _ _ _ _ S). exact Hn.
  - intros n Hn. unfold in_layers in Hn. apply in_flat_map in Hn. destruct Hn as (l & Hl & Hn).
    destruct (In_nth _ _ layer0 Hl) as (j & Hj & <-). apply (s3_inl _ _ _ _ S j n Hn).
Qed.

(* [E2EBackbone.stage45_ok] and [E2EBackbone.pipeline_backbone] for the four positioners: the proofs are the
   originals with [phase4_facts'] in place of [phase4_facts] *)
Record options_ok' (o : options) : Prop := { oo_p4' : modelled_p4' (o_p4 o); oo_p5' : modelled_p5 (o_p5 o) }.

Theorem stage45_ok' : forall sp alg4 p alg5 g1 g2 g3 k g3' g4 g5,
  stage23 g1 g2 g3 k -> break_long_edges g2 = Ok g3 -> order_contract g3 g3' ->
  modelled_p4' alg4 -> layer_spacing p = sp -> phase4 alg4 p g3' = Ok g4 ->
  modelled_p5 alg5 -> phase5 alg5 sp g4 = Ok g5 ->
  exists gm routes, merge_long_edges g4 = Ok (gm, routes) /\ stage45 sp alg5 g2 g3 g3' g4 gm routes g5.
Proof.
  intros sp alg4 p alg5 g1 g2 g3 k g3' g4 g5 S BR OC A4 SP P4 A5 P5.
  destruct S as [PP PRE LOK WF2 PL2 INL2 ENDS TWO L1 S1 S2 S3 S4 S5 S6 S7 S8 WF3 PL3 SL SLH SUB SINL].
  destruct (order_contract_facts g3 g3' OC) as (T1 & OWF & OPL & OIN & OINL & OLH).
  pose proof OC as [O1 O2 O3 O4 O5 O6 O7 O8].
  assert (N3' : Nat.eqb (length (g_N g3')) 1 = false).
  { apply Nat.eqb_neq. rewrite O2, S2, app_length. lia. }
  assert (LH3' : forall kk, (0 <= l_h (glayer g3' kk))%Q).
  { intros kk. rewrite OLH, SLH. destruct (p2_wh _ _ PP kk) as [_ ->]. apply Qle_refl. }
  destruct (phase4_facts' alg4 p g3' g4 A4 N3' P4 (OWF WF3) LH3') as (F1 & F2 & F3 & F4 & F5 & F6 & F7 & F8 & F9 & F10).
  subst sp.
  assert (T2 : same_topology g3' g4).
  { split; [exact F1|]. split; [exact F3|]. split; [exact F4|]. intros n.
    destruct (set_xy_fields _ _ (F5 n)) as (-> & -> & -> & _ & -> & _). repeat split; reflexivity. }
  pose proof (same_topology_trans _ _ _ T1 T2) as T.
  destruct (break_phase4_merge_roundtrip g2 g3 g4 PRE BR T)
    as (gm & routes & M & A1 & A2 & A3 & A4' & A5' & A6 & A7 & A8 & A9).
  exists gm, routes. split; [exact M|].
  assert (LY4 : forall n, layer_of g4 n = layer_of g3 n) by (intros n; apply (same_topology_layer _ _ _ T)).
  assert (LYm : forall n, layer_of gm n = layer_of g4 n).
  { intros n. pose proof (A7 n) as Sb. apply same_but_in_fields in Sb. unfold layer_of. apply Sb. }
  assert (PL4 : forall n, In n (g_N g4) -> placed g4 n).
  { intros n Hn. rewrite F2, O2 in Hn. apply (placed_transfer g3' g4).
    - intros m. apply (same_topology_layer _ _ _ T2).
    - intros kk. apply (F6 kk).
    - apply OPL, PL3, Hn. }
  assert (Geo : forall n, nX gm n = nX g4 n /\ nY gm n = nY g4 n /\ nW gm n = nW g4 n /\ nH gm n = nH g4 n).
  { intros n. unfold nX, nY, nW, nH. apply same_but_in_geom, A7. }
  assert (FST : forall r, In r routes -> In (fst r) (g_E g2)).
  { intros r Hr. rewrite <- A8. apply in_map, Hr. }
  assert (ND : NoDup (map fst routes)) by (rewrite A8; apply (bp_nodup PRE)).
  assert (LT : forall r, In r routes -> fst r < length (g_ea gm)).
  { intros r Hr. apply in_range_of_ends. rewrite (A5' _ (FST r Hr)). cbn [set_ahs e_from e_to].
    destruct (bp_edges PRE _ (FST r Hr)) as (_ & _ & _ & SPN). unfold span in SPN. intros Heq. rewrite Heq in SPN. lia. }
  assert (N4 : Nat.eqb (length (g_N g4)) 1 = false) by (rewrite F2; exact N3').
  destruct (phase5_facts alg5 (layer_spacing p) g4 g5 gm routes A5 N4 P5 M ND LT) as (B1 & B2 & B3 & B4 & B5 & B6 & B7).
  constructor; try assumption.
  - intros n. pose proof (F5 n) as E1. pose proof (O5 n) as E2.
    destruct (gnode g4 n), (gnode g3' n), (gnode g3 n). unfold set_x, set_y, set_pos in *. cbn in *.
    inversion E1. inversion E2. subst. reflexivity.
  - congruence.
  - congruence.
  - congruence.
  - congruence.
  - congruence.
  - intros kk n. rewrite F6. apply OINL.
  - rewrite Forall_forall in A9. apply Forall_forall. intros r Hr. split; [apply A9, Hr|].
    destruct (A9 r Hr) as (vs & Ens & _ & Hvs & CL).
    assert (CL4 : chain_layers g4 (snd r)).
    { apply (chain_layers_transfer gm); [intros m; symmetry; apply LYm|exact CL]. }
    assert (IN4 : forall n, In n (snd r) -> In n (g_N g4)).
    { intros n Hn. rewrite F2, O2, S2. destruct (bp_edges PRE _ (FST r Hr)) as (_ & Ra & Rb & _).
      destruct (ENDS _ (FST r Hr)) as [Ea Eb].
      rewrite Ens in Hn. apply in_or_app. destruct Hn as [<-|Hn]; [left; exact Ea|].
      apply in_app_or in Hn. destruct Hn as [Hn|[<-|[]]]; [|left; exact Eb].
      right. apply BreakMerge.in_iota. destruct (Hvs n Hn) as [Rg _]. rewrite A4', F4, O4, S4 in Rg. exact Rg. }
    assert (Y4 : chain_y_eq g4 (layer_spacing p) (snd r)).
    { eapply phase4_chain; [exact N3'|exact P4|exact F8| |exact CL4]. intros n Hn. apply PL4, IN4, Hn. }
    eapply chain_y_eq_ext; [|exact Y4].
    intros n _. destruct (Geo n) as (_ & -> & _). split; [reflexivity|].
    unfold layer_h_of, glayer. rewrite A3, LYm. reflexivity.
  - intros x Hx. apply B6. rewrite A8. exact Hx.
Qed.

Theorem pipeline_backbone' : forall o g g' x,
  component_input g -> options_ok' o -> wm_premise o g -> ns_premise o g ->
  layout_component o g = Ok (g', x) ->
  exists g0 del g1 g2 g3 k g3' cx g4 gm routes g5, backbone o g g' x g0 del g1 g2 g3 k g3' cx g4 gm routes g5.
Proof.
  intros o g g' x CI [O4 O5] WM NS H. unfold layout_component in H.
  destruct (ignore_self_loops g) as [g0 del] eqn:E0.
  assert (Eg0 : g0 = fst (ignore_self_loops g)) by (rewrite E0; reflexivity).
  destruct (phase1 (o_p1 o) g0) as [g1|] eqn:P1; cbn [bind] in H; [|discriminate].
  destruct (phase2 (o_p2 o) (Layout.ns_params o) g1) as [g2|] eqn:P2; cbn [bind] in H; [|discriminate].
  pose proof (stage01_ok o g g0 del g1 CI E0 P1) as S01.
  assert (TWO1 : 2 <= length (g_N g1)).
  { destruct (rev_star_frame _ _ (s1_rs _ _ _ _ S01)) as (-> & _). rewrite (s0_N _ _ _ _ S01). apply (ci_two _ CI). }
  assert (LO : forall g2a, match o_p2 o with
                           | LongestPath => exec_longest_path g1
                           | NetworkSimplex => exec_network_simplex (Layout.ns_params o) g1
                           end = Ok g2a -> layering_ok g1 g2a).
  { intros g2a Hg. destruct (o_p2 o) eqn:EA.
    - apply lp_layering_ok; [apply (s1_c _ _ _ _ S01)|apply (s1_ranked _ _ _ _ S01)| |exact Hg].
      intros e He. apply (s1_edge _ _ _ _ S01 e He).
    - apply (NS EA g1); [rewrite <- Eg0; exact P1|exact Hg]. }
  destruct (stage23_ok (o_p2 o) (Layout.ns_params o) g1 g2 (s1_c _ _ _ _ S01) (s1_nonvirt _ _ _ _ S01) TWO1
              (s1_some_edge _ _ _ _ S01) LO P2) as (g3 & k & BR & S23).
  unfold phase3_wmedian in H.
  assert (N2 : Nat.eqb (length (g_N g2)) 1 = false).
  { apply Nat.eqb_neq. pose proof (s2_two _ _ _ _ S23). lia. }
  rewrite N2, (s2_L1 _ _ _ _ S23), BR in H. cbn [bind] in H.
  destruct (exec_wmedian wmedian_max_iter g3) as [[g3' cx]|] eqn:WE; cbn [bind fst snd] in H; [|discriminate].
  destruct (phase4 (o_p4 o) (p4_params o) g3') as [g4|] eqn:P4; cbn [bind] in H; [|discriminate].
  destruct (phase5 (o_p5 o) (o_layer_spacing o) g4) as [g5|] eqn:P5; cbn [bind] in H; [|discriminate].
  injection H as Hg' Hx.
  assert (OC : order_contract g3 g3').
  { apply (WM g1 g2 g3) with (x := cx); [rewrite <- Eg0; exact P1|exact P2|exact BR|exact WE]. }
  destruct (stage45_ok' (o_layer_spacing o) (o_p4 o) (p4_params o) (o_p5 o) g1 g2 g3 k g3' g4 g5 S23 BR OC O4 eq_refl P4 O5 P5)
    as (gm & routes & M & S45).
  exists g0, del, g1, g2, g3, k, g3', cx, g4, gm, routes, g5.
  constructor; try assumption; symmetry; assumption.
Qed.
Print Assumptions pipeline_backbone'.

(* ====================================================================================== *)
(** * 8. W3 (no two node rectangles of a laid-out component overlap) for the four positioners *)
(* ====================================================================================== *)

Theorem pipeline_backbone_F' : forall o g g' x,
  component_input g -> options_ok' o -> ns_premise o g -> layout_component o g = Ok (g', x) ->
  exists g0 del g1 g2 g3 k g3' cx g4 gm routes g5, backbone o g g' x g0 del g1 g2 g3 k g3' cx g4 gm routes g5.
Proof. intros o g g' x CI OK NS H. apply pipeline_backbone'; try assumption. apply wm_premise_holds; assumption. Qed.

Lemma bbx_phase4' : forall o g g' x g0 del g1 g2 g3 k g3' cx g4 gm routes g5,
  backbone o g g' x g0 del g1 g2 g3 k g3' cx g4 gm routes g5 -> options_ok' o ->
  g_ea g4 = g_ea g3' /\ g_N g4 = g_N g3' /\ g_E g4 = g_E g3' /\ length (g_na g4) = length (g_na g3') /\
  (forall n, set_x 0 (set_y 0 (gnode g4 n)) = set_x 0 (set_y 0 (gnode g3' n))) /\
  (forall kk, l_nodes (glayer g4 kk) = l_nodes (glayer g3' kk)) /\
  length (g_L g4) = length (g_L g3').
Proof.
  intros o g g' x g0 del g1 g2 g3 k g3' cx g4 gm routes g5 BB [O4 _].
  destruct (phase4_facts' (o_p4 o) (p4_params o) g3' g4 O4 (bbx_N3' _ _ _ _ _ _ _ _ _ _ _ _ _ _ _ _ BB)
              (bb_e4 _ _ _ _ _ _ _ _ _ _ _ _ _ _ _ _ BB) (bbx_wf3' _ _ _ _ _ _ _ _ _ _ _ _ _ _ _ _ BB)
              (bbx_lh3' _ _ _ _ _ _ _ _ _ _ _ _ _ _ _ _ BB))
    as (F1 & F2 & F3 & F4 & F5 & F6 & F7 & _).
  repeat (split; [assumption|]). exact F7.
Qed.

(* [WholeOverlap.W3_of_backbone] with the fourth positioner: the proofs are the originals, plus the case of the
   NetworkSimplex positioner in [ovn_positioner] and [ovn_x_nonneg] *)
Section Overlap'.
  Variables (o : options) (g g' : graph) (x : option Z) (g0 : graph) (del : list nat) (g1 g2 g3 : graph) (k : nat)
            (g3' : graph) (cx : Z) (g4 gm : graph) (routes : list (nat * list nat)) (g5 : graph).
  Hypothesis CI : component_input g.
  Hypothesis OK : options_ok' o.
  Hypothesis BB : backbone o g g' x g0 del g1 g2 g3 k g3' cx g4 gm routes g5.
  Hypothesis SZ : sizes_nonneg g.
  Hypothesis SP : spacing_nonneg o.

  Let S01 := bb_s01 _ _ _ _ _ _ _ _ _ _ _ _ _ _ _ _ BB.
  Let S23 := bb_s23 _ _ _ _ _ _ _ _ _ _ _ _ _ _ _ _ BB.
  Let S45 := bb_s45 _ _ _ _ _ _ _ _ _ _ _ _ _ _ _ _ BB.
  Let PP := s2_post _ _ _ _ S23.

  (* sizes of the nodes the positioner sees *)
  Lemma ovn_sizes3 : forall n, In n (g_N g3) -> (0 <= n_w (gnode g3 n))%Q /\ (0 <= n_h (gnode g3 n))%Q.
  Proof.
    intros n Hn. pose proof (bbx_adjinv _ _ _ _ _ _ _ _ _ _ _ _ _ _ _ _ BB) as I.
    destruct (sum_lengths _ _ _ _ _ _ _ _ _ _ _ _ _ _ _ _ BB) as (NA2 & _ & _ & _ & N2 & _).
    pose proof (ai_N _ _ _ I n Hn) as Hlt.
    rewrite (s3_N _ _ _ _ S23) in Hn. apply in_app_or in Hn. destruct Hn as [Hn|Hn].
    - rewrite N2 in Hn. pose proof (c_N_lt _ (ci_cons _ CI) n Hn) as L.
      destruct (sum_node_old _ _ _ _ _ _ _ _ _ _ _ _ _ _ _ _ CI BB n L) as (_ & _ & -> & ->). apply SZ, Hn.
    - apply BreakMerge.in_iota in Hn. destruct (ai_newN _ _ _ I n (proj1 Hn) Hlt) as [-> ->]. split; apply Qle_refl.
  Qed.

  Lemma ovn_sizes3' : forall n, in_layers g3' n -> (0 <= nW g3' n)%Q /\ (0 <= nH g3' n)%Q.
  Proof.
    intros n Hn. pose proof (s4_oc _ _ _ _ _ _ _ _ _ S45) as OC.
    destruct (order_contract_facts g3 g3' OC) as (_ & _ & _ & OIN & _).
    apply OIN in Hn. unfold in_layers in Hn. apply in_flat_map in Hn. destruct Hn as (l & Hl & Hn).
    destruct (In_nth _ _ layer0 Hl) as (j & Hj & <-).
    pose proof (s3_inl _ _ _ _ S23 j n Hn) as HnN.
    unfold nW, nH. destruct (E2EBridge.set_pos_fields _ _ (E2EBridge.oc_nodes _ _ OC n)) as (_ & _ & _ & _ & _ & _ & -> & ->).
    apply ovn_sizes3, HnN.
  Qed.

  Lemma ovn_sizes_ok : sizes_ok (o_node_spacing o) g3'.
  Proof. split; [apply SP|]. intros n Hn. apply ovn_sizes3', Hn. Qed.

  (* x, w in the final graph are those of the phase-4 output *)
  Lemma ovn_geom_out : forall n, nX g' n = nX g4 n /\ nY g' n = nY g4 n /\ nW g' n = nW g4 n /\ nH g' n = nH g4 n.
  Proof.
    intros n. destruct (sum_node4 _ _ _ _ _ _ _ _ _ _ _ _ _ _ _ _ CI BB n) as (_ & _ & A & B & C & D).
    unfold nX, nY, nW, nH. auto.
  Qed.

  Lemma ovn_w4 : forall n, nW g4 n = nW g3' n /\ nH g4 n = nH g3' n.
  Proof.
    intros n. destruct (bbx_phase4' _ _ _ _ _ _ _ _ _ _ _ _ _ _ _ _ BB OK) as (_ & _ & _ & _ & F5 & _).
    unfold nW, nH. destruct (set_xy_fields _ _ (F5 n)) as (_ & _ & _ & _ & _ & -> & ->). split; reflexivity.
  Qed.

  Lemma ovn_nsp_wf : nsp_wf g3'.
  Proof. apply (order_contract_nsp_wf g3 g3' (s4_oc _ _ _ _ _ _ _ _ _ S45)). apply (stage23_nsp_wf g1 g2 g3 k S23). Qed.

  (* the positioner, inside one layer of the ordered graph *)
  Lemma ovn_positioner : forall l i j a b, In l (g_L g3') -> i < j ->
    nth_error (l_nodes l) i = Some a -> nth_error (l_nodes l) j = Some b ->
    (nX g4 a + nW g3' a + o_node_spacing o <= nX g4 b)%Q.
  Proof.
    intros l i j a b Hl Hij Ha Hb.
    pose proof (bbx_N3' _ _ _ _ _ _ _ _ _ _ _ _ _ _ _ _ BB) as N3'.
    pose proof (bbx_wf3' _ _ _ _ _ _ _ _ _ _ _ _ _ _ _ _ BB) as WF.
    pose proof (bb_e4 _ _ _ _ _ _ _ _ _ _ _ _ _ _ _ _ BB) as P4. pose proof ovn_sizes_ok as SOK.
    destruct (oo_p4' _ OK) as [[E|[E|E]]|E]; rewrite E in P4.
    - rewrite phase4_valign in P4 by exact N3'. injection P4 as E4. rewrite <- E4, !assign_y_nX.
      apply (valign_no_overlap_in_layer_gen (o_node_spacing o) g3' l i j a b WF SOK Hl Hij Ha Hb).
    - rewrite phase4_packright in P4 by exact N3'. injection P4 as E4. rewrite <- E4, !assign_y_nX.
      apply (packright_no_overlap_in_layer_gen (o_node_spacing o) g3' l i j a b WF SOK Hl Hij Ha Hb).
    - apply (phase4_sink_coloring_no_overlap (p4_params o) g3' g4 l i j a b N3' P4 WF SOK Hl Hij Ha Hb).
    - apply (phase4_ns_no_overlap_in (p4_params o) g3' g4 l i j a b N3' P4 ovn_nsp_wf SOK Hl Hij Ha Hb).
  Qed.

  Lemma ovn_x_nonneg : forall n, in_layers g3' n -> (0 <= nX g4 n)%Q.
  Proof.
    intros n Hn.
    pose proof (bbx_N3' _ _ _ _ _ _ _ _ _ _ _ _ _ _ _ _ BB) as N3'.
    pose proof (bbx_wf3' _ _ _ _ _ _ _ _ _ _ _ _ _ _ _ _ BB) as WF.
    pose proof (bb_e4 _ _ _ _ _ _ _ _ _ _ _ _ _ _ _ _ BB) as P4. pose proof ovn_sizes_ok as SOK.
    destruct (oo_p4' _ OK) as [[E|[E|E]]|E]; rewrite E in P4; [| | |apply (phase4_ns_nonneg (p4_params o) g3' g4 n N3' P4 ovn_nsp_wf Hn)].
    - rewrite phase4_valign in P4 by exact N3'. injection P4 as E4. rewrite <- E4, assign_y_nX.
      apply (valign_nonneg_gen (o_node_spacing o) g3' n WF SOK Hn).
    - rewrite phase4_packright in P4 by exact N3'. injection P4 as E4. rewrite <- E4, assign_y_nX.
      apply (packright_nonneg_gen (o_node_spacing o) g3' n WF SOK Hn).
    - destruct (phase4_is_assign_y SinkColoring (p4_params o) g3' g4 N3' P4) as (gp & E4 & SC). rewrite E4, assign_y_nX.
      apply (sink_coloring_nonneg_gen (o_node_spacing o) g3' gp n SC WF (proj1 SP) Hn).
  Qed.

  Lemma W3_of_backbone' : W3_statement o g'.
  Proof.
    destruct (E2_of_backbone _ _ _ _ _ _ _ _ _ _ _ _ _ _ _ _ CI BB) as (WF' & PL' & BD & _).
    destruct (bbx_phase4' _ _ _ _ _ _ _ _ _ _ _ _ _ _ _ _ BB OK) as (F1 & F2 & F3 & F4 & F5 & F6 & F7).
    pose proof (bbx_out_L _ _ _ _ _ _ _ _ _ _ _ _ _ _ _ _ CI BB) as OL.
    assert (LN : forall kk, l_nodes (glayer g' kk) = l_nodes (glayer g3' kk)).
    { intros kk. unfold glayer at 1. rewrite OL. apply F6. }
    assert (LEN : length (g_L g') = length (g_L g3')) by (rewrite OL; exact F7).
    assert (LH0 : forall j, (0 <= l_h (nth j (g_L g') layer0))%Q).
    { intros j. rewrite OL. apply (s4_lh0 _ _ _ _ _ _ _ _ _ S45 j). }
    assert (INL3 : forall kk n, In n (l_nodes (glayer g' kk)) -> in_layers g3' n).
    { intros kk n Hn. rewrite LN in Hn. unfold in_layers. apply in_flat_map. exists (glayer g3' kk). split; [|exact Hn].
      destruct (Nat.lt_ge_cases kk (length (g_L g3'))) as [L|L]; [apply nth_In, L|].
      unfold glayer in Hn. rewrite nth_overflow in Hn; [destruct Hn|exact L]. }
    assert (NOV : Shift.no_overlap (o_node_spacing o) g').
    { intros l i j a b Hl Hij Ha Hb. destruct (In_nth _ _ layer0 Hl) as (kk & Hkk & <-). fold (glayer g' kk) in *.
      rewrite LN in Ha, Hb.
      destruct (ovn_geom_out a) as (-> & _ & -> & _). destruct (ovn_geom_out b) as (-> & _).
      destruct (ovn_w4 a) as [-> _].
      apply (ovn_positioner (glayer g3' kk) i j a b); try assumption. apply nth_In. rewrite <- LEN. exact Hkk. }
    assert (NOVk : forall kk i j a b, i < j ->
              nth_error (l_nodes (glayer g' kk)) i = Some a -> nth_error (l_nodes (glayer g' kk)) j = Some b ->
              (nX g' a + nW g' a + o_node_spacing o <= nX g' b)%Q).
    { intros kk i j a b Hij Ha Hb. destruct (Nat.lt_ge_cases kk (length (g_L g'))) as [L|L].
      - apply (NOV (glayer g' kk) i j a b); try assumption. apply nth_In, L.
      - unfold glayer in Ha. rewrite nth_overflow in Ha by exact L. destruct i; discriminate. }
    assert (VERT : forall kk kk' a b, kk < kk' -> In a (l_nodes (glayer g' kk)) -> In b (l_nodes (glayer g' kk')) ->
              (nY g' a + nH g' a + o_layer_spacing o <= nY g' b)%Q).
    { intros kk kk' a b Hk Ha Hb. destruct (BD kk a Ha) as (_ & _ & -> & HH). destruct (BD kk' b Hb) as (_ & _ & -> & _).
      pose proof (ysum_mono (o_layer_spacing o) (g_L g') (S kk) kk' (proj2 SP) LH0 Hk) as M.
      rewrite ysum_S in M. fold (glayer g' kk) in M. lra. }
    assert (NODE : forall n, In n (g_N g') ->
              In n (l_nodes (glayer g' (band g' n))) /\ (0 <= nX g' n)%Q /\ (0 <= nY g' n)%Q /\ (0 <= nW g' n)%Q /\ (0 <= nH g' n)%Q).
    { intros n Hn. destruct (PL' n Hn) as [_ P1]. fold (band g' n) in P1. split; [exact P1|].
      pose proof (INL3 _ _ P1) as IL.
      destruct (ovn_geom_out n) as (-> & _ & -> & ->). destruct (ovn_w4 n) as [-> ->].
      split; [apply ovn_x_nonneg, IL|]. split; [|apply ovn_sizes3', IL].
      destruct (BD _ n P1) as (_ & _ & -> & _). apply ysum_nonneg; [apply SP|exact LH0]. }
    split; [exact NODE|]. split; [intros kk n Hn; destruct (BD kk n Hn) as (A & B & _); split; assumption|].
    split; [exact NOV|]. split; [exact NOVk|]. split; [exact VERT|]. split.
    - intros a b Ha Hb Hab.
      destruct (NODE a Ha) as (Pa & _). destruct (NODE b Hb) as (Pb & _).
      destruct (Nat.lt_total (band g' a) (band g' b)) as [L|[E|L]].
      + right. right. left. split; [exact L|]. apply (VERT _ _ a b L Pa Pb).
      + rewrite <- E in Pb.
        destruct (In_nth_error _ _ Pa) as (i & Hi). destruct (In_nth_error _ _ Pb) as (j & Hj).
        destruct (Nat.lt_total i j) as [Lij|[Eij|Lij]].
        * left. split; [exact E|]. apply (NOVk _ i j a b Lij Hi Hj).
        * exfalso. subst j. congruence.
        * right. left. split; [symmetry; exact E|]. apply (NOVk _ j i b a Lij Hj Hi).
      + right. right. right. split; [exact L|]. apply (VERT _ _ b a L Pb Pa).
    - constructor.
      + intros n Hn. unfold in_layers in Hn. apply in_flat_map in Hn. destruct Hn as (l & Hl & Hn).
        destruct (In_nth _ _ layer0 Hl) as (kk & Hkk & <-). fold (glayer g' kk) in Hn.
        destruct (BD kk n Hn) as (HnN & _). apply (NODE n HnN).
      + apply (Shift.last_is_rightmost (s := o_node_spacing o)); [apply SP| |exact NOV].
        intros n Hn. unfold in_layers in Hn. apply in_flat_map in Hn. destruct Hn as (l & Hl & Hn).
        destruct (In_nth _ _ layer0 Hl) as (kk & Hkk & <-). fold (glayer g' kk) in Hn.
        destruct (BD kk n Hn) as (HnN & _). apply (NODE n HnN).
      + intros n Hn. destruct (NODE n Hn) as (P1 & _). unfold in_layers. apply in_flat_map.
        exists (glayer g' (band g' n)). split; [|exact P1].
        destruct (Nat.lt_ge_cases (band g' n) (length (g_L g'))) as [L|L]; [apply nth_In, L|].
        unfold glayer in P1. rewrite nth_overflow in P1; [destruct P1|exact L].
  Qed.
End Overlap'.

Theorem W3_no_overlap' : forall o g g' x,
  component_input g -> options_ok' o -> ns_premise o g -> sizes_nonneg g -> spacing_nonneg o ->
  layout_component o g = Ok (g', x) -> W3_statement o g'.
Proof.
  intros o g g' x CI OK NS SZ SP H.
  destruct (pipeline_backbone_F' o g g' x CI OK NS H) as (g0 & del & g1 & g2 & g3 & k & g3' & cx & g4 & gm & routes & g5 & BB).
  eapply W3_of_backbone'; eassumption.
Qed.
Print Assumptions W3_no_overlap'.

(* the component of WholeCrossings.v laid out with the NetworkSimplex positioner *)
Definition wc_o4 : options := mkOptions DepthFirst LongestPath NsPositioner Polyline 1 1 5 7 false.
Definition wc_out4 : graph := Eval vm_compute in
  match layout_component wc_o4 wc_g with Ok (g, _) => g | Err _ => empty_graph end.
Example wc_layout4 : layout_component wc_o4 wc_g = Ok (wc_out4, Some 9%Z).
Proof. vm_compute. reflexivity. Qed.

Example wc_options_ok4 : options_ok' wc_o4.
Proof. split; [right; reflexivity|right; left; reflexivity]. Qed.

Example wc_W3_ns : W3_statement wc_o4 wc_out4.
Proof.
  apply (W3_no_overlap' wc_o4 wc_g wc_out4 (Some 9%Z) wc_input wc_options_ok4);
    [apply (ns_premise_longest_path wc_o4), eq_refl|exact wc_sizes|split; vm_compute; discriminate|exact wc_layout4].
Qed.
Print Assumptions wc_W3_ns.

(* what the model computes: helper node 7 (width 0) sits in band 1, NodeSpacing right of node 3 *)
Example wc_out4_xy :
  g_N wc_out4 = [0; 1; 2; 3; 4; 5; 6; 7] /\
  map (fun n => (Qred (nX wc_out4 n), Qred (nY wc_out4 n), Qred (nW wc_out4 n))) (g_N wc_out4) =
    [(30, 0, 10); (0, 13, 10); (15, 13, 10); (30, 13, 10); (0, 26, 10); (30, 26, 10); (15, 26, 10); (45, 13, 0)]%Q.
Proof. vm_compute. split; reflexivity. Qed.
