(* NSTotal.v — the fuel of the model suffices (N2, N5):
   - [walk_stree_total]: every recursive call of walk_stree marks a flagged edge that was not marked before, so
     the recursion depth is bounded by the number of unmarked flagged edges;
   - [set_stree_values_total]: on a spanning tree, fuel S (length (g_na g)) suffices;
   - [exchange_total], [pivot_loop_total]: under the invariant the pivot loop returns Ok
     (for the model's fuel: when maxitr <= 100000). *)
From Autog Require Import Base Graph Populate Phase2 Optimality OptNormalize OptVbalance OptFeasible OptInit
  OptPipeline NSDefs NSFeasLoop NSTree NSLimLow NSComp NSPivot.

Lemma filter_length_le : forall (p q : nat -> bool) l, (forall x, In x l -> q x = true -> p x = true) ->
  (length (filter q l) <= length (filter p l))%nat.
Proof.
  intros p q l; induction l as [|a l IH]; intros H; cbn [filter]; [lia|].
  assert (IH' : (length (filter q l) <= length (filter p l))%nat)
    by (apply IH; intros x Hx; apply H; right; exact Hx).
  destruct (q a) eqn:Eq.
  - rewrite (H a (or_introl eq_refl) Eq). cbn [length]. lia.
  - destruct (p a); cbn [length]; lia.
Qed.

Lemma filter_length_lt : forall (p q : nat -> bool) l e, (forall x, In x l -> q x = true -> p x = true) ->
  In e l -> p e = true -> q e = false -> (length (filter q l) < length (filter p l))%nat.
Proof.
  intros p q l e; induction l as [|a l IH]; intros H He Hp Hq; [destruct He|]. cbn [filter].
  assert (Hle : (length (filter q l) <= length (filter p l))%nat)
    by (apply filter_length_le; intros x Hx; apply H; right; exact Hx).
  destruct He as [He|He].
  - subst a. rewrite Hp, Hq. cbn [length]. lia.
  - assert (IH' : (length (filter q l) < length (filter p l))%nat)
      by (apply IH; try assumption; intros x Hx; apply H; right; exact Hx).
    destruct (q a) eqn:Eq.
    + rewrite (H a (or_introl eq_refl) Eq). cbn [length]. lia.
    + destruct (p a); cbn [length]; lia.
Qed.

(* number of flagged edges of g_E that have not been marked *)
Definition unvis (g : graph) (vis : list nat) : nat :=
  length (filter (fun x => negb (mem_nat x vis)) (tree_edges g)).

Lemma unvis_mono : forall g vis vis', incl vis vis' -> (unvis g vis' <= unvis g vis)%nat.
Proof.
  intros g vis vis' H. unfold unvis. apply filter_length_le. intros x _ Hx.
  apply negb_true_iff in Hx. apply negb_true_iff. destruct (mem_nat x vis) eqn:E; [|reflexivity].
  apply mem_nat_In in E. apply H in E. apply mem_nat_In in E. congruence.
Qed.

Lemma unvis_cons : forall g vis e, In e (tree_edges g) -> ~ In e vis -> (unvis g (e :: vis) < unvis g vis)%nat.
Proof.
  intros g vis e He Hv. unfold unvis. apply (filter_length_lt _ _ _ e); try assumption.
  - intros x _ Hx. apply negb_true_iff in Hx. apply negb_true_iff. destruct (mem_nat x vis) eqn:E; [|reflexivity].
    apply mem_nat_In in E. assert (Hin : In x (e :: vis)) by (right; exact E). apply mem_nat_In in Hin. congruence.
  - apply negb_true_iff. destruct (mem_nat e vis) eqn:E; [|reflexivity]. apply mem_nat_In in E. contradiction.
  - apply negb_false_iff. apply mem_nat_In. left. reflexivity.
Qed.

Lemma unvis_nil : forall g, unvis g [] = tree_count g.
Proof.
  intros g. unfold unvis, tree_count. generalize (tree_edges g). intros l.
  induction l as [|a l IH]; [reflexivity|]. cbn [filter]. change (mem_nat a []) with false. cbn [negb length]. rewrite IH. reflexivity.
Qed.

Definition rec_total (g : graph) (k : nat) (rec : nat -> Z -> ws_st -> res (Z * ws_st)) : Prop :=
  forall m low lims lows vis, In m (g_N g) -> (unvis g vis < k)%nat ->
    exists next lims' lows' vis',
      rec m low (lims, lows, vis) = Ok (next, (lims', lows', vis')) /\ incl vis vis'.

Lemma ws_loop_total : forall g k rec n, ns_wf g -> In n (g_N g) -> rec_total g k rec ->
  forall es, incl es (all_edges g n) ->
  forall lim lims lows vis, (unvis g vis <= k)%nat ->
    exists lim' lims' lows' vis',
      ws_loop rec g n es lim (lims, lows, vis) = Ok (lim', (lims', lows', vis')) /\ incl vis vis'.
Proof.
  intros g k rec n W Hn Hrec es; induction es as [|e t IH]; intros Hes lim lims lows vis Hk.
  - exists lim, lims, lows, vis. split; [reflexivity | apply incl_refl].
  - cbn [ws_loop]. fold (ws_loop rec g n).
    assert (Hes' : incl t (all_edges g n)) by (intros x Hx; apply Hes; right; exact Hx).
    destruct (e_tree (gedge g e) && negb (mem_nat e vis))%bool eqn:Ec; [|apply (IH Hes' _ _ _ _ Hk)].
    apply andb_prop in Ec. destruct Ec as [Et Em]. apply negb_true_iff in Em.
    assert (Hev : ~ In e vis) by (intros Hin; apply mem_nat_In in Hin; congruence).
    assert (HeE : In e (g_E g)).
    { apply (ns_wf_all_edges g n e W Hn). apply Hes. left. reflexivity. }
    assert (HeT : In e (tree_edges g)) by (apply in_tree_edges; split; assumption).
    pose proof (unvis_cons g vis e HeT Hev) as Hlt.
    destruct (Hrec (connected_node g e n) lim lims lows (e :: vis) (conn_in_N g e n W HeE)) as
      (n1 & l1 & w1 & v1 & Er & Hinc); [lia|].
    rewrite Er. cbn [bind fst snd].
    assert (Hk1 : (unvis g v1 <= k)%nat) by (pose proof (unvis_mono g (e :: vis) v1 Hinc); lia).
    destruct (IH Hes' n1 l1 w1 v1 Hk1) as (lim' & lims' & lows' & vis' & El & Hinc').
    exists lim', lims', lows', vis'. split; [exact El|].
    intros x Hx. apply Hinc'. apply Hinc. right. exact Hx.
Qed.

Theorem walk_stree_total : forall g, ns_wf g -> forall fuel, rec_total g fuel (walk_stree fuel g).
Proof.
  intros g W fuel; induction fuel as [|f IH]; intros m low lims lows vis Hm Hk; [lia|].
  rewrite walk_stree_S.
  destruct (ws_loop_total g f (walk_stree f g) m W Hm IH (all_edges g m) (incl_refl _) low lims (set_nth lows m low) vis)
    as (lim' & lims' & lows' & vis' & El & Hinc); [lia|].
  rewrite El. cbn [bind]. exists (lim' + 1), (set_nth lims' m lim'), lows', vis'. split; [reflexivity | exact Hinc].
Qed.

Lemma NoDup_lt_length : forall (l : list nat) k, NoDup l -> (forall n, In n l -> (n < k)%nat) -> (length l <= k)%nat.
Proof.
  intros l k Hnd Hlt. rewrite <- (seq_length k 0). apply (NoDup_incl_length Hnd).
  intros n Hn. apply in_seq. specialize (Hlt n Hn). lia.
Qed.

(* N2, fuel: on a spanning tree the model's fuel S (length (g_na g)) suffices *)
Theorem set_stree_values_total : forall g, ns_wf g -> spanning_tree g -> exists ll, set_stree_values g = Ok ll.
Proof.
  intros g W [_ Hcnt]. pose proof W as [[[HndN HrN] _ _] _ _].
  unfold set_stree_values. destruct (g_N g) as [|root rest] eqn:EN; [cbn in Hcnt; discriminate|].
  set (z := repeat 0 (length (g_na g))).
  destruct (walk_stree_total g W (S (length (g_na g))) root 1 z z []) as (next & lims' & lows' & vis' & Ew & _).
  - rewrite EN. left. reflexivity.
  - rewrite unvis_nil. pose proof (NoDup_lt_length (root :: rest) (length (g_na g)) HndN HrN) as Hle.
    lia.
  - rewrite Ew. cbn [bind]. exists (mkLL lims' lows'). reflexivity.
Qed.
Print Assumptions set_stree_values_total.

(* the exchange cannot fail under the invariant *)
Theorem exchange_total : forall g ll e f,
  ns_inv g ll -> In e (g_E g) -> e_tree (gedge g e) = true -> min_slack_non_tree_edge g ll e = Some f ->
  exists g' ll', exchange g ll e f = Ok (g', ll').
Proof.
  intros g ll e f [W S Hfeas Htight Hll] He Ht Hmin.
  pose proof W as [[Wn Ein A] HndE Hnl].
  destruct (min_slack_spec g ll e f Hmin) as (HfE & Hne & Hnt & Hh & _).
  pose proof (exch_shift_lay_only g ll e f Wn) as L1.
  set (g1 := exch_shift g ll e f) in *. set (g2 := swap_flags g1 e f).
  pose proof (swap_flags_geom g1 e f) as G12. fold g2 in G12.
  assert (W2 : ns_wf g2) by (apply (ns_wf_geom_same G12 (ns_wf_lay_only L1 W))).
  assert (Hcross : in_head_component g ll (e_from (gedge g f)) e <> in_head_component g ll (e_to (gedge g f)) e).
  { unfold head_to_tail in Hh. apply andb_prop in Hh. destruct Hh as [Ha Hb]. apply negb_true_iff in Hb.
    rewrite Ha, Hb. discriminate. }
  assert (S2 : spanning_tree g2).
  { apply (exchange_spanning g ll e f g2 W S Hll He Ht HfE Hnt Hcross).
    - destruct G12 as (_ & B2 & _). rewrite B2. apply (lay_only_N L1).
    - destruct G12 as (_ & _ & B3 & _). rewrite B3. apply (lay_only_E L1).
    - intros x. destruct G12 as (_ & _ & _ & B4). destruct (B4 x) as (Q1 & Q2 & _).
      rewrite Q1, Q2, (lay_only_gedge L1 x). split; reflexivity.
    - intros x. unfold g2. rewrite swap_flags_tree.
      + rewrite (lay_only_gedge L1 x). reflexivity.
      + destruct L1 as (Eea & _). rewrite Eea. apply (no_loop_lt g e Hnl He).
      + destruct L1 as (Eea & _). rewrite Eea. apply (no_loop_lt g f Hnl HfE). }
  destruct (set_stree_values_total g2 W2 S2) as [ll2 Es].
  exists (set_cut_values g2 ll2), ll2. unfold exchange. cbv zeta.
  change (if 0 <? slack g f
          then fold_left (fun g' n => if negb (in_head_component g ll n e)
                                      then upd_node g' n (fun nd => set_layer (n_layer nd - slack g f) nd) else g')
                         (g_N g) g
          else g) with (exch_shift g ll e f).
  fold g1. fold (swap_flags g1 e f). fold g2. rewrite Es. reflexivity.
Qed.

(* N5: under the invariant the pivot loop returns Ok as soon as the fuel exceeds the remaining budget *)
Theorem pivot_loop_total : forall fuel i maxitr g ll,
  ns_inv g ll -> maxitr - i < Z.of_nat fuel ->
  exists g' ll' b, pivot_loop fuel i maxitr g ll = Ok (g', ll', b).
Proof.
  induction fuel as [|fu IH]; intros i maxitr g ll I Hlt; cbn [pivot_loop].
  - destruct (neg_cut_tree_edge g); [|exists g, ll, false; reflexivity].
    destruct (maxitr <=? i) eqn:E; [exists g, ll, true; reflexivity|]. apply Z.leb_gt in E. cbn in Hlt. lia.
  - destruct (neg_cut_tree_edge g) as [e|] eqn:En; [|exists g, ll, false; reflexivity].
    destruct (maxitr <=? i) eqn:E; [exists g, ll, true; reflexivity|]. apply Z.leb_gt in E.
    destruct (min_slack_non_tree_edge g ll e) as [f|] eqn:Em; [|exists g, ll, false; reflexivity].
    destruct (neg_cut_tree_edge_spec g e En) as [He Ht].
    destruct (exchange_total g ll e f I He Ht Em) as [g1 [ll1 Ex]]. rewrite Ex. cbn [bind fst snd].
    destruct (exchange_inv g ll e f g1 ll1 I He Ht Em Ex) as (I1 & _).
    apply IH; [exact I1 | lia].
Qed.
Print Assumptions pivot_loop_total.

Corollary model_pivot_loop_total : forall maxitr g ll, ns_inv g ll -> maxitr <= 100000 ->
  exists g' ll' b, pivot_loop (S (Z.to_nat (Z.min maxitr 100000))) 0 maxitr g ll = Ok (g', ll', b).
Proof. intros maxitr g ll I H. apply pivot_loop_total; [exact I | lia]. Qed.

(* once feasible_tree has succeeded, network simplex (balance <> 2) cannot fail any more *)
Theorem exec_network_simplex_total : forall p g g1 ll1,
  ns_wf g -> acyclic g -> ns_balance p <> 2 ->
  ns_thoroughness p * (if 0 <? ns_maxiter_factor p then ns_maxiter_factor p
                       else Z.sqrt (Z.of_nat (length (g_N g)))) <= 100000 ->
  feasible_tree g = Ok (g1, ll1) ->
  exists g', exec_network_simplex p g = Ok g'.
Proof.
  intros p g g1 ll1 W Hac Hbal Hmax Eft. unfold exec_network_simplex, exec_network_simplex_capped.
  rewrite Eft. cbn [bind].
  destruct (feasible_tree_inv g g1 ll1 W Hac Eft) as [I1 F1].
  assert (EN : g_N g1 = g_N g) by (apply (nf_N _ _ F1)). rewrite EN.
  set (maxitr := ns_thoroughness p * (if 0 <? ns_maxiter_factor p then ns_maxiter_factor p
                                      else Z.sqrt (Z.of_nat (length (g_N g))))) in *.
  destruct (model_pivot_loop_total maxitr g1 ll1 I1 Hmax) as (g2 & ll2 & b & Epl). rewrite Epl. cbn [bind].
  destruct (ns_balance p =? 1); [cbn [bind]; eexists; reflexivity|].
  destruct (ns_balance p =? 2) eqn:E2; [apply Z.eqb_eq in E2; contradiction|].
  cbn [bind]. eexists. reflexivity.
Qed.
Print Assumptions exec_network_simplex_total.

Example ex5_total : exists ll, match feasible_tree ex5 with
                               | Ok (g, _) => set_stree_values g = Ok ll
                               | Err _ => False end.
Proof. vm_compute. eexists. reflexivity. Qed.
