(* NSTree.v — rooted ordered trees as the shape of a run of [walk_stree]:
   - [rtree]: a node, the edge it was entered by, and its children in visiting order;
   - structural facts about nodes / edges / links (parent, child subtree);
   - [links_sep]: in a tree with distinct nodes, the two ends of any link other than (p, c) lie on the same
     side of the bipartition {nodes of c, the rest};
   - connection inside a subtree and outside a subtree, by edges of the tree other than the one entering it. *)
From Autog Require Import Base Graph Populate Phase2 Optimality OptNormalize OptVbalance OptFeasible OptInit NSDefs.

Inductive rtree := RT (e : nat) (n : nat) (cs : list rtree).

Definition redge (t : rtree) : nat := match t with RT e _ _ => e end.
Definition rroot (t : rtree) : nat := match t with RT _ n _ => n end.
Definition rkids (t : rtree) : list rtree := match t with RT _ _ cs => cs end.

Fixpoint rnodes (t : rtree) : list nat := match t with RT _ n cs => n :: flat_map rnodes cs end.
(* edges strictly below the root (the entering edge of the root itself is not counted) *)
Fixpoint redges (t : rtree) : list nat :=
  match t with RT _ _ cs => flat_map (fun c => redge c :: redges c) cs end.
(* (parent node, child subtree) for every edge of the tree *)
Fixpoint rlinks (t : rtree) : list (nat * rtree) :=
  match t with RT _ n cs => flat_map (fun c => (n, c) :: rlinks c) cs end.

Definition fnodes (cs : list rtree) : list nat := flat_map rnodes cs.
Definition eblock (c : rtree) : list nat := redge c :: redges c.
Definition fedges (cs : list rtree) : list nat := flat_map eblock cs.
Definition lblock (n : nat) (c : rtree) : list (nat * rtree) := (n, c) :: rlinks c.
Definition flinks (n : nat) (cs : list rtree) : list (nat * rtree) := flat_map (lblock n) cs.

Lemma rnodes_eq : forall e n cs, rnodes (RT e n cs) = n :: fnodes cs.
Proof. reflexivity. Qed.
Lemma redges_eq : forall e n cs, redges (RT e n cs) = fedges cs.
Proof. reflexivity. Qed.
Lemma rlinks_eq : forall e n cs, rlinks (RT e n cs) = flinks n cs.
Proof. reflexivity. Qed.

Section RtreeInd.
  Variable P : rtree -> Prop.
  Hypothesis H : forall e n cs, (forall c, In c cs -> P c) -> P (RT e n cs).
  Fixpoint rtree_ind2 (t : rtree) : P t :=
    match t with
    | RT e n cs =>
        H e n cs ((fix go (l : list rtree) : forall c, In c l -> P c :=
                     match l with
                     | [] => fun c (Hc : In c []) => match Hc with end
                     | x :: l' => fun c (Hc : In c (x :: l')) =>
                         match Hc with
                         | or_introl E => match E in (_ = y) return P y with eq_refl => rtree_ind2 x end
                         | or_intror Hc' => go l' c Hc'
                         end
                     end) cs)
    end.
End RtreeInd.

(* ------------------------------------------------------------------------------------------------ *)
(* generic list facts                                                                                *)
(* ------------------------------------------------------------------------------------------------ *)
Lemma NoDup_app_inv : forall A (a b : list A), NoDup (a ++ b) ->
  NoDup a /\ NoDup b /\ forall x, In x a -> ~ In x b.
Proof.
  intros A a; induction a as [|h a IH]; intros b H; cbn [app] in H.
  - split; [constructor|]. split; [exact H|]. intros x [].
  - inversion H as [|h' l' Hh Hl]; subst. destruct (IH b Hl) as (Ha & Hb & Hd).
    split; [constructor; [intros Hin; apply Hh; apply in_or_app; left; exact Hin | exact Ha]|].
    split; [exact Hb|]. intros x [Hx|Hx] Hxb.
    + subst x. apply Hh. apply in_or_app. right. exact Hxb.
    + apply (Hd x Hx Hxb).
Qed.

Lemma flat_map_NoDup_inj : forall A B (F : A -> list B) l a b x,
  NoDup (flat_map F l) -> In a l -> In b l -> In x (F a) -> In x (F b) -> a = b.
Proof.
  intros A B F l; induction l as [|h l IH]; intros a b x Hnd Ha Hb Hxa Hxb; [destruct Ha|].
  cbn [flat_map] in Hnd. destruct (NoDup_app_inv _ _ _ Hnd) as (_ & Hl & Hd).
  destruct Ha as [Ha|Ha]; destruct Hb as [Hb|Hb].
  - congruence.
  - subst a. exfalso. apply (Hd x Hxa). apply in_flat_map. exists b. split; assumption.
  - subst b. exfalso. apply (Hd x Hxb). apply in_flat_map. exists a. split; assumption.
  - apply (IH a b x Hl Ha Hb Hxa Hxb).
Qed.

Lemma flat_map_NoDup_block : forall A B (F : A -> list B) l a,
  NoDup (flat_map F l) -> In a l -> NoDup (F a).
Proof.
  intros A B F l; induction l as [|h l IH]; intros a Hnd Ha; [destruct Ha|].
  cbn [flat_map] in Hnd. destruct (NoDup_app_inv _ _ _ Hnd) as (Hh & Hl & _).
  destruct Ha as [Ha|Ha]; [subst a; exact Hh | apply (IH a Hl Ha)].
Qed.

(* ------------------------------------------------------------------------------------------------ *)
(* structural facts                                                                                  *)
(* ------------------------------------------------------------------------------------------------ *)
Lemma rroot_in : forall t, In (rroot t) (rnodes t).
Proof. intros [e n cs]. left. reflexivity. Qed.

Lemma rnodes_hd : forall t, hd 0%nat (rnodes t) = rroot t.
Proof. intros [e n cs]. reflexivity. Qed.

Lemma in_fnodes : forall cs x, In x (fnodes cs) <-> exists c, In c cs /\ In x (rnodes c).
Proof. intros cs x. unfold fnodes. apply in_flat_map. Qed.

Lemma in_fedges : forall cs x, In x (fedges cs) <-> exists c, In c cs /\ (x = redge c \/ In x (redges c)).
Proof.
  intros cs x. unfold fedges. rewrite in_flat_map. split; intros [c [Hc Hx]]; exists c; (split; [exact Hc|]).
  - destruct Hx as [Hx|Hx]; [left; symmetry; exact Hx | right; exact Hx].
  - destruct Hx as [Hx|Hx]; [left; symmetry; exact Hx | right; exact Hx].
Qed.

Lemma in_flinks : forall n cs p c, In (p, c) (flinks n cs) <->
  (p = n /\ In c cs) \/ exists c0, In c0 cs /\ In (p, c) (rlinks c0).
Proof.
  intros n cs p c. unfold flinks. rewrite in_flat_map. split.
  - intros [c0 [Hc0 [Hx|Hx]]].
    + inversion Hx; subst. left. split; [reflexivity | exact Hc0].
    + right. exists c0. split; assumption.
  - intros [[Hp Hc]|[c0 [Hc0 Hx]]].
    + subst p. exists c. split; [exact Hc | left; reflexivity].
    + exists c0. split; [exact Hc0 | right; exact Hx].
Qed.

Lemma length_rnodes : forall t, length (rnodes t) = S (length (redges t)).
Proof.
  induction t as [e n cs IH] using rtree_ind2. rewrite rnodes_eq, redges_eq. cbn [length]. f_equal.
  unfold fnodes, fedges. induction cs as [|c cs IHcs]; [reflexivity|].
  cbn [flat_map]. rewrite !app_length. rewrite (IH c (or_introl eq_refl)).
  rewrite IHcs by (intros c' Hc'; apply IH; right; exact Hc'). unfold eblock. cbn [length]. reflexivity.
Qed.

Lemma redges_links : forall t, redges t = map (fun l => redge (snd l)) (rlinks t).
Proof.
  induction t as [e n cs IH] using rtree_ind2. rewrite redges_eq, rlinks_eq.
  unfold fedges, flinks. induction cs as [|c cs IHcs]; [reflexivity|].
  cbn [flat_map]. rewrite map_app. rewrite IHcs by (intros c' Hc'; apply IH; right; exact Hc').
  f_equal. unfold eblock, lblock. cbn [map snd]. f_equal. apply IH. left. reflexivity.
Qed.

Lemma in_redges_link : forall t e, In e (redges t) -> exists p c, In (p, c) (rlinks t) /\ redge c = e.
Proof.
  intros t e H. rewrite redges_links in H. apply in_map_iff in H. destruct H as [[p c] [He Hin]].
  exists p, c. split; [exact Hin | exact He].
Qed.

(* what a link of t knows about t *)
Lemma rlinks_facts : forall t p c, In (p, c) (rlinks t) ->
  In p (rnodes t) /\ incl (rnodes c) (fnodes (rkids t)) /\ incl (rlinks c) (rlinks t) /\
  In (redge c) (redges t) /\ incl (redges c) (redges t).
Proof.
  induction t as [e n cs IH] using rtree_ind2. intros p c H. rewrite rlinks_eq in H. cbn [rkids].
  rewrite rnodes_eq, rlinks_eq, redges_eq.
  apply in_flinks in H. destruct H as [[Hp Hc]|[c0 [Hc0 Hx]]].
  - subst p. split; [left; reflexivity|]. split; [|split; [|split]].
    + intros x Hx. apply in_fnodes. exists c. split; assumption.
    + intros l Hl. destruct l as [p' c']. apply in_flinks. right. exists c. split; assumption.
    + apply in_fedges. exists c. split; [exact Hc | left; reflexivity].
    + intros x Hx. apply in_fedges. exists c. split; [exact Hc | right; exact Hx].
  - destruct (IH c0 Hc0 p c Hx) as (A1 & A2 & A3 & A4 & A5).
    split; [right; apply in_fnodes; exists c0; split; assumption|]. split; [|split; [|split]].
    + intros x Hxc. apply in_fnodes. exists c0. split; [exact Hc0|].
      destruct c0 as [e0 n0 cs0]. rewrite rnodes_eq. right. apply A2. exact Hxc.
    + intros l Hl. destruct l as [p' c']. apply in_flinks. right. exists c0. split; [exact Hc0 | apply A3; exact Hl].
    + apply in_fedges. exists c0. split; [exact Hc0 | right; exact A4].
    + intros x Hxc. apply in_fedges. exists c0. split; [exact Hc0 | right; apply A5; exact Hxc].
Qed.

Lemma link_nodes_incl : forall t p c, In (p, c) (rlinks t) -> incl (rnodes c) (rnodes t).
Proof.
  intros t p c H x Hx. destruct (rlinks_facts t p c H) as (_ & A2 & _). destruct t as [e n cs].
  rewrite rnodes_eq. right. apply A2. exact Hx.
Qed.

(* with distinct nodes: neither the root nor the parent lies in the child subtree *)
Lemma rlinks_nodup_nodes : forall t p c, NoDup (rnodes t) -> In (p, c) (rlinks t) ->
  ~ In (rroot t) (rnodes c) /\ ~ In p (rnodes c).
Proof.
  induction t as [e n cs IH] using rtree_ind2. intros p c Hnd H. rewrite rnodes_eq in Hnd.
  inversion Hnd as [|n' l' Hn Hf]; subst. cbn [rroot].
  pose proof (rlinks_facts _ _ _ H) as (_ & A2 & _). cbn [rkids] in A2.
  split; [intros Hin; apply Hn; apply A2; exact Hin|].
  rewrite rlinks_eq in H. apply in_flinks in H. destruct H as [[Hp Hc]|[c0 [Hc0 Hx]]].
  - subst p. intros Hin. apply Hn. apply A2. exact Hin.
  - apply (IH c0 Hc0 p c); [|exact Hx]. apply (flat_map_NoDup_block _ _ rnodes cs c0 Hf Hc0).
Qed.

(* with distinct edges: the entering edge of a subtree is not inside it *)
Lemma rlinks_nodup_edges : forall t p c, NoDup (redges t) -> In (p, c) (rlinks t) -> ~ In (redge c) (redges c).
Proof.
  induction t as [e n cs IH] using rtree_ind2. intros p c Hnd H. rewrite redges_eq in Hnd.
  rewrite rlinks_eq in H. apply in_flinks in H. destruct H as [[Hp Hc]|[c0 [Hc0 Hx]]].
  - pose proof (flat_map_NoDup_block _ _ eblock cs c Hnd Hc) as Hb. unfold eblock in Hb.
    inversion Hb; assumption.
  - apply (IH c0 Hc0 p c); [|exact Hx].
    pose proof (flat_map_NoDup_block _ _ eblock cs c0 Hnd Hc0) as Hb. unfold eblock in Hb.
    inversion Hb; assumption.
Qed.

(* ------------------------------------------------------------------------------------------------ *)
(* separation: every other link has both ends on the same side of {nodes of c, the rest}             *)
(* ------------------------------------------------------------------------------------------------ *)
Lemma links_sep : forall t p c p2 c2, NoDup (rnodes t) ->
  In (p, c) (rlinks t) -> In (p2, c2) (rlinks t) -> redge c <> redge c2 ->
  (In p2 (rnodes c) <-> In (rroot c2) (rnodes c)).
Proof.
  induction t as [e n cs IH] using rtree_ind2. intros p c p2 c2 Hnd H1 H2 Hne.
  pose proof Hnd as Hnd0. rewrite rnodes_eq in Hnd. inversion Hnd as [|n' l' Hn Hf]; subst.
  pose proof (rlinks_facts _ _ _ H1) as (_ & B2 & _). cbn [rkids] in B2.
  assert (Hdisj : forall a b x, In a cs -> In b cs -> In x (rnodes a) -> In x (rnodes b) -> a = b).
  { intros a b x Ha Hb Hxa Hxb. apply (flat_map_NoDup_inj _ _ rnodes cs a b x Hf Ha Hb Hxa Hxb). }
  assert (Hsub : forall c0, In c0 cs -> NoDup (rnodes c0)).
  { intros c0 Hc0. apply (flat_map_NoDup_block _ _ rnodes cs c0 Hf Hc0). }
  rewrite rlinks_eq in H1, H2. apply in_flinks in H1. apply in_flinks in H2.
  destruct H1 as [[Hp Hc]|[ci [Hci Hx1]]]; destruct H2 as [[Hp2 Hc2]|[cj [Hcj Hx2]]].
  - (* both top links *)
    subst p p2. split; intros Hin.
    + exfalso. apply Hn. apply in_fnodes. exists c. split; assumption.
    + assert (c2 = c) by (apply (Hdisj c2 c (rroot c2) Hc2 Hc (rroot_in c2) Hin)). subst c2. congruence.
  - (* (n, c) top, (p2, c2) inside cj *)
    subst p. pose proof (rlinks_facts _ _ _ Hx2) as (A1 & A2 & _).
    assert (Hr2 : In (rroot c2) (rnodes cj)).
    { destruct cj as [ej nj csj]. rewrite rnodes_eq. right. apply A2. apply rroot_in. }
    split; intros Hin.
    + assert (cj = c) by (apply (Hdisj cj c p2 Hcj Hc A1 Hin)). subst cj. exact Hr2.
    + assert (cj = c) by (apply (Hdisj cj c (rroot c2) Hcj Hc Hr2 Hin)). subst cj. exact A1.
  - (* (p, c) inside ci, (n, c2) top *)
    subst p2. pose proof (rlinks_facts _ _ _ Hx1) as (A1 & A2 & _).
    assert (Hsubc : incl (rnodes c) (rnodes ci)).
    { intros x Hx. destruct ci as [ei ni csi]. rewrite rnodes_eq. right. apply A2. exact Hx. }
    split; intros Hin.
    + exfalso. apply Hn. apply in_fnodes. exists ci. split; [exact Hci | apply Hsubc; exact Hin].
    + exfalso. assert (c2 = ci) by (apply (Hdisj c2 ci (rroot c2) Hc2 Hci (rroot_in c2) (Hsubc _ Hin))).
      subst c2. destruct (rlinks_nodup_nodes ci p c (Hsub ci Hci) Hx1) as [Hr _]. apply Hr. exact Hin.
  - (* both inside *)
    pose proof (rlinks_facts _ _ _ Hx1) as (A1 & A2 & _). pose proof (rlinks_facts _ _ _ Hx2) as (C1 & C2 & _).
    assert (Hsubc : incl (rnodes c) (rnodes ci)).
    { intros x Hx. destruct ci as [ei ni csi]. rewrite rnodes_eq. right. apply A2. exact Hx. }
    assert (Hr2 : In (rroot c2) (rnodes cj)).
    { destruct cj as [ej nj csj]. rewrite rnodes_eq. right. apply C2. apply rroot_in. }
    split; intros Hin.
    + assert (cj = ci) by (apply (Hdisj cj ci p2 Hcj Hci C1 (Hsubc _ Hin))). subst cj.
      apply (IH ci Hci p c p2 c2 (Hsub ci Hci) Hx1 Hx2 Hne). exact Hin.
    + assert (cj = ci) by (apply (Hdisj cj ci (rroot c2) Hcj Hci Hr2 (Hsubc _ Hin))). subst cj.
      apply (IH ci Hci p c p2 c2 (Hsub ci Hci) Hx1 Hx2 Hne). exact Hin.
Qed.

(* ------------------------------------------------------------------------------------------------ *)
(* connection by the edges of the tree                                                               *)
(* ------------------------------------------------------------------------------------------------ *)
Definition link_ok (g : graph) (l : nat * rtree) : Prop :=
  In (redge (snd l)) (g_E g) /\ e_tree (gedge g (redge (snd l))) = true /\
  joins g (redge (snd l)) (fst l) (rroot (snd l)).

Definition avoid (e : nat) (f : nat) : bool := negb (Nat.eqb f e).

Lemma avoid_true : forall e f, avoid e f = true <-> f <> e.
Proof.
  intros e f. unfold avoid. rewrite negb_true_iff. split; [apply Nat.eqb_neq | apply Nat.eqb_neq].
Qed.

(* every node of t is connected to the root of t by edges of t *)
Lemma conn_inside : forall g ok t,
  (forall l, In l (rlinks t) -> link_ok g l /\ ok (redge (snd l)) = true) ->
  forall x, In x (rnodes t) -> tconn g ok (rroot t) x.
Proof.
  intros g ok. induction t as [e n cs IH] using rtree_ind2. intros Hl x Hx.
  rewrite rnodes_eq in Hx. cbn [rroot]. destruct Hx as [Hx|Hx]; [subst x; apply tc_refl|].
  apply in_fnodes in Hx. destruct Hx as [c [Hc Hx]].
  assert (Htop : In (n, c) (rlinks (RT e n cs))) by (rewrite rlinks_eq; apply in_flinks; left; split; [reflexivity|exact Hc]).
  destruct (Hl _ Htop) as [(L1 & L2 & L3) Hok]. cbn [fst snd] in *.
  eapply tconn_trans; [apply (tconn_edge g ok n (rroot c) (redge c) L1 L2 Hok L3)|].
  apply (IH c Hc); [|exact Hx].
  intros l Hin. apply Hl. destruct l as [p' c']. rewrite rlinks_eq. apply in_flinks. right. exists c. split; assumption.
Qed.

(* inside the child subtree of a link, avoiding the edge of the link *)
Lemma conn_inside_link : forall g t p c,
  (forall l, In l (rlinks t) -> link_ok g l) -> NoDup (redges t) -> In (p, c) (rlinks t) ->
  forall x, In x (rnodes c) -> tconn g (avoid (redge c)) (rroot c) x.
Proof.
  intros g t p c Hl Hnd Hpc x Hx. apply conn_inside; [|exact Hx].
  destruct (rlinks_facts t p c Hpc) as (_ & _ & A3 & _).
  intros l Hin. split; [apply Hl; apply A3; exact Hin|].
  apply avoid_true. intros Heq. apply (rlinks_nodup_edges t p c Hnd Hpc).
  rewrite <- Heq. destruct l as [p' c']. destruct (rlinks_facts c p' c' Hin) as (_ & _ & _ & A4 & _). exact A4.
Qed.

(* outside the child subtree of a link: connected to the root of t, avoiding the edge of the link *)
Lemma conn_outside : forall g t,
  (forall l, In l (rlinks t) -> link_ok g l) -> NoDup (redges t) ->
  forall p c, In (p, c) (rlinks t) ->
  forall x, In x (rnodes t) -> ~ In x (rnodes c) -> tconn g (avoid (redge c)) (rroot t) x.
Proof.
  intros g. induction t as [e n cs IH] using rtree_ind2. intros Hl Hnd p c Hpc x Hx Hxc.
  cbn [rroot]. rewrite rnodes_eq in Hx. destruct Hx as [Hx|Hx]; [subst x; apply tc_refl|].
  apply in_fnodes in Hx. destruct Hx as [cj [Hcj Hxj]].
  rewrite redges_eq in Hnd.
  assert (Hblk : forall a b y, In a cs -> In b cs -> In y (eblock a) -> In y (eblock b) -> a = b).
  { intros a b y Ha Hb Hya Hyb. apply (flat_map_NoDup_inj _ _ eblock cs a b y Hnd Ha Hb Hya Hyb). }
  assert (Htopl : forall c0, In c0 cs -> In (n, c0) (rlinks (RT e n cs))).
  { intros c0 Hc0. rewrite rlinks_eq. apply in_flinks. left. split; [reflexivity | exact Hc0]. }
  assert (Hsubl : forall c0 l, In c0 cs -> In l (rlinks c0) -> In l (rlinks (RT e n cs))).
  { intros c0 [p' c'] Hc0 Hin. rewrite rlinks_eq. apply in_flinks. right. exists c0. split; assumption. }
  (* the route through cj, usable when the avoided edge is not in the block of cj *)
  assert (Hroute : ~ In (redge c) (eblock cj) -> tconn g (avoid (redge c)) n x).
  { intros Hnot. destruct (Hl _ (Htopl cj Hcj)) as (L1 & L2 & L3). cbn [fst snd] in *.
    eapply tconn_trans.
    - apply (tconn_edge g _ n (rroot cj) (redge cj) L1 L2); [|exact L3].
      apply avoid_true. intros Heq. apply Hnot. left. exact Heq.
    - apply conn_inside; [|exact Hxj]. intros l Hin. split; [apply Hl; apply (Hsubl cj l Hcj Hin)|].
      apply avoid_true. intros Heq. apply Hnot. right. rewrite <- Heq.
      destruct l as [p' c']. destruct (rlinks_facts cj p' c' Hin) as (_ & _ & _ & A4 & _). exact A4. }
  rewrite rlinks_eq in Hpc. apply in_flinks in Hpc. destruct Hpc as [[Hp Hc]|[ci [Hci Hx1]]].
  - (* top link: cj <> c *)
    apply Hroute. intros Hin.
    assert (cj = c) by (apply (Hblk cj c (redge c) Hcj Hc Hin); left; reflexivity). subst cj. contradiction.
  - destruct (rlinks_facts ci p c Hx1) as (_ & _ & _ & A4 & _).
    destruct (in_dec Nat.eq_dec x (rnodes ci)) as [Hxi|Hxi].
    + (* through ci, then the induction hypothesis *)
      destruct (Hl _ (Htopl ci Hci)) as (L1 & L2 & L3). cbn [fst snd] in *.
      pose proof (flat_map_NoDup_block _ _ eblock cs ci Hnd Hci) as Hb. unfold eblock in Hb.
      inversion Hb as [|e' l' Hei Hndi]; subst.
      eapply tconn_trans.
      * apply (tconn_edge g _ n (rroot ci) (redge ci) L1 L2); [|exact L3].
        apply avoid_true. intros Heq. apply Hei. rewrite Heq. exact A4.
      * apply (IH ci Hci) with (p := p); try assumption. intros l Hin. apply Hl. apply (Hsubl ci l Hci Hin).
    + apply Hroute. intros Hin.
      assert (cj = ci) by (apply (Hblk cj ci (redge c) Hcj Hci Hin); right; exact A4). subst cj. contradiction.
Qed.

(* ------------------------------------------------------------------------------------------------ *)
(* Example: root 0 with children 1 (by edge 10) and 2 (by edge 11); 2 has the child 3 (by edge 12)   *)
(* ------------------------------------------------------------------------------------------------ *)
Definition ex_rt : rtree := RT 0 0 [RT 10 1 []; RT 11 2 [RT 12 3 []]]%nat.

Example ex_rt_lists :
  rnodes ex_rt = [0; 1; 2; 3]%nat /\ redges ex_rt = [10; 11; 12]%nat /\
  map (fun l => (fst l, rroot (snd l), rnodes (snd l))) (rlinks ex_rt) =
    [(0, 1, [1]); (0, 2, [2; 3]); (2, 3, [3])]%nat.
Proof. repeat split. Qed.

Example ex_rt_nodup : NoDup (rnodes ex_rt) /\ NoDup (redges ex_rt).
Proof. split; apply nodupb_NoDup; reflexivity. Qed.

(* links_sep on the links of the edges 11 (0 - 2) and 12 (2 - 3): both ends of 12 lie below 11 *)
Example ex_rt_sep : In 2%nat (rnodes (RT 11 2 [RT 12 3 []]%nat)) <-> In 3%nat (rnodes (RT 11 2 [RT 12 3 []]%nat)).
Proof.
  apply (links_sep ex_rt 0%nat (RT 11 2 [RT 12 3 []]%nat) 2%nat (RT 12 3 []) (proj1 ex_rt_nodup)).
  - cbn. right. left. reflexivity.
  - cbn. right. right. left. reflexivity.
  - cbn. discriminate.
Qed.
