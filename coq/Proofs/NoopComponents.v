(* NoopComponents.v — C09 for Layout with the no-op ordering (Model/PipelineNoop.v: [phase3_noop], [layout_component_n],
   [layout_n]): every connected component receives exactly the layout it would receive as the sole input, translated
   horizontally.

   S1  [number_positions_iso], [phase3_noop_iso]: numbering the positions band by band, and phase 3 with the no-op
       ordering, are equivariant under renumbering of arena indices ([RenumberBase.iso]); [phase3_noop_ea_le].
   S2  [layout_component_n_iso] (+ [_iso_ok], [_output_iso]): the per-component pipeline, any positioner (the Brandes-Koepf
       step needs the renumbering to be order preserving, [smono sigma], as in RenumberBK2.v).
   S3  [component_layout_n_is_sole_layout_translated]: the statement of
       [RenumberBK2.component_layout_x_is_sole_layout_translated] for [layout_n] / [layout_component_n];
       [sole_layout_n_fails_only_by_fuel].
   S4  [component_layout_n_is_sole_layout_translated_total]: the sole run's success is PROVED
       (NoopTotal.layout_n_total), as C09Close.component_layout_is_sole_layout_translated_total does for [layout].
   S5  Examples (RenumberExample.v: a two-component union whose components are interleaved in the arenas; the second
       component has long edges, cycles and a self loop). *)
From Autog Require Import Base Graph Populate Phase1 Phase2 Phase3 Phase4 Phase5 Layout Pipeline Check BK PipelineBK PipelineNoop.
From Coq Require Import Sorted Lia.
From Autog.Proofs Require Import ListLemmas Consistent PopulateProofs SizesProofs ComponentsProofs
     RenumberBase RenumberPopulate RenumberCollect RenumberCheck RenumberPipeline RenumberComponent RenumberFinal
     Shift RenumberExample RenumberBK RenumberBK2.
From Autog.Proofs Require RenumberBreak RenumberLen12 RenumberLen345 NoopPipeline NoopTotal BKTotal3 TotalPipeline C09Close.
Local Open Scope nat_scope.

(* ====================================================================================================== *)
(** * 1. Phase 3 with the no-op ordering is equivariant                                                    *)
(* ====================================================================================================== *)
Section Phase3Noop.
  Variables sigma tau : nat -> nat.

  Lemma num_band_iso : forall ns g g' z, iso sigma tau g g' ->
    iso sigma tau
      (fst (fold_left (fun (acc : graph * Z) n => (upd_node (fst acc) n (set_pos (snd acc)), (snd acc + 1)%Z)) ns (g, z)))
      (fst (fold_left (fun (acc : graph * Z) n => (upd_node (fst acc) n (set_pos (snd acc)), (snd acc + 1)%Z))
                      (map sigma ns) (g', z))).
  Proof.
    induction ns as [|n t IH]; intros g g' z H; cbn [map fold_left fst snd]; [exact H|].
    apply IH. apply iso_set_pos. exact H.
  Qed.

  Theorem number_positions_iso : forall g g', iso sigma tau g g' ->
    iso sigma tau (number_positions g) (number_positions g').
  Proof.
    intros g g' H. unfold number_positions. rewrite (iso_L H).
    apply fold_left_rel with (R := iso sigma tau); [exact H|].
    intros a b l _ Hab. cbn [layer_map l_nodes]. apply num_band_iso. exact Hab.
  Qed.

  Theorem phase3_noop_iso : forall g g', iso sigma tau g g' ->
    res_rel (@gx_rel sigma tau (option Z)) (phase3_noop g) (phase3_noop g').
  Proof.
    intros g g' H. unfold phase3_noop. rewrite (iso_N_length H), (iso_L_length H).
    destruct (Nat.eqb (length (g_N g)) 1); [constructor; split; cbn [fst snd]; auto|].
    apply res_rel_bind with (R := iso sigma tau).
    - destruct (Nat.ltb 1 (length (g_L g))); [apply RenumberBreak.break_long_edges_iso; exact H|constructor; exact H].
    - intros a b Hab. constructor. split; cbn [fst snd]; [apply number_positions_iso; exact Hab|reflexivity].
  Qed.
End Phase3Noop.

Print Assumptions number_positions_iso.
Print Assumptions phase3_noop_iso.

(* the edge arena only grows through phase 3 *)
Lemma number_positions_ea : forall g, g_ea (number_positions g) = g_ea g.
Proof. intros g. apply (NoopPipeline.npf_ea _ _ (NoopPipeline.number_positions_frame g)). Qed.

Lemma phase3_noop_ea_le : forall g r, phase3_noop g = Ok r -> length (g_ea g) <= length (g_ea (fst r)).
Proof.
  intros g r K. unfold phase3_noop in K.
  destruct (Nat.eqb (length (g_N g)) 1). { inversion K. cbn [fst]. lia. }
  destruct (Nat.ltb 1 (length (g_L g))).
  - destruct (break_long_edges g) as [g1|er] eqn:E1; cbn [bind] in K; [|discriminate].
    inversion K. cbn [fst]. rewrite number_positions_ea. apply RenumberLen345.break_long_edges_ea_le in E1. exact E1.
  - cbn [bind] in K. inversion K. cbn [fst]. rewrite number_positions_ea. lia.
Qed.

(* ====================================================================================================== *)
(** * 2. One component through [layout_component_n]                                                        *)
(* ====================================================================================================== *)
Section ComponentN.
  Variables sigma tau : nat -> nat.
  Hypothesis Hmono : smono sigma.

  Theorem layout_component_n_iso : forall bk o g g', iso sigma tau g g' ->
    res_rel (@gx_rel sigma tau (option Z)) (layout_component_n bk o g) (layout_component_n bk o g').
  Proof.
    intros bk o g g' H. unfold layout_component_n.
    destruct (ignore_self_loops_iso H) as [H0 [Hdel Hlt]].
    destruct (ignore_self_loops g) as [g0 del] eqn:E0. destruct (ignore_self_loops g') as [g0' del'] eqn:E0'.
    cbn [fst snd] in H0, Hdel, Hlt. subst del'.
    eapply res_rel_bind_eq with (R := iso sigma tau); [apply phase1_iso; exact H0|].
    intros g1 g1' E1 _ H1. apply RenumberLen12.phase1_ea_length in E1.
    eapply res_rel_bind_eq with (R := iso sigma tau); [apply phase2_iso; exact H1|].
    intros g2 g2' E2 _ H2. apply RenumberLen12.phase2_ea_length in E2.
    eapply res_rel_bind_eq with (R := @gx_rel sigma tau (option Z)); [apply phase3_noop_iso; exact H2|].
    intros [g3 x] [g3' x'] E3 _ [H3 Ex]. cbn [fst snd] in H3, Ex. subst x'.
    apply phase3_noop_ea_le in E3. cbn [fst] in E3.
    eapply res_rel_bind_eq with (R := iso sigma tau); [apply (phase4x_iso sigma tau Hmono); exact H3|].
    intros g4 g4' E4 _ H4. apply phase4x_ea_length in E4.
    eapply res_rel_bind_eq with (R := iso sigma tau); [apply phase5_iso; exact H4|].
    intros g5 g5' E5 _ H5. apply RenumberLen345.phase5_ea_length in E5.
    constructor. split; cbn [fst snd]; auto.
    apply post_process_iso; auto.
    intros e He. specialize (Hlt e He). lia.
  Qed.

  Corollary layout_component_n_iso_ok : forall bk o g g' r x r' x', iso sigma tau g g' ->
    layout_component_n bk o g = Ok (r, x) -> layout_component_n bk o g' = Ok (r', x') ->
    iso sigma tau r r' /\ x' = x.
  Proof.
    intros bk o g g' r x r' x' H E E'. pose proof (layout_component_n_iso bk o g g' H) as K.
    rewrite E, E' in K. apply res_rel_ok_inv in K. destruct K as [K1 K2]. cbn [fst snd] in K1, K2. auto.
  Qed.

  Corollary layout_component_n_output_iso : forall bk o g g' r x r' x' shift, iso sigma tau g g' ->
    layout_component_n bk o g = Ok (r, x) -> layout_component_n bk o g' = Ok (r', x') ->
    collect_nodes (o_virtual o) shift r' = map (rename_onode sigma) (collect_nodes (o_virtual o) shift r) /\
    collect_edges shift r' = map (rename_oedge sigma) (collect_edges shift r) /\
    rightmost r' = rightmost r /\ x' = x.
  Proof.
    intros bk o g g' r x r' x' shift H E E'.
    destruct (layout_component_n_iso_ok bk o g g' r x r' x' H E E') as [K1 K2].
    split; [apply (collect_nodes_iso _ _ K1)|]. split; [apply (collect_edges_iso _ K1)|].
    split; [apply (rightmost_iso K1)|exact K2].
  Qed.
End ComponentN.

Print Assumptions layout_component_n_iso.
Print Assumptions layout_component_n_output_iso.

(* ====================================================================================================== *)
(** * 3. The whole Layout: C09 for [layout_n]                                                              *)
(* ====================================================================================================== *)

(* [layout_components_n] is [collect_all] over the laid-out components (no hypothesis at all) *)
Lemma layout_components_n_collect_all : forall bk o cs s0 ns es xs,
  layout_components_n bk o cs s0 = Ok (ns, es, xs) ->
  exists gs, Forall2 (fun c g => exists x, layout_component_n bk o c = Ok (g, x)) cs gs /\
             collect_all o gs s0 = (ns, es).
Proof.
  intros bk o cs; induction cs as [|c rest IH]; intros s0 ns es xs K.
  - cbn in K. injection K as <- <- <-. exists []. split; [constructor|reflexivity].
  - cbn [layout_components_n] in K.
    destruct (layout_component_n bk o c) as [[g x]|e] eqn:Ec; cbn [bind] in K; [|discriminate].
    destruct (layout_components_n bk o rest (s0 + rightmost g + o_node_spacing o)%Q) as [[[ns' es'] xs']|e] eqn:Er;
      cbn [bind] in K; [|discriminate].
    injection K as <- <- <-.
    destruct (IH _ _ _ _ Er) as (gs & HF & HC).
    exists (g :: gs). split; [constructor; [exists x; exact Ec|exact HF]|].
    cbn [collect_all]. rewrite HC. reflexivity.
Qed.

Section FinalN.
  Variable A : Type.
  Variable eqA : A -> A -> bool.
  Hypothesis eqA_ok : forall x y, eqA x y = true <-> x = y.

  Lemma layout_n_components : forall bk o fixed sizes es ids g0 ns eo xs,
    populate A eqA es = Ok (ids, g0) ->
    layout_n A eqA bk o fixed sizes es = Ok (ids, (ns, eo, xs)) ->
    layout_components_n bk o (components (apply_sizes A eqA fixed sizes ids g0)) 0 = Ok (ns, eo, xs).
  Proof.
    intros bk o fixed sizes es ids g0 ns eo xs P L.
    unfold layout_n in L. rewrite P in L. cbn [bind] in L. destruct ids as [|i0 it]; [discriminate|].
    destruct (layout_components_n bk o _ 0) as [r|e]; cbn [bind] in L; [|discriminate].
    injection L as ->. reflexivity.
  Qed.

  Lemma layout_n_single : forall bk o fixed sizes es1 ids1 g10 c1 ns1 eo1 xs1,
    populate A eqA es1 = Ok (ids1, g10) ->
    components (apply_sizes A eqA fixed sizes ids1 g10) = [c1] ->
    layout_n A eqA bk o fixed sizes es1 = Ok (ids1, (ns1, eo1, xs1)) ->
    exists g1r x1, layout_component_n bk o c1 = Ok (g1r, x1) /\
      ns1 = collect_nodes (o_virtual o) 0 g1r /\ eo1 = collect_edges 0 g1r /\
      xs1 = match x1 with Some v => [v] | None => [] end.
  Proof.
    intros bk o fixed sizes es1 ids1 g10 c1 ns1 eo1 xs1 P C L.
    unfold layout_n in L. rewrite P in L. cbn [bind] in L.
    destruct ids1 as [|i0 it]; [discriminate|].
    rewrite C in L. cbn [layout_components_n] in L.
    destruct (layout_component_n bk o c1) as [[g1r x1]|e]; cbn [bind] in L; [|discriminate].
    injection L as <- <- <-. exists g1r, x1. rewrite !app_nil_r. repeat split; auto.
  Qed.

  (* ---------- MAIN 1 ---------- *)
  Theorem component_layout_n_is_sole_layout_translated :
    forall bk o fixed sizes es ids g0 ns eo xs k c,
    populate A eqA es = Ok (ids, g0) ->
    layout_n A eqA bk o fixed sizes es = Ok (ids, (ns, eo, xs)) ->
    nth_error (components (apply_sizes A eqA fixed sizes ids g0)) k = Some c ->
    forall ids1 ns1 eo1 xs1,
    layout_n A eqA bk o fixed sizes (map (fun i => nth i es []) (g_E c)) = Ok (ids1, (ns1, eo1, xs1)) ->
    exists gs sigma,
      inj sigma /\ smono sigma /\
      (* the union's output is the concatenation of the per-component outputs (Shift.v) *)
      collect_all o gs 0 = (ns, eo) /\
      Forall2 (fun c g => exists x, layout_component_n bk o c = Ok (g, x))
              (components (apply_sizes A eqA fixed sizes ids g0)) gs /\
      (* component k's records are the sole layout's records, renamed and translated by shift_k *)
      Forall2 (onode_shifted sigma (shift_at o gs 0 k)) ns1 (comp_nodes o gs 0 k) /\
      Forall2 (oedge_shifted sigma (shift_at o gs 0 k)) eo1 (comp_edges o gs 0 k) /\
      (* and the reported crossing numbers are the same (none: the no-op ordering reports no crossing number) *)
      (exists x, layout_component_n bk o c = Ok (nth k gs graph0, x) /\
                 xs1 = match x with Some v => [v] | None => [] end).
  Proof.
    intros bk o fixed sizes es ids g0 ns eo xs k c P L Hk ids1 ns1 eo1 xs1 L1.
    set (g := apply_sizes A eqA fixed sizes ids g0) in *.
    assert (Hc : In c (components g)) by (eapply nth_error_In; eauto).
    destruct (@component_iso_sole A eqA eqA_ok fixed sizes es ids g0 c P Hc)
      as [ids1' [g10 [c1 [P1 [Hne [C1 Hiso]]]]]].
    pose proof (component_sigma_smono A eqA eqA_ok fixed sizes es ids g0 c P Hc) as Hmono.
    fold g in Hiso, Hmono.
    (* the sole run *)
    assert (Eids : ids1' = ids1).
    { unfold layout_n in L1. rewrite P1 in L1. cbn [bind] in L1. destruct ids1' as [|i0 it]; [discriminate|].
      destruct (layout_components_n bk o _ 0) as [r|e]; cbn [bind] in L1; [|discriminate]. injection L1 as E _. exact E. }
    subst ids1'.
    destruct (layout_n_single bk o fixed sizes _ ids1 g10 c1 ns1 eo1 xs1 P1 C1 L1) as [g1r [x1 [E1 [En [Ee Ex]]]]].
    (* the union run *)
    pose proof (layout_n_components bk o fixed sizes es ids g0 ns eo xs P L) as LC. fold g in LC.
    destruct (layout_components_n_collect_all bk o (components g) 0%Q ns eo xs LC) as [gs [HF HC]].
    destruct (Forall2_nth_error _ _ _ _ _ k _ HF Hk) as [gk [Egk [x Ek]]].
    assert (Egk' : nth k gs graph0 = gk) by (apply nth_error_nth; exact Egk).
    set (sigma := mk_map (g_N c) (length (g_na g))) in *.
    set (tau := mk_map (g_E c) (length (g_ea g))) in *.
    destruct (layout_component_n_output_iso sigma tau Hmono bk o c1 c g1r x1 gk x (shift_at o gs 0 k) Hiso E1 Ek)
      as [KN [KE [_ Kx]]].
    exists gs, sigma. split; [apply (iso_sinj Hiso)|]. split; [exact Hmono|]. split; [exact HC|]. split; [exact HF|].
    split; [|split].
    - unfold comp_nodes. rewrite Egk', KN, En. apply onode_shifted_rename. apply collect_nodes_shift.
    - unfold comp_edges. rewrite Egk', KE, Ee. apply oedge_shifted_rename. apply collect_edges_shift.
    - exists x. rewrite Egk'. split; [exact Ek|]. rewrite Ex, Kx. reflexivity.
  Qed.

  (* the sole layout cannot fail in any other way than by the model's own fuel *)
  Theorem sole_layout_n_fails_only_by_fuel :
    forall bk o fixed sizes es ids g0 ns eo xs k c,
    populate A eqA es = Ok (ids, g0) ->
    layout_n A eqA bk o fixed sizes es = Ok (ids, (ns, eo, xs)) ->
    nth_error (components (apply_sizes A eqA fixed sizes ids g0)) k = Some c ->
    (exists r, layout_n A eqA bk o fixed sizes (map (fun i => nth i es []) (g_E c)) = Ok r) \/
    (exists w, layout_n A eqA bk o fixed sizes (map (fun i => nth i es []) (g_E c)) = Err (ErrFuel w)).
  Proof.
    intros bk o fixed sizes es ids g0 ns eo xs k c P L Hk.
    set (g := apply_sizes A eqA fixed sizes ids g0) in *.
    assert (Hc : In c (components g)) by (eapply nth_error_In; eauto).
    destruct (@component_iso_sole A eqA eqA_ok fixed sizes es ids g0 c P Hc)
      as [ids1 [g10 [c1 [P1 [Hne [C1 Hiso]]]]]].
    pose proof (component_sigma_smono A eqA eqA_ok fixed sizes es ids g0 c P Hc) as Hmono.
    fold g in Hiso, Hmono.
    pose proof (layout_n_components bk o fixed sizes es ids g0 ns eo xs P L) as LC. fold g in LC.
    destruct (layout_components_n_collect_all bk o (components g) 0%Q ns eo xs LC) as [gs [HF HC]].
    destruct (Forall2_nth_error _ _ _ _ _ k _ HF Hk) as [gk [Egk [x Ek]]].
    pose proof (layout_component_n_iso _ _ Hmono bk o c1 c Hiso) as K. rewrite Ek in K.
    unfold layout_n. rewrite P1. cbn [bind]. destruct ids1 as [|i0 it]; [congruence|].
    rewrite C1. cbn [layout_components_n].
    inversion K as [r1 r2 HR E1 E2| | w b E1 E2 | a w E1 E2].
    - left. destruct r1 as [g1r x1]. cbn [bind]. eexists. reflexivity.
    - right. exists w. reflexivity.
  Qed.

  (* ---------- MAIN 3: the sole run's success PROVED ---------- *)
  (* the three facts about the edge list of a component, for the options of [layout_x] / [layout_n] *)
  Lemma component_edges_input_n : forall o fixed sizes es ids g0 c,
    BKTotal3.layout_x_options_ok A o es ->
    populate A eqA es = Ok (ids, g0) ->
    In c (components (apply_sizes A eqA fixed sizes ids g0)) ->
    let es1 := map (fun i => nth i es []) (g_E c) in
    es1 <> [] /\ Forall (fun p => length p = 2) es1 /\ BKTotal3.layout_x_options_ok A o es1.
  Proof.
    intros o fixed sizes es ids g0 c (O4 & O5 & BUD) P Hc es1.
    destruct (@component_iso_sole A eqA eqA_ok fixed sizes es ids g0 c P Hc)
      as [ids1 [g10 [c1 [P1 [Hne _]]]]].
    fold es1 in P1.
    split; [|split].
    - intros E. rewrite E in P1. apply Hne. apply (C09Close.populate_nil_ids A eqA eqA_ok ids1 g10 P1).
    - apply (proj1 (@populate_ok_iff A eqA es1)). exists ids1, g10. exact P1.
    - split; [exact O4|]. split; [exact O5|]. intros ENS.
      apply (TotalPipeline.sqrt_budget_mono _ (2 * length es1) (2 * length es)); [|apply BUD, ENS].
      pose proof (populate_wf eqA eqA_ok es P) as W.
      set (g := apply_sizes A eqA fixed sizes ids g0) in *.
      assert (Cg : consistent g) by apply (sized_consistent eqA fixed sizes W).
      destruct (components_partition g Cg) as (_ & _ & SE & _). cbv zeta in SE.
      assert (GE : g_E g = iota 0 (length es)) by (unfold g; rewrite sized_E; apply (p_E W)).
      assert (LE : length (g_E c) <= length es).
      { rewrite (SE c Hc), GE. eapply Nat.le_trans; [apply C09Close.filter_length_le_c|]. rewrite iota_length. lia. }
      unfold es1. rewrite map_length. lia.
  Qed.

  Theorem component_layout_n_is_sole_layout_translated_total :
    forall bk o fixed sizes es ids g0 ns eo xs k c,
    Forall (fun p => length p = 2%nat) es -> BKTotal3.layout_x_options_ok A o es ->
    populate A eqA es = Ok (ids, g0) ->
    layout_n A eqA bk o fixed sizes es = Ok (ids, (ns, eo, xs)) ->
    nth_error (components (apply_sizes A eqA fixed sizes ids g0)) k = Some c ->
    exists ids1 ns1 eo1,
      layout_n A eqA bk o fixed sizes (map (fun i => nth i es []) (g_E c)) = Ok (ids1, (ns1, eo1, [])) /\
      exists gs sigma, inj sigma /\ smono sigma /\ collect_all o gs 0 = (ns, eo) /\
        Forall2 (fun c g => exists x, layout_component_n bk o c = Ok (g, x))
                (components (apply_sizes A eqA fixed sizes ids g0)) gs /\
        Forall2 (onode_shifted sigma (shift_at o gs 0 k)) ns1 (comp_nodes o gs 0 k) /\
        Forall2 (oedge_shifted sigma (shift_at o gs 0 k)) eo1 (comp_edges o gs 0 k) /\
        layout_component_n bk o c = Ok (nth k gs graph0, None).
  Proof.
    intros bk o fixed sizes es ids g0 ns eo xs k c ARITY OK P L Hk.
    assert (Hc : In c (components (apply_sizes A eqA fixed sizes ids g0))) by (eapply nth_error_In; eauto).
    destruct (component_edges_input_n o fixed sizes es ids g0 c OK P Hc) as (NE1 & AR1 & OK1).
    destruct (NoopTotal.layout_n_total_strong A eqA eqA_ok bk o fixed sizes _ NE1 AR1 OK1) as (ids1 & ns1 & eo1 & L1).
    exists ids1, ns1, eo1. split; [exact L1|].
    destruct (component_layout_n_is_sole_layout_translated bk o fixed sizes es ids g0 ns eo xs k c P L Hk
                ids1 ns1 eo1 [] L1) as (gs & sigma & I & M & CA & F2 & FN & FE & x & Ex & Exs).
    exists gs, sigma. repeat (split; [assumption|]).
    destruct x as [v|]; [discriminate Exs|exact Ex].
  Qed.
End FinalN.

Print Assumptions component_layout_n_is_sole_layout_translated.
Print Assumptions sole_layout_n_fails_only_by_fuel.
Print Assumptions component_layout_n_is_sole_layout_translated_total.

(* ====================================================================================================== *)
(** * 4. Examples: the hypotheses are satisfiable                                                          *)
(* ====================================================================================================== *)
(* rx_union_edges = [[1;2];[3;4];[2;6];[4;5];[4;4];[3;5];[6;1];[5;3];[5;7];[7;8];[3;8];[8;4]]: components {1,2,6} and
   {3,4,5,7,8}, interleaved in the arenas; rx_comp is the second component (k = 1): it has a self loop, cycles and long
   edges (virtual nodes are allocated: see [rxn_check]). *)

(* hypotheses of layout_component_n_iso *)
Example rxn_hyps : iso rx_sigma rx_tau rx_sole rx_comp /\ smono rx_sigma.
Proof. split; [exact rx_iso|exact rx_sigma_smono]. Qed.

(* Brandes-Koepf (every variant), and the size-aware positioners *)
Definition rxn_o (p4 : p4alg) : options := mkOptions DepthFirst NetworkSimplex p4 Polyline 3 2 (20%Q) (40%Q) true.
Definition rxn_variants : list (Z * p4alg) :=
  [(-1, OtherPositioner); (0, OtherPositioner); (3, OtherPositioner); (-1, SinkColoring); (-1, NsPositioner); (-1, VAlign)]%Z.

(* both runs succeed, long edges are broken (the node arena grows), and the results are isomorphic with the SAME maps:
   by computation *)
Definition rxn_check (v : Z * p4alg) : bool :=
  match layout_component_n (fst v) (rxn_o (snd v)) rx_sole, layout_component_n (fst v) (rxn_o (snd v)) rx_comp with
  | Ok (r, x), Ok (r', x') =>
      isob rx_sigma rx_tau r r' && opt_eqb x x' && Nat.ltb (length (g_na rx_sole)) (length (g_na r))
  | _, _ => false
  end.

Example rxn_pipeline_checked : forallb rxn_check rxn_variants = true.
Proof. vm_compute. reflexivity. Qed.

(* and this is what layout_component_n_iso predicts *)
Example rxn_pipeline_by_theorem : forall bk p4 r x r' x',
  layout_component_n bk (rxn_o p4) rx_sole = Ok (r, x) -> layout_component_n bk (rxn_o p4) rx_comp = Ok (r', x') ->
  iso rx_sigma rx_tau r r' /\ x' = x /\
  collect_nodes (o_virtual (rxn_o p4)) 0 r' = map (rename_onode rx_sigma) (collect_nodes (o_virtual (rxn_o p4)) 0 r) /\
  rightmost r' = rightmost r.
Proof.
  intros bk p4 r x r' x' E E'.
  destruct (layout_component_n_iso_ok rx_sigma rx_tau rx_sigma_smono bk (rxn_o p4) rx_sole rx_comp r x r' x' rx_iso E E') as [K1 K2].
  destruct (layout_component_n_output_iso rx_sigma rx_tau rx_sigma_smono bk (rxn_o p4) rx_sole rx_comp r x r' x' 0%Q rx_iso E E')
    as [K3 [_ [K5 _]]].
  auto.
Qed.

(* the hypotheses of component_layout_n_is_sole_layout_translated hold here ... *)
Example rxn_final_hyps :
  exists ids g0 out ids1 out1,
    populate nat Nat.eqb rx_union_edges = Ok (ids, g0) /\
    layout_n nat Nat.eqb (-1) (rxn_o OtherPositioner) rx_fixed None rx_union_edges = Ok (ids, out) /\
    nth_error (components (apply_sizes nat Nat.eqb rx_fixed None ids g0)) 1 = Some rx_comp /\
    map (fun i => nth i rx_union_edges []) (g_E rx_comp) = rx_sole_edges /\
    layout_n nat Nat.eqb (-1) (rxn_o OtherPositioner) rx_fixed None rx_sole_edges = Ok (ids1, out1).
Proof. vm_compute. do 5 eexists. repeat split; reflexivity. Qed.

(* ... and the theorem instantiated *)
Example rxn_final_by_theorem : forall ids g0 ns eo xs ids1 ns1 eo1 xs1,
  populate nat Nat.eqb rx_union_edges = Ok (ids, g0) ->
  layout_n nat Nat.eqb (-1) (rxn_o OtherPositioner) rx_fixed None rx_union_edges = Ok (ids, (ns, eo, xs)) ->
  layout_n nat Nat.eqb (-1) (rxn_o OtherPositioner) rx_fixed None rx_sole_edges = Ok (ids1, (ns1, eo1, xs1)) ->
  exists gs sigma, inj sigma /\ collect_all (rxn_o OtherPositioner) gs 0 = (ns, eo) /\
    Forall2 (onode_shifted sigma (shift_at (rxn_o OtherPositioner) gs 0 1)) ns1 (comp_nodes (rxn_o OtherPositioner) gs 0 1) /\
    Forall2 (oedge_shifted sigma (shift_at (rxn_o OtherPositioner) gs 0 1)) eo1 (comp_edges (rxn_o OtherPositioner) gs 0 1).
Proof.
  intros ids g0 ns eo xs ids1 ns1 eo1 xs1 P L L1.
  assert (Hk : nth_error (components (apply_sizes nat Nat.eqb rx_fixed None ids g0)) 1 = Some rx_comp).
  { vm_compute in P. injection P as <- <-. vm_compute. reflexivity. }
  assert (E : map (fun i => nth i rx_union_edges []) (g_E rx_comp) = rx_sole_edges) by (vm_compute; reflexivity).
  rewrite <- E in L1.
  destruct (component_layout_n_is_sole_layout_translated nat Nat.eqb nat_eqb_ok' (-1) (rxn_o OtherPositioner) rx_fixed None
              rx_union_edges ids g0 ns eo xs 1 rx_comp P L Hk ids1 ns1 eo1 xs1 L1) as [gs [sigma [I [_ [C [_ [N [Ed _]]]]]]]].
  exists gs, sigma. auto.
Qed.

(* the hypotheses of the _total form: arity, options, the union run *)
Example rxn_options_ok : BKTotal3.layout_x_options_ok nat (rxn_o OtherPositioner) rx_union_edges.
Proof.
  split; [left; reflexivity|]. split; [right; left; reflexivity|]. intros _. vm_compute. discriminate.
Qed.

Example rxn_total_hyps :
  Forall (fun p => length p = 2) rx_union_edges /\
  BKTotal3.layout_x_options_ok nat (rxn_o OtherPositioner) rx_union_edges /\
  exists ids g0 out,
    populate nat Nat.eqb rx_union_edges = Ok (ids, g0) /\
    layout_n nat Nat.eqb (-1) (rxn_o OtherPositioner) rx_fixed None rx_union_edges = Ok (ids, out) /\
    nth_error (components (apply_sizes nat Nat.eqb rx_fixed None ids g0)) 1 = Some rx_comp.
Proof.
  split; [repeat constructor|]. split; [exact rxn_options_ok|].
  vm_compute. do 3 eexists. repeat split; reflexivity.
Qed.

(* the theorem instantiated: no hypothesis about the sole run is left *)
Example rxn_total_by_theorem : forall ids g0 ns eo xs,
  populate nat Nat.eqb rx_union_edges = Ok (ids, g0) ->
  layout_n nat Nat.eqb (-1) (rxn_o OtherPositioner) rx_fixed None rx_union_edges = Ok (ids, (ns, eo, xs)) ->
  exists ids1 ns1 eo1,
    layout_n nat Nat.eqb (-1) (rxn_o OtherPositioner) rx_fixed None rx_sole_edges = Ok (ids1, (ns1, eo1, [])) /\
    exists gs sigma, inj sigma /\ collect_all (rxn_o OtherPositioner) gs 0 = (ns, eo) /\
      Forall2 (onode_shifted sigma (shift_at (rxn_o OtherPositioner) gs 0 1)) ns1 (comp_nodes (rxn_o OtherPositioner) gs 0 1) /\
      Forall2 (oedge_shifted sigma (shift_at (rxn_o OtherPositioner) gs 0 1)) eo1 (comp_edges (rxn_o OtherPositioner) gs 0 1).
Proof.
  intros ids g0 ns eo xs P L.
  assert (Hk : nth_error (components (apply_sizes nat Nat.eqb rx_fixed None ids g0)) 1 = Some rx_comp).
  { vm_compute in P. injection P as <- <-. vm_compute. reflexivity. }
  assert (E : map (fun i => nth i rx_union_edges []) (g_E rx_comp) = rx_sole_edges) by (vm_compute; reflexivity).
  assert (AR : Forall (fun p => length p = 2) rx_union_edges) by (repeat constructor).
  destruct (component_layout_n_is_sole_layout_translated_total nat Nat.eqb nat_eqb_ok' (-1) (rxn_o OtherPositioner) rx_fixed None
              rx_union_edges ids g0 ns eo xs 1 rx_comp AR rxn_options_ok P L Hk)
    as (ids1 & ns1 & eo1 & L1 & gs & sigma & I & _ & C & _ & N & Ed & _).
  rewrite E in L1.
  exists ids1, ns1, eo1. split; [exact L1|]. exists gs, sigma. auto.
Qed.
