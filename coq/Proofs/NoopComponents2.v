(* NoopComponents2.v — the components of a Layout with the no-op ordering (Model/PipelineNoop.v: [layout_n]) are placed
   apart, for the four size-aware positioners VAlign / PackRight / SinkColoring / NetworkSimplex ([options_ok' o],
   Proofs/NSPositioner.v).

   S1  [Wn3_no_overlap']: [NoopOverlap.Wn3_no_overlap] (W3: the node rectangles of one laid-out component do not overlap)
       with [options_ok'] in place of [options_ok]. [W3_of_backbone_gen] is the derivation of W3 from [backbone_n] with the
       two facts about the positioner as premises; for NsPositioner they come from [NSPositioner.phase4_ns_no_overlap_in] /
       [phase4_ns_nonneg] (for this positioner [phase4x bk] IS [phase4]).
   S2  [layout_n_components_apart]: the statement of [NSPWhole.G8_layout_separated'] (Properties/C04.v,
       C04_layout_components_apart_all_positioners) for [layout_n bk]: output x >= 0, every output node belongs to a
       component, nodes of different components are at least NodeSpacing apart, in the order of the components.
   S3  Examples. *)
From Autog Require Import Base Graph Populate Phase1 Phase2 Phase3 Phase4 Phase5 Layout Wmedian Pipeline BK PipelineBK PipelineNoop Check.
From Autog.Proofs Require Import ListLemmas Consistent PopulateProofs SizesProofs ComponentsProofs SelfLoopProofs Summary.
From Autog.Proofs Require CBBase CBGreedy CBGreedyRanks CBDepthFirst CBHasCycles CycleBreaking LongestPath
                          OptNormalize OptVbalance OptPipeline CollectProofs.
From Autog.Proofs Require CrossCountProofs WmedianProofs TreeProofs.
From Autog.Proofs Require Import Positioners Routes BreakMerge SinkColoringProofs Shift E2EBridge E2EBackbone E2EOutput E2EFrontend.
From Autog.Proofs Require Import NSBridge WholeBridge WholeCrossings WholeOverlap WholeLayout Final NSPositioner NSPWhole.
From Autog.Proofs Require Import BKPipeline NoopPipeline NoopPipeline2 NoopOverlap.
From Autog.Proofs Require NoopComponents.
From Coq Require Import Permutation Lia Lqa.
Local Open Scope nat_scope.

(* ====================================================================================================== *)
(** * 1. W3 for one component, four positioners                                                            *)
(* ====================================================================================================== *)
Section OverlapGen.
  Variables (bk : Z) (o : options) (g g' : graph) (x : option Z) (g0 : graph) (del : list nat) (g1 g2 g3 : graph) (k : nat)
            (g3' : graph) (g4 gm : graph) (routes : list (nat * list nat)) (g5 : graph).
  Hypothesis CI : component_input g.
  Hypothesis BB : backbone_n bk o g g' x g0 del g1 g2 g3 k g3' g4 gm routes g5.
  Hypothesis SZ : sizes_nonneg g.
  Hypothesis SP : spacing_nonneg o.
  (* the two facts about the positioner *)
  Hypothesis POS : forall l i j a b, In l (g_L g3') -> i < j ->
    nth_error (l_nodes l) i = Some a -> nth_error (l_nodes l) j = Some b ->
    (nX g4 a + nW g3' a + o_node_spacing o <= nX g4 b)%Q.
  Hypothesis XNN : forall n, in_layers g3' n -> (0 <= nX g4 n)%Q.

  Let S45 := nb_s45 _ _ _ _ _ _ _ _ _ _ _ _ _ _ _ _ BB.

  (* NoopOverlap.W3_of_backbone, with [ov_positioner] / [ov_x_nonneg] replaced by the premises *)
  Lemma W3_of_backbone_gen : W3_statement o g'.
  Proof.
    destruct (nE2_of_backbone _ _ _ _ _ _ _ _ _ _ _ _ _ _ _ _ CI BB) as (WF' & PL' & BD & _).
    destruct (nbx_phase4 _ _ _ _ _ _ _ _ _ _ _ _ _ _ _ _ BB) as (F1 & F2 & F3 & F4 & F5 & F6 & F7).
    pose proof (nbx_out_L _ _ _ _ _ _ _ _ _ _ _ _ _ _ _ _ CI BB) as OL.
    pose proof (ov_geom_out _ _ _ _ _ _ _ _ _ _ _ _ _ _ _ _ CI BB) as GEO.
    pose proof (ov_w4 _ _ _ _ _ _ _ _ _ _ _ _ _ _ _ _ BB) as W4.
    pose proof (ov_sizes3' _ _ _ _ _ _ _ _ _ _ _ _ _ _ _ _ CI BB SZ) as SZ3.
    assert (LN : forall kk, l_nodes (glayer g' kk) = l_nodes (glayer g3' kk)).
    { intros kk. unfold glayer at 1. rewrite OL. apply F6. }
    assert (LEN : length (g_L g') = length (g_L g3')) by (rewrite OL; exact F7).
    assert (LH0 : forall j, (0 <= l_h (nth j (g_L g') layer0))%Q).
    { intros j. rewrite OL. apply (s4_lh0 _ _ _ _ _ _ _ _ _ S45 j). }
    assert (INL3 : forall kk n, In n (l_nodes (glayer g' kk)) -> in_layers g3' n).
    { intros kk n Hn. rewrite LN in Hn. unfold in_layers. apply in_flat_map. exists (glayer g3' kk). split; [|exact Hn].
      destruct (Nat.lt_ge_cases kk (length (g_L g3'))) as [L|L]; [apply nth_In, L|].
      unfold glayer in Hn. rewrite nth_overflow in Hn; [destruct Hn|exact L]. }
    assert (NOV : Shift.no_overlap (o_node_spacing o) g').
    { intros l i j a b Hl Hij Ha Hb. destruct (In_nth _ _ layer0 Hl) as (kk & Hkk & <-). fold (glayer g' kk) in *.
      rewrite LN in Ha, Hb.
      destruct (GEO a) as (-> & _ & -> & _). destruct (GEO b) as (-> & _).
      destruct (W4 a) as [-> _].
      apply (POS (glayer g3' kk) i j a b); try assumption. apply nth_In. rewrite <- LEN. exact Hkk. }
    assert (NOVk : forall kk i j a b, i < j ->
              nth_error (l_nodes (glayer g' kk)) i = Some a -> nth_error (l_nodes (glayer g' kk)) j = Some b ->
              (nX g' a + nW g' a + o_node_spacing o <= nX g' b)%Q).
    { intros kk i j a b Hij Ha Hb. destruct (Nat.lt_ge_cases kk (length (g_L g'))) as [L|L].
      - apply (NOV (glayer g' kk) i j a b); try assumption. apply nth_In, L.
      - unfold glayer in Ha. rewrite nth_overflow in Ha by exact L. destruct i; discriminate. }
    assert (VERT : forall kk kk' a b, kk < kk' -> In a (l_nodes (glayer g' kk)) -> In b (l_nodes (glayer g' kk')) ->
              (nY g' a + nH g' a + o_layer_spacing o <= nY g' b)%Q).
    { intros kk kk' a b Hk Ha Hb. destruct (BD kk a Ha) as (_ & _ & -> & HH). destruct (BD kk' b Hb) as (_ & _ & -> & _).
      pose proof (ysum_mono (o_layer_spacing o) (g_L g') (S kk) kk' (proj2 SP) LH0 Hk) as M.
      rewrite ysum_S in M. fold (glayer g' kk) in M. lra. }
    assert (NODE : forall n, In n (g_N g') ->
              In n (l_nodes (glayer g' (band g' n))) /\ (0 <= nX g' n)%Q /\ (0 <= nY g' n)%Q /\ (0 <= nW g' n)%Q /\ (0 <= nH g' n)%Q).
    { intros n Hn. destruct (PL' n Hn) as [_ P1]. fold (band g' n) in P1. split; [exact P1|].
      pose proof (INL3 _ _ P1) as IL.
      destruct (GEO n) as (-> & _ & -> & ->). destruct (W4 n) as [-> ->].
      split; [apply XNN, IL|]. split; [|apply SZ3, IL].
      destruct (BD _ n P1) as (_ & _ & -> & _). apply ysum_nonneg; [apply SP|exact LH0]. }
    split; [exact NODE|]. split; [intros kk n Hn; destruct (BD kk n Hn) as (A & B & _); split; assumption|].
    split; [exact NOV|]. split; [exact NOVk|]. split; [exact VERT|]. split.
    - intros a b Ha Hb Hab.
      destruct (NODE a Ha) as (Pa & _). destruct (NODE b Hb) as (Pb & _).
      destruct (Nat.lt_total (band g' a) (band g' b)) as [L|[E|L]].
      + right. right. left. split; [exact L|]. apply (VERT _ _ a b L Pa Pb).
      + rewrite <- E in Pb.
        destruct (In_nth_error _ _ Pa) as (i & Hi). destruct (In_nth_error _ _ Pb) as (j & Hj).
        destruct (Nat.lt_total i j) as [Lij|[Eij|Lij]].
        * left. split; [exact E|]. apply (NOVk _ i j a b Lij Hi Hj).
        * exfalso. subst j. congruence.
        * right. left. split; [symmetry; exact E|]. apply (NOVk _ j i b a Lij Hj Hi).
      + right. right. right. split; [exact L|]. apply (VERT _ _ b a L Pb Pa).
    - constructor.
      + intros n Hn. unfold in_layers in Hn. apply in_flat_map in Hn. destruct Hn as (l & Hl & Hn).
        destruct (In_nth _ _ layer0 Hl) as (kk & Hkk & <-). fold (glayer g' kk) in Hn.
        destruct (BD kk n Hn) as (HnN & _). apply (NODE n HnN).
      + apply (Shift.last_is_rightmost (s := o_node_spacing o)); [apply SP| |exact NOV].
        intros n Hn. unfold in_layers in Hn. apply in_flat_map in Hn. destruct Hn as (l & Hl & Hn).
        destruct (In_nth _ _ layer0 Hl) as (kk & Hkk & <-). fold (glayer g' kk) in Hn.
        destruct (BD kk n Hn) as (HnN & _). apply (NODE n HnN).
      + intros n Hn. destruct (NODE n Hn) as (P1 & _). unfold in_layers. apply in_flat_map.
        exists (glayer g' (band g' n)). split; [|exact P1].
        destruct (Nat.lt_ge_cases (band g' n) (length (g_L g'))) as [L|L]; [apply nth_In, L|].
        unfold glayer in P1. rewrite nth_overflow in P1; [destruct P1|exact L].
  Qed.
End OverlapGen.

(* the NetworkSimplex positioner after the no-op ordering *)
Lemma W3_of_backbone_ns : forall bk o g g' x g0 del g1 g2 g3 k g3' g4 gm routes g5,
  component_input g -> o_p4 o = NsPositioner ->
  backbone_n bk o g g' x g0 del g1 g2 g3 k g3' g4 gm routes g5 ->
  sizes_nonneg g -> spacing_nonneg o -> W3_statement o g'.
Proof.
  intros bk o g g' x g0 del g1 g2 g3 k g3' g4 gm routes g5 CI E BB SZ SP.
  pose proof (nb_s23 _ _ _ _ _ _ _ _ _ _ _ _ _ _ _ _ BB) as S23.
  pose proof (nb_s45 _ _ _ _ _ _ _ _ _ _ _ _ _ _ _ _ BB) as S45.
  pose proof (nbx_N3' _ _ _ _ _ _ _ _ _ _ _ _ _ _ _ _ BB) as N3'.
  pose proof (ov_sizes_ok _ _ _ _ _ _ _ _ _ _ _ _ _ _ _ _ CI BB SZ SP) as SOK.
  assert (NW : nsp_wf g3').
  { apply (order_contract_nsp_wf g3 g3' (s4_oc _ _ _ _ _ _ _ _ _ S45)). apply (stage23_nsp_wf g1 g2 g3 k S23). }
  assert (P4 : phase4 NsPositioner (p4_params o) g3' = Ok g4).
  { pose proof (nb_e4 _ _ _ _ _ _ _ _ _ _ _ _ _ _ _ _ BB) as P4. rewrite E in P4. exact P4. }
  apply (W3_of_backbone_gen bk o g g' x g0 del g1 g2 g3 k g3' g4 gm routes g5 CI BB SZ SP).
  - intros l i j a b Hl Hij Ha Hb.
    apply (phase4_ns_no_overlap_in (p4_params o) g3' g4 l i j a b N3' P4 NW SOK Hl Hij Ha Hb).
  - intros n Hn. apply (phase4_ns_nonneg (p4_params o) g3' g4 n N3' P4 NW Hn).
Qed.

(* [NSPositioner.W3_no_overlap'] for [layout_component_n] *)
Theorem Wn3_no_overlap' : forall bk o g g' x,
  component_input g -> options_ok' o -> sizes_nonneg g -> spacing_nonneg o ->
  layout_component_n bk o g = Ok (g', x) -> W3_statement o g'.
Proof.
  intros bk o g g' x CI [O4 O5] SZ SP H.
  destruct O4 as [O4|O4].
  - apply (Wn3_no_overlap bk o g g' x CI); [constructor; assumption|exact SZ|exact SP|exact H].
  - destruct (pipeline_backbone_Fn bk o g g' x CI O5 H) as (g0 & del & g1 & g2 & g3 & k & g3' & g4 & gm & routes & g5 & BB).
    eapply W3_of_backbone_ns; eassumption.
Qed.
Print Assumptions Wn3_no_overlap'.

(* two nodes of one band, in list order, keep NodeSpacing between them (read off W3) *)
Corollary Gn5_no_overlap_in_band' : forall bk o g g' x,
  component_input g -> options_ok' o -> sizes_nonneg g -> spacing_nonneg o ->
  layout_component_n bk o g = Ok (g', x) ->
  forall kk i j a b, i < j -> nth_error (l_nodes (glayer g' kk)) i = Some a -> nth_error (l_nodes (glayer g' kk)) j = Some b ->
    (nX g' a + nW g' a + o_node_spacing o <= nX g' b)%Q.
Proof.
  intros bk o g g' x CI OK SZ SP H. destruct (Wn3_no_overlap' bk o g g' x CI OK SZ SP H) as (_ & _ & _ & S & _). exact S.
Qed.

(* ====================================================================================================== *)
(** * 2. The whole Layout: the components are placed apart                                                  *)
(* ====================================================================================================== *)
Section W4bn.
  Variable A : Type.
  Variable eqA : A -> A -> bool.
  Hypothesis OK : forall x y, eqA x y = true <-> x = y.
  Variables (bk : Z) (o : options) (fixed : option (Q * Q)) (sizes : option (list (A * (Q * Q)))) (es : list (list A)).
  Variables (ids : list A) (ns : list onode) (oes : list oedge) (xs : list Z).
  Hypothesis OO : options_ok' o.
  Hypothesis LAY : layout_n A eqA bk o fixed sizes es = Ok (ids, (ns, oes, xs)).
  Hypothesis SP : spacing_nonneg o.
  Hypothesis SZ : sizes_cfg_nonneg A eqA fixed sizes ids.

  (* every laid-out component is fit for the side-by-side placement, and is the output graph of its input *)
  Lemma layout_component_n_ok' : forall g, populate A eqA es = Ok (ids, g) ->
    forall c c' x, In c (components (apply_sizes A eqA fixed sizes ids g)) -> layout_component_n bk o c = Ok (c', x) ->
      Shift.comp_ok c' /\ E1_statement c c'.
  Proof.
    intros g POP c c' x Hc LC.
    split; [|apply (layout_components_n_E1 A eqA OK bk o fixed sizes es ids (oo_p5' _ OO) g POP c c' x Hc LC)].
    destruct (front_components A eqA OK es ids g fixed sizes POP c Hc) as (FC & NA & _).
    destruct (front_g1 A eqA OK es ids g fixed sizes POP) as (C1 & _ & N1 & _ & _ & _ & SZ1).
    destruct (Nat.le_gt_cases 2 (length (g_N c))) as [TWO|ONE].
    - assert (SN : sizes_nonneg c).
      { intros n Hn. destruct (components_partition _ C1) as (_ & P2 & _). cbv zeta in P2.
        rewrite (P2 c Hc) in Hn. apply filter_In in Hn. destruct Hn as [Hn _]. rewrite N1 in Hn.
        apply ListLemmas.in_iota in Hn.
        destruct (nth_error ids n) as [y|] eqn:Ey; [|apply nth_error_None in Ey; lia].
        pose proof (SZ1 n y Ey) as E. unfold gnode. rewrite NA. fold (gnode (apply_sizes A eqA fixed sizes ids g) n).
        destruct (SZ y (nth_error_In _ _ Ey)) as [W H]. rewrite <- E in W, H. exact (conj W H). }
      apply (Wn3_no_overlap' bk o c c' x); [|exact OO|exact SN|exact SP|exact LC].
      apply (frontend_component_input A eqA OK es ids g fixed sizes POP c Hc TWO).
    - assert (L1 : length (g_N c) = 1).
      { pose proof (fc_nonempty _ FC). destruct (g_N c) as [|n [|m t]]; cbn in *; [congruence|reflexivity|lia]. }
      rewrite (layout_component_n_single bk o c L1) in LC.
      apply (single_comp_ok o c c' x FC L1 LC).
  Qed.

  Theorem W4b_layout_n_separated' : o_virtual o = false ->
    (forall a, In a ns -> (0 <= on_x a)%Q) /\
    forall g, populate A eqA es = Ok (ids, g) ->
      let cs := components (apply_sizes A eqA fixed sizes ids g) in
      (forall a, In a ns -> exists i, i < length cs /\ In (on_id a) (g_N (nth i cs graph0))) /\
      (forall i j a b, i < j -> j < length cs -> In a ns -> In b ns ->
         In (on_id a) (g_N (nth i cs graph0)) -> In (on_id b) (g_N (nth j cs graph0)) ->
         (on_x a + on_w a + o_node_spacing o <= on_x b)%Q).
  Proof.
    intros OV. destruct (layout_n_inv A eqA bk o fixed sizes es ids ns oes xs LAY) as (g & POP & _ & LC).
    destruct (NoopComponents.layout_components_n_collect_all bk o _ 0%Q ns oes xs LC) as (gs & F2 & CA).
    set (cs := components (apply_sizes A eqA fixed sizes ids g)) in *.
    pose proof (Forall2_length' _ _ _ _ _ F2) as LEN.
    assert (NTH : forall k, k < length cs -> In (nth k cs graph0) cs /\
              exists x, layout_component_n bk o (nth k cs graph0) = Ok (nth k gs graph0, x)).
    { intros k Hk. split; [apply nth_In, Hk|]. apply (Forall2_nth_rel _ _ _ cs gs k graph0 graph0 F2 Hk). }
    assert (COK : forall g', In g' gs -> Shift.comp_ok g').
    { intros g' Hg'. destruct (In_nth _ _ graph0 Hg') as (k & Hk & <-). rewrite <- LEN in Hk.
      destruct (NTH k Hk) as (Hc & x & LCk). apply (layout_component_n_ok' g POP _ _ x Hc LCk). }
    destruct (@Shift.collect_all_separated o gs ns oes CA (proj1 SP) COK) as (ENS & SEP & XNN).
    split; [exact XNN|].
    intros g_ POP_. assert (g_ = g) by congruence. subst g_. cbv zeta. fold cs.
    assert (FROM : forall a, In a ns -> exists k, k < length cs /\ In a (comp_nodes o gs 0 k) /\
              In (on_id a) (g_N (nth k cs graph0))).
    { intros a Ha. rewrite ENS in Ha. apply Shift.in_concat_map_seq in Ha. destruct Ha as (k & Hk & Ha).
      rewrite <- LEN in Hk. exists k. split; [exact Hk|]. split; [exact Ha|].
      destruct (NTH k Hk) as (Hc & x & LCk). destruct (layout_component_n_ok' g POP _ _ x Hc LCk) as (_ & E1).
      destruct E1 as (_ & _ & _ & (vs & EN & VS) & _).
      unfold comp_nodes in Ha. rewrite OV in Ha. apply CollectProofs.collect_nodes_In in Ha.
      destruct Ha as (n & Hn & Kp & ->). cbn [CollectProofs.onode_of on_id].
      rewrite EN in Hn. apply in_app_or in Hn. destruct Hn as [Hn|Hn]; [exact Hn|].
      destruct (VS n Hn) as [_ V]. unfold CollectProofs.keep_node in Kp. rewrite V in Kp. discriminate. }
    destruct (front_g1 A eqA OK es ids g fixed sizes POP) as (C1 & _ & N1 & _).
    destruct (components_partition _ C1) as (_ & _ & _ & _ & _ & P6 & _). cbv zeta in P6. fold cs in P6.
    assert (ND : NoDup (flat_map g_N cs)).
    { rewrite flat_map_concat_map. eapply Permutation_NoDup; [apply Permutation_sym, P6|]. apply (c_nodupN _ C1). }
    assert (UNIQ : forall n i k, i < length cs -> k < length cs ->
              In n (g_N (nth i cs graph0)) -> In n (g_N (nth k cs graph0)) -> i = k).
    { intros n i k Hi Hk Ni Nk. destruct (Nat.eq_dec i k) as [E|NE]; [exact E|exfalso].
      apply (flat_map_disjoint _ _ g_N cs i k (nth i cs graph0) (nth k cs graph0) n ND); auto;
        apply nth_error_nth'; assumption. }
    split.
    - intros a Ha. destruct (FROM a Ha) as (k & Hk & _ & Hn). exists k. split; assumption.
    - intros i j a b Hij Hj Ha Hb Ia Ib.
      destruct (FROM a Ha) as (ka & Hka & Ca & Na). destruct (FROM b Hb) as (kb & Hkb & Cb & Nb).
      assert (ka = i) by (apply (UNIQ (on_id a)); try assumption; lia). subst ka.
      assert (kb = j) by (apply (UNIQ (on_id b)); assumption). subst kb.
      apply (SEP i j a b); [rewrite <- LEN; lia|exact Ca|exact Cb].
  Qed.
End W4bn.
Print Assumptions W4b_layout_n_separated'.

(* ---------- MAIN 2: the statement of NSPWhole.G8_layout_separated' / C04_layout_components_apart' for [layout_n] ---------- *)
Theorem layout_n_components_apart : forall (A : Type) (eqA : A -> A -> bool), (forall x y, eqA x y = true <-> x = y) ->
  forall bk o fixed sizes es ids ns oes xs, options_ok' o ->
  layout_n A eqA bk o fixed sizes es = Ok (ids, (ns, oes, xs)) ->
  spacing_nonneg o -> sizes_cfg_nonneg A eqA fixed sizes ids -> o_virtual o = false ->
  (forall a, In a ns -> (0 <= on_x a)%Q) /\
  (forall g, populate A eqA es = Ok (ids, g) ->
     let cs := components (apply_sizes A eqA fixed sizes ids g) in
     (forall a, In a ns -> exists i, (i < length cs)%nat /\ In (on_id a) (g_N (nth i cs Shift.graph0))) /\
     (forall i j a b, (i < j)%nat -> (j < length cs)%nat -> In a ns -> In b ns ->
        In (on_id a) (g_N (nth i cs Shift.graph0)) -> In (on_id b) (g_N (nth j cs Shift.graph0)) ->
        (on_x a + on_w a + o_node_spacing o <= on_x b)%Q)).
Proof.
  intros A eqA OK bk o fixed sizes es ids ns oes xs OO LAY SP SZ OV.
  exact (W4b_layout_n_separated' A eqA OK bk o fixed sizes es ids ns oes xs OO LAY SP SZ OV).
Qed.
Print Assumptions layout_n_components_apart.

(* ====================================================================================================== *)
(** * 3. Examples                                                                                          *)
(* ====================================================================================================== *)
(* (a) one component (a root above K(3,3), one long edge, one self loop: WholeCrossings.wc_g), NetworkSimplex positioner
   after the no-op ordering *)
Definition wc_out_n4 : graph := Eval vm_compute in
  match layout_component_n (-1) wc_o4 wc_g with Ok (g, _) => g | Err _ => empty_graph end.

Example wc_layout_n4 : layout_component_n (-1) wc_o4 wc_g = Ok (wc_out_n4, None).
Proof. vm_compute. reflexivity. Qed.

Example wc_Wn3_ns : W3_statement wc_o4 wc_out_n4.
Proof.
  apply (Wn3_no_overlap' (-1) wc_o4 wc_g wc_out_n4 None wc_input wc_options_ok4 wc_sizes wc_spacing4 wc_layout_n4).
Qed.

(* the x coordinates of the bands of that drawing increase along the bands (band 1 has four nodes) *)
Example wc_out_n4_bands :
  map (fun l => map (fun n => Qred (nX wc_out_n4 n)) (l_nodes l)) (g_L wc_out_n4) = [[30]; [0; 15; 30; 45]; [0; 15; 30]]%Q.
Proof. vm_compute. reflexivity. Qed.

(* (b) the whole Layout of WholeLayout.v (three components: a diamond with a LONG EDGE and a self loop, a single node
   with a self loop and its own size, an antiparallel pair), no-op ordering, NetworkSimplex positioner *)
Definition wl_result_n4 := Eval vm_compute in
  match layout_n nat Nat.eqb (-1) wc_o4 (Some (10, 6)%Q) wl_sizes wl_edges with
  | Ok (_, r) => r
  | Err _ => ([], [], [])
  end.
Definition wl_ns_n4 : list onode := fst (fst wl_result_n4).
Definition wl_oes_n4 : list oedge := snd (fst wl_result_n4).
Definition wl_xs_n4 : list Z := snd wl_result_n4.

Example wl_layout_n4 :
  layout_n nat Nat.eqb (-1) wc_o4 (Some (10, 6)%Q) wl_sizes wl_edges = Ok (wl_ids, (wl_ns_n4, wl_oes_n4, wl_xs_n4)).
Proof. vm_compute. reflexivity. Qed.

Example wl_eval_n4 :
  map on_id wl_ns_n4 = [0; 1; 2; 3; 4; 5; 6] /\
  map (fun a => (Qred (on_x a), Qred (on_y a), Qred (on_w a))) wl_ns_n4 =
    [(25, 0, 10); (0, 13, 10); (15, 13, 10); (25, 26, 10); (40, 0, 8); (53, 0, 10); (53, 13, 10)]%Q /\
  map (fun e => (oe_from e, oe_to e, oe_ahs e)) wl_oes_n4 =
    [(0, 1, false); (0, 2, false); (1, 3, false); (2, 3, false); (0, 3, false); (3, 3, false); (4, 4, false);
     (5, 6, false); (6, 5, true)] /\
  wl_xs_n4 = [].
Proof. vm_compute. repeat split; reflexivity. Qed.

(* all the hypotheses of [layout_n_components_apart] hold on this instance ... *)
Example wl_apart_hyps :
  options_ok' wc_o4 /\ spacing_nonneg wc_o4 /\ sizes_cfg_nonneg nat Nat.eqb (Some (10, 6)%Q) wl_sizes wl_ids /\
  o_virtual wc_o4 = false /\
  exists g, populate nat Nat.eqb wl_edges = Ok (wl_ids, g) /\
            length (components (apply_sizes nat Nat.eqb (Some (10, 6)%Q) wl_sizes wl_ids g)) = 3.
Proof.
  split; [exact wc_options_ok4|]. split; [exact wc_spacing4|]. split; [exact wl_sizes_nonneg|]. split; [reflexivity|].
  vm_compute. eexists. split; reflexivity.
Qed.

(* ... and the theorem instantiated: x >= 0, and the nodes of component 0 (the diamond, nodes 0..3) are NodeSpacing to the
   left of the nodes of component 2 (the antiparallel pair, nodes 5, 6) *)
Example wl_apart_by_theorem :
  (forall a, In a wl_ns_n4 -> (0 <= on_x a)%Q) /\
  (forall a b, In a wl_ns_n4 -> In b wl_ns_n4 -> In (on_id a) [0; 1; 2; 3] -> In (on_id b) [5; 6] ->
     (on_x a + on_w a + 5 <= on_x b)%Q).
Proof.
  destruct (layout_n_components_apart nat Nat.eqb Nat.eqb_eq (-1) wc_o4 (Some (10, 6)%Q) wl_sizes wl_edges wl_ids
              wl_ns_n4 wl_oes_n4 wl_xs_n4 wc_options_ok4 wl_layout_n4 wc_spacing4 wl_sizes_nonneg eq_refl) as [X SEP].
  split; [exact X|].
  intros a b Ha Hb Ia Ib.
  assert (EP : exists g, populate nat Nat.eqb wl_edges = Ok (wl_ids, g)) by (vm_compute; eexists; reflexivity).
  destruct EP as [g POP].
  destruct (SEP g POP) as [_ S]. cbv zeta in S.
  assert (C0 : g_N (nth 0 (components (apply_sizes nat Nat.eqb (Some (10, 6)%Q) wl_sizes wl_ids g)) graph0) = [0; 1; 2; 3]).
  { vm_compute in POP. injection POP as <-. vm_compute. reflexivity. }
  assert (C2 : g_N (nth 2 (components (apply_sizes nat Nat.eqb (Some (10, 6)%Q) wl_sizes wl_ids g)) graph0) = [5; 6]).
  { vm_compute in POP. injection POP as <-. vm_compute. reflexivity. }
  assert (LEN : length (components (apply_sizes nat Nat.eqb (Some (10, 6)%Q) wl_sizes wl_ids g)) = 3).
  { vm_compute in POP. injection POP as <-. vm_compute. reflexivity. }
  apply (S 0 2 a b); [lia|rewrite LEN; lia|exact Ha|exact Hb|rewrite C0; exact Ia|rewrite C2; exact Ib].
Qed.
Print Assumptions wl_apart_by_theorem.
