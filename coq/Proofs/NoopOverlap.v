(* NoopOverlap.v — W3 for the pipeline with the no-op ordering: the node rectangles of one laid-out component (helper nodes
   included) do not overlap, for the positioners VAlign / PackRight / SinkColoring ([options_ok o]), non-negative widths of
   the input nodes and non-negative spacings. The statement is [WholeOverlap.W3_statement]; the proof is the one of
   WholeOverlap.v replayed for [NoopPipeline.backbone_n] (for these positioners [phase4x bk] is [phase4]).
   As for [layout_component_x], there is no such statement for Brandes-Koepf (BKPipeline2.bx_not_W3). *)
From Autog Require Import Base Graph Populate Phase1 Phase2 Phase3 Phase4 Phase5 Layout Wmedian Pipeline BK PipelineBK PipelineNoop.
From Autog.Proofs Require Import ListLemmas Consistent SelfLoopProofs.
From Autog.Proofs Require CBBase CBGreedy CBGreedyRanks CBDepthFirst CBHasCycles CycleBreaking LongestPath
                          OptNormalize OptVbalance OptPipeline CollectProofs.
From Autog.Proofs Require CrossCountProofs WmedianProofs TreeProofs.
From Autog.Proofs Require Import Positioners Routes BreakMerge SinkColoringProofs Shift E2EBridge E2EBackbone E2EOutput E2EFrontend.
From Autog.Proofs Require Import NSBridge WholeBridge WholeCrossings WholeOverlap.
From Autog.Proofs Require Import BKPipeline NoopPipeline NoopPipeline2.
From Coq Require Import Permutation Lia Lqa.
Local Open Scope nat_scope.

(* ====================================================================================================== *)
(** * 1. More facts about the backbone (WholeCrossings.v, Section BackboneX, replayed)                     *)
(* ====================================================================================================== *)
Section BackboneN.
  Variables (bk : Z) (o : options) (g g' : graph) (x : option Z) (g0 : graph) (del : list nat) (g1 g2 g3 : graph) (k : nat)
            (g3' : graph) (g4 gm : graph) (routes : list (nat * list nat)) (g5 : graph).
  Hypothesis CI : component_input g.
  Hypothesis BB : backbone_n bk o g g' x g0 del g1 g2 g3 k g3' g4 gm routes g5.

  Let S01 := nb_s01 _ _ _ _ _ _ _ _ _ _ _ _ _ _ _ _ BB.
  Let S23 := nb_s23 _ _ _ _ _ _ _ _ _ _ _ _ _ _ _ _ BB.
  Let S45 := nb_s45 _ _ _ _ _ _ _ _ _ _ _ _ _ _ _ _ BB.
  Let PP := s2_post _ _ _ _ S23.

  Lemma nbx_adjinv : adjinv (length (g_na g2)) (length (g_ea g2)) g3.
  Proof. apply (stage23_adjinv g1 g2 g3 k); [apply (s1_c _ _ _ _ S01)|exact S23|apply (nb_e3 _ _ _ _ _ _ _ _ _ _ _ _ _ _ _ _ BB)]. Qed.

  Lemma nbx_N3' : Nat.eqb (length (g_N g3')) 1 = false.
  Proof.
    apply Nat.eqb_neq. rewrite (E2EBridge.oc_N _ _ (s4_oc _ _ _ _ _ _ _ _ _ S45)), (s3_N _ _ _ _ S23), app_length.
    pose proof (s2_two _ _ _ _ S23). lia.
  Qed.

  Lemma nbx_wf3' : layers_wf g3'.
  Proof.
    destruct (order_contract_facts g3 g3' (s4_oc _ _ _ _ _ _ _ _ _ S45)) as (_ & OWF & _). apply OWF, (s3_wf _ _ _ _ S23).
  Qed.

  Lemma nbx_lh3' : forall kk, (0 <= l_h (glayer g3' kk))%Q.
  Proof.
    intros kk. destruct (order_contract_facts g3 g3' (s4_oc _ _ _ _ _ _ _ _ _ S45)) as (_ & _ & _ & _ & _ & OLH).
    rewrite OLH, (s3_lh _ _ _ _ S23). destruct (p2_wh _ _ PP kk) as [_ ->]. apply Qle_refl.
  Qed.

  (* phase 4 between the ordered graph and its output: any positioner *)
  Lemma nbx_phase4 :
    g_ea g4 = g_ea g3' /\ g_N g4 = g_N g3' /\ g_E g4 = g_E g3' /\ length (g_na g4) = length (g_na g3') /\
    (forall n, set_x 0 (set_y 0 (gnode g4 n)) = set_x 0 (set_y 0 (gnode g3' n))) /\
    (forall kk, l_nodes (glayer g4 kk) = l_nodes (glayer g3' kk)) /\
    length (g_L g4) = length (g_L g3').
  Proof.
    destruct (phase4x_facts bk (o_p4 o) (p4_params o) g3' g4 nbx_N3' (nb_e4 _ _ _ _ _ _ _ _ _ _ _ _ _ _ _ _ BB) nbx_wf3' nbx_lh3')
      as (F1 & F2 & F3 & F4 & F5 & F6 & F7 & _).
    repeat (split; [assumption|]). exact F7.
  Qed.

  Lemma nbx_out_L : g_L g' = g_L g4.
  Proof. apply (nout_frame _ _ _ _ _ _ _ _ _ _ _ _ _ _ _ _ CI BB). Qed.
End BackboneN.

(* ====================================================================================================== *)
(** * 2. Through the backbone (WholeOverlap.v, Section Overlap, replayed)                                  *)
(* ====================================================================================================== *)
Section OverlapN.
  Variables (bk : Z) (o : options) (g g' : graph) (x : option Z) (g0 : graph) (del : list nat) (g1 g2 g3 : graph) (k : nat)
            (g3' : graph) (g4 gm : graph) (routes : list (nat * list nat)) (g5 : graph).
  Hypothesis CI : component_input g.
  Hypothesis OK : options_ok o.
  Hypothesis BB : backbone_n bk o g g' x g0 del g1 g2 g3 k g3' g4 gm routes g5.
  Hypothesis SZ : sizes_nonneg g.
  Hypothesis SP : spacing_nonneg o.

  Let S01 := nb_s01 _ _ _ _ _ _ _ _ _ _ _ _ _ _ _ _ BB.
  Let S23 := nb_s23 _ _ _ _ _ _ _ _ _ _ _ _ _ _ _ _ BB.
  Let S45 := nb_s45 _ _ _ _ _ _ _ _ _ _ _ _ _ _ _ _ BB.
  Let PP := s2_post _ _ _ _ S23.

  (* for VAlign / PackRight / SinkColoring, [phase4x bk] is [phase4] *)
  Lemma ov_e4 : phase4 (o_p4 o) (p4_params o) g3' = Ok g4.
  Proof.
    rewrite <- (phase4x_eq bk); [apply (nb_e4 _ _ _ _ _ _ _ _ _ _ _ _ _ _ _ _ BB)|].
    destruct (oo_p4 _ OK) as [E|[E|E]]; rewrite E; discriminate.
  Qed.

  (* sizes of the nodes the positioner sees *)
  Lemma ov_sizes3 : forall n, In n (g_N g3) -> (0 <= n_w (gnode g3 n))%Q /\ (0 <= n_h (gnode g3 n))%Q.
  Proof.
    intros n Hn. pose proof (nbx_adjinv _ _ _ _ _ _ _ _ _ _ _ _ _ _ _ _ BB) as I.
    destruct (nsum_lengths _ _ _ _ _ _ _ _ _ _ _ _ _ _ _ _ BB) as (NA2 & _ & _ & _ & N2 & _).
    pose proof (ai_N _ _ _ I n Hn) as Hlt.
    rewrite (s3_N _ _ _ _ S23) in Hn. apply in_app_or in Hn. destruct Hn as [Hn|Hn].
    - rewrite N2 in Hn. pose proof (c_N_lt _ (ci_cons _ CI) n Hn) as L.
      destruct (nsum_node_old _ _ _ _ _ _ _ _ _ _ _ _ _ _ _ _ CI BB n L) as (_ & _ & -> & ->). apply SZ, Hn.
    - apply BreakMerge.in_iota in Hn. destruct (ai_newN _ _ _ I n (proj1 Hn) Hlt) as [-> ->]. split; apply Qle_refl.
  Qed.

  Lemma ov_sizes3' : forall n, in_layers g3' n -> (0 <= nW g3' n)%Q /\ (0 <= nH g3' n)%Q.
  Proof.
    intros n Hn. pose proof (s4_oc _ _ _ _ _ _ _ _ _ S45) as OC.
    destruct (order_contract_facts g3 g3' OC) as (_ & _ & _ & OIN & _).
    apply OIN in Hn. unfold in_layers in Hn. apply in_flat_map in Hn. destruct Hn as (l & Hl & Hn).
    destruct (In_nth _ _ layer0 Hl) as (j & Hj & <-).
    pose proof (s3_inl _ _ _ _ S23 j n Hn) as HnN.
    unfold nW, nH. destruct (E2EBridge.set_pos_fields _ _ (E2EBridge.oc_nodes _ _ OC n)) as (_ & _ & _ & _ & _ & _ & -> & ->).
    apply ov_sizes3, HnN.
  Qed.

  Lemma ov_sizes_ok : sizes_ok (o_node_spacing o) g3'.
  Proof. split; [apply SP|]. intros n Hn. apply ov_sizes3', Hn. Qed.

  (* x, w in the final graph are those of the phase-4 output *)
  Lemma ov_geom_out : forall n, nX g' n = nX g4 n /\ nY g' n = nY g4 n /\ nW g' n = nW g4 n /\ nH g' n = nH g4 n.
  Proof.
    intros n. destruct (nsum_node4 _ _ _ _ _ _ _ _ _ _ _ _ _ _ _ _ CI BB n) as (_ & _ & A & B & C & D).
    unfold nX, nY, nW, nH. auto.
  Qed.

  Lemma ov_w4 : forall n, nW g4 n = nW g3' n /\ nH g4 n = nH g3' n.
  Proof.
    intros n. destruct (nbx_phase4 _ _ _ _ _ _ _ _ _ _ _ _ _ _ _ _ BB) as (_ & _ & _ & _ & F5 & _).
    unfold nW, nH. destruct (set_xy_fields _ _ (F5 n)) as (_ & _ & _ & _ & _ & -> & ->). split; reflexivity.
  Qed.

  (* the positioner, inside one layer of the ordered graph *)
  Lemma ov_positioner : forall l i j a b, In l (g_L g3') -> i < j ->
    nth_error (l_nodes l) i = Some a -> nth_error (l_nodes l) j = Some b ->
    (nX g4 a + nW g3' a + o_node_spacing o <= nX g4 b)%Q.
  Proof.
    intros l i j a b Hl Hij Ha Hb.
    pose proof (nbx_N3' _ _ _ _ _ _ _ _ _ _ _ _ _ _ _ _ BB) as N3'.
    pose proof (nbx_wf3' _ _ _ _ _ _ _ _ _ _ _ _ _ _ _ _ BB) as WF.
    pose proof ov_e4 as P4. pose proof ov_sizes_ok as SOK.
    destruct (oo_p4 _ OK) as [E|[E|E]]; rewrite E in P4.
    - rewrite phase4_valign in P4 by exact N3'. injection P4 as E4. rewrite <- E4, !assign_y_nX.
      apply (valign_no_overlap_in_layer_gen (o_node_spacing o) g3' l i j a b WF SOK Hl Hij Ha Hb).
    - rewrite phase4_packright in P4 by exact N3'. injection P4 as E4. rewrite <- E4, !assign_y_nX.
      apply (packright_no_overlap_in_layer_gen (o_node_spacing o) g3' l i j a b WF SOK Hl Hij Ha Hb).
    - apply (phase4_sink_coloring_no_overlap (p4_params o) g3' g4 l i j a b N3' P4 WF SOK Hl Hij Ha Hb).
  Qed.

  Lemma ov_x_nonneg : forall n, in_layers g3' n -> (0 <= nX g4 n)%Q.
  Proof.
    intros n Hn.
    pose proof (nbx_N3' _ _ _ _ _ _ _ _ _ _ _ _ _ _ _ _ BB) as N3'.
    pose proof (nbx_wf3' _ _ _ _ _ _ _ _ _ _ _ _ _ _ _ _ BB) as WF.
    pose proof ov_e4 as P4. pose proof ov_sizes_ok as SOK.
    destruct (oo_p4 _ OK) as [E|[E|E]]; rewrite E in P4.
    - rewrite phase4_valign in P4 by exact N3'. injection P4 as E4. rewrite <- E4, assign_y_nX.
      apply (valign_nonneg_gen (o_node_spacing o) g3' n WF SOK Hn).
    - rewrite phase4_packright in P4 by exact N3'. injection P4 as E4. rewrite <- E4, assign_y_nX.
      apply (packright_nonneg_gen (o_node_spacing o) g3' n WF SOK Hn).
    - destruct (phase4_is_assign_y SinkColoring (p4_params o) g3' g4 N3' P4) as (gp & E4 & SC). rewrite E4, assign_y_nX.
      apply (sink_coloring_nonneg_gen (o_node_spacing o) g3' gp n SC WF (proj1 SP) Hn).
  Qed.

  Lemma W3_of_backbone : W3_statement o g'.
  Proof.
    destruct (nE2_of_backbone _ _ _ _ _ _ _ _ _ _ _ _ _ _ _ _ CI BB) as (WF' & PL' & BD & _).
    destruct (nbx_phase4 _ _ _ _ _ _ _ _ _ _ _ _ _ _ _ _ BB) as (F1 & F2 & F3 & F4 & F5 & F6 & F7).
    pose proof (nbx_out_L _ _ _ _ _ _ _ _ _ _ _ _ _ _ _ _ CI BB) as OL.
    assert (LN : forall kk, l_nodes (glayer g' kk) = l_nodes (glayer g3' kk)).
    { intros kk. unfold glayer at 1. rewrite OL. apply F6. }
    assert (LEN : length (g_L g') = length (g_L g3')) by (rewrite OL; exact F7).
    assert (LH0 : forall j, (0 <= l_h (nth j (g_L g') layer0))%Q).
    { intros j. rewrite OL. apply (s4_lh0 _ _ _ _ _ _ _ _ _ S45 j). }
    assert (INL3 : forall kk n, In n (l_nodes (glayer g' kk)) -> in_layers g3' n).
    { intros kk n Hn. rewrite LN in Hn. unfold in_layers. apply in_flat_map. exists (glayer g3' kk). split; [|exact Hn].
      destruct (Nat.lt_ge_cases kk (length (g_L g3'))) as [L|L]; [apply nth_In, L|].
      unfold glayer in Hn. rewrite nth_overflow in Hn; [destruct Hn|exact L]. }
    assert (NOV : Shift.no_overlap (o_node_spacing o) g').
    { intros l i j a b Hl Hij Ha Hb. destruct (In_nth _ _ layer0 Hl) as (kk & Hkk & <-). fold (glayer g' kk) in *.
      rewrite LN in Ha, Hb.
      destruct (ov_geom_out a) as (-> & _ & -> & _). destruct (ov_geom_out b) as (-> & _).
      destruct (ov_w4 a) as [-> _].
      apply (ov_positioner (glayer g3' kk) i j a b); try assumption. apply nth_In. rewrite <- LEN. exact Hkk. }
    assert (NOVk : forall kk i j a b, i < j ->
              nth_error (l_nodes (glayer g' kk)) i = Some a -> nth_error (l_nodes (glayer g' kk)) j = Some b ->
              (nX g' a + nW g' a + o_node_spacing o <= nX g' b)%Q).
    { intros kk i j a b Hij Ha Hb. destruct (Nat.lt_ge_cases kk (length (g_L g'))) as [L|L].
      - apply (NOV (glayer g' kk) i j a b); try assumption. apply nth_In, L.
      - unfold glayer in Ha. rewrite nth_overflow in Ha by exact L. destruct i; discriminate. }
    assert (VERT : forall kk kk' a b, kk < kk' -> In a (l_nodes (glayer g' kk)) -> In b (l_nodes (glayer g' kk')) ->
              (nY g' a + nH g' a + o_layer_spacing o <= nY g' b)%Q).
    { intros kk kk' a b Hk Ha Hb. destruct (BD kk a Ha) as (_ & _ & -> & HH). destruct (BD kk' b Hb) as (_ & _ & -> & _).
      pose proof (ysum_mono (o_layer_spacing o) (g_L g') (S kk) kk' (proj2 SP) LH0 Hk) as M.
      rewrite ysum_S in M. fold (glayer g' kk) in M. lra. }
    assert (NODE : forall n, In n (g_N g') ->
              In n (l_nodes (glayer g' (band g' n))) /\ (0 <= nX g' n)%Q /\ (0 <= nY g' n)%Q /\ (0 <= nW g' n)%Q /\ (0 <= nH g' n)%Q).
    { intros n Hn. destruct (PL' n Hn) as [_ P1]. fold (band g' n) in P1. split; [exact P1|].
      pose proof (INL3 _ _ P1) as IL.
      destruct (ov_geom_out n) as (-> & _ & -> & ->). destruct (ov_w4 n) as [-> ->].
      split; [apply ov_x_nonneg, IL|]. split; [|apply ov_sizes3', IL].
      destruct (BD _ n P1) as (_ & _ & -> & _). apply ysum_nonneg; [apply SP|exact LH0]. }
    split; [exact NODE|]. split; [intros kk n Hn; destruct (BD kk n Hn) as (A & B & _); split; assumption|].
    split; [exact NOV|]. split; [exact NOVk|]. split; [exact VERT|]. split.
    - intros a b Ha Hb Hab.
      destruct (NODE a Ha) as (Pa & _). destruct (NODE b Hb) as (Pb & _).
      destruct (Nat.lt_total (band g' a) (band g' b)) as [L|[E|L]].
      + right. right. left. split; [exact L|]. apply (VERT _ _ a b L Pa Pb).
      + rewrite <- E in Pb.
        destruct (In_nth_error _ _ Pa) as (i & Hi). destruct (In_nth_error _ _ Pb) as (j & Hj).
        destruct (Nat.lt_total i j) as [Lij|[Eij|Lij]].
        * left. split; [exact E|]. apply (NOVk _ i j a b Lij Hi Hj).
        * exfalso. subst j. congruence.
        * right. left. split; [symmetry; exact E|]. apply (NOVk _ j i b a Lij Hj Hi).
      + right. right. right. split; [exact L|]. apply (VERT _ _ b a L Pb Pa).
    - constructor.
      + intros n Hn. unfold in_layers in Hn. apply in_flat_map in Hn. destruct Hn as (l & Hl & Hn).
        destruct (In_nth _ _ layer0 Hl) as (kk & Hkk & <-). fold (glayer g' kk) in Hn.
        destruct (BD kk n Hn) as (HnN & _). apply (NODE n HnN).
      + apply (Shift.last_is_rightmost (s := o_node_spacing o)); [apply SP| |exact NOV].
        intros n Hn. unfold in_layers in Hn. apply in_flat_map in Hn. destruct Hn as (l & Hl & Hn).
        destruct (In_nth _ _ layer0 Hl) as (kk & Hkk & <-). fold (glayer g' kk) in Hn.
        destruct (BD kk n Hn) as (HnN & _). apply (NODE n HnN).
      + intros n Hn. destruct (NODE n Hn) as (P1 & _). unfold in_layers. apply in_flat_map.
        exists (glayer g' (band g' n)). split; [|exact P1].
        destruct (Nat.lt_ge_cases (band g' n) (length (g_L g'))) as [L|L]; [apply nth_In, L|].
        unfold glayer in P1. rewrite nth_overflow in P1; [destruct P1|exact L].
  Qed.
End OverlapN.

Theorem Wn3_no_overlap : forall bk o g g' x,
  component_input g -> options_ok o -> sizes_nonneg g -> spacing_nonneg o ->
  layout_component_n bk o g = Ok (g', x) -> W3_statement o g'.
Proof.
  intros bk o g g' x CI OK SZ SP H.
  destruct (pipeline_backbone_Fn bk o g g' x CI (oo_p5 _ OK) H) as (g0 & del & g1 & g2 & g3 & k & g3' & g4 & gm & routes & g5 & BB).
  eapply W3_of_backbone; eassumption.
Qed.
Print Assumptions Wn3_no_overlap.

(* two nodes of one band, in list order, keep NodeSpacing between them (read off W3) *)
Corollary Gn5_no_overlap_in_band : forall bk o g g' x,
  component_input g -> options_ok o -> sizes_nonneg g -> spacing_nonneg o ->
  layout_component_n bk o g = Ok (g', x) ->
  forall kk i j a b, i < j -> nth_error (l_nodes (glayer g' kk)) i = Some a -> nth_error (l_nodes (glayer g' kk)) j = Some b ->
    (nX g' a + nW g' a + o_node_spacing o <= nX g' b)%Q.
Proof.
  intros bk o g g' x CI OK SZ SP H. destruct (Wn3_no_overlap bk o g g' x CI OK SZ SP H) as (_ & _ & _ & S & _). exact S.
Qed.

(* the rectangles [x, x+w] x [y, y+h] of two distinct nodes are disjoint: read off W3 *)
Corollary Wn3_rectangles_disjoint : forall bk o g g' x,
  component_input g -> options_ok o -> sizes_nonneg g -> spacing_nonneg o ->
  layout_component_n bk o g = Ok (g', x) ->
  forall a b, In a (g_N g') -> In b (g_N g') -> a <> b ->
    (nX g' a + nW g' a <= nX g' b)%Q \/ (nX g' b + nW g' b <= nX g' a)%Q \/
    (nY g' a + nH g' a <= nY g' b)%Q \/ (nY g' b + nH g' b <= nY g' a)%Q.
Proof.
  intros bk o g g' x CI OK SZ SP H a b Ha Hb Hab.
  destruct (Wn3_no_overlap bk o g g' x CI OK SZ SP H) as (_ & _ & _ & _ & _ & D & _).
  destruct SP as [S1 S2].
  destruct (D a b Ha Hb Hab) as [[_ L]|[[_ L]|[[_ L]|[_ L]]]]; [left|right; left|right; right; left|right; right; right]; lra.
Qed.
Print Assumptions Wn3_rectangles_disjoint.

(* ====================================================================================================== *)
(** * 3. Example                                                                                           *)
(* ====================================================================================================== *)
Definition wc_out_n : graph := Eval vm_compute in
  match layout_component_n (-1) wc_o wc_g with Ok (g, _) => g | Err _ => empty_graph end.

Example wc_layout_n : layout_component_n (-1) wc_o wc_g = Ok (wc_out_n, None).
Proof. vm_compute. reflexivity. Qed.

Example wc_Wn3 : W3_statement wc_o wc_out_n.
Proof. exact (Wn3_no_overlap (-1) wc_o wc_g wc_out_n _ wc_input wc_options_ok wc_sizes wc_spacing wc_layout_n). Qed.
Print Assumptions wc_Wn3.

(* what the model computes: the last band keeps the order 4, 5, 6 of the layering *)
Example wc_out_n_xy :
  map l_nodes (g_L wc_out_n) = [[0]; [1; 2; 3; 7]; [4; 5; 6]] /\
  map (fun n => (Qred (nX wc_out_n n), Qred (nY wc_out_n n), Qred (nW wc_out_n n))) [4; 5; 6] =
    map (fun n => (Qred (nX wc_out n), Qred (nY wc_out n), Qred (nW wc_out n))) [4; 6; 5].
Proof. vm_compute. split; reflexivity. Qed.
