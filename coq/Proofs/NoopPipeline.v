(* NoopPipeline.v — the pipeline with the no-op ordering (Model/PipelineNoop.v: [phase3_noop], [layout_component_n],
   [layout_n]), part 1: the contract of phase 3 and the backbone.

   S1  [number_positions]: numbering the positions band by band only writes [n_pos] ([np_frame]); on a state that
       satisfies [WmedianProofs.layered] (bands duplicate free, pairwise disjoint, inside the arena) every node gets its
       index in its band ([number_positions_posidx]); hence [number_positions_contract]: the result satisfies the SAME
       contract [order_contract] the end-to-end proofs require of the weighted-median heuristic, with the identity
       permutation on every band ([g_L] is untouched).
   S2  [phase3_noop_total] (Ok on every state satisfying [break_pre]), [phase3_noop_contract] (after phase 2).
   S3  [backbone_n], [pipeline_backbone_n]: [BKPipeline.backbone_x] / [pipeline_backbone_x] for [layout_component_n].
       There is no premise about the ordering heuristic to discharge.

   The end-to-end theorems derived from [backbone_n] are in NoopPipeline2.v, totality in NoopTotal.v. *)
From Autog Require Import Base Graph Populate Phase1 Phase2 Phase3 Phase4 Phase5 Layout Wmedian Pipeline BK PipelineBK PipelineNoop.
From Autog.Proofs Require Import ListLemmas Consistent SelfLoopProofs.
From Autog.Proofs Require CBBase CBGreedy CBGreedyRanks CBDepthFirst CBHasCycles CycleBreaking LongestPath
                          OptNormalize OptVbalance OptPipeline CrossCountProofs WmedianProofs.
From Autog.Proofs Require Import Positioners Routes BreakMerge SinkColoringProofs E2EBridge E2EBackbone.
From Autog.Proofs Require Import NSPositioner NSBridge WholeBridge BKPipeline.
From Coq Require Import Permutation Lia Lqa.
Local Open Scope nat_scope.

(* ====================================================================================================== *)
(** * 1. Numbering the positions                                                                           *)
(* ====================================================================================================== *)

Definition num_step (acc : graph * Z) (n : nat) : graph * Z :=
  (upd_node (fst acc) n (set_pos (snd acc)), (snd acc + 1)%Z).

Definition num_band (g : graph) (ns : list nat) : graph := fst (fold_left num_step ns (g, 0%Z)).

Lemma number_positions_eq : forall g,
  number_positions g = fold_left (fun g l => num_band g (l_nodes l)) (g_L g) g.
Proof. reflexivity. Qed.

(* what the numbering leaves alone: everything but [n_pos] *)
Record np_frame (g g' : graph) : Prop := {
  npf_ea : g_ea g' = g_ea g; npf_N : g_N g' = g_N g; npf_E : g_E g' = g_E g; npf_L : g_L g' = g_L g;
  npf_na : length (g_na g') = length (g_na g);
  npf_node : forall n, set_pos 0 (gnode g' n) = set_pos 0 (gnode g n) }.

Lemma np_frame_refl : forall g, np_frame g g.
Proof. intros g. constructor; reflexivity. Qed.

Lemma np_frame_trans : forall a b c, np_frame a b -> np_frame b c -> np_frame a c.
Proof. intros a b c [A1 A2 A3 A4 A5 A6] [B1 B2 B3 B4 B5 B6]. constructor; [congruence|congruence|congruence|congruence|congruence|]. intros n. rewrite B6. apply A6. Qed.

Lemma np_frame_upd : forall g n z, np_frame g (upd_node g n (set_pos z)).
Proof.
  intros g n z. constructor; try reflexivity.
  - apply upd_node_na_length.
  - intros m. apply WmedianProofs.upd_node_set_pos_frame.
Qed.

Lemma num_fold_spec : forall ns g z,
  np_frame g (fst (fold_left num_step ns (g, z))) /\
  (forall m, ~ In m ns -> pos_of (fst (fold_left num_step ns (g, z))) m = pos_of g m) /\
  (NoDup ns -> (forall n, In n ns -> n < length (g_na g)) ->
   forall j, j < length ns -> pos_of (fst (fold_left num_step ns (g, z))) (nth j ns 0) = (z + Z.of_nat j)%Z).
Proof.
  induction ns as [|a t IH]; intros g z.
  - cbn [fold_left fst]. split; [apply np_frame_refl|]. split; [reflexivity|]. intros _ _ j Hj. cbn in Hj. lia.
  - cbn [fold_left]. unfold num_step at 2. cbn [fst snd].
    set (g1 := upd_node g a (set_pos z)).
    destruct (IH g1 (z + 1)%Z) as (F & OTH & IDX).
    pose proof (np_frame_upd g a z) as F1. fold g1 in F1.
    split; [exact (np_frame_trans _ _ _ F1 F)|]. split.
    + intros m Hm. rewrite OTH by (intros H; apply Hm; right; exact H).
      unfold g1. apply WmedianProofs.pos_of_upd_other. intros E. apply Hm. left. exact E.
    + intros ND RNG j Hj. inversion ND as [|? ? Hnot ND']; subst.
      destruct j as [|j].
      * cbn [nth]. rewrite OTH by exact Hnot. unfold g1. rewrite WmedianProofs.pos_of_upd_same; [lia|].
        apply RNG. left. reflexivity.
      * cbn [nth]. rewrite IDX; [lia|exact ND'| |cbn [length] in Hj; lia].
        intros n Hn. rewrite (npf_na _ _ F1). apply RNG. right. exact Hn.
Qed.

Lemma num_band_spec : forall g ns,
  np_frame g (num_band g ns) /\
  (forall m, ~ In m ns -> pos_of (num_band g ns) m = pos_of g m) /\
  (NoDup ns -> (forall n, In n ns -> n < length (g_na g)) ->
   forall j, j < length ns -> pos_of (num_band g ns) (nth j ns 0) = Z.of_nat j).
Proof.
  intros g ns. unfold num_band. destruct (num_fold_spec ns g 0%Z) as (A & B & C).
  split; [exact A|]. split; [exact B|]. intros ND RNG j Hj. rewrite (C ND RNG j Hj). lia.
Qed.

Lemma num_bands_spec : forall (L : list layer) g,
  np_frame g (fold_left (fun g l => num_band g (l_nodes l)) L g) /\
  (forall m, (forall l, In l L -> ~ In m (l_nodes l)) ->
     pos_of (fold_left (fun g l => num_band g (l_nodes l)) L g) m = pos_of g m) /\
  ((forall l, In l L -> NoDup (l_nodes l)) ->
   (forall l n, In l L -> In n (l_nodes l) -> n < length (g_na g)) ->
   (forall i j n, i < length L -> j < length L ->
      In n (l_nodes (nth i L layer0)) -> In n (l_nodes (nth j L layer0)) -> i = j) ->
   forall k j, k < length L -> j < length (l_nodes (nth k L layer0)) ->
     pos_of (fold_left (fun g l => num_band g (l_nodes l)) L g) (nth j (l_nodes (nth k L layer0)) 0) = Z.of_nat j).
Proof.
  induction L as [|l t IH]; intros g.
  - cbn [fold_left]. split; [apply np_frame_refl|]. split; [reflexivity|]. intros _ _ _ k j Hk. cbn in Hk. lia.
  - cbn [fold_left]. set (g1 := num_band g (l_nodes l)).
    destruct (num_band_spec g (l_nodes l)) as (F1 & OTH1 & IDX1). fold g1 in F1, OTH1, IDX1.
    destruct (IH g1) as (F & OTH & IDX).
    split; [exact (np_frame_trans _ _ _ F1 F)|]. split.
    + intros m Hm. rewrite OTH by (intros l' Hl'; apply Hm; right; exact Hl').
      apply OTH1. apply Hm. left. reflexivity.
    + intros ND RNG DIS k j Hk Hj. destruct k as [|k].
      * cbn [nth] in *. rewrite OTH.
        -- apply IDX1; [apply ND; left; reflexivity|intros n Hn; apply (RNG l n); [left; reflexivity|exact Hn]|exact Hj].
        -- intros l' Hl' Hin. destruct (In_nth _ _ layer0 Hl') as (i & Hi & Ei).
           assert (E : 0 = S i).
           { apply (DIS 0 (S i) (nth j (l_nodes l) 0)); cbn [length nth]; [lia|lia|apply nth_In, Hj|rewrite Ei; exact Hin]. }
           discriminate E.
      * cbn [nth] in *. apply IDX.
        -- intros l' Hl'. apply ND. right. exact Hl'.
        -- intros l' n Hl' Hn. rewrite (npf_na _ _ F1). apply (RNG l' n); [right; exact Hl'|exact Hn].
        -- intros i j' n Hi Hj' H1 H2. assert (E : S i = S j') by (apply (DIS (S i) (S j') n); cbn [length nth]; auto; lia).
           injection E as E. exact E.
        -- cbn [length] in Hk. lia.
        -- exact Hj.
Qed.

Theorem number_positions_frame : forall g, np_frame g (number_positions g).
Proof. intros g. rewrite number_positions_eq. apply (num_bands_spec (g_L g) g). Qed.

Corollary number_positions_L : forall g, g_L (number_positions g) = g_L g.
Proof. intros g. apply (npf_L _ _ (number_positions_frame g)). Qed.

Corollary number_positions_glayer : forall g k, glayer (number_positions g) k = glayer g k.
Proof. intros g k. unfold glayer. rewrite number_positions_L. reflexivity. Qed.

Lemma np_frame_oframe : forall g g', np_frame g g' -> WmedianProofs.oframe g g'.
Proof.
  intros g g' [A1 A2 A3 A4 A5 A6]. constructor; try assumption.
  - rewrite A4. reflexivity.
  - intros k. unfold CrossCountProofs.lnodes, glayer. rewrite A4. repeat split; apply Permutation_refl.
Qed.

(* every node is numbered with its index in its band *)
Theorem number_positions_posidx : forall g, WmedianProofs.layered g -> WmedianProofs.posidx (number_positions g).
Proof.
  intros g LY k j Hj. unfold CrossCountProofs.lnodes in *. rewrite number_positions_glayer in *.
  destruct (Nat.lt_ge_cases k (length (g_L g))) as [Hk|Hk].
  - rewrite number_positions_eq. unfold glayer.
    apply (num_bands_spec (g_L g) g); [| | |exact Hk|exact Hj].
    + intros l Hl. destruct (In_nth _ _ layer0 Hl) as (i & _ & <-). apply (WmedianProofs.ly_nodup g LY i).
    + intros l n Hl Hn. destruct (In_nth _ _ layer0 Hl) as (i & _ & <-).
      apply (WmedianProofs.layered_lnodes_range g i n LY Hn).
    + intros i i' n _ _ H1 H2. apply (WmedianProofs.layered_disjoint g i i' n LY H1 H2).
  - unfold glayer in Hj. rewrite nth_overflow in Hj by exact Hk. cbn in Hj. lia.
Qed.

(* the contract of the ordering phase (the record the end-to-end proofs require of the weighted-median heuristic) *)
Theorem number_positions_contract_wm : forall g,
  WmedianProofs.layered g -> WmedianProofs.order_contract g (number_positions g).
Proof.
  intros g LY. apply WmedianProofs.order_contract_iff. split.
  - apply np_frame_oframe, number_positions_frame.
  - apply number_positions_posidx, LY.
Qed.

Theorem number_positions_contract : forall g,
  WmedianProofs.layered g -> order_contract g (number_positions g).
Proof. intros g LY. apply oc_of_wm, number_positions_contract_wm, LY. Qed.
Print Assumptions number_positions_contract.

(* ====================================================================================================== *)
(** * 2. Phase 3 with the no-op ordering                                                                   *)
(* ====================================================================================================== *)

(* never a crossing number *)
Lemma phase3_noop_none : forall g g' x, phase3_noop g = Ok (g', x) -> x = None.
Proof.
  intros g g' x H. unfold phase3_noop in H.
  destruct (Nat.eqb (length (g_N g)) 1); [injection H as _ <-; reflexivity|].
  destruct (if Nat.ltb 1 (length (g_L g)) then break_long_edges g else Ok g) as [gb|e]; cbn [bind] in H; [|discriminate].
  injection H as _ <-. reflexivity.
Qed.

(* Ok on every state that satisfies the precondition of break_long_edges (what phase 2 establishes) *)
Theorem phase3_noop_total : forall g, break_pre g -> exists g', phase3_noop g = Ok (g', None).
Proof.
  intros g PRE. unfold phase3_noop.
  destruct (Nat.eqb (length (g_N g)) 1); [eexists; reflexivity|].
  destruct (Nat.ltb 1 (length (g_L g))).
  - destruct (break_long_edges_spec g PRE) as (g3 & k & BR & _). rewrite BR. cbn [bind]. eexists. reflexivity.
  - cbn [bind]. eexists. reflexivity.
Qed.

(* a layering of a component with an edge has at least two bands *)
Lemma stage23_two_layers : forall g1 g2 g3 k, stage23 g1 g2 g3 k -> Nat.ltb 1 (length (g_L g2)) = true.
Proof.
  intros g1 g2 g3 k S. apply Nat.ltb_lt.
  pose proof (s2_L1 _ _ _ _ S) as L1. apply Nat.eqb_neq in L1.
  pose proof (s2_two _ _ _ _ S) as TWO.
  destruct (g_N g2) as [|n t] eqn:EN; [cbn in TWO; lia|].
  assert (Hn : In n (g_N g2)) by (rewrite EN; left; reflexivity).
  destruct (s2_placed _ _ _ _ S n Hn) as [_ P1].
  destruct (Nat.lt_ge_cases (Z.to_nat (layer_of g2 n)) (length (g_L g2))) as [L|L].
  - lia.
  - unfold glayer in P1. rewrite nth_overflow in P1 by exact L. destruct P1.
Qed.

(* after phase 2: phase 3 breaks the long edges and numbers the positions; the result satisfies the ordering contract
   with the identity permutation on every band *)
Theorem phase3_noop_contract : forall g1 g2 g3 k,
  CBBase.consistent g1 -> stage23 g1 g2 g3 k -> break_long_edges g2 = Ok g3 ->
  phase3_noop g2 = Ok (number_positions g3, None) /\
  order_contract g3 (number_positions g3) /\
  WmedianProofs.order_contract g3 (number_positions g3) /\
  np_frame g3 (number_positions g3) /\
  (forall kk, l_nodes (glayer (number_positions g3) kk) = l_nodes (glayer g3 kk)) /\
  (forall kk j, j < length (l_nodes (glayer g3 kk)) ->
     pos_of (number_positions g3) (nth j (l_nodes (glayer g3 kk)) 0) = Z.of_nat j).
Proof.
  intros g1 g2 g3 k C1 S BR.
  pose proof (stage23_layered g1 g2 g3 k C1 S BR) as LY.
  split.
  { unfold phase3_noop.
    assert (N2 : Nat.eqb (length (g_N g2)) 1 = false).
    { apply Nat.eqb_neq. pose proof (s2_two _ _ _ _ S). lia. }
    rewrite N2, (stage23_two_layers _ _ _ _ S), BR. reflexivity. }
  split; [apply number_positions_contract, LY|]. split; [apply number_positions_contract_wm, LY|].
  split; [apply number_positions_frame|]. split.
  - intros kk. rewrite number_positions_glayer. reflexivity.
  - intros kk j Hj. pose proof (number_positions_posidx g3 LY kk j) as P. unfold CrossCountProofs.lnodes in P.
    rewrite number_positions_glayer in P. apply P, Hj.
Qed.
Print Assumptions phase3_noop_contract.

(* ====================================================================================================== *)
(** * 3. The backbone of [layout_component_n]                                                              *)
(* ====================================================================================================== *)

(* [BKPipeline.backbone_x] with the no-op ordering in place of the weighted-median heuristic: [g3'] is [g3] with the
   positions numbered, no crossing number is reported *)
Record backbone_n (bk : Z) (o : options) (g g' : graph) (x : option Z) (g0 : graph) (del : list nat) (g1 g2 g3 : graph)
       (k : nat) (g3' : graph) (g4 gm : graph) (routes : list (nat * list nat)) (g5 : graph) : Prop := {
  nb_e0 : ignore_self_loops g = (g0, del);
  nb_e1 : phase1 (o_p1 o) g0 = Ok g1;
  nb_e2 : phase2 (o_p2 o) (Layout.ns_params o) g1 = Ok g2;
  nb_e3 : break_long_edges g2 = Ok g3;
  nb_e3' : g3' = number_positions g3;
  nb_p3 : phase3_noop g2 = Ok (g3', None);
  nb_x : x = None;
  nb_e4 : phase4x bk (o_p4 o) (p4_params o) g3' = Ok g4;
  nb_em : merge_long_edges g4 = Ok (gm, routes);
  nb_e5 : phase5 (o_p5 o) (o_layer_spacing o) g4 = Ok g5;
  nb_e6 : g' = post_process g5 del;
  nb_s01 : stage01 g g0 del g1;
  nb_s23 : stage23 g1 g2 g3 k;
  nb_s45 : stage45 (o_layer_spacing o) (o_p5 o) g2 g3 g3' g4 gm routes g5 }.

(* [BKPipeline.pipeline_backbone_x] for [layout_component_n]: any positioner, any Brandes-Koepf variant; the premise
   about the ordering heuristic is gone *)
Theorem pipeline_backbone_n : forall bk o g g' x,
  component_input g -> modelled_p5 (o_p5 o) -> ns_premise o g ->
  layout_component_n bk o g = Ok (g', x) ->
  exists g0 del g1 g2 g3 k g3' g4 gm routes g5, backbone_n bk o g g' x g0 del g1 g2 g3 k g3' g4 gm routes g5.
Proof.
  intros bk o g g' x CI O5 NS H. unfold layout_component_n in H.
  destruct (ignore_self_loops g) as [g0 del] eqn:E0.
  assert (Eg0 : g0 = fst (ignore_self_loops g)) by (rewrite E0; reflexivity).
  destruct (phase1 (o_p1 o) g0) as [g1|] eqn:P1; cbn [bind] in H; [|discriminate].
  destruct (phase2 (o_p2 o) (Layout.ns_params o) g1) as [g2|] eqn:P2; cbn [bind] in H; [|discriminate].
  pose proof (stage01_ok o g g0 del g1 CI E0 P1) as S01.
  assert (TWO1 : 2 <= length (g_N g1)).
  { destruct (rev_star_frame _ _ (s1_rs _ _ _ _ S01)) as (-> & _). rewrite (s0_N _ _ _ _ S01). apply (ci_two _ CI). }
  assert (LO : forall g2a, match o_p2 o with
                           | LongestPath => exec_longest_path g1
                           | NetworkSimplex => exec_network_simplex (Layout.ns_params o) g1
                           end = Ok g2a -> layering_ok g1 g2a).
  { intros g2a Hg. destruct (o_p2 o) eqn:EA.
    - apply lp_layering_ok; [apply (s1_c _ _ _ _ S01)|apply (s1_ranked _ _ _ _ S01)| |exact Hg].
      intros e He. apply (s1_edge _ _ _ _ S01 e He).
    - apply (NS EA g1); [rewrite <- Eg0; exact P1|exact Hg]. }
  destruct (stage23_ok (o_p2 o) (Layout.ns_params o) g1 g2 (s1_c _ _ _ _ S01) (s1_nonvirt _ _ _ _ S01) TWO1
              (s1_some_edge _ _ _ _ S01) LO P2) as (g3 & k & BR & S23).
  destruct (phase3_noop_contract g1 g2 g3 k (s1_c _ _ _ _ S01) S23 BR) as (P3 & OC & _).
  rewrite P3 in H. cbn [bind] in H.
  destruct (phase4x bk (o_p4 o) (p4_params o) (number_positions g3)) as [g4|] eqn:P4; cbn [bind] in H; [|discriminate].
  destruct (phase5 (o_p5 o) (o_layer_spacing o) g4) as [g5|] eqn:P5; cbn [bind] in H; [|discriminate].
  injection H as Hg' Hx.
  destruct (stage45_ok_x bk (o_layer_spacing o) (o_p4 o) (p4_params o) (o_p5 o) g1 g2 g3 k (number_positions g3) g4 g5
              S23 BR OC eq_refl P4 O5 P5) as (gm & routes & M & S45).
  exists g0, del, g1, g2, g3, k, (number_positions g3), g4, gm, routes, g5.
  constructor; try assumption; try reflexivity; symmetry; assumption.
Qed.
Print Assumptions pipeline_backbone_n.

(* with the network-simplex premise discharged (NSBridge.ns_premise_holds): hypotheses on the input and the router only *)
Theorem pipeline_backbone_Fn : forall bk o g g' x,
  component_input g -> modelled_p5 (o_p5 o) -> layout_component_n bk o g = Ok (g', x) ->
  exists g0 del g1 g2 g3 k g3' g4 gm routes g5, backbone_n bk o g g' x g0 del g1 g2 g3 k g3' g4 gm routes g5.
Proof. intros bk o g g' x CI O5 H. exact (pipeline_backbone_n bk o g g' x CI O5 (ns_premise_holds o g CI) H). Qed.
Print Assumptions pipeline_backbone_Fn.

(* the component never reports a crossing number *)
Theorem layout_component_n_none : forall bk o g g' x, layout_component_n bk o g = Ok (g', x) -> x = None.
Proof.
  intros bk o g g' x H. unfold layout_component_n in H.
  destruct (ignore_self_loops g) as [g0 del].
  destruct (phase1 (o_p1 o) g0) as [g1|]; cbn [bind] in H; [|discriminate].
  destruct (phase2 (o_p2 o) (Layout.ns_params o) g1) as [g2|]; cbn [bind] in H; [|discriminate].
  destruct (phase3_noop g2) as [[g3 x3]|] eqn:P3; cbn [bind] in H; [|discriminate].
  apply phase3_noop_none in P3. subst x3.
  destruct (phase4x bk (o_p4 o) (p4_params o) g3) as [g4|]; cbn [bind] in H; [|discriminate].
  destruct (phase5 (o_p5 o) (o_layer_spacing o) g4) as [g5|]; cbn [bind] in H; [|discriminate].
  injection H as _ <-. reflexivity.
Qed.

(* ====================================================================================================== *)
(** * 4. Examples: the hypotheses are satisfiable (the component of E2EExample.v)                          *)
(* ====================================================================================================== *)
From Autog.Proofs Require E2EExample.

(* [ex_g3] = the example after break_long_edges: it is [layered] (WholeBridge.exF_layered) *)
Example ex_number_positions_contract :
  order_contract E2EExample.ex_g3 (number_positions E2EExample.ex_g3) /\
  map l_nodes (g_L (number_positions E2EExample.ex_g3)) = map l_nodes (g_L E2EExample.ex_g3) /\
  map (fun l => map (pos_of (number_positions E2EExample.ex_g3)) (l_nodes l)) (g_L E2EExample.ex_g3)
    = map (fun l => map Z.of_nat (iota 0 (length (l_nodes l)))) (g_L E2EExample.ex_g3).
Proof. split; [exact (number_positions_contract _ exF_layered)|]. vm_compute. split; reflexivity. Qed.

Example ex_phase3_noop :
  phase3_noop E2EExample.ex_g2 = Ok (number_positions E2EExample.ex_g3, None).
Proof. vm_compute. reflexivity. Qed.

(* the whole component with the no-op ordering, and its backbone *)
Definition ex_out_n : graph := Eval vm_compute in
  match layout_component_n (-1) E2EExample.ex_o E2EExample.ex_g with Ok (g, _) => g | Err _ => empty_graph end.

Example ex_layout_n : layout_component_n (-1) E2EExample.ex_o E2EExample.ex_g = Ok (ex_out_n, None).
Proof. vm_compute. reflexivity. Qed.

Example ex_backbone_n : exists g0 del g1 g2 g3 k g3' g4 gm routes g5,
  backbone_n (-1) E2EExample.ex_o E2EExample.ex_g ex_out_n None g0 del g1 g2 g3 k g3' g4 gm routes g5.
Proof.
  apply pipeline_backbone_n; [exact E2EExample.ex_component_input|apply E2EExample.ex_options_ok|
                              exact E2EExample.ex_ns_premise|exact ex_layout_n].
Qed.

(* [phase3_noop_total] / [phase3_noop_contract] on the example: [stage23] holds of the intermediate graphs *)
Example ex_phase3_noop_contract :
  exists g1 g2 g3 k, CBBase.consistent g1 /\ stage23 g1 g2 g3 k /\ break_long_edges g2 = Ok g3 /\ break_pre g2 /\
                     g2 = E2EExample.ex_g2 /\ g3 = E2EExample.ex_g3.
Proof.
  destruct ex_backbone_n as (g0 & del & g1 & g2 & g3 & k & g3' & g4 & gm & routes & g5 & BB).
  pose proof (nb_e0 _ _ _ _ _ _ _ _ _ _ _ _ _ _ _ _ BB) as E0. pose proof (nb_e1 _ _ _ _ _ _ _ _ _ _ _ _ _ _ _ _ BB) as E1.
  pose proof (nb_e2 _ _ _ _ _ _ _ _ _ _ _ _ _ _ _ _ BB) as E2. pose proof (nb_e3 _ _ _ _ _ _ _ _ _ _ _ _ _ _ _ _ BB) as E3.
  assert (G0 : g0 = fst (ignore_self_loops E2EExample.ex_g)) by (rewrite E0; reflexivity). subst g0.
  pose proof E1 as E1'. rewrite E2EExample.ex_phase1 in E1'. injection E1' as <-.
  pose proof E2 as E2'. rewrite E2EExample.ex_phase2 in E2'. injection E2' as <-.
  pose proof E3 as E3'. rewrite E2EExample.ex_break in E3'. injection E3' as <-.
  exists E2EExample.ex_g1, E2EExample.ex_g2, E2EExample.ex_g3, k.
  pose proof (nb_s23 _ _ _ _ _ _ _ _ _ _ _ _ _ _ _ _ BB) as S23.
  split; [apply (s1_c _ _ _ _ (nb_s01 _ _ _ _ _ _ _ _ _ _ _ _ _ _ _ _ BB))|]. split; [exact S23|].
  split; [exact E3|]. split; [apply (s2_pre _ _ _ _ S23)|]. split; reflexivity.
Qed.
